-- This module serves as the root of the `GoSnaps` library.
-- Import modules here that should be built as part of the library.
import GoSnaps.Basic
