def hello := "world"
