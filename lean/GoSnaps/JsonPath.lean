/-
JSON paths: an executable model of the part of `gjson.GetBytes` (tidwall/gjson v1.18.0) and of
`sjson.SetBytesOptions` (tidwall/sjson v1.2.5, options `{Optimistic: …, ReplaceInPlace: false}`; go-snaps
passes `Optimistic: true`, match/utils.go — read from the source: `Generated.sjsonOptimistic`) that
go-snaps' JSON matchers rely on (match/any.go, type.go,
custom.go: `r := gjson.GetBytes(json, path); if r.Exists() { json = sjson.SetBytesOptions(json, path,
value, opts) }`).  On top of the tree `Json.JV` of GoSnaps/Json.lean.  Core Lean only.

  §1 the path TEXT and its fragment          `parsePath : Text → Option Path`
  §2 member names as gjson compares them      `gunescape`, `gkey`
  §3 positions in a tree                      `Pos`, `getAt`, `replaceAt` (independent of any path syntax)
  §4 gjson's lookup                           `loc` (backtracks over duplicate keys), `getPath`, the bound `covers`
  §5 sjson's three routes                     `locS`, `setLocO`, `setPathO` (`setPath` = with go-snaps' option)
  §6 bytes                                    `ptokens` (tokens with offsets), `spanAt`, `getB` / `setB`, `jsonGet`, `jsonSet`
  §7 how sjson encodes a Go string value      `stringify` (= `appendStringify`)

THE FRAGMENT (everything else is rejected by `parsePath`, never defaulted):
  * components separated by `.`; `\x` stands for the byte `x` whatever `x` is (`fav\.movie`, `a\*b`,
    `\#`, `\@x`, `\:k`); a final lone `\` is dropped (as both libraries do); components may be empty
    (`a.` addresses the member "" of `a`);
  * a component applied to an OBJECT is a member name, compared with the member's key after gjson's
    `unescape` (§2) — digits too (`{"0":…}` / `0`); applied to an ARRAY it is an index iff it was
    written without `\` and consists of digits only (leading zeros allowed, value taken mod 2^64 as
    `parseUint` does: `a.01` = `a.1` = `a.18446744073709551617`), anything else misses;
  * one component may be `#` (not the last one, not twice): on an array it addresses the rest of the
    path in EVERY element (`arr.#.member`, the multi-value form); on an object it is the member "#".
REJECTED: the empty path; a path starting with `..`, or `#.` followed by `..` (gjson: JSON lines); an unescaped `*` `?` (wildcards),
`|` (pipe), `@` (modifiers), `#` inside a longer component or as last component or twice (count, queries
`#(…)`, nested multi-paths); a component starting with an unescaped `:` (sjson strips it and forces a
string key, gjson takes it literally), `[` `{` (gjson sub-selectors), `!` (gjson static values), or of
the form `-digits` (sjson's "append" index `-1`).

WHERE gjson AND sjson DIFFER (all found by reading the sources and confirmed on the libraries by the
suite `json.lens`; see DESIGN.md §7 C15):
  D-a  duplicate keys.  gjson (`parseObject`) BACKTRACKS: when the first member named `a` does not
       contain the rest of the path it goes on to the next member named `a`.  sjson has three routes:
       (1) "optimistic" (every byte of the path in `.`-`9`, `A`-`z`): one gjson lookup of the whole
       path, the value found is replaced; (2) other paths without `| # @ * ?`: component by component,
       each step a gjson lookup of ONE component in the raw text of the previous result — first member
       of that name, no backtracking; when a step misses, sjson CREATES the member in the first
       candidate; (3) paths with `#` etc.: one gjson lookup, replacement at `Result.Index` /
       `Result.Indexes`.  So for `{"a":{"x":1},"a":{"y-z":2}}` and `a.y-z` gjson reports the 2, and
       sjson writes `"y-z":…` into the FIRST `a` and leaves the 2.  `setPath` returns `none` there
       (creation is outside the model); the suite reports such inputs as candidate findings.
  D-b  `:`-prefix: gjson reads the member `:k`, sjson writes the member `k`  (rejected).
  D-c  escapes: sjson honours `\` in every component; gjson only in components applied to objects —
       `parseArrayPath` splits at every `.`, so an escaped component never is an index (modelled: `esc`).
  D-d  `#`: `arr.#.q` EXISTS for gjson even when no element has `q` (result `[]`), sjson then changes
       nothing; `arr.#` (count) exists and sjson changes nothing; nested `#.#.m` has `Indexes = [0,0]`
       and sjson splices at offset 0, corrupting the document  (rejected except the plain multi form).
  D-e  the empty path: gjson finds the member ""; sjson returns an error  (rejected).
  D-f  `[b`, `{c` after a dot or at the start, `!x`, `@name` at the start: special for gjson, plain key bytes for sjson.
-/
import GoSnaps.Json
import GoSnaps.Generated.Consts
namespace GoSnaps.JsonPath

open GoSnaps GoSnaps.Json

/-! ## 1. the path text -/

/-- one component of a path: `key k esc` = the unescaped bytes `k`, `esc` = a backslash occurred in
its text; `each` = the component `#` -/
inductive Comp
  | key (k : Text) (esc : Bool)
  | each
deriving DecidableEq, Repr

abbrev Path := List Comp

/-- bytes that are special when they occur unescaped: `*` `?` `|` `#` `@` -/
def isSpecial (c : Byte) : Bool := c == 42 || c == 63 || c == 124 || c == 35 || c == 64

/-- the first component of a path text: its unescaped bytes (reversed accumulator), whether a
backslash occurred, and what follows the separating dot (`none` = end of the path).
`none` = an unescaped special byte. -/
def scanComp : Text → Text → Bool → Option (Text × Bool × Option Text)
  | [], acc, esc => some (acc.reverse, esc, none)
  | c :: r, acc, esc =>
    if c = 46 then some (acc.reverse, esc, some r)
    else if c = 92 then
      match r with
      | [] => some (acc.reverse, true, none)
      | e :: r' => scanComp r' (e :: acc) true
    else if isSpecial c then none
    else scanComp r (c :: acc) esc

/-- `-` followed by one or more digits -/
def isNegInt (k : Text) : Bool :=
  match k with
  | 45 :: d :: ds => (d :: ds).all isDigit
  | _ => false

/-- an unescaped first byte that makes a component special for one of the libraries: `:` `[` `{` `!` -/
def badStart (raw : Text) : Bool :=
  match raw with
  | c :: _ => c == 58 || c == 91 || c == 123 || c == 33
  | [] => false

/-- the components of a path text (fuel: one per byte, plus one) -/
def compsAux : Nat → Text → Option Path
  | 0, _ => none
  | n + 1, s =>
    if badStart s then none
    else
      match s with
      | [35] => some [.each]
      | 35 :: 46 :: r => (compsAux n r).map (Comp.each :: ·)
      | _ =>
        match scanComp s [] false with
        | none => none
        | some (k, esc, rest) =>
          if !esc && isNegInt k then none
          else
            match rest with
            | none => some [.key k esc]
            | some r => (compsAux n r).map (Comp.key k esc :: ·)

def isEach : Comp → Bool
  | .each => true
  | _ => false

/-- a path without `#` -/
def plain (p : Path) : Bool := p.all (fun c => !isEach c)

/-- the text of these components starts with `..` (gjson: JSON lines): two empty components and more -/
def startsDotDot : Path → Bool
  | .key [] _ :: .key [] _ :: _ :: _ => true
  | _ => false

/-- at most one `#`, not as the last component, and what follows it does not start with `..`
(gjson applies the rest of the path to every element with a fresh `Get`) -/
def eachOk : Path → Bool
  | [] => true
  | [c] => !isEach c
  | c :: rest => if isEach c then plain rest && !startsDotDot rest else eachOk rest

/-- **the parser of the path text**; `none` = outside the fragment -/
def parsePath (s : Text) : Option Path :=
  if s.isEmpty then none
  else if [46, 46].isPrefixOf s then none
  else (compsAux (s.length + 1) s).bind fun p => if eachOk p then some p else none

/-- sjson's `isOptimisticPath` on one byte: `.`-`9` or `A`-`z` -/
def optByte (c : Byte) : Bool := (46 ≤ c && c ≤ 57) || (65 ≤ c && c ≤ 122)

/-- `isOptimisticPath(path)` expressed on the components: the separators `.` and the escape byte `\`
are optimistic bytes themselves, `#` is not -/
def optimistic (p : Path) : Bool :=
  p.all fun c => match c with
    | .key k _ => k.all optByte
    | .each => false

/-! ## 2. member names as gjson compares them -/

/-- `utf8.EncodeRune` as `gjson.unescape` calls it: a surrogate code point is encoded as U+FFFD -/
def encRune (r : Nat) : Text :=
  if 0xD800 ≤ r && r < 0xE000 then replacement else encodeRune r

/-- `runeit`: the value of four hex digits (`strconv.ParseUint` returns 0 on a syntax error) -/
def hex4 (s : Text) : Nat :=
  match s with
  | h1 :: h2 :: h3 :: h4 :: _ =>
    if isHex h1 && isHex h2 && isHex h3 && isHex h4 then
      ((hexVal h1 * 16 + hexVal h2) * 16 + hexVal h3) * 16 + hexVal h4
    else 0
  | _ => 0

/-- `utf16.DecodeRune` -/
def decodePair (r1 r2 : Nat) : Nat :=
  if 0xD800 ≤ r1 && r1 < 0xDC00 && 0xDC00 ≤ r2 && r2 < 0xE000 then
    (r1 - 0xD800) * 1024 + (r2 - 0xDC00) + 0x10000
  else 0xFFFD

/-- `gjson.unescape` on the text between the quotes: it stops (returning what it has) at a byte
below 0x20 and at an unknown escape; `\uXXXX` that is a surrogate (high OR low) swallows a directly
following `\uYYYY` and the pair is decoded by `utf16.DecodeRune` (U+FFFD unless high+low); a lone
surrogate becomes U+FFFD; raw bytes ≥ 0x80 are copied, not checked -/
def gunescape : Nat → Text → Text
  | 0, _ => []
  | _ + 1, [] => []
  | n + 1, c :: r =>
    if c < 32 then []
    else if c = 92 then
      match r with
      | [] => []
      | e :: r1 =>
        if e = 117 then
          if r1.length < 4 then []
          else
            let rr := hex4 r1
            let r2 := r1.drop 4
            if 0xD800 ≤ rr && rr < 0xE000 then
              match r2 with
              | 92 :: 117 :: r3 =>
                if r3.length < 4 then encRune rr ++ gunescape n r2
                else encRune (decodePair rr (hex4 r3)) ++ gunescape n (r3.drop 4)
              | _ => encRune rr ++ gunescape n r2
            else encRune rr ++ gunescape n r2
        else if e = 92 || e = 47 || e = 34 then e :: gunescape n r1
        else if e = 98 || e = 102 || e = 110 || e = 114 || e = 116 then escByte e :: gunescape n r1
        else []
    else c :: gunescape n r

/-- the name of a member as `parseObject` compares it with a path component: the bytes between
the quotes, unescaped only when they contain a backslash -/
def gkey (raw : Text) : Text :=
  let body := (raw.drop 1).dropLast
  if body.any (· == 92) then gunescape (body.length + 1) body else body

/-- `parseUint` + `int(n)` on a component applied to an array: digits only, not escaped; the value
wraps at 2^64 and is a valid index only below 2^63 -/
def idxOf (k : Text) (esc : Bool) : Option Nat :=
  if !esc && !k.isEmpty && k.all isDigit then
    let n := digitsVal k % 2 ^ 64
    if n < 2 ^ 63 then some n else none
  else none

/-- the member name a component stands for on an object (`#` is the name "#") -/
def compName : Comp → Text
  | .key k _ => k
  | .each => [35]

/-! ## 3. positions -/

/-- a position in a tree: child numbers from the root (element number in an array, member number
in an object) -/
abbrev Pos := List Nat

/-- the subtree at a position -/
def getAt : JV → Pos → Option JV
  | v, [] => some v
  | .arr xs, i :: p => (xs[i]?).bind fun x => getAt x p
  | .obj ms, i :: p => (ms[i]?).bind fun m => getAt m.2 p
  | _, _ :: _ => none

/-- the tree with exactly the subtree at a position replaced (keys, order, every other subtree
are kept by construction); `none` = no such position -/
def replaceAt : JV → Pos → JV → Option JV
  | _, [], w => some w
  | .arr xs, i :: p, w => (xs[i]?).bind fun x => (replaceAt x p w).map fun x' => .arr (xs.set i x')
  | .obj ms, i :: p, w => (ms[i]?).bind fun m => (replaceAt m.2 p w).map fun x' => .obj (ms.set i (m.1, x'))
  | _, _ :: _, _ => none

/-- what a lookup finds: one position, or (multi-value form) the positions of all hits -/
inductive Loc
  | one (p : Pos)
  | many (ps : List Pos)
deriving DecidableEq, Repr

def Loc.push (i : Nat) : Loc → Loc
  | .one p => .one (i :: p)
  | .many ps => .many (ps.map (i :: ·))

def Loc.list : Loc → List Pos
  | .one p => [p]
  | .many ps => ps

/-! ## 4. gjson's lookup -/

/-- the number of the first member named `name` whose value passes `ok` -/
def memberIdx (name : Text) (ok : JV → Bool) (ms : List (Text × JV)) : Option Nat :=
  ms.findIdx? fun m => gkey m.1 == name && ok m.2

/-- `parseObject`: the first member with the name whose value contains the rest of the path
(`f`); a member with the right name whose value does not is skipped -/
def firstMember (name : Text) (f : JV → Option Loc) (ms : List (Text × JV)) : Option Loc :=
  (memberIdx name (fun v => (f v).isSome) ms).bind fun j =>
    (ms[j]?).bind fun m => (f m.2).map (Loc.push j)

/-- `parseArray` with `#.rest`: the hits of `rest` in every element, in order -/
def eachElem (f : JV → Option Loc) (xs : List JV) : List Pos :=
  (List.range xs.length).flatMap fun i =>
    match (xs[i]?).bind f with
    | some l => (l.push i).list
    | none => []

/-- **`gjson.Get(doc, path)`**: where the value is (`none` = `Exists()` is false) -/
def loc : Path → JV → Option Loc
  | [], _ => some (.one [])
  | c :: rest, .obj ms => firstMember (compName c) (loc rest) ms
  | .key k esc :: rest, .arr xs =>
    (idxOf k esc).bind fun i => (xs[i]?).bind fun x => (loc rest x).map (Loc.push i)
  | .each :: rest, .arr xs => some (.many (eachElem (loc rest) xs))
  | _ :: _, _ => none

/-- **what `gjson.GetBytes(doc, path)` observes**: the value (for the multi-value form the array
of the hits); `.isSome` = `Exists()` -/
def getPath (d : JV) (p : Path) : Option JV :=
  match loc p d with
  | none => none
  | some (.one pos) => getAt d pos
  | some (.many ps) => some (.arr (ps.filterMap (getAt d)))

/-- a string whose text contains `[` or `{` -/
def strBracket : JV → Bool
  | .str raw => raw.any fun c => c == 91 || c == 123
  | _ => false

/-- BOUND OF THE MODEL.  gjson applies a path to the raw TEXT of a value by searching for the first
`{` or `[`; applied to a string scalar it therefore looks INSIDE the string (`gjson.Get("\"[1,2]\"", "0")`
is `1`).  go-snaps' calls reach that in two places: a document that is a single string, and the
elements of an array under a `#` component (`Result.Get` on every element).  The offsets gjson
reports for such hits are wrong and sjson then corrupts the document (suite `json.lens`, candidate
finding).  `eachClean p d`: no `#` of `p` meets an array with such a string element (all members of
a name are inspected, gjson may backtrack into any of them).
A second quirk of the same kind: `parseArrayPath` does not know escapes, so a component with an escaped
`|` that is applied to an ARRAY sets the context's `piped` flag — harmless when the look-up fails there
(it always does: the component is not an index), but when gjson then backtracks into a LATER member of
the same name and finds the value, the stale flag makes `Get` return nothing
(`{"id":[],"id":{"|":1}}`, `id.\|`).  `eachClean` is false when a component containing `|` meets an array. -/
def eachClean : Path → JV → Bool
  | [], _ => true
  | c :: rest, .obj ms => ms.all fun m => gkey m.1 != compName c || eachClean rest m.2
  | .key k esc :: rest, .arr xs =>
    if k.any (· == 124) then false
    else
      match idxOf k esc with
      | some i => match xs[i]? with
        | some x => eachClean rest x
        | none => true
      | none => true
  | .each :: rest, .arr xs => xs.all fun x => !strBracket x && eachClean rest x
  | _ :: _, _ => true

/-- the documents and paths on which `getPath` / `setPath` are claimed to follow the libraries -/
def covers (d : JV) (p : Path) : Bool := !strBracket d && eachClean p d

/-! ## 5. sjson's replacement -/

/-- route (2), `appendRawPaths`: one component at a time, each a gjson lookup of that single
component in the raw text of the previous result — the FIRST member of the name, no backtracking.
`none` = some step misses, where sjson CREATES members instead (outside the model). -/
def locS : Path → JV → Option Pos
  | [], _ => some []
  | c :: rest, .obj ms =>
    (memberIdx (compName c) (fun _ => true) ms).bind fun j =>
      (ms[j]?).bind fun m => (locS rest m.2).map (j :: ·)
  | .key k esc :: rest, .arr xs =>
    (idxOf k esc).bind fun i => (xs[i]?).bind fun x => (locS rest x).map (i :: ·)
  | _ :: _, _ => none

/-- where `sjson.SetBytesOptions(doc, path, …, {Optimistic: opt})` writes, for a path that gjson
finds: route (1) `opt` and optimistic bytes only — the position gjson found; route (2) other `#`-free
paths — component by component; route (3) paths with `#` — the position(s) gjson found -/
def setLocO (opt : Bool) (d : JV) (p : Path) : Option Loc :=
  if opt && optimistic p then loc p d
  else if plain p then (locS p d).map .one
  else loc p d

/-- … with the option go-snaps passes (match/utils.go `setJSONOptions`, read from the source by
tools/extract on every run) -/
def setLoc (d : JV) (p : Path) : Option Loc := setLocO Generated.sjsonOptimistic d p

/-- replace the subtrees at several positions (pairwise not nested), leaving the tree alone where a
position does not exist -/
def replaceAll (d : JV) (ps : List Pos) (w : JV) : JV :=
  ps.foldl (fun d pos => (replaceAt d pos w).getD d) d

/-- **`sjson.SetBytesOptions(doc, path, value, {Optimistic: opt})` on a path that exists** (tree level):
`none` = the path is not found by the route sjson takes (it would create members) -/
def setPathO (opt : Bool) (d : JV) (p : Path) (w : JV) : Option JV :=
  match setLocO opt d p with
  | none => none
  | some (.one pos) => replaceAt d pos w
  | some (.many ps) => some (replaceAll d ps w)

def setPath (d : JV) (p : Path) (w : JV) : Option JV := setPathO Generated.sjsonOptimistic d p w

/-! ## 6. bytes -/

/-- number of leading white-space bytes -/
def wsCount : Text → Nat
  | [] => 0
  | c :: r => if isWs c then wsCount r + 1 else 0

/-- number of bytes of a token -/
def tokLen : Tok → Nat
  | .str r => r.length
  | .num r => r.length
  | .tru => 4
  | .fls => 5
  | .nul => 4
  | _ => 1

/-- the tokens of a text with the byte offsets `[start, end)` of each (`off` = offset of `s`) -/
def ptokensAux : Nat → Nat → Text → Option (List (Tok × Nat × Nat))
  | 0, _, _ => none
  | n + 1, off, s =>
    match skipWs s with
    | [] => some []
    | c :: r =>
      match nextTok (c :: r) with
      | none => none
      | some p =>
        let a := off + wsCount s
        let b := a + tokLen p.1
        (ptokensAux n b p.2).map ((p.1, a, b) :: ·)

def ptokens (s : Text) : Option (List (Tok × Nat × Nat)) := ptokensAux (s.length + 1) 0 s

/-- number of tokens of a tree -/
def ntoks (v : JV) : Nat := (toks v).length

/-- index, in `toks v`, of the first token of the subtree at a position -/
def tokStart : JV → Pos → Option Nat
  | _, [] => some 0
  | .arr xs, i :: p =>
    (xs[i]?).bind fun x => (tokStart x p).map fun k =>
      1 + ((xs.take i).map fun y => ntoks y + 1).sum + k
  | .obj ms, i :: p =>
    (ms[i]?).bind fun m => (tokStart m.2 p).map fun k =>
      1 + ((ms.take i).map fun y => ntoks y.2 + 3).sum + 2 + k
  | _, _ :: _ => none

/-- the byte range `[a, b)` of the subtree at a position, given the document's tokens with offsets
(`pt = ptokens doc`) and its tree -/
def spanAt (pt : List (Tok × Nat × Nat)) (d : JV) (pos : Pos) : Option (Nat × Nat) :=
  match tokStart d pos, getAt d pos with
  | some k, some sub =>
    match pt[k]?, pt[k + ntoks sub - 1]? with
    | some (_, a, _), some (_, _, b) => some (a, b)
    | _, _ => none
  | _, _ => none

/-- the bytes `[a, b)` -/
def slice (doc : Text) (ab : Nat × Nat) : Text := (doc.drop ab.1).take (ab.2 - ab.1)

/-- replace the bytes `[a, b)` -/
def splice (doc : Text) (ab : Nat × Nat) (val : Text) : Text := doc.take ab.1 ++ val ++ doc.drop ab.2

def joinComma : List Text → Text
  | [] => []
  | [x] => x
  | x :: xs => x ++ 44 :: joinComma xs

/-- `jsonGet` once the document is parsed (`d`) and the path is in the fragment (`p`) -/
def getB (doc : Text) (d : JV) (p : Path) : Option (Option (Text × List Nat)) :=
  match ptokens doc with
  | none => none
  | some pt =>
    match loc p d with
    | none => some none
    | some (.one pos) => (spanAt pt d pos).map fun ab => some (slice doc ab, [ab.1])
    | some (.many ps) =>
      (ps.mapM (spanAt pt d)).map fun spans =>
        some (91 :: joinComma (spans.map (slice doc)) ++ [93], spans.map (·.1))

/-- `jsonSet` once the document is parsed and the path is in the fragment: the bytes of the value(s)
found are replaced (later offsets first, as `setComplexPath` does), every other byte stays -/
def setB (opt : Bool) (doc : Text) (d : JV) (p : Path) (val : Text) : Option Text :=
  match ptokens doc, setLocO opt d p with
  | some pt, some l =>
    (l.list.mapM (spanAt pt d)).map fun spans => spans.foldr (fun ab acc => splice acc ab val) doc
  | _, _ => none

/-- **`gjson.GetBytes(doc, path)` on bytes**: `Result.Raw` (the bytes of the value as they stand in
the document; for the multi-value form `[` + the raw hits joined by `,` + `]`) and the offsets
`Result.Index` / `Result.Indexes`.  Outer `none` = the document or the path is outside the model
(not JSON, path outside the fragment, `covers` false), inner `none` = the path does not exist. -/
def jsonGet (doc path : Text) : Option (Option (Text × List Nat)) :=
  match parsePath path, parse doc with
  | some p, some d => if covers d p then getB doc d p else none
  | _, _ => none

/-- **`sjson.SetBytesOptions(doc, path, value, {Optimistic: true})` on bytes**, `val` = the JSON text
sjson writes for `value` (it must be a JSON value): sjson splices — every byte outside the replaced
value(s) stays, white space included.
`none` = outside the model (document, path or value not covered, or sjson would create members). -/
def jsonSet (doc path val : Text) : Option Text :=
  match parsePath path, parse doc, parse val with
  | some p, some d, some _ => if covers d p then setB Generated.sjsonOptimistic doc d p val else none
  | _, _, _ => none

/-! ## 7. the value: `appendStringify` -/

/-- `mustMarshalString`: a byte below 0x20 or above 0x7f, `"` or `\` -/
def mustMarshal (s : Text) : Bool := s.any fun c => c < 32 || c > 127 || c == 34 || c == 92

def hexDigitLower (n : Nat) : Byte := if n < 10 then UInt8.ofNat (48 + n) else UInt8.ofNat (87 + n)

/-- `encoding/json.Marshal(string)` (Go >= 1.22, `escapeHTML = true`), the body: `"` and `\` get a
backslash, `\b \f \n \r \t` short forms, other bytes < 0x20 and `<` `>` `&` as `\u00XX`, every byte that
is not part of well-formed UTF-8 as `\ufffd`, U+2028 / U+2029 as `\u2028` / `\u2029`, everything else copied -/
def marshalBody : Nat → Text → Text
  | 0, _ => []
  | _ + 1, [] => []
  | n + 1, c :: r =>
    if c < 128 then
      (if c = 92 || c = 34 then [92, c]
       else if c = 8 then [92, 98]
       else if c = 12 then [92, 102]
       else if c = 10 then [92, 110]
       else if c = 13 then [92, 114]
       else if c = 9 then [92, 116]
       else if c < 32 || c = 60 || c = 62 || c = 38 then
         [92, 117, 48, 48, hexDigitLower (c.toNat / 16), hexDigitLower (c.toNat % 16)]
       else [c]) ++ marshalBody n r
    else
      let k := utf8Len (c :: r)
      if k = 0 then [92, 117, 102, 102, 102, 100] ++ marshalBody n r
      else if (c :: r).take 3 = [0xE2, 0x80, 0xA8] then [92, 117, 50, 48, 50, 56] ++ marshalBody n (r.drop 2)
      else if (c :: r).take 3 = [0xE2, 0x80, 0xA9] then [92, 117, 50, 48, 50, 57] ++ marshalBody n (r.drop 2)
      else (c :: r).take k ++ marshalBody n ((c :: r).drop k)

/-- **`appendStringify`**: the JSON text sjson writes for a Go `string` value — the bytes between
quotes when no byte needs care, `encoding/json`'s encoding otherwise.  (So `<Any value>` is written
as is, while `<a "b">` becomes `<a \"b\">`.) -/
def stringify (s : Text) : Text :=
  if mustMarshal s then 34 :: marshalBody (s.length + 1) s ++ [34] else 34 :: s ++ [34]

end GoSnaps.JsonPath
