/-
Go run-time semantics needed by the transliterated functions of `GoSnaps.Generated.Funcs`
(tools/extract/funcs.go): `int`, `len`, indexing, slicing, index assignment, counting and range
loops, and the few library functions that have no total counterpart in the model.

Conventions
* Go `int` is `Int` (no overflow: the translated functions only compute values bounded by
  `len x + 3`, a digit count, or `start + 1` / `stop - start`).
* `string` and `[]byte` are `List UInt8`; a `[]byte` is modelled with `cap = len`.
* An operation that can panic returns `Option`: `none` = the Go program panics with a run-time
  error (`index out of range`, `slice bounds out of range`, `negative Repeat count`).  For a
  `[]byte` operand `slice` is also `none` for `len < hi ≤ cap`, where Go would expose bytes
  beyond `len` that a list cannot represent; no theorem of `Props/Tie.lean` depends on that case
  (all are proved to yield `some`).
-/
import GoSnaps.Bytes
import GoSnaps.Path
namespace GoSnaps.GoSem

/-- `len(x)` -/
def len {α : Type} (l : List α) : Int := (l.length : Int)

/-- `x[i]`; `none` = panic: index out of range -/
def index {α : Type} (l : List α) (i : Int) : Option α :=
  if i < 0 then none else l[i.toNat]?

/-- `x[lo:hi]`; `none` = panic: slice bounds out of range (`0 ≤ lo ≤ hi ≤ len x` is required) -/
def slice {α : Type} (l : List α) (lo hi : Int) : Option (List α) :=
  if 0 ≤ lo ∧ lo ≤ hi ∧ hi ≤ (l.length : Int) then some ((l.drop lo.toNat).take (hi.toNat - lo.toNat))
  else none

/-- `x[i] = v`; `none` = panic: index out of range -/
def setIndex {α : Type} (l : List α) (i : Int) (v : α) : Option (List α) :=
  if 0 ≤ i ∧ i < (l.length : Int) then some (l.set i.toNat v) else none

/-- `x[i] = v` where `i` is in range by construction (the index variable of a `range` loop over
    `x` whose body cannot change `len x`) -/
def setAt {α : Type} (l : List α) (i : Int) (v : α) : List α := l.set i.toNat v

def intRangeAux (lo : Int) : Nat → List Int
  | 0 => []
  | n + 1 => lo :: intRangeAux (lo + 1) n

/-- the values taken by `i` in `for i := lo; i < hi; i++` (the body assigns neither `i` nor a
    variable of `hi`) -/
def intRange (lo hi : Int) : List Int := intRangeAux lo (hi - lo).toNat

def enumFrom {α : Type} (k : Int) : List α → List (Int × α)
  | [] => []
  | x :: xs => (k, x) :: enumFrom (k + 1) xs

/-- the (index, element) pairs of `for i, x := range xs` -/
def enum {α : Type} (l : List α) : List (Int × α) := enumFrom 0 l

/-- `strings.Index` / `bytes.Index`: `-1` when `sep` does not occur -/
def indexInt (s sep : Text) : Int :=
  match indexOf s sep with
  | some i => (i : Int)
  | none => -1

/-- `strings.Split(s, sep)[0]` for `sep ≠ ""`: the text before the first occurrence of `sep`,
    or all of `s` -/
def splitHead (s sep : Text) : Text :=
  match indexOf s sep with
  | some i => s.take i
  | none => s

/-- `strings.SplitAfter(s, "\n")`: the `strings.Split` segments, each but the last followed by
    its newline -/
def splitAfterNL : Text → List Text
  | [] => [[]]
  | c :: cs =>
    if c = nl then [nl] :: splitAfterNL cs
    else match splitAfterNL cs with
      | [] => [[c]]
      | l :: ls => (c :: l) :: ls

/-- `strconv.Itoa` -/
def itoa (n : Int) : Text :=
  if n < 0 then 45 :: natToText n.natAbs else natToText n.toNat

/-- `strings.Repeat(s, n)`; `none` = panic: negative Repeat count -/
def stringsRepeat (s : Text) (n : Int) : Option Text :=
  if n < 0 then none else some (List.replicate n.toNat s).flatten

/-- `filepath.Rel(base, targ)` as (result, `err != nil`), built on the model's partial `fpRel`:
    exact when both operands are absolute (Go: both are cleaned, the result is never an error).
    When an operand is relative the model has no answer (`fpRel = none`); this function then
    returns Go's error shape `("", true)`, which is what Go does when exactly one operand is
    relative, but NOT necessarily when both are (Go can still succeed then). -/
def filepathRel (base targ : Text) : Text × Bool :=
  match fpRel base targ with
  | some r => (r, false)
  | none => ([], true)

/-- `make([]string, n)`: `n` empty strings (`n ≥ 0`: it is a `len`) -/
def makeTexts (n : Int) : List Text := List.replicate n.toNat []

/-! ## basic facts -/

theorem intRangeAux_length (lo : Int) (n : Nat) : (intRangeAux lo n).length = n := by
  induction n generalizing lo with
  | zero => rfl
  | succ n ih => simp [intRangeAux, ih]

theorem intRange_zero_len {α : Type} (l : List α) : intRange 0 (len l) = intRangeAux 0 l.length := by
  simp [intRange, len]

theorem index_ofNat {α : Type} (l : List α) (k : Nat) : index l (k : Int) = l[k]? := by
  simp [index]
  omega

theorem index_append_length {α : Type} (pre : List α) (x : α) (suf : List α) :
    index (pre ++ x :: suf) (pre.length : Int) = some x := by
  rw [index_ofNat]; simp

theorem index_neg {α : Type} (l : List α) (i : Int) (h : i < 0) : index l i = none := by
  simp [index, h]

theorem index_len_sub_one {α : Type} (l : List α) : index l (len l - 1) = l.getLast? := by
  cases l with
  | nil => simp [index, len]
  | cons x xs =>
    have : (len (x :: xs) - 1) = ((xs.length : Nat) : Int) := by simp [len]
    rw [this, index_ofNat, List.getLast?_eq_getElem?]; simp

theorem slice_ofNat {α : Type} (l : List α) (lo hi : Nat) (h1 : lo ≤ hi) (h2 : hi ≤ l.length) :
    slice l (lo : Int) (hi : Int) = some ((l.drop lo).take (hi - lo)) := by
  unfold slice
  rw [if_pos (by omega)]
  simp

theorem stringsRepeat_ofNat (s : Text) (n : Nat) :
    stringsRepeat s (n : Int) = some (List.replicate n s).flatten := by
  unfold stringsRepeat
  rw [if_neg (by omega)]
  simp

theorem setAt_append_length {α : Type} (pre : List α) (x v : α) (suf : List α) :
    setAt (pre ++ x :: suf) (pre.length : Int) v = pre ++ v :: suf := by
  simp [setAt]

theorem setIndex_append_length {α : Type} (pre : List α) (x v : α) (suf : List α) :
    setIndex (pre ++ x :: suf) (pre.length : Int) v = some (pre ++ v :: suf) := by
  unfold setIndex
  rw [if_pos (by simp; omega)]
  simp

end GoSnaps.GoSem
