/-
C13 — the failure report (NO_COLOR) is empty only for identical texts, and shows the true edit.

Statements + short proofs; helper lemmas live in Lemmas/Diff.lean, the difflib layer in
Lemmas/Difflib.lean and Props/C13Difflib.lean.  Everything is about the executable model
definitions of `GoSnaps/Diff.lean` (frozen; compared with the Go code by differential testing).

Concrete examples are checked with `decide +kernel` (plain kernel evaluation, no extra axioms;
plain `decide` gets stuck on the well-founded `extFwd`).
Byte legend: 10 = "\n", 32 = " ", 43 = "+", 45 = "-", 97.. = "a"..
-/
import GoSnaps.Lemmas.Diff
namespace GoSnaps.C13

open GoSnaps GoSnaps.Difflib

/-! ## 1. `splitNewlines` loses nothing -/

theorem splitNewlines_injective {a b : Text} : splitNewlines a = splitNewlines b → a = b :=
  splitNewlines_inj

example : splitNewlines [97, 10, 98] = [[97, 10], [98, 10]] ∧
    splitNewlines [97, 10, 98, 10] = [[97, 10], [98, 10], [10]] := by decide

/-! ## 2. the report is empty exactly for identical texts -/

/-- the unified-diff text itself is empty exactly for identical texts -/
theorem diff_text_empty_iff (e r : Text) : (getUnifiedDiff e r).text = [] ↔ e = r := by
  constructor
  · intro h
    apply Classical.byContradiction
    intro hne
    exact getUnifiedDiff_text_ne_nil hne h
  · rintro rfl
    rw [getUnifiedDiff_text]
    simp [diffRows, grouped_empty_of_eq, renderRows]

/-- **C13 main**: for ALL texts, names and line numbers, `prettyDiff` (NO_COLOR) returns the
empty report iff expected and received are byte-identical. -/
theorem report_empty_iff (e r name : Text) (line : Nat) : prettyDiff e r name line = [] ↔ e = r := by
  constructor
  · intro h
    apply Classical.byContradiction
    intro hne
    simp only [prettyDiff, hne, ↓reduceIte, buildDiffReport_eq_nil_iff] at h
    exact getUnifiedDiff_text_ne_nil hne h
  · rintro rfl
    simp [prettyDiff]

/-- texts differing only in a trailing newline are reported -/
example : prettyDiff [97, 10, 98] [97, 10, 98, 10] [110] 5 ≠ [] :=
  fun h => absurd ((report_empty_iff _ _ _ _).mp h) (by decide)

/-- the whole report for "a\nb" vs "a\nc", name "n", line 5:
"\n- Snapshot - 1\n+ Received + 1\n\n  a\n- b\n+ c\n\nat n:5\n" -/
example : prettyDiff [97, 10, 98] [97, 10, 99] [110] 5 =
    [10, 45, 32, 83, 110, 97, 112, 115, 104, 111, 116, 32, 45, 32, 49, 10,
     43, 32, 82, 101, 99, 101, 105, 118, 101, 100, 32, 43, 32, 49, 10, 10,
     32, 32, 97, 10, 45, 32, 98, 10, 43, 32, 99, 10, 10, 97, 116, 32, 110, 58, 53, 10] := by
  decide +kernel

/-! ## 3. structured rows; the counters count the `-` and `+` rows

`Row`, `Row.render`, `renderRows`, `diffRows`, `delLines`, `insLines` are defined in
Lemmas/Diff.lean §C. -/

/-- the text produced by the executable fold is the rendering of the structured rows -/
theorem text_is_rendered_rows (a b : Text) :
    (getUnifiedDiff a b).text = ((diffRows a b).map Row.render).flatten :=
  getUnifiedDiff_text a b

/-- `deleted` = number of `-` rows emitted, `inserted` = number of `+` rows emitted -/
theorem counts_match (a b : Text) :
    (getUnifiedDiff a b).deleted = ((diffRows a b).filter Row.isDel).length ∧
    (getUnifiedDiff a b).inserted = ((diffRows a b).filter Row.isIns).length := by
  rw [getUnifiedDiff_deleted, getUnifiedDiff_inserted, length_delLines, length_insLines]
  exact ⟨rfl, rfl⟩

/-- "a\nb\nc" vs "a\nx\ny\nc": one context row, one `-` row, two `+` rows, one context row -/
example : diffRows [97, 10, 98, 10, 99] [97, 10, 120, 10, 121, 10, 99] =
    [.eq [97, 10], .del [98, 10], .ins [120, 10], .ins [121, 10], .eq [99, 10]] := by
  decide +kernel

example : (getUnifiedDiff [97, 10, 98, 10, 99] [97, 10, 120, 10, 121, 10, 99]).deleted = 1 ∧
    (getUnifiedDiff [97, 10, 98, 10, 99] [97, 10, 120, 10, 121, 10, 99]).inserted = 2 := by
  decide +kernel

/-! ## 4. `-` rows are lines of `a`, `+` rows are lines of `b`, in order -/

/-- the `-` rows, in the order printed, form a sublist of the lines of `a` -/
theorem minus_rows_from_a (a b : Text) : (delLines (diffRows a b)).Sublist (splitNewlines a) := by
  rw [delLines_diffRows]
  have h := delSlice_sublist_aParts (splitNewlines a) (getOpCodes (splitNewlines a) (splitNewlines b))
  rwa [opcodes_cover_a] at h

/-- the `+` rows, in the order printed, form a sublist of the lines of `b` -/
theorem plus_rows_from_b (a b : Text) : (insLines (diffRows a b)).Sublist (splitNewlines b) := by
  rw [insLines_diffRows]
  have h := insSlice_sublist_bParts (splitNewlines b) (getOpCodes (splitNewlines a) (splitNewlines b))
  rwa [opcodes_cover_b] at h

theorem minus_row_mem (a b l : Text) (h : Row.del l ∈ diffRows a b) : l ∈ splitNewlines a := by
  apply (minus_rows_from_a a b).subset
  exact List.mem_filterMap.mpr ⟨_, h, rfl⟩

theorem plus_row_mem (a b l : Text) (h : Row.ins l ∈ diffRows a b) : l ∈ splitNewlines b := by
  apply (plus_rows_from_b a b).subset
  exact List.mem_filterMap.mpr ⟨_, h, rfl⟩

example : (delLines (diffRows [97, 10, 98, 10, 99] [97, 10, 120, 10, 121, 10, 99])).Sublist
    [[97, 10], [98, 10], [99, 10]] := minus_rows_from_a [97, 10, 98, 10, 99] _

example : delLines (diffRows [97, 10, 98, 10, 99] [97, 10, 120, 10, 121, 10, 99]) = [[98, 10]] ∧
    insLines (diffRows [97, 10, 98, 10, 99] [97, 10, 120, 10, 121, 10, 99]) = [[120, 10], [121, 10]] := by
  decide +kernel

/-! ## 5. what is not shown as changed is identical

`residueA a ops` / `residueB b ops` (Lemmas/Diff.lean §F) keep the `a`- resp. `b`-ranges of
the Equal opcodes only, i.e. they drop exactly the positions covered by change opcodes. -/

/-- on the full opcode list, the residues of `a` and `b` coincide (any element type) -/
theorem residue_equal {α : Type} [DecidableEq α] (a b : List α) :
    residueA a (getOpCodes a b) = residueB b (getOpCodes a b) :=
  residue_eq_of_forall a b _ (fun c hc ht => equal_only_identical a b c hc ht)

/-- the hunks of the report contain exactly the change opcodes of the full list, in order -/
theorem hunks_same_changes (a b : Text) :
    changes (getGroupedOpCodes (splitNewlines a) (splitNewlines b) Generated.diffContext).flatten =
      changes (getOpCodes (splitNewlines a) (splitNewlines b)) :=
  grouped_changes _ _ _

/-- hence the printed `-` / `+` rows are precisely the `a`- / `b`-sides of the change opcodes
of the full list … -/
theorem shown_changes (a b : Text) :
    delLines (diffRows a b) =
      (getOpCodes (splitNewlines a) (splitNewlines b)).flatMap (delSlice (splitNewlines a)) ∧
    insLines (diffRows a b) =
      (getOpCodes (splitNewlines a) (splitNewlines b)).flatMap (insSlice (splitNewlines b)) :=
  ⟨delLines_diffRows a b, insLines_diffRows a b⟩

/-- … `a` is partitioned (in order) into its residue pieces and its `-` rows, `b` into its
residue pieces and its `+` rows … -/
theorem partition_a (a b : Text) :
    (getOpCodes (splitNewlines a) (splitNewlines b)).flatMap
      (fun c => (if c.tag = opEqual then slice (splitNewlines a) c.i1 c.i2 else []) ++
        delSlice (splitNewlines a) c) = splitNewlines a := by
  rw [flatMap_eq_aParts (splitNewlines a), opcodes_cover_a]
  intro c hc
  obtain ⟨_, _, _, _, hcase⟩ := (opcodes_tile (splitNewlines a) (splitNewlines b)).2.2.2.2 c hc
  rcases hcase with ⟨h, _⟩ | ⟨h, h1, _⟩ | ⟨h, _⟩ | ⟨h, _⟩
  · simp [h, delSlice]
  · simp [h, delSlice, h1, slice, sliceL]
  · simp [h, delSlice, sliceL_eq_slice]
  · simp [h, delSlice, sliceL_eq_slice]

theorem partition_b (a b : Text) :
    (getOpCodes (splitNewlines a) (splitNewlines b)).flatMap
      (fun c => (if c.tag = opEqual then slice (splitNewlines b) c.j1 c.j2 else []) ++
        insSlice (splitNewlines b) c) = splitNewlines b := by
  rw [flatMap_eq_bParts (splitNewlines b), opcodes_cover_b]
  intro c hc
  obtain ⟨_, _, _, _, hcase⟩ := (opcodes_tile (splitNewlines a) (splitNewlines b)).2.2.2.2 c hc
  rcases hcase with ⟨h, _⟩ | ⟨h, _⟩ | ⟨h, _, h1⟩ | ⟨h, _⟩
  · simp [h, insSlice]
  · simp [h, insSlice, sliceL_eq_slice]
  · simp [h, insSlice, h1, slice, sliceL]
  · simp [h, insSlice, sliceL_eq_slice]

/-- … and the two residues are the same list of lines: deleting the `-` rows from `a` and the
`+` rows from `b` (at the positions of the change opcodes) leaves identical texts. -/
theorem residue_equal_lines (a b : Text) :
    residueA (splitNewlines a) (getOpCodes (splitNewlines a) (splitNewlines b)) =
    residueB (splitNewlines b) (getOpCodes (splitNewlines a) (splitNewlines b)) :=
  residue_equal _ _

example :
    residueA (splitNewlines [97, 10, 98, 10, 99]) (getOpCodes (splitNewlines [97, 10, 98, 10, 99])
      (splitNewlines [97, 10, 120, 10, 121, 10, 99])) = [[97, 10], [99, 10]] ∧
    residueB (splitNewlines [97, 10, 120, 10, 121, 10, 99]) (getOpCodes (splitNewlines [97, 10, 98, 10, 99])
      (splitNewlines [97, 10, 120, 10, 121, 10, 99])) = [[97, 10], [99, 10]] := by
  decide +kernel

/-- positional reading: `residueA` is literally `a` with the positions lying in the `a`-range
of some change opcode deleted (`keepUncovered`, `covA`: Lemmas/Diff.lean §F'), likewise for `b` -/
theorem residue_is_positional {α : Type} [DecidableEq α] (a b : List α) :
    residueA a (getOpCodes a b) = keepUncovered (covA (getOpCodes a b)) a 0 ∧
    residueB b (getOpCodes a b) = keepUncovered (covB (getOpCodes a b)) b 0 := by
  have h := getOpCodes_tile a b
  exact ⟨by simpa using residueA_tile _ 0 0 h, by simpa using residueB_tile _ 0 0 h⟩

/-- **C13.5 in positional form**: delete from `a` every position covered by the `a`-range of a
non-Equal opcode and from `b` every position covered by the `b`-range of a non-Equal opcode:
the two remaining lists are equal. -/
theorem residue_equal_positional {α : Type} [DecidableEq α] (a b : List α) :
    keepUncovered (covA (getOpCodes a b)) a 0 = keepUncovered (covB (getOpCodes a b)) b 0 := by
  rw [← (residue_is_positional a b).1, ← (residue_is_positional a b).2]
  exact residue_equal a b

example :
    keepUncovered (covA (getOpCodes (splitNewlines [97, 10, 98, 10, 99])
      (splitNewlines [97, 10, 120, 10, 121, 10, 99]))) (splitNewlines [97, 10, 98, 10, 99]) 0
      = [[97, 10], [99, 10]] := by
  decide +kernel

/-- a 12-line text ("a".."l") with line 6 changed: more than 10 lines, so a hunk header
"@@ -3,7 +3,7 @@" is printed and only 3 lines of context on each side are shown -/
example :
    diffRows [97,10,98,10,99,10,100,10,101,10,102,10,103,10,104,10,105,10,106,10,107,10,108]
             [97,10,98,10,99,10,100,10,101,10,120,10,103,10,104,10,105,10,106,10,107,10,108] =
    [.range [64, 64, 32, 45, 51, 44, 55, 32, 43, 51, 44, 55, 32, 64, 64, 10, 10],
     .eq [99, 10], .eq [100, 10], .eq [101, 10], .del [102, 10], .ins [120, 10],
     .eq [103, 10], .eq [104, 10], .eq [105, 10]] := by
  decide +kernel

/-! ## 6. the report adds no ESC byte (NO_COLOR)

Byte 27 (ESC) starts every ANSI colour sequence.  The report is a concatenation of ESC-free
constants, decimal numbers, hunk headers and pieces of the inputs, so it contains an ESC only
if an input does.  This is the FULL statement: the fact that `formatRangeUnified` (a `String`
rendered through `ofString` / `String.toUTF8`) is ESC-free is proved too
(`esc_not_in_formatRangeUnified`, via `ofString_eq` and `Nat.isDigit_of_mem_toDigits`), so no
`hRange` hypothesis is needed. -/

theorem range_header_no_escape (s e : Nat) : (27 : Byte) ∉ ofString (formatRangeUnified s e) :=
  esc_not_in_formatRangeUnified s e

theorem number_no_escape (n : Nat) : (27 : Byte) ∉ natToText n := esc_not_in_natToText n

theorem no_escape_added (e r name : Text) (line : Nat)
    (h : (27 : Byte) ∈ prettyDiff e r name line) :
    (27 : Byte) ∈ e ∨ (27 : Byte) ∈ r ∨ (27 : Byte) ∈ name := by
  unfold prettyDiff at h
  split at h
  · simp at h
  · rcases esc_of_buildDiffReport h with h | h
    · rcases esc_of_diff_text h with h | h
      · exact Or.inl h
      · exact Or.inr (Or.inl h)
    · exact Or.inr (Or.inr h)

/-- ESC-free inputs give an ESC-free report (here with a hunk header) -/
example : (27 : Byte) ∉ prettyDiff
    [97,10,98,10,99,10,100,10,101,10,102,10,103,10,104,10,105,10,106,10,107,10,108]
    [97,10,98,10,99,10,100,10,101,10,120,10,103,10,104,10,105,10,106,10,107,10,108] [110] 7 :=
  fun h => absurd (no_escape_added _ _ _ _ h) (by decide)

/-- an ESC in the input is shown verbatim (it is not stripped) -/
example : (27 : Byte) ∈ prettyDiff [27, 91, 51, 49, 109, 97] [97] [110] 7 := by decide +kernel

end GoSnaps.C13
