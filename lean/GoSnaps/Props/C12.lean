/-
C12 — Config values are immutable: no Match* call, no Skip, no Clean and no t.Cleanup writes
through a `*Config`; the path a call addresses is a function of the Config VALUE it was given,
so the order of calls through a shared Config is irrelevant for the addressing.

The fact "no assignment through a *Config receiver/parameter exists in the source"
(`Generated.configWrites = []`) is regenerated from /repo on every run; theorem
`no_config_writes` is the obligation on it.  `Driver.docOp` consults the same fact to decide
whether `(*Config).MatchStandaloneJSON`'s defaulting of the extension lands in the shared
Config (`setCfg`) or in a copy.
-/
import GoSnaps.Model
import GoSnaps.Clean
import GoSnaps.Driver
import GoSnaps.Props.C19
import GoSnaps.Lemmas.Update
namespace GoSnaps.C12

open GoSnaps

/-! ## 1. the regenerated structural fact -/

/-- no write through a `*Config` in the current source (fails to check if one is introduced) -/
theorem no_config_writes : Generated.configWrites = [] := by decide

/-! ## 2. no model step changes the Config store -/

theorem config_immutable_handleError (w : World) (msg : Text) : (handleError w msg).1.cfgs = w.cfgs := rfl

theorem config_immutable_entryTail (w : World) (c : Cfg) (snapPath rel testID snapshot : Text) (cmp : Cmp) :
    (entryTail w c snapPath rel testID snapshot cmp).1.cfgs = w.cfgs := by
  unfold entryTail
  dsimp only
  repeat' split
  all_goals rfl

theorem config_immutable_standaloneTail (w : World) (c : Cfg) (snapPath rel snapshot : Text) :
    (standaloneTail w c snapPath rel snapshot).1.cfgs = w.cfgs := by
  unfold standaloneTail
  dsimp only
  repeat' split
  all_goals rfl

theorem config_immutable_matchEntry (w : World) (c : Cfg) (caller tName : Text) (texec : Nat)
    (cmp : Cmp) (pre : Except Text Text) :
    (matchEntry w c caller tName texec cmp pre).1.cfgs = w.cfgs := by
  unfold matchEntry
  generalize snapshotPath c caller tName false = sp
  obtain ⟨snapPath, rel?⟩ := sp
  dsimp only
  split
  · cases pre with
    | error msg => rfl
    | ok s => exact config_immutable_entryTail _ _ _ _ _ _ _
  · rfl

theorem config_immutable_matchStandalone (w : World) (c : Cfg) (caller tName : Text) (texec : Nat)
    (pre : Except Text Text) :
    (matchStandalone w c caller tName texec pre).1.cfgs = w.cfgs := by
  unfold matchStandalone
  generalize snapshotPath c caller tName true = sp
  obtain ⟨generic, grel?⟩ := sp
  dsimp only
  split
  · rfl
  · split
    · cases pre with
      | error msg => rfl
      | ok s => exact config_immutable_standaloneTail _ _ _ _ _
    · rfl

theorem config_immutable_trackSkip (w : World) (tName : Text) : (trackSkip w tName).cfgs = w.cfgs := rfl

theorem config_immutable_endTest (w : World) (texec : Nat) : (endTest w texec).cfgs = w.cfgs := by
  unfold endTest
  dsimp only
  generalize w.pending.filter (·.1 = texec) = mine
  suffices h : ∀ (ps : List (Nat × Pending)) (w : World),
      (ps.foldl (fun w p =>
        match p.2 with
        | .reg k => { w with running := alSet w.running k 0 }
        | .sreg g => { w with srunning := alSet w.srunning g 0 }) w).cfgs = w.cfgs from h mine w
  intro ps
  induction ps with
  | nil => intro w; rfl
  | cons p ps ih =>
    intro w
    rw [List.foldl_cons, ih]
    split <;> rfl

theorem config_immutable_clean (o : Oracles) (w : World) (sortOpt : Bool) (runOnly : Text) (count : Nat) :
    (clean o w sortOpt runOnly count).1.cfgs = w.cfgs := by
  unfold clean
  dsimp only
  repeat' split
  all_goals rfl

/-- any finite run of model steps: the store at the end is the store at the start -/
inductive Step
  | entry (c : Cfg) (caller tName : Text) (texec : Nat) (cmp : Cmp) (pre : Except Text Text)
  | standalone (c : Cfg) (caller tName : Text) (texec : Nat) (pre : Except Text Text)
  | endTest (texec : Nat)
  | skip (tName : Text)
  | clean (o : Oracles) (sortOpt : Bool) (runOnly : Text) (count : Nat)

def Step.run (w : World) : Step → World
  | .entry c caller tName texec cmp pre => (matchEntry w c caller tName texec cmp pre).1
  | .standalone c caller tName texec pre => (matchStandalone w c caller tName texec pre).1
  | .endTest texec => GoSnaps.endTest w texec
  | .skip tName => trackSkip w tName
  | .clean o sortOpt runOnly count => (GoSnaps.clean o w sortOpt runOnly count).1

theorem config_immutable_run (steps : List Step) (w : World) :
    (steps.foldl Step.run w).cfgs = w.cfgs := by
  induction steps generalizing w with
  | nil => rfl
  | cons st sts ih =>
    rw [List.foldl_cons, ih]
    cases st with
    | entry => exact config_immutable_matchEntry _ _ _ _ _ _ _
    | standalone => exact config_immutable_matchStandalone _ _ _ _ _ _
    | endTest => exact config_immutable_endTest _ _
    | skip => rfl
    | clean => exact config_immutable_clean _ _ _ _ _

/-- … hence every Config number still denotes the value it was created with -/
theorem config_lookup_stable (steps : List Step) (w : World) (n : Nat) :
    ((steps.foldl Step.run w).cfgs.find? (·.1 = n)).map (·.2) = (w.cfgs.find? (·.1 = n)).map (·.2) := by
  rw [config_immutable_run]

/-! ## 3. the driver's document operations -/

/-- **Given that the source has no write through `*Config`**, `json` / `yaml` / `sajson` (and
any other `op` handed to `docOp`, which is rejected) leave the store as it was.  In particular
`(*Config).MatchStandaloneJSON` defaults the extension on a copy. -/
theorem config_immutable_docOp (h : Generated.configWrites = []) (s : DState) (line op c t : String) :
    (docOp s line op c t).1.w.cfgs = s.w.cfgs := by
  have hcw : "Config.MatchStandaloneJSON: c.extension" ∉ Generated.configWrites := by rw [h]; simp
  unfold docOp
  split
  · split
    · exact config_immutable_matchEntry _ _ _ _ _ _ _
    · exact config_immutable_matchEntry _ _ _ _ _ _ _
    · simp only [List.contains_eq_mem, hcw, decide_false, Bool.false_eq_true, ↓reduceIte]
      exact config_immutable_matchStandalone _ _ _ _ _ _
    · rfl
  · rfl

theorem config_immutable_docOp_now (s : DState) (line op c t : String) :
    (docOp s line op c t).1.w.cfgs = s.w.cfgs :=
  config_immutable_docOp no_config_writes s line op c t

/-- what the obligation protects against: were the defaulted extension stored back
(`setCfg`), the shared Config would change and so would the file every later MatchSnapshot /
MatchJSON call through it addresses (".snap" vs ".snap.json") -/
example :
    let c : Cfg := {}
    let c' : Cfg := { c with extension := Generated.saJSONExt }
    setCfg [(0, c)] 0 c' ≠ [(0, c)] ∧
    constructFilename c [47, 97, 47, 98, 95, 116, 101, 115, 116, 46, 103, 111] [84] false =
      [98, 95, 116, 101, 115, 116, 46, 115, 110, 97, 112] ∧                                 -- b_test.snap
    constructFilename c' [47, 97, 47, 98, 95, 116, 101, 115, 116, 46, 103, 111] [84] false =
      [98, 95, 116, 101, 115, 116, 46, 115, 110, 97, 112, 46, 106, 115, 111, 110] := by     -- b_test.snap.json
  decide +kernel

/-- the protocol operations that create or replace a Config value (`cfg`: `snaps.WithConfig`
with an absolute directory; `cfgrel`: the same with a relative/default directory, present in
later versions of the driver) or start from a fresh world -/
def configOps : List String := ["cfg", "cfgrel", "world"]

/-- **every protocol line**: `Driver.step` changes the Config store only on the lines whose
first token is one of `configOps`; every other line — every Match*, Skip, Clean, end-of-test,
file-system and oracle line — leaves it as it was -/
theorem config_immutable_step (s : DState) (line : String)
    (h : ∀ k ∈ configOps, ((line.splitOn " ").filter (· ≠ "")).head? ≠ some k) :
    (step s line).1.w.cfgs = s.w.cfgs := by
  unfold step
  generalize (line.splitOn " ").filter (· ≠ "") = toks at h
  dsimp only
  split
  all_goals first
    | rfl
    | exact config_immutable_docOp_now _ _ _ _ _
    | (simp [configOps] at h; done)
    | (repeat' split) <;> first
      | rfl
      | exact config_immutable_matchEntry _ _ _ _ _ _ _
      | exact config_immutable_matchStandalone _ _ _ _ _ _
      | exact config_immutable_endTest _ _
      | exact config_immutable_clean _ _ _ _ _

/-! ## 4. addressing depends on the Config value only; call order is irrelevant -/

/-- the file a multi-entry call addresses -/
def addrEntry (c : Cfg) (caller tName : Text) : Text := (snapshotPath c caller tName false).1

/-- the file a standalone call addresses: the generic path with the per-path ordinal filled in -/
def addrStandalone (w : World) (c : Cfg) (caller tName : Text) : Option Text :=
  let g := (snapshotPath c caller tName true).1
  sprintf g [.d (alGet w.srunning g + 1)]

/-- `snapshotPath` has no argument but `(c, caller, tName, standalone)`: no world, no registry,
no environment.  (Trivial by definition — stated so that a change of the signature breaks it.) -/
theorem order_independent (w w' : World) (c : Cfg) (caller tName : Text) (sa : Bool) :
    (fun (_ : World) => snapshotPath c caller tName sa) w = (fun (_ : World) => snapshotPath c caller tName sa) w' :=
  rfl

/-- a multi-entry call writes nowhere but at its address -/
theorem matchEntry_writes (w : World) (c : Cfg) (caller tName : Text) (texec : Nat) (cmp : Cmp)
    (pre : Except Text Text) :
    ∀ p ∈ (matchEntry w c caller tName texec cmp pre).2.writes, p = addrEntry c caller tName := by
  unfold matchEntry addrEntry
  generalize snapshotPath c caller tName false = sp
  obtain ⟨snapPath, rel?⟩ := sp
  dsimp only
  split
  · cases pre with
    | error msg => simp [handleError]
    | ok s =>
      unfold entryTail
      dsimp only
      repeat' split
      all_goals simp [handleError, unsup]
  · simp [unsup]

/-- a standalone call writes nowhere but at its address -/
theorem matchStandalone_writes (w : World) (c : Cfg) (caller tName : Text) (texec : Nat)
    (pre : Except Text Text) :
    ∀ p ∈ (matchStandalone w c caller tName texec pre).2.writes, some p = addrStandalone w c caller tName := by
  unfold matchStandalone addrStandalone
  generalize snapshotPath c caller tName true = sp
  obtain ⟨generic, grel?⟩ := sp
  dsimp only [sregBump]
  split
  · simp [unsup]
  · split
    · rename_i snapPath rel hsp hrel
      cases pre with
      | error msg => simp [handleError]
      | ok s =>
        unfold standaloneTail
        dsimp only
        repeat' split
        all_goals simp_all [handleError]
    · simp [unsup]

/-- a multi-entry call leaves the standalone registry alone, a standalone call the multi-entry one -/
theorem matchEntry_srunning (w : World) (c : Cfg) (caller tName : Text) (texec : Nat) (cmp : Cmp)
    (pre : Except Text Text) : (matchEntry w c caller tName texec cmp pre).1.srunning = w.srunning := by
  unfold matchEntry
  generalize snapshotPath c caller tName false = sp
  obtain ⟨snapPath, rel?⟩ := sp
  dsimp only
  split
  · cases pre with
    | error msg => rfl
    | ok s => exact (entryTail_regs _ _ _ _ _ _ _).srunning
  · rfl

theorem matchStandalone_running (w : World) (c : Cfg) (caller tName : Text) (texec : Nat)
    (pre : Except Text Text) : (matchStandalone w c caller tName texec pre).1.running = w.running := by
  unfold matchStandalone
  generalize snapshotPath c caller tName true = sp
  obtain ⟨generic, grel?⟩ := sp
  dsimp only
  split
  · rfl
  · split
    · cases pre with
      | error msg => rfl
      | ok s => exact (standaloneTail_regs _ _ _ _ _).running
    · rfl

/-- **Either order, same addresses**: a `MatchJSON`-like call and a `MatchStandaloneJSON`-like
call through the same Config value `c` (any tests, any `pre`), made in either order, address
the same two files, get the same ordinals, and can only write at those addresses; the Config
store is the same afterwards. -/
theorem order_independent_calls (w : World) (c : Cfg) (caller t₁ t₂ : Text) (x₁ x₂ : Nat) (cmp : Cmp)
    (pre₁ pre₂ : Except Text Text) :
    let a₁ := matchEntry w c caller t₁ x₁ cmp pre₁                 -- entry first
    let a₂ := matchStandalone a₁.1 c caller t₂ x₂ pre₂
    let b₂ := matchStandalone w c caller t₂ x₂ pre₂                -- standalone first
    let b₁ := matchEntry b₂.1 c caller t₁ x₁ cmp pre₁
    -- the standalone call resolves to the same file in both orders
    addrStandalone a₁.1 c caller t₂ = addrStandalone w c caller t₂ ∧
    -- the entry call gets the same ordinal in both orders
    (regBump b₂.1 (addrEntry c caller t₁, t₁)).2 = (regBump w (addrEntry c caller t₁, t₁)).2 ∧
    -- all writes of both orders go to the same two addresses
    (∀ p ∈ a₁.2.writes ++ a₂.2.writes, p = addrEntry c caller t₁ ∨ some p = addrStandalone w c caller t₂) ∧
    (∀ p ∈ b₂.2.writes ++ b₁.2.writes, p = addrEntry c caller t₁ ∨ some p = addrStandalone w c caller t₂) ∧
    a₂.1.cfgs = w.cfgs ∧ b₁.1.cfgs = w.cfgs := by
  intro a₁ a₂ b₂ b₁
  have hs : addrStandalone a₁.1 c caller t₂ = addrStandalone w c caller t₂ := by
    simp only [addrStandalone, a₁, matchEntry_srunning]
  refine ⟨hs, ?_, ?_, ?_, ?_, ?_⟩
  · simp only [regBump_snd, b₂, matchStandalone_running]
  · intro p hp
    rcases List.mem_append.mp hp with h | h
    · exact .inl (matchEntry_writes _ _ _ _ _ _ _ p h)
    · exact .inr ((matchStandalone_writes _ _ _ _ _ _ p h).trans hs)
  · intro p hp
    rcases List.mem_append.mp hp with h | h
    · exact .inr (matchStandalone_writes _ _ _ _ _ _ p h)
    · exact .inl (matchEntry_writes _ _ _ _ _ _ _ p h)
  · simp only [a₂, a₁, config_immutable_matchStandalone, config_immutable_matchEntry]
  · simp only [b₁, b₂, config_immutable_matchStandalone, config_immutable_matchEntry]


/-! ## 5. the outcomes commute -/

theorem entryTail_out_congr (w w' : World) (c : Cfg) (p rel id s : Text) (cmp : Cmp)
    (he : w'.env = w.env) (hf : fsRead w'.fs p = fsRead w.fs p) :
    (entryTail w' c p rel id s cmp).2 = (entryTail w c p rel id s cmp).2 := by
  unfold entryTail
  rw [hf, he]
  dsimp only
  repeat' split
  all_goals first | rfl | simp_all

theorem standaloneTail_out_congr (w w' : World) (c : Cfg) (p rel s : Text)
    (he : w'.env = w.env) (hf : fsRead w'.fs p = fsRead w.fs p) :
    (standaloneTail w' c p rel s).2 = (standaloneTail w c p rel s).2 := by
  unfold standaloneTail
  rw [hf, he]
  dsimp only
  repeat' split
  all_goals first | rfl | simp_all

theorem entryTail_frame (w : World) (c : Cfg) (p rel id s : Text) (cmp : Cmp) :
    (entryTail w c p rel id s cmp).1.env = w.env ∧
    ∀ q, q ≠ p → fsRead (entryTail w c p rel id s cmp).1.fs q = fsRead w.fs q := by
  unfold entryTail
  dsimp only
  repeat' split
  all_goals exact ⟨rfl, fun q hq => by first | rfl | exact C19.fsRead_fsWrite_other _ _ _ _ hq⟩

theorem standaloneTail_frame (w : World) (c : Cfg) (p rel s : Text) :
    (standaloneTail w c p rel s).1.env = w.env ∧
    ∀ q, q ≠ p → fsRead (standaloneTail w c p rel s).1.fs q = fsRead w.fs q := by
  unfold standaloneTail
  dsimp only
  repeat' split
  all_goals exact ⟨rfl, fun q hq => by first | rfl | exact C19.fsRead_fsWrite_other _ _ _ _ hq⟩

theorem matchEntry_frame (w : World) (c : Cfg) (caller tName : Text) (texec : Nat) (cmp : Cmp)
    (pre : Except Text Text) :
    (matchEntry w c caller tName texec cmp pre).1.env = w.env ∧
    ∀ q, q ≠ addrEntry c caller tName →
      fsRead (matchEntry w c caller tName texec cmp pre).1.fs q = fsRead w.fs q := by
  unfold matchEntry addrEntry
  generalize snapshotPath c caller tName false = sp
  obtain ⟨snapPath, rel?⟩ := sp
  dsimp only
  split
  · cases pre with
    | error msg => exact ⟨rfl, fun _ _ => rfl⟩
    | ok s => exact entryTail_frame _ _ _ _ _ _ _
  · exact ⟨rfl, fun _ _ => rfl⟩

theorem matchStandalone_frame (w : World) (c : Cfg) (caller tName : Text) (texec : Nat)
    (pre : Except Text Text) :
    (matchStandalone w c caller tName texec pre).1.env = w.env ∧
    ∀ q, some q ≠ addrStandalone w c caller tName →
      fsRead (matchStandalone w c caller tName texec pre).1.fs q = fsRead w.fs q := by
  unfold matchStandalone addrStandalone
  generalize snapshotPath c caller tName true = sp
  obtain ⟨generic, grel?⟩ := sp
  dsimp only [sregBump]
  split
  · exact ⟨rfl, fun _ _ => rfl⟩
  · split
    · rename_i snapPath rel hsp hrel
      cases pre with
      | error msg => exact ⟨rfl, fun _ _ => rfl⟩
      | ok s =>
        refine ⟨(standaloneTail_frame _ _ _ _ _).1, fun q hq => ?_⟩
        rw [hsp] at hq
        exact (standaloneTail_frame _ _ _ _ _).2 q (fun e => hq (by rw [e]))
    · exact ⟨rfl, fun _ _ => rfl⟩

theorem matchEntry_out_congr (w w' : World) (c : Cfg) (caller tName : Text) (texec : Nat) (cmp : Cmp)
    (pre : Except Text Text) (hr : w'.running = w.running) (he : w'.env = w.env)
    (hf : fsRead w'.fs (addrEntry c caller tName) = fsRead w.fs (addrEntry c caller tName)) :
    (matchEntry w' c caller tName texec cmp pre).2 = (matchEntry w c caller tName texec cmp pre).2 := by
  unfold matchEntry addrEntry at *
  generalize snapshotPath c caller tName false = sp at hf ⊢
  obtain ⟨snapPath, rel?⟩ := sp
  dsimp only [regBump] at hf ⊢
  rw [hr]
  split
  · cases pre with
    | error msg => rfl
    | ok s => exact entryTail_out_congr _ _ _ _ _ _ _ _ he hf
  · rfl

theorem matchStandalone_out_congr (w w' : World) (c : Cfg) (caller tName : Text) (texec : Nat)
    (pre : Except Text Text) (hr : w'.srunning = w.srunning) (he : w'.env = w.env)
    (hf : ∀ q, some q = addrStandalone w c caller tName → fsRead w'.fs q = fsRead w.fs q) :
    (matchStandalone w' c caller tName texec pre).2 = (matchStandalone w c caller tName texec pre).2 := by
  unfold matchStandalone addrStandalone at *
  generalize snapshotPath c caller tName true = sp at hf ⊢
  obtain ⟨generic, grel?⟩ := sp
  dsimp only [sregBump] at hf ⊢
  rw [hr]
  split
  · rfl
  · split
    · rename_i snapPath rel hsp hrel
      cases pre with
      | error msg => rfl
      | ok s => exact standaloneTail_out_congr _ _ _ _ _ _ he (hf snapPath hsp.symm)
    · rfl

/-- **Either order, same outcomes**: if the two calls address different files (always the case
for one Config value: `<name>.snap…` vs `<name>_<k>.snap…`; kept as a hypothesis here), then each
call produces the same events, writes and output whichever of the two runs first -/
theorem calls_commute (w : World) (c : Cfg) (caller t₁ t₂ : Text) (x₁ x₂ : Nat) (cmp : Cmp)
    (pre₁ pre₂ : Except Text Text)
    (hne : addrStandalone w c caller t₂ ≠ some (addrEntry c caller t₁)) :
    let a₁ := matchEntry w c caller t₁ x₁ cmp pre₁
    let a₂ := matchStandalone a₁.1 c caller t₂ x₂ pre₂
    let b₂ := matchStandalone w c caller t₂ x₂ pre₂
    let b₁ := matchEntry b₂.1 c caller t₁ x₁ cmp pre₁
    a₁.2 = b₁.2 ∧ a₂.2 = b₂.2 := by
  intro a₁ a₂ b₂ b₁
  constructor
  · refine (matchEntry_out_congr w b₂.1 c caller t₁ x₁ cmp pre₁ (matchStandalone_running _ _ _ _ _ _)
      (matchStandalone_frame _ _ _ _ _ _).1 ?_).symm
    exact (matchStandalone_frame w c caller t₂ x₂ pre₂).2 _ (fun e => hne e.symm)
  · refine matchStandalone_out_congr w a₁.1 c caller t₂ x₂ pre₂ (matchEntry_srunning _ _ _ _ _ _ _)
      (matchEntry_frame _ _ _ _ _ _ _).1 ?_
    intro q hq
    exact (matchEntry_frame w c caller t₁ x₁ cmp pre₁).2 q (fun e => hne (by rw [← hq, e]))

/-- two creations from an empty world, in both orders: the same two files are written -/
example :
    let w : World := { env := ⟨false, ""⟩ }
    let c : Cfg := {}
    let caller : Text := [47, 97, 47, 98, 95, 116, 101, 115, 116, 46, 103, 111]   -- "/a/b_test.go"
    let a₁ := matchEntry w c caller [84] 0 .raw (.ok [120])
    let a₂ := matchStandalone a₁.1 c caller [84] 0 (.ok [121])
    let b₂ := matchStandalone w c caller [84] 0 (.ok [121])
    let b₁ := matchEntry b₂.1 c caller [84] 0 .raw (.ok [120])
    a₁.2.writes = b₁.2.writes ∧ a₂.2.writes = b₂.2.writes ∧ a₁.2.writes ≠ [] ∧ a₂.2.writes ≠ [] ∧
    a₁.2.writes ≠ a₂.2.writes := by
  decide +kernel

end GoSnaps.C12
