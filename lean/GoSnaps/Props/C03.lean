/-
C03 — entries are stably addressed and isolated.

Statements only (helper lemmas live in Lemmas/Update.lean).  The header of an entry is
`fmt.Sprintf("[%s - %d]", testName, ordinal)` (`syncRegistry.getTestID`, snaps/snapshot.go);
the ordinal is the per-(file, test) call counter `running`, reset by the `t.Cleanup` of the
test that made the calls (`endTest`), while `cleanup` only ever grows.

Byte legend: 91 = '[', 93 = ']', 32 = ' ', 45 = '-', 48..57 = '0'..'9'.
-/
import GoSnaps.Lemmas.Update
namespace GoSnaps.C03

open GoSnaps

/-! ## 1. decimal rendering (`%d`, `strconv.Itoa` on naturals) -/

theorem natToText_ne_nil (n : Nat) : natToText n ≠ [] := (natToText_spec n).1

/-- every byte of the rendering is an ASCII digit -/
theorem natToText_digits (n : Nat) : ∀ c ∈ natToText n, 48 ≤ c ∧ c ≤ 57 := (natToText_spec n).2.1

/-- reading the rendering back as a big-endian decimal gives the number -/
theorem decodeNat_natToText (n : Nat) : decodeNat (natToText n) = n := (natToText_spec n).2.2

theorem natToText_injective (m n : Nat) (h : natToText m = natToText n) : m = n := by
  have := congrArg decodeNat h
  rwa [decodeNat_natToText, decodeNat_natToText] at this

example : natToText 10 = [49, 48] ∧ natToText 1 = [49] ∧ decodeNat [49, 48] = 10 := by decide

/-! ## 2. the header is `"[" ++ name ++ " - " ++ ordinal ++ "]"` -/

/-- the header line of the `k`-th snapshot of test `name` -/
def testID (name : Text) (k : Nat) : Text := 91 :: name ++ [32, 45, 32] ++ natToText k ++ [93]

/-- the executable model computes the header by interpreting the format string read from the
    Go source; on its current value that is `testID` -/
theorem testID_eq (name : Text) (k : Nat) :
    sprintf Generated.idFmt [.s name, .d k] = some (testID name k) := by
  have hp : parseFmt Generated.idFmt =
      some [.lit [91], .verb 115, .lit [32, 45, 32], .verb 100, .lit [93]] := by decide
  simp [sprintf, hp, fmtPieces, fmtVerb, testID]

example : sprintf Generated.idFmt [.s [84, 101, 115, 116, 65], .d 12] =
    some [91, 84, 101, 115, 116, 65, 32, 45, 32, 49, 50, 93] := by decide   -- "[TestA - 12]"

theorem testID_ne_nil (name : Text) (k : Nat) : testID name k ≠ [] := by simp [testID]

/-! ## 3. header injectivity, for ALL names -/

/-- **Distinct (name, ordinal) pairs have distinct headers**, for arbitrary byte strings as
names (spaces, dashes, brackets, digits, newlines, "` - 1]`" suffixes … included): the decimal
ordinal contains no space, so the LAST space of the header is the one the format string wrote
and splits it unambiguously.  In particular `[T - 1]` ≠ `[T - 10]` and `[TestA - k]` ≠
`[TestAB - k']`.  No hypothesis on `name` is needed. -/
theorem header_injective (name name' : Text) (k k' : Nat)
    (h : testID name k = testID name' k') : name = name' ∧ k = k' := by
  have hd : ∀ n : Nat, (32 : Byte) ∉ natToText n ++ [93] := by
    intro n hm
    simp only [List.mem_append, List.mem_singleton] at hm
    rcases hm with hm | hm
    · exact isDigit_ne_space 32 ((natToText_spec n).2.1 32 hm) rfl
    · exact absurd hm (by decide)
  have hs : ∀ (nm : Text) (n : Nat),
      testID nm n = (91 :: nm ++ [32, 45]) ++ 32 :: (natToText n ++ [93]) := by
    intro nm n; simp [testID]
  rw [hs, hs] at h
  obtain ⟨h1, h2⟩ := split_at_last_space _ _ _ _ (hd k) (hd k') h
  have hn : name = name' := by
    simp only [List.cons_append, List.cons.injEq, true_and] at h1
    exact List.append_cancel_right h1
  exact ⟨hn, natToText_injective k k' (List.append_cancel_right h2)⟩

/-- non-vacuity and the two motivating shapes, on concrete bytes -/
example :
    testID [84] 1 ≠ testID [84] 10 ∧                                   -- [T - 1] vs [T - 10]
    testID [84, 65] 1 ≠ testID [84, 65, 66] 1 ∧                        -- [TA - 1] vs [TAB - 1]
    testID [84, 32, 45, 32, 49] 1 ≠ testID [84] 11 ∧                   -- name "T - 1" vs "T"
    testID [84] 1 = [91, 84, 32, 45, 32, 49, 93] := by decide

/-- contrapositive form used by the isolation arguments of C04 -/
theorem header_ne (name name' : Text) (k k' : Nat) (h : name ≠ name' ∨ k ≠ k') :
    testID name k ≠ testID name' k' := by
  intro e
  obtain ⟨h1, h2⟩ := header_injective name name' k k' e
  rcases h with h | h
  · exact h h1
  · exact h h2

/-- A header is a legal single line of the file (`C01.WF.idNoNL`) exactly when the test name
has no newline — which is what Go's `testing` produces (it rewrites "\n" in sub-test names).
Injectivity above does NOT depend on it. -/
theorem testID_noNL (name : Text) (k : Nat) (h : NoNL name) : NoNL (testID name k) := by
  have hdig : nl ∉ natToText k := by
    intro hm
    have := (natToText_spec k).2.1 nl hm
    unfold IsDigit at this; exact absurd this (by decide)
  unfold NoNL at *
  simp only [testID, List.mem_cons, List.mem_append, List.not_mem_nil, or_false, h, hdig]
  decide

/-! ## 4. registry ordinals -/

/-- Go `map[K]int` read-after-write, same key -/
theorem alGet_alSet_same {κ : Type} [DecidableEq κ] (m : List (κ × Nat)) (k : κ) (v : Nat) :
    alGet (alSet m k v) k = v := GoSnaps.alGet_alSet_same m k v

/-- Go `map[K]int` read-after-write, other key -/
theorem alGet_alSet_other {κ : Type} [DecidableEq κ] (m : List (κ × Nat)) (k k' : κ) (v : Nat)
    (h : k' ≠ k) : alGet (alSet m k v) k' = alGet m k' := GoSnaps.alGet_alSet_other m k k' v h

/-- one `getTestID`: returns the incremented running counter of its key -/
theorem regBump_returns (w : World) (k : RegKey) :
    (regBump w k).2 = alGet w.running k + 1 ∧
    alGet (regBump w k).1.running k = alGet w.running k + 1 ∧
    alGet (regBump w k).1.cleanup k = alGet w.cleanup k + 1 :=
  ⟨rfl, regBump_running_same w k, regBump_cleanup_same w k⟩

/-- a bump of another key changes neither counter of `k'` -/
theorem regBump_other (w : World) (k k' : RegKey) (h : k' ≠ k) :
    alGet (regBump w k).1.running k' = alGet w.running k' ∧
    alGet (regBump w k).1.cleanup k' = alGet w.cleanup k' :=
  ⟨regBump_running_other w k k' h, regBump_cleanup_other w k k' h⟩

/-- a run of `getTestID` calls with the given keys, in order, no cleanup in between -/
def bumpAll (w : World) (ks : List RegKey) : World := ks.foldl (fun w k => (regBump w k).1) w

/-- **The counters count**: after any sequence of calls, both counters of every key `k` have
grown by the number of calls made with exactly that key; calls with other keys are invisible. -/
theorem ordinal_counts_from (w : World) (ks : List RegKey) (k : RegKey) :
    alGet (bumpAll w ks).running k = alGet w.running k + ks.count k ∧
    alGet (bumpAll w ks).cleanup k = alGet w.cleanup k + ks.count k := by
  induction ks generalizing w with
  | nil => simp [bumpAll]
  | cons a as ih =>
    have hstep : bumpAll w (a :: as) = bumpAll (regBump w a).1 as := rfl
    rw [hstep, (ih _).1, (ih _).2, List.count_cons]
    by_cases h : a = k
    · subst h; rw [regBump_running_same, regBump_cleanup_same]; simp; omega
    · rw [regBump_running_other w a k (Ne.symm h), regBump_cleanup_other w a k (Ne.symm h)]
      simp [h]

/-- from a fresh registry the running counter of `k` IS the number of calls made with `k` -/
theorem ordinal_counts (env : Generated.Env) (ks : List RegKey) (k : RegKey) :
    alGet (bumpAll { env := env } ks).running k = ks.count k := by
  have := (ordinal_counts_from { env := env } ks k).1
  simpa [alGet] using this

/-- **The n-th consecutive call for `k` gets ordinal n**: after a run `ks` (other keys
arbitrarily interleaved, no cleanup) the next call with `k` returns `1 + (number of earlier
calls with k)`. -/
theorem regBump_ordinal (env : Generated.Env) (ks : List RegKey) (k : RegKey) :
    (regBump (bumpAll { env := env } ks) k).2 = ks.count k + 1 := by
  rw [regBump_snd, ordinal_counts]

example :
    let a : RegKey := ([97], [84]); let b : RegKey := ([97], [85])
    (regBump (bumpAll { env := ⟨false, ""⟩ } [a, b, a, b, b]) a).2 = 3 ∧
    (regBump (bumpAll { env := ⟨false, ""⟩ } [a, b, a, b, b]) b).2 = 4 := by decide

/-- **`t.Cleanup` restarts the ordinals and keeps the occurrence count**: once the cleanup of
the mock T number `texec` that registered key `k` has run, the next call with `k` returns 1
again, `cleanup` is untouched (and keeps growing with the next call), and keys for which
`texec` registered nothing keep their running counter. -/
theorem endTest_resets (w : World) (texec : Nat) (k : RegKey)
    (h : (texec, Pending.reg k) ∈ w.pending) :
    (regBump (endTest w texec) k).2 = 1 ∧
    (endTest w texec).cleanup = w.cleanup ∧
    alGet (regBump (endTest w texec) k).1.cleanup k = alGet w.cleanup k + 1 := by
  refine ⟨?_, endTest_cleanup w texec, ?_⟩
  · rw [regBump_snd, endTest_running, if_pos h]
  · rw [regBump_cleanup_same, endTest_cleanup]

theorem endTest_other (w : World) (texec : Nat) (k : RegKey)
    (h : (texec, Pending.reg k) ∉ w.pending) :
    alGet (endTest w texec).running k = alGet w.running k := by
  rw [endTest_running, if_neg h]

/-- end to end: ANY `matchEntry` call (whatever its outcome) made under mock T `texec`
registers the cleanup, so after `endTest` the next ordinal for that (file, test) is 1 while the
occurrence counter `cleanup` remembers the call. -/
theorem matchEntry_then_endTest (w : World) (c : Cfg) (caller tName : Text) (texec : Nat)
    (cmp : Cmp) (pre : Except Text Text) :
    let k : RegKey := ((snapshotPath c caller tName false).1, tName)
    let w₁ := (matchEntry w c caller tName texec cmp pre).1
    (regBump (endTest w₁ texec) k).2 = 1 ∧
    alGet (endTest w₁ texec).cleanup k = alGet w.cleanup k + 1 := by
  intro k w₁
  obtain ⟨_, hc, hp⟩ := matchEntry_regs w c caller tName texec cmp pre
  have hmem : (texec, Pending.reg k) ∈ w₁.pending := by rw [hp]; exact List.mem_cons_self
  refine ⟨(endTest_resets w₁ texec k hmem).1, ?_⟩
  rw [endTest_cleanup, hc]; exact regBump_cleanup_same w k

/-! ## 5. a failing call consumes its ordinal -/

/-- **The registry update happens before the validation/matcher result `pre` is looked at**:
a call that fails early leaves both counters exactly where a successful call leaves them, so
the following call of the same test gets the next ordinal either way. -/
theorem failing_call_consumes_ordinal (w : World) (c : Cfg) (caller tName : Text) (texec : Nat)
    (cmp : Cmp) (msg s : Text) :
    let k : RegKey := ((snapshotPath c caller tName false).1, tName)
    (matchEntry w c caller tName texec cmp (.error msg)).1.running =
      (matchEntry w c caller tName texec cmp (.ok s)).1.running ∧
    (matchEntry w c caller tName texec cmp (.error msg)).1.running = (regBump w k).1.running ∧
    (matchEntry w c caller tName texec cmp (.error msg)).1.cleanup = (regBump w k).1.cleanup ∧
    (matchEntry w c caller tName texec cmp (.ok s)).1.cleanup = (regBump w k).1.cleanup := by
  intro k
  obtain ⟨h1, h2, _⟩ := matchEntry_regs w c caller tName texec cmp (.error msg)
  obtain ⟨h3, h4, _⟩ := matchEntry_regs w c caller tName texec cmp (.ok s)
  exact ⟨h1.trans h3.symm, h1, h2, h4⟩

/-- the same for `MatchStandaloneSnapshot` and its per-path registry -/
theorem failing_standalone_consumes_ordinal (w : World) (c : Cfg) (caller tName : Text)
    (texec : Nat) (msg s : Text) :
    let g : Text := (snapshotPath c caller tName true).1
    (matchStandalone w c caller tName texec (.error msg)).1.srunning =
      (matchStandalone w c caller tName texec (.ok s)).1.srunning ∧
    (matchStandalone w c caller tName texec (.error msg)).1.srunning = (sregBump w g).1.srunning ∧
    (matchStandalone w c caller tName texec (.error msg)).1.scleanup = (sregBump w g).1.scleanup ∧
    (matchStandalone w c caller tName texec (.ok s)).1.scleanup = (sregBump w g).1.scleanup := by
  intro g
  obtain ⟨h1, h2, _⟩ := matchStandalone_regs w c caller tName texec (.error msg)
  obtain ⟨h3, h4, _⟩ := matchStandalone_regs w c caller tName texec (.ok s)
  exact ⟨h1.trans h3.symm, h1, h2, h4⟩

/-- consequence: after a failing call the next call of the same test asks for ordinal + 1 -/
theorem ordinal_after_failing_call (w : World) (c : Cfg) (caller tName : Text) (texec : Nat)
    (cmp : Cmp) (msg : Text) :
    let k : RegKey := ((snapshotPath c caller tName false).1, tName)
    (regBump (matchEntry w c caller tName texec cmp (.error msg)).1 k).2 = (regBump w k).2 + 1 := by
  intro k
  obtain ⟨h1, _, _⟩ := matchEntry_regs w c caller tName texec cmp (.error msg)
  rw [regBump_snd, h1, regBump_running_same, regBump_snd]

end GoSnaps.C03
