/-
C02World — a changed value is reported, at the level of CALLS of `entryTail` / `matchEntry` /
`standaloneTail` (`GoSnaps/Model.lean`).

`cmpText cmp` (Lemmas/World.lean) is what a taker compares: the text itself for MatchJSON
(`.raw`), `unescape` of it for MatchSnapshot / MatchYAML (`.escaped`).

Byte legend: `[45,45,45]` = "---", `[47,45,47,45,47,45,47]` = TOK (the escape token line),
`[123,125]` = "{}", `[91,93]` = "[]", 120/121 = 'x'/'y', `[47,115]` = "/s".
-/
import GoSnaps.Lemmas.World
import GoSnaps.Props.C01World

namespace GoSnaps.C02World

open GoSnaps GoSnaps.C06Refine GoSnaps.Wld
open GoSnaps.C03 (testID)
open GoSnaps.Generated (Env shouldCreate shouldUpdate)

/-! ## the general mismatch theorem -/

/-- **A mismatch is reported** (both comparison kinds).  The file at `p` holds the `Good` entry
list `pre ++ ⟨id, s₀⟩ :: post`; the compared texts differ; updating is not allowed.  Then the
call produces exactly one event, the error carrying the non-empty report
`prettyDiff (cmpText cmp s₀) (cmpText cmp s) rel line` with `line` the header's line number;
nothing is written or removed, the file system is unchanged, exactly `erred` moves. -/
theorem entryTail_mismatch (w : World) (c : Cfg) (p rel id s s₀ : Text) (cmp : Cmp)
    (pre post : List Entry)
    (hfile : Holds w.fs p (pre ++ ⟨id, s₀⟩ :: post)) (hgood : Good (pre ++ ⟨id, s₀⟩ :: post))
    (hne : cmpText cmp s₀ ≠ cmpText cmp s)
    (hu : shouldUpdate w.env c.update = false) :
    let r := entryTail w c p rel id s cmp
    let d := prettyDiff (cmpText cmp s₀) (cmpText cmp s) rel ((fileLines pre).length + 2)
    d ≠ [] ∧ r.2.events = [.error d] ∧ r.2.writes = [] ∧ r.2.removed = [] ∧
    r.2.unsupported = none ∧ r.1.fs = w.fs ∧
    r.1.events = { w.events with erred := w.events.erred + 1 } := by
  intro r d
  have hq : (fsRead w.fs p).bind (getPrev id) = some (s₀, (fileLines pre).length + 2) := by
    rw [hfile.lookup id]; exact good_lookup_split hgood
  obtain ⟨hr, hd⟩ := entryTail_found_ne_ro w c p rel id s cmp s₀ _ hq hne hu
  have hr' : r = _ := hr
  rw [hr']
  exact ⟨hd, rfl, rfl, rfl, rfl, rfl, rfl⟩

/-- membership form: some line number -/
theorem entryTail_mismatch_mem (w : World) (c : Cfg) (p rel id s s₀ : Text) (cmp : Cmp)
    (es : List Entry) (hfile : Holds w.fs p es) (hgood : Good es)
    (hm : (⟨id, s₀⟩ : Entry) ∈ es)
    (hne : cmpText cmp s₀ ≠ cmpText cmp s)
    (hu : shouldUpdate w.env c.update = false) :
    let r := entryTail w c p rel id s cmp
    ∃ d, d ≠ [] ∧ r.2.events = [.error d] ∧ r.2.writes = [] ∧ r.2.removed = [] ∧
      r.2.unsupported = none ∧ r.1.fs = w.fs ∧
      r.1.events = { w.events with erred := w.events.erred + 1 } := by
  obtain ⟨pre, post, rfl⟩ := List.append_of_mem hm
  exact ⟨_, entryTail_mismatch w c p rel id s s₀ cmp pre post hfile hgood hne hu⟩

/-! ## 6. MatchJSON -/

/-- **`entryTail_mismatch_raw`** (MatchJSON): ANY byte difference `s ≠ s₀` is reported. -/
theorem entryTail_mismatch_raw (w : World) (c : Cfg) (p rel id s s₀ : Text)
    (pre post : List Entry)
    (hfile : Holds w.fs p (pre ++ ⟨id, s₀⟩ :: post)) (hgood : Good (pre ++ ⟨id, s₀⟩ :: post))
    (hne : s ≠ s₀) (hu : shouldUpdate w.env c.update = false) :
    let r := entryTail w c p rel id s .raw
    let d := prettyDiff s₀ s rel ((fileLines pre).length + 2)
    d ≠ [] ∧ r.2.events = [.error d] ∧ r.2.writes = [] ∧ r.2.removed = [] ∧
    r.2.unsupported = none ∧ r.1.fs = w.fs ∧
    r.1.events = { w.events with erred := w.events.erred + 1 } :=
  entryTail_mismatch w c p rel id s s₀ .raw pre post hfile hgood (fun h => hne h.symm) hu

/-- stored "{}", received "[]", on CI -/
example :
    let p : Text := [47, 115]
    let es : List Entry := [⟨testID [65] 1, [120]⟩, ⟨testID [65] 2, [123, 125]⟩]
    let w : World := { env := ⟨true, ""⟩, fs := [(p, render es)] }
    let r := entryTail w {} p [115] (testID [65] 2) [91, 93] .raw
    Good es ∧ r.2.events = [.error (prettyDiff [123, 125] [91, 93] [115] 6)] ∧
    prettyDiff [123, 125] [91, 93] [115] 6 ≠ [] ∧ r.2.writes = [] ∧ r.1.fs = w.fs ∧
    r.1.events.erred = 1 := by decide +kernel

/-! ## 7. MatchSnapshot / MatchYAML -/

/-- **`entryTail_mismatch_escaped`**: texts whose unescaped forms differ are reported. -/
theorem entryTail_mismatch_escaped (w : World) (c : Cfg) (p rel id s s₀ : Text)
    (pre post : List Entry)
    (hfile : Holds w.fs p (pre ++ ⟨id, s₀⟩ :: post)) (hgood : Good (pre ++ ⟨id, s₀⟩ :: post))
    (hne : unescape s₀ ≠ unescape s) (hu : shouldUpdate w.env c.update = false) :
    let r := entryTail w c p rel id s .escaped
    let d := prettyDiff (unescape s₀) (unescape s) rel ((fileLines pre).length + 2)
    d ≠ [] ∧ r.2.events = [.error d] ∧ r.2.writes = [] ∧ r.2.removed = [] ∧
    r.2.unsupported = none ∧ r.1.fs = w.fs ∧
    r.1.events = { w.events with erred := w.events.erred + 1 } :=
  entryTail_mismatch w c p rel id s s₀ .escaped pre post hfile hgood hne hu

/-- equal compared texts pass silently in EVERY mode (generalises `C01World.entryTail_replay`
from `s = s₀` to `cmpText cmp s₀ = cmpText cmp s`) -/
theorem entryTail_pass_of_eq (w : World) (c : Cfg) (p rel id s s₀ : Text) (cmp : Cmp)
    (es : List Entry) (hfile : Holds w.fs p es) (hgood : Good es)
    (hm : (⟨id, s₀⟩ : Entry) ∈ es) (heq : cmpText cmp s₀ = cmpText cmp s) :
    entryTail w c p rel id s cmp =
      ({ w with events := { w.events with passed := w.events.passed + 1 } }, {}) := by
  obtain ⟨line, hl⟩ := good_lookup_mem hgood hm
  have hq : (fsRead w.fs p).bind (getPrev id) = some (s₀, line) := by
    rw [hfile.lookup id]; exact hl
  exact entryTail_found_eq w c p rel id s cmp s₀ line hq heq

/-- **Characterisation, any mode, both comparison kinds**: on a `Good` file containing
`⟨id, s₀⟩` the call produces no event IFF the compared texts are equal.  (If they differ the
single event is the error, or — when updating is allowed — the "updated" log.) -/
theorem entryTail_silent_iff (w : World) (c : Cfg) (p rel id s s₀ : Text) (cmp : Cmp)
    (es : List Entry) (hfile : Holds w.fs p es) (hgood : Good es)
    (hm : (⟨id, s₀⟩ : Entry) ∈ es) :
    (entryTail w c p rel id s cmp).2.events = [] ↔ cmpText cmp s₀ = cmpText cmp s := by
  constructor
  · intro hev
    apply Classical.byContradiction
    intro hne
    obtain ⟨line, hl⟩ := good_lookup_mem hgood hm
    have hf : fsRead w.fs p = some (render es) :=
      hfile.some_of_ne_nil (List.ne_nil_of_mem hm)
    cases hu : shouldUpdate w.env c.update with
    | false =>
      have hq : (fsRead w.fs p).bind (getPrev id) = some (s₀, line) := by
        rw [hfile.lookup id]; exact hl
      rw [(entryTail_found_ne_ro w c p rel id s cmp s₀ line hq hne hu).1] at hev
      simp [handleError] at hev
    | true =>
      rw [entryTail_found_ne_upd w c p rel id s cmp s₀ line _ hf hl hne hu] at hev
      simp at hev
  · intro heq
    rw [entryTail_pass_of_eq w c p rel id s s₀ cmp es hfile hgood hm heq]

/-- **MatchSnapshot / MatchYAML pass silently IFF the unescaped texts agree.** -/
theorem entryTail_escaped_silent_iff (w : World) (c : Cfg) (p rel id s s₀ : Text)
    (es : List Entry) (hfile : Holds w.fs p es) (hgood : Good es)
    (hm : (⟨id, s₀⟩ : Entry) ∈ es) :
    (entryTail w c p rel id s .escaped).2.events = [] ↔ unescape s₀ = unescape s :=
  entryTail_silent_iff w c p rel id s s₀ .escaped es hfile hgood hm

/-- **MatchJSON passes silently IFF the texts are byte-identical.** -/
theorem entryTail_raw_silent_iff (w : World) (c : Cfg) (p rel id s s₀ : Text)
    (es : List Entry) (hfile : Holds w.fs p es) (hgood : Good es)
    (hm : (⟨id, s₀⟩ : Entry) ∈ es) :
    (entryTail w c p rel id s .raw).2.events = [] ↔ s₀ = s :=
  entryTail_silent_iff w c p rel id s s₀ .raw es hfile hgood hm

/-- in terms of the VALUES: MatchSnapshot stores `escape v₀` and receives `escape v`; the call is
silent iff the values agree up to exchanging "---" and TOK lines (`C02.canon`,
`C02.conflate_iff`) — this is where known finding D10 lives … -/
theorem matchSnapshot_silent_iff_canon (w : World) (c : Cfg) (p rel id v v₀ : Text)
    (es : List Entry) (hfile : Holds w.fs p es) (hgood : Good es)
    (hm : (⟨id, escape v₀⟩ : Entry) ∈ es) :
    (entryTail w c p rel id (escape v) .escaped).2.events = [] ↔ C02.canon v₀ = C02.canon v := by
  rw [entryTail_escaped_silent_iff w c p rel id (escape v) (escape v₀) es hfile hgood hm,
    C02.conflate_iff]

/-- … and for values without a TOK line it is silent iff the values are equal -/
theorem matchSnapshot_silent_iff_eq (w : World) (c : Cfg) (p rel id v v₀ : Text)
    (es : List Entry) (hfile : Holds w.fs p es) (hgood : Good es)
    (hm : (⟨id, escape v₀⟩ : Entry) ∈ es) (h₀ : C02.NoTokLine v₀) (h : C02.NoTokLine v) :
    (entryTail w c p rel id (escape v) .escaped).2.events = [] ↔ v₀ = v := by
  rw [matchSnapshot_silent_iff_canon w c p rel id v v₀ es hfile hgood hm, C02.canon_id v₀ h₀,
    C02.canon_id v h]

/-- a changed value without TOK lines is reported by MatchSnapshot (values, not stored texts) -/
theorem matchSnapshot_mismatch_values (w : World) (c : Cfg) (p rel id v v₀ : Text)
    (pre post : List Entry)
    (hfile : Holds w.fs p (pre ++ ⟨id, escape v₀⟩ :: post))
    (hgood : Good (pre ++ ⟨id, escape v₀⟩ :: post))
    (h₀ : C02.NoTokLine v₀) (h : C02.NoTokLine v) (hne : v ≠ v₀)
    (hu : shouldUpdate w.env c.update = false) :
    let r := entryTail w c p rel id (escape v) .escaped
    let d := prettyDiff v₀ v rel ((fileLines pre).length + 2)
    d ≠ [] ∧ r.2.events = [.error d] ∧ r.2.writes = [] ∧ r.2.removed = [] ∧
    r.2.unsupported = none ∧ r.1.fs = w.fs ∧
    r.1.events = { w.events with erred := w.events.erred + 1 } := by
  have hne' : unescape (escape v₀) ≠ unescape (escape v) := by
    rw [C02.unescape_escape_id v₀ h₀, C02.unescape_escape_id v h]; exact fun e => hne e.symm
  have := entryTail_mismatch_escaped w c p rel id (escape v) (escape v₀) pre post hfile hgood
    hne' hu
  rw [C02.unescape_escape_id v₀ h₀, C02.unescape_escape_id v h] at this
  exact this

/-- a mismatch in a value containing the terminator: stored "a\n---" (escaped), received "a\n--" -/
example :
    let p : Text := [47, 115]
    let v₀ : Text := [97, 10, 45, 45, 45]
    let v : Text := [97, 10, 45, 45]
    let es : List Entry := [⟨testID [65] 1, escape v₀⟩]
    let w : World := { env := ⟨false, ""⟩, fs := [(p, render es)] }
    let r := entryTail w {} p [115] (testID [65] 1) (escape v) .escaped
    Good es ∧ r.2.events = [.error (prettyDiff v₀ v [115] 2)] ∧ r.2.writes = [] ∧ r.1.fs = w.fs := by
  decide +kernel

/-- **D10 at the level of a call**: the stored value is "---", the received value is TOK — two
different values — and MatchSnapshot passes silently, in a `Good` file, even on CI. -/
example :
    let p : Text := [47, 115]
    let v₀ : Text := [45, 45, 45]
    let v : Text := [47, 45, 47, 45, 47, 45, 47]
    let es : List Entry := [⟨testID [65] 1, escape v₀⟩]
    let w : World := { env := ⟨true, ""⟩, fs := [(p, render es)] }
    let r := entryTail w {} p [115] (testID [65] 1) (escape v) .escaped
    v ≠ v₀ ∧ Good es ∧ r.2.events = [] ∧ r.1.events.passed = 1 := by decide +kernel

/-! ## the same through `matchEntry` -/

/-- the `k`-th call of test `t` (running counter `k - 1`) against the recorded `[t - k]` -/
theorem matchEntry_mismatch (w : World) (c : Cfg) (caller t : Text) (x : Nat) (cmp : Cmp)
    (s s₀ p rel : Text) (pre post : List Entry)
    (hsp : snapshotPath c caller t false = (p, some rel))
    (hfile : Holds w.fs p (pre ++ ⟨testID t (alGet w.running (p, t) + 1), s₀⟩ :: post))
    (hgood : Good (pre ++ ⟨testID t (alGet w.running (p, t) + 1), s₀⟩ :: post))
    (hne : cmpText cmp s₀ ≠ cmpText cmp s)
    (hu : shouldUpdate w.env c.update = false) :
    let r := matchEntry w c caller t x cmp (.ok s)
    let d := prettyDiff (cmpText cmp s₀) (cmpText cmp s) rel ((fileLines pre).length + 2)
    d ≠ [] ∧ r.2.events = [.error d] ∧ r.2.writes = [] ∧ r.2.removed = [] ∧
    r.2.unsupported = none ∧ r.1.fs = w.fs ∧
    r.1.events = { w.events with erred := w.events.erred + 1 } := by
  intro r d
  have hr : r = _ := matchEntry_eq w c caller t x cmp s p rel hsp
  rw [hr]
  exact entryTail_mismatch (bumped w p t x) c p rel _ s s₀ cmp pre post hfile hgood hne hu

/-- test "A" of "/t/a_test.go" (`C01World.exCaller`, file `C01World.exPath`): its SECOND call
(running counter 1) receives "{}" where "[A - 2]" holds "[]"; read-only because `Update(false)` -/
example :
    let es : List Entry := [⟨testID [65] 1, [120]⟩, ⟨testID [65] 2, [91, 93]⟩]
    let w : World := { env := ⟨false, "true"⟩, fs := [(C01World.exPath, render es)],
                       running := [((C01World.exPath, [65]), 1)] }
    let r := matchEntry w { update := some false } C01World.exCaller [65] 7 .raw (.ok [123, 125])
    r.2.events = [.error (prettyDiff [91, 93] [123, 125] C01World.exRel 6)] ∧ r.2.writes = [] ∧
    r.1.fs = w.fs ∧ r.1.events.erred = 1 ∧ alGet r.1.running (C01World.exPath, [65]) = 2 := by
  decide +kernel

/-! ## 8. standalone snapshots -/

/-- **`standaloneTail_mismatch`**: the file holds `prev` (arbitrary bytes), the received text is
different, updating is not allowed ⇒ exactly one error with the non-empty report, nothing
written, file system unchanged. -/
theorem standaloneTail_mismatch (w : World) (c : Cfg) (p rel s prev : Text)
    (hf : fsRead w.fs p = some prev) (hne : s ≠ prev)
    (hu : shouldUpdate w.env c.update = false) :
    let r := standaloneTail w c p rel s
    let d := prettyDiff prev s rel 1
    d ≠ [] ∧ r.2.events = [.error d] ∧ r.2.writes = [] ∧ r.2.removed = [] ∧
    r.2.unsupported = none ∧ r.1.fs = w.fs ∧
    r.1.events = { w.events with erred := w.events.erred + 1 } := by
  intro r d
  have hd : d ≠ [] := fun h => hne ((C13.report_empty_iff _ _ _ _).mp h).symm
  have hr : r = handleError w d := by
    show standaloneTail w c p rel s = _
    unfold standaloneTail
    simp only [hf]
    rw [if_neg hd, hu]
    rfl
  rw [hr]
  exact ⟨hd, rfl, rfl, rfl, rfl, rfl, rfl⟩

/-- a standalone call produces no event IFF the file's bytes are the received text (any mode) -/
theorem standaloneTail_silent_iff (w : World) (c : Cfg) (p rel s prev : Text)
    (hf : fsRead w.fs p = some prev) :
    (standaloneTail w c p rel s).2.events = [] ↔ prev = s := by
  constructor
  · intro hev
    apply Classical.byContradiction
    intro hne
    have hd : prettyDiff prev s rel 1 ≠ [] := fun h => hne ((C13.report_empty_iff _ _ _ _).mp h)
    unfold standaloneTail at hev
    simp only [hf, if_neg hd] at hev
    cases hu : shouldUpdate w.env c.update <;> simp [hu, handleError] at hev
  · rintro rfl
    exact (C19.standalone_replay w c p rel prev hf).1

/-- the file holds "x\r\n---", received "x\n---" (a carriage return lost): reported -/
example :
    let p : Text := [47, 115]
    let prev : Text := [120, 13, 10, 45, 45, 45]
    let s : Text := [120, 10, 45, 45, 45]
    let w : World := { env := ⟨false, "nope"⟩, fs := [(p, prev)] }
    let r := standaloneTail w {} p [115] s
    r.2.events = [.error (prettyDiff prev s [115] 1)] ∧ prettyDiff prev s [115] 1 ≠ [] ∧
    r.2.writes = [] ∧ r.1.fs = w.fs := by decide +kernel

end GoSnaps.C02World
