import GoSnaps.Difflib
import GoSnaps.DifflibSpec
import GoSnaps.Lemmas.Difflib

/-!
  Main theorems about the model in `Dl/Difflib.lean`, for ALL inputs (no length bound).
  Helper lemmas live in `Dl/DifflibLemmas.lean`; the few specification-level
  definitions used in statements (`slice`, `replay`, `aParts`, `bParts`, `changes`,
  `SubEqual`) live in `Dl/DifflibSpec.lean`.
-/
namespace GoSnaps.Difflib

variable {α : Type} [DecidableEq α]

/-! ## 1. `findLongestMatch` returns a real matching block inside the window -/

theorem flm_valid (a b : List α) (alo ahi blo bhi : Nat)
    (h1 : alo ≤ ahi) (h2 : ahi ≤ a.length) (h3 : blo ≤ bhi) (h4 : bhi ≤ b.length) :
    let m := findLongestMatch a b alo ahi blo bhi
    alo ≤ m.i ∧ m.i + m.k ≤ ahi ∧ blo ≤ m.j ∧ m.j + m.k ≤ bhi ∧
    ∀ t, t < m.k → ∃ x, a[m.i + t]? = some x ∧ b[m.j + t]? = some x :=
  flm_bestOK h1 h2 h3 h4

example :
    let m := findLongestMatch "qabxcd".toList "abycdf".toList 0 6 0 6
    0 ≤ m.i ∧ m.i + m.k ≤ 6 ∧ 0 ≤ m.j ∧ m.j + m.k ≤ 6 ∧
    ∀ t, t < m.k → ∃ x, "qabxcd".toList[m.i + t]? = some x ∧ "abycdf".toList[m.j + t]? = some x :=
  flm_valid "qabxcd".toList "abycdf".toList 0 6 0 6 (by decide) (by decide) (by decide) (by decide)

/-! ## 2. matching blocks -/

/-- The fuel passed by `matchBlocks` (`ahi - alo`) is sufficient: under the window
pre-conditions `matchBlocks` satisfies exactly the recursion equation of the Go closure. -/
theorem matchBlocks_unfold (a b : List α) (alo ahi blo bhi : Nat) (matched : List Match)
    (h1 : alo ≤ ahi) (h2 : ahi ≤ a.length) (h3 : blo ≤ bhi) (h4 : bhi ≤ b.length) :
    matchBlocks a b alo ahi blo bhi matched =
      (let m := findLongestMatch a b alo ahi blo bhi
       if 0 < m.k then
         let matched1 :=
           if alo < m.i ∧ blo < m.j then matchBlocks a b alo m.i blo m.j matched else matched
         let matched2 := matched1 ++ [m]
         if m.i + m.k < ahi ∧ m.j + m.k < bhi then
           matchBlocks a b (m.i + m.k) ahi (m.j + m.k) bhi matched2
         else matched2
       else matched) := by
  have hv := flm_bestOK h1 h2 h3 h4
  simp only [matchBlocks, matchBlocksF_eq]
  generalize hm : findLongestMatch a b alo ahi blo bhi = m at hv
  obtain ⟨v1, v2, v3, v4, v5⟩ := hv
  cases hf : ahi - alo with
  | zero =>
    have : ¬ 0 < m.k := by omega
    simp [mbN, this]
  | succ f =>
    simp only [mbN, hm]
    by_cases hk : 0 < m.k
    · simp only [hk, ↓reduceIte]
      have e1 : mbN a b f alo m.i blo m.j = mbN a b (m.i - alo) alo m.i blo m.j :=
        mbN_fuel _ _ _ _ _ _ v1 (by omega) v3 (by omega) (by omega) (Nat.le_refl _)
      have e2 : mbN a b f (m.i + m.k) ahi (m.j + m.k) bhi =
          mbN a b (ahi - (m.i + m.k)) (m.i + m.k) ahi (m.j + m.k) bhi :=
        mbN_fuel _ _ _ _ _ _ v2 h2 v4 h4 (by omega) (Nat.le_refl _)
      rw [e1, e2]
      by_cases c1 : alo < m.i ∧ blo < m.j <;> by_cases c2 : m.i + m.k < ahi ∧ m.j + m.k < bhi <;>
        simp [c1, c2]
    · simp [hk]

/-- More fuel never changes the result. -/
theorem matchBlocks_fuel_irrelevant (a b : List α) (f alo ahi blo bhi : Nat)
    (matched : List Match)
    (h1 : alo ≤ ahi) (h2 : ahi ≤ a.length) (h3 : blo ≤ bhi) (h4 : bhi ≤ b.length)
    (hf : ahi - alo ≤ f) :
    matchBlocksF a b f alo ahi blo bhi matched = matchBlocks a b alo ahi blo bhi matched := by
  simp only [matchBlocks, matchBlocksF_eq]
  rw [mbN_fuel f (ahi - alo) alo ahi blo bhi h1 h2 h3 h4 hf (Nat.le_refl _)]

/-- Every block (before and after the adjacency collapse) is a real match; blocks are
strictly increasing and non-overlapping in both `i` and `j`; all blocks except the final
sentinel are non-empty; the last block is the sentinel `(len a, len b, 0)`. -/
theorem blocks_valid_monotone (a b : List α) :
    let raw := matchBlocks a b 0 a.length 0 b.length []
    let blocks := getMatchingBlocks a b
    -- before collapse
    (∀ m ∈ raw, 0 < m.k ∧ m.i + m.k ≤ a.length ∧ m.j + m.k ≤ b.length ∧
        ∀ t, t < m.k → ∃ x, a[m.i + t]? = some x ∧ b[m.j + t]? = some x) ∧
    raw.Pairwise (fun m1 m2 =>
        m1.i < m2.i ∧ m1.j < m2.j ∧ m1.i + m1.k ≤ m2.i ∧ m1.j + m1.k ≤ m2.j) ∧
    -- after collapse, with sentinel
    (∃ body, blocks = body ++ [⟨a.length, b.length, 0⟩] ∧ ∀ m ∈ body, 0 < m.k) ∧
    (∀ m ∈ blocks, m.i + m.k ≤ a.length ∧ m.j + m.k ≤ b.length ∧
        ∀ t, t < m.k → ∃ x, a[m.i + t]? = some x ∧ b[m.j + t]? = some x) ∧
    blocks.Pairwise (fun m1 m2 =>
        m1.i < m2.i ∧ m1.j < m2.j ∧ m1.i + m1.k ≤ m2.i ∧ m1.j + m1.k ≤ m2.j) := by
  intro raw blocks
  have hraw : raw = mbN a b a.length 0 a.length 0 b.length := by
    simp [raw, matchBlocks, matchBlocksF_eq]
  have hblocks : blocks = collapseN (mbN a b a.length 0 a.length 0 b.length) 0 0 0 ++
      [⟨a.length, b.length, 0⟩] := getMatchingBlocks_eq a b
  have w1 := matched_inWin a b
  have w2 := collapsed_inWin a b
  refine ⟨?_, ?_, ?_, ?_, ?_⟩
  · intro m hm
    rw [hraw] at hm
    obtain ⟨_, _, g3, g4, g5, g6⟩ := InWin_mem w1 m hm
    exact ⟨g5, g3, g4, g6⟩
  · rw [hraw]; exact InWin_pairwise w1
  · refine ⟨_, hblocks, ?_⟩
    intro m hm
    exact (InWin_mem w2 m hm).2.2.2.2.1
  · intro m hm
    rw [hblocks] at hm
    simp only [List.mem_append, List.mem_singleton] at hm
    rcases hm with hm | rfl
    · obtain ⟨_, _, g3, g4, _, g6⟩ := InWin_mem w2 m hm
      exact ⟨g3, g4, g6⟩
    · exact ⟨Nat.le_refl _, Nat.le_refl _, fun t ht => absurd ht (Nat.not_lt_zero _)⟩
  · rw [hblocks, List.pairwise_append]
    refine ⟨InWin_pairwise w2, List.pairwise_singleton _ _, ?_⟩
    intro m hm s hs
    simp only [List.mem_singleton] at hs
    subst hs
    obtain ⟨_, _, g3, g4, g5, _⟩ := InWin_mem w2 m hm
    simp only
    omega

example :
    let blocks := getMatchingBlocks "qabxcd".toList "abycdf".toList
    blocks.Pairwise (fun m1 m2 =>
        m1.i < m2.i ∧ m1.j < m2.j ∧ m1.i + m1.k ≤ m2.i ∧ m1.j + m1.k ≤ m2.j) :=
  (blocks_valid_monotone "qabxcd".toList "abycdf".toList).2.2.2.2

/-! ## 3. opcodes tile `[0, len a) × [0, len b)` -/

theorem opcodes_tile (a b : List α) :
    let ops := getOpCodes a b
    (ops = [] ↔ a = [] ∧ b = []) ∧
    (∀ c, ops.head? = some c → c.i1 = 0 ∧ c.j1 = 0) ∧
    (∀ n (h : n + 1 < ops.length), ops[n + 1].i1 = ops[n].i2 ∧ ops[n + 1].j1 = ops[n].j2) ∧
    (∀ c, ops.getLast? = some c → c.i2 = a.length ∧ c.j2 = b.length) ∧
    (∀ c ∈ ops, c.i1 ≤ c.i2 ∧ c.j1 ≤ c.j2 ∧ c.i2 ≤ a.length ∧ c.j2 ≤ b.length ∧
      ((c.tag = opEqual ∧ c.i1 < c.i2 ∧ c.i2 - c.i1 = c.j2 - c.j1) ∨
       (c.tag = opInsert ∧ c.i1 = c.i2 ∧ c.j1 < c.j2) ∨
       (c.tag = opDelete ∧ c.i1 < c.i2 ∧ c.j1 = c.j2) ∨
       (c.tag = opReplace ∧ c.i1 < c.i2 ∧ c.j1 < c.j2))) := by
  intro ops
  have ht : Tile a b 0 0 ops := getOpCodes_tile a b
  refine ⟨Tile_nil_iff ht, fun c hc => Tile_head ht hc, fun n h => Tile_consec ops 0 0 n h ht,
    fun c hc => Tile_last ops 0 0 c ht hc, ?_⟩
  intro c hc
  obtain ⟨g1, g2, g3, g4, g5⟩ := Tile_mem ops 0 0 ht c hc
  refine ⟨g1, g2, g3, g4, ?_⟩
  rcases g5 with ⟨x1, x2, x3, _⟩ | h | h | h
  · exact Or.inl ⟨x1, x2, x3⟩
  · exact Or.inr (Or.inl h)
  · exact Or.inr (Or.inr (Or.inl h))
  · exact Or.inr (Or.inr (Or.inr h))

example :
    let ops := getOpCodes "qabxcd".toList "abycdf".toList
    ∀ c, ops.getLast? = some c → c.i2 = 6 ∧ c.j2 = 6 :=
  (opcodes_tile "qabxcd".toList "abycdf".toList).2.2.2.1

/-! ## 4. Equal opcodes relate identical slices -/

theorem equal_only_identical (a b : List α) :
    ∀ c ∈ getOpCodes a b, c.tag = opEqual →
      (a.drop c.i1).take (c.i2 - c.i1) = (b.drop c.j1).take (c.j2 - c.j1) := by
  intro c hc ht
  exact OpOK_equal_slice (Tile_mem _ 0 0 (getOpCodes_tile a b) c hc) ht

example : ∀ c ∈ getOpCodes "qabxcd".toList "abycdf".toList, c.tag = opEqual →
    ("qabxcd".toList.drop c.i1).take (c.i2 - c.i1) = ("abycdf".toList.drop c.j1).take (c.j2 - c.j1) :=
  equal_only_identical _ _

/-! ## 5. replaying the opcodes on `a` yields `b` -/

theorem replay_opcodes (a b : List α) : replay a b (getOpCodes a b) = b := by
  simpa using replay_tile _ 0 0 (getOpCodes_tile a b)

/-- the `a`-sides of the opcodes concatenate to `a` -/
theorem opcodes_cover_a (a b : List α) : aParts a (getOpCodes a b) = a := by
  simpa using aParts_tile _ 0 0 (getOpCodes_tile a b)

/-- the `b`-sides of the opcodes concatenate to `b` -/
theorem opcodes_cover_b (a b : List α) : bParts b (getOpCodes a b) = b := by
  simpa using bParts_tile _ 0 0 (getOpCodes_tile a b)

example : replay "qabxcd".toList "abycdf".toList
    (getOpCodes "qabxcd".toList "abycdf".toList) = "abycdf".toList := replay_opcodes _ _

/-! ## 6. identical inputs ⇔ only Equal opcodes -/

/-- identical inputs give exactly one Equal opcode covering everything (or nothing if empty) -/
theorem opcodes_identical (s : List α) :
    getOpCodes s s = if s.length = 0 then [] else [⟨opEqual, 0, s.length, 0, s.length⟩] :=
  getOpCodes_self s

theorem opcodes_eq_iff (a b : List α) :
    a = b ↔ ∀ c ∈ getOpCodes a b, c.tag = opEqual := by
  constructor
  · rintro rfl c hc
    rw [getOpCodes_self] at hc
    split at hc
    · simp at hc
    · simp only [List.mem_singleton] at hc
      subst hc; rfl
  · intro h
    have h1 := replay_opcodes a b
    rw [replay_allEqual a b _ h, opcodes_cover_a] at h1
    exact h1

/-- different inputs produce at least one change opcode -/
theorem opcodes_ne_has_change (a b : List α) (h : a ≠ b) :
    ∃ c ∈ getOpCodes a b, c.tag ≠ opEqual := by
  apply Classical.byContradiction
  intro hno
  apply h
  rw [opcodes_eq_iff]
  intro c hc
  apply Classical.byContradiction
  intro hne
  exact hno ⟨c, hc, hne⟩

example : ∃ c ∈ getOpCodes "qabxcd".toList "abycdf".toList, c.tag ≠ opEqual :=
  opcodes_ne_has_change _ _ (by decide)

example : ∀ c ∈ getOpCodes "abcabc".toList "abcabc".toList, c.tag = opEqual :=
  (opcodes_eq_iff _ _).mp rfl

/-! ## 7. grouped opcodes -/

/-- Flattening the groups and keeping the non-Equal opcodes gives exactly the non-Equal
opcodes of `getOpCodes`, in the same order (so every change opcode appears, unchanged, in
exactly one group position and order is preserved). -/
theorem grouped_changes (a b : List α) (n : Nat) :
    changes (getGroupedOpCodes a b n).flatten = changes (getOpCodes a b) :=
  groupOpCodes_changes n _

/-- Every opcode inside a group either is literally an opcode of `getOpCodes`, or is an
Equal opcode that is a sub-range (same diagonal) of an Equal opcode of `getOpCodes`. -/
theorem grouped_members (a b : List α) (n : Nat) :
    ∀ g ∈ getGroupedOpCodes a b n, ∀ c' ∈ g,
      ∃ c ∈ getOpCodes a b, c' = c ∨ SubEqual c' c := by
  intro g hg c' hc'
  have hw : ∀ c ∈ getOpCodes a b, WfEq c := fun c hc =>
    OpOK_wf (Tile_mem _ 0 0 (getOpCodes_tile a b) c hc)
  exact groupOpCodes_rel n _ hw g hg c' hc'

/-- In particular, a non-Equal opcode inside a group is an unchanged opcode of `getOpCodes`. -/
theorem grouped_nonEqual_unchanged (a b : List α) (n : Nat) :
    ∀ g ∈ getGroupedOpCodes a b n, ∀ c' ∈ g, c'.tag ≠ opEqual → c' ∈ getOpCodes a b := by
  intro g hg c' hc' ht
  obtain ⟨c, hc, h⟩ := grouped_members a b n g hg c' hc'
  rcases h with rfl | h
  · exact hc
  · exact absurd h.1 ht

/-- Combined statement (general `n`). -/
theorem grouped_complete (a b : List α) (n : Nat) :
    changes (getGroupedOpCodes a b n).flatten = changes (getOpCodes a b) ∧
    (∀ g ∈ getGroupedOpCodes a b n, ∀ c' ∈ g,
      ∃ c ∈ getOpCodes a b, c' = c ∨
        (c'.tag = opEqual ∧ c.tag = opEqual ∧ c.i1 ≤ c'.i1 ∧ c'.i1 ≤ c'.i2 ∧ c'.i2 ≤ c.i2 ∧
          c'.j1 + c.i1 = c.j1 + c'.i1 ∧ c'.j2 + c.i1 = c.j1 + c'.i2)) :=
  ⟨grouped_changes a b n, grouped_members a b n⟩

/-- different inputs always produce at least one group -/
theorem grouped_nonempty_of_ne (a b : List α) (n : Nat) (h : a ≠ b) :
    getGroupedOpCodes a b n ≠ [] := by
  intro he
  obtain ⟨c, hc, ht⟩ := opcodes_ne_has_change a b h
  have h1 := grouped_changes a b n
  rw [he] at h1
  have : c ∈ changes (getOpCodes a b) := by
    simp only [changes, List.mem_filter]
    exact ⟨hc, by simpa using ht⟩
  rw [← h1] at this
  simp [changes] at this

/-- identical inputs produce no group at all (for every context size `n`) -/
theorem grouped_empty_of_eq (s : List α) (n : Nat) : getGroupedOpCodes s s n = [] := by
  unfold getGroupedOpCodes
  rw [getOpCodes_self]
  split
  · exact groupOpCodes_nil n
  · exact groupOpCodes_single_equal n _

example : changes (getGroupedOpCodes "qabxcd".toList "abycdf".toList 3).flatten =
    changes (getOpCodes "qabxcd".toList "abycdf".toList) := (grouped_complete _ _ 3).1

example : getGroupedOpCodes "qabxcd".toList "abycdf".toList 3 ≠ [] :=
  grouped_nonempty_of_ne _ _ 3 (by decide)

/-! ## Bonus: further facts claimed by the Go doc comments -/

/-- Go doc of `getMatchingBlocks`: adjacent triples (other than the sentinel) never describe
adjacent equal blocks. -/
theorem blocks_nonadjacent (a b : List α) :
    ∃ body, getMatchingBlocks a b = body ++ [⟨a.length, b.length, 0⟩] ∧
      ∀ n (h : n + 1 < body.length),
        ¬ (body[n].i + body[n].k = body[n + 1].i ∧ body[n].j + body[n].k = body[n + 1].j) :=
  ⟨_, getMatchingBlocks_eq a b, NA_index _ (collapsed_NA a b)⟩

/-- consequently no two consecutive opcodes are both Equal -/
theorem opcodes_alternate (a b : List α) :
    let ops := getOpCodes a b
    ∀ n (h : n + 1 < ops.length), ¬ (ops[n].tag = opEqual ∧ ops[n + 1].tag = opEqual) := by
  intro ops n h
  have := AltT_index _ (getOpCodes_alt a b) n (by simpa using h)
  simpa using this

/-- every group returned by `GetGroupedOpCodes` contains at least one change opcode
(in particular no group is empty or context-only) -/
theorem grouped_groups_have_change (a b : List α) (n : Nat) :
    ∀ g ∈ getGroupedOpCodes a b n, ∃ c ∈ g, c.tag ≠ opEqual :=
  groupOpCodes_hasChange n _ (getOpCodes_alt a b)


end GoSnaps.Difflib
