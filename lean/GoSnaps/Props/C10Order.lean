/-
C10 (sorting is an idempotent permutation), the hypothesis `TotalOn` discharged.

`Props/C10.lean` proves that the sort step of `Clean` is a permutation, sorted, unique and idempotent WHEN
`naturalSort` is a strict total order on the ids present (`TotalOn`); `natLt_not_total` shows that this is not
always so (`Test01 - 1` / `Test1 - 1`).  `Lemmas/NaturalOrder.lean` proves that `natural.Less` IS a strict total
order on texts whose digit runs are canonical numerals (`NatOrd.Canon`).  Here:

* the id `name - k` of a slot is canonical when the test name is and `k < 10^19` (`canon_tid`) — so the order
  hypothesis of every C10 / C07 / C09 end-to-end theorem is implied by a DECIDABLE condition on the test
  names alone (`NatOrd.canonB`, run by the kernel);
* `totalOn_of_canon`, `totalOn_of_slots`: `TotalOn` for such ids; the C10 sort theorems without `TotalOn`
  (`sortNat_sorted_canon`, `sort_idempotent_canon`, `sortNat_unique_canon`, `sort_supported_canon`);
* non-vacuity and sharpness: closed examples, and the two ids of `natLt_not_total` are exactly not canonical.
-/
import GoSnaps.Lemmas.NaturalOrder
import GoSnaps.Lemmas.CleanWorld
import GoSnaps.Lemmas.EndToEndClean
import GoSnaps.Props.C10
namespace GoSnaps
namespace C10Order
open NatOrd
open GoSnaps.C03 (testID)
open GoSnaps.CleanWorld (tidOf_of_id tidOf_congr FileInv)

/-! ## the decimal rendering of an ordinal is a canonical numeral -/

theorem val_snoc (l : Text) (c : Byte) : val (l ++ [c]) = val l * 10 + (c.toNat - 48) := by
  simp [val, List.foldl_append]

theorem allDig_snoc {l : Text} {c : Byte} (hl : AllDig l) (hc : isDigit c = true) : AllDig (l ++ [c]) := by
  intro x hx
  simp only [List.mem_append, List.mem_singleton] at hx
  rcases hx with h | rfl
  · exact hl x h
  · exact hc

theorem digit_isDigit' (n : Nat) : isDigit (UInt8.ofNat (48 + n % 10)) = true := by
  rw [isDigit_iff, digit_toNat]
  have : n % 10 < 10 := Nat.mod_lt _ (by omega)
  omega

/-- `strconv.Itoa`: digits only, the value is `n`, no leading zero unless it is the single digit `0` -/
theorem natToTextAux_canon (fuel n : Nat) (acc : Text) (h : n < fuel) :
    ∃ d ds, natToTextAux fuel n acc = d :: ds ++ acc ∧ AllDig (d :: ds) ∧ (ds = [] ∨ d.toNat ≠ 48) ∧
      val (d :: ds) = n := by
  induction fuel generalizing n acc with
  | zero => omega
  | succ f ih =>
    simp only [natToTextAux]
    have hm : n % 10 < 10 := Nat.mod_lt _ (by omega)
    split
    · rename_i hn
      refine ⟨UInt8.ofNat (48 + n % 10), [], by simp, ?_, Or.inl rfl, ?_⟩
      · intro c hc
        simp only [List.mem_singleton] at hc
        rw [hc]; exact digit_isDigit' n
      · simp only [val, List.foldl_cons, List.foldl_nil, digit_toNat]; omega
    · rename_i hn
      obtain ⟨d, ds, h1, h2, h3, h4⟩ := ih (n / 10) (UInt8.ofNat (48 + n % 10) :: acc) (by omega)
      refine ⟨d, ds ++ [UInt8.ofNat (48 + n % 10)], by rw [h1]; simp, ?_, Or.inr ?_, ?_⟩
      · have := allDig_snoc h2 (digit_isDigit' n)
        simpa using this
      · rcases h3 with h3 | h3
        · subst h3
          have hd := h2.head
          simp only [val, List.foldl_cons, List.foldl_nil] at h4
          omega
        · exact h3
      · have : d :: (ds ++ [UInt8.ofNat (48 + n % 10)]) = (d :: ds) ++ [UInt8.ofNat (48 + n % 10)] := rfl
        rw [this, val_snoc, h4, digit_toNat]; omega

theorem natToText_canonRun (k : Nat) (hk : k < 10 ^ 19) :
    AllDig (natToText k) ∧ CanonRun (natToText k) := by
  obtain ⟨d, ds, h1, h2, h3, h4⟩ := natToTextAux_canon (k + 1) k [] (by omega)
  have e : natToText k = d :: ds := by simpa [natToText] using h1
  rw [e]
  refine ⟨h2, ?_, h3⟩
  rcases h3 with h3 | h3
  · subst h3; simp
  · have lo := val_run_lower h2 h3
    rw [h4] at lo
    apply Classical.byContradiction
    intro hlen
    have : 10 ^ 19 ≤ 10 ^ ds.length := Nat.pow_le_pow_right (by decide) (by omega)
    omega

theorem canon_natToText (k : Nat) (hk : k < 10 ^ 19) : Canon (natToText k) :=
  let ⟨h1, h2⟩ := natToText_canonRun k hk
  Canon.ofRun h1 h2

/-- the id of slot `(name, k)` — what `getTestID` extracts from the header `[name - k]` -/
def tid (name : Text) (k : Nat) : Text := name ++ [32, 45, 32] ++ natToText k

theorem canon_tid {name : Text} {k : Nat} (hn : Canon name) (hk : k < 10 ^ 19) : Canon (tid name k) := by
  have h : tid name k = name ++ 32 :: (45 :: 32 :: natToText k) := by simp [tid]
  rw [h]
  exact Canon.append (by decide) hn
    (Canon.cons_byte (by decide) (Canon.cons_byte (by decide) (Canon.cons_byte (by decide) (canon_natToText k hk))))

/-! ## `TotalOn` discharged -/

theorem totalOn_of_canon {l : List Text} (h : ∀ x ∈ l, Canon x) : TotalOn l where
  trans a ha b hb c hc := natLt_trans (h a ha) (h b hb) (h c hc)
  total a ha b hb := natLt_total (h a ha) (h b hb)

/-- the ids of a snapshot file whose headers are `[name - k]` with canonical names: the sort step of
    `Clean` works with a strict total order -/
theorem totalOn_of_slots {es : List Entry}
    (h : ∀ e ∈ es, ∃ name k, e.id = testID name k ∧ Canon name ∧ k < 10 ^ 19) :
    TotalOn (es.map tidOf) := by
  apply totalOn_of_canon
  intro x hx
  obtain ⟨e, he, rfl⟩ := List.mem_map.mp hx
  obtain ⟨name, k, hid, hn, hk⟩ := h e he
  rw [tidOf_of_id hid]
  exact canon_tid hn hk

/-- the same for the file a run leaves (`FileInv`, `Lemmas/EndToEndClean.lean`: every header is a header of the
    initial file or `[t - k]` for a called test `t`): the `total` field of `FileAfter` — the one hypothesis of
    the C07 / C09 / C10 end-to-end theorems that was not about the inputs — follows from canonical ids in the
    initial file, canonical names of the called tests and ordinals below 10^19 -/
theorem totalOn_of_fileInv {es₀ es : List Entry} {N T : List Text} (hinv : FileInv es₀ N T es)
    (h₀ : ∀ e ∈ es₀, Canon (tidOf e)) (hN : ∀ t ∈ N, Canon t)
    (hk : ∀ o ∈ es, ∀ t k, o.id = testID t k → k < 10 ^ 19) : TotalOn (es.map tidOf) := by
  apply totalOn_of_canon
  intro x hx
  obtain ⟨o, ho, rfl⟩ := List.mem_map.mp hx
  rcases hinv.ids o ho with hi | ⟨t, ht, k, hi⟩
  · obtain ⟨o₀, ho₀, e⟩ := List.mem_map.mp hi
    rw [tidOf_congr e.symm]
    exact h₀ o₀ ho₀
  · rw [tidOf_of_id hi]
    exact canon_tid (hN t ht) (hk o ho t k hi)

/-! ## the sort theorems of C10 for canonical ids, without `TotalOn` -/

theorem sortNat_sorted_canon (l : List Text) (h : ∀ x ∈ l, Canon x) : allPairsOrdered (sortNat l) = true :=
  C10.sortNat_sorted l (totalOn_of_canon h)

theorem isSortedNat_sortNat_canon (l : List Text) (h : ∀ x ∈ l, Canon x) : isSortedNat (sortNat l) = true :=
  C10.isSortedNat_sortNat l (totalOn_of_canon h)

theorem sort_idempotent_canon (l : List Text) (h : ∀ x ∈ l, Canon x) : sortNat (sortNat l) = sortNat l :=
  C10.sort_idempotent l (totalOn_of_canon h)

theorem sortNat_perm_invariant_canon (l₁ l₂ : List Text) (h : ∀ x ∈ l₁, Canon x) (hp : l₁.Perm l₂) :
    sortNat l₁ = sortNat l₂ :=
  C10.sortNat_perm_invariant l₁ l₂ (totalOn_of_canon h) hp

theorem sortNat_of_sorted_canon (l : List Text) (h : ∀ x ∈ l, Canon x) (hs : isSortedNat l = true) :
    sortNat l = l :=
  C10.sortNat_of_sorted l (totalOn_of_canon h) hs

theorem sortNat_unique_canon (l l' : List Text) (h : ∀ x ∈ l, Canon x) (hp : l'.Perm l)
    (hs : allPairsOrdered l' = true) : l' = sortNat l :=
  C10.sortNat_unique l l' (totalOn_of_canon h) hp hs

/-- for canonical ids the sort step of the model's `examineSnaps` never answers `.unsupportedOrder` -/
theorem sort_supported_canon (l : List Text) (h : ∀ x ∈ l, Canon x) :
    (allPairsOrdered (sortNat l) && pairwiseComparable (sortNat l)) = true :=
  C10.sort_supported l (totalOn_of_canon h)

/-! ## the slots of one test are sorted by their ordinals, numerically -/

theorem lexLt_append_left : ∀ (p a b : List Tok), lexLt (p ++ a) (p ++ b) = lexLt a b
  | [], _, _ => rfl
  | t :: p, a, b => by
    simp only [List.cons_append]
    rw [lexLt_cons_same, lexLt_append_left p a b]

theorem key_append {c : Byte} (hc : isDigit c = false) (a b : Text) : key (a ++ c :: b) = key a ++ key (c :: b) := by
  simp [key, toks_append hc b _ a (Nat.le_refl _)]

theorem key_run {ds : Text} (hd : AllDig ds) (hne : ds ≠ []) : key ds = [.num (val ds)] := by
  cases ds with
  | nil => exact absurd rfl hne
  | cons d rest =>
    rw [key_digit rest (hd d (by simp)), takeWhile_allDig hd.tail, dropWhile_allDig hd.tail, key_nil]

theorem val_natToText (k : Nat) : val (natToText k) = k := by
  obtain ⟨d, ds, h1, _, _, h4⟩ := natToTextAux_canon (k + 1) k [] (by omega)
  have e : natToText k = d :: ds := by simpa [natToText] using h1
  rw [e, h4]

theorem natToText_ne_nil' (k : Nat) : natToText k ≠ [] := by
  obtain ⟨d, ds, h1, _, _, _⟩ := natToTextAux_canon (k + 1) k [] (by omega)
  have e : natToText k = d :: ds := by simpa [natToText] using h1
  rw [e]; simp

theorem key_tid (name : Text) (k : Nat) (hk : k < 10 ^ 19) :
    key (tid name k) = key name ++ [.byte 32, .byte 45, .byte 32, .num k] := by
  have h : tid name k = name ++ 32 :: (45 :: 32 :: natToText k) := by simp [tid]
  rw [h, key_append (by decide), key_byte _ (by decide), key_byte _ (by decide), key_byte _ (by decide),
    key_run (natToText_canonRun k hk).1 (natToText_ne_nil' k), val_natToText]

/-- **`[T - 2]` stands before `[T - 10]`**: two slots of the same test compare as their ordinals do, for every
    canonical test name and all ordinals below 10^19 (so a sorted file lists a test's snapshots in call order) -/
theorem natLt_tid_same {name : Text} (hn : Canon name) {j k : Nat} (hj : j < 10 ^ 19) (hk : k < 10 ^ 19) :
    natLt (tid name j) (tid name k) = decide (j < k) := by
  rw [natLt_eq_lexLt (canon_tid hn hj) (canon_tid hn hk), key_tid name j hj, key_tid name k hk, lexLt_append_left,
    lexLt_cons_same, lexLt_cons_same, lexLt_cons_same]
  simp only [lexLt, tokLt]
  by_cases h : j < k
  · simp [h]
  · by_cases h2 : k < j
    · simp [h, h2]
    · simp [h, h2]

/-- the slots `[T - s]`, `[T - s+1]`, …, `[T - s+n-1]` of one test, in the order the calls recorded them, pass
    `slices.IsSortedFunc(ids, naturalSort)` … -/
theorem isSortedNat_slots {name : Text} (hn : Canon name) :
    ∀ (n s : Nat), s + n < 10 ^ 19 → isSortedNat ((List.range' s n).map (tid name)) = true
  | 0, _, _ => by simp [isSortedNat]
  | 1, _, _ => by simp [List.range', isSortedNat]
  | n + 2, s, h => by
    have ih := isSortedNat_slots hn (n + 1) (s + 1) (by omega)
    have h1 : natLt (tid name (s + 1)) (tid name s) = false := by
      rw [natLt_tid_same hn (by omega) (by omega)]; simp
    have e : List.range' s (n + 2) = s :: (s + 1) :: List.range' (s + 1 + 1) n := by
      simp [List.range']
    have e2 : List.range' (s + 1) (n + 1) = (s + 1) :: List.range' (s + 1 + 1) n := by
      simp [List.range']
    rw [e2] at ih
    rw [e]
    simp only [List.map_cons, isSortedNat, h1, Bool.not_false, Bool.true_and]
    simpa using ih

/-- … so `Clean` with `Sort` finds the file of a test that recorded `n` snapshots in call order already sorted: the
    sort is the identity on it (with `C10.clean_nothing_to_do`: the file is not written) -/
theorem sortNat_slots {name : Text} (hn : Canon name) (n : Nat) (h : 1 + n < 10 ^ 19) :
    sortNat ((List.range' 1 n).map (tid name)) = (List.range' 1 n).map (tid name) :=
  sortNat_of_sorted_canon _ (by
      intro x hx
      obtain ⟨k, hk, rfl⟩ := List.mem_map.mp hx
      have := List.mem_range'_1.mp hk
      exact canon_tid hn (by omega))
    (isSortedNat_slots hn n 1 h)

/-! ## non-vacuity and sharpness -/

-- "TestA/x#2" and "Test12/b_7": canonical, by running the checker in the kernel
example : Canon [84, 101, 115, 116, 65, 47, 120, 35, 50] := canonB_sound (by decide)
example : Canon [84, 101, 115, 116, 49, 50, 47, 98, 95, 55] := canonB_sound (by decide)

-- so their slots are totally ordered, whatever the ordinals below 10^19
example : TotalOn [tid [84, 101, 115, 116, 65, 47, 120, 35, 50] 3, tid [84, 101, 115, 116, 49, 50, 47, 98, 95, 55] 10,
    tid [84, 101, 115, 116, 65, 47, 120, 35, 50] 12] :=
  totalOn_of_canon (by
    intro x hx
    simp only [List.mem_cons, List.not_mem_nil, or_false] at hx
    rcases hx with rfl | rfl | rfl <;>
      exact canon_tid (canonB_sound (by decide)) (by decide))

-- "Test01" (the witness of `C10.natLt_not_total`) is rejected by the checker, "Test1" is accepted
example : canonB [84, 101, 115, 116, 48, 49] = false ∧ canonB [84, 101, 115, 116, 49] = true := by decide

-- twenty digits are rejected (`ParseUint` may overflow: `natural.Less` falls back to the byte order)
example : canonB (List.replicate 20 49) = false ∧ canonB (List.replicate 19 57) = true := by decide

/-- **the 19-digit limit is sharp**: with a run of twenty digits `strconv.ParseUint` overflows, `natural.Less` falls back
    to the byte order for that pair, and the comparator is not transitive any more:
    `x20000000000000000000 < x3 < x10 < x20000000000000000000` -/
theorem natLt_cycle_with_twenty_digits :
    let big : Text := 120 :: 50 :: List.replicate 19 48
    natLt big [120, 51] = true ∧ natLt [120, 51] [120, 49, 48] = true ∧ natLt [120, 49, 48] big = true ∧
      canonB big = false := by decide

-- the key of "a10b" : byte a, number 10, byte b
example : (toksF 4 [97, 49, 48, 98]).map tokOf = [.byte 97, .num 10, .byte 98] := by decide

end C10Order
end GoSnaps
