/- C15 — the go-snaps part of the matcher pipeline: `applyJSONMatchers` / `applyYAMLMatchers`
   (snaps/matchJSON.go:166-179, matchYAML.go:171-185) as a fold over abstract matchers. -/
import GoSnaps.Bytes
import GoSnaps.Generated.Consts
namespace GoSnaps.C15

/-- a matcher: document ↦ (output document, errors) -/
abbrev Matcher (ε : Type) := Text → Text × List ε

/-- the fold of `applyJSONMatchers`: a matcher that reports errors is skipped (its output is
    discarded, its errors collected), otherwise its output becomes the next input -/
def applyMatchers {ε : Type} : List (Matcher ε) → Text → List ε → Text × List ε
  | [], b, errs => (b, errs)
  | m :: ms, b, errs =>
    let r := m b
    if r.2 ≠ [] then applyMatchers ms b (errs ++ r.2) else applyMatchers ms r.1 errs

/-- matchers take effect left to right -/
theorem matchers_left_to_right {ε : Type} (m : Matcher ε) (ms : List (Matcher ε)) (b : Text) (errs : List ε)
    (h : (m b).2 = []) : applyMatchers (m :: ms) b errs = applyMatchers ms (m b).1 errs := by
  simp [applyMatchers, h]

/-- a failing matcher's output never becomes the document (no partial leak) -/
theorem failed_matcher_skipped {ε : Type} (m : Matcher ε) (ms : List (Matcher ε)) (b : Text) (errs : List ε)
    (h : (m b).2 ≠ []) : applyMatchers (m :: ms) b errs = applyMatchers ms b (errs ++ (m b).2) := by
  simp [applyMatchers, h]

/-- errors are aggregated in order, none is lost -/
theorem errors_accumulate {ε : Type} (ms : List (Matcher ε)) (b : Text) (errs : List ε) :
    ∃ more, (applyMatchers ms b errs).2 = errs ++ more := by
  induction ms generalizing b errs with
  | nil => exact ⟨[], by simp [applyMatchers]⟩
  | cons m ms ih =>
    simp only [applyMatchers]
    split
    · obtain ⟨more, h⟩ := ih b (errs ++ (m b).2)
      exact ⟨(m b).2 ++ more, by rw [h]; simp⟩
    · exact ih (m b).1 errs

/-- if every matcher succeeds the result is the plain composition -/
theorem all_succeed {ε : Type} (ms : List (Matcher ε)) (b : Text)
    (h : ∀ m ∈ ms, ∀ d, (m d).2 = []) :
    applyMatchers ms b [] = (ms.foldl (fun d m => (m d).1) b, []) := by
  induction ms generalizing b with
  | nil => simp [applyMatchers]
  | cons m ms ih =>
    have hm := h m (by simp) b
    simp only [applyMatchers, hm, ne_eq, not_true_eq_false, ↓reduceIte, List.foldl_cons]
    exact ih (m b).1 (fun m' hm' d => h m' (by simp [hm']) d)

/-- aliasing facts read from the source: the caller's `[]byte` reaches the matchers uncopied iff
    `validateJSON` returns its argument, and sjson writes into its input iff `ReplaceInPlace`.
    The caller's bytes can only be modified when both hold. -/
def callerBytesAtRisk : Bool := Generated.validateJSONAliases && Generated.sjsonReplaceInPlace

end GoSnaps.C15
