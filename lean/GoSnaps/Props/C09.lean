/-
C09 — Clean reports every stale item, deletes only in clean mode, and touches nothing else.

Statements only; proofs call `Lemmas/Clean.lean` and `Props/C10.lean`.
-/
import GoSnaps.Lemmas.Clean
import GoSnaps.Props.C10
namespace GoSnaps.C09

open GoSnaps

/-! ## 1. every stale entry is reported -/

/-- without `-run` the skip rules reduce to the skip-list test, and no oracle is consulted -/
theorem testSkipped_noRun (o : Oracles) (skipped : List Text) (tid : Text) :
    testSkipped o skipped tid [] = some (skipListed skipped tid) :=
  GoSnaps.testSkipped_noRun o skipped tid

/-- **`stale_reported`** (`runOnly = []`): the scan reports *exactly* the recognised entries that
are neither registered nor skip-protected, in file order, in both modes; in particular each of
them is reported -/
theorem obsolete_eq_stale (o : Oracles) (registered skipped : List Text) (update : Bool)
    (es : List Entry) (hf : CleanFile es) :
    (exScan o registered skipped [] update (scan (render es)) .outer {}).obsolete =
      (es.filter (fun e => !(registered.contains (tidOf e) || skipListed skipped (tidOf e)))).map tidOf := by
  rw [C10.exScan_render o registered skipped [] update es hf
    (fun e _ => classified_noRun o registered skipped _)]
  simp only [keptId_noRun]

theorem stale_reported (o : Oracles) (registered skipped : List Text) (update : Bool)
    (es : List Entry) (hf : CleanFile es) (e : Entry) (he : e ∈ es)
    (hnreg : tidOf e ∉ registered) (hnskip : skipListed skipped (tidOf e) = false) :
    tidOf e ∈ (exScan o registered skipped [] update (scan (render es)) .outer {}).obsolete := by
  rw [obsolete_eq_stale o registered skipped update es hf]
  refine List.mem_map.mpr ⟨e, List.mem_filter.mpr ⟨he, ?_⟩, rfl⟩
  simp [hnreg, hnskip]

/-- … and `examineSnaps` hands exactly that list to the summary, in every mode -/
theorem stale_reported_by_examineSnaps (o : Oracles) (fs : FS) (cleanup : List (RegKey × Nat))
    (skipped : List Text) (p : Text) (count : Nat) (update sort : Bool) (registered : List Text)
    (es : List Entry) (hf : CleanFile es) (hread : fsRead fs p = some (render es))
    (hreg : registeredFor cleanup p count = some registered)
    (obs : List Text) (fs' : FS) (w : List Text)
    (hfirst : examineSnaps o fs cleanup skipped [p] [] count update sort = .ok obs fs' w) :
    obs = (es.filter (fun e => !(registered.contains (tidOf e) || skipListed skipped (tidOf e)))).map tidOf := by
  rw [examineSnaps_single o registered skipped [] fs cleanup p count update sort es hf hread hreg
    (fun e _ => classified_noRun o registered skipped _)] at hfirst
  rw [(cleanOutcome_ok _ es p fs update sort obs fs' w hfirst).1]
  simp only [keptId_noRun]

/-- concrete: `[TestB - 1]` unregistered (reported), `[TestS - 1]` unregistered but `TestS` is on
    the skip list (not reported), `[TestA - 1]` registered -/
example :
    let e1 : Entry := ⟨[91, 84, 101, 115, 116, 66, 32, 45, 32, 49, 93], [120]⟩
    let e2 : Entry := ⟨[91, 84, 101, 115, 116, 83, 32, 45, 32, 49, 93], [121]⟩
    let e3 : Entry := ⟨[91, 84, 101, 115, 116, 65, 32, 45, 32, 49, 93], [122]⟩
    (exScan {} [[84, 101, 115, 116, 65, 32, 45, 32, 49]] [[84, 101, 115, 116, 83]] [] false
      (scan (render [e1, e2, e3])) .outer {}).obsolete = [[84, 101, 115, 116, 66, 32, 45, 32, 49]] := by
  decide

/-! ## 2. report-only mode removes nothing -/

/-- **`no_update_no_removal_partial`**: with `update = false` AND `sort = false`, `examineSnaps`
(any list of used files) leaves the file system unchanged and writes no file. -/
theorem no_update_no_removal_partial (o : Oracles) (fs : FS) (cleanup : List (RegKey × Nat))
    (skipped used : List Text) (runOnly : Text) (count : Nat)
    (obs : List Text) (fs' : FS) (w : List Text)
    (h : examineSnaps o fs cleanup skipped used runOnly count false false = .ok obs fs' w) :
    fs' = fs ∧ w = [] :=
  examineSnaps_go_noop o cleanup skipped runOnly count used fs [] [] obs fs' w h

/-- report-only, no sorting, one stale entry: reported, nothing written -/
example :
    let e1 : Entry := ⟨[91, 84, 101, 115, 116, 66, 32, 45, 32, 49, 93], [120]⟩
    let e2 : Entry := ⟨[91, 84, 101, 115, 116, 65, 32, 45, 32, 49, 93], [121]⟩
    let p : Text := [47, 115, 47, 97, 46, 115, 110, 97, 112]
    examineSnaps {} [(p, render [e1, e2])] [((p, [84, 101, 115, 116, 66]), 1)] [] [p] [] 1 false false =
      .ok [[84, 101, 115, 116, 65, 32, 45, 32, 49]] [(p, render [e1, e2])] [] := by decide

/-- **`no_update_no_loss`, one file** (`update = false`, ANY `sort`): the stale ids are reported,
and afterwards the file holds a permutation of ALL its entries — stale ones included, each with
its original header and body; with `sort = false` it is not written at all. -/
theorem no_update_no_loss (o : Oracles) (fs : FS) (cleanup : List (RegKey × Nat))
    (skipped : List Text) (p runOnly : Text) (count : Nat) (sort : Bool) (registered : List Text)
    (es : List Entry) (hf : CleanFile es) (hread : fsRead fs p = some (render es))
    (hreg : registeredFor cleanup p count = some registered)
    (hcls : ∀ e ∈ es, Classified o registered skipped runOnly (tidOf e))
    (obs : List Text) (fs' : FS) (w : List Text)
    (hfirst : examineSnaps o fs cleanup skipped [p] runOnly count false sort = .ok obs fs' w) :
    obs = (es.filter (fun e => !keptId o registered skipped runOnly (tidOf e))).map tidOf ∧
    ∃ es', es'.Perm es ∧ CleanFile es' ∧ fsRead fs' p = some (render es') ∧
      (fs' = fs ∨ fs' = fsWrite fs p (render es')) := by
  obtain ⟨hobs, es', hf', hr, hcase⟩ := examineSnaps_single_ok o registered skipped runOnly fs cleanup
    p count false sort es hf hread hreg hcls obs fs' w hfirst
  refine ⟨hobs, es', ?_, hf', hr, ?_⟩
  · rcases hcase with ⟨_, _, rfl⟩ | ⟨_, _, hperm⟩
    · exact List.Perm.refl _
    · have : es.filter (fun e => keptId o registered skipped runOnly (tidOf e) || !false) = es :=
        List.filter_eq_self.mpr (fun _ _ => by simp)
      rwa [this] at hperm
  · rcases hcase with ⟨h, _, _⟩ | ⟨h, _, _⟩
    · exact Or.inl h
    · exact Or.inr h

/-- **`no_update_no_loss`, any list of used files** (`update = false`, any `sort`): whatever
entry list a path held before the run, it holds a permutation of it afterwards.  `hok`: the used
files are `CleanFile`s; `hcls`: no oracle miss (a theorem when `runOnly = []`:
`classified_noRun`). -/
theorem no_update_no_loss_all (o : Oracles) (fs : FS) (cleanup : List (RegKey × Nat))
    (skipped used : List Text) (runOnly : Text) (count : Nat) (sort : Bool)
    (hcls : ∀ p ∈ used, ∀ registered, registeredFor cleanup p count = some registered →
      ∀ tid, Classified o registered skipped runOnly tid)
    (hok : ∀ p ∈ used, ∃ es, CleanFile es ∧ fsRead fs p = some (render es))
    (obs : List Text) (fs' : FS) (w : List Text)
    (h : examineSnaps o fs cleanup skipped used runOnly count false sort = .ok obs fs' w)
    (q : Text) (es : List Entry) (hfes : CleanFile es) (hq : fsRead fs q = some (render es)) :
    ∃ es', es'.Perm es ∧ CleanFile es' ∧ fsRead fs' q = some (render es') :=
  examineSnaps_go_no_loss o cleanup skipped runOnly count sort used hcls fs [] [] hok obs fs' w h
    q es hfes hq

/-- **`examineSnaps` touches nothing else**, any mode: only used files are written, and every
    path outside `used` reads as before -/
theorem examineSnaps_frame (o : Oracles) (fs : FS) (cleanup : List (RegKey × Nat))
    (skipped used : List Text) (runOnly : Text) (count : Nat) (update sort : Bool)
    (obs : List Text) (fs' : FS) (w : List Text)
    (h : examineSnaps o fs cleanup skipped used runOnly count update sort = .ok obs fs' w) :
    (∀ q, q ∉ used → fsRead fs' q = fsRead fs q) ∧ ∀ x ∈ w, x ∈ used := by
  obtain ⟨h1, w2, h2, h3⟩ := examineSnaps_go_frame o cleanup skipped runOnly count update sort used
    fs [] [] obs fs' w h
  refine ⟨h1, ?_⟩
  rw [h2]; simpa using h3

/-
Defect D5 on the PINNED tree (old `exScan`, which skipped a stale body in every mode): with
`update = false`, `sort = true` the unsorted file `[TestB - 1]` (registered), `[TestA - 1]`
(stale) was rewritten WITHOUT the stale entry — a report-only run lost a snapshot.  Checked
against the old definition as

  theorem sort_without_update_drops_stale :
      examineSnaps {} [(p, render [e1, e2])] [((p, "TestB"), 1)] [] [p] [] 1 false true =
        .ok ["TestA - 1"] [(p, render [e1])] [p] := by decide

(kept, building, in the pinned-definition copy of this file).  With the repaired scan the same
run keeps the stale entry and only sorts:
-/
theorem sort_without_update_keeps_stale :
    let e1 : Entry := ⟨[91, 84, 101, 115, 116, 66, 32, 45, 32, 49, 93], [120]⟩
    let e2 : Entry := ⟨[91, 84, 101, 115, 116, 65, 32, 45, 32, 49, 93], [121]⟩
    let p : Text := [47, 115, 47, 97, 46, 115, 110, 97, 112]
    examineSnaps {} [(p, render [e1, e2])] [((p, [84, 101, 115, 116, 66]), 1)] [] [p] [] 1 false true =
      .ok [[84, 101, 115, 116, 65, 32, 45, 32, 49]] [(p, render [e2, e1])] [p] := by decide

/-- two used files, report-only with sorting: `/s/a.snap` (unsorted, one stale entry) is
    rewritten sorted with all its entries, `/s/b.snap` (sorted) is left alone, a third file is
    untouched; the stale id is reported -/
example :
    let e1 : Entry := ⟨[91, 84, 101, 115, 116, 66, 32, 45, 32, 49, 93], [120]⟩
    let e2 : Entry := ⟨[91, 84, 101, 115, 116, 65, 32, 45, 32, 49, 93], [121]⟩
    let e3 : Entry := ⟨[91, 84, 101, 115, 116, 67, 32, 45, 32, 49, 93], [122]⟩
    let a : Text := [47, 115, 47, 97, 46, 115, 110, 97, 112]
    let b : Text := [47, 115, 47, 98, 46, 115, 110, 97, 112]
    let c : Text := [47, 115, 47, 99, 46, 115, 110, 97, 112]
    examineSnaps {} [(a, render [e1, e2]), (b, render [e3]), (c, [7])]
        [((a, [84, 101, 115, 116, 66]), 1), ((b, [84, 101, 115, 116, 67]), 1)] [] [a, b] [] 1 false true =
      .ok [[84, 101, 115, 116, 65, 32, 45, 32, 49]]
        [(a, render [e2, e1]), (b, render [e3]), (c, [7])] [a] := by decide

/-! ## 3. `examineFiles` removes only orphan `.snap` entries, and only in clean mode -/

/-- **`examineFiles_untouched`.**  For every successful run:
* every reported path (hence every removed one) is `Orphan`: `filepath.Join(dir, name)` for a
  visited directory `dir` (the directory of a registered file or standalone snapshot) and a
  directory entry `name` — non-empty, slash-free, i.e. *directly inside* `dir` — whose name contains
  `.snap`, and the path is neither a registered file nor a registered standalone snapshot;
* `update = false`: nothing is removed and the file system is unchanged;
* `update = true`: the removed paths are exactly the reported ones;
* the resulting file system is the original one minus the removed paths, so every other path
  reads as before. -/
theorem examineFiles_untouched (o : Oracles) (fs : FS) (regPaths standalone : List Text)
    (runOnly : Text) (update : Bool) (r : FilesResult)
    (h : examineFiles o fs regPaths standalone runOnly update = some r) :
    (∀ p ∈ r.obsolete, Orphan regPaths standalone p) ∧
    (update = false → r.removed = [] ∧ r.fs = fs) ∧
    (update = true → r.removed = r.obsolete) ∧
    (∀ q, q ∉ r.removed → fsRead r.fs q = fsRead fs q) := by
  have inv := examineFiles_inv o fs regPaths standalone runOnly update r h
  refine ⟨inv.orphan, ?_, ?_, ?_⟩
  · intro hu
    have h1 : r.removed = [] := by rw [inv.removed_eq, hu]; rfl
    refine ⟨h1, ?_⟩
    rw [inv.fs_eq, h1]; rfl
  · intro hu; rw [inv.removed_eq, hu]; rfl
  · intro q hq; rw [inv.fs_eq]; exact fsRead_foldl_fsRemove fs r.removed q hq

/-- a name without `.snap` is never removed: every removed path is `Join(dir, name)` with
    `.snap` in `name` (unfolding `Orphan`) -/
theorem removed_contains_snap (o : Oracles) (fs : FS) (regPaths standalone : List Text)
    (runOnly : Text) (update : Bool) (r : FilesResult)
    (h : examineFiles o fs regPaths standalone runOnly update = some r) (p : Text)
    (hp : p ∈ r.removed) :
    ∃ dir ∈ (regPaths ++ standalone).map fpDir, ∃ name, p = fpJoin [dir, name] ∧
      containsSub name Generated.snapsExt = true ∧ name ≠ [] ∧ slash ∉ name ∧
      p ∉ regPaths ∧ p ∉ standalone := by
  have inv := examineFiles_inv o fs regPaths standalone runOnly update r h
  have : p ∈ r.obsolete := by
    rw [inv.removed_eq] at hp
    split at hp
    · exact hp
    · cases hp
  exact inv.orphan p this

/-- concrete: directory `/s` holds the registered `a.snap`, an orphan `b.snap`, a non-snapshot
    `notes.txt` and a sub-directory entry `d/c.snap`; clean mode removes `b.snap` only -/
example :
    let a : Text := [47, 115, 47, 97, 46, 115, 110, 97, 112]
    let b : Text := [47, 115, 47, 98, 46, 115, 110, 97, 112]
    let n : Text := [47, 115, 47, 110, 111, 116, 101, 115, 46, 116, 120, 116]
    let c : Text := [47, 115, 47, 100, 47, 99, 46, 115, 110, 97, 112]
    let fs : FS := [(a, [1]), (b, [2]), (n, [3]), (c, [4])]
    examineFiles {} fs [a] [] [] true =
      some { obsolete := [b], used := [a], fs := [(a, [1]), (n, [3]), (c, [4])], removed := [b] } ∧
    examineFiles {} fs [a] [] [] false =
      some { obsolete := [b], used := [a], fs := fs, removed := [] } := by decide

end GoSnaps.C09
