/- C09: statements are being proved (see git history); placeholder keeps the module buildable. -/
import GoSnaps.Clean
namespace GoSnaps.C09
theorem isNumber_nil : isNumber [] = true := by decide
end GoSnaps.C09
