/-
C06 — every schedule of slot-disjoint goroutines is serialisable, provided `getPrevSnapshot`,
`addNewSnapshot` and `updateSnapshot` all take the mutex; and a concrete broken schedule for each
of the three locks when it is missing (`addNewSnapshot` without the lock is the pinned tree,
finding D4).

Statements only; the model is `GoSnaps/Conc.lean` (executable, `runSchedule`), the invariant and
its preservation are in `GoSnaps/Lemmas/Conc.lean`.  All theorems are for ANY number of threads,
ANY programs and EVERY schedule (`sch : List Nat`, blocked/finished/non-existent choices stutter).

The three facts about the source are the fields of `L : Locks` (`L.add`, `L.upd`, `L.read`).
Slots and values are arbitrary types with decidable equality (`κ`, `ν`); examples use `Nat`.
An update is FOUR steps: READ, `upd1` (lock + copy), `upd2a` (truncate), `upd2b` (write + unlock).
-/
import GoSnaps.Lemmas.Conc

namespace GoSnaps.Conc.C06

open GoSnaps GoSnaps.Conc

variable {κ ν : Type} [DecidableEq κ] [DecidableEq ν]

/-! ## Running example (3 threads, 7 calls, an interleaved schedule with blocked choices) -/

def exInit : File Nat Nat := [(10, 1), (20, 2), (30, 3)]

def exProgs : List (List (Call Nat Nat)) :=
  [ [⟨10, 1, false, false⟩, ⟨11, 5, true, false⟩, ⟨11, 6, false, true⟩],   -- pass, add, update
    [⟨20, 7, false, true⟩, ⟨21, 8, false, true⟩],                          -- update, fail
    [⟨31, 9, true, true⟩, ⟨30, 4, false, false⟩] ]                         -- add, fail

/-- thread 1 takes W (step 4); thread 0 (ADD) and thread 2 (READ) are scheduled while blocked
(steps 5, 6); thread 1 truncates (step 7); thread 2 is scheduled again, still blocked, while the
file is EMPTY (step 8); thread 1 writes back and unlocks (step 9); ... -/
def exSched : List Nat := [0, 0, 1, 1, 0, 2, 1, 2, 1, 2, 0, 2, 0, 1, 2, 0, 0, 0, 1, 2]

def allL : Locks := { add := true, upd := true, read := true }

/-! ## 1. Outcomes are the serial ones -/

/-- **Serialisable outcomes.**  If all three functions are locked and threads have pairwise
disjoint slots, then after ANY schedule, every thread that has finished has produced exactly the
outcomes of running its program alone against the initial file. -/
theorem serialisable_outcomes (L : Locks)
    (hL : L.add = true ∧ L.upd = true ∧ L.read = true)
    (f₀ : File κ ν) (progs : List (List (Call κ ν))) (hdisj : Disj progs) (sch : List Nat)
    (i : Nat) (t : ATState κ ν) (hfin : (run L (init f₀ progs) sch).ts[i]? = some t)
    (hdone : t.todo = []) :
    ∃ p, progs[i]? = some p ∧ t.outs = serialOuts (lookup f₀) p :=
  (run_inv hL.1 hL.2.1 hL.2.2 hdisj _ (init_inv f₀ progs) sch).outs_of_done hfin hdone

example : Disj exProgs := by decide
example : AllDone (run allL (init exInit exProgs) exSched) := by decide
/-- after step 8 the real file is empty, W is held, and a blocked reader has been scheduled -/
example : (run allL (init exInit exProgs) (exSched.take 8)).file = [] ∧
    (run allL (init exInit exProgs) (exSched.take 8)).holder = some 1 := by decide
example : (runSchedule true true true exInit exProgs exSched).2 =
    [[.passed, .added, .updated], [.updated, .failed], [.added, .failed]] := by decide
example : exProgs.map (serialOuts (lookup exInit)) =
    [[.passed, .added, .updated], [.updated, .failed], [.added, .failed]] := by decide

/-! ## 2. The final file -/

/-- **Final file correct**: none lost, duplicated, or overwritten by a stale copy.  Under the same
hypotheses, after any schedule which lets ALL threads finish (see `Conc.FinalOK`):
* `owned`   : every slot holds what its owner's serial run leaves in it,
              `lookup final s = serialFinal p s (lookup f₀ s)`;
* `unowned` : slots nobody owns hold `lookup f₀ s`;
* `order`   : `final.map fst = f₀.map fst ++ added` for a duplicate-free list `added` of slots
              that are new and were created by a call with `canCreate`;
* `nodup`   : if the initial file has no duplicate slot, neither has the final file. -/
theorem final_file_correct (L : Locks)
    (hL : L.add = true ∧ L.upd = true ∧ L.read = true)
    (f₀ : File κ ν) (progs : List (List (Call κ ν))) (hdisj : Disj progs) (sch : List Nat)
    (hdone : AllDone (run L (init f₀ progs) sch)) :
    FinalOK f₀ progs (run L (init f₀ progs) sch).file :=
  (run_inv hL.1 hL.2.1 hL.2.2 hdisj _ (init_inv f₀ progs) sch).finalOK
    (by rw [run_length]; simp [init]) hdone

/-- ... and the write lock is free again. -/
theorem lock_released (L : Locks)
    (hL : L.add = true ∧ L.upd = true ∧ L.read = true)
    (f₀ : File κ ν) (progs : List (List (Call κ ν))) (hdisj : Disj progs) (sch : List Nat)
    (hdone : AllDone (run L (init f₀ progs) sch)) :
    (run L (init f₀ progs) sch).holder = none :=
  (run_inv hL.1 hL.2.1 hL.2.2 hdisj _ (init_inv f₀ progs) sch).holder_none hdone

example : (runSchedule true true true exInit exProgs exSched).1 =
    [(10, 1), (20, 7), (30, 3), (11, 6), (31, 9)] := by decide
example : (exInit.map Prod.fst).Nodup := by decide
example : FinalOK exInit exProgs (run allL (init exInit exProgs) exSched).file :=
  final_file_correct allL ⟨rfl, rfl, rfl⟩ exInit exProgs (by decide) exSched (by decide)

/-- The same two conclusions in terms of the harness entry point `runSchedule`. -/
theorem runSchedule_serialisable (f₀ : File κ ν) (progs : List (List (Call κ ν))) (hdisj : Disj progs)
    (sch : List Nat)
    (hdone : AllDone (run allL (init f₀ progs) sch)) :
    (runSchedule true true true f₀ progs sch).2 = progs.map (serialOuts (lookup f₀)) ∧
    FinalOK f₀ progs (runSchedule true true true f₀ progs sch).1 :=
  ⟨(run_inv rfl rfl rfl hdisj _ (init_inv f₀ progs) sch).all_outs
      (by rw [run_length]; simp [init]) hdone,
    final_file_correct allL ⟨rfl, rfl, rfl⟩ f₀ progs hdisj sch hdone⟩

/-! ## 3. `addNewSnapshot` without the lock: the lost update (pinned tree, D4) -/

/-- the pinned tree: READ and UPDATE locked, ADD not -/
def d4Locks : Locks := { add := false, upd := true, read := true }
def d4Init : File Nat Nat := [(1, 10)]
/-- thread 0 = A creates slot 0; thread 1 = B updates slot 1 -/
def d4Progs : List (List (Call Nat Nat)) := [[⟨0, 5, true, false⟩], [⟨1, 11, false, true⟩]]
/-- A reads, B reads, B `upd1` (takes W, copies the file), A ADDs, B `upd2a` (truncates),
B `upd2b` (writes the copy) -/
def d4Sched : List Nat := [0, 1, 1, 0, 1, 1]

/-- The window, step by step: B holds W with a copy of the file; A's unlocked ADD lands in the
file and A reports `added`; B's truncate + write-back erases it. -/
theorem lost_update_window :
    let σ3 := run d4Locks (init d4Init d4Progs) (d4Sched.take 3)
    let σ4 := run d4Locks (init d4Init d4Progs) (d4Sched.take 4)
    let σ5 := run d4Locks (init d4Init d4Progs) (d4Sched.take 5)
    let σ6 := run d4Locks (init d4Init d4Progs) d4Sched
    (σ3.holder = some 1 ∧ σ3.ts[1]?.map (·.pc) = some (.inUpd [(1, 10)])) ∧
    (σ4.holder = some 1 ∧ σ4.file = [(1, 10), (0, 5)] ∧ σ4.ts[0]?.map (·.outs) = some [.added]) ∧
    (σ5.holder = some 1 ∧ σ5.file = [] ∧ σ5.ts[1]?.map (·.pc) = some (.inWrite [(1, 10)])) ∧
    (σ6.holder = none ∧ σ6.file = [(1, 11)]) := by decide

/-- **Lost update.**  With `addLocked = false` (READ and UPDATE locked) conclusion 2 fails: there
are two slot-disjoint threads and a schedule after which both have finished, thread 0 was told
`added` (and a serial run leaves `some 5` in its slot), but the final file has no entry for its
slot. -/
theorem lost_update_exists :
    ∃ (f₀ : File Nat Nat) (progs : List (List (Call Nat Nat))) (sch : List Nat),
      progs.length = 2 ∧ Disj progs ∧ (f₀.map Prod.fst).Nodup ∧
      AllDone (run { add := false, upd := true, read := true } (init f₀ progs) sch) ∧
      runSchedule false true true f₀ progs sch = ([(1, 11)], [[.added], [.updated]]) ∧
      (∃ p, progs[0]? = some p ∧ (∃ c ∈ p, c.slot = 0) ∧
        serialFinal p 0 (lookup f₀ 0) = some 5) ∧
      lookup (runSchedule false true true f₀ progs sch).1 0 = none ∧
      ¬ FinalOK f₀ progs (runSchedule false true true f₀ progs sch).1 :=
  ⟨d4Init, d4Progs, d4Sched, by decide, by decide, by decide, by decide, by decide,
    ⟨_, rfl, by decide, by decide⟩, by decide,
    fun h => absurd (h.owned 0 [⟨0, 5, true, false⟩] 0 rfl ⟨_, List.mem_singleton.2 rfl, rfl⟩)
      (by decide)⟩

/-! ## 4. `updateSnapshot` without the lock: overwritten by a stale copy -/

def u4Locks : Locks := { add := true, upd := false, read := true }
def u4Init : File Nat Nat := [(0, 1), (1, 1)]
def u4Progs : List (List (Call Nat Nat)) := [[⟨0, 2, false, true⟩], [⟨1, 2, false, true⟩]]
/-- both read, both copy the file, thread 0 truncates and writes its copy back, thread 1
truncates and writes ITS copy back -/
def u4Sched : List Nat := [0, 1, 0, 1, 0, 0, 1, 1]

/-- **Unlocked update.**  With `updLocked = false` (READ and ADD locked) two updates of
DIFFERENT slots interfere: both report `updated`, but the second write-back restores the old
value of the first thread's slot. -/
theorem unlocked_update_breaks :
    ∃ (f₀ : File Nat Nat) (progs : List (List (Call Nat Nat))) (sch : List Nat),
      progs.length = 2 ∧ Disj progs ∧ (f₀.map Prod.fst).Nodup ∧
      AllDone (run { add := true, upd := false, read := true } (init f₀ progs) sch) ∧
      runSchedule true false true f₀ progs sch = ([(0, 1), (1, 2)], [[.updated], [.updated]]) ∧
      (∃ p, progs[0]? = some p ∧ (∃ c ∈ p, c.slot = 0) ∧
        serialFinal p 0 (lookup f₀ 0) = some 2) ∧
      lookup (runSchedule true false true f₀ progs sch).1 0 = some 1 ∧
      ¬ FinalOK f₀ progs (runSchedule true false true f₀ progs sch).1 :=
  ⟨u4Init, u4Progs, u4Sched, by decide, by decide, by decide, by decide, by decide,
    ⟨_, rfl, by decide, by decide⟩, by decide,
    fun h => absurd (h.owned 0 [⟨0, 2, false, true⟩] 0 rfl ⟨_, List.mem_singleton.2 rfl, rfl⟩)
      (by decide)⟩

/-- the same two programs and schedule are fine when the update takes the lock
(thread 1's `upd1` is blocked until thread 0 has written back, so it needs more turns) -/
example : runSchedule true true true u4Init u4Progs (u4Sched ++ [1]) =
    ([(0, 2), (1, 2)], [[.updated], [.updated]]) := by decide

/-! ## 4b. `getPrevSnapshot` without the lock: a read between truncate and write -/

def r4Locks : Locks := { add := true, upd := true, read := false }
def r4Init : File Nat Nat := [(0, 1), (1, 1)]
/-- thread 0 updates slot 0; thread 1 re-checks the recorded value of slot 1 (serially: `passed`) -/
def r4Progs : List (List (Call Nat Nat)) := [[⟨0, 2, false, true⟩], [⟨1, 1, true, false⟩]]
/-- thread 0: READ, `upd1`, `upd2a` (file is now empty); thread 1: unlocked READ sees "not found";
thread 0: `upd2b` (writes back, unlocks); thread 1: ADD (locked, now enabled) -/
def r4Sched : List Nat := [0, 0, 0, 1, 0, 1]

/-- the window: when thread 1 reads (step 4) the file is truncated and W is held by thread 0 -/
theorem unlocked_read_window :
    let σ3 := run r4Locks (init r4Init r4Progs) (r4Sched.take 3)
    let σ4 := run r4Locks (init r4Init r4Progs) (r4Sched.take 4)
    (σ3.holder = some 0 ∧ σ3.file = [] ∧ σ3.ts[0]?.map (·.pc) = some (.inWrite [(0, 1), (1, 1)])) ∧
    (σ4.holder = some 0 ∧ σ4.ts[1]?.map (·.pc) = some .wantAdd) := by decide

/-- **Unlocked read.**  With `readLocked = false` (ADD and UPDATE locked) both conclusions fail:
a reader that runs between `Truncate(0)` and `Write` sees "not found" for a slot that exists and
ADDs it again.  Its outcome is `added` where the serial run says `passed`, and the final file
holds slot 1 TWICE although the initial file had no duplicate. -/
theorem unlocked_read_breaks :
    ∃ (f₀ : File Nat Nat) (progs : List (List (Call Nat Nat))) (sch : List Nat),
      progs.length = 2 ∧ Disj progs ∧ (f₀.map Prod.fst).Nodup ∧
      AllDone (run { add := true, upd := true, read := false } (init f₀ progs) sch) ∧
      runSchedule true true false f₀ progs sch =
        ([(0, 2), (1, 1), (1, 1)], [[.updated], [.added]]) ∧
      progs.map (serialOuts (lookup f₀)) = [[.updated], [.passed]] ∧
      ¬ ((runSchedule true true false f₀ progs sch).1.map Prod.fst).Nodup ∧
      ¬ FinalOK f₀ progs (runSchedule true true false f₀ progs sch).1 :=
  ⟨r4Init, r4Progs, r4Sched, by decide, by decide, by decide, by decide, by decide, by decide,
    by decide, fun h => absurd (h.nodup (by decide)) (by decide)⟩

/-- the same programs and schedule with the read lock: thread 1's READ is blocked at step 4,
happens at step 6 instead and sees the value; one more turn is not even needed -/
example : runSchedule true true true r4Init r4Progs r4Sched =
    ([(0, 2), (1, 1)], [[.updated], [.passed]]) := by decide

/-! ## 5. Tie to the extracted facts -/

example : locksOf .R .W .W = (true, true, true) := by decide
example : locksOf .R .none .W = (true, false, true) := by decide
example : locksOf .none .W .R = (false, true, false) := by decide

/-- `allLocked` says exactly that the three extracted lock kinds are the right ones -/
theorem allLocked_iff : allLocked = true ↔
    Generated.lock_getPrevSnapshot ≠ .none ∧ Generated.lock_addNewSnapshot = .W ∧
    Generated.lock_updateSnapshot = .W := by
  unfold allLocked pinnedLocks locksOf
  simp only [Bool.and_eq_true, decide_eq_true_eq]
  constructor
  · intro h; exact ⟨h.2, h.1.1, h.1.2⟩
  · intro h; exact ⟨⟨h.2.1, h.2.2⟩, h.1⟩

/-- **Instance for the extracted tree.**  If the extracted facts say all three functions are
locked (`allLocked = true`, checked by `decide` once the source is repaired), then conclusions 1
and 2 hold for the extracted lock discipline `pinnedLocks`. -/
theorem serialisable_of_allLocked (h : allLocked = true)
    (f₀ : File κ ν) (progs : List (List (Call κ ν))) (hdisj : Disj progs) (sch : List Nat) :
    (∀ (i : Nat) (t : ATState κ ν), (run pinnedLocks (init f₀ progs) sch).ts[i]? = some t →
      t.todo = [] → ∃ p, progs[i]? = some p ∧ t.outs = serialOuts (lookup f₀) p) ∧
    (AllDone (run pinnedLocks (init f₀ progs) sch) →
      FinalOK f₀ progs (run pinnedLocks (init f₀ progs) sch).file) := by
  have hL : pinnedLocks.add = true ∧ pinnedLocks.upd = true ∧ pinnedLocks.read = true := by
    unfold allLocked at h
    rw [Bool.and_eq_true, Bool.and_eq_true] at h
    exact ⟨h.1.1, h.1.2, h.2⟩
  exact ⟨fun i t hfin hdone => serialisable_outcomes _ hL f₀ progs hdisj sch i t hfin hdone,
    fun hdone => final_file_correct _ hL f₀ progs hdisj sch hdone⟩

/-! ## 6. Counters -/

/-- At every moment, under ANY lock discipline: each counter is the number of outcomes of its
kind reported so far (the bump is atomic with the report). -/
theorem counters_exact (L : Locks) (f₀ : File κ ν) (progs : List (List (Call κ ν))) (sch : List Nat)
    (o : Outcome) :
    (run L (init f₀ progs) sch).cnt.get o =
      ((run L (init f₀ progs) sch).ts.map (fun t => t.outs.count o)).sum :=
  run_cnt L _ (init_cnt f₀ progs) sch o

/-- **Counters.**  All locked, disjoint slots, all threads finished: each counter equals the
number of calls with that SERIAL outcome, and the four counters sum to the number of calls. -/
theorem counters_sum (L : Locks)
    (hL : L.add = true ∧ L.upd = true ∧ L.read = true)
    (f₀ : File κ ν) (progs : List (List (Call κ ν))) (hdisj : Disj progs) (sch : List Nat)
    (hdone : AllDone (run L (init f₀ progs) sch)) :
    (∀ o, (run L (init f₀ progs) sch).cnt.get o =
      ((progs.map (serialOuts (lookup f₀))).map (fun l => l.count o)).sum) ∧
    (run L (init f₀ progs) sch).cnt.total = (progs.map List.length).sum :=
  counters_of_inv (run_inv hL.1 hL.2.1 hL.2.2 hdisj _ (init_inv f₀ progs) sch)
    (run_cnt L _ (init_cnt f₀ progs) sch) (by rw [run_length]; simp [init]) hdone

example : (run allL (init exInit exProgs) exSched).cnt =
    { passed := 1, added := 2, updated := 2, failed := 2 } := by decide

/-- **The current source**: the lock kinds regenerated from snaps/snapshot.go on every run are
read lock on `getPrevSnapshot`, write lock on `addNewSnapshot` and on `updateSnapshot`.  If a lock
is removed from the source this no longer checks (and the schedule explorer searches for the
interleaving that breaks serialisability). -/
theorem source_is_all_locked : allLocked = true := by decide

/-- serialisability (outcomes and final file) for the lock discipline of the current source,
every number of threads, every schedule -/
theorem source_serialisable
    (f₀ : File κ ν) (progs : List (List (Call κ ν))) (hdisj : Disj progs) (sch : List Nat) :
    (∀ (i : Nat) (t : ATState κ ν), (run pinnedLocks (init f₀ progs) sch).ts[i]? = some t →
      t.todo = [] → ∃ p, progs[i]? = some p ∧ t.outs = serialOuts (lookup f₀) p) ∧
    (AllDone (run pinnedLocks (init f₀ progs) sch) →
      FinalOK f₀ progs (run pinnedLocks (init f₀ progs) sch).file) :=
  serialisable_of_allLocked source_is_all_locked f₀ progs hdisj sch

end GoSnaps.Conc.C06
