/-
C15 / C16 for JSON — theorems about the executable model of gjson path lookup and sjson replacement
(GoSnaps/JsonPath.lean; helper lemmas in Lemmas/JsonPath.lean).  The model is tied to the real
libraries by the suite `json.lens` (driver / harness operation `jsonpath`).

  §1  positions and labels: `model_lensSpec : C16.LensSpec getM setM DisjM overlapM` — every document;
      C16's `masked_irrelevant` / `unmasked_relevant` instantiated on it
  §2  text paths: `stepwise_get_set_same/_other/_overlap` (first-match lookup, every document);
      `get_set_same`, `set_of_exists`, `get_set_other` (decidable `disjP`), `get_set_overlap` for
      gjson / sjson on documents without duplicate names, either value of `Optimistic`;
      `dup_get_set_diverge` (with duplicate names the two libraries part)
  §3  C15: `set_changes_only_target`, `set_changes_only_targets`, `set_each` (`pre.#.rest`),
      `caller_bytes_not_at_risk`
  §4  extensionality: `ext_false_duplicate`, `ext_false_order`, `ext_partial`, `parsed_paths_nonempty`
  §5  bytes: `jsonSet_parse_partial` (valid, parses to `setPath` of the parse), `stringify_valid`
  §6  `model_JSONLens`: the transliterated matcher loop run on the model is `C16.mask`
-/
import GoSnaps.Lemmas.JsonPath
import GoSnaps.Props.C14Json
import GoSnaps.Props.C15
import GoSnaps.Props.C16
import GoSnaps.Props.Tie.Matchers
namespace GoSnaps.C16Json

open GoSnaps GoSnaps.Json GoSnaps.JsonPath

/-! ## 1. the lens on POSITIONS: `LensSpec` holds of the model, for every document

The path universe for which `LensSpec.ext` is true is the set of positions of the tree (child numbers),
observed by LABEL (a scalar with its raw text, an array with its length, an object with its raw keys in
order): text paths do not observe member order nor the members hidden behind a duplicate key (§4).
The observation has to be the label, not the subtree, because `LensSpec.get_set_overlap` demands that
what is read at ANY path that is not disjoint from the written one is a function of the two paths and
the written value; for a position ABOVE the written one that is true of the label (it does not
change) and false of the subtree.  Accordingly "disjoint from `p`" is "not at or below `p`", and the
values written through `LensSpec` are the labels (`reify`: scalars, containers filled with `null`);
arbitrary placeholder trees are covered by §2/§3 directly. -/

def getM (d : JV) (pos : Pos) : Option Label := labelAt d pos
def setM (d : JV) (pos : Pos) (l : Label) : JV := (replaceAt d pos (reify l)).getD d
def DisjM (pos pos' : Pos) : Prop := ¬ pos <+: pos'
def overlapM (pos pos' : Pos) (l : Label) : Option Label := labelAt (reify l) (pos'.drop pos.length)

instance (pos pos' : Pos) : Decidable (DisjM pos pos') := by unfold DisjM; infer_instance

theorem getM_setM_same (d : JV) (pos : Pos) (l : Label) (h : getM d pos ≠ none) :
    getM (setM d pos l) pos = some l := by
  have hg : getAt d pos ≠ none := by
    intro e; apply h; simp [getM, labelAt, e]
  obtain ⟨d', hd'⟩ := replaceAt_some_of_getAt (reify l) hg
  simp [getM, setM, labelAt, hd', getAt_replaceAt_same pos d d' _ hd']

theorem getM_setM_other (d : JV) (pos pos' : Pos) (l : Label) (h : DisjM pos pos') :
    getM (setM d pos l) pos' = getM d pos' := by
  unfold getM setM
  cases hr : replaceAt d pos (reify l) with
  | none => rfl
  | some d' => exact labelAt_replaceAt_other d d' _ pos pos' hr h

theorem getM_setM_overlap (d : JV) (pos pos' : Pos) (l : Label) (h : ¬ DisjM pos pos') (hp : getM d pos ≠ none) :
    getM (setM d pos l) pos' = overlapM pos pos' l := by
  have hpre : pos <+: pos' := Decidable.not_not.mp h
  obtain ⟨r, rfl⟩ := hpre
  have hg : getAt d pos ≠ none := by
    intro e; apply hp; simp [getM, labelAt, e]
  obtain ⟨d', hd'⟩ := replaceAt_some_of_getAt (reify l) hg
  simp [getM, setM, overlapM, labelAt, hd', getAt_replaceAt_append pos d d' _ r hd']

/-- **`model_lensSpec`**: the contract C16 assumes of the document library holds of the model — for
EVERY document (duplicate keys included), on the universe of positions observed by label -/
theorem model_lensSpec : C16.LensSpec getM setM DisjM overlapM where
  get_set_same := getM_setM_same
  get_set_other := getM_setM_other
  get_set_overlap := getM_setM_overlap
  ext := ext_labels

/-- `{"k":"t1","n":1}` and `{"k":"t2","n":1}` -/
def exA : JV := .obj [([34, 107, 34], .str [34, 116, 49, 34]), ([34, 110, 34], .num [49])]
def exB : JV := .obj [([34, 107, 34], .str [34, 116, 50, 34]), ([34, 110, 34], .num [49])]

/-- C16's `masked_irrelevant`, instantiated with the model: two documents that differ only at (or below)
the masked position are the same document after masking; and by evaluation: `{"k":"?","n":1}` -/
example : C16.mask setM [[0]] (.str [34, 63, 34]) exA = C16.mask setM [[0]] (.str [34, 63, 34]) exB :=
  C16.masked_irrelevant model_lensSpec [[0]] _ exA exB (by simp) (by decide) (by decide)
    (fun q hq => by
      have h0 : ¬ [0] <+: q := hq [0] (by simp)
      match q with
      | [] => rfl
      | 0 :: r => exact absurd (by simp) h0
      | 1 :: [] => rfl
      | 1 :: _ :: _ => rfl
      | (_ + 2) :: _ => rfl)

example : C16.mask setM [[0]] (.str [34, 63, 34]) exA =
    .obj [([34, 107, 34], .str [34, 63, 34]), ([34, 110, 34], .num [49])] := by rfl

/-- … and `unmasked_relevant`: a difference at a position that is not at or below a masked one survives -/
example : C16.mask setM [[0]] (.str [34, 63, 34]) exA ≠
    C16.mask setM [[0]] (.str [34, 63, 34]) (.obj [([34, 107, 34], .str [34, 116, 49, 34]), ([34, 110, 34], .num [50])]) :=
  C16.unmasked_relevant model_lensSpec [[0]] _ _ _ [1] (by decide) (by decide)

/-! ## 2. the lens on TEXT PATHS

`getS` / `setS` (Lemmas/JsonPath.lean) are the component-by-component lookup — sjson's route (2): at
every object the FIRST member of the name.  Its lens laws hold for every document.  On documents
without duplicate member names (`distinctG`) gjson's backtracking lookup and all three routes of sjson
ARE that lookup (`loc_eq_locS`), so the laws are laws of `getPath` / `setPath`.  With duplicate names
they are not: see `dup_get_set_diverge` below. -/

/-- first-match semantics, every document: read back what was written -/
theorem stepwise_get_set_same (p : Path) (d d' w : JV) (h : setS d p w = some d') : getS d' p = some w :=
  getS_setS_same p d d' w h

/-- first-match semantics, every document: a disjoint path is not affected -/
theorem stepwise_get_set_other (p q : Path) (d d' w : JV) (hd : disjP p q = true) (h : setS d p w = some d') :
    getS d' q = getS d q :=
  getS_setS_other p q d d' w hd h

/-- first-match semantics, every document: below the written path one reads the written value -/
theorem stepwise_get_set_overlap (p r : Path) (d d' w : JV) (h : setS d p w = some d') :
    getS d' (p ++ r) = getS w r :=
  getS_setS_below p d d' w r h

/-- what gjson finds is at least what the component-by-component lookup finds — every document -/
theorem gjson_finds_stepwise (p : Path) (d : JV) (pos : Pos) (h : locS p d = some pos) :
    loc p d = some (.one pos) := loc_of_locS p d pos h

theorem plain_append (p r : Path) : plain (p ++ r) = (plain p && plain r) := by
  simp [plain, List.all_append]

/-- a successful set on a duplicate-free document, by whatever route, is a replacement at the
position of the stepwise lookup, and the result is duplicate-free when the value is -/
theorem setPath_distinct {opt : Bool} {d d' w : JV} {p : Path} (hd : distinctG d = true) (hw : distinctG w = true)
    (hp : plain p = true) (h : setPathO opt d p w = some d') : setS d p w = some d' ∧ distinctG d' = true := by
  rw [setPathO_eq_setS opt d p w hd hp] at h
  refine ⟨h, ?_⟩
  unfold setS at h
  cases hl : locS p d with
  | none => rw [hl] at h; cases h
  | some pos =>
    rw [hl] at h
    exact distinctG_replaceAt pos d d' w hd hw h

/-- **get_set_same** (either value of sjson's `Optimistic`) -/
theorem get_set_same (opt : Bool) (d d' w : JV) (p : Path) (hd : distinctG d = true) (hw : distinctG w = true)
    (hp : plain p = true) (h : setPathO opt d p w = some d') : getPath d' p = some w := by
  obtain ⟨hs, hd'⟩ := setPath_distinct hd hw hp h
  rw [getPath_eq_getS d' p hd' hp]
  exact getS_setS_same p d d' w hs

/-- an existing path can be set (no member is ever created on a duplicate-free document) -/
theorem set_of_exists (opt : Bool) (d w : JV) (p : Path) (hd : distinctG d = true) (hp : plain p = true)
    (he : getPath d p ≠ none) : ∃ d', setPathO opt d p w = some d' := by
  rw [setPathO_eq_setS opt d p w hd hp]
  rw [getPath_eq_getS d p hd hp] at he
  unfold getS at he
  unfold setS
  cases hl : locS p d with
  | none => rw [hl] at he; exact absurd rfl he
  | some pos =>
    rw [hl] at he
    exact replaceAt_some_of_getAt w he

/-- **get_set_other**: `disjP` is the explicit decidable disjointness of Lemmas/JsonPath.lean (somewhere
along the common length the two components can never address the same child) -/
theorem get_set_other (opt : Bool) (d d' w : JV) (p q : Path) (hd : distinctG d = true) (hw : distinctG w = true)
    (hp : plain p = true) (hq : plain q = true) (hdj : disjP p q = true) (h : setPathO opt d p w = some d') :
    getPath d' q = getPath d q := by
  obtain ⟨hs, hd'⟩ := setPath_distinct hd hw hp h
  rw [getPath_eq_getS d' q hd' hq, getPath_eq_getS d q hd hq]
  exact getS_setS_other p q d d' w hdj hs

/-- **get_set_overlap**, at or below the written path: what is read is read in the written value -/
theorem get_set_overlap (opt : Bool) (d d' w : JV) (p r : Path) (hd : distinctG d = true) (hw : distinctG w = true)
    (hp : plain p = true) (hr : plain r = true) (h : setPathO opt d p w = some d') :
    getPath d' (p ++ r) = getPath w r := by
  obtain ⟨hs, hd'⟩ := setPath_distinct hd hw hp h
  rw [getPath_eq_getS d' (p ++ r) hd' (by rw [plain_append, hp, hr]; rfl), getPath_eq_getS w r hw hr]
  exact getS_setS_below p d d' w r hs

/-- `{"user":{"name":"x","fav.movie":"y"},"arr":[1,2],"n":1}` -/
def exDoc : JV :=
  .obj [([34, 117, 115, 101, 114, 34],
          .obj [([34, 110, 97, 109, 101, 34], .str [34, 120, 34]),
                ([34, 102, 97, 118, 46, 109, 111, 118, 105, 101, 34], .str [34, 121, 34])]),
        ([34, 97, 114, 114, 34], .arr [.num [49], .num [50]]),
        ([34, 110, 34], .num [49])]

/-- `user.fav\.movie`, `user.name`, `arr.01` as parsed from their text -/
def exP1 : Path := [.key [117, 115, 101, 114] false, .key [102, 97, 118, 46, 109, 111, 118, 105, 101] true]
def exP2 : Path := [.key [117, 115, 101, 114] false, .key [110, 97, 109, 101] false]
def exP3 : Path := [.key [97, 114, 114] false, .key [48, 49] false]

example : parsePath [117, 115, 101, 114, 46, 102, 97, 118, 92, 46, 109, 111, 118, 105, 101] = some exP1 ∧
    parsePath [97, 114, 114, 46, 48, 49] = some exP3 := by decide

/-- the hypotheses are satisfiable and the statements say something: the path exists, it is set, it
reads back, a disjoint path (`user.name`, `arr.01` = element 1) reads as before -/
example : distinctG exDoc = true ∧ plain exP1 = true ∧ disjP exP1 exP2 = true ∧ disjP exP1 exP3 = true ∧
    getPath exDoc exP1 = some (.str [34, 121, 34]) ∧ getPath exDoc exP3 = some (.num [50]) ∧
    (setPath exDoc exP1 (.str [34, 63, 34])).isSome = true := by
  refine ⟨by decide, by decide, by decide, by decide, by rfl, by rfl, by rfl⟩

example (d' : JV) (h : setPath exDoc exP1 (.str [34, 63, 34]) = some d') :
    getPath d' exP1 = some (.str [34, 63, 34]) ∧ getPath d' exP2 = some (.str [34, 120, 34]) ∧
    getPath d' exP3 = some (.num [50]) :=
  ⟨get_set_same _ exDoc d' _ exP1 (by decide) (by decide) (by decide) h,
   (get_set_other _ exDoc d' _ exP1 exP2 (by decide) (by decide) (by decide) (by decide) (by decide) h).trans (by rfl),
   (get_set_other _ exDoc d' _ exP1 exP3 (by decide) (by decide) (by decide) (by decide) (by decide) h).trans (by rfl)⟩

/-- `{"a":{"x":1},"a":{"y-z":2}}` and the path `a.y-z`: gjson finds the 2 in the SECOND `a`; sjson (the
path has a byte outside `.`-`9`, `A`-`z`, so route (2)) looks only into the first `a`, does not find
`y-z`, and — in the library — creates it there: `setPath` is `none`.  With `a.y` (optimistic bytes only)
the same document is handled by route (1) and the 2 is replaced: the two libraries agree only per route. -/
def dupDoc (k : Text) : JV :=
  .obj [([34, 97, 34], .obj [([34, 120, 34], .num [49])]), ([34, 97, 34], .obj [(34 :: k ++ [34], .num [50])])]

theorem dup_get_set_diverge :
    getPath (dupDoc [121, 45, 122]) [.key [97] false, .key [121, 45, 122] false] = some (.num [50]) ∧
    setPathO true (dupDoc [121, 45, 122]) [.key [97] false, .key [121, 45, 122] false] (.str [34, 63, 34]) = none ∧
    setPathO false (dupDoc [121]) [.key [97] false, .key [121] false] (.str [34, 63, 34]) = none ∧
    (setPathO true (dupDoc [121]) [.key [97] false, .key [121] false] (.str [34, 63, 34])).isSome = true ∧
    distinctG (dupDoc [121]) = false := by
  refine ⟨by rfl, by rfl, by rfl, by rfl, by decide⟩

/-! ## 3. C15: a set changes exactly its target(s); everything else keeps value, order and position

Stated on the tree with `replaceAt`, which is defined on positions and knows nothing about paths: the
result of a set IS the input with the subtree(s) at the target position(s) replaced.  Every document,
either route.  (That the caller's BYTES are not modified is not a statement about values: it is the
fact `C15.callerBytesAtRisk = false`, i.e. `ReplaceInPlace` is off in the source — read by
tools/extract on every run — and the harness compares the caller's slice before and after every call.) -/

/-- **one target** (`#`-free path): the result is `replaceAt` of the input at one position; putting the old
subtree back gives the input; the label at every position not at or below the target is unchanged
(above: same keys in the same order / same length; beside: the same subtree) -/
theorem set_changes_only_target (opt : Bool) (d d' w : JV) (p : Path) (hp : plain p = true)
    (h : setPathO opt d p w = some d') :
    ∃ pos old, getAt d pos = some old ∧ replaceAt d pos w = some d' ∧ replaceAt d' pos old = some d ∧
      (∀ pos', ¬ pos <+: pos' → labelAt d' pos' = labelAt d pos') ∧
      (∀ pos', ¬ pos <+: pos' → ¬ pos' <+: pos → getAt d' pos' = getAt d pos') := by
  unfold setPathO at h
  cases hl : setLocO opt d p with
  | none => rw [hl] at h; cases h
  | some l =>
    obtain ⟨pos, rfl⟩ := setLocO_plain_one opt d p l hp hl
    rw [hl] at h
    simp only at h
    obtain ⟨old, hold⟩ := getAt_some_of_replaceAt h
    refine ⟨pos, old, hold, h, ?_, ?_, ?_⟩
    · rw [replaceAt_replaceAt pos d d' w old h]
      exact replaceAt_getAt pos d old hold
    · intro pos' h1
      exact labelAt_replaceAt_other d d' w pos pos' h h1
    · intro pos' h1 h2
      exact getAt_replaceAt_other pos pos' d d' w h h1 h2

/-- **any path of the fragment** (one `#` allowed): the result is the input with the subtrees at the
positions gjson reported replaced, and the label at every position that is not at or below one of
them is unchanged -/
theorem set_changes_only_targets (opt : Bool) (d d' w : JV) (p : Path) (h : setPathO opt d p w = some d') :
    ∃ ps, (setLocO opt d p).map Loc.list = some ps ∧ d' = replaceAll d ps w ∧
      ∀ pos', (∀ pos ∈ ps, ¬ pos <+: pos') → labelAt d' pos' = labelAt d pos' := by
  unfold setPathO at h
  cases hl : setLocO opt d p with
  | none => rw [hl] at h; cases h
  | some l =>
    rw [hl] at h
    cases l with
    | one pos =>
      simp only at h
      refine ⟨[pos], rfl, ?_, ?_⟩
      · simp [replaceAll, h]
      · intro pos' hp'
        exact labelAt_replaceAt_other d d' w pos pos' h (hp' pos (by simp))
    | many ps =>
      simp only [Option.some.injEq] at h
      subst h
      exact ⟨ps, rfl, rfl, fun pos' hp' => labelAt_replaceAll_other ps d w pos' hp'⟩

/-- **the multi-value form** `pre.#.rest` on a document without duplicate names, `pre` leading to an array
`xs` at position `a`: gjson reports, and sjson replaces, exactly the positions `a ++ i :: r` where element
`i` of the array has `rest` at `r` (`mem_eachElem`); elements without it — and everything else — stay
(`set_changes_only_targets`).  Either value of `Optimistic` (a path with `#` never takes route (1)). -/
theorem set_each (opt : Bool) (d w : JV) (pre rest : Path) (a : Pos) (xs : List JV) (hd : distinctG d = true)
    (hp : plain pre = true) (h1 : locS pre d = some a) (h2 : getAt d a = some (.arr xs)) :
    getPath d (pre ++ .each :: rest) = some (.arr (((eachElem (loc rest) xs).map (a ++ ·)).filterMap (getAt d))) ∧
    setPathO opt d (pre ++ .each :: rest) w = some (replaceAll d ((eachElem (loc rest) xs).map (a ++ ·)) w) := by
  have hl : loc (pre ++ .each :: rest) d = some (.many ((eachElem (loc rest) xs).map (a ++ ·))) := by
    rw [loc_append_distinct pre _ d hd hp, h1]
    simp only [Option.bind_some, h2, loc_arr_each, Option.map_some, Loc.under]
  refine ⟨by unfold getPath; rw [hl], ?_⟩
  unfold setPathO setLocO
  have ho : optimistic (pre ++ .each :: rest) = false := by simp [optimistic, List.all_append]
  have hpl : plain (pre ++ .each :: rest) = false := by simp [plain, List.all_append, isEach]
  simp only [ho, hpl, Bool.and_false, Bool.false_eq_true, ↓reduceIte, hl]

/-- the aliasing half of C15, on the facts generated from the current source -/
theorem caller_bytes_not_at_risk : C15.callerBytesAtRisk = false := by decide

/-- `{"arr":[{"m":1},{"n":2},{"m":3}],"k":0}` and `arr.#.m`: both `m` are replaced, the element without
`m` and the member `k` stay, the order stays -/
example :
    setPath (.obj [([34, 97, 114, 114, 34], .arr [.obj [([34, 109, 34], .num [49])], .obj [([34, 110, 34], .num [50])],
        .obj [([34, 109, 34], .num [51])]]), ([34, 107, 34], .num [48])])
      [.key [97, 114, 114] false, .each, .key [109] false] (.str [34, 63, 34]) =
    some (.obj [([34, 97, 114, 114, 34], .arr [.obj [([34, 109, 34], .str [34, 63, 34])], .obj [([34, 110, 34], .num [50])],
        .obj [([34, 109, 34], .str [34, 63, 34])]]), ([34, 107, 34], .num [48])]) := by rfl

/-! ## 4. extensionality: what text paths do NOT observe

`LensSpec.ext` on TEXT paths is false of the libraries (and of the model): a member hidden behind an earlier
member of the same name is never read, and the order of the members is not observable.  The path
universe for which it is true is the one of §1 (positions, labels): `ext_labels`. -/

/-- what any non-empty path reads in an object of two scalar members -/
theorem getPath_two_scalars (k1 k2 : Text) (v1 v2 : JV) (h1 : isScalar v1 = true) (h2 : isScalar v2 = true)
    (c : Comp) (rest : Path) :
    getPath (.obj [(k1, v1), (k2, v2)]) (c :: rest) =
      if rest = [] then (if gkey k1 = compName c then some v1 else if gkey k2 = compName c then some v2 else none)
      else none := by
  unfold getPath
  rw [loc_obj]
  unfold firstMember memberIdx
  simp only [List.findIdx?_cons, loc_of_scalar v1 h1, loc_of_scalar v2 h2, List.findIdx?_nil]
  by_cases hr : rest = []
  · subst hr
    by_cases e1 : gkey k1 = compName c
    · simp [e1, Loc.push, getAt_obj]
    · by_cases e2 : gkey k2 = compName c
      · simp [e1, e2, Loc.push, getAt_obj]
      · simp [e1, e2]
  · simp [hr]

/-- **`ext` is false with duplicate names**: `{"k":1,"k":2}` and `{"k":1,"k":3}` are read alike by every path -/
theorem ext_false_duplicate :
    ∃ a b : JV, a ≠ b ∧ ∀ p : Path, p ≠ [] → getPath a p = getPath b p := by
  refine ⟨.obj [([34, 107, 34], .num [49]), ([34, 107, 34], .num [50])],
          .obj [([34, 107, 34], .num [49]), ([34, 107, 34], .num [51])], ?_, ?_⟩
  · intro h
    exact absurd (congrArg (fun d => labelAt d [1]) h) (by decide)
  · intro p hp
    cases p with
    | nil => exact absurd rfl hp
    | cons c rest =>
      rw [getPath_two_scalars _ _ _ _ rfl rfl, getPath_two_scalars _ _ _ _ rfl rfl]
      by_cases hr : rest = []
      · by_cases e1 : gkey [34, 107, 34] = compName c <;> simp [hr, e1]
      · simp [hr]

/-- **`ext` is false even without duplicate names**: `{"a":1,"b":2}` and `{"b":2,"a":1}` (member order) -/
theorem ext_false_order :
    ∃ a b : JV, distinctG a = true ∧ distinctG b = true ∧ a ≠ b ∧ ∀ p : Path, p ≠ [] → getPath a p = getPath b p := by
  refine ⟨.obj [([34, 97, 34], .num [49]), ([34, 98, 34], .num [50])],
          .obj [([34, 98, 34], .num [50]), ([34, 97, 34], .num [49])], by decide, by decide, ?_, ?_⟩
  · intro h
    exact absurd (congrArg (fun d => labelAt d [1]) h) (by decide)
  · intro p hp
    cases p with
    | nil => exact absurd rfl hp
    | cons c rest =>
      rw [getPath_two_scalars _ _ _ _ rfl rfl, getPath_two_scalars _ _ _ _ rfl rfl]
      have ha : gkey [34, 97, 34] = [97] := by decide
      have hb : gkey [34, 98, 34] = [98] := by decide
      rw [ha, hb]
      by_cases hr : rest = []
      · by_cases e1 : [97] = compName c
        · have e2 : ¬ [98] = compName c := by rw [← e1]; decide
          simp [hr, e1, e2]
        · simp [hr, e1]
      · simp [hr]

/-- **`ext_partial`**: on documents without duplicate names (`distinctG`) whose arrays are addressable
(`shortArrays`: fewer than 2^63 elements), what the `#`-free text paths read — the LABEL of the value
found, the empty path reading the root's — determines the document.  (Reading labels, and the root,
is what makes member order observable; `ext_false_order` shows it is necessary.) -/
theorem ext_partial (a b : JV) (ha : distinctG a = true) (hb : distinctG b = true)
    (sa : shortArrays a = true) (sb : shortArrays b = true)
    (h : ∀ p : Path, plain p = true → (getPath a p).map label = (getPath b p).map label) : a = b :=
  ext_labels a b fun pos =>
    labelAt_of_getS pos a b ha hb sa sb fun p hp => by
      rw [← getPath_eq_getS a p ha hp, ← getPath_eq_getS b p hb hp]; exact h p hp

example : distinctG exDoc = true ∧ shortArrays exDoc = true := by decide

/-- every path the parser produces is non-empty, so the two theorems above speak about all of go-snaps' paths -/
theorem parsed_paths_nonempty (s : Text) (p : Path) (h : parsePath s = some p) : p ≠ [] := parsePath_ne_nil s p h

/-! ## 5. bytes: sjson's splice is the tree replacement, and keeps the document valid

`jsonSet doc path val` replaces, in the BYTES of the document, the byte range of the value found (offsets
from the tokeniser, `ptokens`) by `val`, as sjson does; every other byte — white space included — stays
by construction (`splice`).  For a `#`-free path: the result is a valid document (`gjson.Valid`'s model)
and parses to `setPath` of the parsed input.  For the multi-value form `a.#.b` the byte-level statement
is not proved (several splices, later offsets first); it is what the suite `json.lens` compares on
every such line. -/

theorem jsonSet_parse_partial (doc path val out : Text) (p : Path) (hpp : parsePath path = some p) (hp : plain p = true)
    (h : jsonSet doc path val = some out) :
    ∃ d w d', parse doc = some d ∧ parse val = some w ∧ setPath d p w = some d' ∧
      parse out = some d' ∧ jsonValid out = true := by
  unfold jsonSet at h
  rw [hpp] at h
  cases hd : parse doc with
  | none => rw [hd] at h; cases h
  | some d =>
    cases hv : parse val with
    | none => rw [hd, hv] at h; cases h
    | some w =>
      rw [hd, hv] at h
      simp only at h
      split at h
      · unfold setB at h
        cases hpt : ptokens doc with
        | none => rw [hpt] at h; cases h
        | some pt =>
          cases hl : setLocO Generated.sjsonOptimistic d p with
          | none => rw [hpt, hl] at h; cases h
          | some l =>
            rw [hpt, hl] at h
            simp only at h
            obtain ⟨pos, rfl⟩ := setLocO_plain_one _ d p l hp hl
            simp only [Loc.list, List.mapM_cons, List.mapM_nil] at h
            cases hs : spanAt pt d pos with
            | none => rw [hs] at h; simp at h
            | some ab =>
              rw [hs] at h
              simp only [Option.pure_def, Option.bind_eq_bind, Option.bind_some, Option.map_some, List.foldr_cons,
                List.foldr_nil, Option.some.injEq] at h
              subst h
              have hg : getAt d pos ≠ none := by
                unfold spanAt at hs
                intro e
                rw [e] at hs
                cases tokStart d pos <;> simp at hs
              obtain ⟨d', hd'⟩ := replaceAt_some_of_getAt w hg
              have hparse := splice_parse doc d pt pos ab val w d' hd hpt hs hv hd'
              refine ⟨d, w, d', rfl, rfl, ?_, hparse, (C14Json.jsonValid_iff_parse _).mpr ⟨d', hparse⟩⟩
              unfold setPath setPathO
              rw [hl]
              exact hd'
      · cases h

/-- `{"a" : [ 1 , {"b" :  null } ] }` with `a.1.b` set to `"<Any value>"`: the white space stays -/
example :
    jsonSet [123, 34, 97, 34, 32, 58, 32, 91, 32, 49, 32, 44, 32, 123, 34, 98, 34, 32, 58, 32, 32, 110, 117, 108, 108, 32, 125, 32, 93, 32, 125]
        [97, 46, 49, 46, 98] (stringify [60, 65, 110, 121, 32, 118, 97, 108, 117, 101, 62]) =
      some [123, 34, 97, 34, 32, 58, 32, 91, 32, 49, 32, 44, 32, 123, 34, 98, 34, 32, 58, 32, 32,
        34, 60, 65, 110, 121, 32, 118, 97, 108, 117, 101, 62, 34, 32, 125, 32, 93, 32, 125] := by rfl

/-- **the placeholder as sjson encodes it** (`appendStringify`: raw between quotes when no byte is below
0x20, above 0x7f, `"` or `\`; `encoding/json` otherwise) is always one JSON string token — so the
value handed to `jsonSet` by the matchers for a Go string is a JSON value, whatever bytes the string
holds (control bytes, ill-formed UTF-8, `<`, U+2028 …; the area of the fixed defect D13) -/
theorem stringify_valid (s : Text) : parse (stringify s) = some (.str (stringify s)) ∧ jsonValid (stringify s) = true :=
  ⟨stringify_parse s, (C14Json.jsonValid_iff_parse _).mpr ⟨_, stringify_parse s⟩⟩

/-- `q"\` + NUL + `<` + 0xFF + U+2028  ↦  `"q\"\\\u0000\u003c\ufffd\u2028"`;  `<Any value>` stays as it is -/
example : stringify [113, 34, 92, 0, 60, 255, 0xE2, 0x80, 0xA8] =
      [34, 113, 92, 34, 92, 92, 92, 117, 48, 48, 48, 48, 92, 117, 48, 48, 51, 99, 92, 117, 102, 102, 102, 100,
       92, 117, 50, 48, 50, 56, 34] ∧
    stringify [60, 65, 110, 121, 32, 118, 97, 108, 117, 101, 62] =
      [34, 60, 65, 110, 121, 32, 118, 97, 108, 117, 101, 62, 34] := by decide

/-! ## 6. the transliterated matcher loops run on the model

`Generated.FuncsIO.anyMatcher_JSON` (transliterated from match/any.go on every run) takes the two library
calls as parameters.  Instantiated with the model (`jsonGet`, `jsonSet` with the placeholder encoded as
sjson encodes a Go string), the hypotheses `Tie.JSONLens` of Props/Tie/Matchers.lean hold by definition,
so its theorems apply: the Go loop is `C16.mask` with the model's set. -/

open GoSnaps.GoIO in
def gjsonGetM (d p : Text) : GResult :=
  match jsonGet d p with
  | some (some (raw, _)) => ⟨true, raw⟩
  | _ => ⟨false, []⟩

open GoSnaps.GoIO in
def sjsonSetM (d p v : Text) : Text × Err := ((jsonSet d p (stringify v)).getD d, .nil)

def getT (d p : Text) : Option Text :=
  match jsonGet d p with
  | some (some (raw, _)) => some raw
  | _ => none

def setT (d p v : Text) : Text := (jsonSet d p (stringify v)).getD d

theorem model_JSONLens : Tie.JSONLens gjsonGetM sjsonSetM getT setT where
  exists_iff d p := by
    unfold gjsonGetM getT
    cases jsonGet d p with
    | none => rfl
    | some o => cases o <;> rfl
  value_eq d p v h := by
    unfold gjsonGetM
    unfold getT at h
    cases hj : jsonGet d p with
    | none => rw [hj] at h; cases h
    | some o =>
      rw [hj] at h
      cases o with
      | none => cases h
      | some rv => simp only [Option.some.injEq] at h; simp [h]
  set_eq _ _ _ := rfl

/-- `{"id":7,"t":"x"}`, `match.Any("id", "t")`: the transliterated loop run on the model gives
`{"id":"<Any value>","t":"<Any value>"}` and no error, and it is `C16.mask` -/
example :
    Generated.FuncsIO.anyMatcher_JSON gjsonGetM sjsonSetM
        ⟨[[105, 100], [116]], [60, 65, 110, 121, 32, 118, 97, 108, 117, 101, 62], true, [65, 110, 121]⟩
        [123, 34, 105, 100, 34, 58, 55, 44, 34, 116, 34, 58, 34, 120, 34, 125] =
      (C16.mask setT [[105, 100], [116]] [60, 65, 110, 121, 32, 118, 97, 108, 117, 101, 62]
        [123, 34, 105, 100, 34, 58, 55, 44, 34, 116, 34, 58, 34, 120, 34, 125], []) ∧
    C16.mask setT [[105, 100], [116]] [60, 65, 110, 121, 32, 118, 97, 108, 117, 101, 62]
        [123, 34, 105, 100, 34, 58, 55, 44, 34, 116, 34, 58, 34, 120, 34, 125] =
      [123, 34, 105, 100, 34, 58, 34, 60, 65, 110, 121, 32, 118, 97, 108, 117, 101, 62, 34, 44,
       34, 116, 34, 58, 34, 60, 65, 110, 121, 32, 118, 97, 108, 117, 101, 62, 34, 125] :=
  ⟨Tie.anyMatcher_JSON_lens model_JSONLens _ _ (by decide), by decide⟩

end GoSnaps.C16Json
