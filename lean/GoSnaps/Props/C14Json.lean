/-
C14 tier B — theorems about the JSON MODEL (GoSnaps/Json.lean: `jsonValid` = gjson.Valid,
`pretty` = pretty.PrettyOptions with Prefix "").  The model is tied to the real libraries by the
correspondence suite `json.model` (vcheck/props/C14.py: verdict and output compared byte for byte
on generated documents); these theorems are about the model, for ALL documents.

  (a) white-space invariance     pretty_ws_invariant, tokens_ws_prefix / tokens_ws_suffix (Lemmas), tokens_ws_between,
                                 tokens_spaced
  (b) member-order invariance    ppV_perm, pretty_order_invariant, default_order_invariant
  (c) losslessness, canonicity   parse_pretty, tokens_pretty_unsorted, pretty_idempotent, sortMembers_spec
                                 (+ Lemmas: swo_memberLess — `byKeyVal.Less` is a strict weak order)
  (d) no framing hazard          pretty_no_terminator_line, snapshot_no_terminator_line
  (e) validator = parser         jsonValid_iff_parse, jsonValid_eq_parse, jsonValid_pretty
  contract                       model_prettySpec, default_prettySpec : C14.PrettySpec …

Helper lemmas: GoSnaps/Lemmas/Json.lean.
-/
import GoSnaps.Lemmas.Json
import GoSnaps.Props.C14
namespace GoSnaps.C14Json
open GoSnaps GoSnaps.Json

/-! ## example documents

docA  = `{"b": [1, 2.50, {"y": null, "x": "\u00e9"}], "a": -0}`
docA' = the same tokens with spaces, tabs, CR and LF between them
docB  = `{"a":-0,"b":[1,2.50,{"x":"\u00e9","y":null}]}`  (members of both objects reordered)
outAB = what go-snaps stores for all three (plus the final newline):
```
{
 "a": -0,
 "b": [
  1,
  2.50,
  {
   "x": "\u00e9",
   "y": null
  }
 ]
}
```
-/
def docA : Text := [123, 34, 98, 34, 58, 32, 91, 49, 44, 32, 50, 46, 53, 48, 44, 32, 123, 34, 121, 34, 58, 32, 110, 117, 108, 108, 44, 32, 34, 120, 34, 58, 32, 34, 92, 117, 48, 48, 101, 57, 34, 125, 93, 44, 32, 34, 97, 34, 58, 32, 45, 48, 125]
def docA' : Text := [32, 123, 10, 34, 98, 34, 58, 91, 49, 44, 50, 46, 53, 48, 32, 44, 9, 123, 34, 121, 34, 58, 110, 117, 108, 108, 44, 34, 120, 34, 58, 34, 92, 117, 48, 48, 101, 57, 34, 125, 32, 93, 13, 10, 44, 32, 34, 97, 34, 10, 58, 45, 48, 125, 32, 10]
def docB : Text := [123, 34, 97, 34, 58, 45, 48, 44, 34, 98, 34, 58, 91, 49, 44, 50, 46, 53, 48, 44, 123, 34, 120, 34, 58, 34, 92, 117, 48, 48, 101, 57, 34, 44, 34, 121, 34, 58, 110, 117, 108, 108, 125, 93, 125]
def outAB : Text := [123, 10, 32, 34, 97, 34, 58, 32, 45, 48, 44, 10, 32, 34, 98, 34, 58, 32, 91, 10, 32, 32, 49, 44, 10, 32, 32, 50, 46, 53, 48, 44, 10, 32, 32, 123, 10, 32, 32, 32, 34, 120, 34, 58, 32, 34, 92, 117, 48, 48, 101, 57, 34, 44, 10, 32, 32, 32, 34, 121, 34, 58, 32, 110, 117, 108, 108, 10, 32, 32, 125, 10, 32, 93, 10, 125, 10]

/-- the tree of docA: scalars keep their raw text (`2.50`, `-0`, the escape) -/
def treeA : JV :=
  .obj [([34, 98, 34], .arr [.num [49], .num [50, 46, 53, 48],
          .obj [([34, 121, 34], .nul), ([34, 120, 34], .str [34, 92, 117, 48, 48, 101, 57, 34])]]),
        ([34, 97, 34], .num [45, 48])]
def treeB : JV :=
  .obj [([34, 97, 34], .num [45, 48]),
        ([34, 98, 34], .arr [.num [49], .num [50, 46, 53, 48],
          .obj [([34, 120, 34], .str [34, 92, 117, 48, 48, 101, 57, 34]), ([34, 121, 34], .nul)]])]

example : jsonValid docA = true ∧ jsonValid docA' = true ∧ jsonValid docB = true := by decide
example : (parse docA == some treeA) = true ∧ (parse docB == some treeB) = true := by decide
example : pretty defaultOpts docA = outAB := by decide

/-! ## equality up to the order of object members -/

mutual
/-- `PermV v w`: `w` is `v` with the members of some objects (at any depth) reordered -/
def PermV : JV → JV → Prop
  | .str r, w => w = .str r
  | .num r, w => w = .num r
  | .tru, w => w = .tru
  | .fls, w => w = .fls
  | .nul, w => w = .nul
  | .arr xs, w => ∃ ys, w = .arr ys ∧ PermL xs ys
  | .obj ms, w => ∃ ns ns', w = .obj ns ∧ ns.Perm ns' ∧ PermM ms ns'
/-- element by element -/
def PermL : List JV → List JV → Prop
  | [], ys => ys = []
  | x :: xs, ys => ∃ y ys', ys = y :: ys' ∧ PermV x y ∧ PermL xs ys'
/-- member by member: the same keys in the same order, values related -/
def PermM : List (Text × JV) → List (Text × JV) → Prop
  | [], ns => ns = []
  | (k, x) :: ms, ns => ∃ y ns', ns = (k, y) :: ns' ∧ PermV x y ∧ PermM ms ns'
end

def nodupB : List Text → Bool
  | [] => true
  | x :: xs => !xs.contains x && nodupB xs

mutual
/-- every object of the tree has pairwise different keys — different AFTER unescaping, which is
what the library compares -/
def distinctKeys : JV → Bool
  | .arr xs => distinctKeysL xs
  | .obj ms => nodupB (ms.map fun kv => sortKey kv.1) && distinctKeysM ms
  | _ => true
def distinctKeysL : List JV → Bool
  | [] => true
  | x :: xs => distinctKeys x && distinctKeysL xs
def distinctKeysM : List (Text × JV) → Bool
  | [] => true
  | (_, v) :: ms => distinctKeys v && distinctKeysM ms
end

theorem nodupB_pairwise : ∀ l : List Text, nodupB l = true → l.Pairwise (· ≠ ·)
  | [], _ => List.Pairwise.nil
  | x :: xs, h => by
    simp only [nodupB, Bool.and_eq_true, Bool.not_eq_eq_eq_not, Bool.not_true, List.contains_eq_mem,
      decide_eq_false_iff_not] at h
    exact List.Pairwise.cons (fun y hy e => h.1 (e ▸ hy)) (nodupB_pairwise xs h.2)

/-- a member as the printer renders it -/
def renderMember (o : Opts) (tabs : Nat) (kv : Text × JV) : Member :=
  ⟨kv.1, ppV o tabs (memberCol o tabs kv.1) kv.2⟩

theorem ppMembers_eq_map (o : Opts) (tabs : Nat) :
    ∀ ms : List (Text × JV), ppMembers o tabs ms = ms.map (renderMember o tabs)
  | [] => by simp [ppMembers]
  | (k, v) :: ms => by simp [ppMembers, renderMember, ppMembers_eq_map o tabs ms]

theorem permL_length : ∀ xs ys : List JV, PermL xs ys → xs.length = ys.length
  | [], ys, h => by simp only [PermL] at h; subst h; rfl
  | x :: xs, ys, h => by
    simp only [PermL] at h
    obtain ⟨y, ys', rfl, _, h'⟩ := h
    simp [permL_length xs ys' h']

theorem permM_length : ∀ ms ns : List (Text × JV), PermM ms ns → ms.length = ns.length
  | [], ns, h => by simp only [PermM] at h; subst h; rfl
  | (k, x) :: ms, ns, h => by
    simp only [PermM] at h
    obtain ⟨y, ns', rfl, _, h'⟩ := h
    simp [permM_length ms ns' h']

mutual
theorem oneLine_perm : ∀ v w : JV, PermV v w → oneLine v = oneLine w
  | .str r, w, h => by simp only [PermV] at h; subst h; rfl
  | .num r, w, h => by simp only [PermV] at h; subst h; rfl
  | .tru, w, h => by simp only [PermV] at h; subst h; rfl
  | .fls, w, h => by simp only [PermV] at h; subst h; rfl
  | .nul, w, h => by simp only [PermV] at h; subst h; rfl
  | .arr xs, w, h => by
    simp only [PermV] at h
    obtain ⟨ys, rfl, h'⟩ := h
    simp only [oneLine, oneLineL_perm xs ys h']
  | .obj ms, w, h => by
    simp only [PermV] at h
    obtain ⟨ns, ns', rfl, _, _⟩ := h
    simp [oneLine]
theorem oneLineL_perm : ∀ xs ys : List JV, PermL xs ys → oneLineL xs = oneLineL ys
  | [], ys, h => by simp only [PermL] at h; subst h; rfl
  | x :: xs, ys, h => by
    simp only [PermL] at h
    obtain ⟨y, ys', rfl, h1, h2⟩ := h
    have hl := permL_length xs ys' h2
    have hs : sepText [44, 32] xs = sepText [44, 32] ys' := by
      cases xs <;> cases ys' <;> simp_all [sepText]
    simp only [oneLineL, oneLine_perm x y h1, oneLineL_perm xs ys' h2, hs]
end

theorem renderMember_key (o : Opts) (tabs : Nat) (kv : Text × JV) : (renderMember o tabs kv).key = kv.1 := rfl

/-- the sort keys of rendered members are those of the members -/
theorem rendered_distinct (o : Opts) (tabs : Nat) (ms : List (Text × JV))
    (h : nodupB (ms.map fun kv => sortKey kv.1) = true) :
    (ms.map (renderMember o tabs)).Pairwise (fun a b => sortKey a.key ≠ sortKey b.key) := by
  have := nodupB_pairwise _ h
  rw [List.pairwise_map] at this ⊢
  exact this

mutual
/-- **member-order invariance (trees)**: with `SortKeys`, a tree all of whose objects have
pairwise different keys prints the same whatever the order of its members, at every depth and
column, for every indent and width -/
theorem ppV_perm (o : Opts) (hs : o.sortKeys = true) :
    ∀ (v w : JV), PermV v w → distinctKeys v = true → ∀ tabs col, ppV o tabs col v = ppV o tabs col w
  | .str r, w, h, _ => by simp only [PermV] at h; subst h; intros; rfl
  | .num r, w, h, _ => by simp only [PermV] at h; subst h; intros; rfl
  | .tru, w, h, _ => by simp only [PermV] at h; subst h; intros; rfl
  | .fls, w, h, _ => by simp only [PermV] at h; subst h; intros; rfl
  | .nul, w, h, _ => by simp only [PermV] at h; subst h; intros; rfl
  | .arr xs, w, h, hd => by
    intro tabs col
    have h0 := h
    simp only [PermV] at h
    obtain ⟨ys, rfl, h'⟩ := h
    simp only [distinctKeys] at hd
    have hl := permL_length xs ys h'
    have he : xs.isEmpty = ys.isEmpty := by cases xs <;> cases ys <;> simp_all
    have h1 : fitsOneLine o col (.arr xs) = fitsOneLine o col (.arr ys) := by
      simp only [fitsOneLine, oneLine_perm _ _ h0]
    simp only [ppV, h1, he, ppElems_perm o hs xs ys h' hd]
  | .obj ms, w, h, hd => by
    intro tabs col
    simp only [PermV] at h
    obtain ⟨ns, ns', rfl, hp, h'⟩ := h
    simp only [distinctKeys, Bool.and_eq_true] at hd
    have hl := (permM_length ms ns' h').trans hp.length_eq.symm
    have he : ms.isEmpty = ns.isEmpty := by cases ms <;> cases ns <;> simp_all
    have e1 := ppMembers_perm o hs ms ns' h' hd.2 (tabs + 1)
    have e2 : sortMembers (ppMembers o (tabs + 1) ms) = sortMembers (ppMembers o (tabs + 1) ns) := by
      rw [e1, ppMembers_eq_map, ppMembers_eq_map]
      apply sortBy_perm_eq memberLess (fun m => sortKey m.key) memberLess_of_ne _ _ (hp.symm.map _)
      rw [← ppMembers_eq_map, ← e1, ppMembers_eq_map]
      exact rendered_distinct o (tabs + 1) ms hd.1
    simp only [ppV, he, hs, ↓reduceIte, e2]
theorem ppElems_perm (o : Opts) (hs : o.sortKeys = true) :
    ∀ (xs ys : List JV), PermL xs ys → distinctKeysL xs = true →
      ∀ tabs first, ppElems o tabs first xs = ppElems o tabs first ys
  | [], ys, h, _ => by simp only [PermL] at h; subst h; intros; rfl
  | x :: xs, ys, h, hd => by
    intro tabs first
    simp only [PermL] at h
    obtain ⟨y, ys', rfl, h1, h2⟩ := h
    simp only [distinctKeysL, Bool.and_eq_true] at hd
    simp only [ppElems, ppV_perm o hs x y h1 hd.1, ppElems_perm o hs xs ys' h2 hd.2]
theorem ppMembers_perm (o : Opts) (hs : o.sortKeys = true) :
    ∀ (ms ns : List (Text × JV)), PermM ms ns → distinctKeysM ms = true →
      ∀ tabs, ppMembers o tabs ms = ppMembers o tabs ns
  | [], ns, h, _ => by simp only [PermM] at h; subst h; intros; rfl
  | (k, x) :: ms, ns, h, hd => by
    intro tabs
    simp only [PermM] at h
    obtain ⟨y, ns', rfl, h1, h2⟩ := h
    simp only [distinctKeysM, Bool.and_eq_true] at hd
    simp only [ppMembers, ppV_perm o hs x y h1 hd.1, ppMembers_perm o hs ms ns' h2 hd.2]
end

/-! ## the sorted tree is the input tree up to member order -/

theorem permM_keys : ∀ ms ns : List (Text × JV), PermM ms ns → ns.map (·.1) = ms.map (·.1)
  | [], ns, h => by simp only [PermM] at h; subst h; rfl
  | (k, x) :: ms, ns, h => by
    simp only [PermM] at h
    obtain ⟨y, ns', rfl, _, h'⟩ := h
    simp [permM_keys ms ns' h']

mutual
theorem permV_srt (o : Opts) : ∀ (tabs col : Nat) (v : JV), PermV v (srt o tabs col v)
  | _, _, .str _ => by simp [srt, PermV]
  | _, _, .num _ => by simp [srt, PermV]
  | _, _, .tru => by simp [srt, PermV]
  | _, _, .fls => by simp [srt, PermV]
  | _, _, .nul => by simp [srt, PermV]
  | tabs, _, .arr xs => by
    simp only [srt, PermV]
    exact ⟨_, rfl, permL_srt o (tabs + 1) true xs⟩
  | tabs, _, .obj ms => by
    simp only [srt, PermV]
    refine ⟨_, (srtM o (tabs + 1) ms).map (·.2), rfl, ?_, permM_srt o (tabs + 1) ms⟩
    split
    · exact (sortBy_perm pairLess _).map _
    · exact List.Perm.refl _
theorem permL_srt (o : Opts) : ∀ (tabs : Nat) (first : Bool) (xs : List JV), PermL xs (srtL o tabs first xs)
  | _, _, [] => by simp [srtL, PermL]
  | tabs, first, x :: xs => by
    simp only [srtL, PermL]
    exact ⟨_, _, rfl, permV_srt o tabs _ x, permL_srt o tabs false xs⟩
theorem permM_srt (o : Opts) : ∀ (tabs : Nat) (ms : List (Text × JV)), PermM ms ((srtM o tabs ms).map (·.2))
  | _, [] => by simp [srtM, PermM]
  | tabs, (k, v) :: ms => by
    simp only [srtM, List.map_cons, PermM]
    exact ⟨_, _, rfl, permV_srt o tabs _ v, permM_srt o tabs ms⟩
end

theorem pairwise_nodupB : ∀ l : List Text, l.Pairwise (· ≠ ·) → nodupB l = true
  | [], _ => rfl
  | x :: xs, h => by
    simp only [List.pairwise_cons] at h
    simp only [nodupB, Bool.and_eq_true, Bool.not_eq_eq_eq_not, Bool.not_true, List.contains_eq_mem,
      decide_eq_false_iff_not]
    exact ⟨fun hx => h.1 x hx rfl, pairwise_nodupB xs h.2⟩

theorem distinctKeysM_iff : ∀ ms : List (Text × JV), distinctKeysM ms = true ↔ ∀ kv ∈ ms, distinctKeys kv.2 = true
  | [] => by simp [distinctKeysM]
  | (k, v) :: ms => by simp [distinctKeysM, distinctKeysM_iff ms]

mutual
/-- reordering members keeps the keys of every object pairwise different -/
theorem distinct_perm : ∀ v w : JV, PermV v w → distinctKeys v = true → distinctKeys w = true
  | .str r, w, h, _ => by simp only [PermV] at h; subst h; rfl
  | .num r, w, h, _ => by simp only [PermV] at h; subst h; rfl
  | .tru, w, h, _ => by simp only [PermV] at h; subst h; rfl
  | .fls, w, h, _ => by simp only [PermV] at h; subst h; rfl
  | .nul, w, h, _ => by simp only [PermV] at h; subst h; rfl
  | .arr xs, w, h, hd => by
    simp only [PermV] at h
    obtain ⟨ys, rfl, h'⟩ := h
    simp only [distinctKeys] at hd ⊢
    exact distinctL_perm xs ys h' hd
  | .obj ms, w, h, hd => by
    simp only [PermV] at h
    obtain ⟨ns, ns', rfl, hp, h'⟩ := h
    simp only [distinctKeys, Bool.and_eq_true] at hd ⊢
    constructor
    · apply pairwise_nodupB
      have h1 := nodupB_pairwise _ hd.1
      have hk : ns'.map (fun kv => sortKey kv.1) = ms.map (fun kv => sortKey kv.1) := by
        have := congrArg (List.map sortKey) (permM_keys ms ns' h')
        simpa [List.map_map, Function.comp_def] using this
      rw [← hk] at h1
      exact (hp.map _).symm.pairwise_iff (fun {x y} (h : x ≠ y) => (fun e => h e.symm : y ≠ x)) |>.mp h1
    · have := distinctM_perm ms ns' h' hd.2
      rw [distinctKeysM_iff] at this ⊢
      exact fun kv hkv => this kv (hp.mem_iff.mp hkv)
theorem distinctL_perm : ∀ xs ys : List JV, PermL xs ys → distinctKeysL xs = true → distinctKeysL ys = true
  | [], ys, h, _ => by simp only [PermL] at h; subst h; rfl
  | x :: xs, ys, h, hd => by
    simp only [PermL] at h
    obtain ⟨y, ys', rfl, h1, h2⟩ := h
    simp only [distinctKeysL, Bool.and_eq_true] at hd ⊢
    exact ⟨distinct_perm x y h1 hd.1, distinctL_perm xs ys' h2 hd.2⟩
theorem distinctM_perm : ∀ ms ns : List (Text × JV), PermM ms ns → distinctKeysM ms = true → distinctKeysM ns = true
  | [], ns, h, _ => by simp only [PermM] at h; subst h; rfl
  | (k, x) :: ms, ns, h, hd => by
    simp only [PermM] at h
    obtain ⟨y, ns', rfl, h1, h2⟩ := h
    simp only [distinctKeysM, Bool.and_eq_true] at hd ⊢
    exact ⟨distinct_perm x y h1 hd.1, distinctM_perm ms ns' h2 hd.2⟩
end

mutual
/-- without `SortKeys` the printed tree is the input tree -/
theorem srt_unsorted (o : Opts) (hs : o.sortKeys = false) : ∀ (tabs col : Nat) (v : JV), srt o tabs col v = v
  | _, _, .str _ => rfl
  | _, _, .num _ => rfl
  | _, _, .tru => rfl
  | _, _, .fls => rfl
  | _, _, .nul => rfl
  | tabs, _, .arr xs => by simp only [srt, srtL_unsorted o hs (tabs + 1) true xs]
  | tabs, _, .obj ms => by simp only [srt, hs, Bool.false_eq_true, ↓reduceIte, srtM_unsorted o hs (tabs + 1) ms]
theorem srtL_unsorted (o : Opts) (hs : o.sortKeys = false) : ∀ (tabs : Nat) (first : Bool) (xs : List JV), srtL o tabs first xs = xs
  | _, _, [] => rfl
  | tabs, first, x :: xs => by simp only [srtL, srt_unsorted o hs tabs _ x, srtL_unsorted o hs tabs false xs]
theorem srtM_unsorted (o : Opts) (hs : o.sortKeys = false) : ∀ (tabs : Nat) (ms : List (Text × JV)), (srtM o tabs ms).map (·.2) = ms
  | _, [] => rfl
  | tabs, (k, v) :: ms => by simp only [srtM, List.map_cons, srt_unsorted o hs tabs _ v, srtM_unsorted o hs tabs ms]
end

/-! ## (a) white space between tokens is insignificant -/

/-- **(a) white-space invariance**: the output depends on the token sequence only — two byte
strings with the same tokens (they differ in the white space between tokens, nothing else) print
identically, under every option set -/
theorem pretty_ws_invariant (o : Opts) (a b : Text) (h : tokens a = tokens b) : pretty o a = pretty o b := by
  unfold pretty parse
  rw [h]

/-- the tokeniser ignores white space after a token (and `tokens_ws_prefix`: before the first) -/
theorem tokens_ws_between (t : Tok) (w r : Text) (ok : TokOk t) (hw : AllWs w) (hr : TokStop t r) :
    tokens (tokText t ++ (w ++ r)) = tokens (tokText t ++ r) := by
  cases w with
  | nil => rfl
  | cons c w =>
    have hc : isWs c = true := hw c (by simp)
    have h1 : TokStop t (c :: w ++ r) := TokStop.of_numStop (numStop_of_ws _ hc)
    rw [tokens_tok t (c :: w ++ r) ok h1, tokens_ws_prefix _ _ hw, tokens_tok t r ok hr]

/-- a token sequence laid out with arbitrary white space: before every token, and at the end -/
def spaced : List (Text × Tok) → Text → Text
  | [], tail => tail
  | (w, t) :: l, tail => w ++ (tokText t ++ spaced l tail)

/-- a number is not directly followed by a byte that would continue it -/
def Separated : List (Text × Tok) → Text → Prop
  | [], _ => True
  | (_, t) :: l, tail => TokStop t (spaced l tail) ∧ Separated l tail

/-- **the tokeniser ignores white space between tokens**: however much white space (spaces,
tabs, CR, LF) is laid between scanned tokens, the token sequence is the same -/
theorem tokens_spaced : ∀ (l : List (Text × Tok)) (tail : Text),
    (∀ p ∈ l, AllWs p.1 ∧ TokOk p.2) → AllWs tail → Separated l tail →
      tokens (spaced l tail) = some (l.map (·.2))
  | [], tail, _, ht, _ => by simpa [spaced] using tokens_of_ws tail ht
  | (w, t) :: l, tail, h, ht, hs => by
    obtain ⟨hw, ok⟩ := h (w, t) (by simp)
    simp only [Separated] at hs
    simp only [spaced]
    rw [tokens_ws_prefix _ _ hw, tokens_tok t _ ok hs.1,
      tokens_spaced l tail (fun p hp => h p (by simp [hp])) ht hs.2]
    simp

example : tokens docA = tokens docA' ∧ pretty defaultOpts docA' = outAB := by decide

/-! ## (b) member order is insignificant under `SortKeys` -/

/-- **(b) member-order invariance**: with `SortKeys` (go-snaps' default), two documents whose
trees are equal up to the order of object members print identically, provided the keys of every
object are pairwise different (after unescaping) -/
theorem pretty_order_invariant (o : Opts) (hs : o.sortKeys = true) (a b : Text) (va vb : JV)
    (ha : parse a = some va) (hb : parse b = some vb) (hp : PermV va vb) (hd : distinctKeys va = true) :
    pretty o a = pretty o b := by
  simp only [pretty, ha, hb, printTree, ppV_perm o hs va vb hp hd 0 0]

/-- the same for the options go-snaps passes when the user configures nothing -/
theorem default_order_invariant (a b : Text) (va vb : JV)
    (ha : parse a = some va) (hb : parse b = some vb) (hp : PermV va vb) (hd : distinctKeys va = true) :
    pretty defaultOpts a = pretty defaultOpts b :=
  pretty_order_invariant defaultOpts rfl a b va vb ha hb hp hd

example : pretty defaultOpts docB = outAB ∧ distinctKeys treeA = true := by decide

/-- the witness for `PermV treeA treeB`, spelled out: the outer members swapped, and inside `b`'s
array the members of the third element swapped -/
example : PermV treeA treeB := by
  unfold treeA treeB
  simp only [PermV]
  refine ⟨_, [([34, 98, 34], _), ([34, 97, 34], _)], rfl, List.Perm.swap _ _ _, ?_⟩
  simp only [PermM, PermV, PermL]
  refine ⟨_, _, rfl, ⟨_, rfl, _, _, rfl, rfl, _, _, rfl, rfl, _, _, rfl, ?_, rfl⟩, _, _, rfl, rfl, rfl⟩
  exact ⟨_, [([34, 121, 34], _), ([34, 120, 34], _)], rfl, List.Perm.swap _ _ _, _, _, rfl, rfl, _, _, rfl, rfl, rfl⟩

/-- without `SortKeys` the member order of the input is kept (and the two documents differ) -/
example : pretty { defaultOpts with sortKeys := false } docA ≠ pretty { defaultOpts with sortKeys := false } docB := by
  decide

/-! ## (c) losslessness -/

theorem tokens_length_lt (s : Text) : s.length < s.length + 1 := Nat.lt_succ_self _

/-- the tree of a document is made of lexemes of the document -/
theorem parse_wf (a : Text) (v : JV) (h : parse a = some v) : WF v := by
  unfold parse at h
  cases ht : tokens a with
  | none => simp [ht] at h
  | some ts =>
    simp only [ht, Option.bind_some] at h
    have e := parseToks_sound ts v h
    apply wf_of_toks
    rw [← e]
    exact tokens_ok (a.length + 1) a ts (Nat.lt_succ_self _) ht

theorem parse_tokens (a : Text) (v : JV) (h : parse a = some v) : tokens a = some (toks v) := by
  unfold parse at h
  cases ht : tokens a with
  | none => simp [ht] at h
  | some ts =>
    simp only [ht, Option.bind_some] at h
    rw [parseToks_sound ts v h]

/-- the printed form of a tree tokenises to the tokens of the sorted tree -/
theorem tokens_printTree (o : Opts) (hi : IndentWs o) (v : JV) (hw : WF v) :
    tokens (printTree o v) = some (toks (srt o 0 0 v)) := by
  unfold printTree
  rw [ppV_srt o 0 0 v, tokens_ppV o.unsorted rfl hi (srt o 0 0 v) 0 0 [10] (wf_srt o 0 0 v hw) (numStop_nl [])]
  rw [tokens_of_ws [10] (by intro c hc; simp at hc; subst hc; decide)]
  simp

/-- **(c) losslessness**: the output of a valid document is a valid document, and it parses to
the input's tree with the members of every object in the order `SortKeys` puts them —
`PermV v (srt o 0 0 v)`: the same tree up to member order; the very same tree without `SortKeys`.
Scalars keep their raw text. -/
theorem parse_pretty (o : Opts) (hi : IndentWs o) (a : Text) (v : JV) (h : parse a = some v) :
    parse (pretty o a) = some (srt o 0 0 v) ∧ PermV v (srt o 0 0 v) ∧
      (o.sortKeys = false → srt o 0 0 v = v) := by
  refine ⟨?_, permV_srt o 0 0 v, fun hs => srt_unsorted o hs 0 0 v⟩
  simp only [pretty, h]
  unfold parse
  rw [tokens_printTree o hi v (parse_wf a v h)]
  simp [parseToks_toks]

/-- no token is lost, added or changed; without `SortKeys` none is moved -/
theorem tokens_pretty_unsorted (o : Opts) (hi : IndentWs o) (hs : o.sortKeys = false) (a : Text) (v : JV)
    (h : parse a = some v) : tokens (pretty o a) = tokens a := by
  simp only [pretty, h]
  rw [tokens_printTree o hi v (parse_wf a v h), srt_unsorted o hs, parse_tokens a v h]

/-- **canonical form**: printing the printed text again changes nothing — for every valid
document, duplicate keys included, with and without `SortKeys` (the members of the output are in
`sortPairs`' order, `byKeyVal.Less` is a strict weak order, and a stable sort leaves a sorted list
alone) -/
theorem pretty_idempotent (o : Opts) (hi : IndentWs o) (a : Text) (v : JV) (h : parse a = some v) :
    pretty o (pretty o a) = pretty o a := by
  obtain ⟨h1, _, _⟩ := parse_pretty o hi a v h
  have e : pretty o a = printTree o v := by simp only [pretty, h]
  rw [e] at h1 ⊢
  unfold pretty
  rw [h1]
  simp only [printTree, ppV_srt_idem]

/-- what `sort.Stable` with `byKeyVal.Less` is modelled by: the result is a permutation of the
members, no member is strictly less than an earlier one, and an already sorted list is returned
unchanged; `Less` is a strict weak order (`swo_memberLess`), the condition under which all stable
sorts agree -/
theorem sortMembers_spec (l : List Member) :
    (sortMembers l).Perm l ∧ SortedBy memberLess (sortMembers l) ∧
      (SortedBy memberLess l → sortMembers l = l) :=
  ⟨sortBy_perm memberLess l, sortBy_sorted swo_memberLess l, sortBy_of_sorted l⟩

/-- the output of docA parses to treeB (= treeA with sorted members), and printing it again
gives the same bytes -/
example : (parse outAB == some treeB) = true ∧ pretty defaultOpts outAB = outAB := by decide

/-- a document with duplicate keys, keys equal only after unescaping, and numbers equal as
floats: `{"a":1.0,"\u0061":1,"a":true,"a":[],"a":"x"}` stores, under the default options, the
members ordered by kind of value (number < string < true < container) and, among the two numbers
that are equal as floats, in input order -/
example : pretty defaultOpts [123, 34, 97, 34, 58, 49, 46, 48, 44, 34, 92, 117, 48, 48, 54, 49, 34, 58, 49, 44, 34, 97, 34, 58,
      116, 114, 117, 101, 44, 34, 97, 34, 58, 91, 93, 44, 34, 97, 34, 58, 34, 120, 34, 125] =
    [123, 10, 32, 34, 97, 34, 58, 32, 49, 46, 48, 44, 10, 32, 34, 92, 117, 48, 48, 54, 49, 34, 58, 32, 49, 44, 10, 32, 34, 97, 34,
      58, 32, 34, 120, 34, 44, 10, 32, 34, 97, 34, 58, 32, 116, 114, 117, 101, 44, 10, 32, 34, 97, 34, 58, 32, 91, 93, 10, 125, 10] := by
  decide +kernel

/-! ## the model satisfies the contract of Props/C14.lean -/

/-- the last byte of a printed value is never white space -/
theorem ppV_getLast (o : Opts) (v : JV) (hw : WF v) (tabs col : Nat) :
    ∀ c, (ppV o tabs col v).getLast? = some c → isWs c = false := by
  intro c hc
  cases v with
  | str r => simp only [WF] at hw; exact hw.2.2.2 c (by simpa [ppV, tokText] using hc)
  | num r => simp only [WF] at hw; exact hw.2.2.2 c (by simpa [ppV, tokText] using hc)
  | tru => simp [ppV] at hc; subst hc; decide
  | fls => simp [ppV] at hc; subst hc; decide
  | nul => simp [ppV] at hc; subst hc; decide
  | arr xs =>
    simp only [ppV] at hc
    cases hf : fitsOneLine o col (.arr xs) with
    | some t =>
      have := fitsOneLine_some hf
      simp only [oneLine, Option.map_eq_some_iff] at this
      obtain ⟨b, _, rfl⟩ := this
      simp only [hf] at hc
      have e : (91 :: b ++ [93]) = (91 :: b) ++ [93] := by simp
      rw [e, List.getLast?_concat] at hc
      simp only [Option.some.injEq] at hc; subst hc; decide
    | none =>
      simp only [hf] at hc
      split at hc
      · simp at hc; subst hc; decide
      · have e : ∀ x y : Text, (91 :: x ++ 10 :: y ++ [93]) = (91 :: x ++ 10 :: y) ++ [93] := by intros; simp
        rw [e, List.getLast?_concat] at hc
        simp only [Option.some.injEq] at hc; subst hc; decide
  | obj ms =>
    simp only [ppV] at hc
    split at hc
    · simp at hc; subst hc; decide
    · have e : ∀ x y : Text, (123 :: 10 :: x ++ 10 :: y ++ [125]) = (123 :: 10 :: x ++ 10 :: y) ++ [125] := by intros; simp
      rw [e, List.getLast?_concat] at hc
      simp only [Option.some.injEq] at hc; subst hc; decide

/-- the documents the contract is instantiated for: valid JSON in which the keys of every object
are pairwise different after unescaping (for the others `order_invariant` is false of the
library: members with equal keys are ordered by their values, and members equal there too keep
their input order) -/
def specTokens (s : Text) : Option (List Tok) :=
  match parse s with
  | some v => if distinctKeys v = true then tokens s else none
  | none => none

/-- "equal up to the order of object members", on token sequences: the first sequence's tree is
the second's with members reordered -/
def specPermEq (ta tb : List Tok) : Prop :=
  ∃ va vb, parseToks ta = some va ∧ parseToks tb = some vb ∧ PermV vb va

/-- the printer of the contract: width and indent fixed, `SortKeys` the argument -/
def specPretty (o : Opts) (sk : Bool) (s : Text) : Text := pretty { o with sortKeys := sk } s

theorem specTokens_some {s : Text} {ts : List Tok} (h : specTokens s = some ts) :
    ∃ v, parse s = some v ∧ distinctKeys v = true ∧ tokens s = some ts ∧ parseToks ts = some v ∧ ts = toks v := by
  unfold specTokens at h
  cases hp : parse s with
  | none => simp [hp] at h
  | some v =>
    simp only [hp] at h
    split at h
    · rename_i hd
      have ht := parse_tokens s v hp
      rw [ht] at h
      simp only [Option.some.injEq] at h
      subst h
      exact ⟨v, rfl, hd, ht, parseToks_toks v, rfl⟩
    · cases h

/-- **the model satisfies `C14.PrettySpec`** (for every width and every white-space indent): the
glue theorems of Props/C14.lean — `json_ws_invariant`, `json_order_invariant`, `json_lossless`,
`json_idempotent`, `json_snapshot_body`, `json_replay_equivalent` — apply to the model of
`pretty.PrettyOptions` -/
theorem model_prettySpec (o : Opts) (hi : IndentWs o) :
    C14.PrettySpec (specPretty o) specTokens specPermEq where
  ws_invariant s a b ta ha hb := by
    obtain ⟨_, _, _, h1, _⟩ := specTokens_some ha
    obtain ⟨_, _, _, h2, _⟩ := specTokens_some hb
    exact pretty_ws_invariant _ a b (h1.trans h2.symm)
  order_invariant a b ta tb hp ha hb := by
    obtain ⟨va, pa, _, _, qa, _⟩ := specTokens_some ha
    obtain ⟨vb, pb, db, _, qb, _⟩ := specTokens_some hb
    obtain ⟨va', vb', h1, h2, h3⟩ := hp
    rw [qa] at h1; rw [qb] at h2
    simp only [Option.some.injEq] at h1 h2
    subst h1; subst h2
    exact (pretty_order_invariant _ rfl b a vb va pb pa h3 db).symm
  lossless s a ta ha := by
    obtain ⟨v, pa, da, _, qa, rfl⟩ := specTokens_some ha
    have hi' : IndentWs { o with sortKeys := s } := hi
    obtain ⟨h1, h2, h3⟩ := parse_pretty { o with sortKeys := s } hi' a v pa
    refine ⟨toks (srt { o with sortKeys := s } 0 0 v), ?_, ?_⟩
    · unfold specTokens specPretty
      rw [h1]
      simp only [distinct_perm _ _ h2 da, ↓reduceIte]
      exact parse_tokens _ _ h1
    · cases s with
      | true => exact ⟨_, _, parseToks_toks _, parseToks_toks _, h2⟩
      | false => simp only [Bool.false_eq_true, ↓reduceIte]; rw [h3 rfl]
  ends_nl s a ha := by
    cases hq : specTokens a with
    | none => exact absurd hq ha
    | some ta =>
      obtain ⟨v, pa, _, _, _, _⟩ := specTokens_some hq
      refine ⟨ppV { o with sortKeys := s } 0 0 v, by simp [specPretty, pretty, pa, printTree, nl], ?_⟩
      intro h
      have := ppV_getLast { o with sortKeys := s } v (parse_wf a v pa) 0 0 nl h
      revert this; decide
  tokens_nl b := by
    have ht : tokens (b ++ [nl]) = tokens b := tokens_snoc_ws nl (by decide) _ b (Nat.lt_succ_self _)
    unfold specTokens parse
    rw [ht]

/-- the default options of go-snaps are an instance (indent `" "`, width 0) -/
theorem default_prettySpec : C14.PrettySpec (specPretty defaultOpts) specTokens specPermEq :=
  model_prettySpec defaultOpts (by intro c hc; simp [defaultOpts] at hc; subst hc; decide)

/-- so the glue theorems hold of the model, e.g.: the stored text of a document is a fixed
point of taking the snapshot -/
example (j : Text) (tj : List Tok) (hj : specTokens j = some tj) :
    C14.takeJSONSnapshot (specPretty defaultOpts) true (C14.takeJSONSnapshot (specPretty defaultOpts) true j) =
      C14.takeJSONSnapshot (specPretty defaultOpts) true j :=
  C14.json_idempotent default_prettySpec true j tj hj

/-! ## (d) no line of the output is the entry terminator -/

/-- a text that begins with `--` does not tokenise (a `-` must be followed by a digit) -/
theorem tokens_dashdash (z : Text) : tokens (45 :: 45 :: z) = none := by
  rw [tokens_unfold]
  have h1 : skipWs (45 :: 45 :: z) = 45 :: 45 :: z := skipWs_of_nonws 45 _ (by decide)
  rw [h1]
  have h2 : nextTok (45 :: 45 :: z) = none := by
    simp (config := {decide := true}) [nextTok, scanNum, scanInt, digits1]
  simp only [h2]

/-- splitting `a ++ 10 :: y` after a newline-free prefix `t` -/
theorem split_before_nl : ∀ (t a y r : Text), a ++ 10 :: y = t ++ r → (∀ c ∈ t, c ≠ 10) →
    ∃ a', a = t ++ a' ∧ r = a' ++ 10 :: y
  | [], a, y, r, h, _ => ⟨a, rfl, by simpa using h.symm⟩
  | c :: t, [], y, r, h, hn => by
    simp only [List.nil_append, List.cons_append, List.cons.injEq] at h
    exact absurd h.1.symm (hn c (by simp))
  | c :: t, d :: a, y, r, h, hn => by
    simp only [List.cons_append, List.cons.injEq] at h
    obtain ⟨rfl, h⟩ := h
    obtain ⟨a', e1, e2⟩ := split_before_nl t a y r h (fun x hx => hn x (by simp [hx]))
    exact ⟨a', by simp [e1], e2⟩

/-- **the tokeniser resynchronises at every newline**: no token contains a newline byte, so
what follows a newline of a text that tokenises, tokenises -/
theorem tokens_after_nl : ∀ (n : Nat) (x y : Text) (ts : List Tok), x.length < n →
    tokens (x ++ 10 :: y) = some ts → ∃ ts', tokens y = some ts' := by
  intro n
  induction n with
  | zero => intro x y ts h; omega
  | succ n ih =>
    intro x y ts hn h
    cases hq : skipWs x with
    | nil =>
      have hx := skipWs_append_of_nil hq
      rw [tokens_ws_prefix _ _ hx, tokens_ws_cons 10 _ (by decide)] at h
      exact ⟨ts, h⟩
    | cons d r =>
      rw [tokens_unfold, skipWs_append_of_cons hq] at h
      simp only at h
      cases hp : nextTok (d :: (r ++ 10 :: y)) with
      | none => simp [hp] at h
      | some p =>
        obtain ⟨t, rest⟩ := p
        simp only [hp, Option.map_eq_some_iff] at h
        obtain ⟨ts', h', _⟩ := h
        obtain ⟨e, ok, _⟩ := nextTok_spec _ _ _ hp
        have hno : ∀ c ∈ tokText t, c ≠ 10 := fun c hc e' => ok.2.2.1 c hc (by rw [e']; decide)
        have e' : (d :: r) ++ 10 :: y = tokText t ++ rest := by simpa using e
        obtain ⟨a', e1, e2⟩ := split_before_nl _ _ _ _ e' hno
        rw [e2] at h'
        have hl1 := skipWs_length_le x
        rw [hq, e1] at hl1
        have hl2 := ok.length_pos
        simp only [List.length_append] at hl1
        exact ih a' y ts' (by omega) h'

theorem unlines_cons_cons (a : Line) (L : List Line) (h : L ≠ []) : unlines (a :: L) = a ++ nl :: unlines L := by
  cases L with
  | nil => exact absurd rfl h
  | cons m ls => rfl

theorem unlines_split : ∀ (L1 : List Line) (l : Line) (L2 : List Line),
    ∃ x y, unlines (L1 ++ l :: L2) = x ++ l ++ y ∧ (x = [] ∨ ∃ x', x = x' ++ [nl])
  | [], l, [] => ⟨[], [], by simp [unlines], Or.inl rfl⟩
  | [], l, m :: r => ⟨[], nl :: unlines (m :: r), by simp [unlines], Or.inl rfl⟩
  | a :: L1, l, L2 => by
    obtain ⟨x, y, e, hx⟩ := unlines_split L1 l L2
    have : unlines (a :: L1 ++ l :: L2) = a ++ nl :: unlines (L1 ++ l :: L2) :=
      unlines_cons_cons a _ (by simp)
    refine ⟨a ++ nl :: x, y, by rw [this, e]; simp, Or.inr ?_⟩
    rcases hx with rfl | ⟨x', rfl⟩
    · exact ⟨a, rfl⟩
    · exact ⟨a ++ nl :: x', by simp⟩

/-- where a line of a text sits: at the start, or right after a newline -/
theorem mem_lines_split (t : Text) (l : Line) (h : l ∈ lines t) :
    ∃ x y, t = x ++ l ++ y ∧ (x = [] ∨ ∃ x', x = x' ++ [nl]) := by
  obtain ⟨L1, L2, e⟩ := List.append_of_mem h
  have := unlines_lines t
  rw [e] at this
  rw [← this]
  exact unlines_split L1 l L2

/-- **(d) no framing hazard**: no line of the output of a valid document is `---`, the line that
terminates an entry of a snapshot file — which is why JSON entries are stored without escaping.
(Every line of the output starts, after white space, with a token; a `-` starts a number and is
followed by a digit.) -/
theorem pretty_no_terminator_line (o : Opts) (hi : IndentWs o) (a : Text) (v : JV) (h : parse a = some v) :
    ∀ l ∈ lines (pretty o a), l ≠ endSeq := by
  intro l hl he
  have hE : endSeq = [45, 45, 45] := by decide
  rw [hE] at he
  subst he
  obtain ⟨h1, _, _⟩ := parse_pretty o hi a v h
  have ht := parse_tokens _ _ h1
  obtain ⟨x, y, e, hx⟩ := mem_lines_split _ _ hl
  rw [e] at ht
  rcases hx with rfl | ⟨x', rfl⟩
  · simp only [List.nil_append, List.cons_append] at ht
    rw [tokens_dashdash] at ht; cases ht
  · have e2 : x' ++ [nl] ++ [45, 45, 45] ++ y = x' ++ 10 :: (45 :: 45 :: (45 :: y)) := by simp [nl]
    rw [e2] at ht
    obtain ⟨ts', h'⟩ := tokens_after_nl _ x' _ _ (Nat.lt_succ_self _) ht
    rw [tokens_dashdash] at h'; cases h'

/-- the same for the stored text (the output without its final newline) -/
theorem snapshot_no_terminator_line (o : Opts) (hi : IndentWs o) (a : Text) (v : JV) (h : parse a = some v) :
    ∀ l ∈ lines (trimNL (pretty o a)), l ≠ endSeq := by
  intro l hl
  apply pretty_no_terminator_line o hi a v h l
  have e : pretty o a = ppV o 0 0 v ++ [nl] := by simp [pretty, h, printTree, nl]
  rw [e, trimNL_append] at hl
  rw [e]
  have := lines_append_nl (ppV o 0 0 v) []
  rw [this]
  simp [hl]

example : ∀ l ∈ lines outAB, l ≠ endSeq := by decide

/-! ## (e) the validator accepts exactly what the structural parser turns into a tree -/

theorem allWs_numStop {r : Text} (h : AllWs r) : NumStop r := by
  cases r with
  | nil => exact numStop_nil
  | cons c t => exact numStop_of_ws t (h c (by simp))

theorem skipWs_nil_of_tokens_nil {r : Text} (h : tokens r = some []) : skipWs r = [] := by
  rw [tokens_unfold] at h
  cases hq : skipWs r with
  | nil => rfl
  | cons c t =>
    simp only [hq] at h
    cases hp : nextTok (c :: t) with
    | none => simp [hp] at h
    | some p => simp [hp] at h

/-- **(e) soundness of the structural model w.r.t. the validator model**: `jsonValid` (the model of
`gjson.Valid`, written function by function after the Go source) accepts exactly the byte strings
that the tokeniser and the token parser turn into a tree — one value, followed by white space only -/
theorem jsonValid_iff_parse (s : Text) : jsonValid s = true ↔ ∃ v, parse s = some v := by
  constructor
  · intro h
    unfold jsonValid at h
    cases hv : vAny (validFuel s) s with
    | none => simp [hv] at h
    | some rest =>
      simp only [hv, List.isEmpty_iff] at h
      obtain ⟨v, hvv⟩ := (valid_sound (validFuel s)).1 s rest hv
      have hw := skipWs_append_of_nil h
      have ht := hvv (allWs_numStop hw)
      rw [tokens_of_ws rest hw] at ht
      refine ⟨v, ?_⟩
      unfold parse
      rw [ht]
      simp [parseToks_toks]
  · rintro ⟨v, h⟩
    have ht := parse_tokens s v h
    have hl := tokens_length _ s _ (Nat.lt_succ_self _) ht
    have hg := gV_le v
    obtain ⟨rest, h1, h2⟩ := vAny_complete v s [] (validFuel s) (by simpa using ht) (by unfold validFuel; omega)
    unfold jsonValid
    rw [h1]
    simp [skipWs_nil_of_tokens_nil h2]

theorem jsonValid_eq_parse (s : Text) : jsonValid s = (parse s).isSome := by
  cases hp : parse s with
  | some v => simpa using (jsonValid_iff_parse s).mpr ⟨v, hp⟩
  | none =>
    cases hv : jsonValid s with
    | false => rfl
    | true =>
      obtain ⟨v, h⟩ := (jsonValid_iff_parse s).mp hv
      rw [hp] at h; cases h

/-- the output of a valid document is valid (in the sense of `gjson.Valid`), again and again -/
theorem jsonValid_pretty (o : Opts) (hi : IndentWs o) (a : Text) (h : jsonValid a = true) :
    jsonValid (pretty o a) = true := by
  obtain ⟨v, hv⟩ := (jsonValid_iff_parse a).mp h
  exact (jsonValid_iff_parse _).mpr ⟨_, (parse_pretty o hi a v hv).1⟩

/-- an invalid document has no tree (and go-snaps stops before formatting: `jsonPre_invalid`) -/
theorem parse_none_of_invalid (a : Text) (h : jsonValid a = false) : parse a = none := by
  cases hp : parse a with
  | none => rfl
  | some v => rw [(jsonValid_iff_parse a).mpr ⟨v, hp⟩] at h; cases h

/-- what gjson accepts and rejects, on the model: trailing comma, leading zero, bare word, two
documents, control byte in a string, lone surrogate escape (accepted), white space that is not
JSON white space -/
example :
    jsonValid [91, 49, 44, 93] = false ∧                       -- [1,]
    jsonValid [48, 49] = false ∧                               -- 01
    jsonValid [110, 117, 108] = false ∧                        -- nul
    jsonValid [123, 125, 123, 125] = false ∧                   -- {}{}
    jsonValid [34, 97, 10, 34] = false ∧                       -- "a<LF>"
    jsonValid [34, 92, 117, 100, 56, 48, 48, 34] = true ∧      -- "\ud800"
    jsonValid [91, 49, 44, 11, 50, 93] = false ∧               -- [1,<VT>2]
    jsonValid [32, 45, 48, 46, 53, 101, 43, 49, 48, 32, 10] = true := by  --  -0.5e+10
  decide

end GoSnaps.C14Json
