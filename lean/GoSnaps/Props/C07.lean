/-
C07 — Clean never discards a snapshot that was matched in this run.

`occurrences` turns the cleanup registry (test name ↦ number of `Match*` calls, summed over the
`-count` executions) into the set of protected ids; `examineSnaps` keeps every entry whose id is
in that set.  Statements only; proofs call `Lemmas/Clean.lean` and `Props/C10.lean`.
-/
import GoSnaps.Lemmas.Clean
import GoSnaps.Props.C10
namespace GoSnaps.C07

open GoSnaps

/-! ## 1. every occurrence that ran is protected -/

/-- general form, integer division made explicit: every ordinal `1 ≤ k ≤ counter / count` of a
    registered name is formatted and protected -/
theorem occurrences_cover_div (tests : List (Text × Nat)) (count : Nat)
    (fmt : Text → Nat → Option Text) (r : List Text) (N : Text) (counter : Nat)
    (hmem : (N, counter) ∈ tests) (h : occurrences tests count fmt = some r)
    (k : Nat) (hk1 : 1 ≤ k) (hk2 : k ≤ counter / count) :
    ∃ t, fmt N k = some t ∧ t ∈ r := by
  rw [occurrences_eq] at h
  obtain ⟨tail, rfl, _, hc⟩ := occFold_spec tests count fmt [] r h
  obtain ⟨t, ht, hm⟩ := hc (N, counter) hmem k ((mem_occKs _ _).mpr (Or.inr ⟨hk1, hk2⟩))
  exact ⟨t, ht, by simpa using hm⟩

/-- the code always inserts `fmt id (counter / count)`, even when that is 0 or 1 -/
theorem occurrences_cover_last (tests : List (Text × Nat)) (count : Nat)
    (fmt : Text → Nat → Option Text) (r : List Text) (N : Text) (counter : Nat)
    (hmem : (N, counter) ∈ tests) (h : occurrences tests count fmt = some r) :
    ∃ t, fmt N (counter / count) = some t ∧ t ∈ r := by
  rw [occurrences_eq] at h
  obtain ⟨tail, rfl, _, hc⟩ := occFold_spec tests count fmt [] r h
  obtain ⟨t, ht, hm⟩ := hc (N, counter) hmem _ ((mem_occKs _ _).mpr (Or.inl rfl))
  exact ⟨t, ht, by simpa using hm⟩

/-- **`occurrences_cover`**: a test `N` executed `c = -count ≥ 1` times with `n` calls each has
cleanup counter `c * n`; then `"N - k"` is protected for every `1 ≤ k ≤ n` (`n = 1`: just
`"N - 1"`; `n = 0`: vacuous, and `"N - 0"` is inserted — `occurrences_cover_last`). -/
theorem occurrences_cover (tests : List (Text × Nat)) (c n : Nat) (hc : 1 ≤ c) (r : List Text)
    (N : Text) (hmem : (N, c * n) ∈ tests) (h : occurrences tests c snapshotOccFmt = some r)
    (k : Nat) (hk1 : 1 ≤ k) (hk2 : k ≤ n) :
    N ++ [32, 45, 32] ++ natToText k ∈ r := by
  have hdiv : c * n / c = n := Nat.mul_div_cancel_left n (by omega)
  obtain ⟨t, ht, hm⟩ := occurrences_cover_div tests c snapshotOccFmt r N (c * n) hmem h k hk1
    (by omega)
  rw [snapshotOccFmt_eq] at ht
  cases ht; exact hm

/-- the `snapshotOccFmt` registry never fails to format -/
theorem occurrences_total (tests : List (Text × Nat)) (count : Nat) :
    ∃ r, occurrences tests count snapshotOccFmt = some r :=
  occurrences_snapshot_total tests count

/-- **counter not a multiple of count**: the remainder is ignored (integer division) — with
counter `c * n + rem`, `rem < c`, exactly the ordinals of `c * n` are protected, so an occurrence
`n + 1` that ran in only `rem` of the `c` executions is not.  An off-by-one in the division or in
the loop bound changes this equation. -/
theorem occurrences_remainder_ignored (N : Text) (c n rem : Nat) (hrem : rem < c)
    (fmt : Text → Nat → Option Text) (rest : List (Text × Nat)) :
    occurrences ((N, c * n + rem) :: rest) c fmt = occurrences ((N, c * n) :: rest) c fmt := by
  have h1 : (c * n + rem) / c = n := by
    rw [Nat.mul_add_div (by omega), Nat.div_eq_of_lt hrem]; rfl
  have h2 : c * n / c = n := Nat.mul_div_cancel_left n (by omega)
  simp only [occurrences_eq, List.foldl_cons, occStep, h1, h2]

/-- `TestA` with 5 calls over `-count=2`: ordinals 1, 2 (and 2 again) — not 3 -/
example : occurrences [([84, 101, 115, 116, 65], 5)] 2 snapshotOccFmt =
    some [[84, 101, 115, 116, 65, 32, 45, 32, 49], [84, 101, 115, 116, 65, 32, 45, 32, 50],
      [84, 101, 115, 116, 65, 32, 45, 32, 50]] := by decide

/-- one call (`n = 1`) and no call (`n = 0`, e.g. only skipped executions) -/
example : occurrences [([84, 101, 115, 116, 65], 3), ([84, 101, 115, 116, 66], 0)] 3 snapshotOccFmt =
    some [[84, 101, 115, 116, 65, 32, 45, 32, 49], [84, 101, 115, 116, 66, 32, 45, 32, 48]] := by decide

/-! ## 2. nothing spurious is protected -/

/-- every protected id is `fmt id k` for a registered `id` and an ordinal `k ≤ counter / count`
    (`k ≥ 1` unless the quotient is 0) -/
theorem occurrences_sound (tests : List (Text × Nat)) (count : Nat)
    (fmt : Text → Nat → Option Text) (r : List Text) (h : occurrences tests count fmt = some r)
    (t : Text) (ht : t ∈ r) :
    ∃ id counter k, (id, counter) ∈ tests ∧ k ≤ counter / count ∧
      (1 ≤ k ∨ counter / count = 0) ∧ fmt id k = some t := by
  rw [occurrences_eq] at h
  obtain ⟨tail, rfl, hs, _⟩ := occFold_spec tests count fmt [] r h
  obtain ⟨x, hx, k, hk, hf⟩ := hs t (by simpa using ht)
  refine ⟨x.1, x.2, k, hx, ?_, ?_, hf⟩
  · rcases (mem_occKs _ _).mp hk with h | h <;> omega
  · rcases (mem_occKs _ _).mp hk with h | h <;> omega

/-! ## 3. a registered entry is kept, with its body, through every rewrite -/

/-- in the scan, an entry whose id is registered is never reported obsolete and is stored with
    its body -/
theorem registered_kept (o : Oracles) (registered skipped : List Text) (runOnly : Text)
    (update : Bool) (es : List Entry) (hf : CleanFile es)
    (hcls : ∀ e ∈ es, Classified o registered skipped runOnly (tidOf e))
    (e : Entry) (he : e ∈ es) (hreg : tidOf e ∈ registered) :
    let st := exScan o registered skipped runOnly update (scan (render es)) .outer {}
    tidOf e ∉ st.obsolete ∧ testsGet st.tests (tidOf e) = some (e.body ++ [nl]) := by
  have hk : keptId o registered skipped runOnly (tidOf e) = true := by simp [keptId, hreg]
  rw [C10.exScan_render o registered skipped runOnly update es hf hcls]
  refine ⟨?_, ?_⟩
  · simp only [List.mem_map, List.mem_filter, not_exists, not_and, and_imp]
    intro x hx hnk hxe
    rw [hxe, hk] at hnk; cases hnk
  · show testsGet ((es.filter _).map entryPair) (tidOf e) = _
    rw [testsGet_map_entryPair, find?_filter_tid es _ e hf.distinct he]
    simp [hk]

/-- **a registered entry survives the file step**, whatever `update` and `sort` are: it is not
reported, and afterwards the file is again a rendered entry list that contains the very same
entry (same header, same body) -/
theorem registered_survives (o : Oracles) (fs : FS) (cleanup : List (RegKey × Nat))
    (skipped : List Text) (p runOnly : Text) (count : Nat) (update sort : Bool)
    (registered : List Text)
    (es : List Entry) (hf : CleanFile es) (hread : fsRead fs p = some (render es))
    (hreg : registeredFor cleanup p count = some registered)
    (hcls : ∀ e ∈ es, Classified o registered skipped runOnly (tidOf e))
    (obs : List Text) (fs' : FS) (w : List Text)
    (hfirst : examineSnaps o fs cleanup skipped [p] runOnly count update sort = .ok obs fs' w)
    (e : Entry) (he : e ∈ es) (hin : tidOf e ∈ registered) :
    tidOf e ∉ obs ∧ ∃ es', fsRead fs' p = some (render es') ∧ e ∈ es' := by
  have hk : keptId o registered skipped runOnly (tidOf e) = true := by simp [keptId, hin]
  obtain ⟨hobs, es', _, hr, hcase⟩ := examineSnaps_single_ok o registered skipped runOnly fs cleanup
    p count update sort es hf hread hreg hcls obs fs' w hfirst
  refine ⟨?_, es', hr, ?_⟩
  · rw [hobs]
    simp only [List.mem_map, List.mem_filter, not_exists, not_and, and_imp]
    intro x hx hnk hxe
    rw [hxe, hk] at hnk; cases hnk
  · rcases hcase with ⟨_, _, rfl⟩ | ⟨_, _, hperm⟩
    · exact he
    · exact hperm.mem_iff.mpr (List.mem_filter.mpr ⟨he, by simp [hk]⟩)

/-- **End to end.**  Test `N` made `n` calls in each of the `c = -count ≥ 1` executions against
file `p` (cleanup counter `c * n`).  Then the entry `[N - k]`, `1 ≤ k ≤ n`, is not reported and
is still in the file, with the same body, after the file step — in every mode. -/
theorem matched_never_discarded (o : Oracles) (fs : FS) (cleanup : List (RegKey × Nat))
    (skipped : List Text) (p runOnly : Text) (c n : Nat) (hc : 1 ≤ c) (update sort : Bool)
    (es : List Entry) (hf : CleanFile es) (hread : fsRead fs p = some (render es))
    (hcls : ∀ registered, registeredFor cleanup p c = some registered →
      ∀ e ∈ es, Classified o registered skipped runOnly (tidOf e))
    (N : Text) (hN : ((p, N), c * n) ∈ cleanup)
    (obs : List Text) (fs' : FS) (w : List Text)
    (hfirst : examineSnaps o fs cleanup skipped [p] runOnly c update sort = .ok obs fs' w)
    (e : Entry) (he : e ∈ es) (k : Nat) (hk1 : 1 ≤ k) (hk2 : k ≤ n)
    (hid : tidOf e = N ++ [32, 45, 32] ++ natToText k) :
    tidOf e ∉ obs ∧ ∃ es', fsRead fs' p = some (render es') ∧ e ∈ es' := by
  obtain ⟨registered, hreg⟩ := occurrences_snapshot_total
    ((cleanup.filter (·.1.1 = p)).map (fun (k, n) => (k.2, n))) c
  have hmem : (N, c * n) ∈ (cleanup.filter (·.1.1 = p)).map (fun (k, n) => (k.2, n)) :=
    List.mem_map.mpr ⟨((p, N), c * n), List.mem_filter.mpr ⟨hN, by simp⟩, rfl⟩
  have hin : tidOf e ∈ registered := by
    rw [hid]; exact occurrences_cover _ c n hc registered N hmem hreg k hk1 hk2
  exact registered_survives o fs cleanup skipped p runOnly c update sort registered es hf hread
    hreg (hcls registered hreg) obs fs' w hfirst e he hin

/-- concrete: `TestA` ran twice (`-count=2`) with two calls each (counter 4); the file holds
    `[TestA - 2]`, a stale `[TestC - 1]` and `[TestA - 1]`; clean + sort keeps both `TestA` entries -/
example :
    let e1 : Entry := ⟨[91, 84, 101, 115, 116, 65, 32, 45, 32, 50, 93], [120]⟩
    let e2 : Entry := ⟨[91, 84, 101, 115, 116, 67, 32, 45, 32, 49, 93], [121]⟩
    let e3 : Entry := ⟨[91, 84, 101, 115, 116, 65, 32, 45, 32, 49, 93], [122, 10, 122]⟩
    let p : Text := [47, 115, 47, 97, 46, 115, 110, 97, 112]
    examineSnaps {} [(p, render [e1, e2, e3])] [((p, [84, 101, 115, 116, 65]), 4)] [] [p] [] 2 true true =
      .ok [[84, 101, 115, 116, 67, 32, 45, 32, 49]] [(p, render [e3, e1])] [p] := by decide

end GoSnaps.C07
