/-
C01World — recorded snapshots replay cleanly, at the level of CALLS and HISTORIES of the step
functions of `GoSnaps/Model.lean` (`entryTail`, `matchEntry`, `endTest`).

File states: `Holds fs p es` (Lemmas/World.lean) — path `p` holds `render es`, or does not exist
and `es = []`.  Well-formedness: `C06Refine.Good es` (usable headers and bodies, no body line
equals a header of the file (NoShadow, known finding D9 otherwise), headers pairwise distinct).

All single-call theorems are stated for an arbitrary header `id`; `matchEntry` passes
`id = testID tName k = "[tName - k]"` (`Wld.matchEntry_eq`, `C03.testID_eq`).

Byte legend for the examples: `[91,65,32,45,32,49,93]` = "[A - 1]", `[65]` = "A", `[66]` = "B",
`[47,116,47,97,95,116,101,115,116,46,103,111]` = "/t/a_test.go",
`[47,116,47,95,95,115,110,97,112,115,104,111,116,115,95,95,47,97,95,116,101,115,116,46,115,110,97,112]`
= "/t/__snapshots__/a_test.snap".
-/
import GoSnaps.Lemmas.World

namespace GoSnaps.C01World

open GoSnaps GoSnaps.C06Refine GoSnaps.Wld
open GoSnaps.C03 (testID)
open GoSnaps.Generated (Env shouldCreate shouldUpdate)

/-! ## 1. recording one entry -/

/-- exact result of a recording call, under the single hypothesis that the file WITH the new
entry is `Good` -/
theorem entryTail_record_eq (w : World) (c : Cfg) (p rel id s : Text) (cmp : Cmp)
    (es : List Entry) (hfile : Holds w.fs p es) (hgood : Good (es ++ [⟨id, s⟩]))
    (hc : shouldCreate w.env c.update = true) :
    entryTail w c p rel id s cmp =
      ({ w with fs := fsWrite w.fs p (render (es ++ [⟨id, s⟩])),
                events := { w.events with added := w.events.added + 1 } },
       { events := [.log Generated.go_addedMsg], writes := [p] }) := by
  have hq : (fsRead w.fs p).bind (getPrev id) = none := by
    rw [hfile.lookup id]
    exact good_lookup_absent (good_prefix hgood) (good_fresh_last hgood)
  rw [entryTail_absent w c p rel id s cmp hq hc, hfile.fileOf, (add_refines es id s).1]

/-- **`entryTail_record`.**  The file at `p` holds the `Good` entry list `es` (or does not
exist, `es = []`); the header `id` is usable and occurs on NO line of the file; creation is
allowed; the stored text `s` is a usable body, none of whose lines is a header of the file or
the new header.  Then the call logs "added" and nothing else, writes `p` only, the file becomes
`render (es ++ [⟨id, s⟩])` (all earlier bytes kept), every other path is unchanged, exactly the
`added` counter moves, and the new file is `Good` again. -/
theorem entryTail_record (w : World) (c : Cfg) (p rel id s : Text) (cmp : Cmp) (es : List Entry)
    (hfile : Holds w.fs p es) (hgood : Good es)
    (hid : GoodId id) (hfresh : id ∉ fileLines es)
    (hc : shouldCreate w.env c.update = true)
    (hb : GoodBody s) (hold : ∀ o ∈ es, o.id ∉ lines s) (hself : id ∉ lines s) :
    let r := entryTail w c p rel id s cmp
    r.2.events = [.log Generated.go_addedMsg] ∧ r.2.writes = [p] ∧ r.2.removed = [] ∧
    r.2.unsupported = none ∧
    fsRead r.1.fs p = some (render (es ++ [⟨id, s⟩])) ∧
    (∀ q, q ≠ p → fsRead r.1.fs q = fsRead w.fs q) ∧
    r.1.events = { w.events with added := w.events.added + 1 } ∧
    Good (es ++ [⟨id, s⟩]) := by
  have hg : Good (es ++ [⟨id, s⟩]) := hgood.add hid hfresh hb hold hself
  intro r
  have hr : r = _ := entryTail_record_eq w c p rel id s cmp es hfile hg hc
  rw [hr]
  refine ⟨rfl, rfl, rfl, rfl, C19.fsRead_fsWrite_same _ _ _, ?_, rfl, hg⟩
  intro q hq
  exact C19.fsRead_fsWrite_other _ _ _ _ hq

/-- the instance `matchEntry` produces: header `[t - k]` of a test name without newline -/
theorem entryTail_record_testID (w : World) (c : Cfg) (p rel t s : Text) (k : Nat) (cmp : Cmp)
    (es : List Entry) (hfile : Holds w.fs p es) (hgood : Good es)
    (ht : NoNL t) (hfresh : testID t k ∉ fileLines es)
    (hc : shouldCreate w.env c.update = true)
    (hb : GoodBody s) (hold : ∀ o ∈ es, o.id ∉ lines s) (hself : testID t k ∉ lines s) :
    let r := entryTail w c p rel (testID t k) s cmp
    r.2.events = [.log Generated.go_addedMsg] ∧ r.2.writes = [p] ∧ r.2.removed = [] ∧
    r.2.unsupported = none ∧
    fsRead r.1.fs p = some (render (es ++ [⟨testID t k, s⟩])) ∧
    (∀ q, q ≠ p → fsRead r.1.fs q = fsRead w.fs q) ∧
    r.1.events = { w.events with added := w.events.added + 1 } ∧
    Good (es ++ [⟨testID t k, s⟩]) :=
  entryTail_record w c p rel (testID t k) s cmp es hfile hgood (goodId_testID t k ht) hfresh hc hb
    hold hself

/-- recording "[B - 1]" with the two-line body "x\n\ny" into a file that holds "[A - 1]" -/
example :
    let p : Text := [47, 115]
    let es : List Entry := [⟨testID [65] 1, [120]⟩]
    let w : World := { env := ⟨false, ""⟩, fs := [(p, render es)] }
    let r := entryTail w {} p [115] (testID [66] 1) [120, 10, 10, 121] .escaped
    r.2.events = [.log Generated.go_addedMsg] ∧ r.2.writes = [p] ∧
    fsRead r.1.fs p = some (render (es ++ [⟨testID [66] 1, [120, 10, 10, 121]⟩])) ∧
    r.1.events.added = 1 := by decide +kernel

/-! ## 2. replaying one entry -/

/-- exact result of a replaying call -/
theorem entryTail_replay_eq (w : World) (c : Cfg) (p rel id s : Text) (cmp : Cmp)
    (es : List Entry) (hfile : Holds w.fs p es) (hgood : Good es) (hm : (⟨id, s⟩ : Entry) ∈ es) :
    entryTail w c p rel id s cmp =
      ({ w with events := { w.events with passed := w.events.passed + 1 } }, {}) := by
  obtain ⟨line, hl⟩ := good_lookup_mem hgood hm
  have hq : (fsRead w.fs p).bind (getPrev id) = some (s, line) := by rw [hfile.lookup id]; exact hl
  exact entryTail_found_eq w c p rel id s cmp s line hq rfl

/-- **`entryTail_replay`.**  The file at `p` holds the `Good` entry list `es`, which contains
the entry `⟨id, s⟩`.  Then in EVERY mode (no hypothesis on `w.env`, `c.update`: CI or not, any
UPDATE_SNAPS, any `Update(...)`), for both comparison kinds, the call with text `s` produces no
event, no write, no removal, leaves the file system as it is and counts one `passed`.

No `NoTokLine` hypothesis: for `.raw` both sides are `s`, for `.escaped` both sides are
`unescape s`; the token collision of D10 concerns DIFFERENT texts only. -/
theorem entryTail_replay (w : World) (c : Cfg) (p rel id s : Text) (cmp : Cmp) (es : List Entry)
    (hfile : Holds w.fs p es) (hgood : Good es) (hm : (⟨id, s⟩ : Entry) ∈ es) :
    let r := entryTail w c p rel id s cmp
    r.2.events = [] ∧ r.2.writes = [] ∧ r.2.removed = [] ∧ r.2.unsupported = none ∧
    r.1.fs = w.fs ∧ r.1.events = { w.events with passed := w.events.passed + 1 } := by
  intro r
  have hr : r = _ := entryTail_replay_eq w c p rel id s cmp es hfile hgood hm
  rw [hr]
  exact ⟨rfl, rfl, rfl, rfl, rfl, rfl⟩

/-- replay on CI with `Update(true)` and UPDATE_SNAPS=true of a body that contains the escape
token line (TOK = `[47,45,47,45,47,45,47]`), both comparison kinds -/
example :
    let p : Text := [47, 115]
    let s : Text := [120, 10, 47, 45, 47, 45, 47, 45, 47]
    let es : List Entry := [⟨testID [65] 1, [120]⟩, ⟨testID [65] 2, s⟩]
    let w : World := { env := ⟨true, "true"⟩, fs := [(p, render es)] }
    Good es ∧
    (entryTail w { update := some true } p [115] (testID [65] 2) s .escaped).2.events = [] ∧
    (entryTail w { update := some true } p [115] (testID [65] 2) s .raw).2.events = [] ∧
    (entryTail w { update := some true } p [115] (testID [65] 2) s .raw).1.fs = w.fs := by
  decide +kernel

/-! ## 3. record, then replay -/

/-- **`record_then_replay_call`.**  After a recording call (hypotheses of `entryTail_record`),
ANY world that has the resulting file system — fresh registries, any environment, any config,
any comparison kind — replays the same text at the same header silently. -/
theorem record_then_replay_call (w : World) (c : Cfg) (p rel id s : Text) (cmp : Cmp)
    (es : List Entry) (hfile : Holds w.fs p es) (hgood : Good es)
    (hid : GoodId id) (hfresh : id ∉ fileLines es)
    (hc : shouldCreate w.env c.update = true)
    (hb : GoodBody s) (hold : ∀ o ∈ es, o.id ∉ lines s) (hself : id ∉ lines s)
    (w₂ : World) (hw₂ : w₂.fs = (entryTail w c p rel id s cmp).1.fs)
    (c' : Cfg) (rel' : Text) (cmp' : Cmp) :
    let r := entryTail w₂ c' p rel' id s cmp'
    r.2.events = [] ∧ r.2.writes = [] ∧ r.2.removed = [] ∧ r.2.unsupported = none ∧
    r.1.fs = w₂.fs ∧ r.1.events = { w₂.events with passed := w₂.events.passed + 1 } := by
  obtain ⟨_, _, _, _, hfs, _, _, hg⟩ :=
    entryTail_record w c p rel id s cmp es hfile hgood hid hfresh hc hb hold hself
  refine entryTail_replay w₂ c' p rel' id s cmp' (es ++ [⟨id, s⟩]) ?_ hg (by simp)
  left; rw [hw₂]; exact hfs

example :
    let p : Text := [47, 115]
    let es : List Entry := [⟨testID [65] 1, [120]⟩]
    let w : World := { env := ⟨false, ""⟩, fs := [(p, render es)] }
    let w₁ := (entryTail w {} p [115] (testID [66] 1) [120, 10, 10, 121] .escaped).1
    let r := entryTail { env := ⟨true, "true"⟩, fs := w₁.fs } {} p [115] (testID [66] 1)
      [120, 10, 10, 121] .escaped
    r.2.events = [] ∧ r.2.writes = [] ∧ r.1.fs = w₁.fs := by decide +kernel

/-! ## the same at the level of `matchEntry` (registry included) -/

/-- a recording `matchEntry` call: the header is `[t - (n+1)]` where `n` is the running counter
of `(p, t)` -/
theorem matchEntry_record (w : World) (c : Cfg) (caller t : Text) (x : Nat) (cmp : Cmp)
    (s p rel : Text) (es : List Entry)
    (hsp : snapshotPath c caller t false = (p, some rel))
    (hfile : Holds w.fs p es)
    (hgood : Good (es ++ [⟨testID t (alGet w.running (p, t) + 1), s⟩]))
    (hc : shouldCreate w.env c.update = true) :
    let r := matchEntry w c caller t x cmp (.ok s)
    r.2.events = [.log Generated.go_addedMsg] ∧ r.2.writes = [p] ∧ r.2.removed = [] ∧
    r.2.unsupported = none ∧
    fsRead r.1.fs p = some (render (es ++ [⟨testID t (alGet w.running (p, t) + 1), s⟩])) ∧
    (∀ q, q ≠ p → fsRead r.1.fs q = fsRead w.fs q) ∧ r.1.env = w.env := by
  intro r
  have hr : r = _ := (matchEntry_eq w c caller t x cmp s p rel hsp).trans
    (entryTail_record_eq (bumped w p t x) c p rel _ s cmp es hfile hgood hc)
  rw [hr]
  refine ⟨rfl, rfl, rfl, rfl, C19.fsRead_fsWrite_same _ _ _, ?_, rfl⟩
  intro q hq
  exact C19.fsRead_fsWrite_other _ _ _ _ hq

/-- a replaying `matchEntry` call, any mode -/
theorem matchEntry_replay (w : World) (c : Cfg) (caller t : Text) (x : Nat) (cmp : Cmp)
    (s p rel : Text) (es : List Entry)
    (hsp : snapshotPath c caller t false = (p, some rel))
    (hfile : Holds w.fs p es) (hgood : Good es)
    (hm : (⟨testID t (alGet w.running (p, t) + 1), s⟩ : Entry) ∈ es) :
    let r := matchEntry w c caller t x cmp (.ok s)
    r.2.events = [] ∧ r.2.writes = [] ∧ r.2.removed = [] ∧ r.2.unsupported = none ∧
    r.1.fs = w.fs ∧ r.1.env = w.env := by
  intro r
  have hr : r = _ := (matchEntry_eq w c caller t x cmp s p rel hsp).trans
    (entryTail_replay_eq (bumped w p t x) c p rel _ s cmp es hfile hgood hm)
  rw [hr]
  exact ⟨rfl, rfl, rfl, rfl, rfl, rfl⟩

/-! ## 4. histories

A *history* is what one test process does to ONE multi-entry snapshot file: a list of steps,
each either a `Match*` call `call tName text cmp texec` (test name, snapshot text after
formatting/escaping, comparison kind, number of the `testing.T` it was made on) executed by
`matchEntry`, or `done texec`, the `t.Cleanup` of that `testing.T` executed by `endTest`.
Calls of different tests may be interleaved arbitrarily (parallel tests, sub-tests).

`Scoped`: when a `testing.T` is done, the test names it made calls for make no further calls —
every test function runs once in the process.  (Without it a name that is executed a second time,
e.g. `-count=2`, restarts at ordinal 1 and *compares* instead of recording; histories without any
`done` step are always `Scoped`.) -/

inductive Step
  | call (tName text : Text) (cmp : Cmp) (texec : Nat)
  | done (texec : Nat)
deriving DecidableEq, Repr

/-- one step; returns the outputs of the calls made (none for `done`) -/
def step (c : Cfg) (caller : Text) (w : World) : Step → World × List Out
  | .call t s cmp x =>
    ((matchEntry w c caller t x cmp (.ok s)).1, [(matchEntry w c caller t x cmp (.ok s)).2])
  | .done x => (endTest w x, [])

/-- folding the steps over a world, collecting the outputs of the calls in order -/
def run (c : Cfg) (caller : Text) : World → List Step → World × List Out
  | w, [] => (w, [])
  | w, st :: h =>
    ((run c caller (step c caller w st).1 h).1,
     (step c caller w st).2 ++ (run c caller (step c caller w st).1 h).2)

/-- the record run: fresh registries, file system `fs₀`, environment `env` -/
def recordRun (env : Env) (c : Cfg) (caller : Text) (fs₀ : FS) (h : List Step) : World × List Out :=
  run c caller { env := env, fs := fs₀ } h

/-- the replay run: fresh registries again, the file system the record run left, ANY environment
and config -/
def replayRun (env' : Env) (c' : Cfg) (caller' : Text) (recorded : World) (h : List Step) :
    World × List Out :=
  run c' caller' { env := env', fs := recorded.fs } h

def calledNames : List Step → List Text
  | [] => []
  | .call t _ _ _ :: h => t :: calledNames h
  | .done _ :: h => calledNames h

def texts : List Step → List Text
  | [] => []
  | .call _ s _ _ :: h => s :: texts h
  | .done _ :: h => texts h

/-- the entries a history records, `seen` being the names of the calls made before it: the call
of `t` gets header `[t - (1 + number of earlier calls of t)]` -/
def entriesFrom : List Text → List Step → List Entry
  | _, [] => []
  | seen, .call t s _ _ :: h => ⟨testID t (seen.count t + 1), s⟩ :: entriesFrom (t :: seen) h
  | seen, .done _ :: h => entriesFrom seen h

def entriesOf (h : List Step) : List Entry := entriesFrom [] h

/-- the headers of a history -/
def headers (h : List Step) : List Line := ids (entriesOf h)

/-- `past` = (name, `testing.T`) of the calls made so far -/
def Scoped : List (Text × Nat) → List Step → Prop
  | _, [] => True
  | past, .call t _ _ x :: h => Scoped ((t, x) :: past) h
  | past, .done x :: h => (∀ q ∈ past, q.2 = x → q.1 ∉ calledNames h) ∧ Scoped past h

instance decScoped : ∀ (past : List (Text × Nat)) (h : List Step), Decidable (Scoped past h)
  | _, [] => isTrue trivial
  | past, .call t _ _ x :: h => decScoped ((t, x) :: past) h
  | past, .done x :: h =>
    have := decScoped past h
    inferInstanceAs (Decidable ((∀ q ∈ past, q.2 = x → q.1 ∉ calledNames h) ∧ Scoped past h))

/-- a recording call's output -/
def Added (p : Text) (o : Out) : Prop :=
  o.events = [.log Generated.go_addedMsg] ∧ o.writes = [p] ∧ o.removed = [] ∧ o.unsupported = none

/-- a silently passing call's output -/
def Silent (o : Out) : Prop :=
  o.events = [] ∧ o.writes = [] ∧ o.removed = [] ∧ o.unsupported = none

/-! ### the headers of a history are pairwise distinct, automatically -/

theorem texts_entriesFrom (h : List Step) : ∀ seen, (entriesFrom seen h).map (·.body) = texts h := by
  induction h with
  | nil => intro _; rfl
  | cons st h ih =>
    intro seen
    cases st with
    | call t s cmp x => simp [entriesFrom, texts, ih]
    | done x => simp [entriesFrom, texts, ih]

/-- every header of a history is `[t - k]` for a called name `t` and an ordinal `k` beyond the
calls already seen -/
theorem entriesFrom_ids (h : List Step) : ∀ seen, ∀ e ∈ entriesFrom seen h,
    ∃ t k, e.id = testID t k ∧ seen.count t < k ∧ t ∈ calledNames h := by
  induction h with
  | nil => intro _ e he; simp [entriesFrom] at he
  | cons st h ih =>
    intro seen e he
    cases st with
    | call t s cmp x =>
      simp only [entriesFrom, List.mem_cons] at he
      rcases he with rfl | he
      · exact ⟨t, _, rfl, Nat.lt_succ_self _, by simp [calledNames]⟩
      · obtain ⟨t', k', h1, h2, h3⟩ := ih (t :: seen) e he
        refine ⟨t', k', h1, Nat.lt_of_le_of_lt ?_ h2, by simp [calledNames, h3]⟩
        exact List.count_le_count_cons
    | done x =>
      simp only [entriesFrom] at he
      obtain ⟨t', k', h1, h2, h3⟩ := ih seen e he
      exact ⟨t', k', h1, h2, by simpa [calledNames] using h3⟩

/-- **the headers of a history are pairwise distinct** (`C03.header_injective` + the ordinals) -/
theorem entriesFrom_nodup (h : List Step) : ∀ seen, (ids (entriesFrom seen h)).Nodup := by
  induction h with
  | nil => intro _; simp [entriesFrom, ids]
  | cons st h ih =>
    intro seen
    cases st with
    | call t s cmp x =>
      simp only [entriesFrom, ids, List.map_cons, List.nodup_cons]
      refine ⟨?_, ih (t :: seen)⟩
      intro hm
      obtain ⟨e, he, heq⟩ := List.mem_map.mp hm
      obtain ⟨t', k', h1, h2, _⟩ := entriesFrom_ids h (t :: seen) e he
      rw [h1] at heq
      obtain ⟨rfl, rfl⟩ := C03.header_injective _ _ _ _ heq
      simp at h2
    | done x => simpa [entriesFrom] using ih seen

theorem headers_nodup (h : List Step) : (headers h).Nodup := entriesFrom_nodup h []

/-- the NoShadow package for a history: the initial file is `Good` and contains none of the
history's headers; the test names have no newline; the texts are usable bodies; no line of a text
equals a header in play.  Then the file with all the history's entries is `Good`. -/
theorem good_history (es₀ : List Entry) (h : List Step) (hgood : Good es₀)
    (hfresh : ∀ id ∈ headers h, id ∉ fileLines es₀)
    (hnames : ∀ t ∈ calledNames h, NoNL t)
    (hbodies : ∀ s ∈ texts h, GoodBody s)
    (hns : ∀ s ∈ texts h, ∀ id ∈ ids es₀ ++ headers h, id ∉ lines s) :
    Good (es₀ ++ entriesOf h) := by
  have hid : ∀ e ∈ entriesOf h, e.id ∈ headers h := fun e he => List.mem_map.mpr ⟨e, he, rfl⟩
  have hbody : ∀ e ∈ entriesOf h, e.body ∈ texts h := fun e he => by
    rw [← texts_entriesFrom h []]; exact List.mem_map.mpr ⟨e, he, rfl⟩
  refine ⟨⟨?_, ?_⟩, ?_⟩
  · intro e he
    rcases List.mem_append.mp he with he | he
    · exact hgood.1.1 e he
    · obtain ⟨t, k, h1, _, h3⟩ := entriesFrom_ids h [] e he
      exact ⟨h1 ▸ goodId_testID t k (hnames t h3), hbodies _ (hbody e he)⟩
  · intro e he o ho
    rcases List.mem_append.mp he with he | he
    · rcases List.mem_append.mp ho with ho | ho
      · exact hgood.1.2 e he o ho
      · intro hm
        exact hfresh o.id (hid o ho) ((mem_fileLines _ _).mpr
          ⟨e, he, (mem_entryLines _ _).mpr (Or.inr (Or.inr (Or.inl hm)))⟩)
    · apply hns _ (hbody e he)
      rcases List.mem_append.mp ho with ho | ho
      · exact List.mem_append.mpr (Or.inl (List.mem_map.mpr ⟨o, ho, rfl⟩))
      · exact List.mem_append.mpr (Or.inr (hid o ho))
  · simp only [ids, List.map_append]
    rw [List.nodup_append]
    refine ⟨hgood.2, headers_nodup h, ?_⟩
    intro a ha b hb hab
    subst hab
    exact hfresh a hb (ids_subset_fileLines es₀ a ha)

/-! ### the registry invariant of a run -/

/-- the running counter of every name still to be called is the number of calls made so far, and
every pending cleanup belongs to a call made so far -/
structure Inv (p : Text) (w : World) (past : List (Text × Nat)) (h : List Step) : Prop where
  ord : ∀ t ∈ calledNames h, alGet w.running (p, t) = (past.map Prod.fst).count t
  pend : ∀ x k, (x, Pending.reg k) ∈ w.pending → ∃ t, k = (p, t) ∧ (t, x) ∈ past

theorem Inv.fresh (p : Text) (env : Env) (fs : FS) (h : List Step) :
    Inv p { env := env, fs := fs } [] h :=
  ⟨fun _ _ => rfl, fun _ _ hm => by simp at hm⟩

theorem Inv.call {p : Text} {w : World} {past : List (Text × Nat)} {h : List Step}
    {t s : Text} {cmp : Cmp} {x : Nat} (hi : Inv p w past (.call t s cmp x :: h))
    (c : Cfg) (caller : Text) (rel? : Option Text)
    (hsp : snapshotPath c caller t false = (p, rel?)) :
    Inv p (matchEntry w c caller t x cmp (.ok s)).1 ((t, x) :: past) h := by
  obtain ⟨h1, _, h3⟩ := matchEntry_regs w c caller t x cmp (.ok s)
  simp only [hsp] at h1 h3
  constructor
  · intro t' ht'
    rw [h1]
    by_cases hcase : t' = t
    · subst hcase
      rw [regBump_running_same, hi.ord t' (by simp [calledNames])]
      simp
    · have hk : (p, t') ≠ (p, t) := fun e => hcase (Prod.mk.inj e).2
      rw [regBump_running_other w _ _ hk, hi.ord t' (by simp [calledNames, ht'])]
      simp [Ne.symm hcase]
  · intro x' k hm
    rw [h3] at hm
    rcases List.mem_cons.mp hm with heq | hm
    · obtain ⟨rfl, hk⟩ := Prod.mk.inj heq
      exact ⟨t, Pending.reg.inj hk, by simp⟩
    · obtain ⟨t', hk, hp⟩ := hi.pend x' k hm
      exact ⟨t', hk, by simp [hp]⟩

theorem Inv.done {p : Text} {w : World} {past : List (Text × Nat)} {h : List Step} {x : Nat}
    (hi : Inv p w past (.done x :: h)) (hs : ∀ q ∈ past, q.2 = x → q.1 ∉ calledNames h) :
    Inv p (endTest w x) past h := by
  constructor
  · intro t ht
    rw [endTest_running]
    split
    · rename_i hm
      obtain ⟨t', hk, hp⟩ := hi.pend x _ hm
      obtain ⟨_, rfl⟩ := Prod.mk.inj hk
      exact absurd ht (hs (t, x) hp rfl)
    · exact hi.ord t (by simpa [calledNames] using ht)
  · intro x' k hm
    rw [endTest_pending] at hm
    exact hi.pend x' k (List.mem_filter.mp hm).1

/-! ### the two runs -/

/-- **the record run**, from any world satisfying the registry invariant: every call logs
"added" and writes `p`, and the file ends up holding the old entries followed by the history's -/
theorem record_run (c : Cfg) (caller p rel : Text)
    (hsp : ∀ t, snapshotPath c caller t false = (p, some rel)) (h : List Step) :
    ∀ (w : World) (past : List (Text × Nat)) (es : List Entry),
      Inv p w past h → Scoped past h → Holds w.fs p es →
      Good (es ++ entriesFrom (past.map Prod.fst) h) →
      shouldCreate w.env c.update = true →
      Holds (run c caller w h).1.fs p (es ++ entriesFrom (past.map Prod.fst) h) ∧
      (∀ o ∈ (run c caller w h).2, Added p o) ∧
      (∀ q, q ≠ p → fsRead (run c caller w h).1.fs q = fsRead w.fs q) ∧
      (run c caller w h).2.length = (calledNames h).length ∧
      (run c caller w h).1.env = w.env := by
  induction h with
  | nil =>
    intro w past es _ _ hfile _ _
    simp [entriesFrom, run, calledNames, hfile]
  | cons st h ih =>
    intro w past es hi hs hfile hgood hc
    cases st with
    | call t s cmp x =>
      have hn : alGet w.running (p, t) = (past.map Prod.fst).count t :=
        hi.ord t (by simp [calledNames])
      simp only [entriesFrom] at hgood ⊢
      have hgood' : Good ((es ++ [⟨testID t ((past.map Prod.fst).count t + 1), s⟩]) ++
          entriesFrom (t :: past.map Prod.fst) h) := by simpa using hgood
      have hg1 := good_prefix hgood'
      obtain ⟨e1, e2, e3, e4, e5, e6, e7⟩ := matchEntry_record w c caller t x cmp s p rel es
        (hsp t) hfile (by rw [hn]; exact hg1) hc
      rw [hn] at e5
      obtain ⟨r1, r2, r3, r4, r5⟩ := ih (matchEntry w c caller t x cmp (.ok s)).1 ((t, x) :: past) _
        (hi.call c caller _ (hsp t)) hs (Or.inl e5) hgood' (by rw [e7]; exact hc)
      simp only [run, step]
      refine ⟨by simpa using r1, ?_, ?_, ?_, r5.trans e7⟩
      · intro o ho
        rcases List.mem_append.mp ho with ho | ho
        · rw [List.mem_singleton.mp ho]; exact ⟨e1, e2, e3, e4⟩
        · exact r2 o ho
      · intro q hq; rw [r3 q hq, e6 q hq]
      · simp [calledNames, r4]
    | done x =>
      simp only [entriesFrom] at hgood ⊢
      obtain ⟨r1, r2, r3, r4, r5⟩ := ih (endTest w x) past es (hi.done hs.1) hs.2
        (by rw [endTest_fs]; exact hfile) hgood (by rw [endTest_env]; exact hc)
      simp only [run, step, List.nil_append]
      rw [endTest_fs] at r3
      exact ⟨r1, r2, r3, by simpa [calledNames] using r4, r5.trans (endTest_env w x)⟩

/-- **the replay run**, from any world satisfying the registry invariant, in ANY mode: if the
file holds a `Good` entry list containing all the history's entries, every call is silent and the
file system is never touched -/
theorem replay_run (c : Cfg) (caller p rel : Text)
    (hsp : ∀ t, snapshotPath c caller t false = (p, some rel)) (esAll : List Entry)
    (hgood : Good esAll) (h : List Step) :
    ∀ (w : World) (past : List (Text × Nat)),
      Inv p w past h → Scoped past h → Holds w.fs p esAll →
      (∀ e ∈ entriesFrom (past.map Prod.fst) h, e ∈ esAll) →
      (run c caller w h).1.fs = w.fs ∧
      (∀ o ∈ (run c caller w h).2, Silent o) ∧
      (run c caller w h).2.length = (calledNames h).length := by
  induction h with
  | nil => intro w past _ _ _ _; simp [run, calledNames]
  | cons st h ih =>
    intro w past hi hs hfile hall
    cases st with
    | call t s cmp x =>
      have hn : alGet w.running (p, t) = (past.map Prod.fst).count t :=
        hi.ord t (by simp [calledNames])
      simp only [entriesFrom] at hall
      obtain ⟨e1, e2, e3, e4, e5, _⟩ := matchEntry_replay w c caller t x cmp s p rel esAll
        (hsp t) hfile hgood (by rw [hn]; exact hall _ (by simp))
      obtain ⟨r1, r2, r3⟩ := ih (matchEntry w c caller t x cmp (.ok s)).1 ((t, x) :: past)
        (hi.call c caller _ (hsp t)) hs (by rw [e5]; exact hfile)
        (fun e he => hall e (List.mem_cons_of_mem _ he))
      simp only [run, step]
      refine ⟨r1.trans e5, ?_, by simp [calledNames, r3]⟩
      intro o ho
      rcases List.mem_append.mp ho with ho | ho
      · rw [List.mem_singleton.mp ho]; exact ⟨e1, e2, e3, e4⟩
      · exact r2 o ho
    | done x =>
      simp only [entriesFrom] at hall
      obtain ⟨r1, r2, r3⟩ := ih (endTest w x) past (hi.done hs.1) hs.2
        (by rw [endTest_fs]; exact hfile) hall
      simp only [run, step, List.nil_append]
      exact ⟨r1.trans (endTest_fs w x), r2, by simpa [calledNames] using r3⟩

/-- **`replay_history`** (main theorem).

Fix the snapshot file `p` of the test file `caller` under config `c` (the path does not depend on
the test name: `snapshotPath_name_indep`), and let the replaying process use any config `c'` /
caller `caller'` that addresses the same file.  Let `h` be a `Scoped` history.  Assume

* the initial file state at `p` is a `Good` entry list `es₀` (or the file does not exist),
* it contains none of the history's headers (on no line),
* test names have no newline, all texts are usable bodies (`GoodBody`: escaped, no line ends in
  "\r"), and no line of a text equals a header in play — of the initial file or of the history
  (NoShadow; known finding D9 otherwise),
* the record run is in a creating mode.

(The history's headers are pairwise distinct automatically: `headers_nodup`.)  Then

1. every call of the record run logs "added", writes `p` only, and the file ends as
   `render (es₀ ++ entriesOf h)`; no other path changes;
2. every call of the replay run — fresh registries, ANY environment and `Update` option —
   yields no event, no write, no removal;
3. the file system after the replay run EQUALS the one after the record run;
4. both runs made one output per call. -/
theorem replay_history (env env' : Env) (c c' : Cfg) (caller caller' p rel rel' : Text)
    (fs₀ : FS) (es₀ : List Entry) (h : List Step)
    (hsp : ∀ t, snapshotPath c caller t false = (p, some rel))
    (hsp' : ∀ t, snapshotPath c' caller' t false = (p, some rel'))
    (hscoped : Scoped [] h)
    (hfile : Holds fs₀ p es₀) (hgood : Good es₀)
    (hfresh : ∀ id ∈ headers h, id ∉ fileLines es₀)
    (hnames : ∀ t ∈ calledNames h, NoNL t)
    (hbodies : ∀ s ∈ texts h, GoodBody s)
    (hns : ∀ s ∈ texts h, ∀ id ∈ ids es₀ ++ headers h, id ∉ lines s)
    (hcreate : shouldCreate env c.update = true) :
    let rcd := recordRun env c caller fs₀ h
    let rep := replayRun env' c' caller' rcd.1 h
    (∀ o ∈ rcd.2, Added p o) ∧
    Holds rcd.1.fs p (es₀ ++ entriesOf h) ∧ Good (es₀ ++ entriesOf h) ∧
    (∀ q, q ≠ p → fsRead rcd.1.fs q = fsRead fs₀ q) ∧
    (∀ o ∈ rep.2, Silent o) ∧
    rep.1.fs = rcd.1.fs ∧
    rcd.2.length = (calledNames h).length ∧ rep.2.length = (calledNames h).length := by
  have hg : Good (es₀ ++ entriesOf h) := good_history es₀ h hgood hfresh hnames hbodies hns
  obtain ⟨r1, r2, r3, r4, _⟩ := record_run c caller p rel hsp h { env := env, fs := fs₀ } [] es₀
    (Inv.fresh p env fs₀ h) hscoped hfile hg hcreate
  obtain ⟨q1, q2, q3⟩ := replay_run c' caller' p rel' hsp' (es₀ ++ entriesOf h) hg h
    { env := env', fs := (recordRun env c caller fs₀ h).1.fs } [] (Inv.fresh p env' _ h) hscoped r1
    (fun e he => List.mem_append.mpr (Or.inr he))
  exact ⟨r2, r1, hg, r3, q2, q1, r4, q3⟩

/-- the snapshot file of a multi-entry call does not depend on the test name, so the path
hypotheses of `replay_history` need to be checked for one name only -/
theorem snapshotPath_name_indep (c : Cfg) (caller t t' : Text) :
    snapshotPath c caller t false = snapshotPath c caller t' false := by
  simp [snapshotPath, constructFilename]

/-- a history without `done` steps is always `Scoped` -/
theorem scoped_of_no_done (h : List Step) (hnd : ∀ x, Step.done x ∉ h) :
    ∀ past, Scoped past h := by
  induction h with
  | nil => intro _; trivial
  | cons st h ih =>
    intro past
    cases st with
    | call t s cmp x => exact ih (fun x hx => hnd x (by simp [hx])) _
    | done x => exact absurd (by simp) (hnd x)

/-- **single test, `n` calls** (corollary): the `k`-th call gets header `[t - k]` -/
theorem entriesOf_single (t : Text) (x : Nat) (calls : List (Text × Cmp)) :
    ∀ seenCount : Nat, ∀ seen : List Text, seen.count t = seenCount →
    ids (entriesFrom seen (calls.map fun sc => Step.call t sc.1 sc.2 x)) =
      (List.range calls.length).map (fun i => testID t (seenCount + i + 1)) := by
  induction calls with
  | nil => intro _ _ _; rfl
  | cons sc calls ih =>
    intro n seen hn
    simp only [List.map_cons, entriesFrom, ids, List.length_cons, List.range_succ_eq_map,
      List.map_map, hn]
    have := ih (n + 1) (t :: seen) (by simp [hn])
    simp only [ids] at this
    rw [this]
    simp only [List.cons.injEq, List.map_inj_left, Function.comp_apply, Nat.add_zero, true_and]
    intro i _
    congr 1; omega

/-- a single test making `n` calls on one `testing.T`: the headers are `[t - 1]`, …, `[t - n]` -/
theorem headers_single (t : Text) (x : Nat) (calls : List (Text × Cmp)) :
    headers (calls.map fun sc => Step.call t sc.1 sc.2 x) =
      (List.range calls.length).map (fun i => testID t (i + 1)) := by
  have := entriesOf_single t x calls 0 [] rfl
  simpa [headers, entriesOf] using this

example : headers ([([120], Cmp.raw), ([121], Cmp.escaped), ([122], Cmp.raw)].map
    fun sc => Step.call [84] sc.1 sc.2 7) = [testID [84] 1, testID [84] 2, testID [84] 3] := by
  decide +kernel

/-! ### a concrete history

Two tests "A" and "B" on the file of "/t/a_test.go": A records "x" and "x\n\ny", B (a parallel
test, interleaved) records "z"; A's `testing.T` (number 1) finishes before B's last call. -/

def exCaller : Text := [47, 116, 47, 97, 95, 116, 101, 115, 116, 46, 103, 111]
def exPath : Text :=
  [47, 116, 47, 95, 95, 115, 110, 97, 112, 115, 104, 111, 116, 115, 95, 95, 47,
   97, 95, 116, 101, 115, 116, 46, 115, 110, 97, 112]
def exRel : Text :=
  [95, 95, 115, 110, 97, 112, 115, 104, 111, 116, 115, 95, 95, 47,
   97, 95, 116, 101, 115, 116, 46, 115, 110, 97, 112]
def exHistory : List Step :=
  [.call [65] [120] .escaped 1, .call [66] [122] .raw 2, .call [65] [120, 10, 10, 121] .escaped 1,
   .done 1, .call [66] [122, 122] .raw 2, .done 2]

example : snapshotPath {} exCaller [65] false = (exPath, some exRel) := by decide +kernel

example : entriesOf exHistory =
    [⟨testID [65] 1, [120]⟩, ⟨testID [66] 1, [122]⟩, ⟨testID [65] 2, [120, 10, 10, 121]⟩,
     ⟨testID [66] 2, [122, 122]⟩] := by decide +kernel

/-- the hypotheses of `replay_history` hold for the example (initial file absent) … -/
example : Scoped [] exHistory ∧ Holds [] exPath [] ∧ Good [] ∧
    (∀ id ∈ headers exHistory, id ∉ fileLines []) ∧ (∀ t ∈ calledNames exHistory, NoNL t) ∧
    (∀ s ∈ texts exHistory, GoodBody s) ∧
    (∀ s ∈ texts exHistory, ∀ id ∈ ids [] ++ headers exHistory, id ∉ lines s) ∧
    shouldCreate ⟨false, ""⟩ ({} : Cfg).update = true :=
  ⟨by decide +kernel, Or.inr ⟨rfl, rfl⟩, by decide, by decide +kernel, by decide +kernel,
   by decide +kernel, by decide +kernel, by decide⟩

theorem exPath_spec (t : Text) : snapshotPath {} exCaller t false = (exPath, some exRel) := by
  rw [snapshotPath_name_indep {} exCaller t [65]]; decide +kernel

/-- … so the theorem applies (replay on CI with UPDATE_SNAPS=true) … -/
example := replay_history ⟨false, ""⟩ ⟨true, "true"⟩ {} {} exCaller exCaller exPath exRel exRel
  [] [] exHistory exPath_spec exPath_spec (by decide +kernel) (Or.inr ⟨rfl, rfl⟩) (by decide)
  (by decide +kernel) (by decide +kernel) (by decide +kernel) (by decide +kernel) (by decide)

/-- … and this is what the two runs do, by evaluation -/
example :
    let rcd := recordRun ⟨false, ""⟩ {} exCaller [] exHistory
    let rep := replayRun ⟨true, "true"⟩ {} exCaller rcd.1 exHistory
    rcd.2.map (·.events) = List.replicate 4 [.log Generated.go_addedMsg] ∧
    fsRead rcd.1.fs exPath = some (render (entriesOf exHistory)) ∧
    rep.2.map (·.events) = List.replicate 4 [] ∧ rep.2.map (·.writes) = List.replicate 4 [] ∧
    rep.1.fs = rcd.1.fs := by decide +kernel

/-- `Scoped` is needed: a name that runs again after its `testing.T` is done restarts at
ordinal 1, so the "record" run compares "y" with the recorded "x" instead of recording -/
example :
    let h : List Step := [.call [65] [120] .raw 1, .done 1, .call [65] [121] .raw 2]
    ¬ Scoped [] h ∧
    (recordRun ⟨false, ""⟩ {} exCaller [] h).2.map (·.writes) = [[exPath], []] ∧
    (recordRun ⟨false, ""⟩ {} exCaller [] h).1.events = { added := 1, erred := 1 } := by
  decide +kernel

/-- the NoShadow hypothesis `hns` is needed (known finding D9): test A records the text
"[B - 1]"; B's first call then finds that LINE, takes it for its header and compares instead of
recording -/
example :
    let h : List Step := [.call [65] (testID [66] 1) .raw 1, .call [66] [122] .raw 2]
    Scoped [] h ∧ (∀ s ∈ texts h, GoodBody s) ∧
    ¬ (∀ s ∈ texts h, ∀ id ∈ ids [] ++ headers h, id ∉ lines s) ∧
    (recordRun ⟨false, ""⟩ {} exCaller [] h).2.map (·.writes) = [[exPath], []] ∧
    (recordRun ⟨false, ""⟩ {} exCaller [] h).1.events = { added := 1, erred := 1 } := by
  decide +kernel

/-! ## 5. standalone snapshots: histories (`standalone_replay_history`)

`MatchStandaloneSnapshot` keeps one FILE per call: test `t` has the generic path `G t`
(".../t_%d.snap", `snapshotPath … true`), its `n`-th call uses the numbered path
`P (G t) n = Sprintf(G t, n)`; the registry counts per generic path.  The two facts about
`fmt.Sprintf` on the generic paths in play — it succeeds, and different (generic, ordinal) pairs
give different paths — are hypotheses (`SPaths`), checked by evaluation on the example; they
fail for exotic directory or test names containing "%". -/

inductive SStep
  | call (tName text : Text) (texec : Nat)
  | done (texec : Nat)
deriving DecidableEq, Repr

def sstep (c : Cfg) (caller : Text) (w : World) : SStep → World × List Out
  | .call t s x =>
    ((matchStandalone w c caller t x (.ok s)).1, [(matchStandalone w c caller t x (.ok s)).2])
  | .done x => (endTest w x, [])

def srun (c : Cfg) (caller : Text) : World → List SStep → World × List Out
  | w, [] => (w, [])
  | w, st :: h =>
    ((srun c caller (sstep c caller w st).1 h).1,
     (sstep c caller w st).2 ++ (srun c caller (sstep c caller w st).1 h).2)

def scalledNames : List SStep → List Text
  | [] => []
  | .call t _ _ :: h => t :: scalledNames h
  | .done _ :: h => scalledNames h

/-- the (path, contents) pairs a standalone history records; `seen` = generic paths of the calls
made before it -/
def filesFrom (G : Text → Text) (P : Text → Nat → Text) : List Text → List SStep → List (Text × Text)
  | _, [] => []
  | seen, .call t s _ :: h =>
    (P (G t) (seen.count (G t) + 1), s) :: filesFrom G P (G t :: seen) h
  | seen, .done _ :: h => filesFrom G P seen h

/-- `past` = (generic path, `testing.T`) of the calls made so far; when a `testing.T` is done, no
later call uses a generic path it used -/
def SScoped (G : Text → Text) : List (Text × Nat) → List SStep → Prop
  | _, [] => True
  | past, .call t _ x :: h => SScoped G ((G t, x) :: past) h
  | past, .done x :: h =>
    (∀ q ∈ past, q.2 = x → ∀ t ∈ scalledNames h, G t ≠ q.1) ∧ SScoped G past h

instance decSScoped (G : Text → Text) :
    ∀ (past : List (Text × Nat)) (h : List SStep), Decidable (SScoped G past h)
  | _, [] => isTrue trivial
  | past, .call t _ x :: h => decSScoped G ((G t, x) :: past) h
  | past, .done x :: h =>
    have := decSScoped G past h
    inferInstanceAs (Decidable
      ((∀ q ∈ past, q.2 = x → ∀ t ∈ scalledNames h, G t ≠ q.1) ∧ SScoped G past h))

/-- what is assumed about paths: `snapshotPath` and `Sprintf` succeed on the names in play, and
numbered paths determine (generic path, ordinal) -/
structure SPaths (c : Cfg) (caller : Text) (G : Text → Text) (P : Text → Nat → Text)
    (names : List Text) : Prop where
  generic : ∀ t ∈ names, ∃ grel, snapshotPath c caller t true = (G t, some grel) ∧
    ∀ n, ∃ rel, sprintf grel [.d n] = some rel
  numbered : ∀ t ∈ names, ∀ n, sprintf (G t) [.d n] = some (P (G t) n)

def PInj (G : Text → Text) (P : Text → Nat → Text) (names : List Text) : Prop :=
  ∀ t ∈ names, ∀ t' ∈ names, ∀ n n', P (G t) n = P (G t') n' → G t = G t' ∧ n = n'

theorem filesFrom_paths (G : Text → Text) (P : Text → Nat → Text) (h : List SStep) :
    ∀ seen, ∀ f ∈ filesFrom G P seen h,
      ∃ t k, f.1 = P (G t) k ∧ seen.count (G t) < k ∧ t ∈ scalledNames h := by
  induction h with
  | nil => intro _ f hf; simp [filesFrom] at hf
  | cons st h ih =>
    intro seen f hf
    cases st with
    | call t s x =>
      simp only [filesFrom, List.mem_cons] at hf
      rcases hf with rfl | hf
      · exact ⟨t, _, rfl, Nat.lt_succ_self _, by simp [scalledNames]⟩
      · obtain ⟨t', k', h1, h2, h3⟩ := ih (G t :: seen) f hf
        refine ⟨t', k', h1, Nat.lt_of_le_of_lt ?_ h2, by simp [scalledNames, h3]⟩
        exact List.count_le_count_cons
    | done x =>
      simp only [filesFrom] at hf
      obtain ⟨t', k', h1, h2, h3⟩ := ih seen f hf
      exact ⟨t', k', h1, h2, by simpa [scalledNames] using h3⟩

/-- the path of a call differs from the paths of all later calls -/
theorem filesFrom_head_ne (G : Text → Text) (P : Text → Nat → Text) (names : List Text)
    (hinj : PInj G P names) (t : Text) (ht : t ∈ names) (seen : List Text) (h : List SStep)
    (hsub : ∀ t' ∈ scalledNames h, t' ∈ names) :
    ∀ f ∈ filesFrom G P (G t :: seen) h, f.1 ≠ P (G t) (seen.count (G t) + 1) := by
  intro f hf heq
  obtain ⟨t', k', h1, h2, h3⟩ := filesFrom_paths G P h (G t :: seen) f hf
  rw [h1] at heq
  obtain ⟨hg, hk⟩ := hinj t' (hsub t' h3) t ht _ _ heq
  rw [hg, hk] at h2
  simp at h2

structure SInv (G : Text → Text) (w : World) (past : List (Text × Nat)) (h : List SStep) : Prop where
  ord : ∀ t ∈ scalledNames h, alGet w.srunning (G t) = (past.map Prod.fst).count (G t)
  pend : ∀ x g, (x, Pending.sreg g) ∈ w.pending → (g, x) ∈ past

theorem SInv.fresh (G : Text → Text) (env : Env) (fs : FS) (h : List SStep) :
    SInv G { env := env, fs := fs } [] h :=
  ⟨fun _ _ => rfl, fun _ _ hm => by simp at hm⟩

theorem SInv.call {G : Text → Text} {w : World} {past : List (Text × Nat)} {h : List SStep}
    {t s : Text} {x : Nat} (hi : SInv G w past (.call t s x :: h))
    (c : Cfg) (caller : Text) (rel? : Option Text)
    (hsp : snapshotPath c caller t true = (G t, rel?)) :
    SInv G (matchStandalone w c caller t x (.ok s)).1 ((G t, x) :: past) h := by
  obtain ⟨h1, _, h3⟩ := matchStandalone_regs w c caller t x (.ok s)
  simp only [hsp] at h1 h3
  constructor
  · intro t' ht'
    rw [h1]
    simp only [sregBump, alGet_alSet, List.map_cons, List.count_cons]
    by_cases hcase : G t' = G t
    · rw [hcase, hi.ord t (by simp [scalledNames])]; simp
    · rw [hi.ord t' (by simp [scalledNames, ht'])]
      simp [hcase, Ne.symm hcase]
  · intro x' g hm
    rw [h3] at hm
    rcases List.mem_cons.mp hm with heq | hm
    · obtain ⟨rfl, hk⟩ := Prod.mk.inj heq
      rw [Pending.sreg.inj hk]; simp
    · simp [hi.pend x' g hm]

theorem SInv.done {G : Text → Text} {w : World} {past : List (Text × Nat)} {h : List SStep}
    {x : Nat} (hi : SInv G w past (.done x :: h))
    (hs : ∀ q ∈ past, q.2 = x → ∀ t ∈ scalledNames h, G t ≠ q.1) :
    SInv G (endTest w x) past h := by
  constructor
  · intro t ht
    rw [endTest_srunning]
    split
    · rename_i hm
      exact absurd rfl (hs (G t, x) (hi.pend x _ hm) rfl t ht)
    · exact hi.ord t (by simpa [scalledNames] using ht)
  · intro x' g hm
    rw [endTest_pending] at hm
    exact hi.pend x' g (List.mem_filter.mp hm).1

/-- the standalone record run -/
theorem srecord_run (c : Cfg) (caller : Text) (G : Text → Text) (P : Text → Nat → Text)
    (names : List Text) (hpaths : SPaths c caller G P names) (hinj : PInj G P names)
    (h : List SStep) :
    ∀ (w : World) (past : List (Text × Nat)),
      (∀ t ∈ scalledNames h, t ∈ names) →
      SInv G w past h → SScoped G past h →
      (∀ f ∈ filesFrom G P (past.map Prod.fst) h, fsRead w.fs f.1 = none) →
      shouldCreate w.env c.update = true →
      (∀ f ∈ filesFrom G P (past.map Prod.fst) h, fsRead (srun c caller w h).1.fs f.1 = some f.2) ∧
      (∀ q, (∀ f ∈ filesFrom G P (past.map Prod.fst) h, f.1 ≠ q) →
        fsRead (srun c caller w h).1.fs q = fsRead w.fs q) ∧
      (srun c caller w h).2.map (·.events) =
        (filesFrom G P (past.map Prod.fst) h).map (fun _ => [.log Generated.go_addedMsg]) ∧
      (srun c caller w h).2.map (·.writes) =
        (filesFrom G P (past.map Prod.fst) h).map (fun f => [f.1]) ∧
      (srun c caller w h).1.env = w.env := by
  induction h with
  | nil => intro w past _ _ _ _ _; simp [filesFrom, srun]
  | cons st h ih =>
    intro w past hsub hi hs hnone hc
    cases st with
    | call t s x =>
      have ht : t ∈ names := hsub t (by simp [scalledNames])
      have hsub' : ∀ t' ∈ scalledNames h, t' ∈ names :=
        fun t' ht' => hsub t' (by simp [scalledNames, ht'])
      have hn : alGet w.srunning (G t) = (past.map Prod.fst).count (G t) :=
        hi.ord t (by simp [scalledNames])
      obtain ⟨grel, hsp, hrel⟩ := hpaths.generic t ht
      obtain ⟨rel, hrel⟩ := hrel (alGet w.srunning (G t) + 1)
      have hm := matchStandalone_eq w c caller t x s (G t) grel _ rel hsp
        (hpaths.numbered t ht _) hrel
      rw [hn] at hm
      simp only [filesFrom] at hnone ⊢
      have hne := filesFrom_head_ne G P names hinj t ht (past.map Prod.fst) h hsub'
      have hhead : fsRead w.fs (P (G t) ((past.map Prod.fst).count (G t) + 1)) = none :=
        hnone (P (G t) ((past.map Prod.fst).count (G t) + 1), s) (by simp)
      rw [standaloneTail_create_eq (sbumped w (G t) x) c _ rel s hhead hc] at hm
      obtain ⟨r1, r2, r3, r4, r5⟩ := ih (matchStandalone w c caller t x (.ok s)).1
        ((G t, x) :: past) hsub' (hi.call c caller _ hsp) hs
        (by
          intro f hf
          rw [hm]
          show fsRead (fsWrite w.fs _ s) f.1 = none
          rw [C19.fsRead_fsWrite_other _ _ _ _ (hne f hf)]
          exact hnone f (List.mem_cons_of_mem _ hf))
        (by rw [hm]; exact hc)
      simp only [srun, sstep, List.map_append, List.map_cons, List.map_nil]
      refine ⟨?_, ?_, ?_, ?_, ?_⟩
      · intro f hf
        rcases List.mem_cons.mp hf with rfl | hf
        · rw [r2 _ hne, hm]
          exact C19.fsRead_fsWrite_same _ _ _
        · exact r1 f hf
      · intro q hq
        rw [r2 q (fun f hf => hq f (List.mem_cons_of_mem _ hf)), hm]
        exact C19.fsRead_fsWrite_other _ _ _ _
          (Ne.symm (hq (P (G t) ((past.map Prod.fst).count (G t) + 1), s) (by simp)))
      · rw [r3, hm]; rfl
      · rw [r4, hm]; rfl
      · rw [r5, hm]; rfl
    | done x =>
      simp only [filesFrom] at hnone ⊢
      obtain ⟨r1, r2, r3, r4, r5⟩ := ih (endTest w x) past
        (fun t' ht' => hsub t' (by simpa [scalledNames] using ht')) (hi.done hs.1) hs.2
        (by rw [endTest_fs]; exact hnone) (by rw [endTest_env]; exact hc)
      simp only [srun, sstep, List.nil_append]
      rw [endTest_fs] at r2
      exact ⟨r1, r2, r3, r4, r5.trans (endTest_env w x)⟩

/-- the standalone replay run, ANY mode -/
theorem sreplay_run (c : Cfg) (caller : Text) (G : Text → Text) (P : Text → Nat → Text)
    (names : List Text) (hpaths : SPaths c caller G P names) (h : List SStep) :
    ∀ (w : World) (past : List (Text × Nat)),
      (∀ t ∈ scalledNames h, t ∈ names) →
      SInv G w past h → SScoped G past h →
      (∀ f ∈ filesFrom G P (past.map Prod.fst) h, fsRead w.fs f.1 = some f.2) →
      (srun c caller w h).1.fs = w.fs ∧
      (∀ o ∈ (srun c caller w h).2, Silent o) ∧
      (srun c caller w h).2.length = (scalledNames h).length := by
  induction h with
  | nil => intro w past _ _ _ _; simp [srun, scalledNames]
  | cons st h ih =>
    intro w past hsub hi hs hall
    cases st with
    | call t s x =>
      have ht : t ∈ names := hsub t (by simp [scalledNames])
      have hn : alGet w.srunning (G t) = (past.map Prod.fst).count (G t) :=
        hi.ord t (by simp [scalledNames])
      obtain ⟨grel, hsp, hrel⟩ := hpaths.generic t ht
      obtain ⟨rel, hrel⟩ := hrel (alGet w.srunning (G t) + 1)
      have hm := matchStandalone_eq w c caller t x s (G t) grel _ rel hsp
        (hpaths.numbered t ht _) hrel
      rw [hn] at hm
      simp only [filesFrom] at hall
      have hhead : fsRead w.fs (P (G t) ((past.map Prod.fst).count (G t) + 1)) = some s :=
        hall (P (G t) ((past.map Prod.fst).count (G t) + 1), s) (by simp)
      rw [standaloneTail_replay_eq (sbumped w (G t) x) c _ rel s hhead] at hm
      obtain ⟨r1, r2, r3⟩ := ih (matchStandalone w c caller t x (.ok s)).1 ((G t, x) :: past)
        (fun t' ht' => hsub t' (by simp [scalledNames, ht'])) (hi.call c caller _ hsp) hs
        (by
          intro f hf
          rw [hm]
          exact hall f (List.mem_cons_of_mem _ hf))
      simp only [srun, sstep]
      refine ⟨by rw [r1, hm]; rfl, ?_, by simp [scalledNames, r3]⟩
      intro o ho
      rcases List.mem_append.mp ho with ho | ho
      · rw [List.mem_singleton.mp ho, hm]; exact ⟨rfl, rfl, rfl, rfl⟩
      · exact r2 o ho
    | done x =>
      simp only [filesFrom] at hall
      obtain ⟨r1, r2, r3⟩ := ih (endTest w x) past
        (fun t' ht' => hsub t' (by simpa [scalledNames] using ht')) (hi.done hs.1) hs.2
        (by rw [endTest_fs]; exact hall)
      simp only [srun, sstep, List.nil_append]
      exact ⟨r1.trans (endTest_fs w x), r2, by simpa [scalledNames] using r3⟩

/-- **`standalone_replay_history`.**  A `SScoped` history of `MatchStandaloneSnapshot` calls whose
numbered paths do not exist initially, recorded in a creating mode from fresh registries: every
call logs "added" and writes exactly its own numbered path, whose contents become exactly the
text (ARBITRARY bytes — no hypothesis on the texts); no other path changes.  Replaying the history
on the resulting file system from fresh registries in ANY mode (and any config `c'` addressing the
same paths) is silent, writes nothing and leaves the file system equal to the recorded one. -/
theorem standalone_replay_history (env env' : Env) (c c' : Cfg) (caller caller' : Text)
    (G : Text → Text) (P : Text → Nat → Text) (fs₀ : FS) (h : List SStep) (names : List Text)
    (hsub : ∀ t ∈ scalledNames h, t ∈ names)
    (hpaths : SPaths c caller G P names)
    (hpaths' : SPaths c' caller' G P names)
    (hinj : PInj G P names)
    (hscoped : SScoped G [] h)
    (habsent : ∀ f ∈ filesFrom G P [] h, fsRead fs₀ f.1 = none)
    (hcreate : shouldCreate env c.update = true) :
    let rcd := srun c caller { env := env, fs := fs₀ } h
    let rep := srun c' caller' { env := env', fs := rcd.1.fs } h
    rcd.2.map (·.events) = (filesFrom G P [] h).map (fun _ => [.log Generated.go_addedMsg]) ∧
    rcd.2.map (·.writes) = (filesFrom G P [] h).map (fun f => [f.1]) ∧
    (∀ f ∈ filesFrom G P [] h, fsRead rcd.1.fs f.1 = some f.2) ∧
    (∀ q, (∀ f ∈ filesFrom G P [] h, f.1 ≠ q) → fsRead rcd.1.fs q = fsRead fs₀ q) ∧
    (∀ o ∈ rep.2, Silent o) ∧ rep.2.length = (scalledNames h).length ∧
    rep.1.fs = rcd.1.fs := by
  obtain ⟨r1, r2, r3, r4, _⟩ := srecord_run c caller G P _ hpaths hinj h { env := env, fs := fs₀ } []
    hsub (SInv.fresh G env fs₀ h) hscoped habsent hcreate
  obtain ⟨q1, q2, q3⟩ := sreplay_run c' caller' G P _ hpaths' h
    { env := env', fs := (srun c caller { env := env, fs := fs₀ } h).1.fs } []
    hsub (SInv.fresh G env' _ h) hscoped r1
  exact ⟨r3, r4, r1, r2, q2, q3, q1⟩

/-- test "A" of "/t/a_test.go" makes two standalone calls ("x\r\n---" and ""), then is done:
files "/t/__snapshots__/A_1.snap" and "…/A_2.snap" -/
example :
    let h : List SStep := [.call [65] [120, 13, 10, 45, 45, 45] 1, .call [65] [] 1, .done 1]
    let rcd := srun {} exCaller { env := ⟨false, ""⟩, fs := [] } h
    let rep := srun {} exCaller { env := ⟨true, "true"⟩, fs := rcd.1.fs } h
    let d : Text := [47, 116, 47, 95, 95, 115, 110, 97, 112, 115, 104, 111, 116, 115, 95, 95, 47]
    rcd.2.map (·.writes) = [[d ++ [65, 95, 49, 46, 115, 110, 97, 112]],
                             [d ++ [65, 95, 50, 46, 115, 110, 97, 112]]] ∧
    rcd.1.fs = [(d ++ [65, 95, 49, 46, 115, 110, 97, 112], [120, 13, 10, 45, 45, 45]),
                (d ++ [65, 95, 50, 46, 115, 110, 97, 112], [])] ∧
    rep.2.map (·.events) = [[], []] ∧ rep.2.map (·.writes) = [[], []] ∧ rep.1.fs = rcd.1.fs := by
  decide +kernel

/-- the path hypotheses of `standalone_replay_history` hold for test "A" of "/t/a_test.go":
generic path "/t/__snapshots__/A_%d.snap", numbered paths "/t/__snapshots__/A_<n>.snap" -/
def exDir : Text := [47, 116, 47, 95, 95, 115, 110, 97, 112, 115, 104, 111, 116, 115, 95, 95, 47]
def exG : Text := exDir ++ [65, 95, 37, 100, 46, 115, 110, 97, 112]
def exP (n : Nat) : Text := exDir ++ [65, 95] ++ natToText n ++ [46, 115, 110, 97, 112]

theorem exStandalone_paths :
    SPaths {} exCaller (fun _ => exG) (fun _ n => exP n) [[65]] ∧
    PInj (fun _ => exG) (fun _ n => exP n) [[65]] := by
  refine ⟨⟨?_, ?_⟩, ?_⟩
  · intro t ht
    rw [List.mem_singleton.mp ht]
    refine ⟨[95, 95, 115, 110, 97, 112, 115, 104, 111, 116, 115, 95, 95, 47, 65, 95, 37, 100,
      46, 115, 110, 97, 112], by decide +kernel, ?_⟩
    intro n
    have hp : parseFmt [95, 95, 115, 110, 97, 112, 115, 104, 111, 116, 115, 95, 95, 47, 65, 95,
        37, 100, 46, 115, 110, 97, 112] =
        some [.lit [95, 95, 115, 110, 97, 112, 115, 104, 111, 116, 115, 95, 95, 47, 65, 95],
          .verb 100, .lit [46, 115, 110, 97, 112]] := by decide
    simp [sprintf, hp, fmtPieces, fmtVerb]
  · intro t _ n
    have hp : parseFmt exG =
        some [.lit (exDir ++ [65, 95]), .verb 100, .lit [46, 115, 110, 97, 112]] := by decide
    simp [sprintf, hp, fmtPieces, fmtVerb, exP]
  · intro t _ t' _ n n' heq
    refine ⟨rfl, ?_⟩
    simp only [exP, List.append_assoc, List.append_cancel_left_eq] at heq
    exact C03.natToText_injective n n' (List.append_cancel_right heq)

example := standalone_replay_history ⟨false, ""⟩ ⟨true, "true"⟩ {} {} exCaller exCaller
  (fun _ => exG) (fun _ n => exP n) []
  [.call [65] [120, 13, 10, 45, 45, 45] 1, .call [65] [] 1, .done 1] [[65]]
  (by decide) exStandalone_paths.1 exStandalone_paths.1 exStandalone_paths.2
  (by decide +kernel) (by intro f _; rfl) (by decide)

example :
    let h : List SStep := [.call [65] [120, 13, 10, 45, 45, 45] 1, .call [65] [] 1, .done 1]
    SScoped (fun _ => exG) [] h ∧
    filesFrom (fun _ => exG) (fun _ n => exP n) [] h =
      [(exP 1, [120, 13, 10, 45, 45, 45]), (exP 2, [])] := by
  decide +kernel

end GoSnaps.C01World
