/-
C01 — recorded snapshots replay cleanly.

Statements only (helper lemmas live in Lemmas/).  All theorems are about the executable model
definitions in Format.lean / Escape.lean / Model.lean, whose constants are regenerated from
/repo on every run and whose behaviour is compared with the real code by the correspondence
suites `match.replay` and `format`.
-/
import GoSnaps.Lemmas.Format
import GoSnaps.Generated.Consts
namespace GoSnaps.C01

open GoSnaps

/-- well-formedness of a file's entry list, as an explicit predicate -/
structure WF (es : List Entry) : Prop where
  idNoNL : ∀ e ∈ es, NoNL e.id
  noCR : ∀ l ∈ fileLines es, NoCRLine l

/-- Scanning a well-formed file yields exactly its logical lines. -/
theorem scan_render (es : List Entry) (h : WF es) : scan (render es) = fileLines es :=
  GoSnaps.scan_render es h.idNoNL h.noCR

/-- **Lookup of a recorded entry**: for every file `pre ++ e :: post`, every body, every
position: `getPrevSnapshot` returns exactly the stored body and the header's line number,
provided no *earlier* line of the file equals the header (`NoShadow`; on the pinned tree a body
line that equals another slot's header violates this — known finding D9). -/
theorem getPrev_render (pre : List Entry) (e : Entry) (post : List Entry)
    (h : WF (pre ++ e :: post)) (hne : e.id ≠ []) (hesc : Escaped e.body)
    (hnoshadow : e.id ∉ fileLines pre) :
    getPrev e.id (render (pre ++ e :: post)) = some (e.body, (fileLines pre).length + 2) := by
  unfold getPrev
  rw [GoSnaps.scan_render _ h.idNoNL h.noCR]
  have : fileLines (pre ++ e :: post) = fileLines pre ++ (entryLines e ++ fileLines post) := by
    simp [fileLines]
  rw [this, getPrevL_skip _ _ _ _ hnoshadow, getPrevL_hit e _ _ hne hesc]
  congr 2; omega

/-- An id that occurs on no line of the file is reported as not found. -/
theorem getPrev_absent (id : Line) (es : List Entry) (h : WF es) (habs : id ∉ fileLines es) :
    getPrev id (render es) = none := by
  unfold getPrev
  rw [GoSnaps.scan_render _ h.idNoNL h.noCR]
  exact getPrevL_none id _ 1 habs

/-- Appending (what `addNewSnapshot` writes, through the format string read from the source)
    keeps the file a `render` of its entry list. -/
theorem addNew_render (es : List Entry) (id : Line) (body : Text) :
    (frameFmt id body).map (render es ++ ·) = some (render (es ++ [⟨id, body⟩])) := by
  rw [frameFmt_eq]; simp [render]

/-- What every taker of an escaped snapshot stores is `Escaped`, so `getPrev_render` applies
    to every value whatsoever (text containing the terminator included). -/
theorem stored_is_escaped (v : Text) : Escaped (escape v) := escape_escaped v

/-- **Record-then-replay on one entry**: after `addNewSnapshot` appended the escaped value to a
well-formed file in which the header is not shadowed, `getPrevSnapshot` returns exactly the
stored text; hence the comparison of `unescape prev` with `unescape (escape v)` is a comparison
of a text with itself, and `prettyDiff` (which returns "" on equal inputs) reports nothing. -/
theorem record_then_lookup (es : List Entry) (id : Line) (v : Text)
    (h : WF (es ++ [⟨id, escape v⟩])) (hne : id ≠ [])
    (hnoshadow : id ∉ fileLines es) :
    getPrev id (render (es ++ [⟨id, escape v⟩])) = some (escape v, (fileLines es).length + 2) := by
  have := getPrev_render es ⟨id, escape v⟩ [] h hne (escape_escaped v) hnoshadow
  simpa using this

/-- non-vacuity: a concrete two-entry file, the second body containing the escaped terminator
    and a blank line, meets every hypothesis -/
example :
    let e1 : Entry := ⟨[91, 84, 101, 115, 116, 65, 32, 45, 32, 49, 93], [120, 10, 47, 45, 47, 45, 47, 45, 47, 10]⟩
    let e2 : Entry := ⟨[91, 84, 101, 115, 116, 66, 32, 45, 32, 49, 93], escape ([45, 45, 45, 10, 10, 32, 121])⟩
    getPrev e2.id (render [e1, e2]) = some (e2.body, 8) := by decide

/-- The model's `scan` splits a file into lines of ANY length.  The real scanner has a token limit;
the fact regenerated from the source says that every scanner over a snapshot file is built by
`snapshotScanner` with the limit `math.MaxInt`, i.e. that this idealisation is the code's. -/
theorem source_scanner_unbounded : Generated.scannerUnbounded = true := by decide

end GoSnaps.C01
