/-
C16 — masked fields never influence the snapshot; unmasked fields always do.

The document libraries (gjson/sjson for JSON, goccy/go-yaml for YAML) are PARAMETERS: an
abstract document type with `get` / `set` and the laws `LensSpec`, passed as a hypothesis.
go-snaps' own part is the loop of `match.Any` / `match.Custom` / `match.Type`: for each path,
in order, replace the value at the path by a placeholder (match/any.go:99-125, type.go:103-137),
then render the document and compare it raw with the stored text.
-/
import GoSnaps.Model
import GoSnaps.Props.C13
import GoSnaps.Props.C14
namespace GoSnaps.C16

open GoSnaps

/-! ## 1. the contract of the document library -/

/-- `get d p` = what is observable of `d` at path `p` (`none` = the path does not exist);
`set d p v` = `d` with the value at `p` replaced; `Disj p q` = the two paths address
non-overlapping parts; `overlap p q v` = what is observed at a path `q` overlapping `p` once
`p` holds `v` (`some v` for `q = p`; `none` for a path below a scalar; …). -/
structure LensSpec {Doc Path Val : Type} (get : Doc → Path → Option Val) (set : Doc → Path → Val → Doc)
    (Disj : Path → Path → Prop) (overlap : Path → Path → Val → Option Val) : Prop where
  /-- writing an existing path and reading it back -/
  get_set_same : ∀ (d : Doc) (p : Path) (v : Val), get d p ≠ none → get (set d p v) p = some v
  /-- writing a path does not change what is observed at a disjoint path -/
  get_set_other : ∀ (d : Doc) (p q : Path) (v : Val), Disj p q → get (set d p v) q = get d q
  /-- after writing an existing path, what is observed at an overlapping path depends on the
      two paths and the written value only — not on what was there before -/
  get_set_overlap : ∀ (d : Doc) (p q : Path) (v : Val), ¬ Disj p q → get d p ≠ none →
    get (set d p v) q = overlap p q v
  /-- a document is determined by its observations on the path universe -/
  ext : ∀ (a b : Doc), (∀ p, get a p = get b p) → a = b

section Lens
variable {Doc Path Val : Type} {get : Doc → Path → Option Val} {set : Doc → Path → Val → Doc}
  {Disj : Path → Path → Prop} {overlap : Path → Path → Val → Option Val}

/-- the loop of `match.Any(paths...)` with a fixed placeholder -/
def mask (set : Doc → Path → Val → Doc) (M : List Path) (ph : Val) (d : Doc) : Doc :=
  M.foldl (fun d p => set d p ph) d

/-- the loop of `match.Type` / `match.Custom`: the placeholder is computed from the value found
at the path (`f`); a missing path is left alone (`ErrOnMissingPath(false)`) -/
def maskWith (get : Doc → Path → Option Val) (set : Doc → Path → Val → Doc) (f : Val → Val)
    (M : List Path) (d : Doc) : Doc :=
  M.foldl (fun d p => match get d p with | some v => set d p (f v) | none => d) d

/-- a path disjoint from every masked path is observed unchanged -/
theorem get_mask_disj (h : LensSpec get set Disj overlap) (M : List Path) (ph : Val) (d : Doc) (q : Path)
    (hq : ∀ p ∈ M, Disj p q) : get (mask set M ph d) q = get d q := by
  induction M generalizing d with
  | nil => rfl
  | cons p M ih =>
    show get (mask set M ph (set d p ph)) q = get d q
    rw [ih _ (fun p' hp' => hq p' (by simp [hp'])), h.get_set_other d p q ph (hq p (by simp))]

theorem get_maskWith_disj (h : LensSpec get set Disj overlap) (f : Val → Val) (M : List Path) (d : Doc)
    (q : Path) (hq : ∀ p ∈ M, Disj p q) : get (maskWith get set f M d) q = get d q := by
  induction M generalizing d with
  | nil => rfl
  | cons p M ih =>
    show get (maskWith get set f M (match get d p with | some v => set d p (f v) | none => d)) q = get d q
    rw [ih _ (fun p' hp' => hq p' (by simp [hp']))]
    split
    · exact h.get_set_other d p q _ (hq p (by simp))
    · rfl

/-- **masked_irrelevant**: two documents that agree on every path disjoint from the masked
paths `M` (pairwise disjoint, present in both) are the SAME document after masking: whatever
stands at the masked paths — and anything overlapping them — has no influence -/
theorem masked_irrelevant (h : LensSpec get set Disj overlap) (M : List Path) (ph : Val) (a b : Doc)
    (hM : M.Pairwise Disj)
    (hpa : ∀ p ∈ M, get a p ≠ none) (hpb : ∀ p ∈ M, get b p ≠ none)
    (hag : ∀ q, (∀ p ∈ M, Disj p q) → get a q = get b q) :
    mask set M ph a = mask set M ph b := by
  induction M generalizing a b with
  | nil => exact h.ext a b (fun q => hag q (by simp))
  | cons p M ih =>
    show mask set M ph (set a p ph) = mask set M ph (set b p ph)
    obtain ⟨hp, hM'⟩ := List.pairwise_cons.mp hM
    apply ih _ _ hM'
    · intro p' hp'
      rw [h.get_set_other a p p' ph (hp p' hp')]; exact hpa p' (by simp [hp'])
    · intro p' hp'
      rw [h.get_set_other b p p' ph (hp p' hp')]; exact hpb p' (by simp [hp'])
    · intro q hq
      by_cases hd : Disj p q
      · rw [h.get_set_other a p q ph hd, h.get_set_other b p q ph hd]
        apply hag
        intro p' hp'
        rcases List.mem_cons.mp hp' with rfl | hp'
        · exact hd
        · exact hq p' hp'
      · rw [h.get_set_overlap a p q ph hd (hpa p (by simp)),
          h.get_set_overlap b p q ph hd (hpb p (by simp))]

/-- the same for value-dependent placeholders (`match.Type`, `match.Custom`): the two documents
may hold different values at the masked paths as long as the placeholder function does not
tell them apart (e.g. same dynamic type) -/
theorem masked_irrelevant_with (h : LensSpec get set Disj overlap) (f : Val → Val) (M : List Path)
    (a b : Doc) (hM : M.Pairwise Disj)
    (hf : ∀ p ∈ M, ∃ va vb, get a p = some va ∧ get b p = some vb ∧ f va = f vb)
    (hag : ∀ q, (∀ p ∈ M, Disj p q) → get a q = get b q) :
    maskWith get set f M a = maskWith get set f M b := by
  induction M generalizing a b with
  | nil => exact h.ext a b (fun q => hag q (by simp))
  | cons p M ih =>
    obtain ⟨va, vb, hva, hvb, hfe⟩ := hf p (by simp)
    have ea : maskWith get set f (p :: M) a = maskWith get set f M (set a p (f va)) := by
      simp only [maskWith, List.foldl_cons, hva]
    have eb : maskWith get set f (p :: M) b = maskWith get set f M (set b p (f va)) := by
      simp only [maskWith, List.foldl_cons, hvb, hfe]
    rw [ea, eb]
    obtain ⟨hp, hM'⟩ := List.pairwise_cons.mp hM
    apply ih _ _ hM'
    · intro p' hp'
      obtain ⟨va', vb', h1, h2, h3⟩ := hf p' (by simp [hp'])
      exact ⟨va', vb', by rw [h.get_set_other a p p' _ (hp p' hp'), h1],
        by rw [h.get_set_other b p p' _ (hp p' hp'), h2], h3⟩
    · intro q hq
      by_cases hd : Disj p q
      · rw [h.get_set_other a p q _ hd, h.get_set_other b p q _ hd]
        apply hag
        intro p' hp'
        rcases List.mem_cons.mp hp' with rfl | hp'
        · exact hd
        · exact hq p' hp'
      · rw [h.get_set_overlap a p q _ hd (by rw [hva]; simp),
          h.get_set_overlap b p q _ hd (by rw [hvb]; simp)]

/-- **unmasked_relevant**: a difference at a path disjoint from every masked path survives
masking -/
theorem unmasked_relevant (h : LensSpec get set Disj overlap) (M : List Path) (ph : Val) (a b : Doc)
    (q : Path) (hq : ∀ p ∈ M, Disj p q) (hne : get a q ≠ get b q) :
    mask set M ph a ≠ mask set M ph b := by
  intro e
  apply hne
  rw [← get_mask_disj h M ph a q hq, ← get_mask_disj h M ph b q hq, e]

theorem unmasked_relevant_with (h : LensSpec get set Disj overlap) (f : Val → Val) (M : List Path)
    (a b : Doc) (q : Path) (hq : ∀ p ∈ M, Disj p q) (hne : get a q ≠ get b q) :
    maskWith get set f M a ≠ maskWith get set f M b := by
  intro e
  apply hne
  rw [← get_maskWith_disj h f M a q hq, ← get_maskWith_disj h f M b q hq, e]

/-! ## 2. consequences for the snapshot and the verdict -/

/-- identical snapshot text, for any deterministic renderer (`takeJSONSnapshot`, `escape`) -/
theorem masked_same_snapshot (h : LensSpec get set Disj overlap) (render : Doc → Text)
    (M : List Path) (ph : Val) (a b : Doc) (hM : M.Pairwise Disj)
    (hpa : ∀ p ∈ M, get a p ≠ none) (hpb : ∀ p ∈ M, get b p ≠ none)
    (hag : ∀ q, (∀ p ∈ M, Disj p q) → get a q = get b q) :
    render (mask set M ph a) = render (mask set M ph b) ∧
    ∀ name line, prettyDiff (render (mask set M ph a)) (render (mask set M ph b)) name line = [] := by
  have e := masked_irrelevant h M ph a b hM hpa hpb hag
  exact ⟨by rw [e], fun name line => by rw [e]; simp [prettyDiff]⟩

/-- **each passes against the other's stored entry**: the entry recorded from `a` replays
silently for `b` (no event, nothing written) -/
theorem masked_passes (h : LensSpec get set Disj overlap) (render : Doc → Text)
    (M : List Path) (ph : Val) (a b : Doc) (hM : M.Pairwise Disj)
    (hpa : ∀ p ∈ M, get a p ≠ none) (hpb : ∀ p ∈ M, get b p ≠ none)
    (hag : ∀ q, (∀ p ∈ M, Disj p q) → get a q = get b q)
    (w : World) (c : Cfg) (p rel id : Text) (line : Nat)
    (hst : (fsRead w.fs p).bind (getPrev id) = some (render (mask set M ph a), line)) :
    let r := entryTail w c p rel id (render (mask set M ph b)) .raw
    r.2.events = [] ∧ r.2.writes = [] ∧ r.1.fs = w.fs := by
  rw [← (masked_same_snapshot h render M ph a b hM hpa hpb hag).1]
  have := C14.json_replay w c p rel id _ line hst
  exact ⟨this.1, this.2.1, this.2.2.1⟩

/-- with an injective renderer a difference at an unmasked path changes the snapshot text, the
report is non-empty (C13), and — updating not allowed — the test fails with that report -/
theorem unmasked_reported (h : LensSpec get set Disj overlap) (render : Doc → Text)
    (hinj : ∀ x y, render x = render y → x = y)
    (M : List Path) (ph : Val) (a b : Doc) (q : Path) (hq : ∀ p ∈ M, Disj p q)
    (hne : get a q ≠ get b q) :
    render (mask set M ph a) ≠ render (mask set M ph b) ∧
    (∀ name line, prettyDiff (render (mask set M ph a)) (render (mask set M ph b)) name line ≠ []) ∧
    ∀ (w : World) (c : Cfg) (p rel id : Text) (line : Nat),
      (fsRead w.fs p).bind (getPrev id) = some (render (mask set M ph a), line) →
      Generated.shouldUpdate w.env c.update = false →
      ∃ d, d ≠ [] ∧ (entryTail w c p rel id (render (mask set M ph b)) .raw).2.events = [.error d] := by
  have hr : render (mask set M ph a) ≠ render (mask set M ph b) :=
    fun e => unmasked_relevant h M ph a b q hq hne (hinj _ _ e)
  refine ⟨hr, fun name line he => hr ((C13.report_empty_iff _ _ _ _).mp he), ?_⟩
  intro w c p rel id line hst hu
  exact (C14.json_mismatch_reported w c p rel id _ _ line hst (Ne.symm hr) hu).1

end Lens

/-! ## 3. `match.Type`: the placeholder depends on the dynamic type only -/

/-- the dynamic types `gjson.Result.Value()` / goccy's `GetValue` produce -/
inductive GoType
  | string | float64 | bool | nil | slice | map | int | uint64
deriving DecidableEq, Repr

/-- `%T` -/
def GoType.name : GoType → Text
  | .string => [115, 116, 114, 105, 110, 103]                                  -- string
  | .float64 => [102, 108, 111, 97, 116, 54, 52]                               -- float64
  | .bool => [98, 111, 111, 108]                                               -- bool
  | .nil => [60, 110, 105, 108, 62]                                            -- <nil>
  | .slice => [91, 93, 105, 110, 116, 101, 114, 102, 97, 99, 101, 32, 123, 125] -- []interface {}
  | .map => [109, 97, 112, 91, 115, 116, 114, 105, 110, 103, 93, 105, 110, 116, 101, 114, 102, 97, 99, 101, 32, 123, 125]
  | .int => [105, 110, 116]                                                    -- int
  | .uint64 => [117, 105, 110, 116, 54, 52]                                    -- uint64

/-- a decoded value: its dynamic type and whatever else it carries -/
structure GoValue where
  tag : GoType
  payload : Text

/-- `typePlaceholder(value) = fmt.Sprintf("<Type:%T>", value)` (match/type.go:147-149) -/
def typePlaceholder (v : GoValue) : Text := [60, 84, 121, 112, 101, 58] ++ v.tag.name ++ [62]

/-- **type_placeholder_only_type**: same dynamic type ⇒ same placeholder, whatever the values -/
theorem type_placeholder_only_type (v v' : GoValue) (h : v.tag = v'.tag) :
    typePlaceholder v = typePlaceholder v' := by
  simp [typePlaceholder, h]

/-- … and different types get different placeholders (a type change is visible in the snapshot) -/
theorem type_placeholder_injective (v v' : GoValue) (h : typePlaceholder v = typePlaceholder v') :
    v.tag = v'.tag := by
  have hn : v.tag.name = v'.tag.name := by
    simpa [typePlaceholder] using h
  revert hn
  cases v.tag <;> cases v'.tag <;> simp [GoType.name]

example : typePlaceholder ⟨.string, [97]⟩ = typePlaceholder ⟨.string, [98, 99]⟩ ∧
    typePlaceholder ⟨.string, [97]⟩ = [60, 84, 121, 112, 101, 58, 115, 116, 114, 105, 110, 103, 62] ∧
    typePlaceholder ⟨.float64, [49]⟩ ≠ typePlaceholder ⟨.string, [49]⟩ := by decide

/-- `match.Type` through the abstract lens: documents agreeing off the masked paths and holding
values of the same dynamic type at them are indistinguishable after masking -/
theorem type_masked_irrelevant {Doc Path : Type} {get : Doc → Path → Option GoValue}
    {set : Doc → Path → GoValue → Doc} {Disj : Path → Path → Prop}
    {overlap : Path → Path → GoValue → Option GoValue}
    (h : LensSpec get set Disj overlap) (M : List Path) (a b : Doc) (hM : M.Pairwise Disj)
    (hty : ∀ p ∈ M, ∃ va vb, get a p = some va ∧ get b p = some vb ∧ va.tag = vb.tag)
    (hag : ∀ q, (∀ p ∈ M, Disj p q) → get a q = get b q) :
    maskWith get set (fun v => ⟨.string, typePlaceholder v⟩) M a =
    maskWith get set (fun v => ⟨.string, typePlaceholder v⟩) M b := by
  apply masked_irrelevant_with h _ M a b hM _ hag
  intro p hp
  obtain ⟨va, vb, h1, h2, h3⟩ := hty p hp
  exact ⟨va, vb, h1, h2, by simp [type_placeholder_only_type va vb h3]⟩

/-! ## 4. the contract is satisfiable: flat records -/

namespace Toy

/-- documents: three numbered fields, each absent or a byte string -/
abbrev Doc := Option Text × Option Text × Option Text

def get (d : Doc) (p : Fin 3) : Option Text :=
  match p with
  | 0 => d.1
  | 1 => d.2.1
  | 2 => d.2.2

def set (d : Doc) (p : Fin 3) (v : Text) : Doc :=
  match p with
  | 0 => (some v, d.2.1, d.2.2)
  | 1 => (d.1, some v, d.2.2)
  | 2 => (d.1, d.2.1, some v)

theorem spec : LensSpec get set (fun p q => p ≠ q) (fun _ _ v => some v) where
  get_set_same d p v _ := by
    match p with
    | 0 => rfl
    | 1 => rfl
    | 2 => rfl
  get_set_other d p q v hd := by
    match p, q with
    | 0, 0 => exact absurd rfl hd
    | 1, 1 => exact absurd rfl hd
    | 2, 2 => exact absurd rfl hd
    | 0, 1 => rfl
    | 0, 2 => rfl
    | 1, 0 => rfl
    | 1, 2 => rfl
    | 2, 0 => rfl
    | 2, 1 => rfl
  get_set_overlap d p q v hd _ := by
    have : p = q := Classical.byContradiction hd
    subst this
    match p with
    | 0 => rfl
    | 1 => rfl
    | 2 => rfl
  ext a b hab := by
    obtain ⟨a0, a1, a2⟩ := a
    obtain ⟨b0, b1, b2⟩ := b
    have h0 := hab 0
    have h1 := hab 1
    have h2 := hab 2
    simp only [get] at h0 h1 h2
    simp [h0, h1, h2]

/-- field 1 masked: ("u", "t1", "x") and ("u", "t2", "x") mask to the same document; a change
of field 2 survives -/
example :
    mask set [1] [63] (some [117], some [116, 49], some [120]) =
      mask set [1] [63] (some [117], some [116, 50], some [120]) ∧
    mask set [1] [63] (some [117], some [116, 49], some [120]) = (some [117], some [63], some [120]) ∧
    mask set [1] [63] (some [117], some [116, 49], some [120]) ≠
      mask set [1] [63] (some [117], some [116, 49], some [121]) := by decide

example : mask set [1] [63] (some [117], some [116, 49], some [120]) =
    mask set [1] [63] (some [117], some [116, 50], some [120]) :=
  masked_irrelevant spec [1] [63] _ _ (by simp) (by decide) (by decide)
    (fun q hq => by
      have : (1 : Fin 3) ≠ q := hq 1 (by simp)
      match q with
      | 0 => rfl
      | 1 => exact absurd rfl this
      | 2 => rfl)

end Toy

end GoSnaps.C16
