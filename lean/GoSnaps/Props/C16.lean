/- C16: statements in progress; this placeholder keeps the module buildable. -/
import GoSnaps.Model
namespace GoSnaps.C16
theorem handleError_counts (w : World) (msg : Text) : (handleError w msg).1.events.erred = w.events.erred + 1 := rfl
end GoSnaps.C16
