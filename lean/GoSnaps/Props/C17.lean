/-
C17 — matcher failures (and validation failures) fail the test and write nothing.

Pure go-snaps glue (snaps/matchJSON.go:72-98, matchYAML.go:67-93, matchStandaloneJSON.go:44-70):
the registry is bumped and the cleanup registered BEFORE validation; a validation error or a
non-empty list of matcher errors goes to `handleError` and the function returns — no lookup,
no create, no update, in every mode.

Byte legend: 10 = "\n", 34 = '"', 40 = '(', 41 = ')', 32 = ' ', 45 = '-', 46 = '.',
"match." = [109, 97, 116, 99, 104, 46], "✕ " = [226, 156, 149, 32].
-/
import GoSnaps.Model
import GoSnaps.Driver
import GoSnaps.Props.C03
import GoSnaps.Props.C15
namespace GoSnaps.C17

open GoSnaps

/-! ## 0. what the two entry points do before they look at `pre` -/

/-- the world after `getTestID` + `t.Cleanup(...)` of `matchJSON` / `matchYAML` / `matchSnapshot` -/
def entered (w : World) (c : Cfg) (caller tName : Text) (texec : Nat) : World :=
  let k : RegKey := ((snapshotPath c caller tName false).1, tName)
  { (regBump w k).1 with pending := (texec, .reg k) :: w.pending }

/-- the world after `standaloneTestsRegistry.getTestID` + `t.Cleanup(...)` -/
def enteredSA (w : World) (c : Cfg) (caller tName : Text) (texec : Nat) : World :=
  let g : Text := (snapshotPath c caller tName true).1
  { (sregBump w g).1 with pending := (texec, .sreg g) :: w.pending }

/-- entering changes registries and the pending list only -/
theorem entered_frame (w : World) (c : Cfg) (caller tName : Text) (texec : Nat) :
    (entered w c caller tName texec).fs = w.fs ∧ (entered w c caller tName texec).events = w.events ∧
    (entered w c caller tName texec).env = w.env ∧ (entered w c caller tName texec).cfgs = w.cfgs ∧
    (entered w c caller tName texec).skipped = w.skipped ∧
    (entered w c caller tName texec).srunning = w.srunning ∧
    (entered w c caller tName texec).scleanup = w.scleanup := ⟨rfl, rfl, rfl, rfl, rfl, rfl, rfl⟩

theorem enteredSA_frame (w : World) (c : Cfg) (caller tName : Text) (texec : Nat) :
    (enteredSA w c caller tName texec).fs = w.fs ∧ (enteredSA w c caller tName texec).events = w.events ∧
    (enteredSA w c caller tName texec).env = w.env ∧ (enteredSA w c caller tName texec).cfgs = w.cfgs ∧
    (enteredSA w c caller tName texec).skipped = w.skipped ∧
    (enteredSA w c caller tName texec).running = w.running ∧
    (enteredSA w c caller tName texec).cleanup = w.cleanup := ⟨rfl, rfl, rfl, rfl, rfl, rfl, rfl⟩

/-- **the failing call, in closed form**: either the model does not cover the call (the
relative path could not be computed: `unsupported`) or the call is exactly
`handleError msg` on the entered world. -/
theorem matchEntry_error_eq (w : World) (c : Cfg) (caller tName : Text) (texec : Nat) (cmp : Cmp)
    (msg : Text) :
    matchEntry w c caller tName texec cmp (.error msg) =
      if (snapshotPath c caller tName false).2 = none
      then unsup (entered w c caller tName texec) "idFmt/rel"
      else handleError (entered w c caller tName texec) msg := by
  unfold matchEntry entered
  generalize snapshotPath c caller tName false = sp
  obtain ⟨snapPath, rel?⟩ := sp
  simp only [C03.testID_eq]
  cases rel? <;> simp [regBump]

theorem matchStandalone_error_cases (w : World) (c : Cfg) (caller tName : Text) (texec : Nat)
    (msg : Text) :
    matchStandalone w c caller tName texec (.error msg) = handleError (enteredSA w c caller tName texec) msg ∨
    ∃ why, matchStandalone w c caller tName texec (.error msg) = unsup (enteredSA w c caller tName texec) why := by
  unfold matchStandalone enteredSA
  generalize snapshotPath c caller tName true = sp
  obtain ⟨generic, grel?⟩ := sp
  dsimp only
  split
  · exact .inr ⟨_, rfl⟩
  · split
    · exact .inl rfl
    · exact .inr ⟨_, rfl⟩

/-! ## 1. exactly one failure -/

/-- `MatchJSON` / `MatchYAML` whose validation or matchers failed with message `msg`: the test
receives exactly one `t.Error(msg)`, the `erred` counter moves by one, no other counter moves,
nothing is printed.  (`hs`: the model covers the call.) -/
theorem matcher_error_one_failure (w : World) (c : Cfg) (caller tName : Text) (texec : Nat)
    (cmp : Cmp) (msg : Text)
    (hs : (matchEntry w c caller tName texec cmp (.error msg)).2.unsupported = none) :
    (matchEntry w c caller tName texec cmp (.error msg)).2.events = [.error msg] ∧
    (matchEntry w c caller tName texec cmp (.error msg)).1.events =
      { w.events with erred := w.events.erred + 1 } ∧
    (matchEntry w c caller tName texec cmp (.error msg)).2.stdout = [] := by
  rw [matchEntry_error_eq] at hs ⊢
  split at hs
  · simp [unsup] at hs
  · rename_i h; simp only [h, ↓reduceIte]; exact ⟨rfl, rfl, rfl⟩

/-- the model covers the call exactly when the snapshot path has a relative form -/
theorem matchEntry_error_supported_iff (w : World) (c : Cfg) (caller tName : Text) (texec : Nat)
    (cmp : Cmp) (msg : Text) :
    (matchEntry w c caller tName texec cmp (.error msg)).2.unsupported = none ↔
      (snapshotPath c caller tName false).2 ≠ none := by
  rw [matchEntry_error_eq]
  split <;> simp_all [unsup, handleError]

/-- the same for `MatchStandaloneJSON` -/
theorem matcher_error_one_failure_standalone (w : World) (c : Cfg) (caller tName : Text)
    (texec : Nat) (msg : Text)
    (hs : (matchStandalone w c caller tName texec (.error msg)).2.unsupported = none) :
    (matchStandalone w c caller tName texec (.error msg)).2.events = [.error msg] ∧
    (matchStandalone w c caller tName texec (.error msg)).1.events =
      { w.events with erred := w.events.erred + 1 } ∧
    (matchStandalone w c caller tName texec (.error msg)).2.stdout = [] := by
  rcases matchStandalone_error_cases w c caller tName texec msg with h | ⟨why, h⟩
  · rw [h]; exact ⟨rfl, rfl, rfl⟩
  · rw [h] at hs; simp [unsup] at hs

/-! ## 2. nothing is written, in every mode -/

/-- **No write, whatever the mode**: `env` (CI or not, any UPDATE_SNAPS) and `c.update`
(unset, true, false) are universally quantified and do not appear in any hypothesis — the gates
`shouldCreate` / `shouldUpdate` are never consulted.  Unconditional (also holds where the model
answers `unsupported`). -/
theorem matcher_error_no_write (w : World) (c : Cfg) (caller tName : Text) (texec : Nat)
    (cmp : Cmp) (msg : Text) :
    (matchEntry w c caller tName texec cmp (.error msg)).1.fs = w.fs ∧
    (matchEntry w c caller tName texec cmp (.error msg)).2.writes = [] ∧
    (matchEntry w c caller tName texec cmp (.error msg)).2.removed = [] := by
  rw [matchEntry_error_eq]
  split <;> exact ⟨rfl, rfl, rfl⟩

theorem matcher_error_no_write_standalone (w : World) (c : Cfg) (caller tName : Text)
    (texec : Nat) (msg : Text) :
    (matchStandalone w c caller tName texec (.error msg)).1.fs = w.fs ∧
    (matchStandalone w c caller tName texec (.error msg)).2.writes = [] ∧
    (matchStandalone w c caller tName texec (.error msg)).2.removed = [] := by
  rcases matchStandalone_error_cases w c caller tName texec msg with h | ⟨why, h⟩ <;>
    (rw [h]; exact ⟨rfl, rfl, rfl⟩)

/-- three modes on a world that already holds `[T - 1]` with body "x" in /a/__snapshots__/b_test.snap:
update forced on (`Update(true)`, UPDATE_SNAPS=true), CI, and the default — the failing call
leaves the file system identical and reports exactly the message; a second entry `[T - 2]`
(creation allowed) is NOT created either -/
example :
    let file : Text := [10, 91, 84, 32, 45, 32, 49, 93, 10, 120, 10, 45, 45, 45, 10]
    let path : Text := [47, 97, 47, 95, 95, 115, 110, 97, 112, 115, 104, 111, 116, 115, 95, 95, 47,
      98, 95, 116, 101, 115, 116, 46, 115, 110, 97, 112]
    let caller : Text := [47, 97, 47, 98, 95, 116, 101, 115, 116, 46, 103, 111]
    (snapshotPath {} caller [84] false).1 = path ∧
    ∀ m ∈ [(⟨false, "true"⟩, some true), (⟨true, "true"⟩, some true), (⟨false, ""⟩, none)],
      let w : World := { env := m.1, fs := [(path, file)] }
      let r := matchEntry w { update := m.2 } caller [84] 0 .raw (.error [109])
      r.1.fs = [(path, file)] ∧ r.2.events = [.error [109]] ∧ r.2.writes = [] ∧ r.1.events.erred = 1 ∧
      (matchEntry r.1 { update := m.2 } caller [84] 0 .raw (.error [109])).1.fs = [(path, file)] := by
  decide +kernel

/-- read as a statement about files: every path reads the same before and after -/
theorem matcher_error_files_intact (w : World) (c : Cfg) (caller tName : Text) (texec : Nat)
    (cmp : Cmp) (msg p : Text) :
    fsRead (matchEntry w c caller tName texec cmp (.error msg)).1.fs p = fsRead w.fs p ∧
    fsRead (matchStandalone w c caller tName texec (.error msg)).1.fs p = fsRead w.fs p := by
  rw [(matcher_error_no_write w c caller tName texec cmp msg).1,
    (matcher_error_no_write_standalone w c caller tName texec msg).1]
  exact ⟨rfl, rfl⟩

/-- what does NOT stay the same: only the registries / pending list (and the `erred` counter) -/
theorem matcher_error_frame (w : World) (c : Cfg) (caller tName : Text) (texec : Nat)
    (cmp : Cmp) (msg : Text) :
    let w' := (matchEntry w c caller tName texec cmp (.error msg)).1
    w'.env = w.env ∧ w'.cfgs = w.cfgs ∧ w'.skipped = w.skipped ∧
    w'.srunning = w.srunning ∧ w'.scleanup = w.scleanup := by
  rw [matchEntry_error_eq]
  split <;> exact ⟨rfl, rfl, rfl, rfl, rfl⟩

/-! ## 3. the ordinal is consumed -/

theorem sregBump_snd (w : World) (g : Text) : (sregBump w g).2 = alGet w.srunning g + 1 := rfl

theorem sregBump_srunning_same (w : World) (g : Text) :
    alGet (sregBump w g).1.srunning g = alGet w.srunning g + 1 :=
  C03.alGet_alSet_same _ _ _

/-- **The registry is bumped exactly as for a successful call** (same `running`, same
`cleanup`, both equal to what `getTestID` alone produces), the cleanup is registered, and the
next call of the same test addresses slot k+1. -/
theorem ordinal_consumed (w : World) (c : Cfg) (caller tName : Text) (texec : Nat) (cmp : Cmp)
    (msg s : Text) :
    let k : RegKey := ((snapshotPath c caller tName false).1, tName)
    let w' := (matchEntry w c caller tName texec cmp (.error msg)).1
    w'.running = (matchEntry w c caller tName texec cmp (.ok s)).1.running ∧
    w'.cleanup = (matchEntry w c caller tName texec cmp (.ok s)).1.cleanup ∧
    w'.running = (regBump w k).1.running ∧ w'.cleanup = (regBump w k).1.cleanup ∧
    w'.pending = (texec, Pending.reg k) :: w.pending ∧
    (regBump w' k).2 = (regBump w k).2 + 1 := by
  intro k w'
  obtain ⟨h1, h2, h3, h4⟩ := C03.failing_call_consumes_ordinal w c caller tName texec cmp msg s
  exact ⟨h1, h3.trans h4.symm, h2, h3, (matchEntry_regs w c caller tName texec cmp (.error msg)).2.2,
    C03.ordinal_after_failing_call w c caller tName texec cmp msg⟩

/-- the same for the per-path registry of `MatchStandaloneJSON`: the file index `_k` is consumed -/
theorem ordinal_consumed_standalone (w : World) (c : Cfg) (caller tName : Text) (texec : Nat)
    (msg s : Text) :
    let g : Text := (snapshotPath c caller tName true).1
    let w' := (matchStandalone w c caller tName texec (.error msg)).1
    w'.srunning = (matchStandalone w c caller tName texec (.ok s)).1.srunning ∧
    w'.scleanup = (matchStandalone w c caller tName texec (.ok s)).1.scleanup ∧
    w'.srunning = (sregBump w g).1.srunning ∧ w'.scleanup = (sregBump w g).1.scleanup ∧
    w'.pending = (texec, Pending.sreg g) :: w.pending ∧
    (sregBump w' g).2 = (sregBump w g).2 + 1 := by
  intro g w'
  obtain ⟨h1, h2, h3, h4⟩ := C03.failing_standalone_consumes_ordinal w c caller tName texec msg s
  refine ⟨h1, h3.trans h4.symm, h2, h3, (matchStandalone_regs w c caller tName texec (.error msg)).2.2, ?_⟩
  rw [sregBump_snd, h2, sregBump_srunning_same, sregBump_snd]

/-- a failing call followed by a call of the same test: the second call is the SECOND slot
(ordinal 2 from a fresh registry), not a retry of slot 1 -/
example :
    let w : World := { env := ⟨false, ""⟩ }
    let c : Cfg := {}
    let caller : Text := [47, 97, 47, 98, 95, 116, 101, 115, 116, 46, 103, 111]   -- "/a/b_test.go"
    let k : RegKey := ((snapshotPath c caller [84] false).1, [84])
    let w₁ := (matchEntry w c caller [84] 0 .raw (.error [120])).1
    (regBump w k).2 = 1 ∧ (regBump w₁ k).2 = 2 ∧ w₁.fs = [] ∧ w₁.events.erred = 1 ∧
    (matchEntry w c caller [84] 0 .raw (.error [120])).2.events = [.error [120]] := by
  decide +kernel

/-! ## 4. the message names every failing matcher -/

/-- `match.<Matcher>("<Path>") - <Reason>` -/
def piece (m p r : Text) : Text :=
  [109, 97, 116, 99, 104, 46] ++ m ++ [40, 34] ++ p ++ [34, 41, 32, 45, 32] ++ r

/-- one `fmt.Sprintf("\n%smatch.%s(\"%s\") - %s", errorSymbol, Matcher, Path, Reason)` -/
def errLine (e : Text × Text × Text) : Text :=
  nl :: Generated.go_errorSymbol ++ piece e.1 e.2.1 e.2.2

/-- the `strings.Builder` after the loop (NO_COLOR: `colors.Fprint` writes the text as is) -/
def errText (errs : List (Text × Text × Text)) : Text := (errs.map errLine).flatten

/-- exactly the expression of `Driver.step`'s `ora doc merr` branch -/
def matcherErrMsg (errs : List (Text × Text × Text)) : Option Text :=
  (errs.mapM (fun (m, p, r) =>
    sprintf Generated.matcherErrFmt [.s Generated.go_errorSymbol, .s m, .s p, .s r])).map List.flatten

theorem matcherErrFmt_parse : parseFmt Generated.matcherErrFmt =
    some [.lit [10], .verb 115, .lit [109, 97, 116, 99, 104, 46], .verb 115, .lit [40, 34], .verb 115,
          .lit [34, 41, 32, 45, 32], .verb 115] := by decide

theorem sprintf_matcherErr (m p r : Text) :
    sprintf Generated.matcherErrFmt [.s Generated.go_errorSymbol, .s m, .s p, .s r] =
      some (errLine (m, p, r)) := by
  simp [sprintf, matcherErrFmt_parse, fmtPieces, fmtVerb, errLine, piece, nl]

/-- the format string never fails on these operands: the message always exists and is `errText` -/
theorem matcherErrMsg_eq (errs : List (Text × Text × Text)) : matcherErrMsg errs = some (errText errs) := by
  unfold matcherErrMsg errText
  have key : ∀ (f : Text × Text × Text → Option Text) (g : Text × Text × Text → Text),
      (∀ x, f x = some (g x)) → ∀ l : List (Text × Text × Text), l.mapM f = some (l.map g) := by
    intro f g hfg l
    induction l with
    | nil => rfl
    | cons e es ih => rw [List.mapM_cons, hfg, ih]; rfl
  have := key (fun (x : Text × Text × Text) =>
      sprintf Generated.matcherErrFmt [.s Generated.go_errorSymbol, .s x.1, .s x.2.1, .s x.2.2]) errLine
    (fun x => sprintf_matcherErr x.1 x.2.1 x.2.2) errs
  simpa using congrArg (Option.map List.flatten) this

theorem errText_append (a b : List (Text × Text × Text)) : errText (a ++ b) = errText a ++ errText b := by
  simp [errText]

/-- **Every error is named, in order**: for every position of `errs` (`errs = A ++ (m,p,r) :: B`)
the message is `⟨message of A⟩ ++ "\n✕ " ++ match.m("p") - r ++ ⟨message of B⟩` — the pieces
occur contiguously, in the order of `errs`, separated by the newline + error symbol. -/
theorem errors_all_named (A B : List (Text × Text × Text)) (m p r : Text) :
    matcherErrMsg (A ++ (m, p, r) :: B) =
      some ((errText A ++ nl :: Generated.go_errorSymbol) ++ piece m p r ++ errText B) := by
  rw [matcherErrMsg_eq]
  simp [errText, errLine]

/-- membership form: each error's text is a contiguous sub-list of the message -/
theorem errors_all_named_mem (errs : List (Text × Text × Text)) (m p r : Text)
    (h : (m, p, r) ∈ errs) :
    ∃ msg pre post, matcherErrMsg errs = some msg ∧ msg = pre ++ piece m p r ++ post := by
  obtain ⟨A, B, rfl⟩ := List.append_of_mem h
  exact ⟨_, _, _, errors_all_named A B m p r, rfl⟩

/-- a non-empty error list never produces an empty message (so `t.Error` is never called with "") -/
theorem errText_ne_nil (errs : List (Text × Text × Text)) (h : errs ≠ []) : errText errs ≠ [] := by
  cases errs with
  | nil => exact absurd rfl h
  | cons e es => simp [errText, errLine]

theorem matcherErrMsg_ne_nil (errs : List (Text × Text × Text)) (h : errs ≠ []) :
    ∃ msg, matcherErrMsg errs = some msg ∧ msg ≠ [] :=
  ⟨_, matcherErrMsg_eq errs, errText_ne_nil errs h⟩

/-- `match.Any("a") - x` then `match.Type("b") - y`:
    "\n✕ match.Any(\"a\") - x\n✕ match.Type(\"b\") - y" -/
example : matcherErrMsg [([65, 110, 121], [97], [120]), ([84, 121, 112, 101], [98], [121])] =
    some [10, 226, 156, 149, 32, 109, 97, 116, 99, 104, 46, 65, 110, 121, 40, 34, 97, 34, 41, 32, 45, 32, 120,
          10, 226, 156, 149, 32, 109, 97, 116, 99, 104, 46, 84, 121, 112, 101, 40, 34, 98, 34, 41, 32, 45, 32, 121] := by
  decide +kernel

/-! ## 5. the pipeline: no partially masked document escapes -/

/-- a matcher error as go-snaps keeps it: (Matcher, Path, Reason) -/
abbrev MErr := Text × Text × Text

/-- matchJSON.go:72-100 / matchYAML.go:67-95: validate → apply matchers → if any error, the
message; else the rendered document.  `valid` is gjson.Valid / json.Marshal / yaml.Unmarshal,
`render` is `takeJSONSnapshot` / `takeYAMLSnapshot`; both parameters. -/
def pipeline (valid : Text → Except Text Text) (ms : List (C15.Matcher MErr)) (render : Text → Text)
    (input : Text) : Except Text Text :=
  match valid input with
  | .error e => .error e
  | .ok j =>
    let r := C15.applyMatchers ms j []
    if r.2 ≠ [] then .error (errText r.2) else .ok (render r.1)

/-- errors at the end of the fold ⇒ the pipeline yields the message, never a document: the
documents produced by the matchers that succeeded (`r.1`) are not part of the result -/
theorem no_partial_leak (valid : Text → Except Text Text) (ms : List (C15.Matcher MErr))
    (render : Text → Text) (input j : Text) (hv : valid input = .ok j)
    (herr : (C15.applyMatchers ms j []).2 ≠ []) :
    pipeline valid ms render input = .error (errText (C15.applyMatchers ms j []).2) ∧
    ∀ render', pipeline valid ms render' input = pipeline valid ms render input := by
  simp [pipeline, hv, herr]

/-- a matcher that fails on whatever document reaches it makes the final error list non-empty,
wherever it stands in the list and whatever the other matchers do -/
theorem failing_matcher_errors (ms : List (C15.Matcher MErr)) (m : C15.Matcher MErr) (hm : m ∈ ms)
    (hf : ∀ d, (m d).2 ≠ []) (b : Text) (errs : List MErr) : (C15.applyMatchers ms b errs).2 ≠ [] := by
  induction ms generalizing b errs with
  | nil => cases hm
  | cons x xs ih =>
    simp only [C15.applyMatchers]
    rcases List.mem_cons.mp hm with rfl | hm'
    · simp only [hf b, ne_eq, not_false_eq_true, ↓reduceIte]
      obtain ⟨more, h⟩ := C15.errors_accumulate xs b (errs ++ (m b).2)
      rw [h]
      have := hf b
      cases hq : (m b).2 with
      | nil => exact absurd hq this
      | cons e es => simp
    · split
      · exact ih hm' _ _
      · exact ih hm' _ _

/-- **some matcher fails ⇒ `pre` is `.error`, whatever the successful matchers produced** -/
theorem no_partial_leak_of_failing (valid : Text → Except Text Text) (ms : List (C15.Matcher MErr))
    (render : Text → Text) (input j : Text) (hv : valid input = .ok j)
    (m : C15.Matcher MErr) (hm : m ∈ ms) (hf : ∀ d, (m d).2 ≠ []) :
    ∃ msg, pipeline valid ms render input = .error msg ∧ msg ≠ [] := by
  have herr := failing_matcher_errors ms m hm hf j []
  exact ⟨_, (no_partial_leak valid ms render input j hv herr).1, errText_ne_nil _ herr⟩

/-- invalid input: the validation error, no matcher runs -/
theorem pipeline_invalid (valid : Text → Except Text Text) (ms : List (C15.Matcher MErr))
    (render : Text → Text) (input e : Text) (hv : valid input = .error e) :
    pipeline valid ms render input = .error e := by
  simp [pipeline, hv]

/-- all matchers succeed ⇒ the rendered left-to-right composition -/
theorem pipeline_all_succeed (valid : Text → Except Text Text) (ms : List (C15.Matcher MErr))
    (render : Text → Text) (input j : Text) (hv : valid input = .ok j)
    (h : ∀ m ∈ ms, ∀ d, (m d).2 = []) :
    pipeline valid ms render input = .ok (render (ms.foldl (fun d m => (m d).1) j)) := by
  simp [pipeline, hv, C15.all_succeed ms j h]

/-- `ErrOnMissingPath(false)` on a missing path: the matcher returns the document untouched and
no error — it is the identity step of the fold -/
theorem missing_path_ignored (m : C15.Matcher MErr) (ms : List (C15.Matcher MErr)) (b : Text)
    (errs : List MErr) (h : m b = (b, [])) :
    C15.applyMatchers (m :: ms) b errs = C15.applyMatchers ms b errs := by
  simp [C15.applyMatchers, h]

/-- end to end: a failing matcher anywhere in the list ⇒ one failure, nothing written -/
theorem failing_matcher_end_to_end (valid : Text → Except Text Text) (ms : List (C15.Matcher MErr))
    (render : Text → Text) (input j : Text) (hv : valid input = .ok j)
    (m : C15.Matcher MErr) (hm : m ∈ ms) (hf : ∀ d, (m d).2 ≠ [])
    (w : World) (c : Cfg) (caller tName : Text) (texec : Nat) (cmp : Cmp) :
    let r := matchEntry w c caller tName texec cmp (pipeline valid ms render input)
    r.1.fs = w.fs ∧ r.2.writes = [] ∧ r.2.removed = [] ∧
    (r.2.unsupported = none → ∃ msg, msg ≠ [] ∧ r.2.events = [.error msg]) := by
  obtain ⟨msg, hp, hne⟩ := no_partial_leak_of_failing valid ms render input j hv m hm hf
  intro r
  have hr : r = matchEntry w c caller tName texec cmp (.error msg) := by simp only [r, hp]
  rw [hr]
  obtain ⟨a, b, c'⟩ := matcher_error_no_write w c caller tName texec cmp msg
  exact ⟨a, b, c', fun hs => ⟨msg, hne, (matcher_error_one_failure w c caller tName texec cmp msg hs).1⟩⟩

/-- three matchers on the document "d": the first appends "1", the second fails, the third
appends "3".  The result is the second's error only; "d1", "d13" appear nowhere. -/
example :
    let m1 : C15.Matcher MErr := fun d => (d ++ [49], [])
    let m2 : C15.Matcher MErr := fun d => (d ++ [50], [([65, 110, 121], [97], [120])])
    let m3 : C15.Matcher MErr := fun d => (d ++ [51], [])
    pipeline (fun i => .ok i) [m1, m2, m3] id [100] =
      .error [10, 226, 156, 149, 32, 109, 97, 116, 99, 104, 46, 65, 110, 121, 40, 34, 97, 34, 41, 32, 45, 32, 120] ∧
    pipeline (fun i => .ok i) [m1, m3] id [100] = .ok [100, 49, 51] := by
  intro m1 m2 m3
  constructor <;> rfl

/-! ## 6. the tie to the driver -/

/-- how `Driver.step` reads the items of an `ora doc merr` line -/
def parseMerr (items : String) : Option (List (Text × Text × Text)) :=
  (items.splitOn ";").mapM (fun it =>
      match (it.splitOn ",").mapM unhex with
      | some [m, p, r] => some (m, p, r)
      | _ => none)

/-- **the driver builds the message with `matcherErrMsg`**: on an `ora doc merr <items>` line
whose items parse to `errs`, the pending document becomes `.error (message of errs)` -/
theorem step_merr (s : DState) (line items : String) (errs : List (Text × Text × Text))
    (ht : (line.splitOn " ").filter (· ≠ "") = ["ora", "doc", "merr", items])
    (hp : parseMerr items = some errs) :
    (step s line).1.doc = (matcherErrMsg errs).map Except.error := by
  unfold parseMerr at hp
  unfold step
  simp only [ht]
  generalize hgen : List.mapM (m := Option) (β := Text × Text × Text) _ (items.splitOn ";") = parsed
  have hpe : parsed = some errs := by rw [← hgen]; exact hp
  subst hpe
  simp only
  have := matcherErrMsg_eq errs
  unfold matcherErrMsg at this
  rw [matcherErrMsg_eq]
  cases hq : errs.mapM (fun (x : Text × Text × Text) =>
      sprintf Generated.matcherErrFmt [.s Generated.go_errorSymbol, .s x.1, .s x.2.1, .s x.2.2]) with
  | none => rw [hq] at this; simp at this
  | some ms =>
    rw [hq] at this
    simp only [Option.map_some, Option.some.injEq] at this
    simp [this]

/-- a pending `.error e` document reaches `matchEntry` / `matchStandalone` as `.error e` for
each of the three document operations, so sections 1-3 apply to the driver's run -/
theorem docOp_error (s : DState) (line c t : String) (cn tn : Nat) (cfg : Cfg) (nm e : Text)
    (hc : c.toNat? = some cn) (hcfg : lookupCfg s cn = some cfg)
    (ht : t.toNat? = some tn) (hn : lookupName s tn = some nm) (hd : s.doc = some (.error e)) :
    (docOp s line "json" c t).1.w = (matchEntry s.w cfg s.caller nm tn .raw (.error e)).1 ∧
    (docOp s line "yaml" c t).1.w = (matchEntry s.w cfg s.caller nm tn .escaped (.error e)).1 ∧
    (docOp s line "sajson" c t).1.w =
      (matchStandalone s.w (if cfg.extension = [] then { cfg with extension := Generated.saJSONExt } else cfg)
        s.caller nm tn (.error e)).1 := by
  have hcw : "Config.MatchStandaloneJSON: c.extension" ∉ Generated.configWrites := by decide
  refine ⟨?_, ?_, ?_⟩ <;> simp [docOp, hc, hcfg, ht, hn, hd, hcw]

/-- hence: a document operation whose pipeline failed leaves every file as it was -/
theorem docOp_error_no_write (s : DState) (line c t : String) (cn tn : Nat) (cfg : Cfg) (nm e : Text)
    (hc : c.toNat? = some cn) (hcfg : lookupCfg s cn = some cfg)
    (ht : t.toNat? = some tn) (hn : lookupName s tn = some nm) (hd : s.doc = some (.error e)) :
    (docOp s line "json" c t).1.w.fs = s.w.fs ∧ (docOp s line "yaml" c t).1.w.fs = s.w.fs ∧
    (docOp s line "sajson" c t).1.w.fs = s.w.fs := by
  obtain ⟨h1, h2, h3⟩ := docOp_error s line c t cn tn cfg nm e hc hcfg ht hn hd
  rw [h1, h2, h3]
  exact ⟨(matcher_error_no_write _ _ _ _ _ _ _).1, (matcher_error_no_write _ _ _ _ _ _ _).1,
    (matcher_error_no_write_standalone _ _ _ _ _ _).1⟩

/-- structural fact read from the source on every run: in matchJSON, matchYAML and
matchStandaloneJSON the ordinal is taken (`getTestID`) before the input is validated and the
matchers are applied, as in the model's `matchEntry` / `matchStandalone` (where the registry bump
precedes the inspection of `pre`).  With `ordinal_consumed` this is "later calls keep their slots". -/
theorem ordinal_taken_before_validation : Generated.ordinalBeforeValidation = true := by decide

end GoSnaps.C17
