/-
C05 — write permissions follow the mode table; CI runs are read-only.

The functions `Generated.shouldUpdate`, `shouldCreate`, `shouldClean`, `cleanFilesUpdate`,
`cleanSnapsUpdate`, `cleanSnapsSort`, `summaryUpdate` are *translated from /repo's current
source on every run* (tools/extract/modes.go); these theorems are re-checked against that
translation, for every value of UPDATE_SNAPS (an arbitrary string), not four samples.
-/
import GoSnaps.Model
import GoSnaps.Clean
namespace GoSnaps.C05
open Generated

/-- the property's table, written once -/
def specUpdate (ci : Bool) (u : Option Bool) (upd : String) : Bool :=
  !ci && (u == some true || (u == none && upd == "true"))

def specCreate (ci : Bool) (u : Option Bool) : Bool :=
  !ci && (u != some false)

def specCleanDeletes (ci : Bool) (upd : String) : Bool :=
  !ci && (upd == "true" || upd == "clean")

def specCleanSorts (ci : Bool) (sortOpt : Bool) : Bool := !ci && sortOpt

theorem shouldUpdate_spec (env : Env) (u : Option Bool) :
    shouldUpdate env u = specUpdate env.isCI u env.updateVAR := by
  unfold shouldUpdate specUpdate
  cases env.isCI <;> cases u with
  | none => simp
  | some v => cases v <;> simp

theorem shouldCreate_spec (env : Env) (u : Option Bool) :
    shouldCreate env u = specCreate env.isCI u := by
  unfold shouldCreate specCreate
  cases env.isCI <;> cases u with
  | none => simp
  | some v => cases v <;> simp

theorem cleanDeletes_spec (env : Env) (s : Bool) :
    cleanFilesUpdate env s = specCleanDeletes env.isCI env.updateVAR ∧
    cleanSnapsUpdate env s = specCleanDeletes env.isCI env.updateVAR ∧
    summaryUpdate env s = specCleanDeletes env.isCI env.updateVAR := by
  unfold cleanFilesUpdate cleanSnapsUpdate summaryUpdate shouldClean specCleanDeletes
  cases env.isCI <;> simp

theorem cleanSorts_spec (env : Env) (s : Bool) :
    cleanSnapsSort env s = specCleanSorts env.isCI s := by
  unfold cleanSnapsSort specCleanSorts
  cases env.isCI <;> cases s <;> simp

/-- On CI every gate is closed, whatever Update(...) and UPDATE_SNAPS say. -/
theorem ci_gates_closed (env : Env) (h : env.isCI = true) (u : Option Bool) (s : Bool) :
    shouldUpdate env u = false ∧ shouldCreate env u = false ∧ cleanFilesUpdate env s = false ∧
    cleanSnapsUpdate env s = false ∧ cleanSnapsSort env s = false := by
  rw [shouldUpdate_spec, shouldCreate_spec, (cleanDeletes_spec env s).1, (cleanDeletes_spec env s).2.1,
    cleanSorts_spec]
  simp [specUpdate, specCreate, specCleanDeletes, specCleanSorts, h]

/-- Update(false) forbids creation and rewriting; Update(true) allows both off CI, whatever
    UPDATE_SNAPS says. -/
theorem update_option_overrides (env : Env) :
    shouldUpdate env (some false) = false ∧ shouldCreate env (some false) = false ∧
    (env.isCI = false → shouldUpdate env (some true) = true ∧ shouldCreate env (some true) = true) := by
  rw [shouldUpdate_spec, shouldCreate_spec, shouldUpdate_spec, shouldCreate_spec]
  refine ⟨by simp [specUpdate], by simp [specCreate], ?_⟩
  intro h; simp [specUpdate, specCreate, h]

/-- a multi-entry call touches the file system only behind an open gate -/
theorem entryTail_readonly (w : World) (c : Cfg) (p rel id s : Text) (cmp : Cmp)
    (hc : shouldCreate w.env c.update = false) (hu : shouldUpdate w.env c.update = false) :
    (entryTail w c p rel id s cmp).1.fs = w.fs ∧ (entryTail w c p rel id s cmp).2.writes = [] ∧
    (entryTail w c p rel id s cmp).2.removed = [] := by
  unfold entryTail
  cases hq : (fsRead w.fs p).bind (getPrev id) with
  | none => simp [hc, handleError]
  | some pl =>
    obtain ⟨prev, line⟩ := pl
    cases cmp <;>
    · simp only
      generalize prettyDiff _ _ rel line = dv
      by_cases hd : dv = []
      · simp [hd]
      · simp [hd, hu, handleError]

theorem standaloneTail_readonly (w : World) (c : Cfg) (p rel s : Text)
    (hc : shouldCreate w.env c.update = false) (hu : shouldUpdate w.env c.update = false) :
    (standaloneTail w c p rel s).1.fs = w.fs ∧ (standaloneTail w c p rel s).2.writes = [] ∧
    (standaloneTail w c p rel s).2.removed = [] := by
  unfold standaloneTail
  cases hr : fsRead w.fs p with
  | none => simp [hc, handleError]
  | some prev =>
    simp only
    generalize prettyDiff prev s rel 1 = dv
    by_cases hd : dv = []
    · simp [hd]
    · simp [hd, hu, handleError]

/-- **CI is read-only for every Match\* call**, and a missing snapshot fails the test. -/
theorem ci_match_readonly (w : World) (h : w.env.isCI = true) (c : Cfg) (p rel id s : Text) (cmp : Cmp) :
    (entryTail w c p rel id s cmp).1.fs = w.fs ∧ (entryTail w c p rel id s cmp).2.writes = [] ∧
    (standaloneTail w c p rel s).1.fs = w.fs ∧ (standaloneTail w c p rel s).2.writes = [] := by
  have g := ci_gates_closed w.env h c.update false
  have a := entryTail_readonly w c p rel id s cmp g.2.1 g.1
  have b := standaloneTail_readonly w c p rel s g.2.1 g.1
  exact ⟨a.1, a.2.1, b.1, b.2.1⟩

theorem ci_missing_fails (w : World) (h : w.env.isCI = true) (c : Cfg) (p rel id s : Text) (cmp : Cmp)
    (hmiss : (fsRead w.fs p).bind (getPrev id) = none) :
    (entryTail w c p rel id s cmp).2.events = [.error errNotFound] := by
  have g := ci_gates_closed w.env h c.update false
  unfold entryTail
  simp [hmiss, g.2.1, handleError]

/-- no function outside the modelled ones mutates the file system (fact read from the source) -/
def modelledWriters : List String :=
  ["addNewSnapshot", "examineFiles", "examineSnaps", "overwriteFile", "updateSnapshot", "upsertStandaloneSnapshot"]

theorem writers_closed : Generated.fsWriters.all (modelledWriters.contains ·) = true := by decide

/-- every call site of a writer is one of the modelled gates' callers -/
def modelledCallers : List (String × String) :=
  [("addNewSnapshot", "matchJSON"), ("addNewSnapshot", "matchSnapshot"), ("addNewSnapshot", "matchYAML"),
   ("examineFiles", "Clean"), ("examineSnaps", "Clean"), ("overwriteFile", "examineSnaps"),
   ("overwriteFile", "updateSnapshot"), ("updateSnapshot", "matchJSON"), ("updateSnapshot", "matchSnapshot"),
   ("updateSnapshot", "matchYAML"), ("upsertStandaloneSnapshot", "matchStandaloneJSON"),
   ("upsertStandaloneSnapshot", "matchStandaloneSnapshot")]

theorem writer_callers_closed : Generated.fsWriterCallers.all (modelledCallers.contains ·) = true := by decide

/-- non-vacuity: a CI environment with UPDATE_SNAPS=true, and an off-CI one -/
example : shouldUpdate { isCI := true, updateVAR := "true" } (some true) = false ∧
    shouldUpdate { isCI := false, updateVAR := "nope" } none = false ∧
    shouldUpdate { isCI := false, updateVAR := "true" } none = true ∧
    shouldCreate { isCI := false, updateVAR := "" } none = true := by decide

end GoSnaps.C05
