/- C19 — a standalone snapshot file is the formatted value and nothing else. -/
import GoSnaps.Model
namespace GoSnaps.C19

theorem fsRead_fsWrite_same (fs : FS) (p c : Text) : fsRead (fsWrite fs p c) p = some c := by
  induction fs with
  | nil => simp [fsWrite, fsRead]
  | cons e fs ih =>
    obtain ⟨p', c'⟩ := e
    simp only [fsWrite]
    split
    · simp [fsRead]
    · rename_i h; simp [fsRead, h, ih]

theorem fsRead_fsWrite_other (fs : FS) (p q c : Text) (h : q ≠ p) :
    fsRead (fsWrite fs p c) q = fsRead fs q := by
  have hpq : ¬ p = q := fun e => h e.symm
  induction fs with
  | nil => simp [fsWrite, fsRead, hpq]
  | cons e fs ih =>
    obtain ⟨p', c'⟩ := e
    simp only [fsWrite]
    split
    · rename_i e; subst e; simp [fsRead, hpq]
    · simp only [fsRead]; split <;> simp_all

/-- **standalone_exact**: whenever `standaloneTail` writes (creation, or update of a differing
file), the file's bytes are exactly the snapshot text — no header, terminator, escape or
newline is added, for every byte sequence. -/
theorem standalone_exact (w : World) (c : Cfg) (snapPath rel snapshot : Text)
    (hw : (standaloneTail w c snapPath rel snapshot).2.writes ≠ []) :
    fsRead (standaloneTail w c snapPath rel snapshot).1.fs snapPath = some snapshot := by
  unfold standaloneTail at *
  cases hr : fsRead w.fs snapPath with
  | none =>
    simp only [hr] at hw ⊢
    split at hw
    · simp [handleError] at hw
    · rename_i h; simp only [h]; simp [fsRead_fsWrite_same]
  | some prev =>
    simp only [hr] at hw ⊢
    split at hw
    · simp at hw
    · split at hw
      · simp [handleError] at hw
      · rename_i h1 h2; simp only [h1, h2]; simp [fsRead_fsWrite_same]

/-- every other file is left alone by a standalone call -/
theorem standalone_other_files (w : World) (c : Cfg) (snapPath rel snapshot q : Text) (hq : q ≠ snapPath) :
    fsRead (standaloneTail w c snapPath rel snapshot).1.fs q = fsRead w.fs q := by
  unfold standaloneTail
  cases hr : fsRead w.fs snapPath with
  | none =>
    simp only
    split
    · simp [handleError]
    · simp [fsRead_fsWrite_other _ _ _ _ hq]
  | some prev =>
    simp only
    split
    · rfl
    · split
      · simp [handleError]
      · simp [fsRead_fsWrite_other _ _ _ _ hq]

/-- **standalone_replay**: a file that holds exactly the value replays silently, whatever the
bytes are (carriage returns, terminator-like and header-like lines included): no event, no write. -/
theorem standalone_replay (w : World) (c : Cfg) (snapPath rel v : Text)
    (h : fsRead w.fs snapPath = some v) :
    (standaloneTail w c snapPath rel v).2.events = [] ∧
    (standaloneTail w c snapPath rel v).2.writes = [] ∧
    (standaloneTail w c snapPath rel v).1.fs = w.fs := by
  unfold standaloneTail
  simp [h, prettyDiff]

end GoSnaps.C19
