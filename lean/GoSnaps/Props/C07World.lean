/-
C07World — "Clean never discards a snapshot that was matched in this run", END TO END at the level
of worlds and histories: record (or replay) a history, call `Clean` in the same process, replay
the history in a fresh process.

Setting (as in `C01World.replay_history`): one test file `caller`, whose multi-entry snapshot file
is `p`; a `Scoped` history `h` of `MatchSnapshot`-style calls and `t.Cleanup`s; initial file state
`Holds fs₀ p es₀` with `Good es₀` — the entries of `es₀` MAY be stale (no call of `h` addresses
them: `hfresh`).  `Clean` is called with no `-run` filter (`runOnly = []`, so no oracle is ever
consulted: `C08.isFileSkipped_runOnly_empty`, `classified_noRun`) and `-count=1`.

Hypotheses beyond those of `replay_history`:

* `hrec₀ : ∀ e ∈ es₀, Recognised e`, `hrecH : ∀ e ∈ entriesOf h, Recognised e` — every header of
  the file is one the Go `getTestID` parses (`[Test… - <digits>]`, first `" - "` is the
  separator).  For the history's headers this follows from the test NAMES: `recognised_history`
  (names start with `Test` and contain no space — `testing` rewrites spaces of sub-test names to
  `_`).  It is needed: a header `getTestID` does not recognise is invisible to the scan of
  `examineSnaps`, so any rewrite (prune or sort) drops that entry.
* `hsup` — the model covers the `Clean` call (`unsupported = none`); with `runOnly = []` the only
  uncovered case left is `Sort(true)` on ids on which `natural.Less` is not a total order.

No hypothesis on the mode: `env` of the process that calls `Clean` is arbitrary beyond "creating"
(needed by the record run only), so report mode, clean mode (`UPDATE_SNAPS=clean|true`) and sort
mode are all covered; `env'` of the final replay is arbitrary.

Main theorems: `run_clean_replay` (core), `record_clean_replay`, `replay_clean_replay`,
`recognised_history`; concrete instance `Ex` at the end.
-/
import GoSnaps.Lemmas.CleanWorld
import GoSnaps.Props.C05Clean

namespace GoSnaps.C07World

open GoSnaps GoSnaps.C06Refine GoSnaps.Wld GoSnaps.C01World GoSnaps.CleanWorld
open GoSnaps.C03 (testID)
open GoSnaps.Generated (Env shouldCreate)

/-! ## 1. the core: any run of the history, then `Clean`, then a fresh replay -/

/-- **Core.**  Process 1 runs the history `h` (ANY environment `env₁` / config `c₁` addressing
`p`, from fresh registries on the file system `fs₁`) and afterwards `p` holds a `Good` entry list
`es` of recognised headers that contains all the history's entries.  `Clean` is then called in that
process (`runOnly = []`, `-count=1`, any `sortOpt`, any mode) and is covered by the model.  Then

1. a replay of `h` in a fresh process — ANY `env'`, any config addressing `p` — is entirely
   `Silent` (no event, no write, no removal), leaves the file system as `Clean` left it, and made
   one output per call;
2. `p` is not among the removed files;
3. `p` holds again a `Good` `CleanFile` `es'`, made of entries of `es` (same header, same body)
   and containing every entry of the history;
4. no id of the history is reported obsolete: for the `obsTests` of THE run of `Clean` (the
   `CleanRun` record is unique, its fields are function values);
5. every other path that was not removed reads as before. -/
theorem run_clean_replay (o : Oracles) (env₁ env' : Env) (c₁ c' : Cfg)
    (caller₁ caller' p rel₁ rel' : Text) (fs₁ : FS) (es : List Entry) (h : List Step)
    (sortOpt : Bool)
    (hsp₁ : ∀ t, snapshotPath c₁ caller₁ t false = (p, some rel₁))
    (hsp' : ∀ t, snapshotPath c' caller' t false = (p, some rel'))
    (hscoped : Scoped [] h)
    (hfile : Holds (run c₁ caller₁ { env := env₁, fs := fs₁ } h).1.fs p es)
    (hgood : Good es) (hrec : ∀ e ∈ es, Recognised e) (hall : ∀ e ∈ entriesOf h, e ∈ es)
    (hsup : (clean o (run c₁ caller₁ { env := env₁, fs := fs₁ } h).1 sortOpt [] 1).2.unsupported
      = none) :
    let w := (run c₁ caller₁ { env := env₁, fs := fs₁ } h).1
    let cl := clean o w sortOpt [] 1
    let rep := replayRun env' c' caller' cl.1 h
    (∀ out ∈ rep.2, Silent out) ∧ rep.1.fs = cl.1.fs ∧ rep.2.length = (calledNames h).length ∧
    p ∉ cl.2.removed ∧
    (∃ es', Holds cl.1.fs p es' ∧ Good es' ∧ CleanFile es' ∧ (∀ e ∈ entriesOf h, e ∈ es') ∧
      (∀ e ∈ es', e ∈ es)) ∧
    (∀ sa fr obsT fs wr, CleanRun o w sortOpt [] 1 sa fr obsT fs wr →
      ∀ e ∈ entriesOf h, tidOf e ∉ obsT) ∧
    (∀ q, q ≠ p → q ∉ cl.2.removed → fsRead cl.1.fs q = fsRead w.fs q) := by
  intro w cl rep
  have hreg : RegInv p w ((calledNames h).reverse ++ []) :=
    run_regInv c₁ caller₁ p (fun t => by rw [hsp₁ t]) h _ [] (RegInv.fresh p env₁ fs₁)
  obtain ⟨sa, fr, obsT, fs, wr, crun⟩ := clean_supported o w sortOpt [] 1 hsup
  have hcov : ∀ e ∈ entriesOf h, ∃ t k n, e.id = testID t k ∧ 1 ≤ k ∧ k ≤ n ∧
      ((p, t), n) ∈ w.cleanup := by
    intro e he
    obtain ⟨t, k, h1, h2, h3, h4⟩ := entriesFrom_bound h [] e he
    refine ⟨t, k, ((calledNames h).reverse ++ []).count t, h1, h2, ?_, hreg.mem t (by simp [h4])⟩
    simpa using h3
  have hf : CleanFile es := cleanFile_of_good hgood hrec
  have key := fun sa fr obsT fs wr crun =>
    clean_keeps o w sortOpt p es (entriesOf h) hreg.keys hreg.sclean hcov hf hfile hall
      sa fr obsT fs wr crun
  obtain ⟨k1, _, ⟨es', e1, e2, e3, e4⟩, k4⟩ := key _ _ _ _ _ crun
  have hcl1 : cl.1.fs = fs := by
    show (clean o w sortOpt [] 1).1.fs = fs
    rw [crun.result]
  have hrem : cl.2.removed = fr.removed := by
    show (clean o w sortOpt [] 1).2.removed = fr.removed
    rw [crun.result]
  have hg' : Good es' := good_of_subset hgood e4 e1.distinct
  have e2' : Holds cl.1.fs p es' := by rw [hcl1]; exact e2
  obtain ⟨q1, q2, q3⟩ := replay_run c' caller' p rel' hsp' es' hg' h
    { env := env', fs := cl.1.fs } [] (Inv.fresh p env' _ h) hscoped e2' (fun e he => e3 e he)
  refine ⟨q2, q1, q3, by rw [hrem]; exact k1, ⟨es', e2', hg', e1, e3, e4⟩, ?_, ?_⟩
  · intro sa fr obsT fs wr crun'
    exact (key _ _ _ _ _ crun').2.1
  · intro q hq hqr
    rw [hcl1]
    exact k4 q hq (by rw [← hrem]; exact hqr)

/-! ## 2. record → Clean → replay -/

/-- **`record_clean_replay`** (C07, end to end).  Hypotheses of `C01World.replay_history` (scoped
history, `Good` initial file that contains none of the history's headers — its entries are stale
for this run —, usable names and texts, NoShadow, creating mode) plus: all headers are recognised
by `getTestID` (`hrec₀`, `hrecH`; the latter from the names by `recognised_history`) and `Clean` is
covered by the model.  Conclusions 1–5 of `run_clean_replay`, with `es = es₀ ++ entriesOf h`:
in report mode, clean mode and sort mode alike the replay after `Clean` is entirely silent, the
file `p` is not removed, none of the history's ids is reported obsolete, and the file still holds
every entry of the history unchanged (what may have gone are stale entries of `es₀`). -/
theorem record_clean_replay (o : Oracles) (env env' : Env) (c c' : Cfg)
    (caller caller' p rel rel' : Text) (fs₀ : FS) (es₀ : List Entry) (h : List Step)
    (sortOpt : Bool)
    (hsp : ∀ t, snapshotPath c caller t false = (p, some rel))
    (hsp' : ∀ t, snapshotPath c' caller' t false = (p, some rel'))
    (hscoped : Scoped [] h)
    (hfile : Holds fs₀ p es₀) (hgood : Good es₀)
    (hfresh : ∀ id ∈ headers h, id ∉ fileLines es₀)
    (hnames : ∀ t ∈ calledNames h, NoNL t)
    (hbodies : ∀ s ∈ texts h, GoodBody s)
    (hns : ∀ s ∈ texts h, ∀ id ∈ ids es₀ ++ headers h, id ∉ lines s)
    (hcreate : shouldCreate env c.update = true)
    (hrec₀ : ∀ e ∈ es₀, Recognised e) (hrecH : ∀ e ∈ entriesOf h, Recognised e)
    (hsup : (clean o (recordRun env c caller fs₀ h).1 sortOpt [] 1).2.unsupported = none) :
    let rcd := recordRun env c caller fs₀ h
    let cl := clean o rcd.1 sortOpt [] 1
    let rep := replayRun env' c' caller' cl.1 h
    (∀ out ∈ rep.2, Silent out) ∧ rep.1.fs = cl.1.fs ∧ rep.2.length = (calledNames h).length ∧
    p ∉ cl.2.removed ∧
    (∃ es', Holds cl.1.fs p es' ∧ Good es' ∧ CleanFile es' ∧ (∀ e ∈ entriesOf h, e ∈ es') ∧
      (∀ e ∈ es', e ∈ es₀ ++ entriesOf h)) ∧
    (∀ sa fr obsT fs wr, CleanRun o rcd.1 sortOpt [] 1 sa fr obsT fs wr →
      ∀ e ∈ entriesOf h, tidOf e ∉ obsT) ∧
    (∀ q, q ≠ p → q ∉ cl.2.removed → fsRead cl.1.fs q = fsRead fs₀ q) := by
  intro rcd cl rep
  obtain ⟨_, r2, r3, r4, _⟩ := replay_history env env c c caller caller p rel rel fs₀ es₀ h hsp hsp
    hscoped hfile hgood hfresh hnames hbodies hns hcreate
  have hrec : ∀ e ∈ es₀ ++ entriesOf h, Recognised e := by
    intro e he
    rcases List.mem_append.mp he with he | he
    · exact hrec₀ e he
    · exact hrecH e he
  obtain ⟨a1, a2, a3, a4, a5, a6, a7⟩ := run_clean_replay o env env' c c' caller caller' p rel rel'
    fs₀ (es₀ ++ entriesOf h) h sortOpt hsp hsp' hscoped r2 r3 hrec
    (fun e he => List.mem_append.mpr (Or.inr he)) hsup
  refine ⟨a1, a2, a3, a4, a5, a6, ?_⟩
  intro q hq hqr
  exact (a7 q hq hqr).trans (r4 q hq)

/-! ## 3. record → (new process) replay + Clean → (new process) replay -/

/-- **`replay_clean_replay`.**  Process 1 records `h` (hypotheses of `replay_history`); process 2
— fresh registries, ANY environment `env₂` and config `c₂` addressing `p` — replays `h` and then
calls `Clean`; process 3 — fresh again, ANY `env'`, `c'` — replays `h`.  Both replays are entirely
silent, and conclusions 2–5 of `run_clean_replay` hold for the `Clean` of process 2. -/
theorem replay_clean_replay (o : Oracles) (env env₂ env' : Env) (c c₂ c' : Cfg)
    (caller caller₂ caller' p rel rel₂ rel' : Text) (fs₀ : FS) (es₀ : List Entry) (h : List Step)
    (sortOpt : Bool)
    (hsp : ∀ t, snapshotPath c caller t false = (p, some rel))
    (hsp₂ : ∀ t, snapshotPath c₂ caller₂ t false = (p, some rel₂))
    (hsp' : ∀ t, snapshotPath c' caller' t false = (p, some rel'))
    (hscoped : Scoped [] h)
    (hfile : Holds fs₀ p es₀) (hgood : Good es₀)
    (hfresh : ∀ id ∈ headers h, id ∉ fileLines es₀)
    (hnames : ∀ t ∈ calledNames h, NoNL t)
    (hbodies : ∀ s ∈ texts h, GoodBody s)
    (hns : ∀ s ∈ texts h, ∀ id ∈ ids es₀ ++ headers h, id ∉ lines s)
    (hcreate : shouldCreate env c.update = true)
    (hrec₀ : ∀ e ∈ es₀, Recognised e) (hrecH : ∀ e ∈ entriesOf h, Recognised e)
    (hsup : (clean o (replayRun env₂ c₂ caller₂ (recordRun env c caller fs₀ h).1 h).1
      sortOpt [] 1).2.unsupported = none) :
    let rcd := recordRun env c caller fs₀ h
    let rep₂ := replayRun env₂ c₂ caller₂ rcd.1 h
    let cl := clean o rep₂.1 sortOpt [] 1
    let rep := replayRun env' c' caller' cl.1 h
    (∀ out ∈ rep₂.2, Silent out) ∧ rep₂.1.fs = rcd.1.fs ∧
    (∀ out ∈ rep.2, Silent out) ∧ rep.1.fs = cl.1.fs ∧ rep.2.length = (calledNames h).length ∧
    p ∉ cl.2.removed ∧
    (∃ es', Holds cl.1.fs p es' ∧ Good es' ∧ CleanFile es' ∧ (∀ e ∈ entriesOf h, e ∈ es') ∧
      (∀ e ∈ es', e ∈ es₀ ++ entriesOf h)) ∧
    (∀ sa fr obsT fs wr, CleanRun o rep₂.1 sortOpt [] 1 sa fr obsT fs wr →
      ∀ e ∈ entriesOf h, tidOf e ∉ obsT) ∧
    (∀ q, q ≠ p → q ∉ cl.2.removed → fsRead cl.1.fs q = fsRead fs₀ q) := by
  intro rcd rep₂ cl rep
  obtain ⟨_, r2, r3, r4, r5, r6, _, _⟩ := replay_history env env₂ c c₂ caller caller₂ p rel rel₂ fs₀
    es₀ h hsp hsp₂ hscoped hfile hgood hfresh hnames hbodies hns hcreate
  have hrec : ∀ e ∈ es₀ ++ entriesOf h, Recognised e := by
    intro e he
    rcases List.mem_append.mp he with he | he
    · exact hrec₀ e he
    · exact hrecH e he
  have hfile₂ : Holds rep₂.1.fs p (es₀ ++ entriesOf h) := by
    show Holds (replayRun env₂ c₂ caller₂ (recordRun env c caller fs₀ h).1 h).1.fs p _
    rw [r6]; exact r2
  obtain ⟨a1, a2, a3, a4, a5, a6, a7⟩ := run_clean_replay o env₂ env' c₂ c' caller₂ caller' p rel₂
    rel' (recordRun env c caller fs₀ h).1.fs (es₀ ++ entriesOf h) h sortOpt hsp₂ hsp' hscoped hfile₂
    r3 hrec (fun e he => List.mem_append.mpr (Or.inr he)) hsup
  refine ⟨r5, r6, a1, a2, a3, a4, a5, a6, ?_⟩
  intro q hq hqr
  have h1 : fsRead rep₂.1.fs q = fsRead rcd.1.fs q := by
    show fsRead (replayRun env₂ c₂ caller₂ (recordRun env c caller fs₀ h).1 h).1.fs q = _
    rw [r6]
  exact ((a7 q hq hqr).trans h1).trans (r4 q hq)

/-! ## 4. recognised headers, from the test names -/

theorem indexOf_go_sep (a b : Text) (n : Nat) (ha : (32 : Byte) ∉ a) :
    indexOf.go [32, 45, 32] (a ++ [32, 45, 32] ++ b) n = some (n + a.length) := by
  induction a generalizing n with
  | nil => simp [indexOf.go]
  | cons x a ih =>
    have hx : (32 : Byte) ≠ x := fun e => ha (by simp [e])
    have ha' : (32 : Byte) ∉ a := fun e => ha (by simp [e])
    simp only [List.cons_append, indexOf.go]
    have hp : List.isPrefixOf [32, 45, 32] (x :: (a ++ [32, 45, 32] ++ b)) = false := by
      simp [List.isPrefixOf, hx]
    simp only [List.append_assoc, List.cons_append, List.nil_append] at hp ih ⊢
    rw [hp]
    simp only [Bool.false_eq_true, ↓reduceIte]
    rw [ih (n + 1) ha']
    simp only [List.length_cons]
    congr 1; omega

/-- **`getTestID` parses back the header of every test whose name contains no space** (Go test
names never do: `testing` rewrites the spaces of sub-test names to `_`), whatever the name starts
with (`Test…`, `Fuzz…`, `Benchmark…`) -/
theorem getTestID_testID (t : Text) (k : Nat) (hsp : (32 : Byte) ∉ t) :
    getTestID (testID t k) = some (t ++ [32, 45, 32] ++ natToText k) := by
  have hb : testID t k = (91 :: t) ++ [32, 45, 32] ++ (natToText k ++ [93]) := by simp [testID]
  have h1 : testID t k ≠ [] := C03.testID_ne_nil t k
  have h2 : hasPrefix (testID t k) Generated.headerPrefix = true := by
    simp [testID, hasPrefix, Generated.headerPrefix]
  have h3 : (testID t k).getLast? = some 93 := by
    have : testID t k = (91 :: t ++ [32, 45, 32] ++ natToText k) ++ [93] := by simp [testID]
    rw [this]; exact List.getLast?_concat
  have h4 : indexOf (testID t k) Generated.idSep = some (t.length + 1) := by
    show indexOf.go [32, 45, 32] (testID t k) 0 = _
    have h32 : (32 : Byte) ∉ (91 :: t) := by
      intro hm
      rcases List.mem_cons.mp hm with h | h
      · exact absurd h (by decide)
      · exact hsp h
    rw [hb, indexOf_go_sep (91 :: t) _ 0 h32]
    simp
  have hA : ((91 :: t) ++ [32, 45, 32]).length = t.length + 1 + 3 := by simp
  have hlen : (testID t k).length = t.length + 1 + 3 + (natToText k).length + 1 := by
    rw [hb]; simp only [List.length_append, List.length_cons, List.length_nil]; omega
  have h5 : ((testID t k).drop (t.length + 1 + 3)).take
      ((testID t k).length - 1 - (t.length + 1 + 3)) = natToText k := by
    rw [hlen, hb, List.drop_left' hA]
    have : t.length + 1 + 3 + (natToText k).length + 1 - 1 - (t.length + 1 + 3) =
        (natToText k).length := by omega
    rw [this, List.take_left' rfl]
  have h6 : isNumber (natToText k) = true := by
    simp only [isNumber, List.all_eq_true, isDigit, Bool.and_eq_true, decide_eq_true_eq]
    exact C03.natToText_digits k
  have h7 : ((testID t k).drop 1).take ((testID t k).length - 2) =
      t ++ [32, 45, 32] ++ natToText k := tidOf_testID t [] k
  have hsl : Generated.idSep.length = 3 := rfl
  have hlo : ¬ (t.length + 1 + 3 > (testID t k).length - 1) := by rw [hlen]; omega
  unfold getTestID
  rw [if_neg h1]
  simp only [h2, h3, h4, hsl, Bool.not_true, ne_eq, not_true_eq_false, decide_false, Bool.or_self,
    Bool.false_eq_true, ↓reduceIte, hlo, h5, h6, h7]

theorem recognised_testID (t s : Text) (k : Nat) (hsp : (32 : Byte) ∉ t) : Recognised ⟨testID t k, s⟩ := by
  unfold Recognised
  rw [getTestID_testID t k hsp, tidOf_testID]

/-- **all headers of a history are recognised** when the test names contain no space: discharges
`hrecH` of the main theorems -/
theorem recognised_history (h : List Step)
    (hn : ∀ t ∈ calledNames h, (32 : Byte) ∉ t) :
    ∀ e ∈ entriesOf h, Recognised e := by
  intro e he
  obtain ⟨t, k, hid, _, ht⟩ := entriesFrom_ids h [] e he
  have h2 := hn t ht
  have : e = ⟨testID t k, e.body⟩ := by cases e; simp only at hid; rw [hid]
  rw [this]
  exact recognised_testID t e.body k h2

/-- … it IS needed: the sub-test name `Test/a - b` contains the separator, `getTestID` stops at
the first `" - "`, finds `b - 1` where it expects digits, and does not recognise the header; a
name that does not start with `Test` is recognised (it was not before the repair of D11) -/
example :
    getTestID (testID [84, 101, 115, 116, 47, 97, 32, 45, 32, 98] 1) = none ∧
    getTestID (testID [65] 1) = some [65, 32, 45, 32, 49] ∧
    getTestID (testID [84, 101, 115, 116, 65] 12) =
      some [84, 101, 115, 116, 65, 32, 45, 32, 49, 50] := by decide

/-! ## 5. a concrete instance (non-vacuity)

Test file "/t/a_test.go" (snapshot file `exPath` = "/t/__snapshots__/a_test.snap").  The file
initially holds ONE STALE entry "[TestZ - 1]" (body "q") that no call of the run addresses.
History (as `C01World.exHistory`, with recognisable names): tests "TestA" (`testing.T` number 1)
and "TestB" (number 2, parallel, interleaved); TestA records "x" and "x\n\ny" and is `done` before
TestB's last call; TestB records "z" and "zz".  The process runs off CI with `UPDATE_SNAPS=clean`
(`cleanSnapsUpdate = true`) and calls `Clean` with `Sort(true)`.

(`Scoped` forbids calling a name again after ITS `testing.T` is done — with `-count=1` every test
function runs once —, so "executed twice" is represented by the two calls of each test, which get
ordinals 1 and 2.)

Byte legend: `[84,101,115,116,65]` = "TestA", `…66` = "TestB", `…90` = "TestZ". -/

namespace Ex

def tA : Text := [84, 101, 115, 116, 65]
def tB : Text := [84, 101, 115, 116, 66]
def tZ : Text := [84, 101, 115, 116, 90]

def hist : List Step :=
  [.call tA [120] .escaped 1, .call tB [122] .raw 2, .call tA [120, 10, 10, 121] .escaped 1,
   .done 1, .call tB [122, 122] .raw 2, .done 2]

/-- the stale initial entry -/
def es₀ : List Entry := [⟨testID tZ 1, [113]⟩]
def fs₀ : FS := [(exPath, render es₀)]

/-- off CI, `UPDATE_SNAPS=clean` -/
def envClean : Env := ⟨false, "clean"⟩

example : Generated.cleanSnapsUpdate envClean true = true ∧
    Generated.cleanSnapsSort envClean true = true ∧ Generated.cleanFilesUpdate envClean true = true := by
  decide

example : entriesOf hist =
    [⟨testID tA 1, [120]⟩, ⟨testID tB 1, [122]⟩, ⟨testID tA 2, [120, 10, 10, 121]⟩,
     ⟨testID tB 2, [122, 122]⟩] := by decide +kernel

/-- all hypotheses of `record_clean_replay` hold, `hsup` included … -/
theorem hyps :
    Scoped [] hist ∧ Holds fs₀ exPath es₀ ∧ Good es₀ ∧
    (∀ id ∈ headers hist, id ∉ fileLines es₀) ∧ (∀ t ∈ calledNames hist, NoNL t) ∧
    (∀ s ∈ texts hist, GoodBody s) ∧
    (∀ s ∈ texts hist, ∀ id ∈ ids es₀ ++ headers hist, id ∉ lines s) ∧
    shouldCreate envClean ({} : Cfg).update = true ∧
    (∀ e ∈ es₀, Recognised e) ∧ (∀ e ∈ entriesOf hist, Recognised e) ∧
    (clean {} (recordRun envClean {} exCaller fs₀ hist).1 true [] 1).2.unsupported = none :=
  ⟨by decide +kernel, Or.inl (by decide +kernel), by decide +kernel, by decide +kernel,
   by decide +kernel, by decide +kernel, by decide +kernel, by decide, by decide +kernel,
   recognised_history hist (by decide +kernel), by decide +kernel⟩

/-- … so the theorem applies (final replay on CI with UPDATE_SNAPS=true) … -/
example :=
  record_clean_replay {} envClean ⟨true, "true"⟩ {} {} exCaller exCaller exPath exRel exRel
    fs₀ es₀ hist true exPath_spec exPath_spec hyps.1 hyps.2.1 hyps.2.2.1 hyps.2.2.2.1
    hyps.2.2.2.2.1 hyps.2.2.2.2.2.1 hyps.2.2.2.2.2.2.1 hyps.2.2.2.2.2.2.2.1
    hyps.2.2.2.2.2.2.2.2.1 hyps.2.2.2.2.2.2.2.2.2.1 hyps.2.2.2.2.2.2.2.2.2.2

/-- … and this is what happens, by evaluation: the record run appends the four entries after the
stale one; `Clean` reports "TestZ - 1", prunes it and writes the file SORTED (A1, A2, B1, B2);
nothing is removed; the replay in a fresh process is silent and leaves the file system alone -/
example :
    let rcd := recordRun envClean {} exCaller fs₀ hist
    let cl := clean {} rcd.1 true [] 1
    let rep := replayRun ⟨true, "true"⟩ {} exCaller cl.1 hist
    fsRead rcd.1.fs exPath = some (render (es₀ ++ entriesOf hist)) ∧
    cl.2.unsupported = none ∧ cl.2.writes = [exPath] ∧ cl.2.removed = [] ∧
    cl.1.fs = [(exPath, render [⟨testID tA 1, [120]⟩, ⟨testID tA 2, [120, 10, 10, 121]⟩,
      ⟨testID tB 1, [122]⟩, ⟨testID tB 2, [122, 122]⟩])] ∧
    rep.2.map (·.events) = List.replicate 4 [] ∧ rep.2.map (·.writes) = List.replicate 4 [] ∧
    rep.1.fs = cl.1.fs := by decide +kernel

/-- the same history in REPORT mode with `Sort(true)` (off CI, `UPDATE_SNAPS` unset): the stale
entry is kept (and reported), the file is sorted, the replay is silent again -/
example :
    let rcd := recordRun ⟨false, ""⟩ {} exCaller fs₀ hist
    let cl := clean {} rcd.1 true [] 1
    let rep := replayRun ⟨true, "true"⟩ {} exCaller cl.1 hist
    cl.2.unsupported = none ∧ cl.2.writes = [exPath] ∧ cl.2.removed = [] ∧
    cl.1.fs = [(exPath, render [⟨testID tA 1, [120]⟩, ⟨testID tA 2, [120, 10, 10, 121]⟩,
      ⟨testID tB 1, [122]⟩, ⟨testID tB 2, [122, 122]⟩, ⟨testID tZ 1, [113]⟩])] ∧
    rep.2.map (·.events) = List.replicate 4 [] ∧ rep.1.fs = cl.1.fs := by decide +kernel

/-- process 2 replays (on CI) and cleans, process 3 replays: `replay_clean_replay` applies; its
`hsup` by evaluation -/
example :=
  replay_clean_replay {} envClean envClean ⟨true, "true"⟩ {} {} {} exCaller exCaller exCaller exPath
    exRel exRel exRel fs₀ es₀ hist true exPath_spec exPath_spec exPath_spec hyps.1 hyps.2.1
    hyps.2.2.1 hyps.2.2.2.1 hyps.2.2.2.2.1 hyps.2.2.2.2.2.1 hyps.2.2.2.2.2.2.1
    hyps.2.2.2.2.2.2.2.1 hyps.2.2.2.2.2.2.2.2.1 hyps.2.2.2.2.2.2.2.2.2.1 (by decide +kernel)

/-- `hrecH` is needed: a (mock) test named "A - b" records "[A - b - 1]", which `getTestID` does
not recognise (it stops at the first separator); pruning the stale "[TestZ - 1]" rewrites the file
from the scanned ids only, the entry is gone, and the replay (on CI) fails with "snapshot not found" -/
example :
    let h : List Step := [.call [65, 32, 45, 32, 98] [120] .raw 1]
    let rcd := recordRun envClean {} exCaller fs₀ h
    let cl := clean {} rcd.1 false [] 1
    let rep := replayRun ⟨true, ""⟩ {} exCaller cl.1 h
    ¬ (∀ e ∈ entriesOf h, Recognised e) ∧
    fsRead rcd.1.fs exPath = some (render (es₀ ++ entriesOf h)) ∧
    cl.2.unsupported = none ∧ cl.2.writes = [exPath] ∧ fsRead cl.1.fs exPath = some [] ∧
    rep.2.map (·.events) = [[.error errNotFound]] := by decide +kernel

end Ex

/-
Axioms (checked with `#print axioms` on Lean 4.33.0):

  'GoSnaps.C07World.run_clean_replay'    depends on axioms: [propext, Classical.choice, Quot.sound]
  'GoSnaps.C07World.record_clean_replay' depends on axioms: [propext, Classical.choice, Quot.sound]
  'GoSnaps.C07World.replay_clean_replay' depends on axioms: [propext, Classical.choice, Quot.sound]
  'GoSnaps.C07World.recognised_history'  depends on axioms: [propext, Classical.choice, Quot.sound]
  'GoSnaps.C07World.getTestID_testID'    depends on axioms: [propext, Classical.choice, Quot.sound]
  'GoSnaps.C07World.Ex.hyps'             depends on axioms: [propext, Classical.choice, Quot.sound]
  'GoSnaps.CleanWorld.clean_keeps'       depends on axioms: [propext, Classical.choice, Quot.sound]
  'GoSnaps.CleanWorld.go_keeps'          depends on axioms: [propext, Classical.choice, Quot.sound]
  'GoSnaps.CleanWorld.run_regInv'        depends on axioms: [propext, Quot.sound]
-/

end GoSnaps.C07World
