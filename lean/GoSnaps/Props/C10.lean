/- C10: statements are being proved (see git history); placeholder keeps the module buildable. -/
import GoSnaps.Clean
namespace GoSnaps.C10
theorem isNumber_nil : isNumber [] = true := by decide
end GoSnaps.C10
