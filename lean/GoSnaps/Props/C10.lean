/-
C10 — Clean's rewrites preserve content; sorting is an idempotent permutation.

Statements only; the proofs call `Lemmas/Clean.lean`.  Everything is about the executable model
definitions in Clean.lean / Natural.lean / Format.lean (compared with the real code by the
correspondence suites `clean.*`).

`exScan` takes `examineSnaps`' own `update` flag: a stale entry is always reported, but its body
is skipped only when `update = true`; in report-only mode it is collected like a kept one, so a
sort-only rewrite re-emits it (repair of defect D5).

Setting: a snapshot file `render es` that is a `CleanFile`: every header is recognised by
`getTestID` (`Recognised`: `e.id = "[" ++ tid ++ "]"` and `getTestID e.id = some tid`), the ids are
distinct, the bodies are `Escaped`, the lines are scanner-clean (`C01.WF`).  (`getTestID` never
panics: `getTestID_never_panics`.)  An id is *kept* (`keptId`) when it is registered in
this run or protected by the skip rules, *stale* (`staleId`) when it is neither;
`Classified` = no oracle miss.
-/
import GoSnaps.Lemmas.Clean
import GoSnaps.Props.C01
namespace GoSnaps.C10

open GoSnaps

theorem CleanFile.wf {es : List Entry} (h : CleanFile es) : C01.WF es := ⟨h.idNoNL, h.noCR⟩

/-- `Recognised` in the form of the task statement -/
theorem recognised_def (e : Entry) :
    Recognised e ↔ ∃ tid, e.id = 91 :: tid ++ [93] ∧ getTestID e.id = some tid :=
  recognised_iff e

/-- the slice expression of `getTestID` is never out of range, so the model's `.panics` outcome
    is unreachable and needs no hypothesis -/
theorem getTestID_never_panics (b : Text) : getTestIDPanics b = false := getTestIDPanics_false b

/-! ## 1. the scan of a rendered file -/

/-- **General form.** Scanning `render es`: every id is listed; exactly the stale ids are
reported, in file order, and `hasDiffs` says whether there is a stale one; the *stored* entries
(each with `body ++ "\n"`) are the kept ones when `update = true`, and ALL entries, kept and
stale, when `update = false` (a report-only run collects a stale body instead of skipping it, so
that a sort-only rewrite re-emits it).  Body lines are consumed in collecting/skipping mode and
never tested with `getTestID`, so header-looking body lines are harmless (no such hypothesis
appears). -/
theorem exScan_render (o : Oracles) (registered skipped : List Text) (runOnly : Text)
    (update : Bool) (es : List Entry) (hf : CleanFile es)
    (hcls : ∀ e ∈ es, Classified o registered skipped runOnly (tidOf e)) :
    exScan o registered skipped runOnly update (scan (render es)) .outer {} =
      { testIDs := es.map tidOf,
        tests := (es.filter (fun e => keptId o registered skipped runOnly (tidOf e) || !update)).map
          (fun e => (tidOf e, e.body ++ [nl])),
        obsolete := (es.filter (fun e => !keptId o registered skipped runOnly (tidOf e))).map tidOf,
        hasDiffs := es.any (fun e => !keptId o registered skipped runOnly (tidOf e)),
        missing := false } :=
  exScan_cleanFile o registered skipped runOnly update es hf hcls

/-- clean mode: only the kept entries are stored -/
theorem exScan_render_clean (o : Oracles) (registered skipped : List Text) (runOnly : Text)
    (es : List Entry) (hf : CleanFile es)
    (hcls : ∀ e ∈ es, Classified o registered skipped runOnly (tidOf e)) :
    (exScan o registered skipped runOnly true (scan (render es)) .outer {}).tests =
      (es.filter (fun e => keptId o registered skipped runOnly (tidOf e))).map
        (fun e => (tidOf e, e.body ++ [nl])) := by
  rw [exScan_render o registered skipped runOnly true es hf hcls]; simp

/-- report-only mode: every entry is stored, stale ones included -/
theorem exScan_render_report (o : Oracles) (registered skipped : List Text) (runOnly : Text)
    (es : List Entry) (hf : CleanFile es)
    (hcls : ∀ e ∈ es, Classified o registered skipped runOnly (tidOf e)) :
    (exScan o registered skipped runOnly false (scan (render es)) .outer {}).tests =
      es.map (fun e => (tidOf e, e.body ++ [nl])) := by
  rw [exScan_render o registered skipped runOnly false es hf hcls]
  have : es.filter (fun e => keptId o registered skipped runOnly (tidOf e) || !false) = es :=
    List.filter_eq_self.mpr (fun _ _ => by simp)
  simp only [this]

/-- every id registered or skip-protected: nothing is obsolete, nothing differs -/
theorem exScan_render_all_kept (o : Oracles) (registered skipped : List Text) (runOnly : Text)
    (update : Bool) (es : List Entry) (hf : CleanFile es)
    (hall : ∀ e ∈ es, keptId o registered skipped runOnly (tidOf e) = true) :
    exScan o registered skipped runOnly update (scan (render es)) .outer {} =
      { testIDs := es.map tidOf, tests := es.map (fun e => (tidOf e, e.body ++ [nl])),
        obsolete := [], hasDiffs := false, missing := false } := by
  rw [exScan_render o registered skipped runOnly update es hf (fun e he => Or.inl (hall e he))]
  have h1 : es.filter (fun e => keptId o registered skipped runOnly (tidOf e) || !update) = es :=
    List.filter_eq_self.mpr (fun e he => by simp [hall e he])
  have h2 : es.any (fun e => !keptId o registered skipped runOnly (tidOf e)) = false := by
    rw [List.any_eq_false]; intro e he; simp [hall e he]
  rw [h1, h2, filter_eq_nil_of_any_false _ _ h2]; rfl

/-- without distinctness of the ids the stored map is "last assignment wins" (Go map) -/
theorem exScan_render_lastWins (o : Oracles) (registered skipped : List Text) (runOnly : Text)
    (update : Bool)
    (es : List Entry) (hrec : ∀ e ∈ es, Recognised e) (hesc : ∀ e ∈ es, Escaped e.body)
    (hcls : ∀ e ∈ es, Classified o registered skipped runOnly (tidOf e)) :
    (exScan o registered skipped runOnly update (fileLines es) .outer {}).tests =
      ((es.filter (fun e => keptId o registered skipped runOnly (tidOf e) || !update)).map
        (fun e => (tidOf e, e.body ++ [nl]))).foldl (fun m kv => testsSet m kv.1 kv.2) [] := by
  rw [exScan_fileLines_nil o registered skipped runOnly update es hrec hesc hcls,
    foldl_stepEntry_tests]
  rfl

/-- concrete file: `[TestB - 1]` (stale; its body contains the header-looking line
    `[TestZ - 9]`) followed by `[TestA - 1]` (registered); clean mode, then report-only mode -/
example :
    let e1 : Entry := ⟨[91, 84, 101, 115, 116, 66, 32, 45, 32, 49, 93],
      [120, 10, 91, 84, 101, 115, 116, 90, 32, 45, 32, 57, 93]⟩
    let e2 : Entry := ⟨[91, 84, 101, 115, 116, 65, 32, 45, 32, 49, 93], [121]⟩
    CleanFile [e1, e2] ∧
    exScan {} [[84, 101, 115, 116, 65, 32, 45, 32, 49]] [] [] true (scan (render [e1, e2])) .outer {} =
      { testIDs := [[84, 101, 115, 116, 66, 32, 45, 32, 49], [84, 101, 115, 116, 65, 32, 45, 32, 49]],
        tests := [([84, 101, 115, 116, 65, 32, 45, 32, 49], [121, 10])],
        obsolete := [[84, 101, 115, 116, 66, 32, 45, 32, 49]],
        hasDiffs := true, missing := false } ∧
    exScan {} [[84, 101, 115, 116, 65, 32, 45, 32, 49]] [] [] false (scan (render [e1, e2])) .outer {} =
      { testIDs := [[84, 101, 115, 116, 66, 32, 45, 32, 49], [84, 101, 115, 116, 65, 32, 45, 32, 49]],
        tests := [([84, 101, 115, 116, 66, 32, 45, 32, 49],
                   [120, 10, 91, 84, 101, 115, 116, 90, 32, 45, 32, 57, 93, 10]),
                  ([84, 101, 115, 116, 65, 32, 45, 32, 49], [121, 10])],
        obsolete := [[84, 101, 115, 116, 66, 32, 45, 32, 49]],
        hasDiffs := true, missing := false } :=
  ⟨⟨by decide, by decide, by decide, by decide, by decide⟩, by decide, by decide⟩

/-! ## 2. the rewrite loop re-emits the original frame -/

theorem cleanFrame_eq (tid body : Text) :
    cleanFrame tid (body ++ [nl]) = some (frame ⟨91 :: tid ++ [93], body⟩) :=
  GoSnaps.cleanFrame_eq tid body

example : cleanFrame [84, 101, 115, 116, 65, 32, 45, 32, 49] [121, 10, 122, 10] =
    some (frame ⟨[91, 84, 101, 115, 116, 65, 32, 45, 32, 49, 93], [121, 10, 122]⟩) := by decide

/-! ## 3. a rewrite preserves every kept entry -/

/-- **What a rewrite writes.** With the scan result of `exScan_render` (`tests` = the stored
entries, i.e. those selected by `K`: the kept ones in clean mode, all of them in report-only
mode) and *any* id list `ids`, the rewrite loop never fails and writes exactly
`render (reorder stored ids)`: the stored entries selected and ordered by `ids`, each with its
original header and body, byte for byte. -/
theorem rewrite_preserves (es : List Entry) (hf : CleanFile es) (K : Text → Bool) (ids : List Text) :
    let kept := es.filter (fun e => K (tidOf e))
    let frames := rewriteFrames (kept.map (fun e => (tidOf e, e.body ++ [nl]))) ids
    frames.any (·.isNone) = false ∧
    (frames.filterMap (fun x => x)).flatten = render (reorder kept ids) :=
  have hrec : ∀ e ∈ es.filter (fun e => K (tidOf e)), Recognised e :=
    fun e he => hf.recognised e (List.mem_filter.mp he).1
  ⟨rewriteFrames_noFail _ ids hrec, rewriteFrames_bytes _ ids hrec⟩

/-- for a permutation `ids` of the file's ids the written entries are a permutation of the kept
    entries; for the file's own order they are the kept entries in file order -/
theorem rewrite_is_perm (es : List Entry) (hf : CleanFile es) (K : Text → Bool) (ids : List Text)
    (hperm : ids.Perm (es.map tidOf)) :
    (reorder (es.filter (fun e => K (tidOf e))) ids).Perm (es.filter (fun e => K (tidOf e))) :=
  reorder_perm es _ ids hf.distinct hperm

theorem rewrite_same_order (es : List Entry) (hf : CleanFile es) (K : Text → Bool) :
    reorder (es.filter (fun e => K (tidOf e))) (es.map tidOf) = es.filter (fun e => K (tidOf e)) :=
  reorder_filter_self es _ hf.distinct

/-- **Each kept entry replays the same body** after any rewrite along a permutation `ids`:
`getPrevSnapshot` on the rewritten file returns the original body.  `hns` excludes bodies that
contain a line equal to another entry's header (finding D9, needed by `C01.getPrev_render`). -/
theorem kept_replays (es : List Entry) (hf : CleanFile es)
    (hns : ∀ a ∈ es, ∀ b ∈ es, a.id ∉ lines b.body)
    (K : Text → Bool) (ids : List Text) (hperm : ids.Perm (es.map tidOf))
    (pre : List Entry) (e : Entry) (post : List Entry)
    (hsplit : reorder (es.filter (fun e => K (tidOf e))) ids = pre ++ e :: post) :
    getPrev e.id (render (pre ++ e :: post)) = some (e.body, (fileLines pre).length + 2) := by
  obtain ⟨hf2, hsub'⟩ := cleanFile_reorder es hf (fun e => K (tidOf e)) ids hperm
  have hsub := fun e he => (hsub' e he).1
  rw [hsplit] at hf2 hsub
  have hid := (hf2.recognised e (by simp)).id_eq
  exact C01.getPrev_render pre e post (CleanFile.wf hf2) (by rw [hid]; simp)
    (hf2.escaped e (by simp))
    (hf2.noShadow (fun b hb => hns e (hsub e (by simp)) b (hsub b (by simp [hb]))))

/-- the rewritten three-entry file of the idempotence example below: both survivors replay -/
example :
    let e2 : Entry := ⟨[91, 84, 101, 115, 116, 66, 32, 45, 32, 49, 93], [121]⟩
    let e3 : Entry := ⟨[91, 84, 101, 115, 116, 65, 32, 45, 32, 50, 93], [122]⟩
    getPrev e3.id (render [e3, e2]) = some ([122], 2) ∧
    getPrev e2.id (render [e3, e2]) = some ([121], 6) := by decide

/-- **User-facing: pruning.**  `examineSnaps` on one used file, `update = true`, `sort = false`,
at least one stale entry: reports the stale ids and writes exactly the kept entries, unchanged and
in file order. -/
theorem clean_update_writes_kept (o : Oracles) (fs : FS) (cleanup : List (RegKey × Nat))
    (skipped : List Text) (p runOnly : Text) (count : Nat) (registered : List Text)
    (es : List Entry) (hf : CleanFile es) (hread : fsRead fs p = some (render es))
    (hreg : registeredFor cleanup p count = some registered)
    (hcls : ∀ e ∈ es, Classified o registered skipped runOnly (tidOf e))
    (hstale : es.any (fun e => !keptId o registered skipped runOnly (tidOf e)) = true) :
    examineSnaps o fs cleanup skipped [p] runOnly count true false =
      .ok ((es.filter (fun e => !keptId o registered skipped runOnly (tidOf e))).map tidOf)
        (fsWrite fs p (render (es.filter (fun e => keptId o registered skipped runOnly (tidOf e)))))
        [p] := by
  rw [examineSnaps_single o registered skipped runOnly fs cleanup p count true false es hf hread
    hreg hcls]
  simp [cleanOutcome, hstale, reorder_filter_self es _ hf.distinct]

/-- **User-facing: files needing neither pruning nor sorting are not written.**  Nothing stale,
and either `sort = false` or the ids already sorted: no write, `fs` unchanged, nothing reported
(whatever `update` is). -/
theorem clean_nothing_to_do (o : Oracles) (fs : FS) (cleanup : List (RegKey × Nat))
    (skipped : List Text) (p runOnly : Text) (count : Nat) (update sort : Bool)
    (registered : List Text)
    (es : List Entry) (hf : CleanFile es) (hread : fsRead fs p = some (render es))
    (hreg : registeredFor cleanup p count = some registered)
    (hall : ∀ e ∈ es, keptId o registered skipped runOnly (tidOf e) = true)
    (hsorted : sort = false ∨ isSortedNat (es.map tidOf) = true) :
    examineSnaps o fs cleanup skipped [p] runOnly count update sort = .ok [] fs [] := by
  rw [examineSnaps_single o registered skipped runOnly fs cleanup p count update sort es hf hread
    hreg (fun e he => Or.inl (hall e he))]
  have h2 : es.any (fun e => !keptId o registered skipped runOnly (tidOf e)) = false := by
    rw [List.any_eq_false]; intro e he; simp [hall e he]
  have h3 : (sort && !(isSortedNat (es.map tidOf))) = false := by
    rcases hsorted with h | h <;> simp [h]
  simp [cleanOutcome, h2, h3, filter_eq_nil_of_any_false _ _ h2]

/-- concrete run: the two-entry file above, `TestA` registered once with `-count=1`:
    the stale `[TestB - 1]` is reported and dropped, `[TestA - 1]` is written back verbatim -/
example :
    let e1 : Entry := ⟨[91, 84, 101, 115, 116, 66, 32, 45, 32, 49, 93],
      [120, 10, 91, 84, 101, 115, 116, 90, 32, 45, 32, 57, 93]⟩
    let e2 : Entry := ⟨[91, 84, 101, 115, 116, 65, 32, 45, 32, 49, 93], [121]⟩
    let p : Text := [47, 115, 47, 97, 46, 115, 110, 97, 112]
    examineSnaps {} [(p, render [e1, e2])] [((p, [84, 101, 115, 116, 65]), 1)] [] [p] [] 1 true false =
      .ok [[84, 101, 115, 116, 66, 32, 45, 32, 49]] [(p, render [e2])] [p] := by decide

/-! ## 4. the natural sort is an idempotent permutation -/

/-- the sort permutes (no hypothesis on the comparator) -/
theorem sortNat_perm (l : List Text) : (sortNat l).Perm l := GoSnaps.sortNat_perm l

/-- `natLt a a` is false for every `a`, so `TotalOn` only asks for transitivity and totality -/
theorem natLt_irrefl (a : Text) : natLt a a = false := GoSnaps.natLt_irrefl a

/-- when the comparator is a strict total order on the ids present, the result is pairwise
    ordered — exactly the check `examineSnaps` makes before trusting the sort -/
theorem sortNat_sorted (l : List Text) (ht : TotalOn l) : allPairsOrdered (sortNat l) = true :=
  (allPairsOrdered_iff _).mpr (sortNat_pairwise l ht)

/-- every two ids are comparable when the comparator is total on them (the second half of the
    check; invariant under permutation: `pairwiseComparable_perm`) -/
theorem pairwiseComparable_of_totalOn (l : List Text) (ht : TotalOn l) :
    pairwiseComparable l = true := GoSnaps.pairwiseComparable_of_totalOn l ht

/-- so under `TotalOn` the sort step of `examineSnaps` is never `.unsupportedOrder` -/
theorem sort_supported (l : List Text) (ht : TotalOn l) :
    (allPairsOrdered (sortNat l) && pairwiseComparable (sortNat l)) = true :=
  sort_check_passes l ht

/-- **`natLt` is not total on realistic ids**: `"T01 - 1"` vs `"T1 - 1"` — the digit runs are
numerically equal, differ only in a leading zero, and are followed by identical text, so
`natural.Less` is false both ways (`TotalOn` fails, `slices.SortFunc`'s result is unspecified, and
the model answers `.unsupportedOrder`).  The shorter pair `"T01"`/`"T1"` does NOT show it: there
one side is exhausted after the digit run and the lexical fallback decides. -/
theorem natLt_not_total :
    natLt [84, 48, 49, 32, 45, 32, 49] [84, 49, 32, 45, 32, 49] = false ∧
    natLt [84, 49, 32, 45, 32, 49] [84, 48, 49, 32, 45, 32, 49] = false ∧
    pairwiseComparable [[84, 48, 49, 32, 45, 32, 49], [84, 49, 32, 45, 32, 49]] = false ∧
    natLt [84, 48, 49] [84, 49] = true := by decide

/-- a file holding `[TestB - 1]`, `[Test01 - 1]`, `[Test1 - 1]` (all registered) and asked to be
    sorted: the old check `allPairsOrdered` alone passes, the model now refuses it -/
example :
    let e1 : Entry := ⟨[91, 84, 101, 115, 116, 66, 32, 45, 32, 49, 93], [120]⟩
    let e2 : Entry := ⟨[91, 84, 101, 115, 116, 48, 49, 32, 45, 32, 49, 93], [121]⟩
    let e3 : Entry := ⟨[91, 84, 101, 115, 116, 49, 32, 45, 32, 49, 93], [122]⟩
    let p : Text := [47, 115, 47, 97, 46, 115, 110, 97, 112]
    allPairsOrdered (sortNat [tidOf e1, tidOf e2, tidOf e3]) = true ∧
    examineSnaps {} [(p, render [e1, e2, e3])]
      [((p, [84, 101, 115, 116, 66]), 1), ((p, [84, 101, 115, 116, 48, 49]), 1), ((p, [84, 101, 115, 116, 49]), 1)]
      [] [p] [] 1 true true = .unsupportedOrder := by decide

/-- … and it is the only pairwise-ordered permutation of `l` -/
theorem sortNat_unique (l l' : List Text) (ht : TotalOn l) (hp : l'.Perm l)
    (hs : allPairsOrdered l' = true) : l' = sortNat l :=
  pairwise_perm_unique l' (sortNat l) (ht.perm hp.symm) (hp.trans (sortNat_perm l).symm)
    ((allPairsOrdered_iff _).mp hs) (sortNat_pairwise l ht)

/-- so the result does not depend on the order the ids were found in -/
theorem sortNat_perm_invariant (l₁ l₂ : List Text) (ht : TotalOn l₁) (hp : l₁.Perm l₂) :
    sortNat l₁ = sortNat l₂ :=
  sortNat_unique l₂ (sortNat l₁) (ht.perm hp) ((sortNat_perm l₁).trans hp) (sortNat_sorted l₁ ht)

theorem isSortedNat_sortNat (l : List Text) (ht : TotalOn l) : isSortedNat (sortNat l) = true :=
  isSortedNat_of_pairwise _ (sortNat_pairwise l ht)

/-- a list that passes `slices.IsSortedFunc` is left alone by the sort -/
theorem sortNat_of_sorted (l : List Text) (ht : TotalOn l) (hs : isSortedNat l = true) :
    sortNat l = l :=
  (sortNat_unique l l ht (List.Perm.refl l)
    ((allPairsOrdered_iff _).mpr (pairwise_of_isSortedNat l ht hs))).symm

theorem sort_idempotent (l : List Text) (ht : TotalOn l) : sortNat (sortNat l) = sortNat l :=
  sortNat_of_sorted _ (ht.perm (sortNat_perm l).symm) (isSortedNat_sortNat l ht)

/-- `TestA - 10`, `TestA - 2`, `TestB - 1`: the comparator is total on them, and the sort puts
    2 before 10 -/
example :
    let l : List Text := [[84, 101, 115, 116, 65, 32, 45, 32, 49, 48], [84, 101, 115, 116, 65, 32, 45, 32, 50],
      [84, 101, 115, 116, 66, 32, 45, 32, 49]]
    TotalOn l ∧ isSortedNat l = false ∧
    sortNat l = [[84, 101, 115, 116, 65, 32, 45, 32, 50], [84, 101, 115, 116, 65, 32, 45, 32, 49, 48],
      [84, 101, 115, 116, 66, 32, 45, 32, 49]] :=
  ⟨⟨by decide, by decide⟩, by decide, by decide⟩

/-! ## 5. Clean is idempotent on a file -/

/-- **Second run, any mode.** If the file step succeeded, running it again on the resulting file
system writes nothing and leaves the file system as it is.  In clean mode (`update = true`) it
reports nothing obsolete; in report-only mode it reports the same stale ids again (they are
still there — possibly in sorted order).
`hto`: when sorting, the comparator is a strict total order on the ids of the file. -/
theorem second_run_writes_nothing (o : Oracles) (fs : FS) (cleanup : List (RegKey × Nat))
    (skipped : List Text) (p runOnly : Text) (count : Nat) (update sort : Bool)
    (registered : List Text)
    (es : List Entry) (hf : CleanFile es) (hread : fsRead fs p = some (render es))
    (hreg : registeredFor cleanup p count = some registered)
    (hcls : ∀ e ∈ es, Classified o registered skipped runOnly (tidOf e))
    (hto : sort = true → TotalOn (es.map tidOf))
    (obs : List Text) (fs' : FS) (w : List Text)
    (hfirst : examineSnaps o fs cleanup skipped [p] runOnly count update sort = .ok obs fs' w) :
    ∃ obs', examineSnaps o fs' cleanup skipped [p] runOnly count update sort = .ok obs' fs' [] ∧
      (update = true → obs' = []) ∧ (update = false → obs'.Perm obs) :=
  examineSnaps_second_run o registered skipped runOnly fs cleanup p count update sort es hf hread
    hreg hcls hto obs fs' w hfirst

/-- **Clean mode is idempotent** (`update = true`, with or without sorting): the second run
writes nothing and reports nothing obsolete. -/
theorem clean_idempotent (o : Oracles) (fs : FS) (cleanup : List (RegKey × Nat))
    (skipped : List Text) (p runOnly : Text) (count : Nat) (sort : Bool) (registered : List Text)
    (es : List Entry) (hf : CleanFile es) (hread : fsRead fs p = some (render es))
    (hreg : registeredFor cleanup p count = some registered)
    (hcls : ∀ e ∈ es, Classified o registered skipped runOnly (tidOf e))
    (hto : sort = true → TotalOn (es.map tidOf))
    (obs : List Text) (fs' : FS) (w : List Text)
    (hfirst : examineSnaps o fs cleanup skipped [p] runOnly count true sort = .ok obs fs' w) :
    examineSnaps o fs' cleanup skipped [p] runOnly count true sort = .ok [] fs' [] := by
  obtain ⟨obs', h, hobs, _⟩ := second_run_writes_nothing o fs cleanup skipped p runOnly count true
    sort registered es hf hread hreg hcls hto obs fs' w hfirst
  rw [hobs rfl] at h; exact h

/-- concrete: prune-and-sort a three-entry file (`TestA - 10` stale, `TestB - 1`, `TestA - 2`),
    then run again: nothing written, nothing reported -/
example :
    let e1 : Entry := ⟨[91, 84, 101, 115, 116, 65, 32, 45, 32, 49, 48, 93], [120]⟩
    let e2 : Entry := ⟨[91, 84, 101, 115, 116, 66, 32, 45, 32, 49, 93], [121]⟩
    let e3 : Entry := ⟨[91, 84, 101, 115, 116, 65, 32, 45, 32, 50, 93], [122]⟩
    let p : Text := [47, 115, 47, 97, 46, 115, 110, 97, 112]
    let cleanup : List (RegKey × Nat) := [((p, [84, 101, 115, 116, 65]), 2), ((p, [84, 101, 115, 116, 66]), 1)]
    let cleanup' : List (RegKey × Nat) := [((p, [84, 101, 115, 116, 65]), 2), ((p, [84, 101, 115, 116, 66]), 1)]
    examineSnaps {} [(p, render [e1, e2, e3])] cleanup [] [p] [] 1 true true =
      .ok [[84, 101, 115, 116, 65, 32, 45, 32, 49, 48]] [(p, render [e3, e2])] [p] ∧
    examineSnaps {} [(p, render [e3, e2])] cleanup' [] [p] [] 1 true true =
      .ok [] [(p, render [e3, e2])] [] := by decide

end GoSnaps.C10
