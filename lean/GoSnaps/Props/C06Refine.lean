/-
C06Refine — the byte-level file operations implement the abstract ones, and the serialisability
theorems of C06 hold for the protocol running on BYTES.

* abstract file  : `Conc.File Line Text = List (Line × Text)` with `lookup`, `++ [(id,b)]`, `setVal`;
* byte-level file: `Text` with `getPrev` (`getPrevSnapshot`), `++ frame ⟨id,b⟩`
  (`addNewSnapshot`), `update` (`updateSnapshot`) of `GoSnaps/Format.lean`;
* in between     : entry lists `List Entry`, related to bytes by `render` and to abstract files
  by `abs`.

`Good es` is the explicit, decidable well-formedness predicate under which `render es` behaves
like `abs es`; its duplicate-free part is not needed for the refinement itself, which holds for
`Sound es` (`getPrev` and `lookup` both return the FIRST entry of an id, `update` and `setVal`
both rewrite EVERY entry of an id), so the simulation holds under any lock discipline.
-/
import GoSnaps.Props.C04
import GoSnaps.Props.C06

namespace GoSnaps.C06Refine

open GoSnaps GoSnaps.Conc
open GoSnaps.Conc.C06 (allL)

/-! ## Abstraction and well-formedness -/

/-- the abstract file of an entry list -/
def abs (es : List Entry) : File Line Text := es.map (fun e => (e.id, e.body))

def ids (es : List Entry) : List Line := es.map (·.id)

/-- entry-level counterpart of `setVal`: every entry of header `id` gets body `b` -/
def setBody (es : List Entry) (id : Line) (b : Text) : List Entry :=
  es.map (fun e => if e.id = id then ⟨id, b⟩ else e)

/-- a usable header: one line, survives `bufio.ScanLines`, not the blank line that starts every
frame, not the terminator -/
def GoodId (id : Line) : Prop := NoNL id ∧ NoCRLine id ∧ id ≠ [] ∧ id ≠ endSeq

/-- a usable body: escaped (no line is the terminator) and no line ends in a carriage return -/
def GoodBody (b : Text) : Prop := Escaped b ∧ NoCRBody b

/-- all headers and bodies are usable and no body line equals a header of the file (NoShadow) -/
def Sound (es : List Entry) : Prop :=
  (∀ e ∈ es, GoodId e.id ∧ GoodBody e.body) ∧ (∀ e ∈ es, ∀ o ∈ es, o.id ∉ lines e.body)

/-- `Sound` and the headers are pairwise distinct -/
def Good (es : List Entry) : Prop := Sound es ∧ (ids es).Nodup

instance (id : Line) : Decidable (GoodId id) := by unfold GoodId; infer_instance
instance (b : Text) : Decidable (GoodBody b) := by unfold GoodBody; infer_instance
instance (es : List Entry) : Decidable (Sound es) := by unfold Sound; infer_instance
instance (es : List Entry) : Decidable (Good es) := by unfold Good; infer_instance

theorem Good.sound {es : List Entry} (h : Good es) : Sound es := h.1

theorem mem_entryLines (l : Line) (e : Entry) :
    l ∈ entryLines e ↔ l = [] ∨ l = e.id ∨ l ∈ lines e.body ∨ l = endSeq := by
  simp [entryLines]

theorem mem_fileLines (l : Line) (es : List Entry) :
    l ∈ fileLines es ↔ ∃ e ∈ es, l ∈ entryLines e := by
  simp only [fileLines, List.mem_flatten, List.mem_map]
  constructor
  · rintro ⟨_, ⟨e, he, rfl⟩, hl⟩; exact ⟨e, he, hl⟩
  · rintro ⟨e, he, hl⟩; exact ⟨_, ⟨e, he, rfl⟩, hl⟩

/-- `Sound` files are well-formed in the sense of C01 -/
theorem Sound.wf {es : List Entry} (h : Sound es) : C01.WF es := by
  refine ⟨fun e he => (h.1 e he).1.1, ?_⟩
  intro l hl
  obtain ⟨e, he, hle⟩ := (mem_fileLines l es).mp hl
  obtain ⟨hid, hb⟩ := h.1 e he
  rcases (mem_entryLines l e).mp hle with rfl | rfl | hl | rfl
  · decide
  · exact hid.2.1
  · exact hb.2 l hl
  · decide

theorem Good.wf {es : List Entry} (h : Good es) : C01.WF es := h.1.wf

/-- a usable header which is no header and no body line of the file occurs on NO line of it -/
theorem not_mem_fileLines (id : Line) (es : List Entry) (h1 : id ≠ []) (h2 : id ≠ endSeq)
    (h3 : ∀ e ∈ es, e.id ≠ id ∧ id ∉ lines e.body) : id ∉ fileLines es := by
  intro hmem
  obtain ⟨e, he, hle⟩ := (mem_fileLines id es).mp hmem
  rcases (mem_entryLines id e).mp hle with h | h | h | h
  · exact h1 h
  · exact (h3 e he).1 h.symm
  · exact (h3 e he).2 h
  · exact h2 h

theorem ids_subset_fileLines (es : List Entry) (id : Line) (h : id ∈ ids es) :
    id ∈ fileLines es := by
  simp only [ids, List.mem_map] at h
  obtain ⟨e, he, rfl⟩ := h
  exact (mem_fileLines _ _).mpr ⟨e, he, (mem_entryLines _ _).mpr (Or.inr (Or.inl rfl))⟩

theorem abs_map_fst (es : List Entry) : (abs es).map Prod.fst = ids es := by
  simp [abs, ids]

theorem abs_append (es : List Entry) (id : Line) (b : Text) :
    abs (es ++ [⟨id, b⟩]) = abs es ++ [(id, b)] := by
  simp [abs]

theorem abs_setBody (es : List Entry) (id : Line) (b : Text) :
    abs (setBody es id b) = setVal (abs es) id b := by
  simp only [abs, setBody, setVal, List.map_map]
  apply List.map_congr_left
  intro e _
  by_cases h : e.id = id <;> simp [h]

theorem ids_setBody (es : List Entry) (id : Line) (b : Text) : ids (setBody es id b) = ids es := by
  simp only [ids, setBody, List.map_map]
  apply List.map_congr_left
  intro e _
  by_cases h : e.id = id <;> simp [h]

theorem exists_first (es : List Entry) (id : Line) (h : id ∈ ids es) :
    ∃ pre e post, es = pre ++ e :: post ∧ e.id = id ∧ ∀ o ∈ pre, o.id ≠ id := by
  induction es with
  | nil => simp [ids] at h
  | cons x xs ih =>
    by_cases hx : x.id = id
    · exact ⟨[], x, xs, rfl, hx, by simp⟩
    · have : id ∈ ids xs := by
        simp only [ids, List.map_cons, List.mem_cons] at h
        rcases h with h | h
        · exact absurd h.symm hx
        · exact h
      obtain ⟨pre, e, post, rfl, he, hpre⟩ := ih this
      refine ⟨x :: pre, e, post, rfl, he, ?_⟩
      intro o ho
      simp only [List.mem_cons] at ho
      rcases ho with rfl | ho
      · exact hx
      · exact hpre o ho

theorem lookup_abs_first (pre : List Entry) (e : Entry) (post : List Entry)
    (h : ∀ o ∈ pre, o.id ≠ e.id) : lookup (abs (pre ++ e :: post)) e.id = some e.body := by
  induction pre with
  | nil => simp [abs, lookup]
  | cons x xs ih =>
    have hx : x.id ≠ e.id := h x (by simp)
    have := ih (fun o ho => h o (by simp [ho]))
    simp only [abs, List.cons_append, List.map_cons, lookup, hx, ↓reduceIte] at this ⊢
    exact this

/-! ## 1. `getPrevSnapshot` refines `lookup` -/

/-- **Lookup refines** (general form, duplicates allowed): on a `Sound` file, for every id that
is a header of the file or occurs on no line of it, `getPrev` returns what `lookup` returns on the
abstract file. -/
theorem lookup_refines_sound (es : List Entry) (id : Line) (h : Sound es)
    (hid : id ∈ ids es ∨ id ∉ fileLines es) :
    (getPrev id (render es)).map Prod.fst = lookup (abs es) id := by
  by_cases hmem : id ∈ ids es
  · obtain ⟨pre, e, post, rfl, rfl, hpre⟩ := exists_first es id hmem
    have he : e ∈ pre ++ e :: post := by simp
    obtain ⟨hgid, hgb⟩ := h.1 e he
    have hshadow : e.id ∉ fileLines pre := by
      apply not_mem_fileLines _ _ hgid.2.2.1 hgid.2.2.2
      intro o ho
      exact ⟨hpre o ho, h.2 o (by simp [ho]) e he⟩
    rw [C01.getPrev_render pre e post h.wf hgid.2.2.1 hgb.1 hshadow,
      lookup_abs_first pre e post hpre]
    rfl
  · have habs : id ∉ fileLines es := by
      rcases hid with hid | hid
      · exact absurd hid hmem
      · exact hid
    rw [C01.getPrev_absent id es h.wf habs]
    symm
    rw [Option.map_none, lookup_eq_none_iff, abs_map_fst]
    exact hmem

/-- **Lookup refines.** -/
theorem lookup_refines (es : List Entry) (id : Line) (h : Good es)
    (hid : id ∈ ids es ∨ id ∉ fileLines es) :
    (getPrev id (render es)).map Prod.fst = lookup (abs es) id :=
  lookup_refines_sound es id h.1 hid

/-! ## 2. `addNewSnapshot` refines appending -/

/-- **Add refines**: the bytes `addNewSnapshot` appends turn `render es` into the rendering of
the entry list with one more entry, whose abstraction is the abstract file with one more pair.
No hypothesis. -/
theorem add_refines (es : List Entry) (id : Line) (b : Text) :
    render es ++ frame ⟨id, b⟩ = render (es ++ [⟨id, b⟩]) ∧
    abs (es ++ [⟨id, b⟩]) = abs es ++ [(id, b)] :=
  ⟨by simp [render], abs_append es id b⟩

/-- the same through the format string read from the Go source -/
theorem addFmt_refines (es : List Entry) (id : Line) (b : Text) :
    (frameFmt id b).map (render es ++ ·) = some (render (es ++ [⟨id, b⟩])) :=
  C01.addNew_render es id b

/-! ## 3. `updateSnapshot` refines `setVal` -/

theorem updateL_setBody (es : List Entry) (id : Line) (b' : Text)
    (h1 : id ≠ []) (h2 : id ≠ endSeq)
    (hesc : ∀ e ∈ es, e.id = id → Escaped e.body)
    (hsh : ∀ e ∈ es, id ∉ lines e.body) :
    updateL id b' false (fileLines es) = render (setBody es id b') := by
  induction es with
  | nil => simp [fileLines, setBody, render, updateL]
  | cons e es ih =>
    have ih' := ih (fun x hx => hesc x (by simp [hx])) (fun x hx => hsh x (by simp [hx]))
    rw [fileLines_cons]
    by_cases he : e.id = id
    · subst he
      rw [updateL_entry e b' _ h1 (hesc e (by simp) rfl), ih']
      simp [setBody, render_cons]
    · have hnot : id ∉ entryLines e := by
        intro hm
        rcases (mem_entryLines id e).mp hm with h | h | h | h
        · exact h1 h
        · exact he h.symm
        · exact hsh e (by simp) h
        · exact h2 h
      rw [updateL_copy id b' _ _ hnot, flatMap_entryLines, ih']
      simp [setBody, render_cons, he]

/-- **Update refines** (general form: duplicates allowed, header may be absent): on a `Sound`
file, for a usable header that is no body line of the file, `update` yields the rendering of the
entry list in which every entry of that header got the new body; its abstraction is `setVal`. -/
theorem update_refines_sound (es : List Entry) (id : Line) (b' : Text) (h : Sound es)
    (h1 : id ≠ []) (h2 : id ≠ endSeq) (hsh : ∀ e ∈ es, id ∉ lines e.body) :
    update id b' (render es) = render (setBody es id b') ∧
    abs (setBody es id b') = setVal (abs es) id b' := by
  refine ⟨?_, abs_setBody es id b'⟩
  unfold update
  rw [C01.scan_render es h.wf]
  exact updateL_setBody es id b' h1 h2 (fun e he _ => (h.1 e he).2.1) hsh

/-- **Update refines.**  For a header of a `Good` file and ANY new body. -/
theorem update_refines (es : List Entry) (id : Line) (b' : Text) (h : Good es)
    (hid : id ∈ ids es) :
    update id b' (render es) = render (setBody es id b') ∧
    abs (setBody es id b') = setVal (abs es) id b' := by
  simp only [ids, List.mem_map] at hid
  obtain ⟨o, ho, rfl⟩ := hid
  have hg := (h.1.1 o ho).1
  exact update_refines_sound es o.id b' h.1 hg.2.2.1 hg.2.2.2 (fun e he => h.1.2 e he o ho)

/-! ## 4. `Good` is preserved -/

theorem Sound.add {es : List Entry} (h : Sound es) {id : Line} {b : Text}
    (hid : GoodId id) (hb : GoodBody b)
    (hnew : ∀ e ∈ es, id ∉ lines e.body)      -- the new header shadows no old body line
    (hold : ∀ o ∈ es, o.id ∉ lines b)         -- no old header is a line of the new body
    (hself : id ∉ lines b) :
    Sound (es ++ [⟨id, b⟩]) := by
  constructor
  · intro e he
    simp only [List.mem_append, List.mem_singleton] at he
    rcases he with he | rfl
    · exact h.1 e he
    · exact ⟨hid, hb⟩
  · intro e he o ho
    simp only [List.mem_append, List.mem_singleton] at he ho
    rcases he with he | rfl <;> rcases ho with ho | rfl
    · exact h.2 e he o ho
    · exact hnew e he
    · exact hold o ho
    · exact hself

/-- **`Good` is preserved by add**, for a fresh usable header (it occurs on no line of the file)
and a usable new body none of whose lines is a header in play. -/
theorem Good.add {es : List Entry} (h : Good es) {id : Line} {b : Text}
    (hid : GoodId id) (hfresh : id ∉ fileLines es) (hb : GoodBody b)
    (hold : ∀ o ∈ es, o.id ∉ lines b) (hself : id ∉ lines b) :
    Good (es ++ [⟨id, b⟩]) := by
  refine ⟨h.1.add hid hb ?_ hold hself, ?_⟩
  · intro e he hm
    exact hfresh ((mem_fileLines _ _).mpr
      ⟨e, he, (mem_entryLines _ _).mpr (Or.inr (Or.inr (Or.inl hm)))⟩)
  · have : id ∉ ids es := fun hm => hfresh (ids_subset_fileLines es id hm)
    simp only [ids, List.map_append, List.map_cons, List.map_nil] at this ⊢
    rw [List.nodup_append]
    refine ⟨h.2, by simp, ?_⟩
    intro a ha c hc
    simp only [List.mem_singleton] at hc
    subst hc
    intro e; subst e; exact this ha

theorem Sound.setBody {es : List Entry} (h : Sound es) (id : Line) {b' : Text}
    (hb : GoodBody b') (hold : ∀ o ∈ es, o.id ∉ lines b') : Sound (setBody es id b') := by
  have key : ∀ x ∈ C06Refine.setBody es id b', ∃ e ∈ es, x.id = e.id ∧ (x.body = e.body ∨ x.body = b') := by
    intro x hx
    simp only [C06Refine.setBody, List.mem_map] at hx
    obtain ⟨e, he, rfl⟩ := hx
    refine ⟨e, he, ?_⟩
    by_cases hid : e.id = id <;> simp [hid]
  constructor
  · intro x hx
    obtain ⟨e, he, h1, h2⟩ := key x hx
    rw [h1]
    refine ⟨(h.1 e he).1, ?_⟩
    rcases h2 with h2 | h2 <;> rw [h2]
    · exact (h.1 e he).2
    · exact hb
  · intro x hx y hy
    obtain ⟨e, he, _, h2⟩ := key x hx
    obtain ⟨o, ho, h3, _⟩ := key y hy
    rw [h3]
    rcases h2 with h2 | h2 <;> rw [h2]
    · exact h.2 e he o ho
    · exact hold o ho

/-- **`Good` is preserved by update**, for a usable new body none of whose lines is a header of
the file. -/
theorem Good.setBody {es : List Entry} (h : Good es) (id : Line) {b' : Text}
    (hb : GoodBody b') (hold : ∀ o ∈ es, o.id ∉ lines b') : Good (setBody es id b') :=
  ⟨h.1.setBody id hb hold, by rw [ids_setBody]; exact h.2⟩

/-! ## 5. The protocol on bytes -/

/-- the file operations on entry lists (the intermediate level) -/
def entryOps : FileOps (List Entry) Line Text where
  lookup := fun es id => lookup (abs es) id
  add := fun es id b => es ++ [⟨id, b⟩]
  set := setBody
  empty := []

/-- the file operations on bytes: `getPrevSnapshot`, `addNewSnapshot`, `updateSnapshot`'s buffer,
`Truncate(0)` -/
def byteOps : FileOps Text Line Text where
  lookup := fun f id => (getPrev id f).map Prod.fst
  add := fun f id b => f ++ frame ⟨id, b⟩
  set := fun f id b => update id b f
  empty := []

/-- the byte-level concurrent run: `Conc.gstep` with `lookup / append / setVal` replaced by
`getPrev / append frame / update` -/
def runBytes (L : Locks) (f₀ : Text) (progs : List (List (Call Line Text))) (sch : List Nat) :
    State Text Line Text :=
  grun byteOps L (init f₀ progs) sch

/-- harness entry point, byte level: final file bytes and per-thread outcome lists -/
def runScheduleBytes (addLocked updLocked readLocked : Bool) (f₀ : Text)
    (progs : List (List (Call Line Text))) (sch : List Nat) : Text × List (List Outcome) :=
  let σ := runBytes { add := addLocked, upd := updLocked, read := readLocked } f₀ progs sch
  (σ.file, σ.ts.map (·.outs))

/-- the headers `I` and bodies `B` in play (initial file and programs) are usable and no line of
a body in play equals a header in play -/
def Play (I : List Line) (B : List Text) : Prop :=
  (∀ id ∈ I, GoodId id) ∧ (∀ b ∈ B, GoodBody b) ∧ (∀ b ∈ B, ∀ id ∈ I, id ∉ lines b)

instance (I : List Line) (B : List Text) : Decidable (Play I B) := by unfold Play; infer_instance

/-- the file only uses headers and bodies in play -/
def InPlay (I : List Line) (B : List Text) (es : List Entry) : Prop :=
  ∀ e ∈ es, e.id ∈ I ∧ e.body ∈ B

instance (I : List Line) (B : List Text) (es : List Entry) : Decidable (InPlay I B es) := by
  unfold InPlay; infer_instance

/-- the programs only use headers and bodies in play -/
def CallsInPlay (I : List Line) (B : List Text) (progs : List (List (Call Line Text))) : Prop :=
  ∀ p ∈ progs, ∀ c ∈ p, c.slot ∈ I ∧ c.val ∈ B

instance (I : List Line) (B : List Text) (progs : List (List (Call Line Text))) :
    Decidable (CallsInPlay I B progs) := by unfold CallsInPlay; infer_instance

theorem Play.sound {I : List Line} {B : List Text} (hplay : Play I B) {es : List Entry}
    (h : InPlay I B es) : Sound es :=
  ⟨fun e he => ⟨hplay.1 _ (h e he).1, hplay.2.1 _ (h e he).2⟩,
   fun e he o ho => hplay.2.2 _ (h e he).2 _ (h o ho).1⟩

/-- `getPrev` on the rendering = `lookup` on the abstraction, for every header in play -/
theorem lookup_inPlay {I : List Line} {B : List Text} (hplay : Play I B) {es : List Entry}
    (hes : InPlay I B es) (id : Line) (hid : id ∈ I) :
    (getPrev id (render es)).map Prod.fst = lookup (abs es) id := by
  have hg := hplay.1 _ hid
  refine lookup_refines_sound es id (hplay.sound hes) ?_
  by_cases hm : id ∈ ids es
  · exact Or.inl hm
  · refine Or.inr (not_mem_fileLines _ _ hg.2.2.1 hg.2.2.2 ?_)
    intro e he
    refine ⟨?_, hplay.2.2 _ (hes e he).2 _ hid⟩
    intro heq
    exact hm (by simp only [ids, List.mem_map]; exact ⟨e, he, heq⟩)

/-- `abs` commutes with the file operations, unconditionally -/
theorem hom_abs : Hom entryOps (absOps (κ := Line) (ν := Text)) abs (fun _ => True)
    (fun _ => True) where
  lookup := fun _ _ _ _ => rfl
  add := fun f c _ _ => (abs_append f c.slot c.val).symm
  set := fun f c _ _ => (abs_setBody f c.slot c.val).symm
  empty := rfl
  pAdd := fun _ _ _ _ => trivial
  pSet := fun _ _ _ _ => trivial
  pEmpty := trivial

/-- **The four refinement lemmas as a homomorphism**: `render` commutes with the file operations
on files and calls that use only headers and bodies in play. -/
theorem hom_render {I : List Line} {B : List Text} (hplay : Play I B) :
    Hom entryOps byteOps render (InPlay I B) (fun c => c.slot ∈ I ∧ c.val ∈ B) where
  lookup := fun es c hes hc => lookup_inPlay hplay hes c.slot hc.1
  add := fun es c _ _ => (add_refines es c.slot c.val).1
  set := by
    intro es c hes hc
    have hg := hplay.1 _ hc.1
    exact (update_refines_sound es c.slot c.val (hplay.sound hes) hg.2.2.1 hg.2.2.2
      (fun e he => hplay.2.2 _ (hes e he).2 _ hc.1)).1
  empty := by simp [byteOps, entryOps, render]
  pAdd := by
    intro es c hes hc e he
    simp only [entryOps, List.mem_append, List.mem_singleton] at he
    rcases he with he | rfl
    · exact hes e he
    · exact hc
  pSet := by
    intro es c hes hc x hx
    simp only [entryOps, setBody, List.mem_map] at hx
    obtain ⟨e, he, rfl⟩ := hx
    by_cases hid : e.id = c.slot
    · simp only [hid, ↓reduceIte]; exact hc
    · simp only [hid, ↓reduceIte]; exact hes e he
  pEmpty := by intro e he; simp [entryOps] at he

/-- **Simulation**, any lock discipline, every schedule: the byte-level run and the abstract run
are both images of ONE run on entry lists, whose file stays in play (hence `Sound`). -/
theorem bytes_simulation {I : List Line} {B : List Text} (hplay : Play I B) (L : Locks)
    (es₀ : List Entry) (h0 : InPlay I B es₀) (progs : List (List (Call Line Text)))
    (hprogs : CallsInPlay I B progs) (sch : List Nat) :
    ∃ σe : State (List Entry) Line Text,
      runBytes L (render es₀) progs sch = σe.map render ∧
      run L (init (abs es₀) progs) sch = σe.map abs ∧
      InPlay I B σe.file := by
  refine ⟨grun entryOps L (init es₀ progs) sch, ?_, ?_, ?_⟩
  · have := grun_map (hom_render hplay) L (init es₀ progs)
      (init_PState es₀ progs h0 hprogs) sch
    rw [this.1, init_map]; rfl
  · have := grun_map hom_abs L (init es₀ progs)
      (init_PState es₀ progs trivial (fun _ _ _ _ => trivial)) sch
    rw [this.1, init_map]; rfl
  · exact (grun_map (hom_render hplay) L (init es₀ progs)
      (init_PState es₀ progs h0 hprogs) sch).2.1

/-- **Serialisability on bytes.**  All three functions locked; headers and bodies in play are
usable and no body line in play equals a header in play (`Play I B`); the initial file is the
rendering of entries in play with pairwise distinct headers; the calls use headers and bodies in
play; threads own pairwise disjoint headers.  Then for EVERY schedule of the byte-level run:

1. every finished thread has produced the outcomes of running its program alone against the
   initial bytes (`getPrev · (render es₀)`);
2. once all threads have finished, the file is byte-for-byte `render esF` for a `Good` entry list
   `esF` whose abstraction satisfies `FinalOK`; `getPrev` on the final bytes returns, for every
   header in play, what `lookup` returns on that abstraction; and the lock is free. -/
theorem bytes_serialisable {I : List Line} {B : List Text} (hplay : Play I B) (L : Locks)
    (hL : L.add = true ∧ L.upd = true ∧ L.read = true)
    (es₀ : List Entry) (h0 : InPlay I B es₀) (hnd : (ids es₀).Nodup)
    (progs : List (List (Call Line Text))) (hprogs : CallsInPlay I B progs)
    (hdisj : Disj progs) (sch : List Nat) :
    (∀ (i : Nat) (t : TState Text Line Text),
      (runBytes L (render es₀) progs sch).ts[i]? = some t → t.todo = [] →
      ∃ p, progs[i]? = some p ∧
        t.outs = serialOuts (fun id => (getPrev id (render es₀)).map Prod.fst) p) ∧
    (AllDone (runBytes L (render es₀) progs sch) →
      ∃ esF, (runBytes L (render es₀) progs sch).file = render esF ∧ Good esF ∧
        FinalOK (abs es₀) progs (abs esF) ∧
        (∀ id ∈ I, (getPrev id (render esF)).map Prod.fst = lookup (abs esF) id) ∧
        (runBytes L (render es₀) progs sch).holder = none) := by
  obtain ⟨σe, hb, ha, hin⟩ := bytes_simulation hplay L es₀ h0 progs hprogs sch
  have hinv := run_inv hL.1 hL.2.1 hL.2.2 hdisj _ (init_inv (abs es₀) progs) sch
  have hlen : (run L (init (abs es₀) progs) sch).ts.length = progs.length := by
    rw [run_length]; simp [init]
  constructor
  · intro i t hti hdone
    rw [hb, State.map_ts_get] at hti
    cases hte : σe.ts[i]? with
    | none => rw [hte] at hti; cases hti
    | some te =>
      rw [hte] at hti
      simp only [Option.map_some, Option.some.injEq] at hti
      subst hti
      have hta : (run L (init (abs es₀) progs) sch).ts[i]? = some (te.map abs) := by
        rw [ha, State.map_ts_get, hte]; rfl
      obtain ⟨p, hp, ho⟩ := hinv.outs_of_done hta hdone
      refine ⟨p, hp, ?_⟩
      have : serialOuts (fun id => (getPrev id (render es₀)).map Prod.fst) p =
          serialOuts (lookup (abs es₀)) p := by
        apply serialOuts_congr
        intro c hc
        exact lookup_inPlay hplay h0 c.slot (hprogs p (List.mem_of_getElem? hp) c hc).1
      rw [this]; exact ho
  · intro hdone
    have hdoneA : AllDone (run L (init (abs es₀) progs) sch) := by
      rw [ha, AllDone_map]; rw [hb, AllDone_map] at hdone; exact hdone
    have hfin := hinv.finalOK hlen hdoneA
    have hnone := hinv.holder_none hdoneA
    rw [ha] at hfin hnone
    refine ⟨σe.file, by rw [hb]; rfl, ⟨hplay.sound hin, ?_⟩, hfin,
      fun id hid => lookup_inPlay hplay hin id hid, by rw [hb]; exact hnone⟩
    rw [← abs_map_fst]
    exact hfin.nodup (by rw [abs_map_fst]; exact hnd)

/-- **Byte-level headline**: after all threads have finished, `getPrevSnapshot` on the final bytes
returns for every header exactly what its owner's serial run leaves, computed from what
`getPrevSnapshot` returned on the initial bytes. -/
theorem bytes_final_lookup {I : List Line} {B : List Text} (hplay : Play I B) (L : Locks)
    (hL : L.add = true ∧ L.upd = true ∧ L.read = true)
    (es₀ : List Entry) (h0 : InPlay I B es₀) (hnd : (ids es₀).Nodup)
    (progs : List (List (Call Line Text))) (hprogs : CallsInPlay I B progs)
    (hdisj : Disj progs) (sch : List Nat)
    (hdone : AllDone (runBytes L (render es₀) progs sch))
    (i : Nat) (p : List (Call Line Text)) (id : Line) (hp : progs[i]? = some p)
    (hown : ∃ c ∈ p, c.slot = id) :
    (getPrev id (runBytes L (render es₀) progs sch).file).map Prod.fst =
      serialFinal p id ((getPrev id (render es₀)).map Prod.fst) := by
  obtain ⟨esF, hfile, _, hfin, hlook, _⟩ :=
    (bytes_serialisable hplay L hL es₀ h0 hnd progs hprogs hdisj sch).2 hdone
  have hid : id ∈ I := by
    obtain ⟨c, hc, rfl⟩ := hown
    exact (hprogs p (List.mem_of_getElem? hp) c hc).1
  rw [hfile, hlook id hid, hfin.owned i p id hp hown, lookup_inPlay hplay h0 id hid]

/-! ## Examples (byte legend: `[91,65,93]` = "[A]", `[91,66,93]` = "[B]", `[91,67,93]` = "[C]",
`120/121/122` = 'x'/'y'/'z', `[110,10,10,119]` = "n\n\nw") -/

def exIds : List Line := [[91, 65, 93], [91, 66, 93], [91, 67, 93]]
def exBodies : List Text := [[120], [121], [122], [110, 10, 10, 119]]
def exEntries : List Entry := [⟨[91, 65, 93], [120]⟩, ⟨[91, 66, 93], [121]⟩]
/-- thread 0 updates "[A]" to a three-line body; thread 1 creates "[C]" and re-checks it -/
def exProgs : List (List (Call Line Text)) :=
  [ [⟨[91, 65, 93], [110, 10, 10, 119], false, true⟩],
    [⟨[91, 67, 93], [122], true, false⟩, ⟨[91, 67, 93], [122], false, false⟩] ]
/-- T0 READ, T1 READ, T0 `upd1`, T1 ADD (blocked), T0 truncate, T0 write, T1 ADD, T1 READ -/
def exSched : List Nat := [0, 1, 0, 1, 0, 0, 1, 1]

example : Good exEntries := by decide
example : Play exIds exBodies ∧ InPlay exIds exBodies exEntries ∧ (ids exEntries).Nodup ∧
    CallsInPlay exIds exBodies exProgs ∧ Disj exProgs := by decide

/-- lookup / add / update on a concrete `Good` file -/
example :
    (getPrev [91, 66, 93] (render exEntries)).map Prod.fst = lookup (abs exEntries) [91, 66, 93] ∧
    (getPrev [91, 67, 93] (render exEntries)).map Prod.fst = lookup (abs exEntries) [91, 67, 93] ∧
    update [91, 65, 93] [110, 10, 10, 119] (render exEntries) =
      render (setBody exEntries [91, 65, 93] [110, 10, 10, 119]) ∧
    Good (setBody exEntries [91, 65, 93] [110, 10, 10, 119]) ∧
    Good (exEntries ++ [⟨[91, 67, 93], [122]⟩]) := by decide

/-- the byte-level run of the example: outcomes and final bytes -/
example : runScheduleBytes true true true (render exEntries) exProgs exSched =
    (render [⟨[91, 65, 93], [110, 10, 10, 119]⟩, ⟨[91, 66, 93], [121]⟩, ⟨[91, 67, 93], [122]⟩],
     [[.updated], [.added, .passed]]) := by decide

example : AllDone (runBytes allL (render exEntries) exProgs exSched) := by decide

example := bytes_serialisable (I := exIds) (B := exBodies) (by decide) allL ⟨rfl, rfl, rfl⟩
  exEntries (by decide) (by decide) exProgs (by decide) (by decide) exSched

/-- the pinned tree's lost update (D4) on bytes: "[C]" is reported `added`, but after thread 0's
truncate + write-back the final bytes contain no "[C]" entry -/
example :
    let r := runScheduleBytes false true true (render exEntries) exProgs [0, 1, 0, 1, 0, 0, 1, 1]
    r.2 = [[.updated], [.added, .failed]] ∧
    r.1 = render [⟨[91, 65, 93], [110, 10, 10, 119]⟩, ⟨[91, 66, 93], [121]⟩] ∧
    getPrev [91, 67, 93] r.1 = none := by decide

end GoSnaps.C06Refine
