/-
C20 (summary) — the summary printed by `Clean` shows exactly the totals and lists exactly the
obsolete items.

About `summary obsFiles obsTests nSkipped ev anyEvent update`, `printEvent`, `objectList`
(Clean.lean; `snaps/clean.go: summary, printEvent`, colours off).  The text is

    "\nSnapshot Summary\n\n"
    "✓ <passed> snapshot(s) passed\n"      -- each of the five lines only if its number is non-zero
    "✕ <erred> snapshot(s) failed\n"
    "✎ <added> snapshot(s) added\n"
    "✎ <updated> snapshot(s) updated\n"
    "⟳ <nSkipped> snapshot(s) skipped\n"
    "\n› <k> snapshot file(s) obsolete|removed\n" then "  ↳ • <path>\n" per obsolete file   (if any)
    "\n› <k> snapshot test(s) obsolete|removed\n" then "  ↳ • <id>\n" per obsolete test     (if any)
    "\nTo remove it|them, re-run tests with `UPDATE_SNAPS=clean go test ./...`\n"             (report mode only)

NB the item line is `"  " ++ "↳ " ++ " " ++ "• " ++ x ++ "\n"` — two blanks between `↳` and `•`
(`fmt.Sprintf("  %s %s%s\n", enterSymbol, bulletSymbol, object)` with `enterSymbol = "↳ "`).

Byte legend: 10 '\n', 32 ' ', 48..57 digits, 115 's'; ✓ = 226 156 147, ✕ = 226 156 149,
✎ = 226 156 142, ⟳ = 226 159 179, › = 226 128 186, ↳ = 226 134 179, • = 226 128 162.
-/
import GoSnaps.Lemmas.CleanTop
import GoSnaps.Lemmas.Diff
import GoSnaps.Props.C03
import GoSnaps.Props.C20
import GoSnaps.Props.C05Clean
namespace GoSnaps.C20Summary

open GoSnaps Generated

/-! ## the string literals of `summary`, as bytes -/

theorem lit_sp : ofString " " = [32] := by rw [ofString_eq]; decide
theorem lit_s : ofString "s" = [115] := by rw [ofString_eq]; decide
theorem lit_two : ofString "  " = [32, 32] := by rw [ofString_eq]; decide
theorem lit_snapshot : ofString "snapshot" = [115, 110, 97, 112, 115, 104, 111, 116] := by
  rw [ofString_eq]; decide
theorem lit_snapshot_sp : ofString " snapshot " = [32, 115, 110, 97, 112, 115, 104, 111, 116, 32] := by
  rw [ofString_eq]; decide
theorem lit_passed : ofString "passed" = [112, 97, 115, 115, 101, 100] := by rw [ofString_eq]; decide
theorem lit_failed : ofString "failed" = [102, 97, 105, 108, 101, 100] := by rw [ofString_eq]; decide
theorem lit_added : ofString "added" = [97, 100, 100, 101, 100] := by rw [ofString_eq]; decide
theorem lit_updated : ofString "updated" = [117, 112, 100, 97, 116, 101, 100] := by
  rw [ofString_eq]; decide
theorem lit_skipped : ofString "skipped" = [115, 107, 105, 112, 112, 101, 100] := by
  rw [ofString_eq]; decide
theorem lit_removed : ofString "removed" = [114, 101, 109, 111, 118, 101, 100] := by
  rw [ofString_eq]; decide
theorem lit_obsolete : ofString "obsolete" = [111, 98, 115, 111, 108, 101, 116, 101] := by
  rw [ofString_eq]; decide
theorem lit_file : ofString "file" = [102, 105, 108, 101] := by rw [ofString_eq]; decide
theorem lit_test : ofString "test" = [116, 101, 115, 116] := by rw [ofString_eq]; decide
theorem lit_title : ofString "Snapshot Summary" =
    [83, 110, 97, 112, 115, 104, 111, 116, 32, 83, 117, 109, 109, 97, 114, 121] := by
  rw [ofString_eq]; decide
theorem lit_toRemove : ofString "To remove " = [84, 111, 32, 114, 101, 109, 111, 118, 101, 32] := by
  rw [ofString_eq]; decide
theorem lit_them : ofString "them" = [116, 104, 101, 109] := by rw [ofString_eq]; decide
theorem lit_it : ofString "it" = [105, 116] := by rw [ofString_eq]; decide
theorem lit_rerun : ofString ", re-run tests with `UPDATE_SNAPS=clean go test ./...`" =
    [44, 32, 114, 101, 45, 114, 117, 110, 32, 116, 101, 115, 116, 115, 32, 119, 105, 116, 104, 32, 96,
     85, 80, 68, 65, 84, 69, 95, 83, 78, 65, 80, 83, 61, 99, 108, 101, 97, 110, 32, 103, 111, 32, 116,
     101, 115, 116, 32, 46, 47, 46, 46, 46, 96] := by
  rw [ofString_eq]; decide

/-! ## the pieces of the text -/

/-- `"\nSnapshot Summary\n\n"` -/
def header : Text := [nl] ++ ofString "Snapshot Summary" ++ [nl, nl]

/-- `sym ++ "<n> snapshot" ++ ("s" if n > 1) ++ " " ++ verb ++ "\n"` — one counter line -/
def counterLine (sym verb : Text) (n : Nat) : Text :=
  sym ++ natToText n ++ ofString " " ++ ofString "snapshot" ++ (if n > 1 then ofString "s" else []) ++
    ofString " " ++ verb ++ [nl]

/-- `"  ↳  • " ++ x ++ "\n"` — the line of one obsolete item -/
def itemLine (x : Text) : Text :=
  ofString "  " ++ go_enterSymbol ++ ofString " " ++ go_bulletSymbol ++ x ++ [nl]

/-- `"removed"` when deleting, else `"obsolete"` -/
def actionWord (update : Bool) : Text := if update then ofString "removed" else ofString "obsolete"

/-- `"\n› <k> snapshot <name>" ++ ("s" if k > 1) ++ " removed|obsolete\n"` -/
def blockHeader (k : Nat) (name : Text) (update : Bool) : Text :=
  [nl] ++ go_arrowSymbol ++ natToText k ++ ofString " snapshot " ++ name ++
    (if k > 1 then ofString "s" else []) ++ ofString " " ++ actionWord update ++ [nl]

/-- the block of one kind of obsolete items: nothing if there is none, else the header with the
    count followed by one line per item, in order -/
def block (xs : List Text) (name : Text) (update : Bool) : Text :=
  if xs = [] then [] else blockHeader xs.length name update ++ (xs.map itemLine).flatten

/-- the last line, in report mode with at least one obsolete item -/
def hint (k : Nat) (update : Bool) : Text :=
  if update = false ∧ k > 0 then
    [nl] ++ ofString "To remove " ++ (if k > 1 then ofString "them" else ofString "it") ++
      ofString ", re-run tests with `UPDATE_SNAPS=clean go test ./...`" ++ [nl]
  else []

theorem counterLine_bytes (sym verb : Text) (n : Nat) :
    counterLine sym verb n = sym ++ (natToText n ++ 32 ::
      ([115, 110, 97, 112, 115, 104, 111, 116] ++ ((if n > 1 then [115] else []) ++ 32 :: (verb ++ [10])))) := by
  unfold counterLine
  rw [lit_sp, lit_snapshot, lit_s]
  simp [nl]

theorem itemLine_bytes (x : Text) :
    itemLine x = [32, 32, 226, 134, 179, 32, 32, 226, 128, 162, 32] ++ (x ++ [10]) := by
  unfold itemLine
  rw [lit_two, lit_sp]
  simp [nl, go_enterSymbol, go_bulletSymbol]

theorem actionWord_bytes (update : Bool) :
    actionWord update = if update then [114, 101, 109, 111, 118, 101, 100]
      else [111, 98, 115, 111, 108, 101, 116, 101] := by
  unfold actionWord; rw [lit_removed, lit_obsolete]

theorem blockHeader_bytes (k : Nat) (name : Text) (update : Bool) :
    blockHeader k name update = [10, 226, 128, 186, 32] ++ (natToText k ++ 32 ::
      ([115, 110, 97, 112, 115, 104, 111, 116, 32] ++ (name ++ ((if k > 1 then [115] else []) ++
        32 :: (actionWord update ++ [10]))))) := by
  unfold blockHeader
  rw [lit_snapshot_sp, lit_sp, lit_s]
  simp [nl, go_arrowSymbol]

/-! ## 2. `printEvent` -/

/-- **`printEvent_spec`** -/
theorem printEvent_spec (sym verb : Text) (n : Nat) :
    printEvent sym verb n = if n = 0 then [] else counterLine sym verb n := by
  unfold printEvent counterLine plural
  by_cases h0 : n = 0
  · simp [h0]
  · by_cases h1 : n > 1 <;> simp [h0, h1]

theorem counterLine_ne_nil (sym verb : Text) (n : Nat) : counterLine sym verb n ≠ [] := by
  unfold counterLine; simp

theorem printEvent_eq_nil_iff (sym verb : Text) (n : Nat) : printEvent sym verb n = [] ↔ n = 0 := by
  rw [printEvent_spec]
  by_cases h : n = 0
  · simp [h]
  · simp [h, counterLine_ne_nil]

/-- `"✓ 3 snapshots passed\n"`, `"✕ 1 snapshot failed\n"`, and nothing for zero -/
example :
    printEvent go_successSymbol (ofString "passed") 3 =
      [226, 156, 147, 32, 51, 32, 115, 110, 97, 112, 115, 104, 111, 116, 115, 32, 112, 97, 115, 115, 101, 100, 10] ∧
    printEvent go_errorSymbol (ofString "failed") 1 =
      [226, 156, 149, 32, 49, 32, 115, 110, 97, 112, 115, 104, 111, 116, 32, 102, 97, 105, 108, 101, 100, 10] ∧
    printEvent go_skipSymbol (ofString "skipped") 0 = [] := by
  simp only [printEvent_spec, counterLine_bytes, lit_passed, lit_failed]
  decide

/-! ## splitting at the first byte outside a class -/

/-- if `a`, `b` consist of `P`-bytes and `x`, `y` are not, then `a ++ x :: r = b ++ y :: r'` splits
    uniquely -/
theorem append_sep {α : Type} (P : α → Prop) (a b : List α) (x y : α) (r r' : List α)
    (ha : ∀ c ∈ a, P c) (hb : ∀ c ∈ b, P c) (hx : ¬ P x) (hy : ¬ P y)
    (h : a ++ x :: r = b ++ y :: r') : a = b ∧ x = y ∧ r = r' := by
  induction a generalizing b with
  | nil =>
    cases b with
    | nil => simp only [List.nil_append, List.cons.injEq] at h; exact ⟨rfl, h.1, h.2⟩
    | cons c b' =>
      simp only [List.nil_append, List.cons_append, List.cons.injEq] at h
      exact absurd (h.1 ▸ hb c (by simp)) hx
  | cons c a' ih =>
    cases b with
    | nil =>
      simp only [List.nil_append, List.cons_append, List.cons.injEq] at h
      exact absurd (h.1 ▸ ha c (by simp)) hy
    | cons d b' =>
      simp only [List.cons_append, List.cons.injEq] at h
      obtain ⟨h1, h2, h3⟩ := ih b' (fun c hc => ha c (by simp [hc])) (fun c hc => hb c (by simp [hc])) h.2
      exact ⟨by rw [h.1, h1], h2, h3⟩

private def IsDigit (c : UInt8) : Prop := 48 ≤ c ∧ c ≤ 57

private theorem not_digit_32 : ¬ IsDigit 32 := by unfold IsDigit; decide

/-- the decimal rendering followed by a blank splits uniquely -/
theorem natToText_sep (n m : Nat) (r r' : Text) (h : natToText n ++ 32 :: r = natToText m ++ 32 :: r') :
    n = m ∧ r = r' := by
  obtain ⟨h1, _, h3⟩ := append_sep IsDigit _ _ _ _ _ _ (C03.natToText_digits n) (C03.natToText_digits m)
    not_digit_32 not_digit_32 h
  exact ⟨C03.natToText_injective _ _ h1, h3⟩

/-! ## 4a. a counter line determines its symbol, its number and its verb -/

/-- two counter lines with symbols of the same length and newline-free verbs, each followed by
    anything: equal texts have equal symbols, numbers, verbs and continuations -/
theorem counterLine_sep (s s' v v' : Text) (n m : Nat) (X Y : Text) (hlen : s.length = s'.length)
    (hv : nl ∉ v) (hv' : nl ∉ v')
    (h : counterLine s v n ++ X = counterLine s' v' m ++ Y) : s = s' ∧ n = m ∧ v = v' ∧ X = Y := by
  rw [counterLine_bytes, counterLine_bytes] at h
  simp only [List.append_assoc] at h
  obtain ⟨hs, h⟩ := List.append_inj h hlen
  obtain ⟨hn, h⟩ := natToText_sep _ _ _ _ h
  subst hn
  simp only [List.append_eq, List.append_assoc, List.cons_append, List.nil_append] at h
  simp only [List.cons.injEq, true_and] at h
  have h := List.append_cancel_left h
  simp only [List.cons.injEq, true_and] at h
  obtain ⟨hvv, _, hXY⟩ := append_sep (· ≠ nl) v v' 10 10 X Y (fun c hc e => hv (e ▸ hc))
    (fun c hc e => hv' (e ▸ hc)) (by simp [nl]) (by simp [nl]) h
  exact ⟨hs, rfl, hvv, hXY⟩

/-- **`printEvent_injective`**: the line determines the (non-zero) number -/
theorem printEvent_injective (s v : Text) (n m : Nat) (hn : n ≠ 0) (hm : m ≠ 0)
    (h : printEvent s v n = printEvent s v m) : n = m := by
  rw [printEvent_spec, printEvent_spec, if_neg hn, if_neg hm, counterLine_bytes, counterLine_bytes] at h
  exact (natToText_sep _ _ _ _ (List.append_cancel_left h)).1

/-- … and since a zero prints nothing and a non-zero something, for every verb -/
theorem printEvent_injective' (s v : Text) (n m : Nat) (h : printEvent s v n = printEvent s v m) :
    n = m := by
  by_cases hn : n = 0
  · subst hn
    rw [(printEvent_eq_nil_iff s v 0).mpr rfl] at h
    exact ((printEvent_eq_nil_iff s v m).mp h.symm).symm
  · by_cases hm : m = 0
    · subst hm
      rw [(printEvent_eq_nil_iff s v 0).mpr rfl] at h
      exact absurd ((printEvent_eq_nil_iff s v n).mp h) hn
    · exact printEvent_injective s v n m hn hm h

example : printEvent go_updateSymbol (ofString "added") 12 ≠ printEvent go_updateSymbol (ofString "added") 2 :=
  fun h => absurd (printEvent_injective _ _ 12 2 (by decide) (by decide) h) (by decide)

/-! ## a sequence of optional counter lines -/

/-- the lines of the counters `ns` for the (symbol, verb) pairs `ks`, zero counters omitted -/
def counterLines (ks : List (Text × Text)) (ns : List Nat) : Text :=
  (List.zipWith (fun k n => printEvent k.1 k.2 n) ks ns).flatten

theorem counterLines_cons (k : Text × Text) (ks : List (Text × Text)) (n : Nat) (ns : List Nat) :
    counterLines (k :: ks) (n :: ns) = printEvent k.1 k.2 n ++ counterLines ks ns := by
  simp [counterLines]

/-- the text of some counter lines is empty or starts with the line of one of the pairs -/
theorem counterLines_head (ks : List (Text × Text)) (ns : List Nat) :
    counterLines ks ns = [] ∨
    ∃ k ∈ ks, ∃ m, m ≠ 0 ∧ ∃ Y, counterLines ks ns = counterLine k.1 k.2 m ++ Y := by
  induction ks generalizing ns with
  | nil => left; simp [counterLines]
  | cons k ks ih =>
    cases ns with
    | nil => left; simp [counterLines]
    | cons n ns =>
      rw [counterLines_cons]
      by_cases hn : n = 0
      · rw [(printEvent_eq_nil_iff _ _ _).mpr hn, List.nil_append]
        rcases ih ns with h | ⟨k', hk', m, hm, Y, h⟩
        · exact Or.inl h
        · exact Or.inr ⟨k', by simp [hk'], m, hm, Y, h⟩
      · right
        refine ⟨k, by simp, n, hn, counterLines ks ns, ?_⟩
        rw [printEvent_spec, if_neg hn]

/-- **the text of the counter lines determines every counter**, for distinct (symbol, verb) pairs
    with symbols of one length and newline-free verbs -/
theorem counterLines_injective (L : Nat) (ks : List (Text × Text)) (hnd : ks.Nodup)
    (hk : ∀ k ∈ ks, k.1.length = L ∧ nl ∉ k.2) (ns ns' : List Nat)
    (hl : ns.length = ks.length) (hl' : ns'.length = ks.length)
    (h : counterLines ks ns = counterLines ks ns') : ns = ns' := by
  induction ks generalizing ns ns' with
  | nil =>
    simp only [List.length_nil, List.length_eq_zero_iff] at hl hl'
    rw [hl, hl']
  | cons k ks ih =>
    obtain ⟨n, ns1, rfl⟩ : ∃ n ns1, ns = n :: ns1 := by
      cases ns with
      | nil => simp at hl
      | cons n ns1 => exact ⟨n, ns1, rfl⟩
    obtain ⟨m, ns1', rfl⟩ : ∃ m ns1', ns' = m :: ns1' := by
      cases ns' with
      | nil => simp at hl'
      | cons m ns1' => exact ⟨m, ns1', rfl⟩
    simp only [List.length_cons, Nat.add_right_cancel_iff] at hl hl'
    rw [counterLines_cons, counterLines_cons] at h
    have hnd' := (List.nodup_cons.mp hnd).2
    have hknot := (List.nodup_cons.mp hnd).1
    have hk' : ∀ k' ∈ ks, k'.1.length = L ∧ nl ∉ k'.2 := fun k' h' => hk k' (by simp [h'])
    have hkk := hk k (by simp)
    -- a non-zero head against a zero head: the other side starts with a line of a later pair
    have clash : ∀ (a : Nat) (l1 l2 : List Nat), a ≠ 0 →
        printEvent k.1 k.2 a ++ counterLines ks l1 = counterLines ks l2 → False := by
      intro a l1 l2 ha e
      rw [printEvent_spec, if_neg ha] at e
      rcases counterLines_head ks l2 with h0 | ⟨k', hk'mem, b, _, Y, hY⟩
      · rw [h0] at e
        exact counterLine_ne_nil _ _ _ (List.append_eq_nil_iff.mp e).1
      · rw [hY] at e
        have hk'' := hk' k' hk'mem
        obtain ⟨e1, _, e3, _⟩ := counterLine_sep _ _ _ _ _ _ _ _ (hkk.1.trans hk''.1.symm) hkk.2 hk''.2 e
        exact hknot (by rw [show k = k' from Prod.ext e1 e3]; exact hk'mem)
    by_cases hn : n = 0
    · by_cases hm : m = 0
      · subst hn hm
        rw [(printEvent_eq_nil_iff _ _ 0).mpr rfl, List.nil_append, List.nil_append] at h
        rw [ih hnd' hk' ns1 ns1' hl hl' h]
      · subst hn
        rw [(printEvent_eq_nil_iff _ _ 0).mpr rfl, List.nil_append] at h
        exact (clash m ns1' ns1 hm h.symm).elim
    · by_cases hm : m = 0
      · subst hm
        rw [(printEvent_eq_nil_iff _ _ 0).mpr rfl, List.nil_append] at h
        exact (clash n ns1 ns1' hn h).elim
      · rw [printEvent_spec, printEvent_spec, if_neg hn, if_neg hm] at h
        obtain ⟨_, e2, _, e4⟩ := counterLine_sep _ _ _ _ _ _ _ _ rfl hkk.2 hkk.2 h
        rw [e2, ih hnd' hk' ns1 ns1' hl hl' e4]

/-- the five (symbol, verb) pairs of the summary, in print order -/
def kinds : List (Text × Text) :=
  [(go_successSymbol, ofString "passed"), (go_errorSymbol, ofString "failed"),
   (go_updateSymbol, ofString "added"), (go_updateSymbol, ofString "updated"),
   (go_skipSymbol, ofString "skipped")]

theorem kinds_bytes : kinds =
    [([226, 156, 147, 32], [112, 97, 115, 115, 101, 100]), ([226, 156, 149, 32], [102, 97, 105, 108, 101, 100]),
     ([226, 156, 142, 32], [97, 100, 100, 101, 100]), ([226, 156, 142, 32], [117, 112, 100, 97, 116, 101, 100]),
     ([226, 159, 179, 32], [115, 107, 105, 112, 112, 101, 100])] := by
  unfold kinds
  rw [lit_passed, lit_failed, lit_added, lit_updated, lit_skipped]
  rfl

/-- the pairs are distinct (`added` and `updated` share `✎` but not the verb), every symbol is 4
    bytes, no verb contains a newline -/
theorem kinds_ok : kinds.Nodup ∧ ∀ k ∈ kinds, k.1.length = 4 ∧ nl ∉ k.2 := by
  rw [kinds_bytes]; decide

/-! ## 1. when the summary is empty -/

/-- **`summary_empty_iff`** -/
theorem summary_empty_iff (obsFiles obsTests : List Text) (nSkipped : Nat) (ev : Events)
    (anyEvent update : Bool) :
    summary obsFiles obsTests nSkipped ev anyEvent update = [] ↔
      obsFiles = [] ∧ obsTests = [] ∧ anyEvent = false ∧ nSkipped = 0 := by
  unfold summary
  split
  · rename_i h
    simp only [Bool.and_eq_true, decide_eq_true_eq, Bool.not_eq_true'] at h
    simp [h.1.1.1, h.1.1.2, h.1.2, h.2]
  · rename_i h
    simp only [Bool.and_eq_true, decide_eq_true_eq, Bool.not_eq_true'] at h
    constructor
    · intro e; simp at e
    · rintro ⟨h1, h2, h3, h4⟩; exact absurd ⟨⟨⟨h1, h2⟩, h3⟩, h4⟩ h

example : summary [] [] 0 { passed := 7 } false true = [] ∧ summary [] [] 1 {} false true ≠ [] ∧
    summary [[97]] [] 0 {} false true ≠ [] := by
  refine ⟨(summary_empty_iff ..).mpr ⟨rfl, rfl, rfl, rfl⟩, ?_, ?_⟩ <;>
    (intro h; have := (summary_empty_iff ..).mp h; simp at this)

/-! ## 3. the decomposition -/

theorem objectList_spec (xs : List Text) (name : Text) (update : Bool) :
    objectList xs name update = blockHeader xs.length name update ++ (xs.map itemLine).flatten := by
  have hi : (fun ob => ofString "  " ++ go_enterSymbol ++ ofString " " ++ go_bulletSymbol ++ ob ++ [nl]) =
      itemLine := rfl
  unfold objectList blockHeader plural actionWord
  simp only [hi]
  by_cases h1 : xs.length > 1 <;> cases update <;> simp [h1]

/-- **`summary_structure`**: a non-empty summary is the header, the five optional counter lines
    (passed, failed, added, updated, skipped — in this order), the block of obsolete files, the
    block of obsolete tests and the hint -/
theorem summary_structure (obsFiles obsTests : List Text) (nSkipped : Nat) (ev : Events)
    (anyEvent update : Bool)
    (hne : ¬ (obsFiles = [] ∧ obsTests = [] ∧ anyEvent = false ∧ nSkipped = 0)) :
    summary obsFiles obsTests nSkipped ev anyEvent update =
      header ++
      printEvent go_successSymbol (ofString "passed") ev.passed ++
      printEvent go_errorSymbol (ofString "failed") ev.erred ++
      printEvent go_updateSymbol (ofString "added") ev.added ++
      printEvent go_updateSymbol (ofString "updated") ev.updated ++
      printEvent go_skipSymbol (ofString "skipped") nSkipped ++
      block obsFiles (ofString "file") update ++
      block obsTests (ofString "test") update ++
      hint (obsFiles.length + obsTests.length) update := by
  have hc : (obsFiles = [] && obsTests = [] && !anyEvent && nSkipped = 0) = false := by
    cases hb : (obsFiles = [] && obsTests = [] && !anyEvent && nSkipped = 0) with
    | false => rfl
    | true =>
      simp only [Bool.and_eq_true, decide_eq_true_eq, Bool.not_eq_true'] at hb
      exact absurd ⟨hb.1.1.1, hb.1.1.2, hb.1.2, hb.2⟩ hne
  unfold summary
  rw [hc]
  simp only [Bool.false_eq_true, ↓reduceIte]
  have hb : ∀ (xs : List Text) (name : Text),
      (if xs ≠ [] then objectList xs name update else []) = block xs name update := by
    intro xs name
    unfold block
    by_cases hx : xs = []
    · simp [hx]
    · simp [hx, objectList_spec]
  have hh : (if (!update && decide (obsFiles.length + obsTests.length > 0)) = true then
      [nl] ++ ofString "To remove " ++
        (if obsFiles.length + obsTests.length > 1 then ofString "them" else ofString "it") ++
        ofString ", re-run tests with `UPDATE_SNAPS=clean go test ./...`" ++ [nl]
      else []) = hint (obsFiles.length + obsTests.length) update := by
    unfold hint
    cases update <;> simp
  rw [hb, hb, hh]
  rfl

/-- the same with the counter lines as a list -/
theorem summary_eq_lines (obsFiles obsTests : List Text) (nSkipped : Nat) (ev : Events)
    (anyEvent update : Bool)
    (hne : ¬ (obsFiles = [] ∧ obsTests = [] ∧ anyEvent = false ∧ nSkipped = 0)) :
    summary obsFiles obsTests nSkipped ev anyEvent update =
      header ++ counterLines kinds [ev.passed, ev.erred, ev.added, ev.updated, nSkipped] ++
      (block obsFiles (ofString "file") update ++ block obsTests (ofString "test") update ++
        hint (obsFiles.length + obsTests.length) update) := by
  rw [summary_structure _ _ _ _ _ _ hne]
  simp [counterLines, kinds, List.append_assoc]

/-! ## 4b. each counter's line, and the numbers are determined by the text -/

/-- **every counter has its own place**: a non-empty summary is `pre ++ line ++ post` where `line`
    is the counter's line — empty iff the counter is zero (`printEvent_eq_nil_iff`), else
    `counterLine sym verb n` (`printEvent_spec`) — with `pre`, `post` explicit -/
theorem summary_counter_lines (obsFiles obsTests : List Text) (nSkipped : Nat) (ev : Events)
    (anyEvent update : Bool)
    (hne : ¬ (obsFiles = [] ∧ obsTests = [] ∧ anyEvent = false ∧ nSkipped = 0)) :
    let S := summary obsFiles obsTests nSkipped ev anyEvent update
    let P := printEvent go_successSymbol (ofString "passed") ev.passed
    let F := printEvent go_errorSymbol (ofString "failed") ev.erred
    let A := printEvent go_updateSymbol (ofString "added") ev.added
    let U := printEvent go_updateSymbol (ofString "updated") ev.updated
    let K := printEvent go_skipSymbol (ofString "skipped") nSkipped
    let T := block obsFiles (ofString "file") update ++ block obsTests (ofString "test") update ++
      hint (obsFiles.length + obsTests.length) update
    S = header ++ P ++ (F ++ A ++ U ++ K ++ T) ∧
    S = (header ++ P) ++ F ++ (A ++ U ++ K ++ T) ∧
    S = (header ++ P ++ F) ++ A ++ (U ++ K ++ T) ∧
    S = (header ++ P ++ F ++ A) ++ U ++ (K ++ T) ∧
    S = (header ++ P ++ F ++ A ++ U) ++ K ++ T := by
  intro S P F A U K T
  have h : S = header ++ P ++ F ++ A ++ U ++ K ++ block obsFiles (ofString "file") update ++
      block obsTests (ofString "test") update ++ hint (obsFiles.length + obsTests.length) update :=
    summary_structure _ _ _ _ _ _ hne
  refine ⟨?_, ?_, ?_, ?_, ?_⟩ <;> (rw [h]; simp only [T, List.append_assoc])

/-- **the text determines the five numbers**: two summaries of the same obsolete items in the same
    mode, at least one of them non-empty, with equal text, show equal counters.  (The lists may
    contain anything — newlines, even fake counter lines: they are a common suffix.) -/
theorem summary_numbers_injective (obsFiles obsTests : List Text) (update : Bool)
    (n n' : Nat) (ev ev' : Events) (a a' : Bool)
    (hne : summary obsFiles obsTests n ev a update ≠ [])
    (h : summary obsFiles obsTests n ev a update = summary obsFiles obsTests n' ev' a' update) :
    ev = ev' ∧ n = n' := by
  have hne' : summary obsFiles obsTests n' ev' a' update ≠ [] := h ▸ hne
  rw [Ne, summary_empty_iff] at hne hne'
  rw [summary_eq_lines _ _ _ _ _ _ hne, summary_eq_lines _ _ _ _ _ _ hne'] at h
  have h := List.append_cancel_right h
  rw [List.append_cancel_left_eq] at h
  have := counterLines_injective 4 kinds kinds_ok.1 kinds_ok.2 _ _ rfl rfl h
  simp only [List.cons.injEq, and_true] at this
  obtain ⟨h1, h2, h3, h4, h5⟩ := this
  refine ⟨?_, h5⟩
  cases ev; cases ev'
  simp only [Events.mk.injEq]
  simp only at h1 h2 h3 h4
  exact ⟨h2, h3, h4, h1⟩

/-- e.g. a summary showing 2 passed / 1 failed is not the summary showing 1 passed / 2 failed -/
example : summary [[97]] [] 0 { passed := 2, erred := 1 } true false ≠
    summary [[97]] [] 0 { passed := 1, erred := 2 } true false := by
  intro h
  have := (summary_numbers_injective _ _ _ _ _ _ _ _ _
    (fun e => by have := (summary_empty_iff ..).mp e; simp at this) h).1
  exact absurd this (by decide)

/-- the side condition is needed only because `anyEvent` is a separate argument: with all lists
    empty, nothing skipped and `anyEvent = false` the summary is empty whatever the counters say -/
example : summary [] [] 0 { passed := 1 } false false = summary [] [] 0 { passed := 2 } false false := by
  rw [(summary_empty_iff ..).mpr ⟨rfl, rfl, rfl, rfl⟩, (summary_empty_iff ..).mpr ⟨rfl, rfl, rfl, rfl⟩]

/-- with `anyEvent` computed from the counters, as `Clean` does (`len(testEvents.items) > 0`), no
    side condition is left -/
theorem summary_numbers_injective_coherent (obsFiles obsTests : List Text) (update : Bool)
    (n n' : Nat) (ev ev' : Events)
    (h : summary obsFiles obsTests n ev (decide (C20.Events.total ev > 0)) update =
      summary obsFiles obsTests n' ev' (decide (C20.Events.total ev' > 0)) update) :
    ev = ev' ∧ n = n' := by
  by_cases hne : summary obsFiles obsTests n ev (decide (C20.Events.total ev > 0)) update = []
  · have hne' := hne
    rw [h] at hne'
    rw [summary_empty_iff] at hne hne'
    obtain ⟨_, _, h3, h4⟩ := hne
    obtain ⟨_, _, h3', h4'⟩ := hne'
    refine ⟨?_, by rw [h4, h4']⟩
    cases ev; cases ev'
    simp only [C20.Events.total, gt_iff_lt, decide_eq_false_iff_not, Nat.not_lt, Nat.le_zero_eq] at h3 h3'
    simp only [Events.mk.injEq]
    omega
  · exact summary_numbers_injective _ _ _ _ _ _ _ _ _ hne h

/-! ## 5. the blocks list exactly the obsolete items -/

theorem block_eq_nil_iff (xs : List Text) (name : Text) (update : Bool) :
    block xs name update = [] ↔ xs = [] := by
  unfold block blockHeader
  by_cases h : xs = [] <;> simp [h]

/-- every item has its line, in order: for `xs = l1 ++ x :: l2` the block is the header showing
    `xs.length`, the lines of `l1`, the line of `x`, the lines of `l2` -/
theorem block_item (l1 l2 : List Text) (x name : Text) (update : Bool) :
    block (l1 ++ x :: l2) name update =
      (blockHeader (l1 ++ x :: l2).length name update ++ (l1.map itemLine).flatten) ++
        itemLine x ++ (l2.map itemLine).flatten := by
  unfold block
  simp

theorem actionWord_injective (u u' : Bool) (h : actionWord u = actionWord u') : u = u' := by
  rw [actionWord_bytes, actionWord_bytes] at h
  cases u <;> cases u' <;> first | rfl | (exact absurd h (by decide))

/-- the block header determines the count it shows -/
theorem blockHeader_count (k k' : Nat) (name name' : Text) (u u' : Bool) (X Y : Text)
    (h : blockHeader k name u ++ X = blockHeader k' name' u' ++ Y) : k = k' := by
  rw [blockHeader_bytes, blockHeader_bytes] at h
  simp only [List.append_assoc] at h
  exact (natToText_sep _ _ _ _ (List.append_cancel_left h)).1

/-- newline-free items are determined by their lines -/
theorem itemLines_injective (xs ys : List Text) (hx : ∀ x ∈ xs, nl ∉ x) (hy : ∀ y ∈ ys, nl ∉ y)
    (h : (xs.map itemLine).flatten = (ys.map itemLine).flatten) : xs = ys := by
  induction xs generalizing ys with
  | nil =>
    cases ys with
    | nil => rfl
    | cons y ys => simp [itemLine_bytes] at h
  | cons x xs ih =>
    cases ys with
    | nil => simp [itemLine_bytes] at h
    | cons y ys =>
      simp only [List.map_cons, List.flatten_cons, itemLine_bytes, List.append_assoc] at h
      have h := List.append_cancel_left h
      simp only [List.cons_append, List.nil_append] at h
      obtain ⟨e1, _, e3⟩ := append_sep (· ≠ nl) x y 10 10 _ _
        (fun c hc e => hx x (by simp) (e ▸ hc)) (fun c hc e => hy y (by simp) (e ▸ hc))
        (by simp [nl]) (by simp [nl]) h
      rw [e1, ih ys (fun x' h' => hx x' (by simp [h'])) (fun y' h' => hy y' (by simp [h'])) e3]

/-- **a block determines the list it shows**, for newline-free items (test ids are lines of a
    snapshot file, hence newline-free; paths are unless a file name contains a newline) -/
theorem block_injective (xs ys : List Text) (name : Text) (u : Bool)
    (hx : ∀ x ∈ xs, nl ∉ x) (hy : ∀ y ∈ ys, nl ∉ y)
    (h : block xs name u = block ys name u) : xs = ys := by
  by_cases hxe : xs = []
  · subst hxe
    rw [(block_eq_nil_iff [] name u).mpr rfl] at h
    exact ((block_eq_nil_iff ys name u).mp h.symm).symm
  · by_cases hye : ys = []
    · subst hye
      rw [(block_eq_nil_iff [] name u).mpr rfl] at h
      exact absurd ((block_eq_nil_iff xs name u).mp h) hxe
    · unfold block at h
      rw [if_neg hxe, if_neg hye] at h
      have hk := blockHeader_count _ _ _ _ _ _ _ _ h
      rw [hk] at h
      exact itemLines_injective xs ys hx hy (List.append_cancel_left h)

/-- without the newline condition two different lists of the same length can print the same block:
    `["a\n  ↳  • b", "c"]` and `["a", "b\n  ↳  • c"]` -/
example :
    block [[97, 10, 32, 32, 226, 134, 179, 32, 32, 226, 128, 162, 32, 98], [99]] (ofString "test") false =
    block [[97], [98, 10, 32, 32, 226, 134, 179, 32, 32, 226, 128, 162, 32, 99]] (ofString "test") false := by
  simp [block, itemLine_bytes]

theorem hint_eq_nil_iff (k : Nat) (update : Bool) : hint k update = [] ↔ ¬ (update = false ∧ k > 0) := by
  unfold hint
  by_cases h : update = false ∧ k > 0
  · simp [h]
  · rw [if_neg h]; simp [h]

/-- the hint as bytes, when present -/
theorem hint_bytes (k : Nat) (hk : k > 0) :
    hint k false = [10, 84, 111, 32, 114, 101, 109, 111, 118, 101, 32] ++
      (if k > 1 then [116, 104, 101, 109] else [105, 116]) ++
      ofString ", re-run tests with `UPDATE_SNAPS=clean go test ./...`" ++ [10] := by
  unfold hint
  rw [if_pos ⟨rfl, hk⟩, lit_toRemove, lit_them, lit_it]
  simp [nl]

/-- **`summary_lists_exactly`.**  In a non-empty summary:
* the files block is `block obsFiles "file" update` and the tests block `block obsTests "test" update`:
  absent iff the list is empty, else a header showing the list's length (`blockHeader_count`: the
  header determines it) and the word `removed` if `update` else `obsolete` (`actionWord`,
  `actionWord_injective`), followed by exactly one `itemLine` per element, in order;
* for every split `obsFiles = l1 ++ x :: l2` (resp. `obsTests`) the text is `pre ++ itemLine x ++ post`
  with `pre`, `post` explicit;
* the hint `"\nTo remove it|them, …\n"` is present iff `update = false` and there is an item. -/
theorem summary_lists_exactly (obsFiles obsTests : List Text) (nSkipped : Nat) (ev : Events)
    (anyEvent update : Bool)
    (hne : ¬ (obsFiles = [] ∧ obsTests = [] ∧ anyEvent = false ∧ nSkipped = 0)) :
    let S := summary obsFiles obsTests nSkipped ev anyEvent update
    let C := header ++ counterLines kinds [ev.passed, ev.erred, ev.added, ev.updated, nSkipped]
    let H := hint (obsFiles.length + obsTests.length) update
    S = C ++ block obsFiles (ofString "file") update ++ block obsTests (ofString "test") update ++ H ∧
    (∀ l1 x l2, obsFiles = l1 ++ x :: l2 →
      S = (C ++ blockHeader obsFiles.length (ofString "file") update ++ (l1.map itemLine).flatten) ++
        itemLine x ++ ((l2.map itemLine).flatten ++ block obsTests (ofString "test") update ++ H)) ∧
    (∀ l1 x l2, obsTests = l1 ++ x :: l2 →
      S = (C ++ block obsFiles (ofString "file") update ++
          blockHeader obsTests.length (ofString "test") update ++ (l1.map itemLine).flatten) ++
        itemLine x ++ ((l2.map itemLine).flatten ++ H)) ∧
    (H = [] ↔ ¬ (update = false ∧ obsFiles.length + obsTests.length > 0)) := by
  intro S C H
  have h : S = C ++ (block obsFiles (ofString "file") update ++ block obsTests (ofString "test") update ++ H) :=
    summary_eq_lines _ _ _ _ _ _ hne
  refine ⟨by rw [h]; simp only [List.append_assoc], ?_, ?_, hint_eq_nil_iff _ _⟩
  · intro l1 x l2 e
    rw [h, e, block_item]
    simp only [List.append_assoc]
  · intro l1 x l2 e
    rw [h, e, block_item]
    simp only [List.append_assoc]

/-- in particular every obsolete item occurs in the text as its own line -/
theorem summary_shows_item (obsFiles obsTests : List Text) (nSkipped : Nat) (ev : Events)
    (anyEvent update : Bool) (x : Text) (hx : x ∈ obsFiles ∨ x ∈ obsTests) :
    ∃ pre post, summary obsFiles obsTests nSkipped ev anyEvent update = pre ++ itemLine x ++ post := by
  have hne : ¬ (obsFiles = [] ∧ obsTests = [] ∧ anyEvent = false ∧ nSkipped = 0) := by
    rintro ⟨h1, h2, _, _⟩
    subst h1 h2
    simp at hx
  obtain ⟨_, hf, ht, _⟩ := summary_lists_exactly obsFiles obsTests nSkipped ev anyEvent update hne
  rcases hx with hx | hx
  · obtain ⟨l1, l2, e⟩ := List.append_of_mem hx
    exact ⟨_, _, hf l1 x l2 e⟩
  · obtain ⟨l1, l2, e⟩ := List.append_of_mem hx
    exact ⟨_, _, ht l1 x l2 e⟩

set_option maxRecDepth 8192 in
/-- a whole summary, byte for byte: 2 passed, 1 failed, 0 added, 0 updated, 1 skipped, the obsolete
    file `/s/b.snap` and the obsolete tests `TestA - 1`, `TestC - 2`, report mode:

        \nSnapshot Summary\n\n✓ 2 snapshots passed\n✕ 1 snapshot failed\n⟳ 1 snapshot skipped\n
        \n› 1 snapshot file obsolete\n  ↳  • /s/b.snap\n
        \n› 2 snapshot tests obsolete\n  ↳  • TestA - 1\n  ↳  • TestC - 2\n
        \nTo remove them, re-run tests with `UPDATE_SNAPS=clean go test ./...`\n -/
example :
    summary [[47, 115, 47, 98, 46, 115, 110, 97, 112]]
      [[84, 101, 115, 116, 65, 32, 45, 32, 49], [84, 101, 115, 116, 67, 32, 45, 32, 50]] 1
      { passed := 2, erred := 1 } true false =
    [10, 83, 110, 97, 112, 115, 104, 111, 116, 32, 83, 117, 109, 109, 97, 114, 121, 10, 10,
     226, 156, 147, 32, 50, 32, 115, 110, 97, 112, 115, 104, 111, 116, 115, 32, 112, 97, 115, 115, 101, 100, 10,
     226, 156, 149, 32, 49, 32, 115, 110, 97, 112, 115, 104, 111, 116, 32, 102, 97, 105, 108, 101, 100, 10,
     226, 159, 179, 32, 49, 32, 115, 110, 97, 112, 115, 104, 111, 116, 32, 115, 107, 105, 112, 112, 101, 100, 10,
     10, 226, 128, 186, 32, 49, 32, 115, 110, 97, 112, 115, 104, 111, 116, 32, 102, 105, 108, 101, 32,
       111, 98, 115, 111, 108, 101, 116, 101, 10,
     32, 32, 226, 134, 179, 32, 32, 226, 128, 162, 32, 47, 115, 47, 98, 46, 115, 110, 97, 112, 10,
     10, 226, 128, 186, 32, 50, 32, 115, 110, 97, 112, 115, 104, 111, 116, 32, 116, 101, 115, 116, 115, 32,
       111, 98, 115, 111, 108, 101, 116, 101, 10,
     32, 32, 226, 134, 179, 32, 32, 226, 128, 162, 32, 84, 101, 115, 116, 65, 32, 45, 32, 49, 10,
     32, 32, 226, 134, 179, 32, 32, 226, 128, 162, 32, 84, 101, 115, 116, 67, 32, 45, 32, 50, 10,
     10, 84, 111, 32, 114, 101, 109, 111, 118, 101, 32, 116, 104, 101, 109,
     44, 32, 114, 101, 45, 114, 117, 110, 32, 116, 101, 115, 116, 115, 32, 119, 105, 116, 104, 32, 96,
     85, 80, 68, 65, 84, 69, 95, 83, 78, 65, 80, 83, 61, 99, 108, 101, 97, 110, 32, 103, 111, 32, 116,
     101, 115, 116, 32, 46, 47, 46, 46, 46, 96, 10] := by
  rw [summary_structure _ _ _ _ _ _ (by simp)]
  simp only [printEvent_spec, counterLine_bytes, block, blockHeader_bytes, actionWord_bytes,
    itemLine_bytes, header, lit_title, lit_passed, lit_failed, lit_added, lit_updated, lit_skipped,
    lit_file, lit_test, hint_bytes _ (show (0 + 1 + (0 + 1 + 1) : Nat) > 0 by decide), lit_rerun,
    List.length_cons, List.length_nil, List.map_cons, List.map_nil]
  decide +kernel

/-! ## 6. bridge: what `Clean` shows -/

/-- **`clean_summary_counts`.**  For a supported run of `Clean` with stage results `fr`
    (`examineFiles`) and `obsTests` (`examineSnaps`) — `CleanRun` records the exact calls —
    * nothing is printed iff there is nothing to show (no obsolete file, no obsolete test, all
      four counters zero, nothing skipped);
    * otherwise standard output is the header, the lines of `w.events.passed`, `w.events.erred`,
      `w.events.added`, `w.events.updated` and `w.skipped.length`, the block of exactly `fr.obsolete`,
      the block of exactly `obsTests`, the hint, and `Println`'s newline;
    * the wording is `removed` (and no hint) iff the run was in clean mode. -/
theorem clean_summary_counts (o : Oracles) (w : World) (sortOpt : Bool) (runOnly : Text) (count : Nat)
    (hs : (clean o w sortOpt runOnly count).2.unsupported = none) :
    ∃ sa fr obsTests fs written, CleanRun o w sortOpt runOnly count sa fr obsTests fs written ∧
      let u := summaryUpdate w.env sortOpt
      let nothing := fr.obsolete = [] ∧ obsTests = [] ∧ C20.Events.total w.events = 0 ∧ w.skipped = []
      (u = true ↔ C05Clean.DeleteMode w.env) ∧
      (nothing → (clean o w sortOpt runOnly count).2.stdout = []) ∧
      (¬ nothing → (clean o w sortOpt runOnly count).2.stdout =
        header ++
        printEvent go_successSymbol (ofString "passed") w.events.passed ++
        printEvent go_errorSymbol (ofString "failed") w.events.erred ++
        printEvent go_updateSymbol (ofString "added") w.events.added ++
        printEvent go_updateSymbol (ofString "updated") w.events.updated ++
        printEvent go_skipSymbol (ofString "skipped") w.skipped.length ++
        block fr.obsolete (ofString "file") u ++
        block obsTests (ofString "test") u ++
        hint (fr.obsolete.length + obsTests.length) u ++ [nl]) := by
  obtain ⟨sa, fr, obsT, fs, wr, run, hout, hmode⟩ :=
    C05Clean.clean_stdout_is_summary o w sortOpt runOnly count hs
  refine ⟨sa, fr, obsT, fs, wr, run, hmode, ?_, ?_⟩
  · rintro ⟨h1, h2, h3, h4⟩
    rw [hout]
    have : summary fr.obsolete obsT w.skipped.length w.events
        (decide (w.events.erred + w.events.added + w.events.updated + w.events.passed > 0))
        (summaryUpdate w.env sortOpt) = [] := by
      rw [summary_empty_iff]
      refine ⟨h1, h2, ?_, by simp [h4]⟩
      simp only [C20.Events.total] at h3
      simp [h3]
    simp only [this, ↓reduceIte]
  · intro hn
    rw [hout]
    have hne : ¬ (fr.obsolete = [] ∧ obsT = [] ∧
        decide (w.events.erred + w.events.added + w.events.updated + w.events.passed > 0) = false ∧
        w.skipped.length = 0) := by
      rintro ⟨h1, h2, h3, h4⟩
      apply hn
      refine ⟨h1, h2, ?_, List.length_eq_zero_iff.mp h4⟩
      simp only [decide_eq_false_iff_not, Nat.not_lt, Nat.le_zero_eq] at h3
      exact h3
    have hne' := hne
    rw [← summary_empty_iff (ev := w.events) (update := summaryUpdate w.env sortOpt)] at hne'
    simp only [hne', ↓reduceIte]
    rw [summary_structure _ _ _ _ _ _ hne]

set_option maxRecDepth 8192 in
/-- the sort-only run of C05Clean.Ex (`/s/a.snap` registered with a stale `[TestA - 1]`, orphan
    `/s/b.snap`, one passed snapshot, off CI, `UPDATE_SNAPS=""`) prints exactly

        \nSnapshot Summary\n\n✓ 1 snapshot passed\n
        \n› 1 snapshot file obsolete\n  ↳  • /s/b.snap\n
        \n› 1 snapshot test obsolete\n  ↳  • TestA - 1\n
        \nTo remove them, re-run tests with `UPDATE_SNAPS=clean go test ./...`\n\n -/
example :
    (clean {} (C05Clean.Ex.world false "") true [] 1).2.stdout =
    [10, 83, 110, 97, 112, 115, 104, 111, 116, 32, 83, 117, 109, 109, 97, 114, 121, 10, 10,
     226, 156, 147, 32, 49, 32, 115, 110, 97, 112, 115, 104, 111, 116, 32, 112, 97, 115, 115, 101, 100, 10,
     10, 226, 128, 186, 32, 49, 32, 115, 110, 97, 112, 115, 104, 111, 116, 32, 102, 105, 108, 101, 32,
       111, 98, 115, 111, 108, 101, 116, 101, 10,
     32, 32, 226, 134, 179, 32, 32, 226, 128, 162, 32, 47, 115, 47, 98, 46, 115, 110, 97, 112, 10,
     10, 226, 128, 186, 32, 49, 32, 115, 110, 97, 112, 115, 104, 111, 116, 32, 116, 101, 115, 116, 32,
       111, 98, 115, 111, 108, 101, 116, 101, 10,
     32, 32, 226, 134, 179, 32, 32, 226, 128, 162, 32, 84, 101, 115, 116, 65, 32, 45, 32, 49, 10,
     10, 84, 111, 32, 114, 101, 109, 111, 118, 101, 32, 116, 104, 101, 109,
     44, 32, 114, 101, 45, 114, 117, 110, 32, 116, 101, 115, 116, 115, 32, 119, 105, 116, 104, 32, 96,
     85, 80, 68, 65, 84, 69, 95, 83, 78, 65, 80, 83, 61, 99, 108, 101, 97, 110, 32, 103, 111, 32, 116,
     101, 115, 116, 32, 46, 47, 46, 46, 46, 96, 10, 10] := by
  rw [C05Clean.Ex.sortOnly_stdout, summary_structure _ _ _ _ _ _ (by simp)]
  simp only [printEvent_spec, counterLine_bytes, block, blockHeader_bytes, actionWord_bytes,
    itemLine_bytes, header, lit_title, lit_passed, lit_failed, lit_added, lit_updated, lit_skipped,
    lit_file, lit_test, hint_bytes _ (show (0 + 1 + (0 + 1) : Nat) > 0 by decide), lit_rerun,
    List.length_cons, List.length_nil, List.map_cons, List.map_nil, C05Clean.Ex.pb]
  decide +kernel

/-- **two runs of `Clean` that report the same obsolete items in the same mode and print the same
    text saw the same counters**: the numbers shown are the world's numbers and nothing else -/
theorem clean_stdout_determines_counts (o o' : Oracles) (w w' : World) (sortOpt sortOpt' : Bool)
    (runOnly runOnly' : Text) (count count' : Nat)
    (sa sa' : List Text) (fr fr' : FilesResult) (obsT obsT' : List Text) (fs fs' : FS) (wr wr' : List Text)
    (run : CleanRun o w sortOpt runOnly count sa fr obsT fs wr)
    (run' : CleanRun o' w' sortOpt' runOnly' count' sa' fr' obsT' fs' wr')
    (hfiles : fr.obsolete = fr'.obsolete) (htests : obsT = obsT')
    (hmode : summaryUpdate w.env sortOpt = summaryUpdate w'.env sortOpt')
    (h : (clean o w sortOpt runOnly count).2.stdout = (clean o' w' sortOpt' runOnly' count').2.stdout) :
    w.events = w'.events ∧ w.skipped.length = w'.skipped.length := by
  rw [run.result, run'.result] at h
  simp only [cleanStdout, cleanAnyEvent] at h
  rw [← hfiles, ← htests, ← hmode] at h
  apply summary_numbers_injective_coherent fr.obsolete obsT (summaryUpdate w.env sortOpt)
  simp only [C20.Events.total]
  have key : ∀ s s' : Text,
      (if s = [] then [] else s ++ [nl]) = (if s' = [] then [] else s' ++ [nl]) → s = s' := by
    intro s s' h
    by_cases e : s = [] <;> by_cases e' : s' = []
    · rw [e, e']
    · simp [e, e'] at h
    · simp [e, e'] at h
    · simp only [e, e', ↓reduceIte] at h
      exact List.append_cancel_right h
  exact key _ _ h

end GoSnaps.C20Summary
