/-
C04World — update mode rewrites only what differs, at the level of CALLS of `entryTail` /
`matchEntry` / `standaloneTail` (`GoSnaps/Model.lean`).

Byte legend: `[47,115]` = "/s", 120/121/122 = 'x'/'y'/'z', `[110,10,10,119]` = "n\n\nw".
-/
import GoSnaps.Props.C01World
import GoSnaps.Props.C02World

namespace GoSnaps.C04World

open GoSnaps GoSnaps.C06Refine GoSnaps.Wld
open GoSnaps.C03 (testID)
open GoSnaps.Generated (Env shouldCreate shouldUpdate)

/-! ## 9. an updating call -/

/-- exact result of an updating call; ANY new text `s` (no hypothesis on it) -/
theorem entryTail_update_eq (w : World) (c : Cfg) (p rel id s s₀ : Text) (cmp : Cmp)
    (pre post : List Entry)
    (hfile : Holds w.fs p (pre ++ ⟨id, s₀⟩ :: post)) (hgood : Good (pre ++ ⟨id, s₀⟩ :: post))
    (hne : cmpText cmp s₀ ≠ cmpText cmp s)
    (hu : shouldUpdate w.env c.update = true) :
    entryTail w c p rel id s cmp =
      ({ w with fs := fsWrite w.fs p (render (pre ++ ⟨id, s⟩ :: post)),
                events := { w.events with updated := w.events.updated + 1 } },
       { events := [.log Generated.go_updatedMsg], writes := [p] }) := by
  have hf : fsRead w.fs p = some (render (pre ++ ⟨id, s₀⟩ :: post)) :=
    hfile.some_of_ne_nil (by simp)
  rw [entryTail_found_ne_upd w c p rel id s cmp s₀ _ _ hf (good_lookup_split hgood) hne hu,
    good_update_split hgood s]

/-- **`entryTail_update`.**  The file at `p` holds the `Good` entry list
`pre ++ ⟨id, s₀⟩ :: post`; the compared texts differ (`s ≠ s₀` for MatchJSON,
`unescape s₀ ≠ unescape s` for MatchSnapshot/MatchYAML); updating is allowed.  Then the call logs
"updated" and nothing else, writes `p` only, the file becomes
`render (pre ++ ⟨id, s⟩ :: post)` — every other entry byte-identical and in place — every other
path is unchanged and exactly the `updated` counter moves.  If moreover `s` is a usable body none
of whose lines is a header of the file, the new file is `Good` again. -/
theorem entryTail_update (w : World) (c : Cfg) (p rel id s s₀ : Text) (cmp : Cmp)
    (pre post : List Entry)
    (hfile : Holds w.fs p (pre ++ ⟨id, s₀⟩ :: post)) (hgood : Good (pre ++ ⟨id, s₀⟩ :: post))
    (hne : cmpText cmp s₀ ≠ cmpText cmp s)
    (hu : shouldUpdate w.env c.update = true) :
    let r := entryTail w c p rel id s cmp
    r.2.events = [.log Generated.go_updatedMsg] ∧ r.2.writes = [p] ∧ r.2.removed = [] ∧
    r.2.unsupported = none ∧
    fsRead r.1.fs p = some (render (pre ++ ⟨id, s⟩ :: post)) ∧
    (∀ q, q ≠ p → fsRead r.1.fs q = fsRead w.fs q) ∧
    r.1.events = { w.events with updated := w.events.updated + 1 } ∧
    (GoodBody s → (∀ o ∈ pre ++ ⟨id, s₀⟩ :: post, o.id ∉ lines s) →
      Good (pre ++ ⟨id, s⟩ :: post)) := by
  intro r
  have hr : r = _ := entryTail_update_eq w c p rel id s s₀ cmp pre post hfile hgood hne hu
  rw [hr]
  refine ⟨rfl, rfl, rfl, rfl, C19.fsRead_fsWrite_same _ _ _, ?_, rfl, ?_⟩
  · intro q hq
    exact C19.fsRead_fsWrite_other _ _ _ _ hq
  · intro hb hold
    exact good_replace (e := ⟨id, s₀⟩) hgood hb hold

/-- MatchJSON instance -/
theorem entryTail_update_raw (w : World) (c : Cfg) (p rel id s s₀ : Text)
    (pre post : List Entry)
    (hfile : Holds w.fs p (pre ++ ⟨id, s₀⟩ :: post)) (hgood : Good (pre ++ ⟨id, s₀⟩ :: post))
    (hne : s ≠ s₀) (hu : shouldUpdate w.env c.update = true) :
    let r := entryTail w c p rel id s .raw
    r.2.events = [.log Generated.go_updatedMsg] ∧ r.2.writes = [p] ∧ r.2.removed = [] ∧
    r.2.unsupported = none ∧
    fsRead r.1.fs p = some (render (pre ++ ⟨id, s⟩ :: post)) ∧
    (∀ q, q ≠ p → fsRead r.1.fs q = fsRead w.fs q) ∧
    r.1.events = { w.events with updated := w.events.updated + 1 } ∧
    (GoodBody s → (∀ o ∈ pre ++ ⟨id, s₀⟩ :: post, o.id ∉ lines s) →
      Good (pre ++ ⟨id, s⟩ :: post)) :=
  entryTail_update w c p rel id s s₀ .raw pre post hfile hgood (fun h => hne h.symm) hu

/-- MatchSnapshot / MatchYAML instance -/
theorem entryTail_update_escaped (w : World) (c : Cfg) (p rel id s s₀ : Text)
    (pre post : List Entry)
    (hfile : Holds w.fs p (pre ++ ⟨id, s₀⟩ :: post)) (hgood : Good (pre ++ ⟨id, s₀⟩ :: post))
    (hne : unescape s₀ ≠ unescape s) (hu : shouldUpdate w.env c.update = true) :
    let r := entryTail w c p rel id s .escaped
    r.2.events = [.log Generated.go_updatedMsg] ∧ r.2.writes = [p] ∧ r.2.removed = [] ∧
    r.2.unsupported = none ∧
    fsRead r.1.fs p = some (render (pre ++ ⟨id, s⟩ :: post)) ∧
    (∀ q, q ≠ p → fsRead r.1.fs q = fsRead w.fs q) ∧
    r.1.events = { w.events with updated := w.events.updated + 1 } ∧
    (GoodBody s → (∀ o ∈ pre ++ ⟨id, s₀⟩ :: post, o.id ∉ lines s) →
      Good (pre ++ ⟨id, s⟩ :: post)) :=
  entryTail_update w c p rel id s s₀ .escaped pre post hfile hgood hne hu

/-- three entries, the middle one updated from "y" to "n\n\nw" with UPDATE_SNAPS=true; a second
file is left alone -/
example :
    let p : Text := [47, 115]
    let pre : List Entry := [⟨testID [65] 1, [120]⟩]
    let post : List Entry := [⟨testID [65] 3, [122]⟩]
    let w : World := { env := ⟨false, "true"⟩,
                       fs := [(p, render (pre ++ ⟨testID [65] 2, [121]⟩ :: post)), ([47, 116], [1, 2])] }
    let r := entryTail w {} p [115] (testID [65] 2) [110, 10, 10, 119] .escaped
    Good (pre ++ ⟨testID [65] 2, [121]⟩ :: post) ∧
    r.2.events = [.log Generated.go_updatedMsg] ∧ r.2.writes = [p] ∧
    fsRead r.1.fs p = some (render (pre ++ ⟨testID [65] 2, [110, 10, 10, 119]⟩ :: post)) ∧
    fsRead r.1.fs [47, 116] = some [1, 2] ∧ r.1.events.updated = 1 := by decide +kernel

/-- the same through `matchEntry`: the `k`-th call of test `t` against the recorded `[t - k]` -/
theorem matchEntry_update (w : World) (c : Cfg) (caller t : Text) (x : Nat) (cmp : Cmp)
    (s s₀ p rel : Text) (pre post : List Entry)
    (hsp : snapshotPath c caller t false = (p, some rel))
    (hfile : Holds w.fs p (pre ++ ⟨testID t (alGet w.running (p, t) + 1), s₀⟩ :: post))
    (hgood : Good (pre ++ ⟨testID t (alGet w.running (p, t) + 1), s₀⟩ :: post))
    (hne : cmpText cmp s₀ ≠ cmpText cmp s)
    (hu : shouldUpdate w.env c.update = true) :
    let r := matchEntry w c caller t x cmp (.ok s)
    r.2.events = [.log Generated.go_updatedMsg] ∧ r.2.writes = [p] ∧ r.2.removed = [] ∧
    r.2.unsupported = none ∧
    fsRead r.1.fs p =
      some (render (pre ++ ⟨testID t (alGet w.running (p, t) + 1), s⟩ :: post)) ∧
    (∀ q, q ≠ p → fsRead r.1.fs q = fsRead w.fs q) ∧
    r.1.events = { w.events with updated := w.events.updated + 1 } := by
  intro r
  have hr : r = _ := matchEntry_eq w c caller t x cmp s p rel hsp
  rw [hr]
  obtain ⟨h1, h2, h3, h4, h5, h6, h7, _⟩ :=
    entryTail_update (bumped w p t x) c p rel _ s s₀ cmp pre post hfile hgood hne hu
  exact ⟨h1, h2, h3, h4, h5, h6, h7⟩

/-- test "A" of "/t/a_test.go": its second call receives "{}" where "[A - 2]" holds "[]", with
`Update(true)` and UPDATE_SNAPS unset -/
example :
    let es : List Entry := [⟨testID [65] 1, [120]⟩, ⟨testID [65] 2, [91, 93]⟩]
    let w : World := { env := ⟨false, ""⟩, fs := [(C01World.exPath, render es)],
                       running := [((C01World.exPath, [65]), 1)] }
    let r := matchEntry w { update := some true } C01World.exCaller [65] 7 .raw (.ok [123, 125])
    r.2.events = [.log Generated.go_updatedMsg] ∧ r.2.writes = [C01World.exPath] ∧
    fsRead r.1.fs C01World.exPath =
      some (render [⟨testID [65] 1, [120]⟩, ⟨testID [65] 2, [123, 125]⟩]) ∧
    r.1.events.updated = 1 := by decide +kernel

/-! ## 10. update, then a read-only run -/

/-- **`update_then_readonly`.**  After an updating call whose new text is a usable body not
colliding with a header of the file, ANY world with the resulting file system — in particular one
in a read-only mode (CI, `Update(false)`), fresh registries — replays the same text at the same
header silently and without writing; every OTHER entry of the file replays its own body silently
too.  "Update mode leaves files that an immediately following read-only run passes against
without writing." -/
theorem update_then_readonly (w : World) (c : Cfg) (p rel id s s₀ : Text) (cmp : Cmp)
    (pre post : List Entry)
    (hfile : Holds w.fs p (pre ++ ⟨id, s₀⟩ :: post)) (hgood : Good (pre ++ ⟨id, s₀⟩ :: post))
    (hne : cmpText cmp s₀ ≠ cmpText cmp s)
    (hu : shouldUpdate w.env c.update = true)
    (hb : GoodBody s) (hold : ∀ o ∈ pre ++ ⟨id, s₀⟩ :: post, o.id ∉ lines s)
    (w₂ : World) (hw₂ : w₂.fs = (entryTail w c p rel id s cmp).1.fs)
    (c' : Cfg) (rel' : Text) (cmp' : Cmp) :
    (let r := entryTail w₂ c' p rel' id s cmp'
     r.2.events = [] ∧ r.2.writes = [] ∧ r.2.removed = [] ∧ r.2.unsupported = none ∧
     r.1.fs = w₂.fs ∧ r.1.events = { w₂.events with passed := w₂.events.passed + 1 }) ∧
    (∀ o ∈ pre ++ post,
     let r := entryTail w₂ c' p rel' o.id o.body cmp'
     r.2.events = [] ∧ r.2.writes = [] ∧ r.2.removed = [] ∧ r.2.unsupported = none ∧
     r.1.fs = w₂.fs ∧ r.1.events = { w₂.events with passed := w₂.events.passed + 1 }) := by
  obtain ⟨_, _, _, _, hfs, _, _, hg⟩ :=
    entryTail_update w c p rel id s s₀ cmp pre post hfile hgood hne hu
  have hfile₂ : Holds w₂.fs p (pre ++ ⟨id, s⟩ :: post) := by left; rw [hw₂]; exact hfs
  have hg₂ := hg hb hold
  refine ⟨C01World.entryTail_replay w₂ c' p rel' id s cmp' _ hfile₂ hg₂ (by simp), ?_⟩
  intro o ho
  refine C01World.entryTail_replay w₂ c' p rel' o.id o.body cmp' _ hfile₂ hg₂ ?_
  rcases List.mem_append.mp ho with ho | ho
  · simp [ho]
  · simp [ho]

/-- update with UPDATE_SNAPS=true, then the same call and the neighbours' calls on CI -/
example :
    let p : Text := [47, 115]
    let pre : List Entry := [⟨testID [65] 1, [120]⟩]
    let post : List Entry := [⟨testID [65] 3, [122]⟩]
    let w : World := { env := ⟨false, "true"⟩,
                       fs := [(p, render (pre ++ ⟨testID [65] 2, [121]⟩ :: post))] }
    let w₁ := (entryTail w {} p [115] (testID [65] 2) [110, 10, 10, 119] .escaped).1
    let w₂ : World := { env := ⟨true, ""⟩, fs := w₁.fs }
    (entryTail w₂ {} p [115] (testID [65] 2) [110, 10, 10, 119] .escaped).2.events = [] ∧
    (entryTail w₂ {} p [115] (testID [65] 2) [110, 10, 10, 119] .escaped).2.writes = [] ∧
    (entryTail w₂ {} p [115] (testID [65] 3) [122] .escaped).2.events = [] ∧
    (entryTail w₂ {} p [115] (testID [65] 1) [120] .raw).2.events = [] := by decide +kernel

/-! ## 11. a matching value is never rewritten -/

/-- **`pass_no_write`.**  On a `Good` file containing `⟨id, s₀⟩`, a call whose compared text
equals the stored one writes nothing and leaves the file system as it is in EVERY mode — update
mode (`UPDATE_SNAPS=true`, `Update(true)`) included. -/
theorem pass_no_write (w : World) (c : Cfg) (p rel id s s₀ : Text) (cmp : Cmp) (es : List Entry)
    (hfile : Holds w.fs p es) (hgood : Good es) (hm : (⟨id, s₀⟩ : Entry) ∈ es)
    (heq : cmpText cmp s₀ = cmpText cmp s) :
    let r := entryTail w c p rel id s cmp
    r.2.events = [] ∧ r.2.writes = [] ∧ r.2.removed = [] ∧ r.2.unsupported = none ∧
    r.1.fs = w.fs ∧ r.1.events = { w.events with passed := w.events.passed + 1 } := by
  intro r
  have hr : r = _ := C02World.entryTail_pass_of_eq w c p rel id s s₀ cmp es hfile hgood hm heq
  rw [hr]
  exact ⟨rfl, rfl, rfl, rfl, rfl, rfl⟩

/-- the case `s = s₀` -/
theorem pass_no_write_same (w : World) (c : Cfg) (p rel id s : Text) (cmp : Cmp) (es : List Entry)
    (hfile : Holds w.fs p es) (hgood : Good es) (hm : (⟨id, s⟩ : Entry) ∈ es) :
    (entryTail w c p rel id s cmp).2.writes = [] ∧ (entryTail w c p rel id s cmp).1.fs = w.fs :=
  let h := pass_no_write w c p rel id s s cmp es hfile hgood hm rfl
  ⟨h.2.1, h.2.2.2.2.1⟩

/-- **a call writes IFF it records or updates**: on a `Good` file containing `⟨id, s₀⟩` the call
writes exactly when updating is allowed and the compared texts differ -/
theorem writes_iff (w : World) (c : Cfg) (p rel id s s₀ : Text) (cmp : Cmp)
    (pre post : List Entry)
    (hfile : Holds w.fs p (pre ++ ⟨id, s₀⟩ :: post)) (hgood : Good (pre ++ ⟨id, s₀⟩ :: post)) :
    (entryTail w c p rel id s cmp).2.writes ≠ [] ↔
      (shouldUpdate w.env c.update = true ∧ cmpText cmp s₀ ≠ cmpText cmp s) := by
  constructor
  · intro hw
    by_cases heq : cmpText cmp s₀ = cmpText cmp s
    · exact absurd (pass_no_write w c p rel id s s₀ cmp _ hfile hgood (by simp) heq).2.1 hw
    · cases hu : shouldUpdate w.env c.update with
      | true => exact ⟨rfl, heq⟩
      | false =>
        exact absurd (C02World.entryTail_mismatch w c p rel id s s₀ cmp pre post hfile hgood heq
          hu).2.2.1 hw
  · rintro ⟨hu, hne⟩
    rw [(entryTail_update w c p rel id s s₀ cmp pre post hfile hgood hne hu).2.1]
    simp

/-- the four combinations on one file: (update allowed?) × (texts differ?) -/
example :
    let p : Text := [47, 115]
    let es : List Entry := [⟨testID [65] 1, [120]⟩]
    let wU : World := { env := ⟨false, "true"⟩, fs := [(p, render es)] }
    let wR : World := { env := ⟨false, ""⟩, fs := [(p, render es)] }
    (entryTail wU {} p [115] (testID [65] 1) [121] .raw).2.writes = [p] ∧
    (entryTail wU {} p [115] (testID [65] 1) [120] .raw).2.writes = [] ∧
    (entryTail wR {} p [115] (testID [65] 1) [121] .raw).2.writes = [] ∧
    (entryTail wR {} p [115] (testID [65] 1) [120] .raw).2.writes = [] := by decide +kernel

/-- UPDATE_SNAPS=true and `Update(true)`: the stored TOK-containing text is compared with itself,
nothing is written -/
example :
    let p : Text := [47, 115]
    let s : Text := [120, 10, 47, 45, 47, 45, 47, 45, 47]
    let es : List Entry := [⟨testID [65] 1, s⟩, ⟨testID [65] 2, [121]⟩]
    let w : World := { env := ⟨false, "true"⟩, fs := [(p, render es)] }
    let r := entryTail w { update := some true } p [115] (testID [65] 1) s .escaped
    r.2.events = [] ∧ r.2.writes = [] ∧ r.1.fs = w.fs := by decide +kernel

/-! ## standalone snapshots -/

/-- a differing standalone file is overwritten with exactly the received text in update mode,
and then replays silently in any mode (`C19.standalone_replay`) -/
theorem standaloneTail_update (w : World) (c : Cfg) (p rel s prev : Text)
    (hf : fsRead w.fs p = some prev) (hne : s ≠ prev)
    (hu : shouldUpdate w.env c.update = true) :
    let r := standaloneTail w c p rel s
    r.2.events = [.log Generated.go_updatedMsg] ∧ r.2.writes = [p] ∧ r.2.removed = [] ∧
    fsRead r.1.fs p = some s ∧ (∀ q, q ≠ p → fsRead r.1.fs q = fsRead w.fs q) ∧
    r.1.events = { w.events with updated := w.events.updated + 1 } := by
  intro r
  have hd : prettyDiff prev s rel 1 ≠ [] :=
    fun h => hne ((C13.report_empty_iff _ _ _ _).mp h).symm
  have hr : r = ({ w with fs := fsWrite w.fs p s,
                          events := { w.events with updated := w.events.updated + 1 } },
                 { events := [.log Generated.go_updatedMsg], writes := [p] }) := by
    show standaloneTail w c p rel s = _
    unfold standaloneTail
    simp only [hf]
    rw [if_neg hd, hu]
    rfl
  rw [hr]
  refine ⟨rfl, rfl, rfl, C19.fsRead_fsWrite_same _ _ _, ?_, rfl⟩
  intro q hq
  exact C19.fsRead_fsWrite_other _ _ _ _ hq

example :
    let p : Text := [47, 115]
    let w : World := { env := ⟨false, "true"⟩, fs := [(p, [120, 13, 10])] }
    let r := standaloneTail w {} p [115] [120, 10]
    r.2.events = [.log Generated.go_updatedMsg] ∧ fsRead r.1.fs p = some [120, 10] := by
  decide +kernel

end GoSnaps.C04World
