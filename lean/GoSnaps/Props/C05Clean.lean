/-
C05 (top level) — what the whole `Clean` may do to the file system, by mode.

`clean o w sortOpt runOnly count` (Clean.lean) wires `occurrences`, `examineFiles`,
`examineSnaps` and `summary` with the mode flags `Generated.cleanFilesUpdate / cleanSnapsUpdate /
cleanSnapsSort / summaryUpdate w.env sortOpt`, which are translated from the Go source on every
run.  Their meaning is taken from `C05.cleanDeletes_spec`, `C05.cleanSorts_spec`,
`C05.ci_gates_closed` only; the Generated definitions are never unfolded here.

Most statements below hold for *every* run, including the inputs the model does not cover
(`unsupported ≠ none`): there `clean` returns the world unchanged and an empty `Out`, so the
hypothesis `r.2.unsupported = none` is only taken where it is needed.

Byte legend: 47 '/', 115 's', 46 '.', 91 '[', 93 ']', `[84,101,115,116,65]` = "TestA".
-/
import GoSnaps.Lemmas.CleanTop
import GoSnaps.Props.C05
import GoSnaps.Props.C09
namespace GoSnaps.C05Clean

open GoSnaps Generated

/-! ## the modes -/

/-- "clean mode": off CI with `UPDATE_SNAPS=true` or `UPDATE_SNAPS=clean` -/
def DeleteMode (env : Env) : Prop :=
  env.isCI = false ∧ (env.updateVAR = "true" ∨ env.updateVAR = "clean")

instance (env : Env) : Decidable (DeleteMode env) := by unfold DeleteMode; infer_instance

/-- the three deleting gates of `Clean` (files, entries, wording of the summary) are open exactly
    in clean mode -/
theorem deleteGates_iff (env : Env) (s : Bool) :
    (cleanFilesUpdate env s = true ↔ DeleteMode env) ∧
    (cleanSnapsUpdate env s = true ↔ DeleteMode env) ∧
    (summaryUpdate env s = true ↔ DeleteMode env) := by
  obtain ⟨h1, h2, h3⟩ := C05.cleanDeletes_spec env s
  rw [h1, h2, h3]
  have : C05.specCleanDeletes env.isCI env.updateVAR = true ↔ DeleteMode env := by
    unfold C05.specCleanDeletes DeleteMode
    cases env.isCI <;> simp
  exact ⟨this, this, this⟩

/-- the sorting gate is open exactly off CI with `Sort(true)` -/
theorem sortGate_iff (env : Env) (s : Bool) :
    cleanSnapsSort env s = true ↔ env.isCI = false ∧ s = true := by
  rw [C05.cleanSorts_spec]
  unfold C05.specCleanSorts
  cases env.isCI <;> cases s <;> simp

theorem deleteGates_closed (env : Env) (s : Bool) (h : ¬ DeleteMode env) :
    cleanFilesUpdate env s = false ∧ cleanSnapsUpdate env s = false ∧ summaryUpdate env s = false := by
  obtain ⟨h1, h2, h3⟩ := deleteGates_iff env s
  refine ⟨?_, ?_, ?_⟩
  · cases hb : cleanFilesUpdate env s with
    | false => rfl
    | true => exact absurd (h1.mp hb) h
  · cases hb : cleanSnapsUpdate env s with
    | false => rfl
    | true => exact absurd (h2.mp hb) h
  · cases hb : summaryUpdate env s with
    | false => rfl
    | true => exact absurd (h3.mp hb) h

/-! ## read-only runs -/

/-- the core: with the three gates closed `Clean` returns the world it was given and reports no
    write and no removal (also on unsupported inputs) -/
theorem clean_readonly_of_gates_closed (o : Oracles) (w : World) (sortOpt : Bool) (runOnly : Text)
    (count : Nat) (hf : cleanFilesUpdate w.env sortOpt = false)
    (hu : cleanSnapsUpdate w.env sortOpt = false) (hsrt : cleanSnapsSort w.env sortOpt = false) :
    (clean o w sortOpt runOnly count).1 = w ∧ (clean o w sortOpt runOnly count).2.writes = [] ∧
    (clean o w sortOpt runOnly count).2.removed = [] := by
  rcases clean_cases o w sortOpt runOnly count with ⟨why, h⟩ | ⟨sa, fr, obsT, fs, wr, run⟩
  · rw [h]; exact ⟨rfl, rfl, rfl⟩
  · have hfiles := run.files
    have hsn := run.snaps
    rw [hf] at hfiles
    rw [hu, hsrt] at hsn
    obtain ⟨hrem, hfs⟩ := (C09.examineFiles_untouched _ _ _ _ _ _ _ hfiles).2.1 rfl
    obtain ⟨hfs', hwr⟩ := C09.no_update_no_removal_partial _ _ _ _ _ _ _ _ _ _ hsn
    rw [run.result]
    refine ⟨?_, hwr, hrem⟩
    rw [hfs', hfs]

/-- **1. CI is read-only for `Clean`**: for every value of `UPDATE_SNAPS`, every `sortOpt`, every
    `runOnly`, every `count` (and whether or not the model covers the input) -/
theorem clean_ci_readonly (o : Oracles) (w : World) (sortOpt : Bool) (runOnly : Text) (count : Nat)
    (hci : w.env.isCI = true) :
    (clean o w sortOpt runOnly count).1.fs = w.fs ∧ (clean o w sortOpt runOnly count).2.writes = [] ∧
    (clean o w sortOpt runOnly count).2.removed = [] := by
  have g := C05.ci_gates_closed w.env hci none sortOpt
  obtain ⟨h1, h2, h3⟩ := clean_readonly_of_gates_closed o w sortOpt runOnly count g.2.2.1 g.2.2.2.1
    g.2.2.2.2
  exact ⟨by rw [h1], h2, h3⟩

/-- **2. report mode is read-only**: off CI, `UPDATE_SNAPS ∉ {"true", "clean"}`, no sorting -/
theorem clean_report_mode_readonly (o : Oracles) (w : World) (runOnly : Text) (count : Nat)
    (ht : w.env.updateVAR ≠ "true") (hc : w.env.updateVAR ≠ "clean") :
    (clean o w false runOnly count).1.fs = w.fs ∧ (clean o w false runOnly count).2.writes = [] ∧
    (clean o w false runOnly count).2.removed = [] := by
  have hm : ¬ DeleteMode w.env := fun h => h.2.elim ht hc
  obtain ⟨g1, g2, _⟩ := deleteGates_closed w.env false hm
  have g3 : cleanSnapsSort w.env false = false := by
    cases hb : cleanSnapsSort w.env false with
    | false => rfl
    | true => exact absurd ((sortGate_iff _ _).mp hb).2 (by simp)
  obtain ⟨h1, h2, h3⟩ := clean_readonly_of_gates_closed o w false runOnly count g1 g2 g3
  exact ⟨by rw [h1], h2, h3⟩

/-! ## 3. removals and writes need an open gate -/

/-- **a file is removed only in clean mode** -/
theorem clean_removes_only_in_clean_mode (o : Oracles) (w : World) (sortOpt : Bool) (runOnly : Text)
    (count : Nat) (h : (clean o w sortOpt runOnly count).2.removed ≠ []) :
    w.env.isCI = false ∧ (w.env.updateVAR = "true" ∨ w.env.updateVAR = "clean") := by
  apply Decidable.byContradiction
  intro hm
  apply h
  rcases clean_cases o w sortOpt runOnly count with ⟨why, h'⟩ | ⟨sa, fr, obsT, fs, wr, run⟩
  · rw [h']; rfl
  · have hfiles := run.files
    rw [(deleteGates_closed w.env sortOpt hm).1] at hfiles
    rw [run.result]
    exact ((C09.examineFiles_untouched _ _ _ _ _ _ _ hfiles).2.1 rfl).1

/-- **a file is written only off CI, and only in clean mode or with `Sort(true)`** -/
theorem clean_writes_only_if (o : Oracles) (w : World) (sortOpt : Bool) (runOnly : Text)
    (count : Nat) (h : (clean o w sortOpt runOnly count).2.writes ≠ []) :
    w.env.isCI = false ∧
      ((w.env.updateVAR = "true" ∨ w.env.updateVAR = "clean") ∨ sortOpt = true) := by
  rcases clean_cases o w sortOpt runOnly count with ⟨why, h'⟩ | ⟨sa, fr, obsT, fs, wr, run⟩
  · rw [h'] at h; exact absurd rfl h
  · cases hu : cleanSnapsUpdate w.env sortOpt with
    | true =>
      have := (deleteGates_iff w.env sortOpt).2.1.mp hu
      exact ⟨this.1, Or.inl this.2⟩
    | false =>
      cases hsrt : cleanSnapsSort w.env sortOpt with
      | true =>
        have := (sortGate_iff w.env sortOpt).mp hsrt
        exact ⟨this.1, Or.inr this.2⟩
      | false =>
        have hsn := run.snaps
        rw [hu, hsrt] at hsn
        rw [run.result] at h
        exact absurd (C09.no_update_no_removal_partial _ _ _ _ _ _ _ _ _ _ hsn).2 h

/-- in clean mode the removed files are exactly the reported obsolete files; every removed or
    reported file is an `Orphan` (a `.snap`-named entry directly inside a visited directory that is
    neither a registered file nor a registered standalone snapshot); every written file is a
    registered one -/
theorem clean_touches_only (o : Oracles) (w : World) (sortOpt : Bool) (runOnly : Text) (count : Nat)
    (sa : List Text) (fr : FilesResult) (obsT : List Text) (fs : FS) (wr : List Text)
    (run : CleanRun o w sortOpt runOnly count sa fr obsT fs wr) :
    (DeleteMode w.env → (clean o w sortOpt runOnly count).2.removed = fr.obsolete) ∧
    (∀ p ∈ fr.obsolete, Orphan (cleanRegPaths w) sa p) ∧
    (∀ p ∈ (clean o w sortOpt runOnly count).2.removed, p ∈ fr.obsolete) ∧
    (∀ p ∈ (clean o w sortOpt runOnly count).2.writes, p ∈ cleanRegPaths w) ∧
    (∀ q, q ∉ (clean o w sortOpt runOnly count).2.removed → q ∉ cleanRegPaths w →
      fsRead (clean o w sortOpt runOnly count).1.fs q = fsRead w.fs q) := by
  obtain ⟨horph, hfalse, htrue, hframe⟩ := C09.examineFiles_untouched _ _ _ _ _ _ _ run.files
  obtain ⟨hframe2, hwsub⟩ := C09.examineSnaps_frame _ _ _ _ _ _ _ _ _ _ _ _ run.snaps
  have husub := examineFiles_used_sub _ _ _ _ _ _ _ run.files
  rw [run.result]
  refine ⟨fun hm => htrue ((deleteGates_iff w.env sortOpt).1.mpr hm), horph, ?_, ?_, ?_⟩
  · intro p hp
    cases hb : cleanFilesUpdate w.env sortOpt with
    | true => rw [← htrue hb]; exact hp
    | false => rw [(hfalse hb).1] at hp; cases hp
  · intro p hp; exact husub p (hwsub p hp)
  · intro q hq hreg
    show fsRead fs q = fsRead w.fs q
    rw [hframe2 q (fun hu => hreg (husub q hu)), hframe q hq]

/-! ## 4. nothing but the file system changes -/

/-- **`Clean` changes nothing of the world except `fs`**: the environment, both pairs of
    registries, the counters, the skip list, pending calls and configs are returned as given, so a
    later `Match*` call can observe a `Clean` only through files -/
theorem clean_preserves_registries (o : Oracles) (w : World) (sortOpt : Bool) (runOnly : Text)
    (count : Nat) :
    (clean o w sortOpt runOnly count).1 = { w with fs := (clean o w sortOpt runOnly count).1.fs } := by
  rcases clean_cases o w sortOpt runOnly count with ⟨why, h'⟩ | ⟨sa, fr, obsT, fs, wr, run⟩
  · rw [h']; rfl
  · rw [run.result]

/-- field by field -/
theorem clean_preserves_fields (o : Oracles) (w : World) (sortOpt : Bool) (runOnly : Text)
    (count : Nat) :
    let w' := (clean o w sortOpt runOnly count).1
    w'.env = w.env ∧ w'.running = w.running ∧ w'.cleanup = w.cleanup ∧ w'.srunning = w.srunning ∧
    w'.scleanup = w.scleanup ∧ w'.events = w.events ∧ w'.skipped = w.skipped ∧
    w'.pending = w.pending ∧ w'.cfgs = w.cfgs := by
  intro w'
  have h : w' = { w with fs := w'.fs } := clean_preserves_registries o w sortOpt runOnly count
  rw [h]
  exact ⟨rfl, rfl, rfl, rfl, rfl, rfl, rfl, rfl, rfl⟩

/-- `Clean` registers no test event and calls neither `t.Log` nor `t.Error` -/
theorem clean_no_events (o : Oracles) (w : World) (sortOpt : Bool) (runOnly : Text) (count : Nat) :
    (clean o w sortOpt runOnly count).2.events = [] := by
  rcases clean_cases o w sortOpt runOnly count with ⟨why, h'⟩ | ⟨sa, fr, obsT, fs, wr, run⟩
  · rw [h']; rfl
  · rw [run.result]

/-! ## 6. what is printed -/

/-- **`Clean` prints the summary and nothing else**: for a supported run there are the results
    `fr` of `examineFiles` and `obsTests` of `examineSnaps` (with the exact arguments `Clean` passes,
    recorded in `CleanRun`) such that standard output is `summary` of
    (obsolete files, obsolete tests, number of skipped tests, the four counters, "is any counter
    non-zero", deleting?) followed by the newline of `fmt.Println`, or nothing if the summary is
    empty. -/
theorem clean_stdout_is_summary (o : Oracles) (w : World) (sortOpt : Bool) (runOnly : Text)
    (count : Nat) (hs : (clean o w sortOpt runOnly count).2.unsupported = none) :
    ∃ sa fr obsTests fs written, CleanRun o w sortOpt runOnly count sa fr obsTests fs written ∧
      (clean o w sortOpt runOnly count).2.stdout =
        (let s := summary fr.obsolete obsTests w.skipped.length w.events
            (decide (w.events.erred + w.events.added + w.events.updated + w.events.passed > 0))
            (summaryUpdate w.env sortOpt)
         if s = [] then [] else s ++ [nl]) ∧
      (summaryUpdate w.env sortOpt = true ↔ DeleteMode w.env) := by
  obtain ⟨sa, fr, obsT, fs, wr, run⟩ := clean_supported o w sortOpt runOnly count hs
  refine ⟨sa, fr, obsT, fs, wr, run, ?_, (deleteGates_iff w.env sortOpt).2.2⟩
  rw [run.result]
  rfl

/-- an unsupported run prints nothing -/
theorem clean_unsupported_silent (o : Oracles) (w : World) (sortOpt : Bool) (runOnly : Text)
    (count : Nat) (why : String) (hs : (clean o w sortOpt runOnly count).2.unsupported = some why) :
    (clean o w sortOpt runOnly count).2.stdout = [] ∧ (clean o w sortOpt runOnly count).1 = w := by
  rcases clean_cases o w sortOpt runOnly count with ⟨why', h'⟩ | ⟨sa, fr, obsT, fs, wr, run⟩
  · rw [h']; exact ⟨rfl, rfl⟩
  · rw [run.result] at hs; cases hs

/-! ## 5. without clean mode nothing is lost, sorted or not -/

/-- **outside clean mode every snapshot file keeps all its entries** (any `sortOpt`, on or off CI):
    no file is removed, and whatever entry list `es` a path held before (as a `CleanFile`), it holds
    `render es'` with `es'` a permutation of `es` afterwards.

    Hypotheses, in terms of the world only (the `used` list of `examineFiles` is eliminated:
    `examineFiles_used_sub`, `examineSnaps_go_reads`):
    * `hcls` — no oracle miss on the registered files (a theorem when `runOnly = []`, see
      `clean_sort_only_keeps_everything` below);
    * `hok` — every registered snapshot file *that exists* is a `CleanFile`. -/
theorem clean_no_delete_no_loss (o : Oracles) (w : World) (sortOpt : Bool) (runOnly : Text)
    (count : Nat) (hm : ¬ DeleteMode w.env)
    (hs : (clean o w sortOpt runOnly count).2.unsupported = none)
    (hcls : ∀ p ∈ cleanRegPaths w, ∀ registered, registeredFor w.cleanup p count = some registered →
      ∀ tid, Classified o registered w.skipped runOnly tid)
    (hok : ∀ p ∈ cleanRegPaths w, ∀ c, fsRead w.fs p = some c → ∃ es, CleanFile es ∧ c = render es)
    (q : Text) (es : List Entry) (hfes : CleanFile es) (hq : fsRead w.fs q = some (render es)) :
    (clean o w sortOpt runOnly count).2.removed = [] ∧
    ∃ es', es'.Perm es ∧ CleanFile es' ∧
      fsRead (clean o w sortOpt runOnly count).1.fs q = some (render es') := by
  obtain ⟨sa, fr, obsT, fs, wr, run⟩ := clean_supported o w sortOpt runOnly count hs
  obtain ⟨g1, g2, _⟩ := deleteGates_closed w.env sortOpt hm
  have hfiles := run.files
  have hsn := run.snaps
  rw [g1] at hfiles
  rw [g2] at hsn
  obtain ⟨hrem, hfs⟩ := (C09.examineFiles_untouched _ _ _ _ _ _ _ hfiles).2.1 rfl
  have husub := examineFiles_used_sub _ _ _ _ _ _ _ hfiles
  rw [hfs] at hsn
  have hreads := examineSnaps_go_reads _ _ _ _ _ _ _ _ _ _ _ _ _ _ hsn
  have hok' : ∀ p ∈ fr.used, ∃ es, CleanFile es ∧ fsRead w.fs p = some (render es) := by
    intro p hp
    obtain ⟨c, hc⟩ := hreads p hp
    obtain ⟨es, hf, rfl⟩ := hok p (husub p hp) c hc
    exact ⟨es, hf, hc⟩
  have := C09.no_update_no_loss_all o w.fs w.cleanup w.skipped fr.used runOnly count
    (cleanSnapsSort w.env sortOpt) (fun p hp => hcls p (husub p hp)) hok' obsT fs wr hsn q es hfes hq
  rw [run.result]
  exact ⟨hrem, this⟩

/-- **sort-only runs keep everything** (`runOnly = []`, where no oracle is consulted): off CI, not
    in clean mode, `Sort(true)` — no file is removed and every `CleanFile` holds a permutation of
    its entries afterwards -/
theorem clean_sort_only_keeps_everything (o : Oracles) (w : World) (count : Nat)
    (_hci : w.env.isCI = false) (ht : w.env.updateVAR ≠ "true") (hc : w.env.updateVAR ≠ "clean")
    (hs : (clean o w true [] count).2.unsupported = none)
    (hok : ∀ p ∈ cleanRegPaths w, ∀ c, fsRead w.fs p = some c → ∃ es, CleanFile es ∧ c = render es)
    (q : Text) (es : List Entry) (hfes : CleanFile es) (hq : fsRead w.fs q = some (render es)) :
    (clean o w true [] count).2.removed = [] ∧
    ∃ es', es'.Perm es ∧ CleanFile es' ∧ fsRead (clean o w true [] count).1.fs q = some (render es') :=
  clean_no_delete_no_loss o w true [] count (fun h => h.2.elim ht hc) hs
    (fun _ _ registered _ tid => classified_noRun o registered w.skipped tid) hok q es hfes hq

/-! ## concrete runs

Directory `/s` holds the registered file `a.snap` with the entries `[TestB - 1]` (registered in
this run) and `[TestA - 1]` (stale), in that — unsorted — order, and an orphan `b.snap`. -/

namespace Ex

def e1 : Entry := ⟨[91, 84, 101, 115, 116, 66, 32, 45, 32, 49, 93], [120]⟩
def e2 : Entry := ⟨[91, 84, 101, 115, 116, 65, 32, 45, 32, 49, 93], [121]⟩
def pa : Text := [47, 115, 47, 97, 46, 115, 110, 97, 112]
def pb : Text := [47, 115, 47, 98, 46, 115, 110, 97, 112]

def world (ci : Bool) (upd : String) : World :=
  { env := { isCI := ci, updateVAR := upd }
    fs := [(pa, render [e1, e2]), (pb, [2])]
    cleanup := [((pa, [84, 101, 115, 116, 66]), 1)]
    events := { passed := 1 } }

/-- on CI with `UPDATE_SNAPS=clean` and `Sort(true)`: nothing is touched (instance of 1) -/
example :
    let r := clean {} (world true "clean") true [] 1
    r.2.unsupported = none ∧ r.1.fs = (world true "clean").fs ∧ r.2.writes = [] ∧ r.2.removed = [] := by
  decide +kernel

/-- off CI, `UPDATE_SNAPS=""`, no sorting: nothing is touched (instance of 2) -/
example :
    let r := clean {} (world false "") false [] 1
    r.2.unsupported = none ∧ r.1.fs = (world false "").fs ∧ r.2.writes = [] ∧ r.2.removed = [] := by
  decide +kernel

/-- off CI, `UPDATE_SNAPS=clean`: the orphan is removed, the stale entry dropped (3: the gates are
    really open in this mode); everything but `fs` is as before (4) -/
example :
    let r := clean {} (world false "clean") false [] 1
    r.2.unsupported = none ∧ r.1.fs = [(pa, render [e1])] ∧ r.2.writes = [pa] ∧ r.2.removed = [pb] ∧
    r.1.env = (world false "clean").env ∧ r.1.cleanup = (world false "clean").cleanup ∧
    r.1.events = (world false "clean").events := by
  decide +kernel

/-- off CI, `UPDATE_SNAPS=""`, `Sort(true)`: the file is rewritten sorted with BOTH entries, the
    orphan stays (instance of 5) -/
example :
    let r := clean {} (world false "") true [] 1
    r.2.unsupported = none ∧ r.1.fs = [(pa, render [e2, e1]), (pb, [2])] ∧ r.2.writes = [pa] ∧
    r.2.removed = [] := by
  decide +kernel

/-- what that last run prints (instance of 6): one obsolete file, one obsolete test, no skipped
    test, `passed = 1`, report wording (evaluated to bytes in C20Summary) -/
theorem sortOnly_stdout :
    (clean {} (world false "") true [] 1).2.stdout =
      summary [pb] [[84, 101, 115, 116, 65, 32, 45, 32, 49]] 0 { passed := 1 } true false ++ [nl] := by
  have run : CleanRun {} (world false "") true [] 1 []
      { obsolete := [pb], used := [pa], fs := (world false "").fs, removed := [] }
      [[84, 101, 115, 116, 65, 32, 45, 32, 49]] [(pa, render [e2, e1]), (pb, [2])] [pa] := by
    obtain ⟨sa, fr, obsT, fs, wr, run⟩ := clean_supported {} (world false "") true [] 1 (by decide +kernel)
    have h1 : sa = [] := by
      have := run.occ
      have e : occurrences (world false "").scleanup 1 standaloneOccFmt = some [] := by decide +kernel
      rw [e] at this; exact (Option.some.inj this).symm
    subst h1
    have h2 : fr = { obsolete := [pb], used := [pa], fs := (world false "").fs, removed := [] } := by
      have := run.files
      have e : examineFiles {} (world false "").fs (cleanRegPaths (world false "")) [] []
          (cleanFilesUpdate (world false "").env true) =
          some { obsolete := [pb], used := [pa], fs := (world false "").fs, removed := [] } := by
        decide +kernel
      rw [e] at this; exact (Option.some.inj this).symm
    subst h2
    have h3 := run.snaps
    have e : examineSnaps {} (world false "").fs (world false "").cleanup (world false "").skipped
        [pa] [] 1 (cleanSnapsUpdate (world false "").env true) (cleanSnapsSort (world false "").env true) =
        .ok [[84, 101, 115, 116, 65, 32, 45, 32, 49]] [(pa, render [e2, e1]), (pb, [2])] [pa] := by
      decide +kernel
    rw [e] at h3
    injection h3 with a b c
    subst a b c
    exact run
  rw [run.result]
  have hne : summary [pb] [[84, 101, 115, 116, 65, 32, 45, 32, 49]] 0 { passed := 1 } true false ≠ [] := by
    simp [summary]
  have hu : summaryUpdate (world false "").env true = false := by decide
  simp only [cleanStdout, hu]
  rw [if_neg]
  · rfl
  · exact hne

end Ex

end GoSnaps.C05Clean
