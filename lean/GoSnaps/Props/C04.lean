/-
C04 — update mode rewrites only what differs; adding never disturbs existing entries.

Statements only (helper lemmas live in Lemmas/Update.lean).  All theorems are about the
executable model definitions `update`/`updateL`, `getPrev`, `render`, `frameFmt` of
Format.lean (`updateSnapshot`, `getPrevSnapshot`, `addNewSnapshot` of snaps/snapshot.go).

Byte-list legend for the examples:  `[91,65,93]` = "[A]", `[91,66,93]` = "[B]",
`[91,67,93]` = "[C]", `[45,45,45]` = "---", `120`/`121`/`122` = 'x'/'y'/'z', `10` = "\n",
`13` = "\r".
-/
import GoSnaps.Lemmas.Update
namespace GoSnaps.C04

open GoSnaps GoSnaps.C01

/-- The header of `e` occurs as a line of the file `pre ++ e :: post` only as `e`'s own header
line.  (Occurrences of the header *inside `e`'s own old body* are harmless for `update`: that
body is dropped in `removeSnapshot` mode without being compared with the header, so the clause
`e.id ∉ lines e.body` is not needed and is not part of the predicate.) -/
def HeaderUnique (pre : List Entry) (e : Entry) (post : List Entry) : Prop :=
  e.id ∉ fileLines pre ∧ e.id ∉ fileLines post

instance (pre : List Entry) (e : Entry) (post : List Entry) : Decidable (HeaderUnique pre e post) := by
  unfold HeaderUnique; infer_instance

/-! ## 1. `update_render` -/

/-- **Update rewrites exactly one entry.**  For a well-formed file `pre ++ e :: post` whose
entry `e` has a non-empty header, an escaped old body, and a header that occurs nowhere else as
a line of the file, updating with ANY new body `b'` yields byte-for-byte the file in which
only `e`'s body was replaced.  Every hypothesis is necessary (counterexamples below):

* `hwf.noCR`  – `update` re-emits *scanned* lines, and `bufio.ScanLines` strips a trailing "\r";
* `hwf.idNoNL` – a header containing "\n" is never equal to a scanned line, nothing is replaced;
* `hne`      – every frame starts with an empty line, which an empty header would match;
* `hesc`     – only the old body lines up to the first terminator line are dropped;
* `hu.1`     – an earlier line equal to the header is taken for the header (defect D9);
* `hu.2`     – after the replacement copying resumes and a later equal line is replaced again.

Only the body of `e` has to be `Escaped`; other bodies are copied line by line whatever they
contain.  The new body `b'` is unconstrained. -/
theorem update_render (pre : List Entry) (e : Entry) (post : List Entry) (b' : Text)
    (hwf : WF (pre ++ e :: post)) (hne : e.id ≠ []) (hesc : Escaped e.body)
    (hu : HeaderUnique pre e post) :
    update e.id b' (render (pre ++ e :: post)) = render (pre ++ ⟨e.id, b'⟩ :: post) := by
  unfold update
  rw [C01.scan_render _ hwf]
  exact updateL_fileLines pre e post b' hne hesc hu.1 hu.2

/-- non-vacuity: three entries, the middle one (whose old body even contains its own header
    and a blank line) is updated to a two-line body -/
example :
    let pre : List Entry := [⟨[91, 65, 93], [120, 10, 121]⟩]
    let e : Entry := ⟨[91, 66, 93], [121, 10, 10, 91, 66, 93]⟩
    let post : List Entry := [⟨[91, 67, 93], [122]⟩]
    (WF (pre ++ e :: post) ∧ e.id ≠ [] ∧ Escaped e.body ∧ HeaderUnique pre e post) ∧
    update e.id [110, 10, 119] (render (pre ++ e :: post)) =
      render (pre ++ ⟨e.id, [110, 10, 119]⟩ :: post) :=
  ⟨⟨⟨by decide, by decide⟩, by decide, by decide, by decide⟩, by decide⟩

/-- **D9** (`hu.1` dropped): a body line of an EARLIER entry equal to the header of `e` makes
    the equation false — the earlier entry's body is cut and overwritten instead. -/
example :
    let pre : List Entry := [⟨[91, 65, 93], [91, 66, 93, 10, 120]⟩]   -- body of [A] is "[B]\nx"
    let e : Entry := ⟨[91, 66, 93], [121]⟩
    (WF (pre ++ [e]) ∧ e.id ≠ [] ∧ Escaped e.body ∧ e.id ∉ fileLines ([] : List Entry)) ∧
    update e.id [122] (render (pre ++ [e])) ≠ render (pre ++ [⟨e.id, [122]⟩]) :=
  ⟨⟨⟨by decide, by decide⟩, by decide, by decide, by decide⟩, by decide⟩

/-- `hu.2` dropped: a body line of a LATER entry equal to the header is replaced a second time. -/
example :
    let e : Entry := ⟨[91, 66, 93], [121]⟩
    let post : List Entry := [⟨[91, 67, 93], [91, 66, 93, 10, 120]⟩]
    (WF (e :: post) ∧ e.id ≠ [] ∧ Escaped e.body ∧ e.id ∉ fileLines ([] : List Entry)) ∧
    update e.id [122] (render (e :: post)) ≠ render (⟨e.id, [122]⟩ :: post) :=
  ⟨⟨⟨by decide, by decide⟩, by decide, by decide, by decide⟩, by decide⟩

/-- `hne` dropped: the empty header matches the blank line that starts every frame. -/
example :
    let e : Entry := ⟨[], [121]⟩
    (WF [e] ∧ Escaped e.body ∧ HeaderUnique [] e []) ∧
    update e.id [122] (render [e]) ≠ render [⟨e.id, [122]⟩] :=
  ⟨⟨⟨by decide, by decide⟩, by decide, by decide⟩, by decide⟩

/-- `hesc` dropped: the part of an unescaped old body after its first "---" line survives. -/
example :
    let e : Entry := ⟨[91, 66, 93], [121, 10, 45, 45, 45, 10, 122]⟩   -- "y\n---\nz"
    (∀ x ∈ [e], NoNL x.id) ∧ (∀ l ∈ fileLines [e], NoCRLine l) ∧ e.id ≠ [] ∧ HeaderUnique [] e [] ∧
    update e.id [120] (render [e]) ≠ render [⟨e.id, [120]⟩] := by decide

/-- `hwf.noCR` dropped: a "\r" at the end of a line of ANOTHER entry is lost by the rewrite. -/
example :
    let pre : List Entry := [⟨[91, 65, 93], [120, 13]⟩]                -- body "x\r"
    let e : Entry := ⟨[91, 66, 93], [121]⟩
    (∀ x ∈ pre ++ [e], NoNL x.id) ∧ e.id ≠ [] ∧ Escaped e.body ∧ HeaderUnique pre e [] ∧
    update e.id [122] (render (pre ++ [e])) ≠ render (pre ++ [⟨e.id, [122]⟩]) := by decide

/-- `hwf.idNoNL` dropped: a header with an embedded newline is never found, nothing changes. -/
example :
    let e : Entry := ⟨[91, 10, 93], [121]⟩
    (∀ l ∈ fileLines [e], NoCRLine l) ∧ e.id ≠ [] ∧ Escaped e.body ∧ HeaderUnique [] e [] ∧
    update e.id [122] (render [e]) ≠ render [⟨e.id, [122]⟩] := by decide

/-! ## 2. `update_no_residue` -/

/-- **No residue of the old body.**  Two files that differ only in the old body of `e` update to
the same bytes: the result is a function of the entry list and `b'` alone. -/
theorem update_no_residue (pre post : List Entry) (id : Line) (b₁ b₂ b' : Text)
    (hwf₁ : WF (pre ++ ⟨id, b₁⟩ :: post)) (hwf₂ : WF (pre ++ ⟨id, b₂⟩ :: post))
    (hne : id ≠ []) (hesc₁ : Escaped b₁) (hesc₂ : Escaped b₂)
    (hpre : id ∉ fileLines pre) (hpost : id ∉ fileLines post) :
    update id b' (render (pre ++ ⟨id, b₁⟩ :: post)) =
      update id b' (render (pre ++ ⟨id, b₂⟩ :: post)) := by
  rw [update_render pre ⟨id, b₁⟩ post b' hwf₁ hne hesc₁ ⟨hpre, hpost⟩,
    update_render pre ⟨id, b₂⟩ post b' hwf₂ hne hesc₂ ⟨hpre, hpost⟩]

example :
    let pre : List Entry := [⟨[91, 65, 93], [120]⟩]
    let post : List Entry := [⟨[91, 67, 93], [122]⟩]
    update [91, 66, 93] [110] (render (pre ++ ⟨[91, 66, 93], [121, 10, 121, 10]⟩ :: post)) =
      update [91, 66, 93] [110] (render (pre ++ ⟨[91, 66, 93], []⟩ :: post)) := by decide

/-! ## 3./4. lookups after an update -/

/-- **Lookup after update, general form.**  Let the updated entry list be split as
`pre' ++ o :: post'` at ANY entry `o` (another entry, or the updated one) whose header is
non-empty, whose body is escaped and which is not shadowed in the NEW file.  Then a lookup of
`o` in the updated file returns exactly `o.body` and the header's line number in the new file.
`NoCRBody b'` is needed because the new body is read back through `bufio.ScanLines`. -/
theorem update_lookup (pre : List Entry) (e : Entry) (post : List Entry) (b' : Text)
    (hwf : WF (pre ++ e :: post)) (hne : e.id ≠ []) (hesc : Escaped e.body)
    (hu : HeaderUnique pre e post) (hcr : NoCRBody b')
    (pre' : List Entry) (o : Entry) (post' : List Entry)
    (hsplit : pre ++ ⟨e.id, b'⟩ :: post = pre' ++ o :: post')
    (hone : o.id ≠ []) (hoesc : Escaped o.body) (hoshadow : o.id ∉ fileLines pre') :
    getPrev o.id (update e.id b' (render (pre ++ e :: post))) =
      some (o.body, (fileLines pre').length + 2) := by
  rw [update_render pre e post b' hwf hne hesc hu, hsplit]
  exact getPrev_render pre' o post' (hsplit ▸ WF_replace b' hwf hcr) hone hoesc hoshadow

/-- **An entry BEFORE the updated one replays the same body at the same line** as before the
update (`getPrev_render` gives the same answer on the old file). -/
theorem update_other_lookup_before (p₁ : List Entry) (o : Entry) (p₂ : List Entry) (e : Entry)
    (post : List Entry) (b' : Text)
    (hwf : WF ((p₁ ++ o :: p₂) ++ e :: post)) (hne : e.id ≠ []) (hesc : Escaped e.body)
    (hu : HeaderUnique (p₁ ++ o :: p₂) e post) (hcr : NoCRBody b')
    (hone : o.id ≠ []) (hoesc : Escaped o.body) (hoshadow : o.id ∉ fileLines p₁) :
    getPrev o.id (update e.id b' (render ((p₁ ++ o :: p₂) ++ e :: post))) =
        some (o.body, (fileLines p₁).length + 2) ∧
    getPrev o.id (render ((p₁ ++ o :: p₂) ++ e :: post)) =
        some (o.body, (fileLines p₁).length + 2) := by
  constructor
  · exact update_lookup _ e post b' hwf hne hesc hu hcr p₁ o (p₂ ++ ⟨e.id, b'⟩ :: post)
      (by simp) hone hoesc hoshadow
  · have : (p₁ ++ o :: p₂) ++ e :: post = p₁ ++ o :: (p₂ ++ e :: post) := by simp
    rw [this] at hwf ⊢
    exact getPrev_render p₁ o _ hwf hone hoesc hoshadow

/-- **An entry AFTER the updated one replays the same body**; its line number is the header's
position in the new file.  The header of `o` must not be shadowed in the NEW file: not in
`pre`, not the header of `e`, not a line of the new body `b'`, not the terminator, and not in
the entries between `e` and `o`. -/
theorem update_other_lookup (pre : List Entry) (e : Entry) (q₁ : List Entry) (o : Entry)
    (q₂ : List Entry) (b' : Text)
    (hwf : WF (pre ++ e :: (q₁ ++ o :: q₂))) (hne : e.id ≠ []) (hesc : Escaped e.body)
    (hu : HeaderUnique pre e (q₁ ++ o :: q₂)) (hcr : NoCRBody b')
    (hone : o.id ≠ []) (hoesc : Escaped o.body)
    (hopre : o.id ∉ fileLines pre) (hoe : o.id ≠ e.id) (hob' : o.id ∉ lines b')
    (hoend : o.id ≠ endSeq) (hoq : o.id ∉ fileLines q₁) :
    getPrev o.id (update e.id b' (render (pre ++ e :: (q₁ ++ o :: q₂)))) =
      some (o.body, (fileLines pre).length + ((lines b').length + 3) + (fileLines q₁).length + 2) := by
  have h := update_lookup pre e (q₁ ++ o :: q₂) b' hwf hne hesc hu hcr
    (pre ++ ⟨e.id, b'⟩ :: q₁) o q₂ (by simp) hone hoesc (by
      rw [fileLines_split]
      simp only [List.mem_append, entryLines, List.mem_cons, List.not_mem_nil, or_false, not_or]
      exact ⟨hopre, ⟨⟨⟨hone, hoe⟩, hob'⟩, hoend⟩, hoq⟩)
  rw [h, fileLines_split, List.length_append, List.length_append, length_entryLines]
  dsimp only
  congr 2; omega

/-- **Line shift for a later entry**: if `o` was also found in the OLD file (its header is not a
line of the old body either), both lookups return `o.body` and the line number moves by exactly
the difference of the body line counts. -/
theorem update_other_lookup_shift (pre : List Entry) (e : Entry) (q₁ : List Entry) (o : Entry)
    (q₂ : List Entry) (b' : Text)
    (hwf : WF (pre ++ e :: (q₁ ++ o :: q₂))) (hne : e.id ≠ []) (hesc : Escaped e.body)
    (hu : HeaderUnique pre e (q₁ ++ o :: q₂)) (hcr : NoCRBody b')
    (hone : o.id ≠ []) (hoesc : Escaped o.body)
    (hopre : o.id ∉ fileLines pre) (hoe : o.id ≠ e.id) (hob' : o.id ∉ lines b')
    (hob : o.id ∉ lines e.body)
    (hoend : o.id ≠ endSeq) (hoq : o.id ∉ fileLines q₁) :
    ∃ n n' : Nat,
      getPrev o.id (render (pre ++ e :: (q₁ ++ o :: q₂))) = some (o.body, n) ∧
      getPrev o.id (update e.id b' (render (pre ++ e :: (q₁ ++ o :: q₂)))) = some (o.body, n') ∧
      n' + (lines e.body).length = n + (lines b').length := by
  refine ⟨(fileLines (pre ++ e :: q₁)).length + 2, _, ?_,
    update_other_lookup pre e q₁ o q₂ b' hwf hne hesc hu hcr hone hoesc hopre hoe hob' hoend hoq, ?_⟩
  · have : pre ++ e :: (q₁ ++ o :: q₂) = (pre ++ e :: q₁) ++ o :: q₂ := by simp
    rw [this] at hwf ⊢
    refine getPrev_render _ o q₂ hwf hone hoesc ?_
    rw [fileLines_split]
    simp only [List.mem_append, entryLines, List.mem_cons, List.not_mem_nil, or_false, not_or]
    exact ⟨hopre, ⟨⟨⟨hone, hoe⟩, hob⟩, hoend⟩, hoq⟩
  · rw [fileLines_split, List.length_append, List.length_append, length_entryLines]; omega

/-- non-vacuity: "[C]" after the updated "[B]" (1-line body → 3-line body) moves from line 10 to 12 -/
example :
    let pre : List Entry := [⟨[91, 65, 93], [120]⟩]
    let e : Entry := ⟨[91, 66, 93], [121]⟩
    let o : Entry := ⟨[91, 67, 93], [122, 10, 122]⟩
    let file := render (pre ++ e :: ([] ++ o :: []))
    getPrev o.id file = some (o.body, 10) ∧
    getPrev o.id (update e.id [110, 10, 10, 119] file) = some (o.body, 12) := by decide

/-- **The updated entry replays the new body** at its old header line, when the new body is
escaped (every taker stores `escape v`, `C01.stored_is_escaped`) and CR-free. -/
theorem update_self_lookup (pre : List Entry) (e : Entry) (post : List Entry) (b' : Text)
    (hwf : WF (pre ++ e :: post)) (hne : e.id ≠ []) (hesc : Escaped e.body)
    (hu : HeaderUnique pre e post) (hcr : NoCRBody b') (hesc' : Escaped b') :
    getPrev e.id (update e.id b' (render (pre ++ e :: post))) =
      some (b', (fileLines pre).length + 2) :=
  update_lookup pre e post b' hwf hne hesc hu hcr pre ⟨e.id, b'⟩ post rfl hne hesc' hu.1

/-- instance for what `entryTail` actually writes: `b' = escape v` for an arbitrary value `v` -/
theorem update_self_lookup_escape (pre : List Entry) (e : Entry) (post : List Entry) (v : Text)
    (hwf : WF (pre ++ e :: post)) (hne : e.id ≠ []) (hesc : Escaped e.body)
    (hu : HeaderUnique pre e post) (hcr : NoCRBody (escape v)) :
    getPrev e.id (update e.id (escape v) (render (pre ++ e :: post))) =
      some (escape v, (fileLines pre).length + 2) :=
  update_self_lookup pre e post (escape v) hwf hne hesc hu hcr (escape_escaped v)

example :
    let pre : List Entry := [⟨[91, 65, 93], [120]⟩]
    let e : Entry := ⟨[91, 66, 93], [121]⟩
    let post : List Entry := [⟨[91, 67, 93], [122]⟩]
    let v : Text := [45, 45, 45, 10, 10, 119]          -- "---\n\nw": contains the terminator
    NoCRBody (escape v) ∧
    getPrev e.id (update e.id (escape v) (render (pre ++ e :: post))) = some (escape v, 6) := by
  decide

/-- `hesc'` is necessary: an unescaped new body is read back only up to its first "---" line. -/
example :
    let e : Entry := ⟨[91, 66, 93], [121]⟩
    let b' : Text := [120, 10, 45, 45, 45, 10, 122]
    getPrev e.id (update e.id b' (render [e])) ≠ some (b', 2) := by decide

/-! ## 5. appending never disturbs existing entries -/

/-- **Lookups are monotone under appending**: whatever `getPrevSnapshot` found in a file it
still finds, with the same body and line number, after `addNewSnapshot` appended a frame. -/
theorem add_lookup_mono (es : List Entry) (n : Entry) (id : Line) (r : Text × Nat)
    (hwf : WF (es ++ [n])) (h : getPrev id (render es) = some r) :
    getPrev id (render (es ++ [n])) = some r := by
  unfold getPrev at h ⊢
  rw [C01.scan_render _ hwf, fileLines_append]
  rw [C01.scan_render _ (WF_append_left hwf)] at h
  exact getPrevL_append_some id _ _ 1 r h

/-- **Appending preserves every existing entry's lookup**, line number included.  No hypothesis
on `o` beyond membership: even a shadowed or unescaped entry gets the same (wrong) answer as
before. -/
theorem add_preserves_entries (es : List Entry) (n : Entry) (hwf : WF (es ++ [n])) :
    ∀ o ∈ es, getPrev o.id (render (es ++ [n])) = getPrev o.id (render es) := by
  intro o ho
  have hs : (getPrev o.id (render es)).isSome := by
    unfold getPrev
    rw [C01.scan_render _ (WF_append_left hwf)]
    exact getPrevL_fileLines_isSome es o ho 1
  obtain ⟨r, hr⟩ := Option.isSome_iff_exists.mp hs
  rw [hr]; exact add_lookup_mono es n o.id r hwf hr

/-- the explicit form: an unshadowed escaped entry keeps body and line number -/
theorem add_other_lookup (pre : List Entry) (o : Entry) (post : List Entry) (n : Entry)
    (hwf : WF ((pre ++ o :: post) ++ [n])) (hone : o.id ≠ []) (hoesc : Escaped o.body)
    (hoshadow : o.id ∉ fileLines pre) :
    getPrev o.id (render ((pre ++ o :: post) ++ [n])) = some (o.body, (fileLines pre).length + 2) ∧
    getPrev o.id (render ((pre ++ o :: post) ++ [n])) = getPrev o.id (render (pre ++ o :: post)) := by
  have h := add_preserves_entries (pre ++ o :: post) n hwf o (by simp)
  exact ⟨by rw [h]; exact getPrev_render pre o post (WF_append_left hwf) hone hoesc hoshadow, h⟩

/-- the same through the executable `frameFmt` (format string read from the Go source): the
    bytes `addNewSnapshot` appends leave every existing lookup unchanged -/
theorem addNew_preserves_entries (es : List Entry) (id : Line) (body : Text)
    (hwf : WF (es ++ [⟨id, body⟩])) (o : Entry) (ho : o ∈ es) :
    (frameFmt id body).map (fun fr => getPrev o.id (render es ++ fr)) =
      some (getPrev o.id (render es)) := by
  have h := C01.addNew_render es id body
  rw [frameFmt_eq] at h ⊢
  simp only [Option.map_some, Option.some.injEq] at h ⊢
  rw [h]; exact add_preserves_entries es ⟨id, body⟩ hwf o ho

example :
    let es : List Entry := [⟨[91, 65, 93], [120, 10, 121]⟩, ⟨[91, 66, 93], [121]⟩]
    let n : Entry := ⟨[91, 67, 93], [91, 65, 93, 10, 91, 66, 93]⟩   -- new body repeats old headers
    WF (es ++ [n]) ∧
    getPrev [91, 66, 93] (render (es ++ [n])) = some ([121], 7) ∧
    getPrev [91, 66, 93] (render es) = some ([121], 7) :=
  ⟨⟨by decide, by decide⟩, by decide, by decide⟩

/-! ## 6. idempotence -/

/-- **Updating twice with the same body equals updating once** (new body escaped and CR-free,
as every taker produces). -/
theorem update_idempotent (pre : List Entry) (e : Entry) (post : List Entry) (b' : Text)
    (hwf : WF (pre ++ e :: post)) (hne : e.id ≠ []) (hesc : Escaped e.body)
    (hu : HeaderUnique pre e post) (hcr : NoCRBody b') (hesc' : Escaped b') :
    update e.id b' (update e.id b' (render (pre ++ e :: post))) =
      update e.id b' (render (pre ++ e :: post)) := by
  rw [update_render pre e post b' hwf hne hesc hu]
  exact update_render pre ⟨e.id, b'⟩ post b' (WF_replace b' hwf hcr) hne hesc' hu

example :
    let pre : List Entry := [⟨[91, 65, 93], [120]⟩]
    let e : Entry := ⟨[91, 66, 93], [121]⟩
    let post : List Entry := [⟨[91, 67, 93], [122]⟩]
    let b' : Text := [110, 10, 10, 119]
    (NoCRBody b' ∧ Escaped b') ∧
    update e.id b' (update e.id b' (render (pre ++ e :: post))) =
      update e.id b' (render (pre ++ e :: post)) := by decide

/-- `hesc'` is necessary: with an unescaped new body the second update leaves a residue. -/
example :
    let e : Entry := ⟨[91, 66, 93], [121]⟩
    let b' : Text := [120, 10, 45, 45, 45, 10, 122]
    update e.id b' (update e.id b' (render [e])) ≠ update e.id b' (render [e]) := by decide

end GoSnaps.C04
