/- C11 — snapshot location is a pure function of test file, test name and options. -/
import GoSnaps.Path
import GoSnaps.Generated.Funcs
namespace GoSnaps.C11

/-- the location depends on nothing but the Config, the calling test file, the test name and the
    API kind (it is a function: no working directory, no registry, no file-system state) -/
theorem location_is_function (c : Cfg) (caller tName : Text) (sa : Bool) :
    ∀ c' caller' t' sa', c = c' → caller = caller' → tName = t' → sa = sa' →
      snapshotPath c caller tName sa = snapshotPath c' caller' t' sa' := by
  intro c' caller' t' sa' h1 h2 h3 h4; subst h1 h2 h3 h4; rfl

/-- the file name: Filename, else the test file's base name without its extension (multi-entry)
    or the test name with '/' replaced by '_' (standalone); standalone names carry `_%d`;
    then `.snap` and the extension -/
theorem filename_spec (c : Cfg) (caller tName : Text) (sa : Bool) :
    constructFilename c caller tName sa =
      (if c.filename = [] then
          (if sa then replaceByte tName slash Generated.saReplaceNew
           else trimSuffix (fpBase caller) (fpExt (fpBase caller)))
        else c.filename) ++ (if sa then Generated.saSuffix else []) ++ Generated.snapsExt ++ c.extension := by
  unfold constructFilename
  cases sa <;> by_cases h : c.filename = [] <;> simp [h]

/-- absolute Dir is used as is; a relative Dir is joined to the calling test file's directory -/
theorem path_spec (c : Cfg) (caller tName : Text) (sa : Bool) :
    (snapshotPath c caller tName sa).1 =
      fpJoin [if fpIsAbs c.snapsDir then c.snapsDir else fpJoin [fpDir caller, c.snapsDir],
              constructFilename c caller tName sa] := by
  unfold snapshotPath; rfl

/-- **Tie by proof**: `Generated.Funcs.constructFilename` is a transliteration of the Go function
`constructFilename` regenerated from snaps/snapshot.go on every run (tools/extract/funcs.go); the
hand-written model definition used everywhere else is EQUAL to it.  A change of the Go function
changes the left-hand side and this theorem has to be re-proved. -/
theorem constructFilename_tied (c : Cfg) (caller tName : Text) (sa : Bool) :
    Generated.Funcs.constructFilename c caller tName sa = GoSnaps.constructFilename c caller tName sa := by
  have h1 : Generated.go_snapsExt = Generated.snapsExt := by decide
  have h2 : Generated.saReplaceNew = [95] := by decide
  have h3 : Generated.saSuffix = [95, 37, 100] := by decide
  have h4 : slash = 47 := by decide
  unfold Generated.Funcs.constructFilename GoSnaps.constructFilename
  cases sa <;> by_cases h : c.filename = [] <;> simp [Id.run, h, h1, h2, h3, h4, pure]

theorem consts_ok : Generated.snapsExt = [46, 115, 110, 97, 112] ∧ Generated.saSuffix = [95, 37, 100] ∧
    Generated.saReplaceNew = [95] ∧ Generated.saReplaceOld = [47] ∧
    Generated.defaultSnapsDir = [95, 95, 115, 110, 97, 112, 115, 104, 111, 116, 115, 95, 95] := by decide

/-- `/a/b/x_test.go`, default options: `/a/b/__snapshots__/x_test.snap`; standalone TestA/s: `TestA_s_%d.snap` -/
example :
    (snapshotPath {} [47,97,47,98,47,120,95,116,101,115,116,46,103,111] [84] false).1 =
      [47,97,47,98,47,95,95,115,110,97,112,115,104,111,116,115,95,95,47,120,95,116,101,115,116,46,115,110,97,112] ∧
    constructFilename {} [47,120,46,103,111] [84,47,115] true = [84,95,115,95,37,100,46,115,110,97,112] := by decide

end GoSnaps.C11
