/- C11 — snapshot location is a pure function of test file, test name and options. -/
import GoSnaps.Path
import GoSnaps.Generated.Funcs
namespace GoSnaps.C11

/-- the location depends on nothing but the Config, the calling test file, the test name and the
    API kind (it is a function: no working directory, no registry, no file-system state) -/
theorem location_is_function (c : Cfg) (caller tName : Text) (sa : Bool) :
    ∀ c' caller' t' sa', c = c' → caller = caller' → tName = t' → sa = sa' →
      snapshotPath c caller tName sa = snapshotPath c' caller' t' sa' := by
  intro c' caller' t' sa' h1 h2 h3 h4; subst h1 h2 h3 h4; rfl

/-- the name a snapshot file is built from: Filename, else the test file's base name without its
    extension (multi-entry) or the test name with '/' replaced by '_' (standalone) -/
def stem (c : Cfg) (caller tName : Text) (sa : Bool) : Text :=
  if c.filename = [] then
    (if sa then replaceByte tName slash Generated.saReplaceNew
     else trimSuffix (fpBase caller) (fpExt (fpBase caller)))
  else c.filename

/-- the file name of a multi-entry snapshot: stem, `.snap`, extension -/
theorem filename_spec (c : Cfg) (caller tName : Text) :
    constructFilename c caller tName false = stem c caller tName false ++ Generated.snapsExt ++ c.extension := by
  unfold constructFilename stem
  by_cases h : c.filename = [] <;> simp [h]

/-- the file name of a standalone snapshot is a FORMAT: stem and extension escaped (`%` ↦ `%%`),
    the ordinal placeholder `_%d` between the stem and `.snap` -/
theorem filename_spec_standalone (c : Cfg) (caller tName : Text) :
    constructFilename c caller tName true =
      escapeFormat (stem c caller tName true) ++ Generated.saSuffix ++ Generated.snapsExt ++ escapeFormat c.extension := by
  unfold constructFilename stem
  by_cases h : c.filename = [] <;> simp [h]

/-- absolute Dir is used as is; a relative Dir is joined to the calling test file's directory -/
theorem path_spec (c : Cfg) (caller tName : Text) :
    (snapshotPath c caller tName false).1 =
      fpJoin [if fpIsAbs c.snapsDir then c.snapsDir else fpJoin [fpDir caller, c.snapsDir],
              constructFilename c caller tName false] := by
  unfold snapshotPath; rfl

/-- the standalone path: the same directory, escaped, joined with the standalone file-name format -/
theorem path_spec_standalone (c : Cfg) (caller tName : Text) :
    (snapshotPath c caller tName true).1 =
      fpJoin [escapeFormat (if fpIsAbs c.snapsDir then c.snapsDir else fpJoin [fpDir caller, c.snapsDir]),
              constructFilename c caller tName true] := by
  unfold snapshotPath; rfl

/-- **Tie by proof**: `Generated.Funcs.constructFilename` is a transliteration of the Go function
`constructFilename` regenerated from snaps/snapshot.go on every run (tools/extract/funcs.go); the
hand-written model definition used everywhere else is EQUAL to it.  A change of the Go function
changes the left-hand side and this theorem has to be re-proved. -/
theorem constructFilename_tied (c : Cfg) (caller tName : Text) (sa : Bool) :
    Generated.Funcs.constructFilename c caller tName sa = GoSnaps.constructFilename c caller tName sa := by
  have h1 : Generated.go_snapsExt = Generated.snapsExt := by decide
  have h2 : Generated.saReplaceNew = [95] := by decide
  have h3 : Generated.saSuffix = [95, 37, 100] := by decide
  have h4 : slash = 47 := by decide
  unfold Generated.Funcs.constructFilename GoSnaps.constructFilename Generated.Funcs.escapeFormat GoSnaps.escapeFormat
  cases sa <;> by_cases h : c.filename = [] <;> simp [Id.run, h, h1, h2, h3, h4, pure]

theorem consts_ok : Generated.snapsExt = [46, 115, 110, 97, 112] ∧ Generated.saSuffix = [95, 37, 100] ∧
    Generated.saReplaceNew = [95] ∧ Generated.saReplaceOld = [47] ∧
    Generated.defaultSnapsDir = [95, 95, 115, 110, 97, 112, 115, 104, 111, 116, 115, 95, 95] := by decide

/-- `/a/b/x_test.go`, default options: `/a/b/__snapshots__/x_test.snap`; standalone TestA/s: `TestA_s_%d.snap` -/
example :
    (snapshotPath {} [47,97,47,98,47,120,95,116,101,115,116,46,103,111] [84] false).1 =
      [47,97,47,98,47,95,95,115,110,97,112,115,104,111,116,115,95,95,47,120,95,116,101,115,116,46,115,110,97,112] ∧
    constructFilename {} [47,120,46,103,111] [84,47,115] true = [84,95,115,95,37,100,46,115,110,97,112] := by decide

end GoSnaps.C11
