/-
C18 — YAML snapshots keep the document verbatim (go-snaps glue).

`matchYAML` (snaps/matchYAML.go:56-141): validate (goccy/go-yaml, a parameter) → matchers →
`takeYAMLSnapshot(y) = escapeEndChars(string(y))` → the shared lookup / create / compare /
update tail, comparing after `unescapeEndChars`.  Nothing re-serialises the document: without
matchers the stored body is `escape y` and what is compared on replay is `unescape (escape y)`,
i.e. `y` itself unless it has a line equal to the escape token (D10).

Byte legend: 10 = "\n"; "a: 1" = [97, 58, 32, 49]; "---" = [45, 45, 45].
-/
import GoSnaps.Model
import GoSnaps.Driver
import GoSnaps.Props.C01
import GoSnaps.Props.C02
import GoSnaps.Props.C03
import GoSnaps.Props.C17
import GoSnaps.Props.C19
namespace GoSnaps.C18

open GoSnaps

/-! ## 0. `matchEntry` on a document that passed the pipeline -/

/-- `MatchYAML` / `MatchJSON` / `MatchSnapshot` with snapshot text `s`: the shared tail on the
entered world, with the header `[tName - n]`, `n` the bumped ordinal -/
theorem matchEntry_ok_eq (w : World) (c : Cfg) (caller tName : Text) (texec : Nat) (cmp : Cmp)
    (s rel : Text) (hrel : (snapshotPath c caller tName false).2 = some rel) :
    matchEntry w c caller tName texec cmp (.ok s) =
      entryTail (C17.entered w c caller tName texec) c (snapshotPath c caller tName false).1 rel
        (C03.testID tName (alGet w.running ((snapshotPath c caller tName false).1, tName) + 1)) s cmp := by
  unfold matchEntry C17.entered
  generalize snapshotPath c caller tName false = sp at hrel ⊢
  obtain ⟨snapPath, rel?⟩ := sp
  simp only at hrel
  subst hrel
  simp only [C03.testID_eq]
  simp [regBump]

/-- what `Driver.docOp "yaml"` hands to `matchEntry` for a document `d` that passed validation
and matchers -/
def yamlPre (doc : Except Text Text) : Except Text Text :=
  match doc with
  | .ok d => .ok (escape d)
  | .error e => .error e

theorem docOp_yaml (s : DState) (line c t : String) (cn tn : Nat) (cfg : Cfg) (nm : Text)
    (doc : Except Text Text)
    (hc : c.toNat? = some cn) (hcfg : lookupCfg s cn = some cfg)
    (ht : t.toNat? = some tn) (hn : lookupName s tn = some nm) (hd : s.doc = some doc) :
    (docOp s line "yaml" c t).1.w = (matchEntry s.w cfg s.caller nm tn .escaped (yamlPre doc)).1 := by
  cases doc <;> simp [docOp, hc, hcfg, ht, hn, hd, yamlPre]

/-! ## 1. the stored body is the escaped document -/

/-- **yaml_stored**: no entry with this header in the file (or no file), creation allowed:
the call appends exactly the frame `"\n" ++ id ++ "\n" ++ escape y ++ "\n---\n"` to the file
(a missing file starts empty), logs "added", counts one `added` -/
theorem yaml_stored (w : World) (c : Cfg) (p rel id y : Text)
    (hmiss : (fsRead w.fs p).bind (getPrev id) = none)
    (hc : Generated.shouldCreate w.env c.update = true) :
    let r := entryTail w c p rel id (escape y) .escaped
    fsRead r.1.fs p = some ((fsRead w.fs p).getD [] ++ frame ⟨id, escape y⟩) ∧
    r.2.events = [.log Generated.go_addedMsg] ∧ r.2.writes = [p] ∧
    r.1.events = { w.events with added := w.events.added + 1 } ∧ r.2.unsupported = none := by
  unfold entryTail
  simp only [hmiss, hc, Bool.not_true, Bool.false_eq_true, ↓reduceIte, frameFmt_eq]
  refine ⟨?_, trivial, trivial, trivial, trivial⟩
  rw [C19.fsRead_fsWrite_same]
  cases fsRead w.fs p <;> rfl

/-- … and the lookup of that header in the new file returns `escape y` — for a file that was
a well-formed entry list `es` in which the header does not occur (or no file: `es = []`) -/
theorem yaml_stored_lookup (w : World) (c : Cfg) (p rel id y : Text) (es : List Entry)
    (hfile : fsRead w.fs p = some (render es) ∨ (fsRead w.fs p = none ∧ es = []))
    (hwf : C01.WF (es ++ [⟨id, escape y⟩])) (hne : id ≠ []) (hfresh : id ∉ fileLines es)
    (hc : Generated.shouldCreate w.env c.update = true) :
    let r := entryTail w c p rel id (escape y) .escaped
    fsRead r.1.fs p = some (render (es ++ [⟨id, escape y⟩])) ∧
    (fsRead r.1.fs p).bind (getPrev id) = some (escape y, (fileLines es).length + 2) := by
  have hwf' : C01.WF es := WF_append_left hwf
  have hmiss : (fsRead w.fs p).bind (getPrev id) = none := by
    rcases hfile with h | ⟨h, _⟩
    · rw [h]; exact C01.getPrev_absent id es hwf' hfresh
    · rw [h]; rfl
  have hold : (fsRead w.fs p).getD [] = render es := by
    rcases hfile with h | ⟨h, rfl⟩
    · rw [h]; rfl
    · rw [h]; rfl
  intro r
  have h1 : fsRead r.1.fs p = some (render (es ++ [⟨id, escape y⟩])) := by
    rw [(yaml_stored w c p rel id y hmiss hc).1, hold]
    simp [render]
  exact ⟨h1, by rw [h1]; exact C01.record_then_lookup es id y hwf hne hfresh⟩

/-- what replay compares is the document itself: `unescape (escape y) = y` for every document
without a line equal to the escape token; in general the token line reads back as "---" (D10) -/
theorem yaml_verbatim (y : Text) (h : C02.NoTokLine y) : unescape (escape y) = y :=
  C02.unescape_escape_id y h

theorem yaml_verbatim_gen (y : Text) : unescape (escape y) = C02.canon y :=
  C02.unescape_escape_fix y

/-- a document containing the YAML document separator "---": stored escaped, read back verbatim -/
example : escape [97, 58, 32, 49, 10, 45, 45, 45, 10, 98, 58, 32, 50] =
      [97, 58, 32, 49, 10, 47, 45, 47, 45, 47, 45, 47, 10, 98, 58, 32, 50] ∧
    unescape (escape [97, 58, 32, 49, 10, 45, 45, 45, 10, 98, 58, 32, 50]) =
      [97, 58, 32, 49, 10, 45, 45, 45, 10, 98, 58, 32, 50] := by decide

/-! ## 2. replay -/

/-- **yaml_replay**: the stored entry is `escape y` ⇒ the same document passes: no event, no
write, the file system is untouched, one `passed` — in every mode.  Both sides of the
comparison are `unescape (escape y)`. -/
theorem yaml_replay (w : World) (c : Cfg) (p rel id y : Text) (line : Nat)
    (h : (fsRead w.fs p).bind (getPrev id) = some (escape y, line)) :
    let r := entryTail w c p rel id (escape y) .escaped
    r.2.events = [] ∧ r.2.writes = [] ∧ r.2.removed = [] ∧ r.1.fs = w.fs ∧
    r.1.events = { w.events with passed := w.events.passed + 1 } ∧ r.2.unsupported = none := by
  unfold entryTail
  simp [h, prettyDiff]

/-- a different document against the stored one (neither with a token line) is reported: the
test fails unless updating is allowed -/
theorem yaml_mismatch (w : World) (c : Cfg) (p rel id y y' : Text) (line : Nat)
    (h : (fsRead w.fs p).bind (getPrev id) = some (escape y, line))
    (hy : C02.NoTokLine y) (hy' : C02.NoTokLine y') (hne : y' ≠ y)
    (hu : Generated.shouldUpdate w.env c.update = false) :
    let r := entryTail w c p rel id (escape y') .escaped
    (∃ d, d ≠ [] ∧ r.2.events = [.error d]) ∧ r.2.writes = [] ∧ r.1.fs = w.fs := by
  have hd := C02.mismatch_reported_text y y' rel line hy hy' hne
  unfold entryTail
  simp only [h, hd, ↓reduceIte, hu, Bool.not_false]
  exact ⟨⟨_, hd, rfl⟩, rfl, rfl⟩

/-- **record, then replay**: the world left by the creating call replays the same document
silently (same header: the next run of the test, after the registries were reset) -/
theorem yaml_record_then_replay (w : World) (c : Cfg) (p rel id y : Text) (es : List Entry)
    (hfile : fsRead w.fs p = some (render es) ∨ (fsRead w.fs p = none ∧ es = []))
    (hwf : C01.WF (es ++ [⟨id, escape y⟩])) (hne : id ≠ []) (hfresh : id ∉ fileLines es)
    (hc : Generated.shouldCreate w.env c.update = true) (c' : Cfg) (rel' : Text) :
    let w₁ := (entryTail w c p rel id (escape y) .escaped).1
    let r := entryTail w₁ c' p rel' id (escape y) .escaped
    r.2.events = [] ∧ r.2.writes = [] ∧ r.1.fs = w₁.fs := by
  intro w₁ r
  have h := (yaml_stored_lookup w c p rel id y es hfile hwf hne hfresh hc).2
  have := yaml_replay w₁ c' p rel' id y _ h
  exact ⟨this.1, this.2.1, this.2.2.2.1⟩

/-- concrete run: document "a: 1\n---\nb: 2" under header `[T - 1]` on an empty file system,
then again: first call adds, second passes; the file holds the escaped text -/
example :
    let w : World := { env := ⟨false, ""⟩ }
    let y : Text := [97, 58, 32, 49, 10, 45, 45, 45, 10, 98, 58, 32, 50]
    let id : Text := [91, 84, 32, 45, 32, 49, 93]
    let r₁ := entryTail w {} [47, 102] [102] id (escape y) .escaped
    let r₂ := entryTail r₁.1 {} [47, 102] [102] id (escape y) .escaped
    r₁.2.events = [.log Generated.go_addedMsg] ∧ r₂.2.events = [] ∧ r₂.2.writes = [] ∧
    fsRead r₁.1.fs [47, 102] = some ([10] ++ id ++ [10] ++
      [97, 58, 32, 49, 10, 47, 45, 47, 45, 47, 45, 47, 10, 98, 58, 32, 50] ++ [10, 45, 45, 45, 10]) := by
  decide +kernel

/-! ## 3. an invalid document or a failing matcher writes nothing -/

/-- instance of C17: `MatchYAML` with `validateYAML` or the matchers failing — one failure, no
write, no removal, in every mode -/
theorem yaml_invalid_writes_nothing (w : World) (c : Cfg) (caller tName : Text) (texec : Nat)
    (msg : Text) :
    let r := matchEntry w c caller tName texec .escaped (yamlPre (.error msg))
    r.1.fs = w.fs ∧ r.2.writes = [] ∧ r.2.removed = [] ∧
    (r.2.unsupported = none → r.2.events = [.error msg] ∧
      r.1.events = { w.events with erred := w.events.erred + 1 }) := by
  intro r
  obtain ⟨a, b, d⟩ := C17.matcher_error_no_write w c caller tName texec .escaped msg
  exact ⟨a, b, d, fun hs =>
    let h := C17.matcher_error_one_failure w c caller tName texec .escaped msg hs
    ⟨h.1, h.2.1⟩⟩

/-! ## 4. the trailing newline through a YAML matcher -/

/-- `MarshalFile` (match/internal/yaml/yaml.go:58-70): `strings.Join(docs [+ ""], "\n")`;
`docs` are the `doc.String()` of goccy's AST (a parameter) -/
def marshalFile (docs : List Text) (addNewLine : Bool) : Text :=
  joinNL (docs ++ (if addNewLine then [[]] else []))

theorem hasSuffix_nl (s : Text) : hasSuffix s [nl] = true ↔ s.getLast? = some nl := by
  simp only [hasSuffix, List.isSuffixOf_iff_suffix]
  constructor
  · rintro ⟨t, rfl⟩; simp
  · intro h
    obtain ⟨t, rfl⟩ := List.getLast?_eq_some_iff.mp h
    exact ⟨t, rfl⟩

theorem joinNL_snoc (docs : List Text) (d : Text) (h : docs ≠ []) :
    joinNL (docs ++ [d]) = joinNL docs ++ nl :: d := by
  induction docs with
  | nil => exact absurd rfl h
  | cons x xs ih =>
    cases xs with
    | nil => simp [joinNL]
    | cons y ys =>
      have := ih (by simp)
      simp only [List.cons_append] at this ⊢
      simp only [joinNL, this, List.append_assoc, List.cons_append]

theorem joinNL_getLast (init : List Text) (d : Text) (hd : d ≠ []) :
    (joinNL (init ++ [d])).getLast? = d.getLast? := by
  cases init with
  | nil => simp [joinNL]
  | cons x xs =>
    rw [joinNL_snoc _ _ (by simp), List.getLast?_append]
    obtain ⟨v, hv⟩ : ∃ v, d.getLast? = some v := ⟨_, List.getLast?_eq_some_getLast hd⟩
    cases d with
    | nil => exact absurd rfl hd
    | cons a as => rw [List.getLast?_cons_cons, hv]; rfl

/-- **yaml_matcher_newline**: for a non-empty document list whose last document is non-empty
and does not itself end in a newline, the marshalled file ends with "\n" iff `addNewLine` -/
theorem yaml_matcher_newline (init : List Text) (d : Text) (addNewLine : Bool)
    (hd : d ≠ []) (hnl : d.getLast? ≠ some nl) :
    hasSuffix (marshalFile (init ++ [d]) addNewLine) [nl] = addNewLine := by
  cases addNewLine with
  | true =>
    simp only [marshalFile, ↓reduceIte]
    rw [joinNL_snoc _ _ (by simp), hasSuffix_nl]
    simp
  | false =>
    simp only [marshalFile, Bool.false_eq_true, ↓reduceIte, List.append_nil]
    cases h : hasSuffix (joinNL (init ++ [d])) [nl] with
    | false => rfl
    | true =>
      rw [hasSuffix_nl, joinNL_getLast _ _ hd] at h
      exact absurd h hnl

/-- with `addNewLine := bytes.HasSuffix(b, "\n")` (match/any.go:88, custom.go, type.go): the
matcher's output ends with a newline exactly when its input did — the matcher neither adds nor
drops the final newline of the document -/
theorem yaml_matcher_newline_preserved (input : Text) (init : List Text) (d : Text)
    (hd : d ≠ []) (hnl : d.getLast? ≠ some nl) :
    hasSuffix (marshalFile (init ++ [d]) (hasSuffix input [nl])) [nl] = hasSuffix input [nl] :=
  yaml_matcher_newline init d _ hd hnl

/-- "a: 1" ++ "b: 2": joined with the separator newline only / plus the final one; and the
corner the hypotheses exclude: an EMPTY document list with `addNewLine` yields "" (no newline) -/
example :
    marshalFile [[97, 58, 32, 49], [98, 58, 32, 50]] false = [97, 58, 32, 49, 10, 98, 58, 32, 50] ∧
    marshalFile [[97, 58, 32, 49], [98, 58, 32, 50]] true = [97, 58, 32, 49, 10, 98, 58, 32, 50, 10] ∧
    marshalFile [] true = [] ∧
    marshalFile [[97], []] false = [97, 10] := by decide

end GoSnaps.C18
