/- C02 placeholder: replaced by the full statement file (see git history). -/
import GoSnaps.Diff
import GoSnaps.Escape
namespace GoSnaps.C02

/-- identical inputs give an empty report (the trivial direction; the converse is in progress) -/
theorem prettyDiff_refl (e name : Text) (line : Nat) : prettyDiff e e name line = [] := by
  simp [prettyDiff]

end GoSnaps.C02
