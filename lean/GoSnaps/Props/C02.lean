/-
C02 — storage (escaping), read-back (unescaping) and the diff never conflate two distinct
values — except for the one documented collision of the two token lines "---" / TOK
(known limitation D10), whose exact extent is characterised here; and, in colour mode, except
for the silent pass that diffmatchpatch's verdict can cause (known defect D3).

Byte legend: 45 = "-", 47 = "/", 10 = "\n"; "---" = [45,45,45]; TOK = [47,45,47,45,47,45,47] is the
7-byte escape token `Generated.escapeTo` (slash dash slash dash slash dash slash; it cannot be
written literally inside a Lean comment).
-/
import GoSnaps.Lemmas.Diff
import GoSnaps.Props.C13
namespace GoSnaps.C02

open GoSnaps GoSnaps.Difflib

/-- no line of `v` is the escape token TOK -/
def NoTokLine (v : Text) : Prop := Generated.escapeTo ∉ lines v

instance (v : Text) : Decidable (NoTokLine v) := by unfold NoTokLine; infer_instance

/-- canonical form: the line TOK is replaced by "---" (so both token lines become one
symbol), everything else is kept -/
def canon (v : Text) : Text := mapLines Generated.escapeTo Generated.endSeq v

/-! side conditions on the generated constants (current values) -/
theorem escapeFrom_eq : Generated.escapeFrom = Generated.endSeq := by decide
theorem unescapeFrom_eq : Generated.unescapeFrom = Generated.escapeTo := by decide
theorem unescapeTo_eq : Generated.unescapeTo = Generated.endSeq := by decide
theorem tok_ne_end : Generated.escapeTo ≠ Generated.endSeq := by decide
theorem tok_noNL : NoNL Generated.escapeTo := by decide
theorem end_noNL : NoNL Generated.endSeq := by decide

/-! ## 1. what `unescape ∘ escape` does -/

/-- `unescape (escape v)` is `v` with every line TOK replaced by "---" -/
theorem unescape_escape_fix (v : Text) :
    unescape (escape v) = mapLines Generated.escapeTo Generated.endSeq v := by
  unfold unescape escape
  rw [escapeFrom_eq, unescapeFrom_eq, unescapeTo_eq, mapLines_mapLines _ _ _ _ tok_noNL]
  apply mapLines_congr
  intro l _
  unfold lineMap
  by_cases h1 : l = Generated.endSeq
  · subst h1; simp [Ne.symm tok_ne_end]
  · by_cases h2 : l = Generated.escapeTo <;> simp [h1, h2]

/-- a value without a TOK line is read back exactly -/
theorem unescape_escape_id (v : Text) (h : NoTokLine v) : unescape (escape v) = v := by
  rw [unescape_escape_fix]
  exact mapLines_id_of_not_mem _ _ v h

/-- "a\n---\nb" survives the round trip; "a\nTOK\nb" comes back as "a\n---\nb" -/
example : unescape (escape [97, 10, 45, 45, 45, 10, 98]) = [97, 10, 45, 45, 45, 10, 98] ∧
    unescape (escape [97, 10, 47, 45, 47, 45, 47, 45, 47, 10, 98]) = [97, 10, 45, 45, 45, 10, 98] := by
  decide

example : unescape (escape [97, 10, 45, 45, 45, 10, 98]) = [97, 10, 45, 45, 45, 10, 98] :=
  unescape_escape_id _ (by decide)

/-! ## 2. exactly which values are conflated by the round trip -/

theorem conflate_iff (a b : Text) :
    unescape (escape a) = unescape (escape b) ↔ canon a = canon b := by
  rw [unescape_escape_fix, unescape_escape_fix]; rfl

/-- line-level reading of `canon a = canon b`: same number of lines, and corresponding lines
are equal after identifying TOK with "---" -/
theorem canon_eq_iff (a b : Text) :
    canon a = canon b ↔
      (lines a).map (lineMap Generated.escapeTo Generated.endSeq) =
      (lines b).map (lineMap Generated.escapeTo Generated.endSeq) :=
  mapLines_eq_iff _ _ end_noNL a b

/-- D10: the round trip is not injective — "---" and TOK are distinct but are read back
as the same text -/
example : ([45, 45, 45] : Text) ≠ [47, 45, 47, 45, 47, 45, 47] ∧
    unescape (escape [45, 45, 45]) = unescape (escape [47, 45, 47, 45, 47, 45, 47]) ∧
    canon [45, 45, 45] = canon [47, 45, 47, 45, 47, 45, 47] := by decide

/-! ## 3. injectivity of `escape` -/

theorem escape_injective_on (a b : Text) (ha : NoTokLine a) (hb : NoTokLine b)
    (h : escape a = escape b) : a = b := by
  rw [← unescape_escape_id a ha, ← unescape_escape_id b hb, h]

/-- `escape` does not see the difference between `v` and `canon v` -/
theorem escape_canon (v : Text) : escape (canon v) = escape v := by
  unfold canon
  show mapLines _ _ _ = mapLines _ _ _
  rw [escapeFrom_eq, mapLines_mapLines _ _ _ _ end_noNL]
  apply mapLines_congr
  intro l _
  unfold lineMap
  by_cases h2 : l = Generated.escapeTo
  · subst h2; simp
  · by_cases h1 : l = Generated.endSeq <;> simp [h1, h2]

/-- **the exact kernel of `escape`**: two texts have the same stored form iff they agree up
to exchanging "---" and TOK lines.  So `escape` is NOT injective on all texts … -/
theorem escape_injective_general (a b : Text) : escape a = escape b ↔ canon a = canon b := by
  constructor
  · intro h
    rw [← conflate_iff, h]
  · intro h
    rw [← escape_canon a, ← escape_canon b, h]

/-- … witness: "---" and TOK are both stored as TOK -/
theorem escape_not_injective : ∃ a b : Text, a ≠ b ∧ escape a = escape b :=
  ⟨[45, 45, 45], [47, 45, 47, 45, 47, 45, 47], by decide⟩

example : escape [45, 45, 45] = [47, 45, 47, 45, 47, 45, 47] ∧
    escape [47, 45, 47, 45, 47, 45, 47] = [47, 45, 47, 45, 47, 45, 47] := by decide

/-- on token-free texts `canon` is the identity, so there the kernel is equality -/
theorem canon_id (v : Text) (h : NoTokLine v) : canon v = v :=
  mapLines_id_of_not_mem _ _ v h

/-! ## 4. a changed value is reported -/

/-- text snapshots (stored escaped, compared after unescaping): a different value gives a
non-empty report, provided neither value has a TOK line -/
theorem mismatch_reported_text (v₀ v name : Text) (line : Nat)
    (h₀ : NoTokLine v₀) (h : NoTokLine v) (hne : v ≠ v₀) :
    prettyDiff (unescape (escape v₀)) (unescape (escape v)) name line ≠ [] := by
  rw [unescape_escape_id v₀ h₀, unescape_escape_id v h]
  intro he
  exact hne ((C13.report_empty_iff _ _ _ _).mp he).symm

/-- without the side condition: the report is empty exactly when the two values agree up to
the token collision -/
theorem mismatch_reported_text_iff (v₀ v name : Text) (line : Nat) :
    prettyDiff (unescape (escape v₀)) (unescape (escape v)) name line = [] ↔ canon v₀ = canon v := by
  rw [C13.report_empty_iff, conflate_iff]

/-- raw comparison (JSON / standalone snapshots, no escaping): every change is reported -/
theorem mismatch_reported_raw (v₀ v name : Text) (line : Nat) (hne : v ≠ v₀) :
    prettyDiff v₀ v name line ≠ [] :=
  fun he => hne ((C13.report_empty_iff _ _ _ _).mp he).symm

example : prettyDiff (unescape (escape [97, 10, 45, 45, 45])) (unescape (escape [97, 10, 45, 45]))
    [110] 3 ≠ [] :=
  mismatch_reported_text _ _ _ _ (by decide) (by decide) (by decide)

/-- D10 seen end to end: expected "---", received TOK: the report is empty -/
example : prettyDiff (unescape (escape [45, 45, 45])) (unescape (escape [47, 45, 47, 45, 47, 45, 47]))
    [110] 3 = [] := by decide

/-! ## 5. colour mode -/

/-- exact description of the verdict, any colour setting, any diffmatchpatch behaviour, with or
without the fall-back to line rows -/
theorem prettyDiffNonEmpty_eq (colour fb : Bool) (dmp : Text → Text → Bool) (e r : Text) :
    prettyDiffNonEmpty colour fb dmp e r = true ↔
      e ≠ r ∧ (shouldPrintHighlights colour e r = true → fb = false → dmp e r = false) := by
  unfold prettyDiffNonEmpty
  by_cases h : e = r
  · simp [h]
  · by_cases hs : shouldPrintHighlights colour e r = true
    · cases fb <;> simp [h, hs, getUnifiedDiff_text_ne_nil h]
    · simp [h, hs, getUnifiedDiff_text_ne_nil h]

/-- NO_COLOR: a report is printed iff the texts differ, whatever diffmatchpatch would say -/
theorem prettyDiffNonEmpty_iff (fb : Bool) (dmp : Text → Text → Bool) (e r : Text) :
    prettyDiffNonEmpty false fb dmp e r = true ↔ e ≠ r := by
  rw [prettyDiffNonEmpty_eq]
  simp [shouldPrintHighlights]

/-- with the fall-back to line rows, colours on or off, ANY diffmatchpatch: a report is printed
iff the texts differ -/
theorem prettyDiffNonEmpty_fallback (colour : Bool) (dmp : Text → Text → Bool) (e r : Text) :
    prettyDiffNonEmpty colour true dmp e r = true ↔ e ≠ r := by
  rw [prettyDiffNonEmpty_eq]
  simp

/-- **the current source** (fall-back facts regenerated from snaps/diff.go on every run): the
report is non-empty iff the texts differ, in colour mode too, for every behaviour of
diffmatchpatch.  If the fall-back is removed from the source this theorem no longer checks. -/
theorem colour_mode_reports_now (colour : Bool) (dmp : Text → Text → Bool) (e r : Text) :
    prettyDiffNonEmptyNow colour dmp e r = true ↔ e ≠ r := by
  have hfb : (Generated.prettyDiffFallsBack && Generated.unifiedDiffFallsBack) = true := by decide
  unfold prettyDiffNonEmptyNow
  rw [hfb]
  exact prettyDiffNonEmpty_fallback colour dmp e r

/-- without the fall-back: a report is printed iff the texts differ, PROVIDED diffmatchpatch
never returns a single Equal chunk for two different texts -/
theorem prettyDiffNonEmpty_colour_iff (dmp : Text → Text → Bool)
    (hdmp : ∀ x y, x ≠ y → dmp x y = false) (e r : Text) :
    prettyDiffNonEmpty true false dmp e r = true ↔ e ≠ r := by
  rw [prettyDiffNonEmpty_eq]
  exact ⟨fun h => h.1, fun h => ⟨h, fun _ _ => hdmp e r h⟩⟩

/-- D3 (silent pass, before the repair): without the fall-back, if diffmatchpatch reports a
single Equal chunk for some non-empty single-line pair `x ≠ y`, nothing is printed -/
theorem silent_pass_of_dmp (dmp : Text → Text → Bool) (x y : Text)
    (hx : x ≠ []) (hy : y ≠ []) (sx : isSingleline x = true) (sy : isSingleline y = true)
    (hd : dmp x y = true) : prettyDiffNonEmpty true false dmp x y = false := by
  unfold prettyDiffNonEmpty
  split
  · rfl
  · simp [shouldPrintHighlights, hx, hy, sx, sy, hd]

example : prettyDiffNonEmpty true false (fun _ _ => true) [97] [98] = false ∧
    prettyDiffNonEmpty true true (fun _ _ => true) [97] [98] = true ∧
    prettyDiffNonEmpty false false (fun _ _ => true) [97] [98] = true := by decide +kernel

end GoSnaps.C02
