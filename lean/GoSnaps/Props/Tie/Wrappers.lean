/-
Tie by proof, part 12: the exported entry points (snaps/match*.go).

Each exported function is a thin wrapper of the flow proved in Tie/Flows.lean; the theorems below
say exactly which flow, with which Config.  They pin three things a wrapper could get wrong:
the package-level functions use the package default Config (`{}` = `Config{snapsDir: "__snapshots__"}`,
fact group `defaultConfig`), the methods use THEIR Config, and `MatchStandaloneJSON` defaults the
extension to ".json" on a COPY (value semantics: the translator rejects any assignment through the
`*Config` receiver, so the caller's Config cannot change — property C12).
-/
import GoSnaps.GoIO
import GoSnaps.Generated.FuncsIO
namespace GoSnaps.Tie
open GoSnaps GoSnaps.GoIO
open GoSnaps.Generated.FuncsIO

theorem Config_MatchSnapshot_eq (io : IOFail) (st : St) (tp : Bool) (caller : Text) (c : Cfg) (t : T) (vals : List Text) :
    Config_MatchSnapshot io st tp caller c t vals = matchSnapshot io st tp caller c t vals := by
  unfold Config_MatchSnapshot
  cases h : matchSnapshot io st tp caller c t vals <;> simp [h]

theorem MatchSnapshot_eq (io : IOFail) (st : St) (tp : Bool) (caller : Text) (t : T) (vals : List Text) :
    MatchSnapshot io st tp caller t vals = matchSnapshot io st tp caller {} t vals := by
  unfold MatchSnapshot
  cases h : matchSnapshot io st tp caller {} t vals <;> simp [h]

theorem Config_MatchStandaloneSnapshot_eq (io : IOFail) (st : St) (tp : Bool) (caller : Text) (c : Cfg) (t : T) (input : Text) :
    Config_MatchStandaloneSnapshot io st tp caller c t input = matchStandaloneSnapshot io st tp caller c t input := by
  unfold Config_MatchStandaloneSnapshot
  cases h : matchStandaloneSnapshot io st tp caller c t input <;> simp [h]

theorem MatchStandaloneSnapshot_eq (io : IOFail) (st : St) (tp : Bool) (caller : Text) (t : T) (input : Text) :
    MatchStandaloneSnapshot io st tp caller t input = matchStandaloneSnapshot io st tp caller {} t input := by
  unfold MatchStandaloneSnapshot
  cases h : matchStandaloneSnapshot io st tp caller {} t input <;> simp [h]

section
variable (io : IOFail) (st : St) (tp : Bool) (caller : Text)
  (run : Matcher → Text → Text × List MErr) (validate : Text → Text × Err) (takeJSON : Cfg → Text → Text)
  (c : Cfg) (t : T) (input : Text) (ms : List Matcher)

theorem Config_MatchJSON_eq :
    Config_MatchJSON io st tp caller run validate takeJSON c t input ms =
      matchJSON io st tp caller run validate takeJSON c t input ms := by
  unfold Config_MatchJSON
  cases h : matchJSON io st tp caller run validate takeJSON c t input ms <;> simp [h]

theorem MatchJSON_eq :
    MatchJSON io st tp caller run validate takeJSON t input ms =
      matchJSON io st tp caller run validate takeJSON {} t input ms := by
  unfold MatchJSON
  cases h : matchJSON io st tp caller run validate takeJSON {} t input ms <;> simp [h]

theorem Config_MatchYAML_eq :
    Config_MatchYAML io st tp caller run validate c t input ms =
      matchYAML io st tp caller run validate c t input ms := by
  unfold Config_MatchYAML
  cases h : matchYAML io st tp caller run validate c t input ms <;> simp [h]

theorem MatchYAML_eq :
    MatchYAML io st tp caller run validate t input ms =
      matchYAML io st tp caller run validate {} t input ms := by
  unfold MatchYAML
  cases h : matchYAML io st tp caller run validate {} t input ms <;> simp [h]

/-- the Config a standalone JSON call really uses: the caller's, with `.json` when no extension
    was configured -/
def withJSONExt (c : Cfg) : Cfg := if c.extension = [] then { c with extension := [46, 106, 115, 111, 110] } else c

theorem Config_MatchStandaloneJSON_eq :
    Config_MatchStandaloneJSON io st tp caller run validate takeJSON c t input ms =
      matchStandaloneJSON io st tp caller run validate takeJSON (withJSONExt c) t input ms := by
  unfold Config_MatchStandaloneJSON withJSONExt
  by_cases h : c.extension = []
  · simp [h]
  · simp [h]

theorem MatchStandaloneJSON_eq :
    MatchStandaloneJSON io st tp caller run validate takeJSON t input ms =
      matchStandaloneJSON io st tp caller run validate takeJSON (withJSONExt {}) t input ms := by
  unfold MatchStandaloneJSON withJSONExt
  simp

/-- the default extension only applies when none was configured, and changes nothing else -/
theorem withJSONExt_spec :
    (withJSONExt c).extension = (if c.extension = [] then [46, 106, 115, 111, 110] else c.extension) ∧
    (withJSONExt c).filename = c.filename ∧ (withJSONExt c).snapsDir = c.snapsDir ∧
    (withJSONExt c).update = c.update := by
  unfold withJSONExt
  by_cases h : c.extension = [] <;> simp [h]

/-- the generated ".json" literal is the extracted constant -/
example : ([46, 106, 115, 111, 110] : Text) = Generated.saJSONExt := by decide
end

/-! ## Config options (snaps/snapshot.go `Update`, `Filename`, `Dir`, `Ext`, `WithConfig`)

An option is a function `Cfg → Cfg` (the Go closure writes one field of the Config it is handed).
`WithConfig` starts from the package default and applies the options in order: the Config it returns
depends on its arguments only — property C12 "Configs built by WithConfig are independent of each
other and of the package-level defaults". -/

theorem Update_eq (u : Bool) (c : Cfg) : Update u c = { c with update := some u } := rfl
theorem Filename_eq (n : Text) (c : Cfg) : Filename n c = { c with filename := n } := rfl
theorem Dir_eq (d : Text) (c : Cfg) : Dir d c = { c with snapsDir := d } := rfl
theorem Ext_eq (e : Text) (c : Cfg) : Ext e c = { c with extension := e } := rfl

theorem forIn_apply_opts (opts : List (Cfg → Cfg)) (c : Cfg) :
    forIn (m := Id) opts c (fun o r => pure (ForInStep.yield (o r))) = pure (opts.foldl (fun c o => o c) c) := by
  induction opts generalizing c with
  | nil => rfl
  | cons o os ih => simp [ih]

/-- **`WithConfig` is a fold over its arguments, starting from the default Config** -/
theorem WithConfig_eq (opts : List (Cfg → Cfg)) : WithConfig opts = opts.foldl (fun c o => o c) {} := by
  unfold WithConfig
  simp only [Id.run, bind, pure]
  have := forIn_apply_opts opts {}
  simp only [pure] at this
  exact this

/-- later options win, field by field; an option leaves the other fields alone -/
example : WithConfig [Dir [97], Filename [98], Dir [99]] = { filename := [98], snapsDir := [99] } := by decide
example : (WithConfig [Update false]).update = some false ∧ (WithConfig [Update false]).snapsDir = Generated.defaultSnapsDir := by
  decide

end GoSnaps.Tie
