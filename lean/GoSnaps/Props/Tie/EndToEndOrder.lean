/-
C10 / C07 / C09 end to end, the order hypothesis discharged from the INPUTS.

`Tie/EndToEndClean.goRun_fileAfter` proves that ANY history of the transliterated flows leaves a well-formed
snapshot file, but hands the totality of `natural.Less` on the ids of that file on to its caller
(`sortOpt = true → TotalOn (es.map tidOf)`): the one field of `FileAfter` that was not discharged from
hypotheses about the inputs.  With `Props/C10Order` (the natural order is a strict total order on ids whose
digit runs are canonical numerals) it follows from: canonical ids in the initial file, canonical names of the
called tests, and no ordinal of 10^19 or more in the file.  The end-to-end theorems of `Tie/EndToEndClean`,
`EndToEndClean2`, `EndToEndSkip` take `FileAfter` as their hypothesis, so they apply as they are.
-/
import GoSnaps.Props.Tie.EndToEndClean
import GoSnaps.Props.C10Order
namespace GoSnaps.Tie
open GoSnaps GoSnaps.GoIO
open GoSnaps.Generated.FuncsIO
open GoSnaps.C06Refine GoSnaps.Wld GoSnaps.CleanWorld
open GoSnaps.C01World (Step Scoped calledNames texts entriesFrom entriesOf headers Inv)
open GoSnaps.C03 (testID)
open GoSnaps.Generated (Env shouldCreate shouldUpdate)
open GoSnaps.NatOrd (Canon)

/-- `goRun_fileAfter` for EVERY sort option: after any history, in any mix of modes, the file is as the
    `Clean` theorems need it — sorting included — when the ids in play are canonical -/
theorem goRun_fileAfter_canon (env : Env) (fs₀ : FS) (c : Cfg) (caller p rel : Text) (es₀ : List Entry)
    (h : List Step)
    (hsp : ∀ t, snapshotPath c caller t false = (p, some rel))
    (hfile : Holds fs₀ p es₀) (hgood : Good es₀)
    (hns : NoShadowAll es₀ (calledNames h) (texts h))
    (hrec₀ : ∀ e ∈ es₀, Recognised e)
    (htest : ∀ t ∈ calledNames h, (32 : Byte) ∉ t)
    (hce : fsRead fs₀ p ≠ none ∨ shouldCreate env c.update = true)
    (hcan₀ : ∀ e ∈ es₀, Canon (tidOf e)) (hcanN : ∀ t ∈ calledNames h, Canon t) :
    ∃ st1 es, goRun IOFail.never c caller (freshSt env fs₀) h = some st1 ∧
      FileInv es₀ (calledNames h) (texts h) es ∧
      ((∀ o ∈ es, ∀ t k, o.id = testID t k → k < 10 ^ 19) → ∀ sortOpt, FileAfter st1.fs p es h sortOpt) := by
  obtain ⟨st1, es, hrun, hinv, hfa⟩ := goRun_fileAfter env fs₀ c caller p rel es₀ h hsp hfile hgood hns hrec₀ htest hce
  exact ⟨st1, es, hrun, hinv, fun hk sortOpt =>
    hfa sortOpt (fun _ => C10Order.totalOn_of_fileInv hinv hcan₀ hcanN hk)⟩

end GoSnaps.Tie
