/-
Tie by proof, part 11: from single calls to HISTORIES — the history theorems of
`Props/C01World.lean` (and history versions of the call theorems of `C02World.lean`, `C04World.lean`)
as statements about the TRANSLITERATED code of `Generated/FuncsIO.lean`.

§1  `runCleanups st id`: what `testing.T` number `id` does when it ends — it runs the closures passed to
    `t.Cleanup`, last registered first: `syncRegistry_reset` / `syncStandaloneRegistry_reset` (the
    transliterations) — and forgets them.  `runCleanups_tied`: from related states it does not panic and
    is the model's `endTest`.  `runCleanupList_order`: the order in which the closures run does not
    matter (each writes 0 to its own key), stated about the transliterated code alone.
§2  `goStep` / `goRun`: a history (`C01World.Step`) executed by the transliterations `matchJSON`,
    `matchYAML` and `runCleanups`.
§3  `goStep_simulates`, `goRun_simulates`: under `IOFail.never`, from related states, whenever the model
    covers the calls, `goRun` does not panic, ends in a state related to the model's `C01World.run`, and
    has reported the model's events, in order.
§4  the transfer: `go_replay_history` (C01), `go_mismatch_history` (C02), `go_update_history` (C04).
§5  a concrete history.

## How a model step is executed (the choice made for escaped-mode calls)

The model's `Step.call t s cmp x` carries the snapshot text `s` AFTER formatting and escaping.
* `.raw` (MatchJSON): `matchJSON … ⟨t, x⟩ s []` with a validation that accepts the input as it is, no
  matchers and the identity as formatter: the call stores / compares exactly `s` (`docPre_plain`).
* `.escaped` (MatchYAML, MatchSnapshot): `matchYAML … ⟨t, x⟩ (unescape s) []` — the document whose stored
  form is `s`.  This needs `escape (unescape s) = s` (`StepOK`), which holds for every text without a
  line "---" (`escape_unescape_of_escaped`), in particular for every `GoodBody` — a hypothesis of all
  the model's history theorems — so the transferred theorems have exactly the model theorems'
  hypotheses (`HistOK_of_bodies`).  Conversely every call the test code can make is such a step:
  `MatchYAML(t, d)` is the step `.call t (escape d) .escaped x` (`goStep_of_matchYAML`: the flow looks at
  `escape d` only) and `MatchSnapshot(t, vals…)` with at least one value is the step
  `.call t (escape (unlines vals)) .escaped x` (`goStep_of_matchSnapshot`), for every failure oracle.

Build mode: `trimpath = false` (the model's).
-/
import GoSnaps.Props.Tie.Flows
import GoSnaps.Props.Tie.Registry
import GoSnaps.Props.C01World
import GoSnaps.Props.C02World
import GoSnaps.Props.C04World
namespace GoSnaps.Tie
open GoSnaps GoSnaps.GoIO
open GoSnaps.Generated.FuncsIO
open GoSnaps.C06Refine GoSnaps.Wld
open GoSnaps.C01World (Step Scoped calledNames texts entriesFrom entriesOf headers Inv)
open GoSnaps.C03 (testID)
open GoSnaps.Generated (Env shouldCreate shouldUpdate)

/-! ## 1. running the cleanups of a `testing.T` -/

/-- one closure passed to `t.Cleanup`, run: `registry.reset(snapPath, t.Name())` resp.
    `standaloneTestsRegistry.reset(snapPath)`; `none` = panic -/
def runCleanup (st : St) : Cleanup → Option St
  | .resetReg p n => (syncRegistry_reset st.reg p n).map fun r => { st with reg := r }
  | .resetSReg p => some { st with sreg := syncStandaloneRegistry_reset st.sreg p }

/-- closures run one after the other, head first -/
def runCleanupList : St → List Cleanup → Option St
  | st, [] => some st
  | st, c :: cs => (runCleanup st c).bind fun s => runCleanupList s cs

/-- the end of test execution `id`: its cleanups run, last registered first (`St.tCleanup` conses, so
    that is the order of `st.cleanups`; the model's `endTest` folds over `pending` in the same order),
    and are dropped -/
def runCleanups (st : St) (id : Nat) : Option St :=
  (runCleanupList st ((st.cleanups.filter (·.1 = id)).map (·.2))).map
    fun s => { s with cleanups := st.cleanups.filter (·.1 ≠ id) }

theorem pendOf_fst (ic : Nat × Cleanup) : (pendOf ic).1 = ic.1 := by
  obtain ⟨i, c⟩ := ic
  cases c <;> rfl

theorem filter_map_pendOf (l : List (Nat × Cleanup)) (x : Nat) :
    (l.filter (·.1 = x)).map pendOf = (l.map pendOf).filter (·.1 = x) := by
  rw [List.filter_map]
  congr 2
  funext ic
  simp [pendOf_fst]

theorem filter_ne_map_pendOf (l : List (Nat × Cleanup)) (x : Nat) :
    (l.filter (·.1 ≠ x)).map pendOf = (l.map pendOf).filter (·.1 ≠ x) := by
  rw [List.filter_map]
  congr 2
  funext ic
  simp [pendOf_fst]

/-- **one cleanup**: from related states, given that `running[snapPath]` exists (`StRel.resetOK`), the
    closure does not panic and is one `resetStep` of the model's `endTest` -/
theorem runCleanup_tied {st : St} {w : World} (h : StRel st w) (i : Nat) (c : Cleanup)
    (hc : ∀ p n, c = .resetReg p n → map2Has st.reg.running p = true) :
    ∃ st', runCleanup st c = some st' ∧ StRel st' (resetStep w (pendOf (i, c))) ∧
      st'.tev = st.tev ∧ st'.cleanups = st.cleanups ∧ st'.fs = st.fs ∧
      ∀ q, map2Has st'.reg.running q = map2Has st.reg.running q := by
  cases c with
  | resetReg p n =>
    obtain ⟨r', e, hr, _, hhas⟩ :=
      syncRegistry_reset_tied st.reg w.running w.cleanup p n h.reg (hc p n rfl)
    refine ⟨{ st with reg := r' }, ?_, ?_, rfl, rfl, rfl, hhas⟩
    · simp [runCleanup, e]
    · exact ⟨h.env, h.fs, hr, h.sreg, h.erred, h.added, h.updated, h.passed, h.skipped, h.pending,
        fun i q m hm => by rw [hhas]; exact h.resetOK i q m hm⟩
  | resetSReg p =>
    refine ⟨{ st with sreg := syncStandaloneRegistry_reset st.sreg p }, rfl, ?_, rfl, rfl, rfl,
      fun _ => rfl⟩
    exact ⟨h.env, h.fs, h.reg, syncStandaloneRegistry_reset_tied _ _ _ p h.sreg, h.erred, h.added,
      h.updated, h.passed, h.skipped, h.pending, h.resetOK⟩

/-- a list of cleanups: the model's fold of `resetStep` -/
theorem runCleanupList_tied (l : List (Nat × Cleanup)) : ∀ (st : St) (w : World), StRel st w →
    (∀ i p n, (i, Cleanup.resetReg p n) ∈ l → map2Has st.reg.running p = true) →
    ∃ st', runCleanupList st (l.map (·.2)) = some st' ∧
      StRel st' ((l.map pendOf).foldl resetStep w) ∧
      st'.tev = st.tev ∧ st'.cleanups = st.cleanups ∧ st'.fs = st.fs := by
  induction l with
  | nil => intro st w h _; exact ⟨st, rfl, h, rfl, rfl, rfl⟩
  | cons ic l ih =>
    intro st w h hok
    obtain ⟨i, c⟩ := ic
    obtain ⟨s1, e1, h1, t1, c1, f1, has1⟩ := runCleanup_tied h i c (fun p n hc => by
      subst hc; exact hok i p n (by simp))
    obtain ⟨s2, e2, h2, t2, c2, f2⟩ := ih s1 _ h1 (fun j p n hm => by
      rw [has1]; exact hok j p n (List.mem_cons_of_mem _ hm))
    refine ⟨s2, ?_, ?_, t2.trans t1, c2.trans c1, f2.trans f1⟩
    · simp only [List.map_cons, runCleanupList, e1, Option.bind_some]; exact e2
    · simpa only [List.map_cons, List.foldl_cons] using h2

/-- **Tie**: the cleanups of `testing.T` number `id`, run on the transliterated registries, do not panic
    from a state related to a world of the model, are the model's `endTest`, and report nothing -/
theorem runCleanups_tied {st : St} {w : World} (h : StRel st w) (id : Nat) :
    ∃ st', runCleanups st id = some st' ∧ StRel st' (endTest w id) ∧ st'.tev = st.tev := by
  obtain ⟨s1, e1, h1, t1, c1, _⟩ := runCleanupList_tied (st.cleanups.filter (·.1 = id)) st w h
    (fun i p n hm => h.resetOK i p n (List.mem_filter.mp hm).1)
  refine ⟨{ s1 with cleanups := st.cleanups.filter (·.1 ≠ id) }, ?_, ?_, t1⟩
  · simp only [runCleanups, e1, Option.map_some]
  · have hW : (st.cleanups.filter (·.1 = id)).map pendOf = w.pending.filter (·.1 = id) := by
      rw [filter_map_pendOf, h.pending]
    rw [hW] at h1
    rw [endTest_eq]
    exact ⟨h1.env, h1.fs, h1.reg, h1.sreg, h1.erred, h1.added, h1.updated, h1.passed, h1.skipped,
      by rw [resetFold_pending, ← h.pending]; exact filter_ne_map_pendOf _ _,
      fun i p n hm => h1.resetOK i p n (by rw [c1]; exact (List.mem_filter.mp hm).1)⟩

/-- the end of a test execution does not touch the file system -/
theorem runCleanups_fs {st st' : St} {id : Nat} (e : runCleanups st id = some st')
    {w : World} (h : StRel st w) : st'.fs = st.fs := by
  obtain ⟨s1, e1, _, _, _, f1⟩ := runCleanupList_tied (st.cleanups.filter (·.1 = id)) st w h
    (fun i p n hm => h.resetOK i p n (List.mem_filter.mp hm).1)
  simp only [runCleanups, e1, Option.map_some, Option.some.injEq] at e
  rw [← e]; exact f1

/-! ### the order of the cleanups does not matter (about the transliterated code alone)

Every closure writes 0 to its own key of `running` and nothing else, so the outcome of running a list of
closures — whether one of them panics, and every counter afterwards — depends only on WHICH closures are
in the list.  (The maps are association lists, so "the same" is: every read gives the same answer.) -/

/-- what running cleanups leaves alone -/
structure CleanupFrame (st st' : St) : Prop where
  env : st'.env = st.env
  fs : st'.fs = st.fs
  events : st'.events = st.events
  skipped : st'.skipped = st.skipped
  cleanups : st'.cleanups = st.cleanups
  tev : st'.tev = st.tev
  stdout : st'.stdout = st.stdout
  cleanup : st'.reg.cleanup = st.reg.cleanup
  scleanup : st'.sreg.cleanup = st.sreg.cleanup
  has : ∀ q, map2Has st'.reg.running q = map2Has st.reg.running q

theorem CleanupFrame.refl (st : St) : CleanupFrame st st :=
  ⟨rfl, rfl, rfl, rfl, rfl, rfl, rfl, rfl, rfl, fun _ => rfl⟩

theorem CleanupFrame.trans {a b c : St} (h1 : CleanupFrame a b) (h2 : CleanupFrame b c) : CleanupFrame a c :=
  ⟨h2.env.trans h1.env, h2.fs.trans h1.fs, h2.events.trans h1.events, h2.skipped.trans h1.skipped,
    h2.cleanups.trans h1.cleanups, h2.tev.trans h1.tev, h2.stdout.trans h1.stdout,
    h2.cleanup.trans h1.cleanup, h2.scleanup.trans h1.scleanup, fun q => (h2.has q).trans (h1.has q)⟩

/-- a closure that does not panic found its inner map -/
theorem runCleanup_some_has {st st' : St} {p n : Text} (e : runCleanup st (.resetReg p n) = some st') :
    map2Has st.reg.running p = true := by
  cases hh : map2Has st.reg.running p with
  | true => rfl
  | false =>
    rw [runCleanup, syncRegistry_reset_panics _ _ _ hh] at e
    cases e

/-- one closure: its own counter becomes 0, every other read is as before -/
theorem runCleanup_spec {st st' : St} {c : Cleanup} (e : runCleanup st c = some st') :
    CleanupFrame st st' ∧
    (∀ p n, map2Get st'.reg.running p n = if c = .resetReg p n then 0 else map2Get st.reg.running p n) ∧
    (∀ p, map1Get st'.sreg.running p = if c = .resetSReg p then 0 else map1Get st.sreg.running p) := by
  cases c with
  | resetReg p n =>
    cases hr : syncRegistry_reset st.reg p n with
    | none => rw [runCleanup, hr] at e; cases e
    | some r' =>
      rw [runCleanup, hr] at e
      simp only [Option.map_some, Option.some.injEq] at e
      subst e
      obtain ⟨h0, hother, hcl⟩ := syncRegistry_reset_isolated _ _ _ _ hr
      refine ⟨⟨rfl, rfl, rfl, rfl, rfl, rfl, rfl, hcl, rfl,
        fun q => syncRegistry_reset_has _ _ _ _ q hr⟩, fun p' n' => ?_, fun p' => ?_⟩
      · by_cases hk : (p', n') = (p, n)
        · obtain ⟨rfl, rfl⟩ := Prod.mk.inj hk
          simp [h0]
        · have : ¬ (Cleanup.resetReg p n = Cleanup.resetReg p' n') := fun h => by
            injection h with a b; exact hk (by rw [a, b])
          simp only [this, ↓reduceIte]
          exact hother p' n' hk
      · simp
  | resetSReg p =>
    simp only [runCleanup, Option.some.injEq] at e
    subst e
    obtain ⟨h0, hother, hcl⟩ := syncStandaloneRegistry_reset_isolated st.sreg p
    refine ⟨⟨rfl, rfl, rfl, rfl, rfl, rfl, rfl, rfl, hcl, fun _ => rfl⟩, fun p' n' => by simp, fun p' => ?_⟩
    by_cases hk : p' = p
    · subst hk; simp [h0]
    · have : ¬ (Cleanup.resetSReg p = Cleanup.resetSReg p') := fun h => by
        injection h with a; exact hk a.symm
      simp only [this, ↓reduceIte]
      exact hother p' hk

/-- a list of closures, in any order: the counters of the closures in the list are 0, every other read is
    as before -/
theorem runCleanupList_spec (l : List Cleanup) : ∀ {st st' : St}, runCleanupList st l = some st' →
    CleanupFrame st st' ∧
    (∀ p n, map2Get st'.reg.running p n =
      if Cleanup.resetReg p n ∈ l then 0 else map2Get st.reg.running p n) ∧
    (∀ p, map1Get st'.sreg.running p =
      if Cleanup.resetSReg p ∈ l then 0 else map1Get st.sreg.running p) := by
  induction l with
  | nil =>
    intro st st' e
    simp only [runCleanupList, Option.some.injEq] at e
    subst e
    exact ⟨CleanupFrame.refl _, fun _ _ => by simp, fun _ => by simp⟩
  | cons c cs ih =>
    intro st st' e
    cases h1 : runCleanup st c with
    | none => rw [runCleanupList, h1] at e; cases e
    | some s1 =>
      rw [runCleanupList, h1] at e
      simp only [Option.bind_some] at e
      obtain ⟨f1, r1, s1'⟩ := runCleanup_spec h1
      obtain ⟨f2, r2, s2'⟩ := ih e
      refine ⟨f1.trans f2, fun p n => ?_, fun p => ?_⟩
      · rw [r2, r1]
        by_cases hm : Cleanup.resetReg p n ∈ cs
        · simp [hm]
        · by_cases hc : c = Cleanup.resetReg p n
          · simp [hc]
          · have : ¬ (Cleanup.resetReg p n = c) := fun h => hc h.symm
            simp [hm, hc, this]
      · rw [s2', s1']
        by_cases hm : Cleanup.resetSReg p ∈ cs
        · simp [hm]
        · by_cases hc : c = Cleanup.resetSReg p
          · simp [hc]
          · have : ¬ (Cleanup.resetSReg p = c) := fun h => hc h.symm
            simp [hm, hc, this]

/-- a list of closures panics exactly when one of them is a reset for a path on which `getTestID` was
    never called — in any order -/
theorem runCleanupList_none_iff (l : List Cleanup) : ∀ st : St, runCleanupList st l = none ↔
    ∃ p n, Cleanup.resetReg p n ∈ l ∧ map2Has st.reg.running p = false := by
  induction l with
  | nil => intro st; simp [runCleanupList]
  | cons c cs ih =>
    intro st
    cases h1 : runCleanup st c with
    | none =>
      simp only [runCleanupList, h1, Option.bind_none, true_iff]
      cases c with
      | resetReg p n =>
        refine ⟨p, n, by simp, ?_⟩
        cases hr : syncRegistry_reset st.reg p n with
        | none => exact (syncRegistry_reset_panics_iff _ _ _).mp hr
        | some r' => rw [runCleanup, hr] at h1; cases h1
      | resetSReg p => cases h1
    | some s1 =>
      simp only [runCleanupList, h1, Option.bind_some]
      rw [ih s1]
      have hf := (runCleanup_spec h1).1
      constructor
      · rintro ⟨p, n, hm, hh⟩
        exact ⟨p, n, List.mem_cons_of_mem _ hm, by rw [← hf.has]; exact hh⟩
      · rintro ⟨p, n, hm, hh⟩
        rcases List.mem_cons.mp hm with heq | hm
        · subst heq
          rw [runCleanup_some_has h1] at hh
          cases hh
        · exact ⟨p, n, hm, by rw [hf.has]; exact hh⟩

/-- two states in which every read of a registry gives the same answer and everything else is equal -/
structure SameRegs (a b : St) : Prop where
  running : ∀ p n, map2Get a.reg.running p n = map2Get b.reg.running p n
  has : ∀ p, map2Has a.reg.running p = map2Has b.reg.running p
  cleanup : a.reg.cleanup = b.reg.cleanup
  srunning : ∀ p, map1Get a.sreg.running p = map1Get b.sreg.running p
  scleanup : a.sreg.cleanup = b.sreg.cleanup
  env : a.env = b.env
  fs : a.fs = b.fs
  events : a.events = b.events
  skipped : a.skipped = b.skipped
  cleanups : a.cleanups = b.cleanups
  tev : a.tev = b.tev
  stdout : a.stdout = b.stdout

/-- **the order of the cleanups does not matter**: two lists with the same closures (in particular a list
    and its reverse — first registered first — or any permutation) panic together, and otherwise end in
    states that agree on every read of the registries and are equal elsewhere -/
theorem runCleanupList_order (st : St) (l1 l2 : List Cleanup) (hmem : ∀ c, c ∈ l1 ↔ c ∈ l2) :
    (runCleanupList st l1 = none ↔ runCleanupList st l2 = none) ∧
    ∀ a b, runCleanupList st l1 = some a → runCleanupList st l2 = some b → SameRegs a b := by
  constructor
  · rw [runCleanupList_none_iff, runCleanupList_none_iff]
    simp only [hmem]
  · intro a b ea eb
    obtain ⟨fa, ra, sa⟩ := runCleanupList_spec l1 ea
    obtain ⟨fb, rb, sb⟩ := runCleanupList_spec l2 eb
    refine ⟨fun p n => ?_, fun p => (fa.has p).trans (fb.has p).symm, fa.cleanup.trans fb.cleanup.symm,
      fun p => ?_, fa.scleanup.trans fb.scleanup.symm, fa.env.trans fb.env.symm, fa.fs.trans fb.fs.symm,
      fa.events.trans fb.events.symm, fa.skipped.trans fb.skipped.symm, fa.cleanups.trans fb.cleanups.symm,
      fa.tev.trans fb.tev.symm, fa.stdout.trans fb.stdout.symm⟩
    · rw [ra, rb]; simp only [hmem]
    · rw [sa, sb]; simp only [hmem]

/-- in particular: first registered first -/
theorem runCleanupList_reverse (st : St) (l : List Cleanup) :
    (runCleanupList st l = none ↔ runCleanupList st l.reverse = none) ∧
    ∀ a b, runCleanupList st l = some a → runCleanupList st l.reverse = some b → SameRegs a b :=
  runCleanupList_order st l l.reverse (fun _ => List.mem_reverse.symm)

/-- the simulation relation only reads the registries, so it cannot tell such states apart: the tie
    `runCleanups_tied` holds for every order in which the closures are run -/
theorem StRel.of_sameRegs {a b : St} {w : World} (hs : SameRegs a b) (h : StRel a w) : StRel b w :=
  ⟨hs.env ▸ h.env, hs.fs ▸ h.fs,
    ⟨fun p n => by rw [← hs.running]; exact h.reg.running p n,
     fun p n => by rw [← hs.cleanup]; exact h.reg.cleanup p n,
     fun p => by rw [← hs.has, ← hs.cleanup]; exact h.reg.has p⟩,
    ⟨fun p => by rw [← hs.srunning]; exact h.sreg.running p,
     fun p => by rw [← hs.scleanup]; exact h.sreg.cleanup p⟩,
    hs.events ▸ h.erred, hs.events ▸ h.added, hs.events ▸ h.updated, hs.events ▸ h.passed,
    hs.skipped ▸ h.skipped, hs.cleanups ▸ h.pending,
    fun i p n hm => by rw [← hs.has]; exact h.resetOK i p n (by rw [hs.cleanups]; exact hm)⟩

/-! ## 2. a history, executed by the transliterations -/

/-- a document that passes validation unchanged, no matchers, a formatter `render`: the snapshot text is
    `render input` -/
theorem docPre_plain (render : Text → Text) (input : Text) :
    docPre (fun i => (i, Err.nil)) (fun _ d => (d, [])) render input [] = .ok (render input) := by
  simp [docPre, applyMatchers, Err.notNil]

/-- **one step of a history on the transliteration side** (`none` = panic).
    `.call t s .raw x`: `MatchJSON` on `testing.T` `⟨t, x⟩` with the document `s` (valid as it is, no
    matchers, identity formatting); `.call t s .escaped x`: `MatchYAML` with the document `unescape s`,
    the document stored as `s` (see the header); `.done x`: the cleanups of `testing.T` number `x` run. -/
def goStep (io : IOFail) (c : Cfg) (caller : Text) (st : St) : Step → Option St
  | .call t s .raw x =>
    matchJSON io st false caller (fun _ d => (d, [])) (fun i => (i, Err.nil)) (fun _ j => j) c ⟨t, x⟩ s []
  | .call t s .escaped x =>
    matchYAML io st false caller (fun _ d => (d, [])) (fun i => (i, Err.nil)) c ⟨t, x⟩ (unescape s) []
  | .done x => runCleanups st x

/-- a history, step by step; a panic ends the run -/
def goRun (io : IOFail) (c : Cfg) (caller : Text) : St → List Step → Option St
  | st, [] => some st
  | st, s :: h => (goStep io c caller st s).bind fun st' => goRun io c caller st' h

theorem goRun_append (io : IOFail) (c : Cfg) (caller : Text) (h1 h2 : List Step) : ∀ st : St,
    goRun io c caller st (h1 ++ h2) = (goRun io c caller st h1).bind fun st' => goRun io c caller st' h2 := by
  induction h1 with
  | nil => intro st; rfl
  | cons s h1 ih =>
    intro st
    simp only [List.cons_append, goRun]
    cases goStep io c caller st s with
    | none => rfl
    | some st' => simp only [Option.bind_some]; exact ih st'

/-- the escaped-mode text of a step is the stored form of some document (of `unescape s`) -/
def StepOK : Step → Prop
  | .call _ s .escaped _ => escape (unescape s) = s
  | _ => True

def HistOK (h : List Step) : Prop := ∀ s ∈ h, StepOK s

instance : ∀ s : Step, Decidable (StepOK s)
  | .call _ s .escaped _ => inferInstanceAs (Decidable (escape (unescape s) = s))
  | .call _ _ .raw _ => isTrue trivial
  | .done _ => isTrue trivial

instance (h : List Step) : Decidable (HistOK h) := by unfold HistOK; infer_instance

/-- a text without a line "---" is the stored form of the document `unescape s` -/
theorem escape_unescape_of_escaped (s : Text) (h : Escaped s) : escape (unescape s) = s := by
  unfold escape unescape
  rw [C02.escapeFrom_eq, C02.unescapeFrom_eq, C02.unescapeTo_eq, mapLines_mapLines _ _ _ _ C02.end_noNL]
  have : (lines s).map (fun l => lineMap Generated.endSeq Generated.escapeTo
      (lineMap Generated.escapeTo Generated.endSeq l)) = lines s := by
    conv => rhs; rw [← List.map_id (lines s)]
    apply List.map_congr_left
    intro l hl
    have hne : l ≠ Generated.endSeq := fun e => h (by subst e; exact hl)
    unfold lineMap
    by_cases h2 : l = Generated.escapeTo
    · simp [h2]
    · simp [h2, hne]
  rw [this, unlines_lines]

/-- the stored form of any document is such a text -/
theorem escape_unescape_escape (d : Text) : escape (unescape (escape d)) = escape d :=
  escape_unescape_of_escaped _ (escape_escaped d)

/-- the hypothesis `hbodies` of the model's history theorems gives `HistOK` -/
theorem HistOK_of_bodies (h : List Step) (hb : ∀ s ∈ texts h, GoodBody s) : HistOK h := by
  induction h with
  | nil => intro s hs; cases hs
  | cons st h ih =>
    intro s hs
    rcases List.mem_cons.mp hs with rfl | hs
    · cases s with
      | call t txt cmp x =>
        cases cmp with
        | raw => trivial
        | escaped => exact escape_unescape_of_escaped txt (hb txt (by simp [texts])).1
      | done x => trivial
    · refine ih (fun s' hs' => hb s' ?_) s hs
      cases st <;> simp [texts, hs']

theorem HistOK.append {h1 h2 : List Step} (a : HistOK h1) (b : HistOK h2) : HistOK (h1 ++ h2) :=
  fun s hs => (List.mem_append.mp hs).elim (a s) (b s)

theorem HistOK.left {h1 h2 : List Step} (a : HistOK (h1 ++ h2)) : HistOK h1 :=
  fun s hs => a s (List.mem_append.mpr (Or.inl hs))

theorem HistOK.right {h1 h2 : List Step} (a : HistOK (h1 ++ h2)) : HistOK h2 :=
  fun s hs => a s (List.mem_append.mpr (Or.inr hs))

/-! ### every call the test code can make is a step -/

/-- `MatchYAML(t, d)` (valid document, no matchers) is the step `.call t (escape d) .escaped x`, for every
    failure oracle: the flow looks at `escape d` only -/
theorem goStep_of_matchYAML (io : IOFail) (c : Cfg) (caller : Text) (st : St) (t d : Text) (x : Nat) :
    matchYAML io st false caller (fun _ d => (d, [])) (fun i => (i, Err.nil)) c ⟨t, x⟩ d [] =
      goStep io c caller st (.call t (escape d) .escaped x) := by
  simp only [goStep, matchYAML_eq, docPre_plain, escape_unescape_escape]

/-- `MatchSnapshot(t, vals…)` with at least one value is the step
    `.call t (escape (unlines vals)) .escaped x`, for every failure oracle -/
theorem goStep_of_matchSnapshot (io : IOFail) (c : Cfg) (caller : Text) (st : St) (t : Text) (vals : List Text)
    (x : Nat) (hv : vals ≠ []) :
    matchSnapshot io st false caller c ⟨t, x⟩ vals =
      goStep io c caller st (.call t (escape (unlines vals)) .escaped x) := by
  simp only [goStep, matchSnapshot_eq, if_neg hv, matchYAML_eq, docPre_plain, escape_unescape_escape]
  rfl

/-- `MatchJSON(t, d)` (valid document, no matchers, identity formatting) is the step `.call t d .raw x` -/
theorem goStep_of_matchJSON (io : IOFail) (c : Cfg) (caller : Text) (st : St) (t d : Text) (x : Nat) :
    matchJSON io st false caller (fun _ d => (d, [])) (fun i => (i, Err.nil)) (fun _ j => j) c ⟨t, x⟩ d [] =
      goStep io c caller st (.call t d .raw x) := rfl

/-! ## 3. the simulation, lifted to histories -/

/-- **one step**: under `IOFail.never`, from related states, whenever the model covers the step, the
    transliteration does not panic, does the model's step and reports the model's events -/
theorem goStep_simulates {st : St} {w : World} (h : StRel st w) (c : Cfg) (caller : Text) (s : Step)
    (hok : StepOK s) (hs : ∀ o ∈ (C01World.step c caller w s).2, o.unsupported = none) :
    ∃ st', goStep IOFail.never c caller st s = some st' ∧ StRel st' (C01World.step c caller w s).1 ∧
      st'.tev = st.tev ++ ((C01World.step c caller w s).2.map (·.events)).flatten := by
  cases s with
  | call t txt cmp x =>
    have hs' : (matchEntry w c caller t x cmp (.ok txt)).2.unsupported = none :=
      hs _ (by simp [C01World.step])
    cases cmp with
    | raw =>
      obtain ⟨st', e, h1, h2⟩ := matchJSON_tied st w h caller (fun _ d => (d, [])) (fun i => (i, Err.nil))
        (fun _ j => j) c ⟨t, x⟩ txt [] (matchEntry w c caller t x .raw (.ok txt)).1
        (matchEntry w c caller t x .raw (.ok txt)).2 (by rw [docPre_plain]) hs'
      exact ⟨st', e, h1, by simpa [C01World.step] using h2⟩
    | escaped =>
      have hok' : escape (unescape txt) = txt := hok
      obtain ⟨st', e, h1, h2⟩ := matchYAML_tied st w h caller (fun _ d => (d, [])) (fun i => (i, Err.nil))
        c ⟨t, x⟩ (unescape txt) [] (matchEntry w c caller t x .escaped (.ok txt)).1
        (matchEntry w c caller t x .escaped (.ok txt)).2 (by rw [docPre_plain, hok']) hs'
      exact ⟨st', e, h1, by simpa [C01World.step] using h2⟩
  | done x =>
    obtain ⟨st', e, h1, h2⟩ := runCleanups_tied h x
    exact ⟨st', e, h1, by simpa [C01World.step] using h2⟩

/-- **histories**: under `IOFail.never`, from related states, whenever the model covers every call of the
    history, `goRun` does not panic, ends in a state related to the world `C01World.run` ends in, and
    has reported to the `testing.T`s exactly the events of the model's outputs, in order -/
theorem goRun_simulates' (c : Cfg) (caller : Text) (h : List Step) : ∀ {st : St} {w : World}, StRel st w →
    HistOK h → (∀ o ∈ (C01World.run c caller w h).2, o.unsupported = none) →
    ∃ st', goRun IOFail.never c caller st h = some st' ∧ StRel st' (C01World.run c caller w h).1 ∧
      st'.tev = st.tev ++ ((C01World.run c caller w h).2.map (·.events)).flatten := by
  induction h with
  | nil => intro st w hr _ _; exact ⟨st, rfl, hr, by simp [C01World.run]⟩
  | cons s h ih =>
    intro st w hr hok hs
    simp only [C01World.run] at hs ⊢
    obtain ⟨s1, e1, r1, t1⟩ := goStep_simulates hr c caller s (hok s (by simp))
      (fun o ho => hs o (List.mem_append.mpr (Or.inl ho)))
    obtain ⟨s2, e2, r2, t2⟩ := ih r1 (fun s' hs' => hok s' (List.mem_cons_of_mem _ hs'))
      (fun o ho => hs o (List.mem_append.mpr (Or.inr ho)))
    refine ⟨s2, ?_, r2, ?_⟩
    · simp only [goRun, e1, Option.bind_some]; exact e2
    · rw [t2, t1]; simp

/-- the same in the form "the model's run gives `(w', outs)`" -/
theorem goRun_simulates {st : St} {w : World} (hr : StRel st w) (c : Cfg) (caller : Text) (h : List Step)
    (hok : HistOK h) (w' : World) (outs : List Out) (hrun : C01World.run c caller w h = (w', outs))
    (hs : ∀ o ∈ outs, o.unsupported = none) :
    ∃ st', goRun IOFail.never c caller st h = some st' ∧ StRel st' w' ∧
      st'.tev = st.tev ++ (outs.map (·.events)).flatten := by
  have := goRun_simulates' c caller h hr hok (by rw [hrun]; exact hs)
  rw [hrun] at this
  exact this

/-! ## 4. the history theorems, about the transliterated code

A run of the transliteration starts in the state `{ env := env, fs := fs }`: `newRegistry()`,
`newStandaloneRegistry()`, no event counted, no cleanup pending, nothing reported yet. -/

/-- the fresh state of a test process over the file system `fs` in environment `env` -/
abbrev freshSt (env : Env) (fs : FS) : St := { env := env, fs := fs }

theorem flatten_events_added (p : Text) (outs : List Out) (h : ∀ o ∈ outs, C01World.Added p o) :
    (outs.map (·.events)).flatten = List.replicate outs.length (.log Generated.go_addedMsg) := by
  induction outs with
  | nil => rfl
  | cons o outs ih =>
    simp only [List.map_cons, List.flatten_cons, (h o (by simp)).1, List.length_cons, List.replicate_succ]
    rw [ih (fun o' ho' => h o' (List.mem_cons_of_mem _ ho'))]
    rfl

theorem flatten_events_silent (outs : List Out) (h : ∀ o ∈ outs, C01World.Silent o) :
    (outs.map (·.events)).flatten = [] := by
  induction outs with
  | nil => rfl
  | cons o outs ih =>
    simp only [List.map_cons, List.flatten_cons, (h o (by simp)).1, List.nil_append]
    exact ih (fun o' ho' => h o' (List.mem_cons_of_mem _ ho'))

/-- **C01 for the transliterated code** (`C01World.replay_history` transferred; same hypotheses).

Run the history `h` with the transliterations from a fresh state over `fs₀` in a creating mode: no panic,
every call logs "added" (and nothing else is reported), the snapshot file `p` ends up holding the initial
entries followed by the history's, no other path changes.  Run `h` again from a fresh state over the
file system the first run left, in ANY environment and with ANY config that addresses the same file: no
panic, NOTHING is reported to any `testing.T`, and the file system is left exactly as it was. -/
theorem go_replay_history (env env' : Env) (c c' : Cfg) (caller caller' p rel rel' : Text)
    (fs₀ : FS) (es₀ : List Entry) (h : List Step)
    (hsp : ∀ t, snapshotPath c caller t false = (p, some rel))
    (hsp' : ∀ t, snapshotPath c' caller' t false = (p, some rel'))
    (hscoped : Scoped [] h)
    (hfile : Holds fs₀ p es₀) (hgood : Good es₀)
    (hfresh : ∀ id ∈ headers h, id ∉ fileLines es₀)
    (hnames : ∀ t ∈ calledNames h, NoNL t)
    (hbodies : ∀ s ∈ texts h, GoodBody s)
    (hns : ∀ s ∈ texts h, ∀ id ∈ ids es₀ ++ headers h, id ∉ lines s)
    (hcreate : shouldCreate env c.update = true) :
    ∃ rcd : St, goRun IOFail.never c caller (freshSt env fs₀) h = some rcd ∧
      rcd.tev = List.replicate (calledNames h).length (.log Generated.go_addedMsg) ∧
      Holds rcd.fs p (es₀ ++ entriesOf h) ∧ (∀ q, q ≠ p → fsRead rcd.fs q = fsRead fs₀ q) ∧
      ∃ rep : St, goRun IOFail.never c' caller' (freshSt env' rcd.fs) h = some rep ∧
        rep.tev = [] ∧ rep.fs = rcd.fs := by
  obtain ⟨m1, m2, _, m4, m5, m6, m7, _⟩ := C01World.replay_history env env' c c' caller caller' p rel rel'
    fs₀ es₀ h hsp hsp' hscoped hfile hgood hfresh hnames hbodies hns hcreate
  have hok := HistOK_of_bodies h hbodies
  obtain ⟨rcd, e1, r1, t1⟩ := goRun_simulates' c caller h (StRel_init env fs₀) hok
    (fun o ho => (m1 o ho).2.2.2)
  have hfs : rcd.fs = (C01World.recordRun env c caller fs₀ h).1.fs := r1.fs
  obtain ⟨rep, e2, r2, t2⟩ := goRun_simulates' c' caller' h
    (StRel_init env' (C01World.recordRun env c caller fs₀ h).1.fs) hok (fun o ho => (m5 o ho).2.2.2)
  refine ⟨rcd, e1, ?_, hfs ▸ m2, fun q hq => by rw [hfs]; exact m4 q hq, rep, by rw [hfs]; exact e2, ?_, ?_⟩
  · have ha := flatten_events_added p _ m1
    rw [m7] at ha
    rw [t1]; exact ha
  · rw [t2]; exact flatten_events_silent _ m5
  · rw [r2.fs, hfs]; exact m6

/-! ### histories in which ONE call receives a different text (model level)

`C02World.lean` and `C04World.lean` state their theorems for single calls.  Here they are lifted to
histories of the model with the machinery of `C01World.lean` (`Inv`, `Scoped`, `replay_run`): the
history is `h1 ++ call t s cmp x :: h2`, the file holds what `h1 ++ call t s₀ cmp x :: h2` recorded. -/

theorem calledNames_append (h1 h2 : List Step) :
    calledNames (h1 ++ h2) = calledNames h1 ++ calledNames h2 := by
  induction h1 with
  | nil => rfl
  | cons st h1 ih => cases st <;> simp [calledNames, ih]

theorem entriesFrom_append (h1 h2 : List Step) : ∀ seen,
    entriesFrom seen (h1 ++ h2) =
      entriesFrom seen h1 ++ entriesFrom ((calledNames h1).reverse ++ seen) h2 := by
  induction h1 with
  | nil => intro seen; rfl
  | cons st h1 ih =>
    intro seen
    cases st with
    | call t s cmp x => simp [entriesFrom, calledNames, ih]
    | done x => simp [entriesFrom, calledNames, ih]

/-- the entries of a history, split at one call -/
theorem entriesOf_split (h1 h2 : List Step) (t s : Text) (cmp : Cmp) (x : Nat) :
    entriesOf (h1 ++ .call t s cmp x :: h2) =
      entriesFrom [] h1 ++ ⟨testID t ((calledNames h1).count t + 1), s⟩ ::
        entriesFrom (t :: (calledNames h1).reverse) h2 := by
  simp [entriesOf, entriesFrom_append, entriesFrom]

theorem scoped_prefix (h1 h2 : List Step) : ∀ past, Scoped past (h1 ++ h2) → Scoped past h1 := by
  induction h1 with
  | nil => intro _ _; trivial
  | cons st h1 ih =>
    intro past hs
    cases st with
    | call t s cmp x => exact ih _ hs
    | done x =>
      have hs' : (∀ q ∈ past, q.2 = x → q.1 ∉ calledNames (h1 ++ h2)) ∧ Scoped past (h1 ++ h2) := hs
      refine ⟨fun q hq hx hm => hs'.1 q hq hx ?_, ih _ hs'.2⟩
      rw [calledNames_append]; exact List.mem_append_left _ hm

/-- `Scoped` looks at names and `testing.T`s only -/
theorem scoped_text_irrel (t s s' : Text) (cmp : Cmp) (x : Nat) (h2 h1 : List Step) : ∀ past,
    Scoped past (h1 ++ .call t s cmp x :: h2) → Scoped past (h1 ++ .call t s' cmp x :: h2) := by
  induction h1 with
  | nil => intro past hs; exact hs
  | cons st h1 ih =>
    intro past hs
    cases st with
    | call t₁ s₁ cmp₁ x₁ => exact ih _ hs
    | done x₁ =>
      have hs' : (∀ q ∈ past, q.2 = x₁ → q.1 ∉ calledNames (h1 ++ .call t s cmp x :: h2)) ∧
          Scoped past (h1 ++ .call t s cmp x :: h2) := hs
      refine ⟨fun q hq hx hm => hs'.1 q hq hx ?_, ih _ hs'.2⟩
      simpa [calledNames_append, calledNames] using hm

/-- **C02 for histories of the model**: the file holds a `Good` entry list containing what the history
    with `s₀` at one call recorded; replaying it with `s` there (`cmpText cmp s₀ ≠ cmpText cmp s`) in a
    mode that does not update reports exactly one event — the error carrying the (non-empty) diff of the
    two compared texts — and never touches the file system -/
theorem mismatch_run (c : Cfg) (caller p rel : Text)
    (hsp : ∀ t, snapshotPath c caller t false = (p, some rel)) (esAll : List Entry) (hgood : Good esAll)
    (t s s₀ : Text) (cmp : Cmp) (x : Nat) (h2 : List Step)
    (hne : cmpText cmp s₀ ≠ cmpText cmp s) (h1 : List Step) :
    ∀ (w : World) (past : List (Text × Nat)),
      Inv p w past (h1 ++ .call t s cmp x :: h2) → Scoped past (h1 ++ .call t s cmp x :: h2) →
      Holds w.fs p esAll →
      (∀ e ∈ entriesFrom (past.map Prod.fst) (h1 ++ .call t s₀ cmp x :: h2), e ∈ esAll) →
      shouldUpdate w.env c.update = false →
      (C01World.run c caller w (h1 ++ .call t s cmp x :: h2)).1.fs = w.fs ∧
      (∀ o ∈ (C01World.run c caller w (h1 ++ .call t s cmp x :: h2)).2,
        o.writes = [] ∧ o.removed = [] ∧ o.unsupported = none) ∧
      ∃ line, prettyDiff (cmpText cmp s₀) (cmpText cmp s) rel line ≠ [] ∧
        ((C01World.run c caller w (h1 ++ .call t s cmp x :: h2)).2.map (·.events)).flatten =
          [.error (prettyDiff (cmpText cmp s₀) (cmpText cmp s) rel line)] := by
  induction h1 with
  | nil =>
    intro w past hi hs hfile hall hu
    simp only [List.nil_append] at hi hs hall ⊢
    have hn : alGet w.running (p, t) = (past.map Prod.fst).count t := hi.ord t (by simp [calledNames])
    have hmem : (⟨testID t ((past.map Prod.fst).count t + 1), s₀⟩ : Entry) ∈ esAll :=
      hall _ (by simp [entriesFrom])
    obtain ⟨pre, post, hes⟩ := List.append_of_mem hmem
    obtain ⟨d1, e1, e2, e3, e4, e5, _⟩ := C02World.matchEntry_mismatch w c caller t x cmp s s₀ p rel pre post
      (hsp t) (by rw [hn, ← hes]; exact hfile) (by rw [hn, ← hes]; exact hgood) hne hu
    obtain ⟨r1, r2, _⟩ := C01World.replay_run c caller p rel hsp esAll hgood h2
      (matchEntry w c caller t x cmp (.ok s)).1 ((t, x) :: past) (hi.call c caller _ (hsp t)) hs
      (by rw [e5]; exact hfile)
      (fun e he => hall e (by simp only [entriesFrom]; exact List.mem_cons_of_mem _ he))
    simp only [C01World.run, C01World.step]
    refine ⟨r1.trans e5, ?_, _, d1, ?_⟩
    · intro o ho
      rcases List.mem_append.mp ho with ho | ho
      · rw [List.mem_singleton.mp ho]; exact ⟨e2, e3, e4⟩
      · exact ⟨(r2 o ho).2.1, (r2 o ho).2.2.1, (r2 o ho).2.2.2⟩
    · rw [List.map_append, List.flatten_append, flatten_events_silent _ r2]
      simp [e1]
  | cons st h1 ih =>
    intro w past hi hs hfile hall hu
    simp only [List.cons_append] at hi hs hall ⊢
    cases st with
    | call t₁ s₁ cmp₁ x₁ =>
      have hn : alGet w.running (p, t₁) = (past.map Prod.fst).count t₁ :=
        hi.ord t₁ (by simp [calledNames])
      obtain ⟨e1, e2, e3, e4, e5, e6⟩ := C01World.matchEntry_replay w c caller t₁ x₁ cmp₁ s₁ p rel esAll
        (hsp t₁) hfile hgood (by rw [hn]; exact hall _ (by simp [entriesFrom]))
      obtain ⟨r1, r2, line, r3, r4⟩ := ih (matchEntry w c caller t₁ x₁ cmp₁ (.ok s₁)).1 ((t₁, x₁) :: past)
        (hi.call c caller _ (hsp t₁)) hs (by rw [e5]; exact hfile)
        (fun e he => hall e (by simp only [entriesFrom]; exact List.mem_cons_of_mem _ he))
        (by rw [e6]; exact hu)
      simp only [C01World.run, C01World.step]
      refine ⟨r1.trans e5, ?_, line, r3, ?_⟩
      · intro o ho
        rcases List.mem_append.mp ho with ho | ho
        · rw [List.mem_singleton.mp ho]; exact ⟨e2, e3, e4⟩
        · exact r2 o ho
      · rw [List.map_append, List.flatten_append, r4]
        simp [e1]
    | done x₁ =>
      obtain ⟨r1, r2, line, r3, r4⟩ := ih (endTest w x₁) past (hi.done hs.1) hs.2
        (by rw [endTest_fs]; exact hfile) (fun e he => hall e (by simpa only [entriesFrom] using he))
        (by rw [endTest_env]; exact hu)
      simp only [C01World.run, C01World.step, List.nil_append]
      exact ⟨r1.trans (endTest_fs w x₁), r2, line, r3, r4⟩

/-- **C04 for histories of the model**: the file holds the `Good` entry list `pre ++ ⟨id, s₀⟩ :: post`,
    where `id` is the header of the call that now receives `s`; in an updating mode the run logs
    "updated" once and nothing else, and the file ends up as `pre ++ ⟨id, s⟩ :: post`; no other path
    changes -/
theorem update_run (c : Cfg) (caller p rel : Text)
    (hsp : ∀ t, snapshotPath c caller t false = (p, some rel)) (pre post : List Entry) (id : Line)
    (t s s₀ : Text) (cmp : Cmp) (x : Nat) (h2 : List Step)
    (hgood : Good (pre ++ ⟨id, s₀⟩ :: post)) (hgood' : Good (pre ++ ⟨id, s⟩ :: post))
    (hne : cmpText cmp s₀ ≠ cmpText cmp s) (h1 : List Step) :
    ∀ (w : World) (past : List (Text × Nat)),
      Inv p w past (h1 ++ .call t s cmp x :: h2) → Scoped past (h1 ++ .call t s cmp x :: h2) →
      Holds w.fs p (pre ++ ⟨id, s₀⟩ :: post) →
      id = testID t ((past.map Prod.fst).count t + (calledNames h1).count t + 1) →
      (∀ e ∈ entriesFrom (past.map Prod.fst) (h1 ++ .call t s₀ cmp x :: h2), e ∈ pre ++ ⟨id, s₀⟩ :: post) →
      (∀ e ∈ entriesFrom (past.map Prod.fst) (h1 ++ .call t s cmp x :: h2), e ∈ pre ++ ⟨id, s⟩ :: post) →
      shouldUpdate w.env c.update = true →
      Holds (C01World.run c caller w (h1 ++ .call t s cmp x :: h2)).1.fs p (pre ++ ⟨id, s⟩ :: post) ∧
      (∀ q, q ≠ p → fsRead (C01World.run c caller w (h1 ++ .call t s cmp x :: h2)).1.fs q = fsRead w.fs q) ∧
      (∀ o ∈ (C01World.run c caller w (h1 ++ .call t s cmp x :: h2)).2,
        o.removed = [] ∧ o.unsupported = none) ∧
      ((C01World.run c caller w (h1 ++ .call t s cmp x :: h2)).2.map (·.events)).flatten =
        [.log Generated.go_updatedMsg] := by
  induction h1 with
  | nil =>
    intro w past hi hs hfile hid _ hb hu
    simp only [List.nil_append] at hi hs hb ⊢
    have hn : alGet w.running (p, t) = (past.map Prod.fst).count t := hi.ord t (by simp [calledNames])
    have hid' : id = testID t (alGet w.running (p, t) + 1) := by rw [hid, hn]; simp [calledNames]
    subst hid'
    obtain ⟨e1, _, e3, e4, e5, e6, _⟩ := C04World.matchEntry_update w c caller t x cmp s s₀ p rel pre post
      (hsp t) hfile hgood hne hu
    obtain ⟨r1, r2, _⟩ := C01World.replay_run c caller p rel hsp _ hgood' h2
      (matchEntry w c caller t x cmp (.ok s)).1 ((t, x) :: past) (hi.call c caller _ (hsp t)) hs
      (Or.inl e5) (fun e he => hb e (by simp only [entriesFrom]; exact List.mem_cons_of_mem _ he))
    simp only [C01World.run, C01World.step]
    refine ⟨by rw [r1]; exact Or.inl e5, fun q hq => by rw [r1]; exact e6 q hq, ?_, ?_⟩
    · intro o ho
      rcases List.mem_append.mp ho with ho | ho
      · rw [List.mem_singleton.mp ho]; exact ⟨e3, e4⟩
      · exact ⟨(r2 o ho).2.2.1, (r2 o ho).2.2.2⟩
    · rw [List.map_append, List.flatten_append, flatten_events_silent _ r2]
      simp [e1]
  | cons st h1 ih =>
    intro w past hi hs hfile hid ha hb hu
    simp only [List.cons_append] at hi hs ha hb ⊢
    cases st with
    | call t₁ s₁ cmp₁ x₁ =>
      have hn : alGet w.running (p, t₁) = (past.map Prod.fst).count t₁ :=
        hi.ord t₁ (by simp [calledNames])
      obtain ⟨e1, _, e3, e4, e5, e6⟩ := C01World.matchEntry_replay w c caller t₁ x₁ cmp₁ s₁ p rel _
        (hsp t₁) hfile hgood (by rw [hn]; exact ha _ (by simp [entriesFrom]))
      obtain ⟨r1, r2, r3, r4⟩ := ih (matchEntry w c caller t₁ x₁ cmp₁ (.ok s₁)).1 ((t₁, x₁) :: past)
        (hi.call c caller _ (hsp t₁)) hs (by rw [e5]; exact hfile)
        (by rw [hid]; simp only [List.map_cons, calledNames, List.count_cons]; congr 1; omega)
        (fun e he => ha e (by simp only [entriesFrom]; exact List.mem_cons_of_mem _ he))
        (fun e he => hb e (by simp only [entriesFrom]; exact List.mem_cons_of_mem _ he))
        (by rw [e6]; exact hu)
      simp only [C01World.run, C01World.step]
      refine ⟨r1, fun q hq => by rw [r2 q hq, e5], ?_, ?_⟩
      · intro o ho
        rcases List.mem_append.mp ho with ho | ho
        · rw [List.mem_singleton.mp ho]; exact ⟨e3, e4⟩
        · exact r3 o ho
      · rw [List.map_append, List.flatten_append, r4]
        simp [e1]
    | done x₁ =>
      obtain ⟨r1, r2, r3, r4⟩ := ih (endTest w x₁) past (hi.done hs.1) hs.2
        (by rw [endTest_fs]; exact hfile) (by rw [hid]; simp only [calledNames])
        (fun e he => ha e (by simpa only [entriesFrom] using he))
        (fun e he => hb e (by simpa only [entriesFrom] using he))
        (by rw [endTest_env]; exact hu)
      simp only [C01World.run, C01World.step, List.nil_append]
      exact ⟨r1, fun q hq => by rw [r2 q hq, endTest_fs], r3, r4⟩

theorem StepOK_of_goodBody (t s : Text) (cmp : Cmp) (x : Nat) (hb : GoodBody s) :
    StepOK (.call t s cmp x) := by
  cases cmp with
  | raw => trivial
  | escaped => exact escape_unescape_of_escaped s hb.1

theorem HistOK.replace {h1 h2 : List Step} {a b : Step} (hh : HistOK (h1 ++ a :: h2)) (hb : StepOK b) :
    HistOK (h1 ++ b :: h2) := by
  intro s hs
  rcases List.mem_append.mp hs with hs | hs
  · exact hh s (List.mem_append_left _ hs)
  · rcases List.mem_cons.mp hs with rfl | hs
    · exact hb
    · exact hh s (List.mem_append_right _ (List.mem_cons_of_mem _ hs))

/-- **C02 for the transliterated code** (a changed value is reported).

Record the history `h1 ++ call t s₀ cmp x :: h2` with the transliterations (hypotheses of
`go_replay_history`).  Then run, from a fresh state over the recorded file system, in a mode that does
not update (`shouldUpdate env' c'.update = false`: CI, or `UPDATE_SNAPS` unset, or `Update(false)`), the
same history with the text `s` at that one call, where the COMPARED texts differ
(`s₀ ≠ s` for MatchJSON, `unescape s₀ ≠ unescape s` for MatchYAML/MatchSnapshot).  No panic; the calls
before the changed one report nothing (`mid`); the whole run reports exactly one event, the error
carrying the non-empty diff of the two compared texts; and the file system is left as recorded.
(`hsok`: for an escaped-mode call the new text is the stored form of a document, e.g. any text without a
line "---"; there is no other hypothesis on `s`.) -/
theorem go_mismatch_history (env env' : Env) (c c' : Cfg) (caller caller' p rel rel' : Text)
    (fs₀ : FS) (es₀ : List Entry) (h1 h2 : List Step) (t s₀ s : Text) (cmp : Cmp) (x : Nat)
    (hsp : ∀ t, snapshotPath c caller t false = (p, some rel))
    (hsp' : ∀ t, snapshotPath c' caller' t false = (p, some rel'))
    (hscoped : Scoped [] (h1 ++ .call t s₀ cmp x :: h2))
    (hfile : Holds fs₀ p es₀) (hgood : Good es₀)
    (hfresh : ∀ id ∈ headers (h1 ++ .call t s₀ cmp x :: h2), id ∉ fileLines es₀)
    (hnames : ∀ t' ∈ calledNames (h1 ++ .call t s₀ cmp x :: h2), NoNL t')
    (hbodies : ∀ b ∈ texts (h1 ++ .call t s₀ cmp x :: h2), GoodBody b)
    (hns : ∀ b ∈ texts (h1 ++ .call t s₀ cmp x :: h2),
      ∀ id ∈ ids es₀ ++ headers (h1 ++ .call t s₀ cmp x :: h2), id ∉ lines b)
    (hcreate : shouldCreate env c.update = true)
    (hne : cmpText cmp s₀ ≠ cmpText cmp s)
    (hsok : StepOK (.call t s cmp x))
    (hro : shouldUpdate env' c'.update = false) :
    ∃ rcd : St, goRun IOFail.never c caller (freshSt env fs₀) (h1 ++ .call t s₀ cmp x :: h2) = some rcd ∧
      ∃ (mid rep : St) (line : Nat),
        goRun IOFail.never c' caller' (freshSt env' rcd.fs) h1 = some mid ∧ mid.tev = [] ∧
        goRun IOFail.never c' caller' (freshSt env' rcd.fs) (h1 ++ .call t s cmp x :: h2) = some rep ∧
        prettyDiff (cmpText cmp s₀) (cmpText cmp s) rel' line ≠ [] ∧
        rep.tev = [.error (prettyDiff (cmpText cmp s₀) (cmpText cmp s) rel' line)] ∧
        rep.fs = rcd.fs := by
  obtain ⟨m1, m2, m3, _⟩ := C01World.replay_history env env c c caller caller p rel rel
    fs₀ es₀ _ hsp hsp hscoped hfile hgood hfresh hnames hbodies hns hcreate
  have hok := HistOK_of_bodies _ hbodies
  obtain ⟨rcd, e1, r1, _⟩ := goRun_simulates' c caller _ (StRel_init env fs₀) hok
    (fun o ho => (m1 o ho).2.2.2)
  have hfs : rcd.fs = (C01World.recordRun env c caller fs₀ (h1 ++ .call t s₀ cmp x :: h2)).1.fs := r1.fs
  generalize (C01World.recordRun env c caller fs₀ (h1 ++ .call t s₀ cmp x :: h2)).1.fs = W at m2 hfs
  -- the replay with the changed text
  obtain ⟨q1, q2, line, q3, q4⟩ := mismatch_run c' caller' p rel' hsp' _ m3 t s s₀ cmp x h2 hne h1
    { env := env', fs := W } [] (Inv.fresh p env' W _) (scoped_text_irrel t s₀ s cmp x h2 h1 [] hscoped) m2
    (fun e he => List.mem_append.mpr (Or.inr he)) hro
  obtain ⟨rep, e2, r2, t2⟩ := goRun_simulates' c' caller' _ (StRel_init env' W) (hok.replace hsok)
    (fun o ho => (q2 o ho).2.2)
  -- the calls before the changed one
  obtain ⟨_, p2, _⟩ := C01World.replay_run c' caller' p rel' hsp' _ m3 h1 { env := env', fs := W } []
    (Inv.fresh p env' W _) (scoped_prefix h1 _ [] hscoped) m2
    (fun e he => List.mem_append.mpr (Or.inr (by
      rw [entriesOf, entriesFrom_append]; exact List.mem_append_left _ he)))
  obtain ⟨mid, e3, _, t3⟩ := goRun_simulates' c' caller' h1 (StRel_init env' W) hok.left
    (fun o ho => (p2 o ho).2.2.2)
  refine ⟨rcd, e1, mid, rep, line, by rw [hfs]; exact e3, ?_, by rw [hfs]; exact e2, q3, ?_, ?_⟩
  · rw [t3]; exact flatten_events_silent _ p2
  · rw [t2]; exact q4
  · rw [r2.fs, hfs]; exact q1

/-- **C04 for the transliterated code** (update, then a read-only run).

Record the history `h1 ++ call t s₀ cmp x :: h2` (hypotheses of `go_replay_history`).  Run, from a
fresh state over the recorded file system, in an UPDATING mode, the same history with the text `s` at that
one call — a usable body none of whose lines is a header in play, whose compared text differs from the
recorded one: no panic, exactly one event is reported, the log "updated"; the file `p` now holds the
entries of the new history (every other entry byte-identical and in place), no other path changes.  Run
the new history once more from a fresh state over that file system in ANY mode (in particular read-only:
CI): nothing is reported and nothing is written. -/
theorem go_update_history (env env₁ env₂ : Env) (c c₁ c₂ : Cfg)
    (caller caller₁ caller₂ p rel rel₁ rel₂ : Text)
    (fs₀ : FS) (es₀ : List Entry) (h1 h2 : List Step) (t s₀ s : Text) (cmp : Cmp) (x : Nat)
    (hsp : ∀ t, snapshotPath c caller t false = (p, some rel))
    (hsp₁ : ∀ t, snapshotPath c₁ caller₁ t false = (p, some rel₁))
    (hsp₂ : ∀ t, snapshotPath c₂ caller₂ t false = (p, some rel₂))
    (hscoped : Scoped [] (h1 ++ .call t s₀ cmp x :: h2))
    (hfile : Holds fs₀ p es₀) (hgood : Good es₀)
    (hfresh : ∀ id ∈ headers (h1 ++ .call t s₀ cmp x :: h2), id ∉ fileLines es₀)
    (hnames : ∀ t' ∈ calledNames (h1 ++ .call t s₀ cmp x :: h2), NoNL t')
    (hbodies : ∀ b ∈ texts (h1 ++ .call t s₀ cmp x :: h2), GoodBody b)
    (hns : ∀ b ∈ texts (h1 ++ .call t s₀ cmp x :: h2),
      ∀ id ∈ ids es₀ ++ headers (h1 ++ .call t s₀ cmp x :: h2), id ∉ lines b)
    (hcreate : shouldCreate env c.update = true)
    (hne : cmpText cmp s₀ ≠ cmpText cmp s)
    (hsb : GoodBody s)
    (hsns : ∀ id ∈ ids es₀ ++ headers (h1 ++ .call t s₀ cmp x :: h2), id ∉ lines s)
    (hupd : shouldUpdate env₁ c₁.update = true) :
    ∃ rcd : St, goRun IOFail.never c caller (freshSt env fs₀) (h1 ++ .call t s₀ cmp x :: h2) = some rcd ∧
      ∃ upd : St,
        goRun IOFail.never c₁ caller₁ (freshSt env₁ rcd.fs) (h1 ++ .call t s cmp x :: h2) = some upd ∧
        upd.tev = [.log Generated.go_updatedMsg] ∧
        Holds upd.fs p (es₀ ++ entriesOf (h1 ++ .call t s cmp x :: h2)) ∧
        (∀ q, q ≠ p → fsRead upd.fs q = fsRead rcd.fs q) ∧
        ∃ rep : St,
          goRun IOFail.never c₂ caller₂ (freshSt env₂ upd.fs) (h1 ++ .call t s cmp x :: h2) = some rep ∧
          rep.tev = [] ∧ rep.fs = upd.fs := by
  obtain ⟨m1, m2, m3, _⟩ := C01World.replay_history env env c c caller caller p rel rel
    fs₀ es₀ _ hsp hsp hscoped hfile hgood hfresh hnames hbodies hns hcreate
  have hok := HistOK_of_bodies _ hbodies
  have hok' : HistOK (h1 ++ .call t s cmp x :: h2) := hok.replace (StepOK_of_goodBody t s cmp x hsb)
  have hscoped' := scoped_text_irrel t s₀ s cmp x h2 h1 [] hscoped
  obtain ⟨rcd, e1, r1, _⟩ := goRun_simulates' c caller _ (StRel_init env fs₀) hok
    (fun o ho => (m1 o ho).2.2.2)
  have hfs : rcd.fs = (C01World.recordRun env c caller fs₀ (h1 ++ .call t s₀ cmp x :: h2)).1.fs := r1.fs
  generalize (C01World.recordRun env c caller fs₀ (h1 ++ .call t s₀ cmp x :: h2)).1.fs = W at m2 hfs
  -- the two entry lists, split at the changed call
  have hids : ids (es₀ ++ entriesOf (h1 ++ .call t s₀ cmp x :: h2)) =
      ids es₀ ++ headers (h1 ++ .call t s₀ cmp x :: h2) := by simp [ids, headers]
  have hold : es₀ ++ entriesOf (h1 ++ .call t s₀ cmp x :: h2) =
      (es₀ ++ entriesFrom [] h1) ++ ⟨testID t ((calledNames h1).count t + 1), s₀⟩ ::
        entriesFrom (t :: (calledNames h1).reverse) h2 := by rw [entriesOf_split]; simp
  have hnew : es₀ ++ entriesOf (h1 ++ .call t s cmp x :: h2) =
      (es₀ ++ entriesFrom [] h1) ++ ⟨testID t ((calledNames h1).count t + 1), s⟩ ::
        entriesFrom (t :: (calledNames h1).reverse) h2 := by rw [entriesOf_split]; simp
  have hg' : Good (es₀ ++ entriesOf (h1 ++ .call t s cmp x :: h2)) := by
    rw [hnew]
    refine good_replace (e := ⟨testID t ((calledNames h1).count t + 1), s₀⟩) (hold ▸ m3) hsb ?_
    intro o ho
    rw [← hold] at ho
    exact hsns o.id (hids ▸ List.mem_map.mpr ⟨o, ho, rfl⟩)
  -- the updating run
  obtain ⟨u1, u2, u3, u4⟩ := update_run c₁ caller₁ p rel₁ hsp₁ (es₀ ++ entriesFrom [] h1)
    (entriesFrom (t :: (calledNames h1).reverse) h2) (testID t ((calledNames h1).count t + 1))
    t s s₀ cmp x h2 (hold ▸ m3) (hnew ▸ hg') hne h1 { env := env₁, fs := W } []
    (Inv.fresh p env₁ W _) hscoped' (hold ▸ m2) (by simp)
    (fun e he => hold ▸ List.mem_append.mpr (Or.inr he))
    (fun e he => hnew ▸ List.mem_append.mpr (Or.inr he)) hupd
  rw [← hnew] at u1
  obtain ⟨upd, e2, r2, t2⟩ := goRun_simulates' c₁ caller₁ _ (StRel_init env₁ W) hok'
    (fun o ho => (u3 o ho).2)
  have hfs₂ : upd.fs = (C01World.run c₁ caller₁ { env := env₁, fs := W } (h1 ++ .call t s cmp x :: h2)).1.fs :=
    r2.fs
  generalize (C01World.run c₁ caller₁ { env := env₁, fs := W } (h1 ++ .call t s cmp x :: h2)).1.fs = U
    at u1 u2 hfs₂
  -- the run after the update
  obtain ⟨v1, v2, _⟩ := C01World.replay_run c₂ caller₂ p rel₂ hsp₂ _ hg' (h1 ++ .call t s cmp x :: h2)
    { env := env₂, fs := U } [] (Inv.fresh p env₂ U _) hscoped' u1
    (fun e he => List.mem_append.mpr (Or.inr he))
  obtain ⟨rep, e3, r3, t3⟩ := goRun_simulates' c₂ caller₂ _ (StRel_init env₂ U) hok'
    (fun o ho => (v2 o ho).2.2.2)
  refine ⟨rcd, e1, upd, by rw [hfs]; exact e2, ?_, hfs₂ ▸ u1, fun q hq => by rw [hfs₂, hfs]; exact u2 q hq,
    rep, by rw [hfs₂]; exact e3, ?_, ?_⟩
  · rw [t2]; exact u4
  · rw [t3]; exact flatten_events_silent _ v2
  · rw [r3.fs, hfs₂]; exact v1

/-! ## 5. a concrete history (non-vacuity)

Two tests "A" and "B" on the file of "/t/a_test.go" (`C01World.exCaller`, `C01World.exPath`): A calls
`MatchJSON` with "x", B (interleaved) `MatchYAML` with "z", A `MatchJSON` with "y"; then both
`testing.T`s end.  Byte legend: 65/66 = 'A'/'B', 120/121/122/119 = 'x'/'y'/'z'/'w'. -/

def exH1 : List Step := [.call [65] [120] .raw 1, .call [66] [122] .escaped 2]
def exH2 : List Step := [.done 1, .done 2]
/-- `exH1 ++ .call [65] [121] .raw 1 :: exH2` -/
def exH : List Step := exH1 ++ .call [65] [121] .raw 1 :: exH2

example : entriesOf exH = [⟨testID [65] 1, [120]⟩, ⟨testID [66] 1, [122]⟩, ⟨testID [65] 2, [121]⟩] := by
  decide +kernel

/-- the simulation theorem on the example: the hypotheses hold (by evaluation of the model) … -/
example : ∃ st', goRun IOFail.never {} C01World.exCaller (freshSt ⟨false, ""⟩ []) exH = some st' ∧
    StRel st' (C01World.run {} C01World.exCaller { env := ⟨false, ""⟩ } exH).1 ∧
    st'.tev = List.replicate 3 (.log Generated.go_addedMsg) := by
  obtain ⟨st', e, r, t⟩ := goRun_simulates' {} C01World.exCaller exH (StRel_init ⟨false, ""⟩ [])
    (by decide +kernel) (by decide +kernel)
  refine ⟨st', e, r, ?_⟩
  rw [t]; decide +kernel

/-- … `go_replay_history` applies (replay on CI with UPDATE_SNAPS=true; initial file absent) … -/
example := go_replay_history ⟨false, ""⟩ ⟨true, "true"⟩ {} {} C01World.exCaller C01World.exCaller
  C01World.exPath C01World.exRel C01World.exRel [] [] exH C01World.exPath_spec C01World.exPath_spec
  (by decide +kernel) (Or.inr ⟨rfl, rfl⟩) (by decide) (by decide +kernel) (by decide +kernel)
  (by decide +kernel) (by decide +kernel) (by decide)

/-- … and this is what the transliterated code does, by evaluation: the record run writes the three
    entries and logs "added" three times, both cleanups have run; the replay run (CI, UPDATE_SNAPS=true)
    reports nothing and leaves the file as it is -/
example :
    (goRun IOFail.never {} C01World.exCaller (freshSt ⟨false, ""⟩ []) exH).map
        (fun s => (s.fs, s.tev, s.cleanups)) =
      some ([(C01World.exPath, render (entriesOf exH))], List.replicate 3 (.log Generated.go_addedMsg), []) ∧
    ((goRun IOFail.never {} C01World.exCaller (freshSt ⟨false, ""⟩ []) exH).bind fun rcd =>
        goRun IOFail.never {} C01World.exCaller (freshSt ⟨true, "true"⟩ rcd.fs) exH).map
        (fun s => (s.fs, s.tev)) =
      some ([(C01World.exPath, render (entriesOf exH))], []) := by
  refine ⟨by decide +kernel, by decide +kernel⟩

/-- `go_mismatch_history` applies: A's second call receives "w" instead of "y", on CI -/
example := go_mismatch_history ⟨false, ""⟩ ⟨true, ""⟩ {} {} C01World.exCaller C01World.exCaller
  C01World.exPath C01World.exRel C01World.exRel [] [] exH1 exH2 [65] [121] [119] .raw 1
  C01World.exPath_spec C01World.exPath_spec
  (by decide +kernel) (Or.inr ⟨rfl, rfl⟩) (by decide) (by decide +kernel) (by decide +kernel)
  (by decide +kernel) (by decide +kernel) (by decide) (by decide) trivial (by decide)

/-- … by evaluation: one error, the diff of "y" and "w" at the header's line 10; the file is untouched -/
example :
    ((goRun IOFail.never {} C01World.exCaller (freshSt ⟨false, ""⟩ []) exH).bind fun rcd =>
        goRun IOFail.never {} C01World.exCaller (freshSt ⟨true, ""⟩ rcd.fs)
          (exH1 ++ .call [65] [119] .raw 1 :: exH2)).map (fun s => (s.fs, s.tev)) =
      some ([(C01World.exPath, render (entriesOf exH))],
        [.error (prettyDiff [121] [119] C01World.exRel 10)]) := by decide +kernel

/-- `go_update_history` applies: the same change with UPDATE_SNAPS=true, then a run on CI -/
example := go_update_history ⟨false, ""⟩ ⟨false, "true"⟩ ⟨true, ""⟩ {} {} {}
  C01World.exCaller C01World.exCaller C01World.exCaller C01World.exPath C01World.exRel C01World.exRel
  C01World.exRel [] [] exH1 exH2 [65] [121] [119] .raw 1
  C01World.exPath_spec C01World.exPath_spec C01World.exPath_spec
  (by decide +kernel) (Or.inr ⟨rfl, rfl⟩) (by decide) (by decide +kernel) (by decide +kernel)
  (by decide +kernel) (by decide +kernel) (by decide) (by decide) (by decide +kernel) (by decide +kernel)
  (by decide)

/-- … by evaluation: the update logs "updated" once and rewrites the one entry; the CI run is silent -/
example :
    ((goRun IOFail.never {} C01World.exCaller (freshSt ⟨false, ""⟩ []) exH).bind fun rcd =>
        goRun IOFail.never {} C01World.exCaller (freshSt ⟨false, "true"⟩ rcd.fs)
          (exH1 ++ .call [65] [119] .raw 1 :: exH2)).map (fun s => (s.fs, s.tev)) =
      some ([(C01World.exPath, render (entriesOf (exH1 ++ .call [65] [119] .raw 1 :: exH2)))],
        [.log Generated.go_updatedMsg]) ∧
    (goRun IOFail.never {} C01World.exCaller
        (freshSt ⟨true, ""⟩ [(C01World.exPath, render (entriesOf (exH1 ++ .call [65] [119] .raw 1 :: exH2)))])
        (exH1 ++ .call [65] [119] .raw 1 :: exH2)).map (fun s => (s.fs, s.tev)) =
      some ([(C01World.exPath, render (entriesOf (exH1 ++ .call [65] [119] .raw 1 :: exH2)))], []) := by
  refine ⟨by decide +kernel, by decide +kernel⟩

/-- the cleanups in the other order (first registered first): the same registries, read by read -/
example :
    let st : St :=
      { env := ⟨false, ""⟩
        reg := { running := [([98], [([97], 2), ([99], 1)])], cleanup := [([98], [([97], 2), ([99], 1)])] }
        sreg := { running := [([103], 1)], cleanup := [([103], 1)] } }
    let l : List Cleanup := [.resetReg [98] [99], .resetSReg [103], .resetReg [98] [97]]
    (runCleanupList st l).map (fun s => (s.reg, s.sreg)) =
      some ({ running := [([98], [([97], 0), ([99], 0)])], cleanup := [([98], [([97], 2), ([99], 1)])] },
            { running := [([103], 0)], cleanup := [([103], 1)] }) ∧
    (runCleanupList st l.reverse).map (fun s => (s.reg, s.sreg)) = (runCleanupList st l).map (fun s => (s.reg, s.sreg)) ∧
    runCleanupList st [.resetReg [100] [97]] = none := by
  refine ⟨by decide +kernel, by decide +kernel, by decide +kernel⟩

end GoSnaps.Tie
