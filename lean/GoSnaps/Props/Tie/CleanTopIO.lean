/-
Tie by proof, part 11: the top-level `Clean` (snaps/clean.go; `Generated/FuncsIO.lean`) against the
model's `clean` (`GoSnaps/Clean.lean`), on top of
* `Props/Tie/CleanTopIO1.lean` : `printEvent_tied`, `summary_tied` / `summary_tied_wf` (closure
                                 `objectSummaryList` included), `isFileSkipped_eq` / `_tied` / `_sound`,
                                 `trackSkip_tied`, `dirEntries_eq`;
* `Props/Tie/CleanTopIO2.lean` : `examineFiles_eq` (every failure oracle), `dir_step_tied`,
                                 `examineFiles_tied_partial`, `examineFiles_tied_one_dir`,
                                 `examineFiles_tied` (any directory order: file system with the same
                                 content, `obsolete` / `used` up to permutation), `joinFaithful_abs`,
                                 `dirsIndependent_of_notUnder`;
* `Props/Tie/CleanTopIO3.lean` : `examineSnaps_perm` (the model's `examineSnaps` under a permutation of
                                 the used files);
* `Props/Tie/CleanIO.lean`     : `occurrences_*`, `examineSnaps_eq`, `examineSnaps_tied`.

This file
6.  `Clean_eq`                 : closed form for every failure oracle (`cleanSteps`, `cleanFinish`);
6'. `Clean_tied_partial`       : exact tie under `IOFail.never` when the directories are visited in the
                                 model's order; `Clean_tied_one_dir` (one directory: no hypothesis on
                                 the order); `Clean_tied` (ANY order: same file-system content, and the
                                 model's summary text of permuted obsolete lists);
7.  `Clean_ci_readonly`, `Clean_no_update_no_removal`, `Clean_prints_once` : outcome facts for EVERY
                                 failure oracle (`examineSnaps_keeps`, `examineFiles_inv`);
8.  concrete worlds (one directory, report and clean mode; two directories in different orders).
-/
import GoSnaps.Props.Tie.CleanTopIO1
import GoSnaps.Props.Tie.CleanTopIO2
import GoSnaps.Props.Tie.CleanTopIO3
import GoSnaps.Props.Tie.Registry
namespace GoSnaps.Tie
open GoSnaps GoSnaps.GoIO
open GoSnaps.Generated.FuncsIO

/-! ## 6. `Clean` in closed form, for every failure oracle -/

/-- `shouldClean && !isCI`: the `shouldUpdate` / `update` argument of all three callees -/
def cleanUpd (st : St) : Bool := Generated.shouldClean st.env && !st.env.isCI

/-- what `Clean` does with the results of `examineFiles` and `examineSnaps`: print the error, or
    the summary when it is not empty (`fmt.Println` adds the newline) -/
def cleanFinish (st : St) (files : FSt) (snaps : FS × List Text × Err) : St :=
  if snaps.2.2.notNil = true then
    { st with fs := snaps.1, stdout := files.2.1 ++ snaps.2.2.text ++ [10] }
  else if (Generated.FuncsIO.summary files.2.2.1 snaps.2.1 (GoSem.len st.skipped) st.events (cleanUpd st) != []) = true then
    { st with fs := snaps.1, stdout := files.2.1 ++
        Generated.FuncsIO.summary files.2.2.1 snaps.2.1 (GoSem.len st.skipped) st.events (cleanUpd st) ++ [10] }
  else { st with fs := snaps.1, stdout := files.2.1 }

/-- the three stages of `Clean` -/
def cleanSteps (io : IOFail) (st : St) (parseFile : Text → List GoDecl × Err) (re : Text → Text → Bool × Bool)
    (runOnly : Text) (count : Int) (sortOpt : Bool) : Option St :=
  (Generated.FuncsIO.occurrences st.sreg.cleanup count standaloneOccurrenceFMT).bind fun sa =>
    (Generated.FuncsIO.examineSnaps io
      (Generated.FuncsIO.examineFiles io st.fs st.stdout parseFile re st.reg.cleanup sa runOnly (cleanUpd st)).1
      re st.skipped st.reg.cleanup
      (Generated.FuncsIO.examineFiles io st.fs st.stdout parseFile re st.reg.cleanup sa runOnly (cleanUpd st)).2.2.2
      runOnly count (cleanUpd st) (sortOpt && !st.env.isCI)).bind fun r =>
    some (cleanFinish st
      (Generated.FuncsIO.examineFiles io st.fs st.stdout parseFile re st.reg.cleanup sa runOnly (cleanUpd st)) r)

/-- **6.** `Clean_eq`: the transliterated `Clean`, for every failure oracle, is the composition
    `occurrences (standalone) → examineFiles → examineSnaps → (error: print it | summary: print it
    when non-empty)`; `opts...` contributes `opts[0]` if present (`CleanOpts.Sort`), else `false`.
    `none` = the Go code panics (`count = 0`) or a standalone path is outside the modelled formats. -/
theorem Clean_eq (io : IOFail) (st : St) (parseFile : Text → List GoDecl × Err) (re : Text → Text → Bool × Bool)
    (runFlag : Text) (countFlag : Int × Err) (opts : List Bool) :
    Generated.FuncsIO.Clean io st parseFile re runFlag countFlag () opts =
      cleanSteps io st parseFile re runFlag countFlag.1 (opts.head?.getD false) := by
  have hfin : ∀ (c d : Prop) [Decidable c] [Decidable d] (A B C : St),
      (if c then some A else if d then some B else some C) = some (if c then A else if d then B else C) := by
    intro c d _ _ A B C
    split
    · rfl
    · split <;> rfl
  unfold Generated.FuncsIO.Clean cleanSteps cleanFinish cleanUpd
  simp only [bind, pure]
  cases opts with
  | nil =>
    have h1 : (GoSem.len ([] : List Bool) != 0) = false := by decide
    simp only [h1, Bool.false_eq_true, ↓reduceIte, List.head?_nil, Option.getD_none, hfin]
  | cons b bs =>
    have h1 : (GoSem.len (b :: bs) != 0) = true := by simp [GoSem.len]; omega
    have h2 : GoSem.index (b :: bs) 0 = some b := by simp [GoSem.index]
    simp only [h1, h2, ↓reduceIte, Option.bind_some, List.head?_cons, Option.getD_some, hfin]

/-! ## 6'. `Clean` against the model's `clean`, under `IOFail.never` -/

/-- how the state of the transliteration corresponds to the model's `World` when `Clean` is called
    (after `m.Run()`): the `RegCorr`-style correspondences the callee ties need -/
structure CleanRel (st : St) (w : World) : Prop where
  env : st.env = w.env
  fs : st.fs = w.fs
  skipped : st.skipped = w.skipped
  /-- `testsRegistry.cleanup[p]` holds the model's (test, count) pairs for every file `p` -/
  reg : ∀ p, RegCorr st.reg.cleanup w.cleanup p
  /-- the keys of `testsRegistry.cleanup` are the registered snapshot files -/
  regKeys : ∀ p, p ∈ st.reg.cleanup.map (·.1) ↔ p ∈ w.cleanup.map (·.1.1)
  /-- `standaloneTestsRegistry.cleanup` holds the model's (path pattern, count) pairs -/
  sreg : ∀ x, x ∈ st.sreg.cleanup ↔ x ∈ intImage w.scleanup
  passed : map1Get st.events evPassed = (w.events.passed : Int)
  erred : map1Get st.events evErred = (w.events.erred : Int)
  added : map1Get st.events evAdded = (w.events.added : Int)
  updated : map1Get st.events evUpdated = (w.events.updated : Int)
  eventsWF : EventsWF st.events

/-- `occurrences(standaloneTestsRegistry.cleanup, count, standaloneOccurrenceFMT)` for a Go map with
    the members of the model's list -/
theorem standaloneOcc_tied (m : Map1) (mine : List (Text × Nat)) (cnt : Nat) (hc : cnt > 0)
    (hm : ∀ x, x ∈ m ↔ x ∈ intImage mine) (r' : List Text)
    (h : GoSnaps.occurrences mine cnt standaloneOccFmt = some r') :
    ∃ r, Generated.FuncsIO.occurrences m (cnt : Int) standaloneOccurrenceFMT = some r ∧ ∀ x, x ∈ r ↔ x ∈ r' := by
  obtain ⟨r2, hr2, _, hm2⟩ := occurrences_tied_gen standaloneOccurrenceFMT standaloneOccFmt
    standaloneOccurrenceFMT_tied mine cnt hc r' h
  have hcnt : (cnt : Int) ≠ 0 := by omega
  -- nothing panics on the image, hence nothing panics on `m`
  have htot2 : ∀ p ∈ intImage mine, ∀ i, (i = Int.tdiv p.2 cnt ∨ (1 ≤ i ∧ i ≤ Int.tdiv p.2 cnt)) →
      ∃ k, standaloneOccurrenceFMT p.1 i = some k := by
    intro p hp i hi
    cases hf : standaloneOccurrenceFMT p.1 i with
    | some k => exact ⟨k, rfl⟩
    | none =>
      have : Generated.FuncsIO.occurrences (intImage mine) (cnt : Int) standaloneOccurrenceFMT = none :=
        (occurrences_none_iff _ _ _).mpr (Or.inr ⟨hcnt, p, hp, i, hi, hf⟩)
      rw [hr2] at this; cases this
  obtain ⟨r1, hr1, _, hm1⟩ := occurrences_mem m (cnt : Int) standaloneOccurrenceFMT hcnt
    (fun p hp i hi => htot2 p ((hm p).mp hp) i hi)
  obtain ⟨r2', hr2', _, hm2'⟩ := occurrences_mem (intImage mine) (cnt : Int) standaloneOccurrenceFMT hcnt htot2
  rw [hr2] at hr2'; cases hr2'
  refine ⟨r1, hr1, fun x => ?_⟩
  rw [← hm2, hm1, hm2']
  constructor
  · rintro ⟨q, hq, rest⟩; exact ⟨q, (hm q).mp hq, rest⟩
  · rintro ⟨q, hq, rest⟩; exact ⟨q, (hm q).mpr hq, rest⟩

theorem CleanRel.filesCorr {st : St} {w : World} (h : CleanRel st w) (o : Oracles)
    (parseFile : Text → List GoDecl × Err) (re : Text → Text → Bool × Bool) (runOnly : Text)
    (hp : ParseSound o parseFile) (hs : OracleSound o re runOnly) (sa : GoSet) (standalone : List Text)
    (hsa : ∀ x, x ∈ sa ↔ x ∈ standalone) :
    FilesCorr o parseFile re st.reg.cleanup sa (cleanRegPaths w) standalone runOnly :=
  ⟨fun p => by rw [h.regKeys p]; unfold cleanRegPaths; exact ((dedup_spec _).2 p).symm, hsa, hp, hs⟩

/-- **6'.** `Clean_tied_partial`: under `IOFail.never`, from corresponding states, with sound
    tables and `count > 0`, whenever the model's `clean` supports the input (`out.unsupported = none`)
    the transliterated `Clean` does not panic and returns the state whose file system is the model's
    and whose `stdout` is extended by exactly what the model prints; nothing else changes.
    PARTIAL in one respect: `hdirs` — the transliteration ranges over `uniqueDirs` in the model's
    canonical order (Go leaves the order of a `range` over a map unspecified; the summary lists the
    obsolete files and tests in processing order, so for another order only a permutation of the
    item lines can be claimed, see `examineFiles_tied`).  `hdirs` holds whenever all registered
    paths live in one directory (`Clean_tied_one_dir`).  `hj` (clean mode only): `filepath.Join` is
    faithful on the visited directories (`joinFaithful_abs`: every absolute clean directory). -/
theorem Clean_tied_partial (o : Oracles) (st : St) (w : World) (parseFile : Text → List GoDecl × Err)
    (re : Text → Text → Bool × Bool) (runOnly : Text) (cnt : Nat) (err : Err) (opts : List Bool)
    (hrel : CleanRel st w) (hcnt : cnt > 0) (hp : ParseSound o parseFile) (hs : OracleSound o re runOnly)
    (hdirs : ∀ sa standalone, Generated.FuncsIO.occurrences st.sreg.cleanup (cnt : Int) standaloneOccurrenceFMT = some sa →
      GoSnaps.occurrences w.scleanup cnt standaloneOccFmt = some standalone →
      goDirs st.reg.cleanup sa = sortBytes (dedup ((cleanRegPaths w ++ standalone).map fpDir)))
    (hj : cleanUpd st = true → ∀ sa, Generated.FuncsIO.occurrences st.sreg.cleanup (cnt : Int) standaloneOccurrenceFMT = some sa →
      ∀ d ∈ goDirs st.reg.cleanup sa, JoinFaithful d)
    (hsup : (GoSnaps.clean o w (opts.head?.getD false) runOnly cnt).2.unsupported = none) :
    Generated.FuncsIO.Clean IOFail.never st parseFile re runOnly ((cnt : Int), err) () opts =
      some { st with fs := (GoSnaps.clean o w (opts.head?.getD false) runOnly cnt).1.fs,
                     stdout := st.stdout ++ (GoSnaps.clean o w (opts.head?.getD false) runOnly cnt).2.stdout } := by
  obtain ⟨standalone, fr, obsTests, fs', written, hrun⟩ := clean_supported o w _ runOnly cnt hsup
  rw [Clean_eq, hrun.result]
  unfold cleanSteps
  simp only
  -- stage 1: the standalone occurrences
  obtain ⟨sa, hsa, hsam⟩ := standaloneOcc_tied st.sreg.cleanup w.scleanup cnt hcnt hrel.sreg standalone hrun.occ
  rw [hsa]
  simp only [Option.bind_some]
  -- stage 2: the files
  have hupd : cleanUpd st = Generated.cleanFilesUpdate w.env (opts.head?.getD false) := by
    unfold cleanUpd Generated.cleanFilesUpdate; rw [hrel.env]
  have hfiles := examineFiles_tied_partial o parseFile re st.reg.cleanup sa (cleanRegPaths w) standalone runOnly
    (cleanUpd st) (hrel.filesCorr o parseFile re runOnly hp hs sa standalone hsam) st.fs st.stdout
    (hdirs sa standalone hsa hrun.occ) (fun hu => hj hu sa hsa) fr (by rw [hupd, hrel.fs]; exact hrun.files)
  rw [hfiles]
  simp only
  -- stage 3: the entries of the used files
  have hsnaps := examineSnaps_tied o re fr.fs st.skipped st.reg.cleanup w.cleanup fr.used runOnly cnt
    (cleanUpd st) ((opts.head?.getD false) && !st.env.isCI) hcnt hs (fun p _ => hrel.reg p) obsTests fs' written
    (by
      have := hrun.snaps
      unfold Generated.cleanSnapsUpdate Generated.cleanSnapsSort at this
      unfold cleanUpd
      rw [hrel.env, hrel.skipped]; exact this)
  rw [hsnaps]
  simp only [Option.bind_some]
  -- stage 4: the summary
  have hsum := summary_tied_wf fr.obsolete obsTests st.skipped.length st.events w.events (cleanUpd st) hrel.eventsWF
    hrel.passed hrel.erred hrel.added hrel.updated
  have hlen : GoSem.len st.skipped = ((st.skipped.length : Nat) : Int) := rfl
  unfold cleanFinish
  simp only [Err.notNil, Bool.false_eq_true, ↓reduceIte, hlen, hsum]
  unfold cleanStdout cleanAnyEvent
  have hupd2 : cleanUpd st = Generated.summaryUpdate w.env (opts.head?.getD false) := by
    unfold cleanUpd Generated.summaryUpdate; rw [hrel.env]
  rw [← hupd2, ← hrel.skipped]
  simp only
  by_cases hnil : GoSnaps.summary fr.obsolete obsTests st.skipped.length w.events
      (decide (w.events.erred + w.events.added + w.events.updated + w.events.passed > 0)) (cleanUpd st) = []
  · simp [hnil]
  · have : (GoSnaps.summary fr.obsolete obsTests st.skipped.length w.events
      (decide (w.events.erred + w.events.added + w.events.updated + w.events.passed > 0)) (cleanUpd st) != []) = true := by
      simpa using hnil
    simp [hnil, this, nl]

/-- **6', one directory**: when every registered snapshot file and standalone snapshot lives in the
    directory `d` (one test package), no order is involved: exact `stdout` and file system -/
theorem Clean_tied_one_dir (o : Oracles) (st : St) (w : World) (parseFile : Text → List GoDecl × Err)
    (re : Text → Text → Bool × Bool) (runOnly : Text) (cnt : Nat) (err : Err) (opts : List Bool)
    (hrel : CleanRel st w) (hcnt : cnt > 0) (hp : ParseSound o parseFile) (hs : OracleSound o re runOnly) (d : Text)
    (hone : ∀ standalone, GoSnaps.occurrences w.scleanup cnt standaloneOccFmt = some standalone →
      ∀ p ∈ cleanRegPaths w ++ standalone, fpDir p = d)
    (hj : cleanUpd st = true → JoinFaithful d)
    (hsup : (GoSnaps.clean o w (opts.head?.getD false) runOnly cnt).2.unsupported = none) :
    Generated.FuncsIO.Clean IOFail.never st parseFile re runOnly ((cnt : Int), err) () opts =
      some { st with fs := (GoSnaps.clean o w (opts.head?.getD false) runOnly cnt).1.fs,
                     stdout := st.stdout ++ (GoSnaps.clean o w (opts.head?.getD false) runOnly cnt).2.stdout } := by
  obtain ⟨standalone, _, _, _, _, hrun⟩ := clean_supported o w _ runOnly cnt hsup
  have key : ∀ sa, Generated.FuncsIO.occurrences st.sreg.cleanup (cnt : Int) standaloneOccurrenceFMT = some sa →
      goDirs st.reg.cleanup sa = sortBytes (dedup ((cleanRegPaths w ++ standalone).map fpDir)) := by
    intro sa hsa
    obtain ⟨sa', hsa', hmem⟩ := standaloneOcc_tied st.sreg.cleanup w.scleanup cnt hcnt hrel.sreg standalone hrun.occ
    rw [hsa] at hsa'; cases hsa'
    exact goDirs_one_dir o parseFile re st.reg.cleanup sa (cleanRegPaths w) standalone runOnly
      (hrel.filesCorr o parseFile re runOnly hp hs sa standalone hmem) d (hone standalone hrun.occ)
  refine Clean_tied_partial o st w parseFile re runOnly cnt err opts hrel hcnt hp hs ?_ ?_ hsup
  · intro sa standalone' hsa hst
    rw [hrun.occ] at hst; cases hst
    exact key sa hsa
  · intro hu sa hsa x hx
    rw [key sa hsa] at hx
    have := (dedup_spec _).2 x |>.mp ((sortBytes_perm _).mem_iff.mp hx)
    obtain ⟨p, hp', rfl⟩ := List.mem_map.mp this
    rw [hone standalone hrun.occ p hp']; exact hj hu

/-- **6', any directory order** `Clean_tied`: without the order hypothesis of `Clean_tied_partial`.
    Go ranges over `uniqueDirs` in an unspecified order; whatever order the transliteration takes,
    under `IOFail.never` it returns a file system with the same content as the model's, and prints
    the model's summary text computed from lists `obsFiles`, `obsTests` that are PERMUTATIONS of the
    lists the model's stages return (`cleanStdout`: the counters, headers and hint line are the
    same; the item lines of each block appear in the order of processing).  Well-formedness:
    `filepath.Join` is faithful on the visited directories and no candidate path of one directory
    lies under another (`joinFaithful_abs`, `dirsIndependent_of_notUnder`). -/
theorem Clean_tied (o : Oracles) (st : St) (w : World) (parseFile : Text → List GoDecl × Err)
    (re : Text → Text → Bool × Bool) (runOnly : Text) (cnt : Nat) (err : Err) (opts : List Bool)
    (hrel : CleanRel st w) (hcnt : cnt > 0) (hp : ParseSound o parseFile) (hs : OracleSound o re runOnly)
    (hw : ∀ sa, Generated.FuncsIO.occurrences st.sreg.cleanup (cnt : Int) standaloneOccurrenceFMT = some sa →
      (∀ d ∈ goDirs st.reg.cleanup sa, JoinFaithful d) ∧ DirsIndependent (goDirs st.reg.cleanup sa))
    (hsup : (GoSnaps.clean o w (opts.head?.getD false) runOnly cnt).2.unsupported = none) :
    ∃ (fs'' : FS) (obsFiles obsTests : List Text),
      Generated.FuncsIO.Clean IOFail.never st parseFile re runOnly ((cnt : Int), err) () opts =
        some { st with fs := fs'', stdout := st.stdout ++ cleanStdout w (opts.head?.getD false) obsFiles obsTests } ∧
      (∀ p, fsRead fs'' p = fsRead (GoSnaps.clean o w (opts.head?.getD false) runOnly cnt).1.fs p) ∧
      ∃ standalone fr obsT fs' written, CleanRun o w (opts.head?.getD false) runOnly cnt standalone fr obsT fs' written ∧
        obsFiles.Perm fr.obsolete ∧ obsTests.Perm obsT := by
  obtain ⟨standalone, fr, obsT, fs', written, hrun⟩ := clean_supported o w _ runOnly cnt hsup
  rw [Clean_eq, hrun.result]
  unfold cleanSteps
  simp only
  -- stage 1
  obtain ⟨sa, hsa, hsam⟩ := standaloneOcc_tied st.sreg.cleanup w.scleanup cnt hcnt hrel.sreg standalone hrun.occ
  rw [hsa]
  simp only [Option.bind_some]
  have hcorr := hrel.filesCorr o parseFile re runOnly hp hs sa standalone hsam
  -- stage 2: the files, up to permutation
  have hupd : cleanUpd st = Generated.cleanFilesUpdate w.env (opts.head?.getD false) := by
    unfold cleanUpd Generated.cleanFilesUpdate; rw [hrel.env]
  have hfilesM : GoSnaps.examineFiles o st.fs (cleanRegPaths w) standalone runOnly (cleanUpd st) = some fr := by
    rw [hupd, hrel.fs]; exact hrun.files
  obtain ⟨fsg, obsFg, usedg, hfiles, hfsg, hobsFg, husedg⟩ := examineFiles_tied o parseFile re st.reg.cleanup sa
    (cleanRegPaths w) standalone runOnly (cleanUpd st) hcorr st.fs st.stdout (fun _ => hw sa hsa) fr hfilesM
  have hundm := examineFiles_used_nodup o parseFile re st.reg.cleanup sa (cleanRegPaths w) standalone runOnly
    (cleanUpd st) hcorr st.fs (hw sa hsa) fr hfilesM
  rw [hfiles]
  simp only
  -- stage 3: the model's `examineSnaps` on the Go-side inputs, then the tie
  have hsnapsM : GoSnaps.examineSnaps o fr.fs w.cleanup st.skipped fr.used runOnly cnt (cleanUpd st)
      ((opts.head?.getD false) && !st.env.isCI) = .ok obsT fs' written := by
    have := hrun.snaps
    unfold Generated.cleanSnapsUpdate Generated.cleanSnapsSort at this
    unfold cleanUpd
    rw [hrel.env, hrel.skipped]; exact this
  obtain ⟨obs2, fs2, written2, hsn2, hobs2, hfs2⟩ := examineSnaps_perm o w.cleanup st.skipped runOnly cnt (cleanUpd st)
    ((opts.head?.getD false) && !st.env.isCI) fr.used usedg fr.fs fsg hundm husedg hfsg obsT fs' written hsnapsM
  have hsnaps := examineSnaps_tied o re fsg st.skipped st.reg.cleanup w.cleanup usedg runOnly cnt
    (cleanUpd st) ((opts.head?.getD false) && !st.env.isCI) hcnt hs (fun p _ => hrel.reg p) obs2 fs2 written2 hsn2
  rw [hsnaps]
  simp only [Option.bind_some]
  -- stage 4
  have hsum := summary_tied_wf obsFg obs2 st.skipped.length st.events w.events (cleanUpd st) hrel.eventsWF
    hrel.passed hrel.erred hrel.added hrel.updated
  have hlen : GoSem.len st.skipped = ((st.skipped.length : Nat) : Int) := rfl
  have hupd2 : cleanUpd st = Generated.summaryUpdate w.env (opts.head?.getD false) := by
    unfold cleanUpd Generated.summaryUpdate; rw [hrel.env]
  refine ⟨fs2, obsFg, obs2, ?_, hfs2, standalone, fr, obsT, fs', written, hrun, hobsFg, hobs2⟩
  unfold cleanFinish
  simp only [Err.notNil, Bool.false_eq_true, ↓reduceIte, hlen, hsum]
  unfold cleanStdout cleanAnyEvent
  rw [← hupd2, ← hrel.skipped]
  simp only
  by_cases hnil : GoSnaps.summary obsFg obs2 st.skipped.length w.events
      (decide (w.events.erred + w.events.added + w.events.updated + w.events.passed > 0)) (cleanUpd st) = []
  · simp [hnil]
  · have : (GoSnaps.summary obsFg obs2 st.skipped.length w.events
      (decide (w.events.erred + w.events.added + w.events.updated + w.events.passed > 0)) (cleanUpd st) != []) = true := by
      simpa using hnil
    simp [hnil, this, nl]

/-! ## 7. outcome facts about the transliterated `Clean`, for EVERY failure oracle -/

/-- `fs'` differs from `fs` at most in the content of files satisfying `P`; no file appears or
    disappears -/
def FsKeeps (P : Text → Prop) (fs fs' : FS) : Prop :=
  (∀ q, ¬ P q → fsRead fs' q = fsRead fs q) ∧ (∀ q, (fsRead fs' q).isSome = (fsRead fs q).isSome)

theorem FsKeeps.refl (P : Text → Prop) (fs : FS) : FsKeeps P fs fs := ⟨fun _ _ => rfl, fun _ => rfl⟩

theorem FsKeeps.trans {P : Text → Prop} {a b c : FS} (h1 : FsKeeps P a b) (h2 : FsKeeps P b c) : FsKeeps P a c :=
  ⟨fun q hq => (h2.1 q hq).trans (h1.1 q hq), fun q => (h2.2 q).trans (h1.2 q)⟩

theorem FsKeeps.mono {P Q : Text → Prop} {a b : FS} (h : FsKeeps P a b) (hpq : ∀ q, P q → Q q) : FsKeeps Q a b :=
  ⟨fun q hq => h.1 q (fun hp => hq (hpq q hp)), h.2⟩

/-- overwriting an existing file -/
theorem fsWrite_keeps (fs : FS) (p c : Text) (h : (fsRead fs p).isSome = true) : FsKeeps (· = p) fs (fsWrite fs p c) := by
  refine ⟨fun q hq => fsRead_fsWrite_other fs p q c hq, fun q => ?_⟩
  by_cases hq : q = p
  · subst hq; rw [fsRead_fsWrite_same, h]; rfl
  · rw [fsRead_fsWrite_other fs p q c hq]

theorem fileWrite_keeps (io : IOFail) (fs : FS) (f : File) (b : Text) (h : (fsRead fs f.path).isSome = true) :
    FsKeeps (· = f.path) fs (fileWrite io fs f b).1 ∧ (fileWrite io fs f b).2.1.path = f.path := by
  unfold fileWrite
  cases io .write f.path with
  | some m => exact ⟨FsKeeps.refl _ _, rfl⟩
  | none =>
    simp only
    split
    · exact ⟨fsWrite_keeps fs f.path _ h, rfl⟩
    · exact ⟨fsWrite_keeps fs f.path _ h, rfl⟩

theorem wstep_fold_keeps (io : IOFail) (tests : SMap) (p : Text) (ids : List Text) (s : FS × File)
    (hp : s.2.path = p) (h : (fsRead s.1 p).isSome = true) :
    FsKeeps (· = p) s.1 (ids.foldl (wstep io tests) s).1 := by
  induction ids generalizing s with
  | nil => exact FsKeeps.refl _ _
  | cons id ids ih =>
    rw [List.foldl_cons]
    unfold wstep
    split
    · obtain ⟨k1, k2⟩ := fileWrite_keeps io s.1 s.2 (([10, 91] : List UInt8) ++ id ++ ([93, 10] : List UInt8) ++
        smapGet tests id ++ Generated.go_endSequence ++ ([10] : List UInt8)) (by rw [hp]; exact h)
      rw [hp] at k1
      refine k1.trans (ih _ (by simp only; rw [k2, hp]) ?_)
      simp only
      rw [k1.2 p]; exact h
    · exact ih s hp h

theorem overwriteFile_keeps (io : IOFail) (fs : FS) (f : File) (b : Text) (h : (fsRead fs f.path).isSome = true) :
    FsKeeps (· = f.path) fs (overwriteFile io fs f b).1 ∧ (overwriteFile io fs f b).2.1.path = f.path := by
  rw [overwriteFile_eq]
  cases io .write f.path with
  | some m => exact ⟨fsWrite_keeps fs f.path _ h, rfl⟩
  | none => exact ⟨fsWrite_keeps fs f.path _ h, rfl⟩

/-- the loop state a step of the `range used` loop ends in -/
def osOf : ForInStep OS → OS
  | .done r => r
  | .yield r => r

/-- an early return value carries the current file system -/
def RetOK (r : OS) : Prop := ∀ x, r.1 = some x → x.1 = r.2.1

theorem fileRest_keeps (io : IOFail) (update sort : Bool) (f : File) (fs : FS) (r : ScanState × Text)
    (h : (fsRead fs f.path).isSome = true) :
    FsKeeps (· = f.path) fs (osOf (fileRest io update sort f fs r)).2.1 ∧ RetOK (osOf (fileRest io update sort f fs r)) := by
  unfold fileRest
  obtain ⟨k1, k2⟩ := overwriteFile_keeps io fs f [] h
  split
  · exact ⟨FsKeeps.refl _ _, fun x hx => by cases hx⟩
  · split
    · exact ⟨k1, fun x hx => by cases hx; rfl⟩
    · refine ⟨k1.trans (wstep_fold_keeps io r.1.tests f.path _ _ k2 (by simp only; rw [k1.2]; exact h)),
        fun x hx => by cases hx⟩

/-- without `update` and without `sort` the file is not touched -/
theorem fileRest_noop (io : IOFail) (f : File) (fs : FS) (r : ScanState × Text) :
    (osOf (fileRest io false false f fs r)).2.1 = fs := by
  unfold fileRest
  simp [osOf]

theorem openRDWR_ok (io : IOFail) (fs : FS) (p : Text) (h : (openRDWR io fs p).2.notNil = false) :
    (fsRead fs p).isSome = true := by
  unfold openRDWR at h
  cases hio : io .openRDWR p with
  | some m => rw [hio] at h; simp [Err.notNil] at h
  | none =>
    rw [hio] at h
    cases hr : fsRead fs p with
    | some c => rfl
    | none => rw [hr] at h; simp [Err.notNil] at h

theorem fileStep_keeps (io : IOFail) (re : Text → Text → Bool × Bool) (skipped : List Text) (registry : Map2)
    (runOnly : Text) (count : Int) (update sort : Bool) (p : Text) (fs : FS) (obs : List Text) (step : ForInStep OS)
    (h : fileStep io re skipped registry runOnly count update sort p fs obs = some step) :
    FsKeeps (· = p) fs (osOf step).2.1 ∧ RetOK (osOf step) ∧ (update = false → sort = false → (osOf step).2.1 = fs) := by
  unfold fileStep at h
  split at h
  · cases h
    exact ⟨FsKeeps.refl _ _, (fun x hx => by cases hx; rfl), fun _ _ => rfl⟩
  · rename_i hopen
    have hopen' : (openRDWR io fs p).2.notNil = false := by simpa using hopen
    cases hocc : Generated.FuncsIO.occurrences (map2Inner registry p) count (fun a b => some (snapshotOccurrenceFMT a b)) with
    | none => rw [hocc] at h; cases h
    | some reg =>
      rw [hocc] at h
      simp only [Option.bind_some, Option.some.injEq] at h
      subst h
      have hpath : (fileAtEnd fs (openRDWR io fs p).1).path = p := openRDWR_path io fs p
      obtain ⟨k1, k2⟩ := fileRest_keeps io update sort (fileAtEnd fs (openRDWR io fs p).1) fs
        (goScan (goObsolete re skipped runOnly reg) update (scan (fileContent fs (openRDWR io fs p).1)) .outer { obsolete := obs })
        (by rw [hpath]; exact openRDWR_ok io fs p hopen')
      rw [hpath] at k1
      refine ⟨k1, k2, fun hu hs => ?_⟩
      subst hu; subst hs
      exact fileRest_noop io _ fs _

theorem goFiles_keeps (io : IOFail) (re : Text → Text → Bool × Bool) (skipped : List Text) (registry : Map2)
    (runOnly : Text) (count : Int) (update sort : Bool) (used : List Text) (fs : FS) (obs : List Text) (r : OS)
    (h : goFiles (fileStep io re skipped registry runOnly count update sort) used fs obs = some r) :
    FsKeeps (· ∈ used) fs r.2.1 ∧ RetOK r ∧ (update = false → sort = false → r.2.1 = fs) := by
  induction used generalizing fs obs with
  | nil =>
    simp only [goFiles, Option.some.injEq] at h
    subst h
    exact ⟨FsKeeps.refl _ _, (fun x hx => by cases hx), fun _ _ => rfl⟩
  | cons p rest ih =>
    rw [goFiles] at h
    cases hs : fileStep io re skipped registry runOnly count update sort p fs obs with
    | none => rw [hs] at h; cases h
    | some step =>
      obtain ⟨k1, k2, k3⟩ := fileStep_keeps io re skipped registry runOnly count update sort p fs obs step hs
      rw [hs] at h
      cases step with
      | done r' =>
        simp only [Option.some.injEq] at h
        subst h
        exact ⟨k1.mono (fun q hq => by simp [hq]), k2, k3⟩
      | yield r' =>
        simp only at h
        obtain ⟨j1, j2, j3⟩ := ih _ _ h
        refine ⟨(k1.mono (fun q hq => by simp [hq])).trans (j1.mono (fun q hq => by simp [hq])), j2, fun hu hs' => ?_⟩
        rw [j3 hu hs']; exact k3 hu hs'

/-- **`examineSnaps` and the file system, for every failure oracle**: only the used files can change,
    no file appears or disappears, and without `update` and `sort` nothing changes at all -/
theorem examineSnaps_keeps (io : IOFail) (fs : FS) (re : Text → Text → Bool × Bool) (skipped : List Text)
    (registry : Map2) (used : List Text) (runOnly : Text) (count : Int) (update sort : Bool) (r : Ret)
    (h : Generated.FuncsIO.examineSnaps io fs re skipped registry used runOnly count update sort = some r) :
    FsKeeps (· ∈ used) fs r.1 ∧ (update = false → sort = false → r.1 = fs) := by
  rw [examineSnaps_eq] at h
  cases hg : goFiles (fileStep io re skipped registry runOnly count update sort) used fs [] with
  | none => rw [hg] at h; cases h
  | some os =>
    rw [hg] at h
    simp only [Option.map_some, Option.some.injEq] at h
    obtain ⟨k1, k2, k3⟩ := goFiles_keeps io re skipped registry runOnly count update sort used fs [] os hg
    have : r.1 = os.2.1 := by
      rw [← h]
      unfold finish
      cases hx : os.1 with
      | none => rfl
      | some x => exact k2 x hx
    rw [this]
    exact ⟨k1, k3⟩

/-! ### `examineFiles`, for every failure oracle -/

/-- `out'` extends `out` by the lines of failed `os.Remove` calls -/
def StdoutExt (out out' : Text) : Prop :=
  ∃ errs : List Err, out' = out ++ (errs.map (fun e => e.text ++ [10])).flatten ∧ ∀ e ∈ errs, e.notNil = true

theorem StdoutExt.refl (out : Text) : StdoutExt out out := ⟨[], by simp, fun _ h => by cases h⟩

theorem StdoutExt.trans {a b c : Text} (h1 : StdoutExt a b) (h2 : StdoutExt b c) : StdoutExt a c := by
  obtain ⟨e1, r1, g1⟩ := h1
  obtain ⟨e2, r2, g2⟩ := h2
  refine ⟨e1 ++ e2, by rw [r2, r1]; simp, fun e he => ?_⟩
  rcases List.mem_append.mp he with h | h
  · exact g1 e h
  · exact g2 e h

/-- what both loops of `examineFiles` preserve: report mode touches neither the file system nor
    `stdout`; `stdout` only grows by error lines; `used` only holds registered files -/
structure FilesInvIO (registry : Map2) (update : Bool) (s0 s : FSt) : Prop where
  noupdate : update = false → s.1 = s0.1 ∧ s.2.1 = s0.2.1
  stdout : StdoutExt s0.2.1 s.2.1
  used : (∀ p ∈ s0.2.2.2, map2Has registry p = true) → ∀ p ∈ s.2.2.2, map2Has registry p = true

theorem FilesInvIO.refl (registry : Map2) (update : Bool) (s : FSt) : FilesInvIO registry update s s :=
  ⟨fun _ => ⟨rfl, rfl⟩, StdoutExt.refl _, fun h => h⟩

theorem FilesInvIO.trans {registry : Map2} {update : Bool} {a b c : FSt} (h1 : FilesInvIO registry update a b)
    (h2 : FilesInvIO registry update b c) : FilesInvIO registry update a c :=
  ⟨fun hu => ⟨((h2.noupdate hu).1).trans (h1.noupdate hu).1, ((h2.noupdate hu).2).trans (h1.noupdate hu).2⟩,
    h1.stdout.trans h2.stdout, fun h => h2.used (h1.used h)⟩

theorem goEntry_inv (io : IOFail) (parseFile : Text → List GoDecl × Err) (re : Text → Text → Bool × Bool)
    (registry : Map2) (sa : GoSet) (runOnly : Text) (update : Bool) (dir : Text) (s : FSt) (c : DirEntry) :
    FilesInvIO registry update s (goEntry io parseFile re registry sa runOnly update dir s c) := by
  rw [goEntry_class]
  cases hu : isUsed registry dir (entPair c) with
  | true =>
    refine ⟨fun _ => ⟨rfl, rfl⟩, StdoutExt.refl _, fun h p hp => ?_⟩
    simp only [↓reduceIte] at hp
    rcases List.mem_append.mp hp with h' | h'
    · exact h p h'
    · simp only [List.mem_singleton] at h'; subst h'
      unfold isUsed at hu
      simp only [Bool.and_eq_true] at hu
      exact hu.2
  | false =>
    cases ho : isObs parseFile re registry sa runOnly dir (entPair c) with
    | false => exact FilesInvIO.refl _ _ _
    | true =>
      cases update with
      | false => exact ⟨fun _ => ⟨rfl, rfl⟩, StdoutExt.refl _, fun h => h⟩
      | true =>
        refine ⟨(fun h => by cases h), ?_, fun h => h⟩
        simp only [Bool.false_eq_true, ↓reduceIte]
        split
        · rename_i hn
          exact ⟨[(remove io s.1 (entryPath dir (entPair c))).2], by simp, fun e he => by
            simp only [List.mem_singleton] at he; subst he; exact hn⟩
        · exact StdoutExt.refl _

theorem foldl_inv {α : Type} (registry : Map2) (update : Bool) (f : FSt → α → FSt)
    (hf : ∀ s a, FilesInvIO registry update s (f s a)) (l : List α) (s : FSt) :
    FilesInvIO registry update s (l.foldl f s) := by
  induction l generalizing s with
  | nil => exact FilesInvIO.refl _ _ _
  | cons a l ih => rw [List.foldl_cons]; exact (hf s a).trans (ih _)

theorem examineFiles_inv (io : IOFail) (fs : FS) (out : Text) (parseFile : Text → List GoDecl × Err)
    (re : Text → Text → Bool × Bool) (registry : Map2) (sa : GoSet) (runOnly : Text) (update : Bool) :
    FilesInvIO registry update (fs, out, [], [])
      (Generated.FuncsIO.examineFiles io fs out parseFile re registry sa runOnly update) := by
  rw [examineFiles_eq]
  apply foldl_inv
  intro s d
  unfold goDir
  apply foldl_inv
  intro s' c
  exact goEntry_inv io parseFile re registry sa runOnly update d s' c


/-! ### the three outcome facts -/

/-- the stages of a run of `Clean` that did not panic -/
theorem cleanSteps_some (io : IOFail) (st st' : St) (parseFile : Text → List GoDecl × Err) (re : Text → Text → Bool × Bool)
    (runOnly : Text) (count : Int) (sortOpt : Bool)
    (h : cleanSteps io st parseFile re runOnly count sortOpt = some st') :
    ∃ sa r, Generated.FuncsIO.occurrences st.sreg.cleanup count standaloneOccurrenceFMT = some sa ∧
      Generated.FuncsIO.examineSnaps io
        (Generated.FuncsIO.examineFiles io st.fs st.stdout parseFile re st.reg.cleanup sa runOnly (cleanUpd st)).1
        re st.skipped st.reg.cleanup
        (Generated.FuncsIO.examineFiles io st.fs st.stdout parseFile re st.reg.cleanup sa runOnly (cleanUpd st)).2.2.2
        runOnly count (cleanUpd st) (sortOpt && !st.env.isCI) = some r ∧
      st' = cleanFinish st
        (Generated.FuncsIO.examineFiles io st.fs st.stdout parseFile re st.reg.cleanup sa runOnly (cleanUpd st)) r := by
  unfold cleanSteps at h
  cases hsa : Generated.FuncsIO.occurrences st.sreg.cleanup count standaloneOccurrenceFMT with
  | none => rw [hsa] at h; cases h
  | some sa =>
    rw [hsa] at h
    simp only [Option.bind_some] at h
    cases hr : Generated.FuncsIO.examineSnaps io
        (Generated.FuncsIO.examineFiles io st.fs st.stdout parseFile re st.reg.cleanup sa runOnly (cleanUpd st)).1
        re st.skipped st.reg.cleanup
        (Generated.FuncsIO.examineFiles io st.fs st.stdout parseFile re st.reg.cleanup sa runOnly (cleanUpd st)).2.2.2
        runOnly count (cleanUpd st) (sortOpt && !st.env.isCI) with
    | none => rw [hr] at h; cases h
    | some r =>
      rw [hr] at h
      simp only [Option.bind_some, Option.some.injEq] at h
      exact ⟨sa, r, rfl, hr, h.symm⟩

theorem cleanFinish_fs (st : St) (files : FSt) (snaps : FS × List Text × Err) :
    (cleanFinish st files snaps).fs = snaps.1 := by
  unfold cleanFinish
  split
  · rfl
  · split <;> rfl

/-- **7a (C05).** `Clean_ci_readonly`: on CI (`isCI = true`) `Clean` leaves the file system exactly as
    it is, whatever `UPDATE_SNAPS`, `CleanOpts.Sort` and the failure oracle are -/
theorem Clean_ci_readonly (io : IOFail) (st st' : St) (parseFile : Text → List GoDecl × Err)
    (re : Text → Text → Bool × Bool) (runFlag : Text) (countFlag : Int × Err) (opts : List Bool)
    (hci : st.env.isCI = true)
    (h : Generated.FuncsIO.Clean io st parseFile re runFlag countFlag () opts = some st') : st'.fs = st.fs := by
  rw [Clean_eq] at h
  obtain ⟨sa, r, _, hr, rfl⟩ := cleanSteps_some io st st' parseFile re runFlag countFlag.1 _ h
  have hu : cleanUpd st = false := by unfold cleanUpd; rw [hci]; simp
  have hs : (opts.head?.getD false && !st.env.isCI) = false := by rw [hci]; simp
  rw [hu, hs] at hr
  rw [cleanFinish_fs, (examineSnaps_keeps io _ re _ _ _ _ _ false false r hr).2 rfl rfl]
  exact ((examineFiles_inv io st.fs st.stdout parseFile re st.reg.cleanup sa runFlag false).noupdate rfl).1

/-- **7b.** `Clean_no_update_no_removal`: without `UPDATE_SNAPS=true|clean` no file is removed and none
    is created (the set of existing paths is the same before and after); the content of a file can
    change only if it is a registered snapshot file (`CleanOpts.Sort` rewrites files whose entries
    are out of order — and a failing write during that rewrite can leave such a file truncated);
    without `Sort` (or on CI) the file system is exactly unchanged -/
theorem Clean_no_update_no_removal (io : IOFail) (st st' : St) (parseFile : Text → List GoDecl × Err)
    (re : Text → Text → Bool × Bool) (runFlag : Text) (countFlag : Int × Err) (opts : List Bool)
    (hnc : Generated.shouldClean st.env = false)
    (h : Generated.FuncsIO.Clean io st parseFile re runFlag countFlag () opts = some st') :
    (∀ p, (fsRead st'.fs p).isSome = (fsRead st.fs p).isSome) ∧
    (∀ p, map2Has st.reg.cleanup p = false → fsRead st'.fs p = fsRead st.fs p) ∧
    ((opts.head?.getD false = false ∨ st.env.isCI = true) → st'.fs = st.fs) := by
  rw [Clean_eq] at h
  obtain ⟨sa, r, _, hr, rfl⟩ := cleanSteps_some io st st' parseFile re runFlag countFlag.1 _ h
  have hu : cleanUpd st = false := by unfold cleanUpd; rw [hnc]; rfl
  rw [hu] at hr
  have hinv := examineFiles_inv io st.fs st.stdout parseFile re st.reg.cleanup sa runFlag false
  have hfs := (hinv.noupdate rfl).1
  simp only at hfs
  obtain ⟨k1, k2⟩ := examineSnaps_keeps io _ re _ _ _ _ _ false _ r hr
  rw [hfs] at k1 k2
  rw [cleanFinish_fs]
  refine ⟨k1.2, fun p hp => k1.1 p (fun hm => ?_), fun hno => k2 rfl ?_⟩
  · have := hinv.used (fun _ hq => by cases hq) p hm
    rw [hp] at this; cases this
  · rcases hno with h1 | h1
    · rw [h1]; rfl
    · rw [h1]; simp

/-- **7c (C20).** `Clean_prints_once`: `stdout` grows by the lines of failed `os.Remove` calls (none
    unless files are being deleted), followed by exactly one of: the error of `examineSnaps` and a
    newline; or the summary of the two lists the stages returned, the number of skipped tests and
    the events — and a newline — unless that summary is empty, in which case nothing is printed -/
theorem Clean_prints_once (io : IOFail) (st st' : St) (parseFile : Text → List GoDecl × Err)
    (re : Text → Text → Bool × Bool) (runFlag : Text) (countFlag : Int × Err) (opts : List Bool)
    (h : Generated.FuncsIO.Clean io st parseFile re runFlag countFlag () opts = some st') :
    ∃ (errs : List Err) (tail : Text),
      st'.stdout = st.stdout ++ (errs.map (fun e => e.text ++ [10])).flatten ++ tail ∧
      (∀ e ∈ errs, e.notNil = true) ∧ (cleanUpd st = false → errs = []) ∧
      ((∃ e : Err, e.notNil = true ∧ tail = e.text ++ [10]) ∨
       (∃ obsFiles obsTests : List Text,
          tail = if Generated.FuncsIO.summary obsFiles obsTests (GoSem.len st.skipped) st.events (cleanUpd st) = [] then []
            else Generated.FuncsIO.summary obsFiles obsTests (GoSem.len st.skipped) st.events (cleanUpd st) ++ [10])) := by
  rw [Clean_eq] at h
  obtain ⟨sa, r, _, hr, rfl⟩ := cleanSteps_some io st st' parseFile re runFlag countFlag.1 _ h
  have hinv := examineFiles_inv io st.fs st.stdout parseFile re st.reg.cleanup sa runFlag (cleanUpd st)
  obtain ⟨errs, he, hn⟩ := hinv.stdout
  simp only at he
  -- in report mode nothing was printed by `examineFiles`
  have herrs : cleanUpd st = false → errs = [] := by
    intro hu
    have h2 := (hinv.noupdate hu).2
    simp only at h2
    rw [h2] at he
    cases errs with
    | nil => rfl
    | cons e es =>
      have := congrArg List.length he
      simp at this
  generalize Generated.FuncsIO.examineFiles io st.fs st.stdout parseFile re st.reg.cleanup sa runFlag (cleanUpd st) = files at he hr ⊢
  unfold cleanFinish
  by_cases h1 : r.2.2.notNil = true
  · refine ⟨errs, r.2.2.text ++ [10], ?_, hn, herrs, Or.inl ⟨r.2.2, h1, rfl⟩⟩
    simp only [h1, ↓reduceIte, he, List.append_assoc]
  · simp only [h1, Bool.false_eq_true, ↓reduceIte]
    by_cases h2 : Generated.FuncsIO.summary files.2.2.1 r.2.1 (GoSem.len st.skipped) st.events (cleanUpd st) = []
    · refine ⟨errs, [], ?_, hn, herrs, Or.inr ⟨files.2.2.1, r.2.1, by rw [if_pos h2]⟩⟩
      simp [h2, he]
    · refine ⟨errs, Generated.FuncsIO.summary files.2.2.1 r.2.1 (GoSem.len st.skipped) st.events (cleanUpd st) ++ [10],
        ?_, hn, herrs, Or.inr ⟨files.2.2.1, r.2.1, by rw [if_neg h2]⟩⟩
      have : (Generated.FuncsIO.summary files.2.2.1 r.2.1 (GoSem.len st.skipped) st.events (cleanUpd st) != []) = true := by
        simpa using h2
      simp only [this, ↓reduceIte, he, List.append_assoc]

/-! ## 8. `Clean` on a concrete world

`/s/a.snap` is the used file (registered by `TestA`, holds the entries `TestA - 1` and the obsolete
`TestB - 1`), `/s/b.snap` is an obsolete file in the same directory, `/s/c.txt` is not a snapshot;
one snapshot passed. -/

def xReport : Generated.Env := ⟨false, ""⟩
def xClean : Generated.Env := ⟨false, "clean"⟩
def xSt (env : Generated.Env) : St :=
  { env := env, fs := xFS, reg := { running := xRegistry, cleanup := xRegistry }, events := [(evPassed, 1)] }
def xW (env : Generated.Env) : World :=
  { env := env, fs := xFS, cleanup := [((xA, [84, 101, 115, 116, 65]), 1)], events := { passed := 1 } }

theorem xRel (env : Generated.Env) : CleanRel (xSt env) (xW env) where
  env := rfl
  fs := rfl
  skipped := rfl
  reg := by
    intro p x
    by_cases hp : p = xA
    · subst hp
      have : map2Inner (xSt env).reg.cleanup xA = intImage (mineOf (xW env).cleanup xA) := rfl
      rw [this]
    · have h1 : map2Inner (xSt env).reg.cleanup p = [] := by
        have : ¬ xA = p := fun e => hp e.symm
        simp [xSt, xRegistry, map2Inner, this]
      have h2 : mineOf (xW env).cleanup p = [] := by
        have : ¬ xA = p := fun e => hp e.symm
        simp [xW, mineOf, this]
      rw [h1, h2]; rfl
  regKeys := by intro p; simp [xSt, xW, xRegistry]
  sreg := fun x => Iff.rfl
  passed := rfl
  erred := rfl
  added := rfl
  updated := rfl
  eventsWF := fun p hp => by
    have : p = (evPassed, 1) := by simpa [xSt] using hp
    subst this; exact ⟨Or.inl rfl, by decide⟩

theorem xParseSound : ParseSound {} xParse := fun p key entry h => by simp at h

theorem xOneDir (env : Generated.Env) : ∀ standalone, GoSnaps.occurrences (xW env).scleanup 1 standaloneOccFmt = some standalone →
    ∀ p ∈ cleanRegPaths (xW env) ++ standalone, fpDir p = [47, 115] := by
  intro standalone h p hp
  have h0 : GoSnaps.occurrences (xW env).scleanup 1 standaloneOccFmt = some [] := rfl
  rw [h0] at h; cases h
  have h1 : cleanRegPaths (xW env) = [xA] := by
    have : (xW env).cleanup.map (·.1.1) = [xA] := rfl
    unfold cleanRegPaths; rw [this]; decide
  rw [h1] at hp
  have : p = xA := by simpa using hp
  subst this; decide

/-- report mode: nothing changes on disk; the summary lists the obsolete file and the obsolete test
    and tells how to remove them -/
example : (Generated.FuncsIO.Clean IOFail.never (xSt xReport) xParse cRe [] (1, Err.nil) () []).map (fun s => (s.fs, s.stdout)) =
    some (xFS, GoSnaps.summary [xB] [[84, 101, 115, 116, 66, 32, 45, 32, 49]] 0 { passed := 1 } true false ++ [10]) := by
  decide +kernel
/-- clean mode: `/s/b.snap` is removed, `TestB - 1` is dropped from `/s/a.snap`, both are listed as removed -/
example : (Generated.FuncsIO.Clean IOFail.never (xSt xClean) xParse cRe [] (1, Err.nil) () []).map (fun s => (s.fs, s.stdout)) =
    some ([(xA, cFileA), ([47, 115, 47, 99, 46, 116, 120, 116], [2])],
      GoSnaps.summary [xB] [[84, 101, 115, 116, 66, 32, 45, 32, 49]] 0 { passed := 1 } true true ++ [10]) := by
  decide +kernel
/-- the same two runs through `Clean_tied_one_dir` -/
example (env : Generated.Env) (h : (GoSnaps.clean {} (xW env) false [] 1).2.unsupported = none) :
    Generated.FuncsIO.Clean IOFail.never (xSt env) xParse cRe [] (((1 : Nat) : Int), Err.nil) () [] =
      some { xSt env with fs := (GoSnaps.clean {} (xW env) false [] 1).1.fs,
                          stdout := (GoSnaps.clean {} (xW env) false [] 1).2.stdout } := by
  have := Clean_tied_one_dir {} (xSt env) (xW env) xParse cRe [] 1 Err.nil [] (xRel env) (by decide) xParseSound cSound
    [47, 115] (xOneDir env) (fun _ => joinFaithful_example) h
  simpa [xSt] using this
example : (GoSnaps.clean {} (xW xReport) false [] 1).2.unsupported = none ∧
    (GoSnaps.clean {} (xW xClean) false [] 1).2.unsupported = none := by constructor <;> decide
/-- on CI with `UPDATE_SNAPS=clean` and `Sort`: read-only -/
example (st' : St)
    (h : Generated.FuncsIO.Clean IOFail.never (xSt ⟨true, "clean"⟩) xParse cRe [] (1, Err.nil) () [true] = some st') :
    st'.fs = xFS := Clean_ci_readonly _ _ _ _ _ _ _ _ rfl h
example : ∃ st', Generated.FuncsIO.Clean IOFail.never (xSt ⟨true, "clean"⟩) xParse cRe [] (1, Err.nil) () [true] = some st' ∧
    st'.fs = xFS := by
  cases h : Generated.FuncsIO.Clean IOFail.never (xSt ⟨true, "clean"⟩) xParse cRe [] (1, Err.nil) () [true] with
  | none =>
    have : (Generated.FuncsIO.Clean IOFail.never (xSt ⟨true, "clean"⟩) xParse cRe [] (1, Err.nil) () [true]).isSome = true := by
      decide
    rw [h] at this; cases this
  | some st' => exact ⟨st', rfl, Clean_ci_readonly _ _ _ _ _ _ _ _ rfl h⟩
/-- `count = 0` with a registered standalone snapshot: the Go code panics (integer divide by zero) -/
example : Generated.FuncsIO.Clean IOFail.never { xSt xReport with sreg := { cleanup := [([112], 1)] } } xParse cRe []
    (0, Err.nil) () [] = none := by
  rw [Clean_eq]; unfold cleanSteps; rw [occurrences_count_zero _ _ (by decide)]; rfl

/-! ### two directories, visited by the transliteration in another order than the model's -/

def ySt (env : Generated.Env) : St :=
  { env := env, fs := yFS, reg := { running := yRegistry, cleanup := yRegistry }, events := [(evPassed, 2)] }
def yW (env : Generated.Env) : World :=
  { env := env, fs := yFS, cleanup := [((xA, [84, 101, 115, 116, 65]), 1), ((yTA, [84, 101, 115, 116, 65]), 1)],
    events := { passed := 2 } }

theorem yRel (env : Generated.Env) : CleanRel (ySt env) (yW env) where
  env := rfl
  fs := rfl
  skipped := rfl
  reg := by
    intro p x
    by_cases hp : p = xA
    · subst hp
      have : map2Inner (ySt env).reg.cleanup xA = intImage (mineOf (yW env).cleanup xA) := rfl
      rw [this]
    · by_cases hp2 : p = yTA
      · subst hp2
        have : map2Inner (ySt env).reg.cleanup yTA = intImage (mineOf (yW env).cleanup yTA) := rfl
        rw [this]
      · have n1 : ¬ xA = p := fun e => hp e.symm
        have n2 : ¬ yTA = p := fun e => hp2 e.symm
        have h1 : map2Inner (ySt env).reg.cleanup p = [] := by simp [ySt, yRegistry, map2Inner, n1, n2]
        have h2 : mineOf (yW env).cleanup p = [] := by simp [yW, mineOf, n1, n2]
        rw [h1, h2]; rfl
  regKeys := by intro p; simp [ySt, yW, yRegistry]; exact Or.comm
  sreg := fun x => Iff.rfl
  passed := rfl
  erred := rfl
  added := rfl
  updated := rfl
  eventsWF := fun p hp => by
    have : p = (evPassed, 2) := by simpa [ySt] using hp
    subst this; exact ⟨Or.inl rfl, by decide⟩

/-- the transliteration lists `/t/b.snap` before `/s/b.snap`, the model the other way round: the two
    summaries differ in the order of two item lines, and in nothing else -/
example : (Generated.FuncsIO.Clean IOFail.never (ySt xReport) xParse cRe [] (1, Err.nil) () []).map (fun s => (s.fs, s.stdout)) =
      some (yFS, GoSnaps.summary [yTB, xB] [] 0 { passed := 2 } true false ++ [10]) ∧
    (GoSnaps.clean {} (yW xReport) false [] 1).2.stdout = GoSnaps.summary [xB, yTB] [] 0 { passed := 2 } true false ++ [10] := by
  constructor <;> decide +kernel
/-- `Clean_tied` on this world -/
example (env : Generated.Env) (h : (GoSnaps.clean {} (yW env) false [] 1).2.unsupported = none) :
    ∃ fs'' obsFiles obsTests,
      Generated.FuncsIO.Clean IOFail.never (ySt env) xParse cRe [] (((1 : Nat) : Int), Err.nil) () [] =
        some { ySt env with fs := fs'', stdout := (ySt env).stdout ++ cleanStdout (yW env) false obsFiles obsTests } ∧
      (∀ p, fsRead fs'' p = fsRead (GoSnaps.clean {} (yW env) false [] 1).1.fs p) ∧
      ∃ standalone fr obsT fs' written, CleanRun {} (yW env) false [] 1 standalone fr obsT fs' written ∧
        obsFiles.Perm fr.obsolete ∧ obsTests.Perm obsT :=
  Clean_tied {} (ySt env) (yW env) xParse cRe [] 1 Err.nil [] (yRel env) (by decide) xParseSound cSound
    (fun sa hsa => by
      have : sa = [] := by
        have h0 : Generated.FuncsIO.occurrences (ySt env).sreg.cleanup ((1 : Nat) : Int) standaloneOccurrenceFMT = some [] := rfl
        rw [h0] at hsa; exact (Option.some.inj hsa).symm
      subst this
      exact ⟨yJoin, yIndep⟩) h

end GoSnaps.Tie
