/-
Tie by proof, part 11b: `examineFiles` (snaps/clean.go; `Generated/FuncsIO.lean`) against the model's
`examineFiles` (`GoSnaps/Clean.lean`).

The Go function ranges over maps and sets (unspecified order; the transliteration iterates in list
order), the model visits the directories in byte order (`sortBytes (dedup …)`).

A. `examineFiles_eq`            : for EVERY failure oracle, the transliteration is a fold over the
                                  directories (`goDirs`) of a fold over the entries (`goDir`, `goEntry`);
B. `obsOf` / `usedOf`           : what one listing contributes, without any file system (classification
                                  `isCand`, `isUsed`, `isObs`); `goEntry_fold_lists`, `goEntry_fold_noupdate`
                                  (every oracle), `goEntry_fold_never` (`IOFail.never`);
C. `FilesCorr`, `filesInner_fold` : the correspondence (registry keys = `regPaths`, standalone set =
                                  `standalone`, sound parser / regexp tables) and the model's inner loop in
                                  terms of the same classification;
D. `readDir_names_nodup`, `readDir_file_exists`, `JoinFaithful`, `DirOK`, `dirOK_of_joinFaithful`;
E. `dir_step_tied`              : one directory — the transliteration does the model's step exactly;
F. `examineFiles_tied_partial`  : all directories, when they are visited in the model's order: exact;
G. `examineFiles_tied`          : ANY order: `stdout` unchanged, a file system with the same content,
                                  `obsolete` and `used` permutations of the model's (`goDirs_perm`,
                                  `readDir_fsRemove`, `goDirs_fold_indep`, `DirsIndependent`,
                                  `dirsIndependent_of_notUnder`, `used_flatMap_nodup`);
H. `joinFaithful_abs`           : `filepath.Join(dir, name) = dir/name` for every absolute clean `dir`;
I. `examineFiles_tied_one_dir`  : one directory: exact, no hypothesis on the order; concrete inputs.
-/
import GoSnaps.Props.Tie.CleanTopIO1
namespace GoSnaps.Tie
open GoSnaps GoSnaps.GoIO
open GoSnaps.Generated.FuncsIO

/-! ## A. closed form, for every failure oracle -/

/-- the variables the loops of `examineFiles` carry: `fs`, `stdout`, `obsolete`, `used` -/
abbrev FSt := FS × Text × List Text × List Text

/-- one directory entry -/
def goEntry (io : IOFail) (parseFile : Text → List GoDecl × Err) (re : Text → Text → Bool × Bool)
    (registry : Map2) (sa : GoSet) (runOnly : Text) (update : Bool) (dir : Text) (s : FSt) (c : DirEntry) : FSt :=
  if (c.isDir || !containsSub c.name Generated.go_snapsExt) = true then s
  else if map2Has registry (fpJoin [dir, c.name]) = true then (s.1, s.2.1, s.2.2.1, s.2.2.2 ++ [fpJoin [dir, c.name]])
  else if setHas sa (fpJoin [dir, c.name]) = true then s
  else if Generated.FuncsIO.isFileSkipped parseFile re dir c.name runOnly = true then s
  else if (!update) = true then (s.1, s.2.1, s.2.2.1 ++ [fpJoin [dir, c.name]], s.2.2.2)
  else if (remove io s.1 (fpJoin [dir, c.name])).2.notNil = true then
    ((remove io s.1 (fpJoin [dir, c.name])).1, s.2.1 ++ (remove io s.1 (fpJoin [dir, c.name])).2.text ++ [10],
      s.2.2.1 ++ [fpJoin [dir, c.name]], s.2.2.2)
  else ((remove io s.1 (fpJoin [dir, c.name])).1, s.2.1, s.2.2.1 ++ [fpJoin [dir, c.name]], s.2.2.2)

/-- one directory: list it once, then look at every entry -/
def goDir (io : IOFail) (parseFile : Text → List GoDecl × Err) (re : Text → Text → Bool × Bool)
    (registry : Map2) (sa : GoSet) (runOnly : Text) (update : Bool) (s : FSt) (dir : Text) : FSt :=
  ((GoIO.readDir io s.1 dir).1).foldl (goEntry io parseFile re registry sa runOnly update dir) s

/-- `uniqueDirs`, in the order the transliteration builds it -/
def goDirs (registry : Map2) (sa : GoSet) : GoSet :=
  sa.foldl (fun acc p => setAdd acc (fpDir p)) ((registry.map (·.1)).foldl (fun acc p => setAdd acc (fpDir p)) [])

/-- **`examineFiles`, for every failure oracle**: a fold over the directories of a fold over the
    entries of each listing -/
theorem examineFiles_eq (io : IOFail) (fs : FS) (out : Text) (parseFile : Text → List GoDecl × Err)
    (re : Text → Text → Bool × Bool) (registry : Map2) (sa : GoSet) (runOnly : Text) (update : Bool) :
    Generated.FuncsIO.examineFiles io fs out parseFile re registry sa runOnly update =
      (goDirs registry sa).foldl (goDir io parseFile re registry sa runOnly update) (fs, out, [], []) := by
  unfold Generated.FuncsIO.examineFiles
  simp only [Id.run, pure, bind, Prod.eta]
  simp only [forIn_id_fold _ _ _ (fun acc p => setAdd acc (fpDir p)) (fun _ _ => rfl)]
  rw [forIn_id_fold _ _ _ (goDir io parseFile re registry sa runOnly update) ?h]
  · rfl
  case h =>
    intro dir s
    congr 1
    unfold goDir
    apply forIn_id_fold
    intro c s
    unfold goEntry
    repeat' split
    all_goals rfl

/-! ## B. what one directory listing contributes (no file system involved) -/

/-- `filepath.Join(dir, content.Name())` -/
def entryPath (dir : Text) (c : Text × Bool) : Text := fpJoin [dir, c.1]

/-- a regular file whose name contains `.snap` -/
def isCand (c : Text × Bool) : Bool := !(c.2 || !containsSub c.1 Generated.go_snapsExt)

/-- `_, called := registry[snapPath]` -/
def isUsed (registry : Map2) (dir : Text) (c : Text × Bool) : Bool :=
  isCand c && map2Has registry (entryPath dir c)

/-- neither called, nor a registered standalone snapshot, nor skipped through `-run` -/
def isObs (parseFile : Text → List GoDecl × Err) (re : Text → Text → Bool × Bool) (registry : Map2) (sa : GoSet)
    (runOnly dir : Text) (c : Text × Bool) : Bool :=
  isCand c && !map2Has registry (entryPath dir c) && !setHas sa (entryPath dir c) &&
    !Generated.FuncsIO.isFileSkipped parseFile re dir c.1 runOnly

/-- the obsolete files of one listing, in listing order -/
def obsOf (parseFile : Text → List GoDecl × Err) (re : Text → Text → Bool × Bool) (registry : Map2) (sa : GoSet)
    (runOnly dir : Text) (L : List (Text × Bool)) : List Text :=
  (L.filter (isObs parseFile re registry sa runOnly dir)).map (entryPath dir)

/-- the used files of one listing, in listing order -/
def usedOf (registry : Map2) (dir : Text) (L : List (Text × Bool)) : List Text :=
  (L.filter (isUsed registry dir)).map (entryPath dir)

theorem obsOf_cons (parseFile : Text → List GoDecl × Err) (re : Text → Text → Bool × Bool) (registry : Map2) (sa : GoSet)
    (runOnly dir : Text) (c : Text × Bool) (L : List (Text × Bool)) :
    obsOf parseFile re registry sa runOnly dir (c :: L) =
      (if isObs parseFile re registry sa runOnly dir c then [entryPath dir c] else []) ++
        obsOf parseFile re registry sa runOnly dir L := by
  unfold obsOf
  cases h : isObs parseFile re registry sa runOnly dir c <;> simp [h]

theorem usedOf_cons (registry : Map2) (dir : Text) (c : Text × Bool) (L : List (Text × Bool)) :
    usedOf registry dir (c :: L) = (if isUsed registry dir c then [entryPath dir c] else []) ++ usedOf registry dir L := by
  unfold usedOf
  cases h : isUsed registry dir c <;> simp [h]

/-- one entry in terms of the classification, for every failure oracle -/
theorem goEntry_class (io : IOFail) (parseFile : Text → List GoDecl × Err) (re : Text → Text → Bool × Bool)
    (registry : Map2) (sa : GoSet) (runOnly : Text) (update : Bool) (dir : Text) (s : FSt) (c : DirEntry) :
    goEntry io parseFile re registry sa runOnly update dir s c =
      if isUsed registry dir (entPair c) then (s.1, s.2.1, s.2.2.1, s.2.2.2 ++ [entryPath dir (entPair c)])
      else if isObs parseFile re registry sa runOnly dir (entPair c) then
        if update then
          ((remove io s.1 (entryPath dir (entPair c))).1,
           (if (remove io s.1 (entryPath dir (entPair c))).2.notNil then
              s.2.1 ++ (remove io s.1 (entryPath dir (entPair c))).2.text ++ [10] else s.2.1),
           s.2.2.1 ++ [entryPath dir (entPair c)], s.2.2.2)
        else (s.1, s.2.1, s.2.2.1 ++ [entryPath dir (entPair c)], s.2.2.2)
      else s := by
  unfold goEntry isUsed isObs isCand entryPath entPair
  simp only
  cases c.isDir <;> cases containsSub c.name Generated.go_snapsExt <;>
    cases map2Has registry (fpJoin [dir, c.name]) <;> cases setHas sa (fpJoin [dir, c.name]) <;>
    cases Generated.FuncsIO.isFileSkipped parseFile re dir c.name runOnly <;> cases update <;>
    cases (remove io s.1 (fpJoin [dir, c.name])).2.notNil <;> simp

/-- the two lists `examineFiles` returns do not depend on the file system operations: for every
    failure oracle and mode, one listing appends its obsolete and its used files -/
theorem goEntry_fold_lists (io : IOFail) (parseFile : Text → List GoDecl × Err) (re : Text → Text → Bool × Bool)
    (registry : Map2) (sa : GoSet) (runOnly : Text) (update : Bool) (dir : Text) (Ld : List DirEntry) (s : FSt) :
    (Ld.foldl (goEntry io parseFile re registry sa runOnly update dir) s).2.2.1 =
        s.2.2.1 ++ obsOf parseFile re registry sa runOnly dir (Ld.map entPair) ∧
    (Ld.foldl (goEntry io parseFile re registry sa runOnly update dir) s).2.2.2 =
        s.2.2.2 ++ usedOf registry dir (Ld.map entPair) := by
  induction Ld generalizing s with
  | nil => simp [obsOf, usedOf]
  | cons c Ld ih =>
    rw [List.foldl_cons, List.map_cons, obsOf_cons, usedOf_cons]
    obtain ⟨h1, h2⟩ := ih (goEntry io parseFile re registry sa runOnly update dir s c)
    rw [h1, h2, goEntry_class]
    cases hu : isUsed registry dir (entPair c) <;> cases ho : isObs parseFile re registry sa runOnly dir (entPair c) <;>
      cases update <;> simp
    · -- used and obsolete exclude each other
      unfold isUsed at hu; unfold isObs at ho
      simp only [Bool.and_eq_true, Bool.not_eq_true'] at hu ho
      rw [hu.2] at ho; simp at ho
    · unfold isUsed at hu; unfold isObs at ho
      simp only [Bool.and_eq_true, Bool.not_eq_true'] at hu ho
      rw [hu.2] at ho; simp at ho

/-- report mode (`shouldUpdate = false`), every failure oracle: nothing is removed, nothing printed -/
theorem goEntry_fold_noupdate (io : IOFail) (parseFile : Text → List GoDecl × Err) (re : Text → Text → Bool × Bool)
    (registry : Map2) (sa : GoSet) (runOnly : Text) (dir : Text) (Ld : List DirEntry) (s : FSt) :
    (Ld.foldl (goEntry io parseFile re registry sa runOnly false dir) s).1 = s.1 ∧
    (Ld.foldl (goEntry io parseFile re registry sa runOnly false dir) s).2.1 = s.2.1 := by
  induction Ld generalizing s with
  | nil => exact ⟨rfl, rfl⟩
  | cons c Ld ih =>
    rw [List.foldl_cons]
    obtain ⟨h1, h2⟩ := ih (goEntry io parseFile re registry sa runOnly false dir s c)
    rw [h1, h2, goEntry_class]
    cases isUsed registry dir (entPair c) <;> cases isObs parseFile re registry sa runOnly dir (entPair c) <;> simp

/-- `os.Remove` of an existing file when no call fails -/
theorem remove_never (fs : FS) (p : Text) (h : fsRead fs p ≠ none) :
    remove IOFail.never fs p = (fsRemove fs p, Err.nil) := by
  unfold remove
  simp only [IOFail.never]
  cases hr : fsRead fs p with
  | none => exact absurd hr h
  | some c => rfl

/-- clean mode under `IOFail.never`: if the obsolete files of the listing exist and are pairwise
    different, each is removed and nothing is printed -/
theorem goEntry_fold_never (parseFile : Text → List GoDecl × Err) (re : Text → Text → Bool × Bool)
    (registry : Map2) (sa : GoSet) (runOnly : Text) (dir : Text) (Ld : List DirEntry) (s : FSt)
    (hex : ∀ p ∈ obsOf parseFile re registry sa runOnly dir (Ld.map entPair), fsRead s.1 p ≠ none)
    (hnd : (obsOf parseFile re registry sa runOnly dir (Ld.map entPair)).Nodup) :
    (Ld.foldl (goEntry IOFail.never parseFile re registry sa runOnly true dir) s).1 =
        (obsOf parseFile re registry sa runOnly dir (Ld.map entPair)).foldl fsRemove s.1 ∧
    (Ld.foldl (goEntry IOFail.never parseFile re registry sa runOnly true dir) s).2.1 = s.2.1 := by
  induction Ld generalizing s with
  | nil => exact ⟨rfl, rfl⟩
  | cons c Ld ih =>
    rw [List.map_cons, obsOf_cons] at hex hnd
    rw [List.foldl_cons, List.map_cons, obsOf_cons]
    cases ho : isObs parseFile re registry sa runOnly dir (entPair c) with
    | false =>
      simp only [ho, Bool.false_eq_true, ↓reduceIte, List.nil_append] at hex hnd ⊢
      have hs1 : (goEntry IOFail.never parseFile re registry sa runOnly true dir s c).1 = s.1 := by
        rw [goEntry_class, ho]; cases isUsed registry dir (entPair c) <;> simp
      have hs2 : (goEntry IOFail.never parseFile re registry sa runOnly true dir s c).2.1 = s.2.1 := by
        rw [goEntry_class, ho]; cases isUsed registry dir (entPair c) <;> simp
      obtain ⟨h1, h2⟩ := ih (goEntry IOFail.never parseFile re registry sa runOnly true dir s c)
        (by rw [hs1]; exact hex) hnd
      rw [h1, h2, hs1, hs2]
      exact ⟨rfl, rfl⟩
    | true =>
      simp only [ho, ↓reduceIte, List.singleton_append, List.mem_cons, forall_eq_or_imp, List.nodup_cons,
        List.foldl_cons] at hex hnd ⊢
      have hu : isUsed registry dir (entPair c) = false := by
        cases hu : isUsed registry dir (entPair c) with
        | false => rfl
        | true =>
          unfold isUsed at hu; unfold isObs at ho
          simp only [Bool.and_eq_true, Bool.not_eq_true'] at hu ho
          rw [hu.2] at ho; simp at ho
      have hrm := remove_never s.1 (entryPath dir (entPair c)) hex.1
      have hs1 : (goEntry IOFail.never parseFile re registry sa runOnly true dir s c).1 =
          fsRemove s.1 (entryPath dir (entPair c)) := by
        rw [goEntry_class, ho, hu, hrm]; simp
      have hs2 : (goEntry IOFail.never parseFile re registry sa runOnly true dir s c).2.1 = s.2.1 := by
        rw [goEntry_class, ho, hu, hrm]; simp [Err.notNil]
      obtain ⟨h1, h2⟩ := ih (goEntry IOFail.never parseFile re registry sa runOnly true dir s c)
        (by
          intro q hq
          rw [hs1, fsRead_fsRemove]
          have hne : q ≠ entryPath dir (entPair c) := fun e => hnd.1 (e ▸ hq)
          simp only [hne, ↓reduceIte]
          exact hex.2 q hq) hnd.2
      rw [h1, h2, hs1, hs2]
      exact ⟨rfl, rfl⟩

/-! ## C. the model's loops in terms of the same classification -/

/-- how the Go registry, the standalone set and the parser/regexp functions correspond to what the
    model's `examineFiles` is given -/
structure FilesCorr (o : Oracles) (parseFile : Text → List GoDecl × Err) (re : Text → Text → Bool × Bool)
    (registry : Map2) (sa : GoSet) (regPaths standalone : List Text) (runOnly : Text) : Prop where
  /-- the keys of `registry` are the model's registered paths -/
  reg : ∀ p, p ∈ registry.map (·.1) ↔ p ∈ regPaths
  /-- the standalone set has the members of the model's list -/
  sa : ∀ p, p ∈ sa ↔ p ∈ standalone
  parse : ParseSound o parseFile
  re : OracleSound o re runOnly

theorem map2Has_iff_mem (m : Map2) (a : Text) : map2Has m a = true ↔ a ∈ m.map (·.1) := by
  unfold map2Has
  rw [List.any_eq_true]
  constructor
  · rintro ⟨x, hx, he⟩; exact List.mem_map.mpr ⟨x, hx, by simpa using he⟩
  · intro h; obtain ⟨x, hx, he⟩ := List.mem_map.mp h; exact ⟨x, hx, by simpa using he⟩

theorem contains_eq_of_mem_iff (l₁ l₂ : List Text) (p : Text) (h : p ∈ l₁ ↔ p ∈ l₂) : l₁.contains p = l₂.contains p := by
  by_cases h1 : p ∈ l₁
  · rw [List.contains_iff_mem.mpr h1, List.contains_iff_mem.mpr (h.mp h1)]
  · have h2 : p ∉ l₂ := fun e => h1 (h.mpr e)
    have e1 : l₁.contains p = false := by simpa using h1
    have e2 : l₂.contains p = false := by simpa using h2
    rw [e1, e2]

theorem FilesCorr.has {o : Oracles} {parseFile : Text → List GoDecl × Err} {re : Text → Text → Bool × Bool}
    {registry : Map2} {sa : GoSet} {regPaths standalone : List Text} {runOnly : Text}
    (h : FilesCorr o parseFile re registry sa regPaths standalone runOnly) (p : Text) :
    regPaths.contains p = map2Has registry p := by
  cases hm : map2Has registry p with
  | true => exact List.contains_iff_mem.mpr ((h.reg p).mp ((map2Has_iff_mem _ _).mp hm))
  | false =>
    have : p ∉ regPaths := fun e => by
      have := (map2Has_iff_mem registry p).mpr ((h.reg p).mpr e)
      rw [hm] at this; cases this
    simpa using this

theorem FilesCorr.setHas {o : Oracles} {parseFile : Text → List GoDecl × Err} {re : Text → Text → Bool × Bool}
    {registry : Map2} {sa : GoSet} {regPaths standalone : List Text} {runOnly : Text}
    (h : FilesCorr o parseFile re registry sa regPaths standalone runOnly) (p : Text) :
    standalone.contains p = setHas sa p :=
  (contains_eq_of_mem_iff sa standalone p (h.sa p)).symm

theorem snapsExt_eq : Generated.snapsExt = Generated.go_snapsExt := by decide

/-- one step of the model's inner loop, when it has a result -/
theorem filesInner_class (o : Oracles) (parseFile : Text → List GoDecl × Err) (re : Text → Text → Bool × Bool)
    (registry : Map2) (sa : GoSet) (regPaths standalone : List Text) (runOnly : Text) (update : Bool) (dir : Text)
    (hc : FilesCorr o parseFile re registry sa regPaths standalone runOnly) (r r' : FilesResult) (x : Text × Bool)
    (h : filesInner o regPaths standalone runOnly update dir (some r) x = some r') :
    r' = if isUsed registry dir x then { r with used := r.used ++ [entryPath dir x] }
      else if isObs parseFile re registry sa runOnly dir x then
        if update then { r with obsolete := r.obsolete ++ [entryPath dir x], fs := fsRemove r.fs (entryPath dir x),
                                removed := r.removed ++ [entryPath dir x] }
        else { r with obsolete := r.obsolete ++ [entryPath dir x] }
      else r := by
  unfold filesInner at h
  unfold isUsed isObs isCand entryPath
  simp only [snapsExt_eq, hc.has, hc.setHas] at h
  cases h1 : (x.2 || !containsSub x.1 Generated.go_snapsExt) with
  | true => simp only [h1, ↓reduceIte, Option.some.injEq] at h; simp [h]
  | false =>
    simp only [h1, Bool.false_eq_true, ↓reduceIte] at h
    cases h2 : map2Has registry (fpJoin [dir, x.1]) with
    | true => simp only [h2, ↓reduceIte, Option.some.injEq] at h; simp [h]
    | false =>
      simp only [h2, Bool.false_eq_true, ↓reduceIte] at h
      cases h3 : setHas sa (fpJoin [dir, x.1]) with
      | true => simp only [h3, ↓reduceIte, Option.some.injEq] at h; simp [h]
      | false =>
        simp only [h3, Bool.false_eq_true, ↓reduceIte] at h
        cases h4 : GoSnaps.isFileSkipped o dir x.1 runOnly with
        | none => rw [h4] at h; cases h
        | some b =>
          have hb := isFileSkipped_sound o parseFile re dir x.1 runOnly hc.parse hc.re b h4
          rw [h4] at h
          cases b with
          | true => simp only [Option.some.injEq] at h; simp [hb, h]
          | false =>
            simp only at h
            cases update with
            | true => simp only [↓reduceIte, Option.some.injEq] at h; simp [hb, h]
            | false => simp only [Bool.false_eq_true, ↓reduceIte, Option.some.injEq] at h; simp [hb, h]

theorem foldl_filesInner_none (o : Oracles) (regPaths standalone : List Text) (runOnly : Text) (update : Bool) (dir : Text)
    (L : List (Text × Bool)) : L.foldl (filesInner o regPaths standalone runOnly update dir) none = none := by
  induction L with
  | nil => rfl
  | cons x L ih => rw [List.foldl_cons]; exact ih

/-- the model's inner loop over one listing, when it has a result: the obsolete and used files of
    the listing are appended, and in clean mode the obsolete ones are removed -/
theorem filesInner_fold (o : Oracles) (parseFile : Text → List GoDecl × Err) (re : Text → Text → Bool × Bool)
    (registry : Map2) (sa : GoSet) (regPaths standalone : List Text) (runOnly : Text) (update : Bool) (dir : Text)
    (hc : FilesCorr o parseFile re registry sa regPaths standalone runOnly) (L : List (Text × Bool)) (r r' : FilesResult)
    (h : L.foldl (filesInner o regPaths standalone runOnly update dir) (some r) = some r') :
    r'.obsolete = r.obsolete ++ obsOf parseFile re registry sa runOnly dir L ∧
    r'.used = r.used ++ usedOf registry dir L ∧
    r'.fs = (if update then (obsOf parseFile re registry sa runOnly dir L).foldl fsRemove r.fs else r.fs) ∧
    r'.removed = r.removed ++ (if update then obsOf parseFile re registry sa runOnly dir L else []) := by
  induction L generalizing r with
  | nil =>
    simp only [List.foldl_nil, Option.some.injEq] at h
    subst h
    cases update <;> simp [obsOf, usedOf]
  | cons x L ih =>
    rw [List.foldl_cons] at h
    cases hx : filesInner o regPaths standalone runOnly update dir (some r) x with
    | none => rw [hx, foldl_filesInner_none] at h; cases h
    | some r1 =>
      rw [hx] at h
      obtain ⟨h1, h2, h3, h4⟩ := ih r1 h
      have hr1 := filesInner_class o parseFile re registry sa regPaths standalone runOnly update dir hc r r1 x hx
      rw [h1, h2, h3, h4, obsOf_cons, usedOf_cons, hr1]
      cases hu : isUsed registry dir x <;> cases ho : isObs parseFile re registry sa runOnly dir x <;>
        cases update <;> simp
      · unfold isUsed at hu; unfold isObs at ho
        simp only [Bool.and_eq_true, Bool.not_eq_true'] at hu ho
        rw [hu.2] at ho; simp at ho
      · unfold isUsed at hu; unfold isObs at ho
        simp only [Bool.and_eq_true, Bool.not_eq_true'] at hu ho
        rw [hu.2] at ho; simp at ho

/-! ## D. the listing: names are pairwise different, listed regular files exist -/

/-- `dir + "/"`, the prefix of the paths directly or indirectly inside `dir` -/
def dirPrefix (dir : Text) : Text := if dir = [slash] then dir else dir ++ [slash]

theorem readDir_ins_perm (x : Text × Bool) (l : List (Text × Bool)) : (readDir.ins x l).Perm (x :: l) := by
  induction l with
  | nil => exact List.Perm.refl _
  | cons y ys ih =>
    simp only [readDir.ins]
    split
    · exact ((List.Perm.cons y ih).trans (List.Perm.swap x y ys))
    · exact List.Perm.refl _

theorem readDir_sort_perm (l : List (Text × Bool)) : (l.foldr (fun x acc => readDir.ins x acc) []).Perm l := by
  induction l with
  | nil => exact List.Perm.refl _
  | cons x xs ih =>
    rw [List.foldr_cons]
    exact (readDir_ins_perm x _).trans (List.Perm.cons x ih)

theorem uniq_names_nodup (ents acc : List (Text × Bool)) (h : (acc.map (·.1)).Nodup) :
    ((ents.foldl (fun acc e => if acc.any (·.1 = e.1) then acc else acc ++ [e]) acc).map (·.1)).Nodup := by
  induction ents generalizing acc with
  | nil => exact h
  | cons e es ih =>
    rw [List.foldl_cons]
    apply ih
    split
    · exact h
    · rename_i hn
      rw [List.map_append, List.nodup_append]
      refine ⟨h, by simp, ?_⟩
      intro a ha b hb
      simp only [List.map_cons, List.map_nil, List.mem_singleton] at hb
      subst hb
      intro hab
      apply hn
      rw [List.any_eq_true]
      obtain ⟨y, hy, hya⟩ := List.mem_map.mp ha
      exact ⟨y, hy, by simp [hya, hab]⟩

theorem uniq_sub (ents acc : List (Text × Bool)) (e : Text × Bool)
    (h : e ∈ ents.foldl (fun acc e => if acc.any (·.1 = e.1) then acc else acc ++ [e]) acc) : e ∈ acc ∨ e ∈ ents := by
  induction ents generalizing acc with
  | nil => exact Or.inl h
  | cons x xs ih =>
    rw [List.foldl_cons] at h
    rcases ih _ h with h' | h'
    · split at h'
      · exact Or.inl h'
      · rcases List.mem_append.mp h' with h'' | h''
        · exact Or.inl h''
        · simp only [List.mem_singleton] at h''; exact Or.inr (by simp [h''])
    · exact Or.inr (by simp [h'])

theorem takeWhile_eq_self_of_length {α : Type} (p : α → Bool) (l : List α) (h : (l.takeWhile p).length = l.length) :
    l.takeWhile p = l := by
  induction l with
  | nil => rfl
  | cons a l ih =>
    simp only [List.takeWhile_cons] at h ⊢
    split at h
    · rename_i hp
      simp only [hp, ↓reduceIte, List.cons.injEq, true_and]
      exact ih (by simpa using h)
    · simp at h

theorem fsRead_of_mem (fs : FS) (p c : Text) (h : (p, c) ∈ fs) : fsRead fs p ≠ none := by
  induction fs with
  | nil => cases h
  | cons kv fs ih =>
    obtain ⟨p', c'⟩ := kv
    by_cases hp : p' = p
    · simp [fsRead, hp]
    · simp only [fsRead, hp, ↓reduceIte]
      rcases List.mem_cons.mp h with h' | h'
      · cases h'; exact absurd rfl hp
      · exact ih h'

/-- the names of a listing are pairwise different -/
theorem readDir_names_nodup (fs : FS) (dir : Text) : ((GoSnaps.readDir fs dir).map (·.1)).Nodup := by
  unfold GoSnaps.readDir
  simp only
  exact ((readDir_sort_perm _).map _).nodup_iff.mpr (uniq_names_nodup _ [] List.nodup_nil)

/-- a listed regular file exists: its path is `dir/name` -/
theorem readDir_file_exists (fs : FS) (dir name : Text) (h : (name, false) ∈ GoSnaps.readDir fs dir) :
    fsRead fs (dirPrefix dir ++ name) ≠ none := by
  unfold GoSnaps.readDir at h
  simp only at h
  unfold dirPrefix
  generalize (if dir = [slash] then dir else dir ++ [slash]) = pre at h ⊢
  have h1 := (readDir_sort_perm _).mem_iff.mp h
  rcases uniq_sub _ _ _ h1 with h2 | h2
  · cases h2
  · obtain ⟨⟨p, c⟩, hpc, hx⟩ := List.mem_filterMap.mp h2
    simp only at hx
    cases hpre : hasPrefix p pre with
    | false => rw [hpre] at hx; simp at hx
    | true =>
      rw [hpre] at hx
      simp only [↓reduceIte] at hx
      split at hx
      · cases hx
      · simp only [Option.some.injEq, Prod.mk.injEq, decide_eq_false_iff_not, ne_eq, Decidable.not_not] at hx
        obtain ⟨hname, hlen⟩ := hx
        have hrest := takeWhile_eq_self_of_length _ _ hlen
        have hp : p = pre ++ name := by
          unfold hasPrefix at hpre
          obtain ⟨t, ht⟩ := List.isPrefixOf_iff_prefix.mp hpre
          have hd : List.drop (List.length pre) p = t := by
            rw [← ht]; simp
          rw [← hname, hrest, hd, ← ht]
        rw [← hp]
        exact fsRead_of_mem fs p c hpc

/-- a name as `os.ReadDir` returns it that `examineFiles` looks at -/
def SimpleName (name : Text) : Prop :=
  name ≠ [] ∧ slash ∉ name ∧ containsSub name Generated.go_snapsExt = true

/-- `filepath.Join(dir, name)` is `dir/name` for the names of a listing: true for a directory as
    `filepath.Dir` returns it (clean) other than `.` — in particular for every absolute one -/
def JoinFaithful (dir : Text) : Prop := ∀ name, SimpleName name → fpJoin [dir, name] = dirPrefix dir ++ name

/-- what `os.Remove` needs in order to succeed silently on every obsolete file of the listing: the
    files exist and are pairwise different -/
def DirOK (parseFile : Text → List GoDecl × Err) (re : Text → Text → Bool × Bool) (registry : Map2) (sa : GoSet)
    (runOnly : Text) (fs : FS) (dir : Text) : Prop :=
  (∀ p ∈ obsOf parseFile re registry sa runOnly dir (GoSnaps.readDir fs dir), fsRead fs p ≠ none) ∧
  (obsOf parseFile re registry sa runOnly dir (GoSnaps.readDir fs dir)).Nodup

theorem nodup_map_of_inj_on {α β γ : Type} (f : α → β) (g : α → γ) (l : List α) (hg : (l.map g).Nodup)
    (h : ∀ a ∈ l, ∀ b ∈ l, f a = f b → g a = g b) : (l.map f).Nodup := by
  induction l with
  | nil => exact List.nodup_nil
  | cons a l ih =>
    rw [List.map_cons, List.nodup_cons] at hg ⊢
    refine ⟨?_, ih hg.2 (fun x hx y hy => h x (by simp [hx]) y (by simp [hy]))⟩
    intro hm
    obtain ⟨b, hb, hfb⟩ := List.mem_map.mp hm
    exact hg.1 (List.mem_map.mpr ⟨b, hb, (h a (by simp) b (by simp [hb]) hfb.symm).symm⟩)

theorem isObs_simple (parseFile : Text → List GoDecl × Err) (re : Text → Text → Bool × Bool) (registry : Map2) (sa : GoSet)
    (runOnly dir : Text) (fs : FS) (c : Text × Bool) (hc : c ∈ GoSnaps.readDir fs dir)
    (ho : isObs parseFile re registry sa runOnly dir c = true) : c.2 = false ∧ SimpleName c.1 := by
  unfold isObs isCand at ho
  simp only [Bool.and_eq_true, Bool.not_eq_true', Bool.or_eq_false_iff, Bool.not_eq_false'] at ho
  obtain ⟨h1, h2⟩ := readDir_name fs dir c hc
  exact ⟨ho.1.1.1.1, h1, h2, ho.1.1.1.2⟩

/-- for a directory on which `filepath.Join` is faithful, every file system is fine -/
theorem dirOK_of_joinFaithful (parseFile : Text → List GoDecl × Err) (re : Text → Text → Bool × Bool) (registry : Map2)
    (sa : GoSet) (runOnly : Text) (fs : FS) (dir : Text) (hj : JoinFaithful dir) :
    DirOK parseFile re registry sa runOnly fs dir := by
  constructor
  · intro p hp
    unfold obsOf at hp
    obtain ⟨c, hc, rfl⟩ := List.mem_map.mp hp
    obtain ⟨hcm, hco⟩ := List.mem_filter.mp hc
    obtain ⟨hd, hs⟩ := isObs_simple parseFile re registry sa runOnly dir fs c hcm hco
    unfold entryPath
    rw [hj _ hs]
    apply readDir_file_exists
    have : c = (c.1, false) := by rw [← hd]
    rw [← this]; exact hcm
  · unfold obsOf
    apply nodup_map_of_inj_on (entryPath dir) (·.1)
    · exact (List.filter_sublist.map _).nodup (readDir_names_nodup fs dir)
    · intro a ha b hb hab
      obtain ⟨ham, hao⟩ := List.mem_filter.mp ha
      obtain ⟨hbm, hbo⟩ := List.mem_filter.mp hb
      unfold entryPath at hab
      rw [hj _ (isObs_simple parseFile re registry sa runOnly dir fs a ham hao).2,
        hj _ (isObs_simple parseFile re registry sa runOnly dir fs b hbm hbo).2] at hab
      exact List.append_cancel_left hab

/-! ## E. one directory: the transliteration does the model's step -/

/-- **4, per-directory step**: from corresponding states (same file system, same lists) the loop body
    of `for dir := range uniqueDirs` under `IOFail.never` does what the model's `filesOuter` does:
    same file system afterwards (equal as lists), same `obsolete` and `used`, nothing printed.
    In clean mode the obsolete files of the listing must exist under the path `filepath.Join`
    computes and be pairwise different (`DirOK`; see `dirOK_of_joinFaithful`). -/
theorem dir_step_tied (o : Oracles) (parseFile : Text → List GoDecl × Err) (re : Text → Text → Bool × Bool)
    (registry : Map2) (sa : GoSet) (regPaths standalone : List Text) (runOnly : Text) (update : Bool) (dir : Text)
    (hc : FilesCorr o parseFile re registry sa regPaths standalone runOnly) (r r' : FilesResult) (out : Text)
    (hok : update = true → DirOK parseFile re registry sa runOnly r.fs dir)
    (h : filesOuter o regPaths standalone runOnly update (some r) dir = some r') :
    goDir IOFail.never parseFile re registry sa runOnly update (r.fs, out, r.obsolete, r.used) dir =
      (r'.fs, out, r'.obsolete, r'.used) := by
  unfold filesOuter at h
  simp only at h
  obtain ⟨h1, h2, h3, h4⟩ := filesInner_fold o parseFile re registry sa regPaths standalone runOnly update dir hc _ r r' h
  unfold goDir
  have hL := readDir_never r.fs dir
  simp only at hL ⊢
  obtain ⟨g1, g2⟩ := goEntry_fold_lists IOFail.never parseFile re registry sa runOnly update dir
    (GoIO.readDir IOFail.never r.fs dir).1 (r.fs, out, r.obsolete, r.used)
  rw [hL] at g1 g2
  cases update with
  | false =>
    obtain ⟨g3, g4⟩ := goEntry_fold_noupdate IOFail.never parseFile re registry sa runOnly dir
      (GoIO.readDir IOFail.never r.fs dir).1 (r.fs, out, r.obsolete, r.used)
    simp only [Bool.false_eq_true, ↓reduceIte] at h3
    rw [h1, h2, h3]
    exact Prod.ext g3 (Prod.ext g4 (Prod.ext g1 g2))
  | true =>
    obtain ⟨hex, hnd⟩ := hok rfl
    obtain ⟨g3, g4⟩ := goEntry_fold_never parseFile re registry sa runOnly dir
      (GoIO.readDir IOFail.never r.fs dir).1 (r.fs, out, r.obsolete, r.used) (by rw [hL]; exact hex) (by rw [hL]; exact hnd)
    rw [hL] at g3
    simp only [↓reduceIte] at h3
    rw [h1, h2, h3]
    exact Prod.ext g3 (Prod.ext g4 (Prod.ext g1 g2))

/-! ## F. all directories, processed in the model's order -/

theorem foldl_filesOuter_none (o : Oracles) (regPaths standalone : List Text) (runOnly : Text) (update : Bool)
    (ds : List Text) : ds.foldl (filesOuter o regPaths standalone runOnly update) none = none := by
  induction ds with
  | nil => rfl
  | cons d ds ih => rw [List.foldl_cons]; exact ih

/-- the loop over the directories, for any list of directories and any corresponding start state -/
theorem dirs_fold_tied (o : Oracles) (parseFile : Text → List GoDecl × Err) (re : Text → Text → Bool × Bool)
    (registry : Map2) (sa : GoSet) (regPaths standalone : List Text) (runOnly : Text) (update : Bool)
    (hc : FilesCorr o parseFile re registry sa regPaths standalone runOnly) (out : Text) (ds : List Text)
    (hj : update = true → ∀ d ∈ ds, JoinFaithful d) (r r' : FilesResult)
    (h : ds.foldl (filesOuter o regPaths standalone runOnly update) (some r) = some r') :
    ds.foldl (goDir IOFail.never parseFile re registry sa runOnly update) (r.fs, out, r.obsolete, r.used) =
      (r'.fs, out, r'.obsolete, r'.used) := by
  induction ds generalizing r with
  | nil => simp only [List.foldl_nil, Option.some.injEq] at h; subst h; rfl
  | cons d ds ih =>
    rw [List.foldl_cons] at h ⊢
    cases hd : filesOuter o regPaths standalone runOnly update (some r) d with
    | none => rw [hd, foldl_filesOuter_none] at h; cases h
    | some r1 =>
      rw [hd] at h
      rw [dir_step_tied o parseFile re registry sa regPaths standalone runOnly update d hc r r1 out
        (fun hu => dirOK_of_joinFaithful parseFile re registry sa runOnly r.fs d (hj hu d (by simp))) hd]
      exact ih (fun hu d' hd' => hj hu d' (by simp [hd'])) r1 h

/-- **4, partial form** `examineFiles_tied_partial`: if the transliteration happens to range over
    `uniqueDirs` in the model's canonical order (always the case when at most one directory is
    involved, see `examineFiles_tied_one_dir`), then under `IOFail.never` the transliterated
    `examineFiles` returns exactly the model's result: the same file system (as a list), the same
    `obsolete` and `used` lists, and `stdout` unchanged. -/
theorem examineFiles_tied_partial (o : Oracles) (parseFile : Text → List GoDecl × Err) (re : Text → Text → Bool × Bool)
    (registry : Map2) (sa : GoSet) (regPaths standalone : List Text) (runOnly : Text) (update : Bool)
    (hc : FilesCorr o parseFile re registry sa regPaths standalone runOnly) (fs : FS) (out : Text)
    (hdirs : goDirs registry sa = sortBytes (dedup ((regPaths ++ standalone).map fpDir)))
    (hj : update = true → ∀ d ∈ goDirs registry sa, JoinFaithful d) (r : FilesResult)
    (h : GoSnaps.examineFiles o fs regPaths standalone runOnly update = some r) :
    Generated.FuncsIO.examineFiles IOFail.never fs out parseFile re registry sa runOnly update =
      (r.fs, out, r.obsolete, r.used) := by
  rw [GoSnaps.examineFiles_eq, ← hdirs] at h
  rw [examineFiles_eq]
  exact dirs_fold_tied o parseFile re registry sa regPaths standalone runOnly update hc out _ hj { fs := fs } r h

/-! ## G. any order of the directories: the result up to permutation -/

theorem foldl_setAdd_spec (f : Text → Text) (l : List Text) (acc : GoSet) (hacc : acc.Nodup) :
    (l.foldl (fun acc p => setAdd acc (f p)) acc).Nodup ∧
    ∀ x, x ∈ l.foldl (fun acc p => setAdd acc (f p)) acc ↔ x ∈ acc ∨ x ∈ l.map f := by
  induction l generalizing acc with
  | nil => exact ⟨hacc, by simp⟩
  | cons a l ih =>
    rw [List.foldl_cons]
    obtain ⟨h1, h2⟩ := ih (setAdd acc (f a)) (setAdd_nodup _ _ hacc)
    refine ⟨h1, fun x => ?_⟩
    rw [h2, mem_setAdd, List.map_cons, List.mem_cons]
    constructor
    · rintro ((h | h) | h)
      · exact Or.inl h
      · exact Or.inr (Or.inl h)
      · exact Or.inr (Or.inr h)
    · rintro (h | h | h)
      · exact Or.inl (Or.inl h)
      · exact Or.inl (Or.inr h)
      · exact Or.inr h

/-- `uniqueDirs` has no duplicates and holds the directories of the registry keys and of the
    standalone set -/
theorem goDirs_spec (registry : Map2) (sa : GoSet) :
    (goDirs registry sa).Nodup ∧ ∀ x, x ∈ goDirs registry sa ↔ x ∈ (registry.map (·.1) ++ sa).map fpDir := by
  unfold goDirs
  obtain ⟨h1, h2⟩ := foldl_setAdd_spec fpDir (registry.map (·.1)) [] List.nodup_nil
  obtain ⟨h3, h4⟩ := foldl_setAdd_spec fpDir sa _ h1
  refine ⟨h3, fun x => ?_⟩
  rw [h4, h2, List.map_append, List.mem_append]
  simp

theorem dedup_spec (l : List Text) : (dedup l).Nodup ∧ ∀ x, x ∈ dedup l ↔ x ∈ l := by
  have e : dedup l = l.foldl (fun acc p => setAdd acc (id p)) [] := rfl
  rw [e]
  obtain ⟨h1, h2⟩ := foldl_setAdd_spec id l [] List.nodup_nil
  exact ⟨h1, fun x => by rw [h2]; simp⟩

theorem sortBytes_ins_perm (x : Text) (l : List Text) : (sortBytes.ins x l).Perm (x :: l) := by
  induction l with
  | nil => exact List.Perm.refl _
  | cons y ys ih =>
    simp only [sortBytes.ins]
    split
    · exact ((List.Perm.cons y ih).trans (List.Perm.swap x y ys))
    · exact List.Perm.refl _

theorem sortBytes_perm (l : List Text) : (sortBytes l).Perm l := by
  unfold sortBytes
  induction l with
  | nil => exact List.Perm.refl _
  | cons x xs ih =>
    rw [List.foldr_cons]
    exact (sortBytes_ins_perm x _).trans (List.Perm.cons x ih)

/-- the transliteration visits the model's directories, possibly in another order -/
theorem goDirs_perm (o : Oracles) (parseFile : Text → List GoDecl × Err) (re : Text → Text → Bool × Bool)
    (registry : Map2) (sa : GoSet) (regPaths standalone : List Text) (runOnly : Text)
    (hc : FilesCorr o parseFile re registry sa regPaths standalone runOnly) :
    (goDirs registry sa).Perm (sortBytes (dedup ((regPaths ++ standalone).map fpDir))) := by
  obtain ⟨h1, h2⟩ := goDirs_spec registry sa
  obtain ⟨h3, h4⟩ := dedup_spec ((regPaths ++ standalone).map fpDir)
  refine (List.perm_ext_iff_of_nodup h1 ((sortBytes_perm _).nodup_iff.mpr h3)).mpr (fun x => ?_)
  rw [h2, (sortBytes_perm _).mem_iff, h4]
  simp only [List.map_append, List.mem_append, List.mem_map]
  constructor
  · rintro (⟨a, ha, rfl⟩ | ⟨a, ha, rfl⟩)
    · exact Or.inl ⟨a, (hc.reg a).mp (List.mem_map.mpr ha), rfl⟩
    · exact Or.inr ⟨a, (hc.sa a).mp ha, rfl⟩
  · rintro (⟨a, ha, rfl⟩ | ⟨a, ha, rfl⟩)
    · exact Or.inl ⟨a, List.mem_map.mp ((hc.reg a).mpr ha), rfl⟩
    · exact Or.inr ⟨a, (hc.sa a).mpr ha, rfl⟩

/-- removing a path that does not lie under `dir` does not change the listing of `dir` -/
theorem readDir_fsRemove (fs : FS) (q dir : Text) (h : hasPrefix q (dirPrefix dir) = false) :
    GoSnaps.readDir (fsRemove fs q) dir = GoSnaps.readDir fs dir := by
  unfold GoSnaps.readDir
  simp only
  unfold dirPrefix at h
  generalize (if dir = [slash] then dir else dir ++ [slash]) = pre at h ⊢
  congr 2
  unfold fsRemove
  rw [List.filterMap_filter]
  apply filterMap_congr_mem
  intro x _
  by_cases hx : x.1 = q
  · subst hx; simp [h]
  · simp [hx]

theorem readDir_foldl_fsRemove (fs : FS) (qs : List Text) (dir : Text)
    (h : ∀ q ∈ qs, hasPrefix q (dirPrefix dir) = false) :
    GoSnaps.readDir (qs.foldl fsRemove fs) dir = GoSnaps.readDir fs dir := by
  induction qs generalizing fs with
  | nil => rfl
  | cons q qs ih =>
    rw [List.foldl_cons, ih _ (fun q' hq' => h q' (by simp [hq'])), readDir_fsRemove _ _ _ (h q (by simp))]

theorem fsRead_foldl_fsRemove_iff (fs : FS) (ps : List Text) (q : Text) :
    fsRead (ps.foldl fsRemove fs) q = if q ∈ ps then none else fsRead fs q := by
  induction ps generalizing fs with
  | nil => simp
  | cons p ps ih =>
    rw [List.foldl_cons, ih, fsRead_fsRemove]
    by_cases h1 : q ∈ ps
    · simp [h1]
    · by_cases h2 : q = p
      · simp [h2]
      · simp [h1, h2]

/-- the file system after the removals of `examineFiles` -/
def fsAfter (update : Bool) (fs : FS) (ps : List Text) : FS := if update then ps.foldl fsRemove fs else fs

/-- one directory under `IOFail.never`, Go side only -/
theorem goDir_never (parseFile : Text → List GoDecl × Err) (re : Text → Text → Bool × Bool)
    (registry : Map2) (sa : GoSet) (runOnly : Text) (update : Bool) (dir : Text) (s : FSt)
    (hok : update = true → DirOK parseFile re registry sa runOnly s.1 dir) :
    goDir IOFail.never parseFile re registry sa runOnly update s dir =
      (fsAfter update s.1 (obsOf parseFile re registry sa runOnly dir (GoSnaps.readDir s.1 dir)), s.2.1,
        s.2.2.1 ++ obsOf parseFile re registry sa runOnly dir (GoSnaps.readDir s.1 dir),
        s.2.2.2 ++ usedOf registry dir (GoSnaps.readDir s.1 dir)) := by
  unfold goDir fsAfter
  have hL := readDir_never s.1 dir
  obtain ⟨g1, g2⟩ := goEntry_fold_lists IOFail.never parseFile re registry sa runOnly update dir
    (GoIO.readDir IOFail.never s.1 dir).1 s
  rw [hL] at g1 g2
  cases update with
  | false =>
    obtain ⟨g3, g4⟩ := goEntry_fold_noupdate IOFail.never parseFile re registry sa runOnly dir
      (GoIO.readDir IOFail.never s.1 dir).1 s
    exact Prod.ext g3 (Prod.ext g4 (Prod.ext g1 g2))
  | true =>
    obtain ⟨hex, hnd⟩ := hok rfl
    obtain ⟨g3, g4⟩ := goEntry_fold_never parseFile re registry sa runOnly dir
      (GoIO.readDir IOFail.never s.1 dir).1 s (by rw [hL]; exact hex) (by rw [hL]; exact hnd)
    rw [hL] at g3
    exact Prod.ext g3 (Prod.ext g4 (Prod.ext g1 g2))

/-- no candidate path of one directory lies under another of the directories (true when no
    snapshot directory is nested inside another one, see `dirsIndependent_of_notUnder`) -/
def DirsIndependent (ds : List Text) : Prop :=
  ∀ d ∈ ds, ∀ d' ∈ ds, d ≠ d' → ∀ name, SimpleName name → hasPrefix (fpJoin [d', name]) (dirPrefix d) = false

/-- the loop over the directories, in ANY order, in terms of the listings of the initial file
    system `fs0`: what was removed from one directory does not show in the listing of another -/
theorem goDirs_fold_indep (parseFile : Text → List GoDecl × Err) (re : Text → Text → Bool × Bool)
    (registry : Map2) (sa : GoSet) (runOnly : Text) (update : Bool) (fs0 : FS) (ds : List Text)
    (hw : update = true → (∀ d ∈ ds, JoinFaithful d) ∧ ds.Nodup ∧ DirsIndependent ds) (s : FSt)
    (hinv : ∀ d ∈ ds, GoSnaps.readDir s.1 d = GoSnaps.readDir fs0 d) :
    ds.foldl (goDir IOFail.never parseFile re registry sa runOnly update) s =
      (fsAfter update s.1 (ds.flatMap fun d => obsOf parseFile re registry sa runOnly d (GoSnaps.readDir fs0 d)), s.2.1,
        s.2.2.1 ++ ds.flatMap (fun d => obsOf parseFile re registry sa runOnly d (GoSnaps.readDir fs0 d)),
        s.2.2.2 ++ ds.flatMap (fun d => usedOf registry d (GoSnaps.readDir fs0 d))) := by
  induction ds generalizing s with
  | nil => cases update <;> simp [fsAfter]
  | cons d ds ih =>
    rw [List.foldl_cons, goDir_never parseFile re registry sa runOnly update d s
      (fun hu => dirOK_of_joinFaithful parseFile re registry sa runOnly s.1 d ((hw hu).1 d (by simp))),
      hinv d (by simp)]
    rw [ih]
    · simp only [List.flatMap_cons, List.append_assoc]
      cases update <;> simp [fsAfter, List.foldl_append]
    · intro hu
      obtain ⟨h1, h2, h3⟩ := hw hu
      exact ⟨fun d' hd' => h1 d' (by simp [hd']), (List.nodup_cons.mp h2).2,
        fun a ha b hb => h3 a (by simp [ha]) b (by simp [hb])⟩
    · intro d' hd'
      simp only
      cases hu : update with
      | false => simp only [fsAfter, Bool.false_eq_true, ↓reduceIte]; exact hinv d' (by simp [hd'])
      | true =>
        obtain ⟨h1, h2, h3⟩ := hw hu
        simp only [fsAfter, ↓reduceIte]
        rw [readDir_foldl_fsRemove]
        · exact hinv d' (by simp [hd'])
        · intro q hq
          unfold obsOf at hq
          obtain ⟨c, hc, rfl⟩ := List.mem_map.mp hq
          obtain ⟨hcm, hco⟩ := List.mem_filter.mp hc
          have hne : d' ≠ d := fun e => (List.nodup_cons.mp h2).1 (e ▸ hd')
          exact h3 d' (by simp [hd']) d (by simp) hne c.1
            (isObs_simple parseFile re registry sa runOnly d fs0 c hcm hco).2

theorem dirPrefix_getLast (d : Text) : (dirPrefix d).getLast? = some slash := by
  unfold dirPrefix
  split
  · rename_i h; rw [h]; rfl
  · simp

/-- `DirsIndependent` from a condition on the directories alone: `filepath.Join` is faithful on each
    and none lies (as a path) below or at another one -/
theorem dirsIndependent_of_notUnder (ds : List Text) (hj : ∀ d ∈ ds, JoinFaithful d)
    (hn : ∀ d ∈ ds, ∀ d' ∈ ds, d ≠ d' → hasPrefix (dirPrefix d') (dirPrefix d) = false) : DirsIndependent ds := by
  intro d hd d' hd' hne name hname
  rw [hj d' hd' name hname]
  cases hp : hasPrefix (dirPrefix d' ++ name) (dirPrefix d) with
  | false => rfl
  | true =>
    exfalso
    have hnu := hn d hd d' hd' hne
    unfold hasPrefix at hp hnu
    have h1 := List.isPrefixOf_iff_prefix.mp hp
    rcases List.prefix_or_prefix_of_prefix h1 (List.prefix_append (dirPrefix d') name) with h2 | h2
    · rw [List.isPrefixOf_iff_prefix.mpr h2] at hnu; cases hnu
    · obtain ⟨t, ht⟩ := h2
      rw [← ht] at h1
      have h3 : t <+: name := (List.prefix_append_right_inj _).mp h1
      cases t with
      | nil =>
        rw [List.append_nil] at ht
        rw [ht, List.isPrefixOf_iff_prefix.mpr (List.prefix_refl (dirPrefix d))] at hnu
        cases hnu
      | cons a t =>
        have hl := dirPrefix_getLast d
        rw [← ht, List.getLast?_append] at hl
        cases hgl : (a :: t).getLast? with
        | none => simp at hgl
        | some x =>
          rw [hgl] at hl
          simp only [Option.some_or, Option.some.injEq] at hl
          subst hl
          exact hname.2.1 (h3.subset (List.mem_of_getLast? hgl))

/-- **4.** `examineFiles_tied`: under `IOFail.never`, whenever the model's `examineFiles` has a result
    `r` (the oracle answered every query), the transliterated Go function — which ranges over the
    directories in its own order — returns a file system with the same content as `r.fs`, leaves
    `stdout` alone, and returns `obsolete` / `used` lists that are permutations of the model's.
    Correspondence: `FilesCorr` (registry keys = `regPaths`, standalone set = `standalone`, sound
    parser and regexp tables).  Well-formedness, needed in clean mode only: `filepath.Join` is
    faithful on every directory and no candidate path of one directory lies under another. -/
theorem examineFiles_tied (o : Oracles) (parseFile : Text → List GoDecl × Err) (re : Text → Text → Bool × Bool)
    (registry : Map2) (sa : GoSet) (regPaths standalone : List Text) (runOnly : Text) (update : Bool)
    (hc : FilesCorr o parseFile re registry sa regPaths standalone runOnly) (fs : FS) (out : Text)
    (hw : update = true → (∀ d ∈ goDirs registry sa, JoinFaithful d) ∧ DirsIndependent (goDirs registry sa))
    (r : FilesResult) (h : GoSnaps.examineFiles o fs regPaths standalone runOnly update = some r) :
    ∃ fs' obsolete used,
      Generated.FuncsIO.examineFiles IOFail.never fs out parseFile re registry sa runOnly update = (fs', out, obsolete, used) ∧
      (∀ p, fsRead fs' p = fsRead r.fs p) ∧ obsolete.Perm r.obsolete ∧ used.Perm r.used := by
  have hperm := goDirs_perm o parseFile re registry sa regPaths standalone runOnly hc
  have hndg := (goDirs_spec registry sa).1
  have hndm : (sortBytes (dedup ((regPaths ++ standalone).map fpDir))).Nodup := hperm.nodup_iff.mp hndg
  -- the well-formedness transported to the model's list
  have hwm : update = true → (∀ d ∈ sortBytes (dedup ((regPaths ++ standalone).map fpDir)), JoinFaithful d) ∧
      (sortBytes (dedup ((regPaths ++ standalone).map fpDir))).Nodup ∧
      DirsIndependent (sortBytes (dedup ((regPaths ++ standalone).map fpDir))) := fun hu =>
    ⟨fun d hd => (hw hu).1 d (hperm.mem_iff.mpr hd), hndm,
      fun a ha b hb => (hw hu).2 a (hperm.mem_iff.mpr ha) b (hperm.mem_iff.mpr hb)⟩
  -- the model's result is the fold in the model's order …
  rw [GoSnaps.examineFiles_eq] at h
  have hm := dirs_fold_tied o parseFile re registry sa regPaths standalone runOnly update hc out _
    (fun hu => (hwm hu).1) { fs := fs } r h
  -- … and both orders have the closed form in terms of the listings of the initial file system
  rw [goDirs_fold_indep parseFile re registry sa runOnly update fs _ hwm _ (fun _ _ => rfl)] at hm
  simp only [List.nil_append, Prod.mk.injEq] at hm
  obtain ⟨hm1, _, hm3, hm4⟩ := hm
  have hg := goDirs_fold_indep parseFile re registry sa runOnly update fs (goDirs registry sa)
      (fun hu => ⟨(hw hu).1, hndg, (hw hu).2⟩) (fs, out, [], []) (fun _ _ => rfl)
  simp only [List.nil_append] at hg
  refine ⟨_, _, _, by rw [examineFiles_eq]; exact hg, ?_, ?_, ?_⟩
  · intro p
    rw [← hm1]
    simp only [fsAfter]
    cases update with
    | false => rfl
    | true =>
      simp only [↓reduceIte, fsRead_foldl_fsRemove_iff]
      have := (hperm.flatMap_right (fun d => obsOf parseFile re registry sa runOnly d (GoSnaps.readDir fs d))).mem_iff (a := p)
      by_cases hp : p ∈ List.flatMap (fun d => obsOf parseFile re registry sa runOnly d (GoSnaps.readDir fs d)) (goDirs registry sa)
      · rw [if_pos hp, if_pos (this.mp hp)]
      · rw [if_neg hp, if_neg (fun e => hp (this.mpr e))]
  · rw [← hm3]; exact hperm.flatMap_right _
  · rw [← hm4]; exact hperm.flatMap_right _

/-- the model's result in closed form: the per-directory lists of the initial listings, in the
    model's directory order -/
theorem examineFiles_model_closed (o : Oracles) (parseFile : Text → List GoDecl × Err) (re : Text → Text → Bool × Bool)
    (registry : Map2) (sa : GoSet) (regPaths standalone : List Text) (runOnly : Text) (update : Bool)
    (hc : FilesCorr o parseFile re registry sa regPaths standalone runOnly) (fs : FS)
    (hw : update = true → (∀ d ∈ goDirs registry sa, JoinFaithful d) ∧ DirsIndependent (goDirs registry sa))
    (r : FilesResult) (h : GoSnaps.examineFiles o fs regPaths standalone runOnly update = some r) :
    r.obsolete = (sortBytes (dedup ((regPaths ++ standalone).map fpDir))).flatMap
        (fun d => obsOf parseFile re registry sa runOnly d (GoSnaps.readDir fs d)) ∧
    r.used = (sortBytes (dedup ((regPaths ++ standalone).map fpDir))).flatMap
        (fun d => usedOf registry d (GoSnaps.readDir fs d)) := by
  have hperm := goDirs_perm o parseFile re registry sa regPaths standalone runOnly hc
  have hndg := (goDirs_spec registry sa).1
  have hndm : (sortBytes (dedup ((regPaths ++ standalone).map fpDir))).Nodup := hperm.nodup_iff.mp hndg
  have hwm : update = true → (∀ d ∈ sortBytes (dedup ((regPaths ++ standalone).map fpDir)), JoinFaithful d) ∧
      (sortBytes (dedup ((regPaths ++ standalone).map fpDir))).Nodup ∧
      DirsIndependent (sortBytes (dedup ((regPaths ++ standalone).map fpDir))) := fun hu =>
    ⟨fun d hd => (hw hu).1 d (hperm.mem_iff.mpr hd), hndm,
      fun a ha b hb => (hw hu).2 a (hperm.mem_iff.mpr ha) b (hperm.mem_iff.mpr hb)⟩
  rw [GoSnaps.examineFiles_eq] at h
  have hm := dirs_fold_tied o parseFile re registry sa regPaths standalone runOnly update hc [] _
    (fun hu => (hwm hu).1) { fs := fs } r h
  rw [goDirs_fold_indep parseFile re registry sa runOnly update fs _ hwm _ (fun _ _ => rfl)] at hm
  simp only [List.nil_append, Prod.mk.injEq] at hm
  exact ⟨hm.2.2.1.symm, hm.2.2.2.symm⟩

theorem isUsed_simple (registry : Map2) (dir : Text) (fs : FS) (c : Text × Bool) (hc : c ∈ GoSnaps.readDir fs dir)
    (hu : isUsed registry dir c = true) : c.2 = false ∧ SimpleName c.1 := by
  unfold isUsed isCand at hu
  simp only [Bool.and_eq_true, Bool.not_eq_true', Bool.or_eq_false_iff, Bool.not_eq_false'] at hu
  obtain ⟨h1, h2⟩ := readDir_name fs dir c hc
  exact ⟨hu.1.1, h1, h2, hu.1.2⟩

/-- the used files of all directories are pairwise different -/
theorem used_flatMap_nodup (registry : Map2) (fs : FS) (ds : List Text) (hj : ∀ d ∈ ds, JoinFaithful d)
    (hnd : ds.Nodup) (hi : DirsIndependent ds) :
    (ds.flatMap fun d => usedOf registry d (GoSnaps.readDir fs d)).Nodup := by
  unfold List.Nodup
  rw [List.pairwise_flatMap]
  constructor
  · intro d hd
    show (usedOf registry d (GoSnaps.readDir fs d)).Nodup
    unfold usedOf
    apply nodup_map_of_inj_on (entryPath d) (·.1)
    · exact (List.filter_sublist.map _).nodup (readDir_names_nodup fs d)
    · intro a ha b hb hab
      obtain ⟨ham, hao⟩ := List.mem_filter.mp ha
      obtain ⟨hbm, hbo⟩ := List.mem_filter.mp hb
      unfold entryPath at hab
      rw [hj d hd _ (isUsed_simple registry d fs a ham hao).2, hj d hd _ (isUsed_simple registry d fs b hbm hbo).2] at hab
      exact List.append_cancel_left hab
  · refine hnd.imp_of_mem ?_
    intro d d' hd hd' hne x hx y hy hxy
    unfold usedOf at hx hy
    obtain ⟨a, ha, rfl⟩ := List.mem_map.mp hx
    obtain ⟨b, hb, rfl⟩ := List.mem_map.mp hy
    obtain ⟨ham, hao⟩ := List.mem_filter.mp ha
    obtain ⟨hbm, hbo⟩ := List.mem_filter.mp hb
    have h1 := hi d hd d' hd' hne b.1 (isUsed_simple registry d' fs b hbm hbo).2
    unfold entryPath at hxy
    rw [← hxy, hj d hd _ (isUsed_simple registry d fs a ham hao).2] at h1
    unfold hasPrefix at h1
    rw [List.isPrefixOf_iff_prefix.mpr (List.prefix_append _ _)] at h1
    cases h1

/-- under the well-formedness of `examineFiles_tied` the model's used files are pairwise different -/
theorem examineFiles_used_nodup (o : Oracles) (parseFile : Text → List GoDecl × Err) (re : Text → Text → Bool × Bool)
    (registry : Map2) (sa : GoSet) (regPaths standalone : List Text) (runOnly : Text) (update : Bool)
    (hc : FilesCorr o parseFile re registry sa regPaths standalone runOnly) (fs : FS)
    (hw : (∀ d ∈ goDirs registry sa, JoinFaithful d) ∧ DirsIndependent (goDirs registry sa))
    (r : FilesResult) (h : GoSnaps.examineFiles o fs regPaths standalone runOnly update = some r) : r.used.Nodup := by
  have hperm := goDirs_perm o parseFile re registry sa regPaths standalone runOnly hc
  rw [(examineFiles_model_closed o parseFile re registry sa regPaths standalone runOnly update hc fs (fun _ => hw) r h).2]
  exact used_flatMap_nodup registry fs _ (fun d hd => hw.1 d (hperm.mem_iff.mpr hd))
    (hperm.nodup_iff.mp (goDirs_spec registry sa).1)
    (fun a ha b hb => hw.2 a (hperm.mem_iff.mpr ha) b (hperm.mem_iff.mpr hb))

/-! ## H. `filepath.Join` is faithful on absolute clean directories -/

theorem splitSlash_cons_comp (c rest : Text) (h : slash ∉ c) :
    splitSlash (c ++ slash :: rest) = c :: splitSlash rest := by
  induction c with
  | nil => simp [splitSlash]
  | cons a c ih =>
    have ha : a ≠ slash := fun e => h (by simp [e])
    have hc : slash ∉ c := fun e => h (by simp [e])
    simp [splitSlash, ha, ih hc]

theorem splitSlash_simple (name : Text) (h : slash ∉ name) : splitSlash name = [name] := by
  induction name with
  | nil => rfl
  | cons c cs ih =>
    have hc : c ≠ slash := fun e => h (by simp [e])
    have hcs : slash ∉ cs := fun e => h (by simp [e])
    simp [splitSlash, hc, ih hcs]

/-- a path component `filepath.Clean` keeps as it is -/
def NormalComp (c : Text) : Prop := c ≠ [] ∧ slash ∉ c ∧ c ≠ [dot] ∧ c ≠ [dot, dot]

theorem splitSlash_joinSlash (comps : List Text) (name : Text) (hc : ∀ c ∈ comps, slash ∉ c) (hn : slash ∉ name)
    (hne : comps ≠ []) : splitSlash (joinSlash comps ++ slash :: name) = comps ++ [name] := by
  induction comps with
  | nil => exact absurd rfl hne
  | cons c cs ih =>
    cases cs with
    | nil =>
      simp only [joinSlash, List.cons_append, List.nil_append]
      rw [splitSlash_cons_comp c name (hc c (by simp)), splitSlash_simple name hn]
    | cons c' cs' =>
      simp only [joinSlash, List.append_assoc, List.cons_append]
      rw [splitSlash_cons_comp c _ (hc c (by simp))]
      have := ih (fun x hx => hc x (by simp [hx])) (by simp)
      rw [this]
      rfl

theorem joinSlash_append_one (comps : List Text) (name : Text) (hne : comps ≠ []) :
    joinSlash (comps ++ [name]) = joinSlash comps ++ slash :: name := by
  induction comps with
  | nil => exact absurd rfl hne
  | cons c cs ih =>
    cases cs with
    | nil => rfl
    | cons c' cs' =>
      have := ih (by simp)
      simp only [List.cons_append, joinSlash, List.append_assoc] at this ⊢
      rw [this]

theorem cleanComps_normal (cs out : List Text) (h : ∀ c ∈ cs, NormalComp c) :
    cleanComps true cs out = cs.reverse ++ out := by
  induction cs generalizing out with
  | nil => rfl
  | cons c cs ih =>
    obtain ⟨h1, _, h3, h4⟩ := h c (by simp)
    simp only [cleanComps, h1, h3, h4, decide_false, Bool.or_self, Bool.false_eq_true, ↓reduceIte]
    rw [ih _ (fun x hx => h x (by simp [hx]))]
    simp

theorem containsSub_length (s sep : Text) (h : containsSub s sep = true) : sep.length ≤ s.length := by
  unfold containsSub indexOf at h
  cases hi : indexOf.go sep s 0 with
  | none => rw [hi] at h; cases h
  | some k =>
    obtain ⟨_, hp⟩ := indexOf_go_spec sep s 0 k hi
    have := (List.isPrefixOf_iff_prefix.mp hp).length_le
    simp only [List.length_drop] at this
    omega

theorem simpleName_normal (name : Text) (h : SimpleName name) : NormalComp name := by
  obtain ⟨h1, h2, h3⟩ := h
  have hlen := containsSub_length _ _ h3
  refine ⟨h1, h2, ?_, ?_⟩
  · intro e; rw [e] at hlen; simp [Generated.go_snapsExt] at hlen
  · intro e; rw [e] at hlen; simp [Generated.go_snapsExt] at hlen

/-- **`filepath.Join(dir, name) = dir + "/" + name`** for every absolute clean directory other than
    the root: `/c₁/…/cₙ` with `n ≥ 1` and no component empty, `.`, `..` or containing a slash — the
    shape of every `filepath.Dir` of an absolute snapshot path -/
theorem joinFaithful_abs (comps : List Text) (hne : comps ≠ []) (hc : ∀ c ∈ comps, NormalComp c) :
    JoinFaithful (slash :: joinSlash comps) := by
  intro name hname
  have hn := simpleName_normal name hname
  have hd : (slash :: joinSlash comps) ≠ [slash] := by
    intro e
    have : joinSlash comps = [] := by simpa using e
    cases comps with
    | nil => exact hne rfl
    | cons c cs =>
      have hc1 := (hc c (by simp)).1
      cases cs with
      | nil => exact hc1 (by simpa [joinSlash] using this)
      | cons c' cs' => simp [joinSlash] at this
  unfold fpJoin
  have e1 : List.filter (fun x => decide (x ≠ [])) [slash :: joinSlash comps, name] = [slash :: joinSlash comps, name] := by
    simp [hn.1]
  simp only [e1, joinSlash]
  unfold fpClean dirPrefix
  simp only [hd, ↓reduceIte, List.cons_append]
  have e2 : splitSlash (slash :: (joinSlash comps ++ slash :: name)) = [] :: (comps ++ [name]) := by
    simp only [splitSlash, ↓reduceIte]
    rw [splitSlash_joinSlash comps name (fun c hc' => (hc c hc').2.1) hn.2.1 hne]
  rw [e2]
  have e3 : cleanComps true ([] :: (comps ++ [name])) [] = (comps ++ [name]).reverse := by
    simp only [cleanComps, decide_true, Bool.true_or, ↓reduceIte]
    rw [cleanComps_normal _ _ (fun c hc' => by
      rcases List.mem_append.mp hc' with h | h
      · exact hc c h
      · simp only [List.mem_singleton] at h; subst h; exact hn)]
    simp
  have e4 : (slash :: (joinSlash comps ++ slash :: name)).head? = some slash := rfl
  simp only [e4, decide_true, e3, List.reverse_reverse, ↓reduceIte, joinSlash_append_one comps name hne]
  simp

/-- `/s` -/
theorem joinFaithful_example : JoinFaithful [47, 115] :=
  joinFaithful_abs [[115]] (by simp) (fun c hc => by
    simp only [List.mem_singleton] at hc; subst hc
    exact ⟨by decide, by decide, by decide, by decide⟩)


/-! ## I. at most one directory, and concrete inputs -/

theorem nodup_all_eq {α : Type} (l : List α) (d : α) (hn : l.Nodup) (h : ∀ x ∈ l, x = d) : l = [] ∨ l = [d] := by
  cases l with
  | nil => exact Or.inl rfl
  | cons a l =>
    right
    have ha := h a (by simp)
    subst ha
    cases l with
    | nil => rfl
    | cons b l =>
      have hb := h b (by simp)
      subst hb
      simp at hn

/-- when every registered path lives in one directory, both sides visit the same list of
    directories: the hypothesis `hdirs` of `examineFiles_tied_partial` holds -/
theorem goDirs_one_dir (o : Oracles) (parseFile : Text → List GoDecl × Err) (re : Text → Text → Bool × Bool)
    (registry : Map2) (sa : GoSet) (regPaths standalone : List Text) (runOnly : Text)
    (hc : FilesCorr o parseFile re registry sa regPaths standalone runOnly) (d : Text)
    (h1 : ∀ p ∈ regPaths ++ standalone, fpDir p = d) :
    goDirs registry sa = sortBytes (dedup ((regPaths ++ standalone).map fpDir)) := by
  have hperm := goDirs_perm o parseFile re registry sa regPaths standalone runOnly hc
  have hndg := (goDirs_spec registry sa).1
  have hall : ∀ x ∈ sortBytes (dedup ((regPaths ++ standalone).map fpDir)), x = d := by
    intro x hx
    have := (dedup_spec _).2 x |>.mp ((sortBytes_perm _).mem_iff.mp hx)
    obtain ⟨p, hp, rfl⟩ := List.mem_map.mp this
    exact h1 p hp
  rcases nodup_all_eq _ d (hperm.nodup_iff.mp hndg) hall with e | e
  · rw [e] at hperm ⊢; exact hperm.eq_nil
  · rw [e] at hperm ⊢; exact List.perm_singleton.mp hperm

/-- **4, one directory**: exact equality with the model's result -/
theorem examineFiles_tied_one_dir (o : Oracles) (parseFile : Text → List GoDecl × Err) (re : Text → Text → Bool × Bool)
    (registry : Map2) (sa : GoSet) (regPaths standalone : List Text) (runOnly : Text) (update : Bool)
    (hc : FilesCorr o parseFile re registry sa regPaths standalone runOnly) (fs : FS) (out : Text) (d : Text)
    (h1 : ∀ p ∈ regPaths ++ standalone, fpDir p = d) (hj : update = true → JoinFaithful d) (r : FilesResult)
    (h : GoSnaps.examineFiles o fs regPaths standalone runOnly update = some r) :
    Generated.FuncsIO.examineFiles IOFail.never fs out parseFile re registry sa runOnly update =
      (r.fs, out, r.obsolete, r.used) := by
  have hd := goDirs_one_dir o parseFile re registry sa regPaths standalone runOnly hc d h1
  refine examineFiles_tied_partial o parseFile re registry sa regPaths standalone runOnly update hc fs out hd ?_ r h
  intro hu x hx
  rw [hd] at hx
  have := (dedup_spec _).2 x |>.mp ((sortBytes_perm _).mem_iff.mp hx)
  obtain ⟨p, hp, rfl⟩ := List.mem_map.mp this
  rw [h1 p hp]; exact hj hu

/-- `/s/a.snap` (registered: used), `/s/b.snap` (orphan: obsolete), `/s/c.txt` (ignored) -/
def xA : Text := [47, 115, 47, 97, 46, 115, 110, 97, 112]
def xB : Text := [47, 115, 47, 98, 46, 115, 110, 97, 112]
def xFS : FS := [(xA, cFile), (xB, [1]), ([47, 115, 47, 99, 46, 116, 120, 116], [2])]
def xRegistry : Map2 := [(xA, [([84, 101, 115, 116, 65], 1)])]
def xParse : Text → List GoDecl × Err := fun _ => ([], Err.other [33])

theorem xCorr : FilesCorr {} xParse cRe xRegistry [] [xA] [] [] :=
  ⟨fun p => by simp [xRegistry], fun p => Iff.rfl, fun p key entry h => by simp at h, cSound⟩

/-- report mode: the orphan is listed, nothing is removed -/
example : Generated.FuncsIO.examineFiles IOFail.never xFS [7] xParse cRe xRegistry [] [] false =
    (xFS, [7], [xB], [xA]) := by decide
/-- clean mode: the orphan is listed and removed -/
example : Generated.FuncsIO.examineFiles IOFail.never xFS [7] xParse cRe xRegistry [] [] true =
    ([(xA, cFile), ([47, 115, 47, 99, 46, 116, 120, 116], [2])], [7], [xB], [xA]) := by decide
/-- the same through the theorem -/
example : ∃ r, GoSnaps.examineFiles {} xFS [xA] [] [] true = some r ∧
    Generated.FuncsIO.examineFiles IOFail.never xFS [7] xParse cRe xRegistry [] [] true = (r.fs, [7], r.obsolete, r.used) := by
  have hm : ∃ r, GoSnaps.examineFiles {} xFS [xA] [] [] true = some r := by
    cases h : GoSnaps.examineFiles {} xFS [xA] [] [] true with
    | none => exact absurd h (by decide)
    | some r => exact ⟨r, rfl⟩
  obtain ⟨r, hr⟩ := hm
  exact ⟨r, hr, examineFiles_tied_one_dir {} xParse cRe xRegistry [] [xA] [] [] true xCorr xFS [7] [47, 115]
    (by decide) (fun _ => joinFaithful_example) r hr⟩
/-- a failing `os.Remove`: the error is printed, the file stays, it is still reported as removed -/
example : Generated.FuncsIO.examineFiles (fun op _ => if op = .remove then some [33] else none) xFS [7] xParse cRe
      xRegistry [] [] true = (xFS, [7, 33, 10], [xB], [xA]) := by decide

/-! ### two directories visited in another order than the model's

`/t/a.snap` was registered before `/s/a.snap`: the transliteration visits `/t` first, the model `/s`. -/

def yTA : Text := [47, 116, 47, 97, 46, 115, 110, 97, 112]
def yTB : Text := [47, 116, 47, 98, 46, 115, 110, 97, 112]
def yFS : FS := [(xA, cFileA), (xB, [1]), (yTA, cFileA), (yTB, [2])]
def yRegistry : Map2 := [(yTA, [([84, 101, 115, 116, 65], 1)]), (xA, [([84, 101, 115, 116, 65], 1)])]

theorem yCorr : FilesCorr {} xParse cRe yRegistry [] [xA, yTA] [] [] :=
  ⟨fun p => by simp [yRegistry]; exact Or.comm, fun p => Iff.rfl, fun p key entry h => by simp at h, cSound⟩

theorem yDirs : goDirs yRegistry [] = [[47, 116], [47, 115]] := by decide

theorem yJoin : ∀ d ∈ goDirs yRegistry [], JoinFaithful d := by
  rw [yDirs]
  intro d hd
  simp only [List.mem_cons, List.not_mem_nil, or_false] at hd
  rcases hd with rfl | rfl
  · exact joinFaithful_abs [[116]] (by simp) (fun c hc => by
      simp only [List.mem_singleton] at hc; subst hc
      exact ⟨by decide, by decide, by decide, by decide⟩)
  · exact joinFaithful_example

theorem yIndep : DirsIndependent (goDirs yRegistry []) := by
  apply dirsIndependent_of_notUnder _ yJoin
  rw [yDirs]
  intro d hd d' hd' hne
  simp only [List.mem_cons, List.not_mem_nil, or_false] at hd hd'
  rcases hd with rfl | rfl <;> rcases hd' with rfl | rfl
  · exact absurd rfl hne
  · decide
  · decide
  · exact absurd rfl hne

/-- the transliteration: `/t` first -/
example : Generated.FuncsIO.examineFiles IOFail.never yFS [] xParse cRe yRegistry [] [] true =
    ([(xA, cFileA), (yTA, cFileA)], [], [yTB, xB], [yTA, xA]) := by decide
/-- the model: `/s` first -/
example : (GoSnaps.examineFiles {} yFS [xA, yTA] [] [] true).map (fun r => (r.fs, r.obsolete, r.used)) =
    some ([(xA, cFileA), (yTA, cFileA)], [xB, yTB], [xA, yTA]) := by decide
/-- `examineFiles_tied` on this input -/
example : ∃ r fs' obsolete used, GoSnaps.examineFiles {} yFS [xA, yTA] [] [] true = some r ∧
    Generated.FuncsIO.examineFiles IOFail.never yFS [] xParse cRe yRegistry [] [] true = (fs', [], obsolete, used) ∧
    (∀ p, fsRead fs' p = fsRead r.fs p) ∧ obsolete.Perm r.obsolete ∧ used.Perm r.used := by
  have hm : ∃ r, GoSnaps.examineFiles {} yFS [xA, yTA] [] [] true = some r := by
    cases h : GoSnaps.examineFiles {} yFS [xA, yTA] [] [] true with
    | none =>
      have : (GoSnaps.examineFiles {} yFS [xA, yTA] [] [] true).isSome = true := by decide
      rw [h] at this; cases this
    | some r => exact ⟨r, rfl⟩
  obtain ⟨r, hr⟩ := hm
  obtain ⟨fs', ob, us, h1, h2, h3, h4⟩ := examineFiles_tied {} xParse cRe yRegistry [] [xA, yTA] [] [] true yCorr yFS []
    (fun _ => ⟨yJoin, yIndep⟩) r hr
  exact ⟨r, fs', ob, us, hr, h1, h2, h3, h4⟩

end GoSnaps.Tie
