/-
Tie, closing the loop: the opcode source `groupedModel` (the hand port `Difflib.getGroupedOpCodes`) with
which Props/Tie/DiffIO.lean instantiates the parameter `groupedOpCodes` of the transliterated
`getUnifiedDiff` / `prettyDiff` IS the transliterated `difflib.NewMatcher(a, b).GetGroupedOpCodes(n)`
(`GoSnaps.Generated.DifflibGen.groupedOpCodes`, regenerated from /repo/internal/difflib/difflib.go on every
run), by `groupedOpCodes_agrees` of Props/Tie/DifflibGen2.lean — for every input, not by testing.
-/
import GoSnaps.Props.Tie.DifflibGen2
import GoSnaps.Props.Tie.DiffIO
namespace GoSnaps.Tie.DifflibGen
open GoSnaps GoSnaps.Generated

/-- the generated matcher never panics / hits a bound, and returns the difflib model's answer (n ≥ 0) -/
theorem groupedOpCodes_eq_model (a b : List (List UInt8)) (n : Int) (hn : 0 ≤ n) :
    DifflibGen.groupedOpCodes a b n = some (GoSnaps.Tie.groupedModel a b n) := by
  obtain ⟨k, rfl⟩ : ∃ k : Nat, n = (k : Int) := ⟨n.toNat, by omega⟩
  rw [groupedOpCodes_agrees]
  simp only [GoSnaps.Tie.groupedModel, Int.toNat_natCast]
  rfl

/-- the generated matcher as a total function (its `Option` is always `some`) -/
def generatedGrouped (a b : List (List UInt8)) (n : Int) : List (List GoIO.OpCodeI) :=
  (DifflibGen.groupedOpCodes a b n).getD []

/-- **the transliterated `getUnifiedDiff` with the TRANSLITERATED difflib as its opcode source is the one all
    theorems of Props/Tie/DiffIO.lean are about** (they instantiate the parameter with `groupedModel`) -/
theorem getUnifiedDiff_generated_difflib (nocolor : Bool) (sl : Text → Text → Text × Int × Int) (a b : Text) :
    FuncsIO.getUnifiedDiff nocolor generatedGrouped sl a b =
      FuncsIO.getUnifiedDiff nocolor GoSnaps.Tie.groupedModel sl a b := by
  have key : ∀ x y, generatedGrouped x y 3 = GoSnaps.Tie.groupedModel x y 3 := by
    intro x y; unfold generatedGrouped; rw [groupedOpCodes_eq_model x y 3 (by omega)]; rfl
  unfold FuncsIO.getUnifiedDiff
  simp only [key]

/-- the same for `prettyDiff` (which reaches difflib only through `getUnifiedDiff`) -/
theorem prettyDiff_generated_difflib (nocolor : Bool) (sl : Text → Text → Text × Int × Int) (e r name : Text) (line : Int) :
    FuncsIO.prettyDiff nocolor generatedGrouped sl e r name line =
      FuncsIO.prettyDiff nocolor GoSnaps.Tie.groupedModel sl e r name line := by
  unfold FuncsIO.prettyDiff
  simp only [getUnifiedDiff_generated_difflib]

end GoSnaps.Tie.DifflibGen
