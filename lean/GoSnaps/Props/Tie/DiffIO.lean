/-
Tie by proof: the diff report of snaps/diff.go and internal/colors as transliterated in
`GoSnaps.Generated.FuncsIO` (`hasNewlineSuffix`, `trimSuffix`, `Fprint`, `FprintEqual`, `FprintDelete`,
`FprintInsert`, `FprintRange`, `printRange`, `getUnifiedDiff`, `buildDiffReport`, `prettyDiff`), tied
to the hand-written model of `GoSnaps/Diff.lean` on top of the difflib model `GoSnaps/Difflib.lean`.

Contents
  1. internal/colors: closed forms in both colour modes; colour mode never panics and only appends
  2. `printRange` (`printRange_tied`; it panics on an empty group: `printRange_nil`)
  3. the groups of the difflib model are never empty and every opcode is within bounds
     (`grouped_ne_nil`, `grouped_bounds`)
  4. the loops of `getUnifiedDiff` in closed form for BOTH colour modes and ANY opcode source with
     valid groups (`getUnifiedDiff_closed`)
  5. NO_COLOR: `getUnifiedDiff_tied`
  6. `buildDiffReport_closed`, `buildDiffReport_tied`, `prettyDiff_tied`, `prettyDiffI_tied`
  7. colour mode (in fact both modes, any `singlelineDiff`): `getUnifiedDiff_nonempty`,
     `prettyDiff_nonempty`, `prettyDiff_colour_nonempty`

Parameters of the transliteration: `nocolor` = `colors.NOCOLOR`; `groupedOpCodes` =
`difflib.NewMatcher(a, b).GetGroupedOpCodes(n)`, instantiated here with the difflib model
(`groupedModel`); `singlelineDiffFn` = `singlelineDiff` (diffmatchpatch), left ARBITRARY everywhere.
Concrete examples that run the difflib model use `decide +kernel` (kernel evaluation, no axiom:
plain `decide` gets stuck on the well-founded `extFwd`).
-/
import GoSnaps.Generated.FuncsIO
import GoSnaps.Props.Tie.Diff
import GoSnaps.Props.Tie.Range
import GoSnaps.Props.C13
import GoSnaps.Props.C13Difflib
import GoSnaps.Lemmas.Diff
namespace GoSnaps.Tie
open GoSnaps GoSnaps.Generated

/-! ## 1. internal/colors -/

def cReset : Text := [27, 91, 48, 109]
def cDim : Text := [27, 91, 50, 109]
def cRedDiff : Text := [27, 91, 51, 56, 59, 53, 59, 53, 50, 109]
def cRedBg : Text := [27, 91, 52, 56, 59, 53, 59, 50, 50, 53, 109]
def cGreenDiff : Text := [27, 91, 51, 56, 59, 53, 59, 50, 50, 109]
def cGreenBg : Text := [27, 91, 52, 56, 59, 53, 59, 49, 53, 57, 109]
def cYellow : Text := [27, 91, 51, 51, 59, 49, 109]

theorem hasNewlineSuffix_eq (s : Text) : FuncsIO.hasNewlineSuffix s = hasSuffix s [10] := rfl

theorem ne_nil_of_hasSuffix_nl {s : Text} (h : hasSuffix s [10] = true) : s ≠ [] := by
  intro e; subst e; simp [hasSuffix] at h

/-- `s[:len(s)-1]` panics exactly for the empty string -/
theorem trimSuffix_eq (s : Text) (h : s ≠ []) : FuncsIO.trimSuffix s = some s.dropLast := by
  unfold FuncsIO.trimSuffix GoSem.slice GoSem.len
  have : 0 < s.length := List.length_pos_iff.mpr h
  rw [if_pos (by omega)]
  simp [List.dropLast_eq_take]

theorem trimSuffix_nil : FuncsIO.trimSuffix [] = none := by decide

theorem Fprint_nocolor (w c s : Text) : FuncsIO.Fprint true w c s = w ++ s := rfl
theorem Fprint_colour (w c s : Text) : FuncsIO.Fprint false w c s = w ++ (c ++ s ++ cReset) := rfl
theorem FprintEqual_nocolor (w s : Text) : FuncsIO.FprintEqual true w s = w ++ ofString "  " ++ s := by
  rw [ofString_blank]; simp [FuncsIO.FprintEqual, Id.run, pure]
theorem FprintEqual_colour (w s : Text) :
    FuncsIO.FprintEqual false w s = w ++ ([32, 32] ++ cDim ++ s ++ cReset) := rfl
theorem FprintRange_nocolor (w r1 r2 : Text) :
    FuncsIO.FprintRange true w r1 r2 = w ++ ofString "@@ -" ++ r1 ++ ofString " +" ++ r2 ++ ofString " @@\n\n" := by
  have e1 : ofString "@@ -" = [64, 64, 32, 45] := by rw [ofString_eq]; decide
  have e2 : ofString " +" = [32, 43] := by rw [ofString_eq]; decide
  have e3 : ofString " @@\n\n" = [32, 64, 64, 10, 10] := by rw [ofString_eq]; decide
  rw [e1, e2, e3]; simp [FuncsIO.FprintRange, Id.run, pure]
theorem FprintRange_colour (w r1 r2 : Text) :
    FuncsIO.FprintRange false w r1 r2 =
      w ++ (cYellow ++ [64, 64, 32, 45] ++ r1 ++ [32, 43] ++ r2 ++ [32, 64, 64] ++ cReset ++ [10, 10]) := rfl

theorem FprintDelete_nocolor (w s : Text) : FuncsIO.FprintDelete true w s = some (w ++ ofString "- " ++ s) := by
  rw [ofString_minus]; simp [FuncsIO.FprintDelete]
theorem FprintInsert_nocolor (w s : Text) : FuncsIO.FprintInsert true w s = some (w ++ ofString "+ " ++ s) := by
  rw [ofString_plus]; simp [FuncsIO.FprintInsert]

/-- the coloured `-` row -/
def delRowC (s : Text) : Text :=
  if hasSuffix s [10] then cRedDiff ++ cRedBg ++ [45, 32] ++ s.dropLast ++ cReset ++ [10]
  else cRedDiff ++ cRedBg ++ [45, 32] ++ s ++ cReset
def insRowC (s : Text) : Text :=
  if hasSuffix s [10] then cGreenDiff ++ cGreenBg ++ [43, 32] ++ s.dropLast ++ cReset ++ [10]
  else cGreenDiff ++ cGreenBg ++ [43, 32] ++ s ++ cReset

theorem FprintDelete_colour (w s : Text) : FuncsIO.FprintDelete false w s = some (w ++ delRowC s) := by
  unfold FuncsIO.FprintDelete delRowC
  rw [hasNewlineSuffix_eq]
  by_cases h : hasSuffix s [10] = true
  · simp only [h, if_true, trimSuffix_eq s (ne_nil_of_hasSuffix_nl h)]
    rfl
  · simp only [h]
    rfl

theorem FprintInsert_colour (w s : Text) : FuncsIO.FprintInsert false w s = some (w ++ insRowC s) := by
  unfold FuncsIO.FprintInsert insRowC
  rw [hasNewlineSuffix_eq]
  by_cases h : hasSuffix s [10] = true
  · simp only [h, if_true, trimSuffix_eq s (ne_nil_of_hasSuffix_nl h)]
    rfl
  · simp only [h]
    rfl

/-! ### both modes at once: every function appends one row -/

def rowDelIO (nocolor : Bool) (s : Text) : Text := if nocolor then [45, 32] ++ s else delRowC s
def rowInsIO (nocolor : Bool) (s : Text) : Text := if nocolor then [43, 32] ++ s else insRowC s
def rowEqIO (nocolor : Bool) (s : Text) : Text :=
  if nocolor then [32, 32] ++ s else [32, 32] ++ cDim ++ s ++ cReset
def rowRangeIO (nocolor : Bool) (r1 r2 : Text) : Text :=
  if nocolor then [64, 64, 32, 45] ++ r1 ++ [32, 43] ++ r2 ++ [32, 64, 64, 10, 10]
  else cYellow ++ [64, 64, 32, 45] ++ r1 ++ [32, 43] ++ r2 ++ [32, 64, 64] ++ cReset ++ [10, 10]

theorem FprintDelete_eq (nocolor : Bool) (w s : Text) :
    FuncsIO.FprintDelete nocolor w s = some (w ++ rowDelIO nocolor s) := by
  cases nocolor
  · exact FprintDelete_colour w s
  · rfl
theorem FprintInsert_eq (nocolor : Bool) (w s : Text) :
    FuncsIO.FprintInsert nocolor w s = some (w ++ rowInsIO nocolor s) := by
  cases nocolor
  · exact FprintInsert_colour w s
  · rfl
theorem FprintEqual_eq (nocolor : Bool) (w s : Text) :
    FuncsIO.FprintEqual nocolor w s = w ++ rowEqIO nocolor s := by
  cases nocolor <;> rfl
theorem FprintRange_eq (nocolor : Bool) (w r1 r2 : Text) :
    FuncsIO.FprintRange nocolor w r1 r2 = w ++ rowRangeIO nocolor r1 r2 := by
  cases nocolor <;> rfl

theorem delRowC_ne_nil (s : Text) : delRowC s ≠ [] := by
  unfold delRowC cRedDiff; split <;> simp
theorem insRowC_ne_nil (s : Text) : insRowC s ≠ [] := by
  unfold insRowC cGreenDiff; split <;> simp
theorem rowDelIO_ne_nil (nocolor : Bool) (s : Text) : rowDelIO nocolor s ≠ [] := by
  unfold rowDelIO; split
  · simp
  · exact delRowC_ne_nil s
theorem rowInsIO_ne_nil (nocolor : Bool) (s : Text) : rowInsIO nocolor s ≠ [] := by
  unfold rowInsIO; split
  · simp
  · exact insRowC_ne_nil s
theorem rowEqIO_ne_nil (nocolor : Bool) (s : Text) : rowEqIO nocolor s ≠ [] := by
  unfold rowEqIO; split <;> simp
theorem rowRangeIO_ne_nil (nocolor : Bool) (r1 r2 : Text) : rowRangeIO nocolor r1 r2 ≠ [] := by
  unfold rowRangeIO cYellow; split <;> simp

/-- **colour mode only appends** (and never panics) -/
theorem Fprint_appends (nocolor : Bool) (w c s : Text) : ∃ x, FuncsIO.Fprint nocolor w c s = w ++ x := by
  cases nocolor
  · exact ⟨_, Fprint_colour w c s⟩
  · exact ⟨_, Fprint_nocolor w c s⟩
theorem FprintEqual_appends (nocolor : Bool) (w s : Text) :
    ∃ x, x ≠ [] ∧ FuncsIO.FprintEqual nocolor w s = w ++ x :=
  ⟨_, rowEqIO_ne_nil nocolor s, FprintEqual_eq nocolor w s⟩
theorem FprintDelete_appends (nocolor : Bool) (w s : Text) :
    ∃ x, x ≠ [] ∧ FuncsIO.FprintDelete nocolor w s = some (w ++ x) :=
  ⟨_, rowDelIO_ne_nil nocolor s, FprintDelete_eq nocolor w s⟩
theorem FprintInsert_appends (nocolor : Bool) (w s : Text) :
    ∃ x, x ≠ [] ∧ FuncsIO.FprintInsert nocolor w s = some (w ++ x) :=
  ⟨_, rowInsIO_ne_nil nocolor s, FprintInsert_eq nocolor w s⟩
theorem FprintRange_appends (nocolor : Bool) (w r1 r2 : Text) :
    ∃ x, x ≠ [] ∧ FuncsIO.FprintRange nocolor w r1 r2 = w ++ x :=
  ⟨_, rowRangeIO_ne_nil nocolor r1 r2, FprintRange_eq nocolor w r1 r2⟩

example : FuncsIO.FprintDelete false [120] [97, 10] =
    some ([120] ++ cRedDiff ++ cRedBg ++ [45, 32, 97] ++ cReset ++ [10]) := by decide
example : FuncsIO.FprintInsert false [120] [97] =
    some ([120] ++ cGreenDiff ++ cGreenBg ++ [43, 32, 97] ++ cReset) := by decide
example : FuncsIO.FprintDelete true [120] [97, 10] = some [120, 45, 32, 97, 10] := by decide
example : FuncsIO.FprintRange true [] [49] [50] = ofString "@@ -1 +2 @@\n\n" := by
  rw [FprintRange_nocolor, ofString_eq, ofString_eq, ofString_eq, ofString_eq]; decide

/-! ## 2. `printRange` -/

/-- a difflib opcode of the model as the Go value (`int` fields) -/
def ofOp (c : Difflib.OpCode) : GoIO.OpCodeI := ⟨c.tag, c.i1, c.i2, c.j1, c.j2⟩

def rangeRowIO (nocolor : Bool) (g : List GoIO.OpCodeI) : Text :=
  match g.head?, g.getLast? with
  | some first, some last =>
    rowRangeIO nocolor (Funcs.FormatRangeUnified first.i1 last.i2) (Funcs.FormatRangeUnified first.j1 last.j2)
  | _, _ => []

/-- `opcodes[0]` panics on an empty group -/
theorem printRange_nil (nocolor : Bool) (w : Text) : FuncsIO.printRange nocolor w [] = none := rfl

theorem printRange_eq (nocolor : Bool) (w : Text) (g : List GoIO.OpCodeI) (h : g ≠ []) :
    FuncsIO.printRange nocolor w g = some (w ++ rangeRowIO nocolor g) := by
  cases g with
  | nil => exact absurd rfl h
  | cons c cs =>
    unfold FuncsIO.printRange rangeRowIO
    rw [GoSem.index_len_sub_one]
    have h0 : GoSem.index (c :: cs) 0 = some c := rfl
    rw [h0]
    cases hl : (c :: cs).getLast? with
    | none => simp at hl
    | some l => simp only [Option.bind_eq_bind, Option.bind_some, List.head?_cons, FprintRange_eq]; rfl

theorem rangeRowIO_tied (g : List Difflib.OpCode) : rangeRowIO true (g.map ofOp) = rangeRow g := by
  unfold rangeRowIO rangeRow
  rw [List.head?_map, List.getLast?_map]
  cases g.head? <;> cases g.getLast? <;> try rfl
  rename_i f l
  have e1 : ofString "@@ -" = [64, 64, 32, 45] := by rw [ofString_eq]; decide
  have e2 : ofString " +" = [32, 43] := by rw [ofString_eq]; decide
  have e3 : ofString " @@" = [32, 64, 64] := by rw [ofString_eq]; decide
  simp only [Option.map_some, ofOp, FormatRangeUnified_tied, rowRangeIO, e1, e2, e3, if_true]
  simp [nl]

/-- **Tie**: `printRange` on a non-empty group of the model -/
theorem printRange_tied (w : Text) (g : List Difflib.OpCode) (h : g ≠ []) :
    FuncsIO.printRange true w (g.map ofOp) = some (w ++ rangeRow g) := by
  rw [printRange_eq true w _ (by simpa using h), rangeRowIO_tied]

example : FuncsIO.printRange true [] [⟨0, 3, 6, 3, 6⟩, ⟨3, 6, 7, 6, 7⟩, ⟨0, 7, 10, 7, 10⟩] =
    some (ofString "@@ -4,7 +4,7 @@\n\n") := by
  rw [ofString_eq]; decide

/-! ## 3. the groups of the difflib model: never empty, every opcode within bounds -/

/-- what `getUnifiedDiff` needs of an opcode: the slices `aLines[i1:i2]`, `bLines[j1:j2]` exist,
    the tag is one of the four, and a change opcode has something to print -/
def OpBounds (na nb : Nat) (c : Difflib.OpCode) : Prop :=
  c.i1 ≤ c.i2 ∧ c.i2 ≤ na ∧ c.j1 ≤ c.j2 ∧ c.j2 ≤ nb ∧
  (c.tag = 0 ∨ (c.tag = 1 ∧ c.j1 < c.j2) ∨ (c.tag = 2 ∧ c.i1 < c.i2) ∨ (c.tag = 3 ∧ c.i1 < c.i2 ∧ c.j1 < c.j2))

theorem grouped_bounds {α : Type} [DecidableEq α] (a b : List α) (n : Nat) :
    ∀ g ∈ Difflib.getGroupedOpCodes a b n, ∀ c ∈ g, OpBounds a.length b.length c := by
  intro g hg c' hc'
  obtain ⟨c, hc, hrel⟩ := Difflib.grouped_members a b n g hg c' hc'
  obtain ⟨k1, k2, k3, k4, k5⟩ := (Difflib.opcodes_tile a b).2.2.2.2 c hc
  rcases hrel with rfl | ⟨s1, s2, s3, s4, s5, s6, s7⟩
  · refine ⟨k1, k3, k2, k4, ?_⟩
    rcases k5 with ⟨t, _, _⟩ | ⟨t, _, h⟩ | ⟨t, h, _⟩ | ⟨t, h1, h2⟩
    · exact Or.inl t
    · exact Or.inr (Or.inl ⟨t, h⟩)
    · exact Or.inr (Or.inr (Or.inl ⟨t, h⟩))
    · exact Or.inr (Or.inr (Or.inr ⟨t, h1, h2⟩))
  · have he : c.i2 - c.i1 = c.j2 - c.j1 := by
      rcases k5 with ⟨_, _, h⟩ | ⟨t, _⟩ | ⟨t, _⟩ | ⟨t, _⟩
      · exact h
      all_goals (rw [s2] at t; simp [Difflib.opEqual, Difflib.opInsert, Difflib.opDelete, Difflib.opReplace] at t)
    refine ⟨s4, by omega, by omega, by omega, Or.inl s1⟩

/-- no group is empty: Go's `opcodes[0]` in `printRange` cannot panic -/
theorem grouped_ne_nil {α : Type} [DecidableEq α] (a b : List α) (n : Nat) :
    ∀ g ∈ Difflib.getGroupedOpCodes a b n, g ≠ [] := by
  intro g hg e
  obtain ⟨c, hc, _⟩ := Difflib.grouped_groups_have_change a b n g hg
  rw [e] at hc; simp at hc


/-! ## 4. the loops of `getUnifiedDiff`, for both colour modes -/

theorem forIn_opt_foldl_mem {α β : Type} (l : List α) (F : α → β → Option (ForInStep β)) (f : β → α → β)
    (hF : ∀ a ∈ l, ∀ b, F a b = some (ForInStep.yield (f b a))) (b : β) :
    forIn (m := Option) l b F = some (l.foldl f b) := by
  induction l generalizing b with
  | nil => rfl
  | cons x xs ih =>
    rw [List.forIn_cons, hF x (by simp)]
    simp only [Option.bind_eq_bind, Option.bind_some]
    rw [ih (fun a ha => hF a (by simp [ha]))]
    rfl

theorem foldl_append_rows {α : Type} (r : α → Text) (l : List α) (s : Text) :
    l.foldl (fun s x => s ++ r x) s = s ++ (l.map r).flatten := by
  induction l generalizing s with
  | nil => simp
  | cons x xs ih => simp [ih]

theorem foldl_count_rows {α : Type} (r : α → Text) (l : List α) (n : Int) (s : Text) :
    l.foldl (fun (st : Int × Text) x => (st.1 + 1, st.2 ++ r x)) (n, s) =
      (n + (l.length : Int), s ++ (l.map r).flatten) := by
  induction l generalizing n s with
  | nil => simp
  | cons x xs ih => simp [ih]; omega

/-- `if line == "\n" { line = newLineSymbol + "\n" }` -/
def eqLine (l : Text) : Text := if l = [10] then go_newLineSymbol ++ [10] else l

/-- the loop over the lines of an Equal opcode, for an arbitrary body that behaves like the Go one -/
theorem equal_loop (nocolor : Bool) (l : List Text) (s : Text) (F : Text → Text → Option (ForInStep Text))
    (hF : ∀ line s, F line s = some (ForInStep.yield (s ++ rowEqIO nocolor (eqLine line)))) :
    forIn (m := Option) l s F = some (s ++ (l.map (fun x => rowEqIO nocolor (eqLine x))).flatten) := by
  rw [forIn_opt_foldl_mem l F (fun s x => s ++ rowEqIO nocolor (eqLine x)) (fun a _ b => hF a b),
    foldl_append_rows]

theorem count_loop (r : Text → Text) (l : List Text) (n : Int) (s : Text)
    (F : Text → Int × Text → Option (ForInStep (Int × Text)))
    (hF : ∀ line st, F line st = some (ForInStep.yield (st.1 + 1, st.2 ++ r line))) :
    forIn (m := Option) l (n, s) F = some (n + (l.length : Int), s ++ (l.map r).flatten) := by
  rw [forIn_opt_foldl_mem l F (fun st x => (st.1 + 1, st.2 ++ r x)) (fun a _ b => hF a b),
    foldl_count_rows]

/-- the state of the loops: (inserted, deleted, s) -/
abbrev DSt := Int × Int × Text

/-- one opcode, given the two slices -/
def opIO (nocolor : Bool) (sl : Text → Text → Text × Int × Int) (da db : List Text) (tag : Int)
    (st : DSt) : DSt :=
  if tag = 3 ∧ Funcs.shouldPrintHighlights nocolor db.flatten da.flatten = true ∧
      (sl da.flatten db.flatten).1 ≠ [] then
    (st.1 + (sl da.flatten db.flatten).2.1, st.2.1 + (sl da.flatten db.flatten).2.2,
      st.2.2 ++ (sl da.flatten db.flatten).1)
  else if tag = 0 then
    (st.1, st.2.1, st.2.2 ++ (da.map (fun x => rowEqIO nocolor (eqLine x))).flatten)
  else
    let dels := if tag = 3 ∨ tag = 2 then da else []
    let inss := if tag = 3 ∨ tag = 1 then db else []
    (st.1 + (inss.length : Int), st.2.1 + (dels.length : Int),
      st.2.2 ++ (dels.map (rowDelIO nocolor)).flatten ++ (inss.map (rowInsIO nocolor)).flatten)

def sliceI (l : List Text) (lo hi : Int) : List Text := (l.drop lo.toNat).take (hi.toNat - lo.toNat)

def opStepIO (nocolor : Bool) (sl : Text → Text → Text × Int × Int) (aL bL : List Text)
    (st : DSt) (c : GoIO.OpCodeI) : DSt :=
  opIO nocolor sl (sliceI aL c.i1 c.i2) (sliceI bL c.j1 c.j2) c.tag st

/-- the Go slices do not panic -/
def ValidI (aL bL : List Text) (c : GoIO.OpCodeI) : Prop :=
  0 ≤ c.i1 ∧ c.i1 ≤ c.i2 ∧ c.i2 ≤ (aL.length : Int) ∧ 0 ≤ c.j1 ∧ c.j1 ≤ c.j2 ∧ c.j2 ≤ (bL.length : Int)

theorem slice_valid (l : List Text) (lo hi : Int) (h : 0 ≤ lo ∧ lo ≤ hi ∧ hi ≤ (l.length : Int)) :
    GoSem.slice l lo hi = some (sliceI l lo hi) := by
  unfold GoSem.slice; rw [if_pos h]; rfl


theorem forIn_count (r : Text → Text) (l : List Text) (n : Int) (s : Text) :
    forIn (m := Option) l (n, s) (fun line __s => some (ForInStep.yield (__s.fst + 1, __s.snd ++ r line))) =
      some (n + (l.length : Int), s ++ (l.map r).flatten) :=
  count_loop r l n s _ (fun _ _ => rfl)

theorem forIn_eqrows (r : Text → Text) (l : List Text) (s : Text) :
    forIn (m := Option) l s (fun line __s =>
      if (line == [10]) = true then some (ForInStep.yield (__s ++ r (go_newLineSymbol ++ [10])))
      else some (ForInStep.yield (__s ++ r line))) =
      some (s ++ (l.map (fun x => r (eqLine x))).flatten) := by
  rw [forIn_opt_foldl_mem l _ (fun s x => s ++ r (eqLine x)) ?h, foldl_append_rows]
  intro line _ s
  unfold eqLine
  by_cases h : line = [10] <;> simp [h]


/-- one group: the range row (only for texts of more than ten lines), then its opcodes -/
def groupStepIO (nocolor : Bool) (sl : Text → Text → Text × Int × Int) (aL bL : List Text)
    (st : DSt) (g : List GoIO.OpCodeI) : DSt :=
  g.foldl (opStepIO nocolor sl aL bL)
    (if aL.length > 10 ∨ bL.length > 10 then (st.1, st.2.1, st.2.2 ++ rangeRowIO nocolor g) else st)

/-- **Closed form of the transliterated `getUnifiedDiff`, both colour modes**: for ANY opcode
    source whose groups are non-empty and within the bounds of the two line lists, nothing panics
    and the result is a fold -/
theorem getUnifiedDiff_closed (nocolor : Bool)
    (grouped : List Text → List Text → Int → List (List GoIO.OpCodeI))
    (sl : Text → Text → Text × Int × Int) (a b : Text)
    (hg : ∀ g ∈ grouped (splitNewlines a) (splitNewlines b) 3,
      g ≠ [] ∧ ∀ c ∈ g, ValidI (splitNewlines a) (splitNewlines b) c) :
    FuncsIO.getUnifiedDiff nocolor grouped sl a b =
      some (((grouped (splitNewlines a) (splitNewlines b) 3).foldl
              (groupStepIO nocolor sl (splitNewlines a) (splitNewlines b)) (0, 0, [])).2.2,
            ((grouped (splitNewlines a) (splitNewlines b) 3).foldl
              (groupStepIO nocolor sl (splitNewlines a) (splitNewlines b)) (0, 0, [])).1,
            ((grouped (splitNewlines a) (splitNewlines b) 3).foldl
              (groupStepIO nocolor sl (splitNewlines a) (splitNewlines b)) (0, 0, [])).2.1) := by
  unfold FuncsIO.getUnifiedDiff
  rw [splitNewlines_tied a, splitNewlines_tied b]
  simp only [Option.bind_eq_bind, Option.bind_some]
  generalize splitNewlines a = aL at hg ⊢
  generalize splitNewlines b = bL at hg ⊢
  rw [forIn_opt_foldl_mem _ _ (groupStepIO nocolor sl aL bL) ?h]
  · rfl
  intro g hgm st
  obtain ⟨ins, del, s⟩ := st
  obtain ⟨hne, hv⟩ := hg g hgm
  by_cases hl : (decide (GoSem.len aL > 10) || decide (GoSem.len bL > 10)) = true
  all_goals
    simp only [hl, if_true, Bool.false_eq_true, if_false, printRange_eq nocolor _ g hne, Option.bind_some]
    rw [forIn_opt_foldl_mem g _ (opStepIO nocolor sl aL bL) ?h2]
    case h2 =>
      intro c hc st
      obtain ⟨ins, del, s⟩ := st
      obtain ⟨v1, v2, v3, v4, v5, v6⟩ := hv c hc
      have ha := slice_valid aL c.i1 c.i2 ⟨v1, v2, v3⟩
      have hb := slice_valid bL c.j1 c.j2 ⟨v4, v5, v6⟩
      simp only [ha, hb, Option.bind_some, FprintDelete_eq, FprintInsert_eq, FprintEqual_eq, pure]
      simp only [forIn_count, forIn_eqrows]
      simp only [Option.bind_some, Bool.true_or, Bool.false_or, if_true, beq_iff_eq, bne_iff_ne]
      unfold opStepIO opIO
      generalize sliceI aL c.i1 c.i2 = da
      generalize sliceI bL c.j1 c.j2 = db
      generalize c.tag = tag
      by_cases h3 : tag = 3
      · subst h3
        by_cases hh : Funcs.shouldPrintHighlights nocolor db.flatten da.flatten = true
        · by_cases hd : (sl da.flatten db.flatten).1 = []
          · simp [hh, hd]
          · simp [hh, hd]
        · simp [hh]
      · by_cases h0 : tag = 0
        · subst h0; simp
        · by_cases h2 : tag = 2
          · subst h2; simp
          · by_cases h1 : tag = 1
            · subst h1; simp
            · simp [h3, h0, h2, h1]
    have hl' : (aL.length > 10 ∨ bL.length > 10) ↔
        (decide (GoSem.len aL > 10) || decide (GoSem.len bL > 10)) = true := by
      simp [GoSem.len]; omega
    unfold groupStepIO
    first
      | rw [if_pos (hl'.mpr hl)]
      | rw [if_neg (fun h => hl (hl'.mp h))]
    rfl

/-! ## 5. NO_COLOR: `getUnifiedDiff` is the model's -/

/-- the difflib model as the opcode source of the transliteration -/
def groupedModel (a b : List Text) (n : Int) : List (List GoIO.OpCodeI) :=
  (Difflib.getGroupedOpCodes a b n.toNat).map (fun g => g.map ofOp)

theorem groupedModel_eq : groupedModel =
    fun a b n => (Difflib.getGroupedOpCodes a b n.toNat).map (fun g => g.map ofOp) := rfl

def accOf (acc : DiffAcc) : DSt := ((acc.inserted : Int), (acc.deleted : Int), acc.text)

theorem diffContext_eq : Generated.diffContext = 3 := by decide

theorem shouldPrintHighlights_nocolor (a b : Text) : Funcs.shouldPrintHighlights true a b = false := by
  rw [shouldPrintHighlights_tied]; rfl

theorem sliceI_ofNat (l : List Text) (i1 i2 : Nat) : sliceI l (i1 : Int) (i2 : Int) = sliceL l i1 i2 := by
  simp [sliceI, sliceL]

theorem rowEqIO_tied (x : Text) : rowEqIO true (eqLine x) = rowEqual x := by
  rw [rowEqual_eq]; unfold rowEqIO eqLine; simp [nl]; rfl
theorem rowDelIO_tied : rowDelIO true = rowDelete := by
  funext x; rw [rowDelete_eq]; simp [rowDelIO]
theorem rowInsIO_tied : rowInsIO true = rowInsert := by
  funext x; rw [rowInsert_eq]; simp [rowInsIO]

theorem opStepIO_tied (sl : Text → Text → Text × Int × Int) (aL bL : List Text) (acc : DiffAcc)
    (c : Difflib.OpCode) :
    opStepIO true sl aL bL (accOf acc) (ofOp c) = accOf (opRows aL bL c acc) := by
  unfold opStepIO opIO opRows ofOp accOf
  simp only [sliceI_ofNat, shouldPrintHighlights_nocolor, rowEqIO_tied, rowDelIO_tied, rowInsIO_tied]
  have e0 : ((c.tag : Int) = 0) ↔ c.tag = Difflib.opEqual := by simp [Difflib.opEqual]
  have e1 : ((c.tag : Int) = 1) ↔ c.tag = Difflib.opInsert := by simp [Difflib.opInsert]; omega
  have e2 : ((c.tag : Int) = 2) ↔ c.tag = Difflib.opDelete := by simp [Difflib.opDelete]; omega
  have e3 : ((c.tag : Int) = 3) ↔ c.tag = Difflib.opReplace := by simp [Difflib.opReplace]; omega
  simp only [e0, e1, e2, e3]
  by_cases h0 : c.tag = Difflib.opEqual
  · simp [h0]
  · simp only [h0, if_false, Bool.false_eq_true, false_and, and_false]
    have : (c.tag = Difflib.opReplace ∨ c.tag = Difflib.opDelete) ↔ (c.tag = Difflib.opDelete ∨ c.tag = Difflib.opReplace) := Or.comm
    have : (c.tag = Difflib.opReplace ∨ c.tag = Difflib.opInsert) ↔ (c.tag = Difflib.opInsert ∨ c.tag = Difflib.opReplace) := Or.comm
    simp only [*]
    simp

theorem foldl_opStepIO_tied (sl : Text → Text → Text × Int × Int) (aL bL : List Text)
    (g : List Difflib.OpCode) (acc : DiffAcc) :
    (g.map ofOp).foldl (opStepIO true sl aL bL) (accOf acc) =
      accOf (g.foldl (fun acc c => opRows aL bL c acc) acc) := by
  induction g generalizing acc with
  | nil => rfl
  | cons c cs ih => simp only [List.map_cons, List.foldl_cons, opStepIO_tied, ih]

/-- the model's step for one group -/
def groupStepM (aL bL : List Text) (acc : DiffAcc) (g : List Difflib.OpCode) : DiffAcc :=
  g.foldl (fun acc c => opRows aL bL c acc)
    (if aL.length > 10 ∨ bL.length > 10 then { acc with text := acc.text ++ rangeRow g } else acc)

theorem getUnifiedDiff_model (a b : Text) :
    GoSnaps.getUnifiedDiff a b =
      (Difflib.getGroupedOpCodes (splitNewlines a) (splitNewlines b) 3).foldl
        (groupStepM (splitNewlines a) (splitNewlines b)) {} := rfl

theorem groupStepIO_tied (sl : Text → Text → Text × Int × Int) (aL bL : List Text) (acc : DiffAcc)
    (g : List Difflib.OpCode) :
    groupStepIO true sl aL bL (accOf acc) (g.map ofOp) = accOf (groupStepM aL bL acc g) := by
  unfold groupStepIO groupStepM
  rw [rangeRowIO_tied]
  by_cases h : aL.length > 10 ∨ bL.length > 10
  · rw [if_pos h, if_pos h]; exact foldl_opStepIO_tied sl aL bL g { acc with text := acc.text ++ rangeRow g }
  · rw [if_neg h, if_neg h]; exact foldl_opStepIO_tied sl aL bL g acc

theorem foldl_groupStepIO_tied (sl : Text → Text → Text × Int × Int) (aL bL : List Text)
    (gs : List (List Difflib.OpCode)) (acc : DiffAcc) :
    (gs.map (fun g => g.map ofOp)).foldl (groupStepIO true sl aL bL) (accOf acc) =
      accOf (gs.foldl (groupStepM aL bL) acc) := by
  induction gs generalizing acc with
  | nil => rfl
  | cons g gs ih => simp only [List.map_cons, List.foldl_cons, groupStepIO_tied, ih]

theorem ofOp_valid {aL bL : List Text} {c : Difflib.OpCode} (h : OpBounds aL.length bL.length c) :
    ValidI aL bL (ofOp c) := by
  obtain ⟨h1, h2, h3, h4, _⟩ := h
  unfold ValidI ofOp
  simp only
  omega

/-- the opcode source `groupedModel` satisfies the hypothesis of `getUnifiedDiff_closed`: the Go
    code indexes `opcodes[0]` and slices `aLines[i1:i2]`, `bLines[j1:j2]` without panicking -/
theorem groupedModel_valid (aL bL : List Text) (n : Int) :
    ∀ g ∈ groupedModel aL bL n, g ≠ [] ∧ ∀ c ∈ g, ValidI aL bL c := by
  intro g hg
  unfold groupedModel at hg
  obtain ⟨g', hg', rfl⟩ := List.mem_map.mp hg
  refine ⟨by simpa using grouped_ne_nil aL bL _ g' hg', ?_⟩
  intro c hc
  obtain ⟨c', hc', rfl⟩ := List.mem_map.mp hc
  exact ofOp_valid (grouped_bounds aL bL _ g' hg' c' hc')

/-- **Tie** (NO_COLOR, every `a b`, every `sl`): nothing panics and text and counts are the model's -/
theorem getUnifiedDiff_tied (sl : Text → Text → Text × Int × Int) (a b : Text) :
    FuncsIO.getUnifiedDiff true groupedModel sl a b =
      some ((GoSnaps.getUnifiedDiff a b).text, ((GoSnaps.getUnifiedDiff a b).inserted : Int),
        ((GoSnaps.getUnifiedDiff a b).deleted : Int)) := by
  rw [getUnifiedDiff_closed true groupedModel sl a b (groupedModel_valid _ _ 3), getUnifiedDiff_model]
  have h := foldl_groupStepIO_tied sl (splitNewlines a) (splitNewlines b)
    (Difflib.getGroupedOpCodes (splitNewlines a) (splitNewlines b) 3) {}
  have e : groupedModel (splitNewlines a) (splitNewlines b) 3 =
      (Difflib.getGroupedOpCodes (splitNewlines a) (splitNewlines b) 3).map (fun g => g.map ofOp) := rfl
  have e0 : accOf {} = (0, 0, []) := rfl
  rw [e, ← e0, h]
  rfl

example : FuncsIO.getUnifiedDiff true groupedModel (fun _ _ => ([], 0, 0)) [97, 10, 98, 10] [97, 10, 99, 10] =
    some (ofString "  a\n- b\n+ c\n  ↵\n", 1, 1) := by
  rw [getUnifiedDiff_tied, ofString_eq]; decide +kernel


/-! ## 6. `buildDiffReport`, `prettyDiff` -/

/-- the footer row `colors.Fprint(&s, colors.Dim, "at name:line\n")` (`colors.Dim` = `ESC[2m`) -/
def footRowIO (nocolor : Bool) (name : Text) (line : Int) : Text :=
  if nocolor then [97, 116, 32] ++ name ++ [58] ++ GoSem.itoa line ++ [10]
  else [27, 91, 50, 109] ++ ([97, 116, 32] ++ name ++ [58] ++ GoSem.itoa line ++ [10]) ++ cReset

/-- **Closed form of `buildDiffReport`, both colour modes, any `int` counts**: it panics only if
    `intPadding` does (it never does: `intPadding_no_panic`) -/
theorem buildDiffReport_closed (nocolor : Bool) (i d : Int) (diff name : Text) (line : Int)
    (hd : diff ≠ []) (ip dp : Text) (hp : Funcs.intPadding i d = some (ip, dp)) :
    FuncsIO.buildDiffReport nocolor i d diff name line =
      some ([10] ++ rowDelIO nocolor ([83, 110, 97, 112, 115, 104, 111, 116, 32] ++ dp ++ [45, 32] ++ GoSem.itoa d ++ [10]) ++
        rowInsIO nocolor ([82, 101, 99, 101, 105, 118, 101, 100, 32] ++ ip ++ [43, 32] ++ GoSem.itoa i ++ [10]) ++
        [10] ++ diff ++ [10] ++ (if name = [] then [] else footRowIO nocolor name line)) := by
  unfold FuncsIO.buildDiffReport
  have hd' : (diff == []) = false := by simpa using hd
  simp only [hd', Bool.false_eq_true, if_false, hp, Option.bind_eq_bind, Option.bind_some,
    FprintDelete_eq, FprintInsert_eq, pure]
  by_cases hn : name = []
  · subst hn; simp
  · have hn' : (name != []) = true := by simpa using hn
    simp only [hn', if_true, hn, if_false]
    cases nocolor
    · simp [FuncsIO.Fprint, footRowIO, Id.run, pure, cReset]
    · simp [FuncsIO.Fprint, footRowIO, Id.run, pure]

theorem buildDiffReport_empty (nocolor : Bool) (i d : Int) (name : Text) (line : Int) :
    FuncsIO.buildDiffReport nocolor i d [] name line = some [] := rfl

/-- for a non-empty diff the report is produced (no panic) and is non-empty, in both modes and for
    arbitrary `int` counts (diffmatchpatch's `-1, -1` included) -/
theorem buildDiffReport_nonempty (nocolor : Bool) (i d : Int) (diff name : Text) (line : Int)
    (hd : diff ≠ []) : ∃ r, r ≠ [] ∧ FuncsIO.buildDiffReport nocolor i d diff name line = some r := by
  have h := intPadding_no_panic i d
  cases hp : Funcs.intPadding i d with
  | none => rw [hp] at h; simp at h
  | some p =>
    obtain ⟨ip, dp⟩ := p
    exact ⟨_, by simp, buildDiffReport_closed nocolor i d diff name line hd ip dp hp⟩

/-- **Tie** (NO_COLOR) -/
theorem buildDiffReport_tied (i d : Nat) (diff name : Text) (line : Nat) :
    FuncsIO.buildDiffReport true (i : Int) (d : Int) diff name (line : Int) =
      some (GoSnaps.buildDiffReport i d diff name line) := by
  by_cases hd : diff = []
  · subst hd; rfl
  · rw [buildDiffReport_closed true i d diff name line hd (GoSnaps.intPadding i d).1 (GoSnaps.intPadding i d).2
      (intPadding_tied i d)]
    unfold GoSnaps.buildDiffReport
    generalize GoSnaps.intPadding i d = p
    obtain ⟨ip, dp⟩ := p
    have e1 : ofString "Snapshot " = [83, 110, 97, 112, 115, 104, 111, 116, 32] := by rw [ofString_eq]; decide
    have e2 : ofString "Received " = [82, 101, 99, 101, 105, 118, 101, 100, 32] := by rw [ofString_eq]; decide
    have e3 : ofString "at " = [97, 116, 32] := by rw [ofString_eq]; decide
    have e4 : ofString ":" = [58] := by rw [ofString_eq]; decide
    rw [if_neg hd]
    simp only [e1, e2, e3, e4, ofString_minus, ofString_plus, rowDelIO_tied, rowInsIO_tied, itoa_ofNat,
      footRowIO, if_true, nl]
    by_cases hn : name = [] <;> simp [hn]

example : FuncsIO.buildDiffReport true 1 10 [120, 10] [110] 5 =
    some (ofString "\n- Snapshot - 10\n+ Received  + 1\n\nx\n\nat n:5\n") := by
  rw [ofString_eq]; decide


theorem prettyDiff_tied (sl : Text → Text → Text × Int × Int) (expected received name : Text) (line : Nat) :
    FuncsIO.prettyDiff true groupedModel sl expected received name (line : Int) =
      some (GoSnaps.prettyDiff expected received name line) := by
  unfold FuncsIO.prettyDiff GoSnaps.prettyDiff
  by_cases he : expected = received
  · subst he; simp
  · have he' : (expected == received) = false := by simpa using he
    simp only [he', Bool.false_eq_true, if_false, shouldPrintHighlights_nocolor, getUnifiedDiff_tied,
      Option.bind_eq_bind, Option.bind_some, he]
    simp only [ite_self, buildDiffReport_tied]

/-- the `prettyDiff` used by the transliterated Match* flows (`GoIO.prettyDiffI`, the model with
    Go's `int` line number) is the transliterated `prettyDiff` for `line ≥ 0` -/
theorem prettyDiffI_tied (sl : Text → Text → Text × Int × Int) (a b rel : Text) (line : Int) (h : 0 ≤ line) :
    FuncsIO.prettyDiff true groupedModel sl a b rel line = some (GoIO.prettyDiffI a b rel line) := by
  have e : ((line.toNat : Nat) : Int) = line := by omega
  have h := prettyDiff_tied sl a b rel line.toNat
  rw [e] at h
  exact h

example : FuncsIO.prettyDiff true groupedModel (fun _ _ => ([], 0, 0)) [97, 10, 98] [97, 10, 99] [110] 5 =
    some (ofString "\n- Snapshot - 1\n+ Received + 1\n\n  a\n- b\n+ c\n\nat n:5\n") := by
  rw [show (5 : Int) = ((5 : Nat) : Int) from rfl, prettyDiff_tied, ofString_eq]; decide +kernel

/-- a 12-line text with line 6 changed: the range row appears -/
example : FuncsIO.getUnifiedDiff true groupedModel (fun _ _ => ([], 0, 0))
    [97,10,98,10,99,10,100,10,101,10,102,10,103,10,104,10,105,10,106,10,107,10,108]
    [97,10,98,10,99,10,100,10,101,10,120,10,103,10,104,10,105,10,106,10,107,10,108] =
    some (ofString "@@ -3,7 +3,7 @@\n\n  c\n  d\n  e\n- f\n+ x\n  g\n  h\n  i\n", 1, 1) := by
  rw [getUnifiedDiff_tied, ofString_eq]; decide +kernel


/-! ## 7. colour mode: the report is empty only for identical texts -/

/-- length of the text written so far -/
def tlen (st : DSt) : Nat := st.2.2.length

theorem flatten_map_length_pos {α : Type} (r : α → Text) (l : List α) (hl : l ≠ []) (hr : ∀ x, r x ≠ []) :
    0 < (l.map r).flatten.length := by
  cases l with
  | nil => exact absurd rfl hl
  | cons x xs =>
    have := List.length_pos_iff.mpr (hr x)
    simp only [List.map_cons, List.flatten_cons, List.length_append]
    omega

/-- every opcode only appends … -/
theorem opIO_len_le (nocolor : Bool) (sl : Text → Text → Text × Int × Int) (da db : List Text) (tag : Int)
    (st : DSt) : tlen st ≤ tlen (opIO nocolor sl da db tag st) := by
  unfold opIO tlen
  split
  · simp only [List.length_append]; omega
  · split
    · simp only [List.length_append]; omega
    · simp only [List.length_append]; omega

/-- … and a change opcode with a non-empty side appends something, whatever `singlelineDiff`
    answers: either its non-empty inline text, or (fall-back) at least one `-` or `+` row -/
theorem opIO_len_lt (nocolor : Bool) (sl : Text → Text → Text × Int × Int) (da db : List Text) (tag : Int)
    (st : DSt) (h : (tag = 1 ∧ db ≠ []) ∨ (tag = 2 ∧ da ≠ []) ∨ (tag = 3 ∧ da ≠ [])) :
    tlen st < tlen (opIO nocolor sl da db tag st) := by
  unfold opIO tlen
  split
  · rename_i hc
    have := List.length_pos_iff.mpr hc.2.2
    simp only [List.length_append]; omega
  · have h0 : tag ≠ 0 := by omega
    rw [if_neg h0]
    simp only [List.length_append]
    rcases h with ⟨ht, hne⟩ | ⟨ht, hne⟩ | ⟨ht, hne⟩
    · subst ht
      have := flatten_map_length_pos (rowInsIO nocolor) db hne (rowInsIO_ne_nil nocolor)
      simp only [or_true, if_true]
      omega
    · subst ht
      have := flatten_map_length_pos (rowDelIO nocolor) da hne (rowDelIO_ne_nil nocolor)
      simp only [or_true, if_true]
      omega
    · subst ht
      have := flatten_map_length_pos (rowDelIO nocolor) da hne (rowDelIO_ne_nil nocolor)
      simp only [true_or, if_true]
      omega

theorem foldl_measure_le {σ α : Type} (m : σ → Nat) (f : σ → α → σ) (l : List α)
    (hle : ∀ s, ∀ a ∈ l, m s ≤ m (f s a)) (s : σ) : m s ≤ m (l.foldl f s) := by
  induction l generalizing s with
  | nil => exact Nat.le_refl _
  | cons x xs ih =>
    exact Nat.le_trans (hle s x (by simp)) (ih (fun s a ha => hle s a (by simp [ha])) _)

theorem foldl_measure_lt {σ α : Type} (m : σ → Nat) (f : σ → α → σ) (l : List α)
    (hle : ∀ s, ∀ a ∈ l, m s ≤ m (f s a)) (a0 : α) (h0 : a0 ∈ l) (hlt : ∀ s, m s < m (f s a0)) (s : σ) :
    m s < m (l.foldl f s) := by
  induction l generalizing s with
  | nil => simp at h0
  | cons x xs ih =>
    have hle' : ∀ s, ∀ a ∈ xs, m s ≤ m (f s a) := fun s a ha => hle s a (by simp [ha])
    simp only [List.mem_cons] at h0
    rcases h0 with rfl | h0
    · exact Nat.lt_of_lt_of_le (hlt s) (foldl_measure_le m f xs hle' _)
    · exact Nat.lt_of_le_of_lt (hle s x (by simp)) (ih hle' h0 _)

theorem groupStepIO_len_le (nocolor : Bool) (sl : Text → Text → Text × Int × Int) (aL bL : List Text)
    (st : DSt) (g : List GoIO.OpCodeI) : tlen st ≤ tlen (groupStepIO nocolor sl aL bL st g) := by
  unfold groupStepIO
  refine Nat.le_trans ?_ (foldl_measure_le tlen _ g (fun s c _ => opIO_len_le nocolor sl _ _ c.tag s) _)
  split
  · simp [tlen]
  · exact Nat.le_refl _

/-- a group of the model containing a change opcode makes the text grow -/
theorem groupStepIO_len_lt (nocolor : Bool) (sl : Text → Text → Text × Int × Int) (aL bL : List Text)
    (st : DSt) (g : List Difflib.OpCode) (c : Difflib.OpCode) (hc : c ∈ g) (ht : c.tag ≠ 0)
    (hb : OpBounds aL.length bL.length c) :
    tlen st < tlen (groupStepIO nocolor sl aL bL st (g.map ofOp)) := by
  unfold groupStepIO
  refine Nat.lt_of_le_of_lt ?_ (foldl_measure_lt tlen _ (g.map ofOp)
    (fun s c _ => opIO_len_le nocolor sl _ _ c.tag s) (ofOp c) (List.mem_map_of_mem hc) ?_ _)
  · split
    · simp [tlen]
    · exact Nat.le_refl _
  · intro s
    apply opIO_len_lt
    obtain ⟨b1, b2, b3, b4, b5⟩ := hb
    simp only [ofOp, sliceI_ofNat]
    rcases b5 with h | ⟨h, hj⟩ | ⟨h, hi⟩ | ⟨h, hi, hj⟩
    · exact absurd h ht
    · exact Or.inl ⟨by simp [h], sliceL_ne_nil hj b4⟩
    · exact Or.inr (Or.inl ⟨by simp [h], sliceL_ne_nil hi b2⟩)
    · exact Or.inr (Or.inr ⟨by simp [h], sliceL_ne_nil hi b2⟩)

/-- **both modes, any `singlelineDiff`**: for different texts the line diff does not panic and its
    text is not empty -/
theorem getUnifiedDiff_nonempty (nocolor : Bool) (sl : Text → Text → Text × Int × Int) (a b : Text)
    (h : a ≠ b) : ∃ t i d, t ≠ [] ∧ FuncsIO.getUnifiedDiff nocolor groupedModel sl a b = some (t, i, d) := by
  refine ⟨_, _, _, ?_, getUnifiedDiff_closed nocolor groupedModel sl a b (groupedModel_valid _ _ 3)⟩
  have hL : splitNewlines a ≠ splitNewlines b := fun e => h (splitNewlines_inj e)
  generalize splitNewlines a = aL at hL ⊢
  generalize splitNewlines b = bL at hL ⊢
  have hne := Difflib.grouped_nonempty_of_ne aL bL 3 hL
  obtain ⟨g, hg⟩ := List.exists_mem_of_ne_nil _ hne
  obtain ⟨c, hc, ht⟩ := Difflib.grouped_groups_have_change aL bL 3 g hg
  have hb := grouped_bounds aL bL 3 g hg c hc
  have key := foldl_measure_lt tlen (groupStepIO nocolor sl aL bL) (groupedModel aL bL 3)
    (fun s g _ => groupStepIO_len_le nocolor sl aL bL s g) (g.map ofOp)
    (List.mem_map_of_mem (f := fun g => g.map ofOp) hg)
    (fun s => groupStepIO_len_lt nocolor sl aL bL s g c hc ht hb) (0, 0, [])
  intro e
  unfold tlen at key
  rw [e] at key
  simp at key

/-- **C02/C13 on the transliteration, both colour modes** -/
theorem prettyDiff_nonempty (nocolor : Bool) (sl : Text → Text → Text × Int × Int)
    (expected received name : Text) (line : Int) (h : expected ≠ received) :
    ∃ r, r ≠ [] ∧ FuncsIO.prettyDiff nocolor groupedModel sl expected received name line = some r := by
  obtain ⟨t, i, d, ht, hu⟩ := getUnifiedDiff_nonempty nocolor sl expected received h
  have he' : (expected == received) = false := by simpa using h
  have ht' : (t == []) = false := by simpa using ht
  unfold FuncsIO.prettyDiff
  simp only [he', Bool.false_eq_true, if_false, Option.bind_eq_bind, pure]
  by_cases hh : Funcs.shouldPrintHighlights nocolor expected received = true
  · simp only [hh, if_true, Option.bind_some]
    by_cases hd : (sl expected received).1 = []
    · simp only [hd, beq_self_eq_true, if_true, hu, Option.bind_some]
      obtain ⟨r, hr, e⟩ := buildDiffReport_nonempty nocolor i d t name line ht
      exact ⟨r, hr, by rw [e]⟩
    · have hd' : ((sl expected received).1 == []) = false := by simpa using hd
      simp only [hd', Bool.false_eq_true, if_false]
      obtain ⟨r, hr, e⟩ := buildDiffReport_nonempty nocolor (sl expected received).2.1 (sl expected received).2.2
        (sl expected received).1 name line hd
      exact ⟨r, hr, by rw [e]⟩
  · simp only [hh, Bool.false_eq_true, if_false, hu, Option.bind_some, ht']
    obtain ⟨r, hr, e⟩ := buildDiffReport_nonempty nocolor i d t name line ht
    exact ⟨r, hr, by rw [e]⟩

/-- **`prettyDiff_colour_nonempty`** (the repair of defect D3 is effective): with colours on, for
    ANY answer of diffmatchpatch, different texts give a report, and it is not empty -/
theorem prettyDiff_colour_nonempty (sl : Text → Text → Text × Int × Int)
    (expected received name : Text) (line : Int) (h : expected ≠ received) :
    ∃ r, FuncsIO.prettyDiff false groupedModel sl expected received name line = some r ∧ r ≠ [] := by
  obtain ⟨r, hr, e⟩ := prettyDiff_nonempty false sl expected received name line h
  exact ⟨r, e, hr⟩

example : ∃ r, FuncsIO.prettyDiff false groupedModel (fun _ _ => ([], -1, -1)) [97] [98] [110] 3 = some r ∧ r ≠ [] :=
  prettyDiff_colour_nonempty _ _ _ _ _ (by decide)

/-- the scenario of defect D3: colours on, a single-line pair, and diffmatchpatch cannot tell the two
    lines apart (`singlelineDiff` returns `"", -1, -1`): `getUnifiedDiff` falls back to one `-` row and
    one `+` row and counts them -/
example : FuncsIO.getUnifiedDiff false groupedModel (fun _ _ => ([], -1, -1)) [97] [98] =
    some (cRedDiff ++ cRedBg ++ [45, 32, 97] ++ cReset ++ [10] ++
          (cGreenDiff ++ cGreenBg ++ [43, 32, 98] ++ cReset ++ [10]), 1, 1) := by
  decide +kernel

/-- … and when diffmatchpatch does answer, its text and counts are taken over -/
example : FuncsIO.getUnifiedDiff false groupedModel (fun _ _ => ([120], 5, 7)) [97] [98] =
    some ([120], 5, 7) := by
  decide +kernel

/-- the whole coloured report for the D3 scenario (`prettyDiff` first asks `singlelineDiff`, gets
    `""`, and falls back to `getUnifiedDiff`, which falls back to line rows) -/
example : FuncsIO.prettyDiff false groupedModel (fun _ _ => ([], -1, -1)) [97] [98] [] 3 =
    some ([10] ++ delRowC (ofString "Snapshot - 1\n") ++ insRowC (ofString "Received + 1\n") ++ [10] ++
      (delRowC [97, 10] ++ insRowC [98, 10]) ++ [10]) := by
  rw [ofString_eq, ofString_eq]; decide +kernel

end GoSnaps.Tie
