/-
Tie by proof, part 10: `snapshotOccurrenceFMT`, `standaloneOccurrenceFMT`, `occurrences` and
`examineSnaps` of snaps/clean.go (`Generated/FuncsIO.lean`) against the model `GoSnaps/Clean.lean`.

A. `occurrences` (Go ranges over a map and builds a set: everything is stated on members)
   * `occurrences_eq_fold`   : the transliteration as a `foldlM` (closed form, every formatter);
   * `occurrences_count_zero`, `occurrences_nil`, `occurrences_none_iff` : when it panics;
   * `occurrences_mem`       : the members of the result (and it has no duplicates);
   * `occurrences_tied_gen` / `occurrences_tied_none`, `occurrences_tied`, `occurrences_standalone_tied` :
     against the model's `occurrences` for formatters that agree on non-negative ordinals, for
     `snapshotOccurrenceFMT` / `snapshotOccFmt` and `standaloneOccurrenceFMT` / `standaloneOccFmt`.
B. `examineSnaps`
   * `coll_loop`, `scan_loop`, `write_loop`, `files_loop` : one lemma per loop of the function, for an
     arbitrary body characterised by hypotheses (pattern of `Props/Tie/Snapshot.lean`);
   * `examineSnaps_eq`       : for EVERY failure oracle, the transliteration is `goFiles (fileStep …)`:
     a recursion over the used files whose step is in closed form (`openRDWR`, `occurrences`, the
     scanning state machine `goScan` — the Go-side twin of the model's `exScan`, no oracle —,
     `overwriteFile`, a fold of `fileWrite`s);
   * `goScan_exScan`, `exScan_not_missing`, `scan_file_tied` : the scanner loops compute the model's
     `exScan` (sound oracle, every query answered), including files that end inside an entry;
   * `fileStep_tied`, `examineSnaps_file_tied`, `goFiles_tied`, `examineSnaps_tied` : under
     `IOFail.never` the transliteration returns the model's `.ok` outcome;
   * `examineSnaps_open_error`, `examineSnaps_missing_file`, `examineSnaps_write_error`,
     `examineSnaps_count_zero` : failure branches, for every oracle.
C. every main theorem is followed by `example`s on concrete inputs (section C at the end for
   `examineSnaps`), evaluated by `decide`.
-/
import GoSnaps.GoIO
import GoSnaps.Clean
import GoSnaps.Lemmas.Clean
import GoSnaps.Generated.FuncsIO
import GoSnaps.Props.Tie.SnapshotIO
import GoSnaps.Props.Tie.Skip
import GoSnaps.Props.Tie.TestID
namespace GoSnaps.Tie
open GoSnaps GoSnaps.GoIO
open GoSnaps.Generated.FuncsIO

/-! ## A. `occurrences` -/

/-- a `for x := range l { … }` loop without `break`/`continue`/`return` whose body may panic -/
theorem forIn_yield_opt {α σ : Type} (l : List α) (init : σ) (F : α → σ → Option (ForInStep σ))
    (g : σ → α → Option σ)
    (h : ∀ a s, F a s = (g s a).bind (fun s' => some (ForInStep.yield s'))) :
    forIn l init F = l.foldlM g init := by
  induction l generalizing init with
  | nil => rfl
  | cons a l ih =>
    rw [List.forIn_cons, h, List.foldlM_cons]
    cases g init a with
    | none => rfl
    | some s' => exact ih s'

/-- the ordinals `occurrences` formats for a quotient `n` -/
def occKeysI (n : Int) : List Int := (if n > 1 then GoSem.intRange 1 (n + 1) else []) ++ [n]

/-- `result[formatter(id, i)] = struct{}{}` -/
def occAdd (fmt : Text → Int → Option Text) (id : Text) (r : GoSet) (i : Int) : Option GoSet :=
  (fmt id i).bind fun k => some (setAdd r k)

/-- one iteration of the `range tests` loop -/
def occStepI (count : Int) (fmt : Text → Int → Option Text) (r : GoSet) (x : Text × Int) : Option GoSet :=
  (intDiv x.2 count).bind fun n => (occKeysI n).foldlM (occAdd fmt x.1) r

theorem occurrences_eq_fold (tests : Map1) (count : Int) (fmt : Text → Int → Option Text) :
    Generated.FuncsIO.occurrences tests count fmt = tests.foldlM (occStepI count fmt) [] := by
  unfold Generated.FuncsIO.occurrences
  simp only [bind, pure]
  rw [forIn_yield_opt _ _ _ (occStepI count fmt) ?h]
  · simp
  case h =>
    intro a s
    obtain ⟨id, c⟩ := a
    simp only [occStepI, occKeysI]
    cases hd : intDiv c count with
    | none => rfl
    | some n =>
      simp only [Option.bind_some, gt_iff_lt, decide_eq_true_eq]
      by_cases hn : 1 < n
      · simp only [hn, ↓reduceIte, List.foldlM_append]
        rw [forIn_yield_opt _ _ _ (occAdd fmt id) ?h2]
        · cases List.foldlM (occAdd fmt id) s (GoSem.intRange 1 (n + 1)) with
          | none => rfl
          | some r => simp [occAdd, bind]; cases fmt id n <;> rfl
        case h2 =>
          intro i r
          simp only [occAdd]
          cases fmt id i <;> rfl
      · simp only [hn, ↓reduceIte, List.nil_append]
        simp [occAdd, bind]; cases fmt id n <;> rfl

theorem mem_setAdd (r : GoSet) (k x : Text) : x ∈ setAdd r k ↔ x ∈ r ∨ x = k := by
  unfold setAdd
  by_cases h : r.contains k = true
  · rw [if_pos h]
    constructor
    · exact Or.inl
    · rintro (h' | rfl)
      · exact h'
      · simpa using h
  · rw [if_neg h]; simp

theorem setAdd_nodup (r : GoSet) (k : Text) (h : r.Nodup) : (setAdd r k).Nodup := by
  unfold setAdd
  by_cases hc : r.contains k = true
  · rw [if_pos hc]; exact h
  · rw [if_neg hc]
    have : k ∉ r := by simpa using hc
    rw [List.nodup_append]
    refine ⟨h, by simp, ?_⟩
    intro a ha b hb
    simp only [List.mem_singleton] at hb
    subst hb
    intro e; subst e; exact this ha

theorem mem_intRangeAux (lo : Int) (n : Nat) (i : Int) :
    i ∈ GoSem.intRangeAux lo n ↔ lo ≤ i ∧ i < lo + n := by
  induction n generalizing lo with
  | zero => simp [GoSem.intRangeAux]
  | succ n ih =>
    simp only [GoSem.intRangeAux, List.mem_cons, ih]
    omega

theorem mem_occKeysI (n i : Int) : i ∈ occKeysI n ↔ i = n ∨ (1 ≤ i ∧ i ≤ n) := by
  unfold occKeysI
  by_cases h : n > 1
  · rw [if_pos h]
    simp only [List.mem_append, GoSem.intRange, mem_intRangeAux, List.mem_singleton]
    omega
  · rw [if_neg h]
    simp only [List.nil_append, List.mem_singleton]
    omega

/-- the inner loops of `occurrences` on one map entry -/
theorem occAdd_fold_some (fmt : Text → Int → Option Text) (id : Text) (ks : List Int) (r : GoSet)
    (h : ∀ i ∈ ks, ∃ k, fmt id i = some k) :
    ∃ r', ks.foldlM (occAdd fmt id) r = some r' ∧
      (∀ x, x ∈ r' ↔ x ∈ r ∨ ∃ i ∈ ks, fmt id i = some x) ∧ (r.Nodup → r'.Nodup) := by
  induction ks generalizing r with
  | nil => exact ⟨r, rfl, by simp, fun h => h⟩
  | cons i ks ih =>
    obtain ⟨k, hk⟩ := h i (by simp)
    obtain ⟨r', h1, h2, h3⟩ := ih (setAdd r k) (fun j hj => h j (by simp [hj]))
    refine ⟨r', ?_, ?_, fun hn => h3 (setAdd_nodup _ _ hn)⟩
    · rw [List.foldlM_cons]; simp only [occAdd, hk, Option.bind_some, bind]; exact h1
    · intro x
      rw [h2, mem_setAdd]
      constructor
      · rintro ((hx | rfl) | ⟨j, hj, hx⟩)
        · exact Or.inl hx
        · exact Or.inr ⟨i, by simp, hk⟩
        · exact Or.inr ⟨j, by simp [hj], hx⟩
      · rintro (hx | ⟨j, hj, hx⟩)
        · exact Or.inl (Or.inl hx)
        · rcases List.mem_cons.mp hj with rfl | hj'
          · rw [hk] at hx; cases hx; exact Or.inl (Or.inr rfl)
          · exact Or.inr ⟨j, hj', hx⟩

theorem occAdd_fold_none (fmt : Text → Int → Option Text) (id : Text) (ks : List Int) (r : GoSet)
    (h : ∃ i ∈ ks, fmt id i = none) : ks.foldlM (occAdd fmt id) r = none := by
  induction ks generalizing r with
  | nil => obtain ⟨i, hi, _⟩ := h; cases hi
  | cons i ks ih =>
    rw [List.foldlM_cons]
    cases hk : fmt id i with
    | none => simp [occAdd, hk, bind]
    | some k =>
      simp only [occAdd, hk, Option.bind_some, bind]
      apply ih
      obtain ⟨j, hj, hn⟩ := h
      rcases List.mem_cons.mp hj with rfl | hj'
      · rw [hk] at hn; cases hn
      · exact ⟨j, hj', hn⟩

theorem intDiv_ne_zero (a b : Int) (h : b ≠ 0) : intDiv a b = some (Int.tdiv a b) := by
  simp [intDiv, h]

/-- the `range tests` loop when nothing panics -/
theorem occ_fold_some (count : Int) (hc : count ≠ 0) (fmt : Text → Int → Option Text) (tests : Map1) (r : GoSet)
    (h : ∀ p ∈ tests, ∀ i ∈ occKeysI (Int.tdiv p.2 count), ∃ k, fmt p.1 i = some k) :
    ∃ r', tests.foldlM (occStepI count fmt) r = some r' ∧
      (∀ x, x ∈ r' ↔ x ∈ r ∨ ∃ p ∈ tests, ∃ i ∈ occKeysI (Int.tdiv p.2 count), fmt p.1 i = some x) ∧
      (r.Nodup → r'.Nodup) := by
  induction tests generalizing r with
  | nil => exact ⟨r, rfl, by simp, id⟩
  | cons p ps ih =>
    obtain ⟨r1, h1, h2, h3⟩ := occAdd_fold_some fmt p.1 (occKeysI (Int.tdiv p.2 count)) r (h p (by simp))
    obtain ⟨r', g1, g2, g3⟩ := ih r1 (fun q hq => h q (by simp [hq]))
    refine ⟨r', ?_, ?_, fun hn => g3 (h3 hn)⟩
    · rw [List.foldlM_cons]
      simp only [occStepI, intDiv_ne_zero _ _ hc, Option.bind_some, h1, bind]
      exact g1
    · intro x
      rw [g2, h2]
      constructor
      · rintro ((hx | ⟨i, hi, hx⟩) | ⟨q, hq, i, hi, hx⟩)
        · exact Or.inl hx
        · exact Or.inr ⟨p, by simp, i, hi, hx⟩
        · exact Or.inr ⟨q, by simp [hq], i, hi, hx⟩
      · rintro (hx | ⟨q, hq, i, hi, hx⟩)
        · exact Or.inl (Or.inl hx)
        · rcases List.mem_cons.mp hq with rfl | hq'
          · exact Or.inl (Or.inr ⟨i, hi, hx⟩)
          · exact Or.inr ⟨q, hq', i, hi, hx⟩

theorem occ_fold_none (count : Int) (hc : count ≠ 0) (fmt : Text → Int → Option Text) (tests : Map1) (r : GoSet)
    (h : ∃ p ∈ tests, ∃ i ∈ occKeysI (Int.tdiv p.2 count), fmt p.1 i = none) :
    tests.foldlM (occStepI count fmt) r = none := by
  induction tests generalizing r with
  | nil => obtain ⟨p, hp, _⟩ := h; cases hp
  | cons p ps ih =>
    rw [List.foldlM_cons]
    simp only [occStepI, intDiv_ne_zero _ _ hc, Option.bind_some, bind]
    cases hf : List.foldlM (occAdd fmt p.1) r (occKeysI (Int.tdiv p.2 count)) with
    | none => rfl
    | some r1 =>
      simp only [Option.bind_some]
      apply ih
      obtain ⟨q, hq, i, hi, hn⟩ := h
      rcases List.mem_cons.mp hq with rfl | hq'
      · rw [occAdd_fold_none fmt q.1 _ r ⟨i, hi, hn⟩] at hf; cases hf
      · exact ⟨q, hq', i, hi, hn⟩

/-- **A.1** `count = 0` (`go test -count=0` never reaches `Clean`, but `strconv.Atoi` of a
    malformed flag value also yields 0): the first map entry makes the Go code panic with
    "integer divide by zero" -/
theorem occurrences_count_zero (tests : Map1) (fmt : Text → Int → Option Text) (h : tests ≠ []) :
    Generated.FuncsIO.occurrences tests 0 fmt = none := by
  rw [occurrences_eq_fold]
  cases tests with
  | nil => exact absurd rfl h
  | cons p ps => simp [List.foldlM_cons, occStepI, intDiv, bind]

/-- an empty registry map: no division happens, whatever `count` is -/
theorem occurrences_nil (count : Int) (fmt : Text → Int → Option Text) :
    Generated.FuncsIO.occurrences [] count fmt = some [] := by
  rw [occurrences_eq_fold]; rfl

/-- **A.2** the set `occurrences` builds, independently of the order in which Go ranges over the
    map: for every entry `(id, c)` with `n = c / count` the key `fmt id n` (also for `n ≤ 0`), and
    `fmt id 1 … fmt id n` (which adds something new only when `n > 1`).  No sign condition on the
    counters is needed. -/
theorem occurrences_mem (tests : Map1) (count : Int) (fmt : Text → Int → Option Text) (hc : count ≠ 0)
    (htot : ∀ p ∈ tests, ∀ i, (i = Int.tdiv p.2 count ∨ (1 ≤ i ∧ i ≤ Int.tdiv p.2 count)) → ∃ k, fmt p.1 i = some k) :
    ∃ r, Generated.FuncsIO.occurrences tests count fmt = some r ∧ r.Nodup ∧
      ∀ x, x ∈ r ↔ ∃ p ∈ tests, ∃ i, (i = Int.tdiv p.2 count ∨ (1 ≤ i ∧ i ≤ Int.tdiv p.2 count)) ∧ fmt p.1 i = some x := by
  obtain ⟨r, h1, h2, h3⟩ := occ_fold_some count hc fmt tests []
    (fun p hp i hi => htot p hp i ((mem_occKeysI _ _).mp hi))
  refine ⟨r, by rw [occurrences_eq_fold]; exact h1, h3 List.nodup_nil, ?_⟩
  intro x
  rw [h2]
  simp only [List.not_mem_nil, false_or, mem_occKeysI]

/-- **A.1, complete**: `occurrences` panics exactly when it divides by zero or the formatter is
    undefined on an argument it is called with -/
theorem occurrences_none_iff (tests : Map1) (count : Int) (fmt : Text → Int → Option Text) :
    Generated.FuncsIO.occurrences tests count fmt = none ↔
      (count = 0 ∧ tests ≠ []) ∨
      (count ≠ 0 ∧ ∃ p ∈ tests, ∃ i, (i = Int.tdiv p.2 count ∨ (1 ≤ i ∧ i ≤ Int.tdiv p.2 count)) ∧ fmt p.1 i = none) := by
  by_cases hc : count = 0
  · subst hc
    cases tests with
    | nil => simp [occurrences_nil]
    | cons p ps => simp [occurrences_count_zero]
  · by_cases hex : ∃ p ∈ tests, ∃ i, (i = Int.tdiv p.2 count ∨ (1 ≤ i ∧ i ≤ Int.tdiv p.2 count)) ∧ fmt p.1 i = none
    · have : Generated.FuncsIO.occurrences tests count fmt = none := by
        rw [occurrences_eq_fold]
        apply occ_fold_none count hc
        obtain ⟨p, hp, i, hi, hn⟩ := hex
        exact ⟨p, hp, i, (mem_occKeysI _ _).mpr hi, hn⟩
      exact ⟨fun _ => Or.inr ⟨hc, hex⟩, fun _ => this⟩
    · have htot : ∀ p ∈ tests, ∀ i, (i = Int.tdiv p.2 count ∨ (1 ≤ i ∧ i ≤ Int.tdiv p.2 count)) → ∃ k, fmt p.1 i = some k := by
        intro p hp i hi
        cases hf : fmt p.1 i with
        | none => exact absurd ⟨p, hp, i, hi, hf⟩ hex
        | some k => exact ⟨k, rfl⟩
      obtain ⟨r, hr, _⟩ := occurrences_mem tests count fmt hc htot
      rw [hr]
      constructor
      · intro h; cases h
      · rintro (⟨h0, _⟩ | ⟨_, h⟩)
        · exact absurd h0 hc
        · exact absurd h hex

/-- two keys are formatted for a test that ran twice in a `-count=1` run; a counter smaller than
    `count` (a test that did not run in every repetition) registers the key with ordinal 0 -/
example : Generated.FuncsIO.occurrences [([84], 2), ([85], 1)] 1 (fun a b => some (snapshotOccurrenceFMT a b)) =
    some [[84, 32, 45, 32, 49], [84, 32, 45, 32, 50], [85, 32, 45, 32, 49]] := by decide
example : Generated.FuncsIO.occurrences [([84], 1)] 2 (fun a b => some (snapshotOccurrenceFMT a b)) =
    some [[84, 32, 45, 32, 48]] := by decide
example : Generated.FuncsIO.occurrences [([84], 1)] 0 (fun a b => some (snapshotOccurrenceFMT a b)) = none :=
  occurrences_count_zero _ _ (by decide)

/-! ### A.3 against the model's `occurrences` -/

/-- the Go map seen by the transliteration: the model's counters as Go `int`s -/
def intImage (mine : List (Text × Nat)) : Map1 := mine.map (fun (k, n) => (k, (n : Int)))

theorem occFold_total (tests : List (Text × Nat)) (count : Nat) (fmt : Text → Nat → Option Text) (r : List Text)
    (h : ∀ x ∈ tests, ∀ k ∈ occKs (x.2 / count), ∃ t, fmt x.1 k = some t) :
    ∃ r', tests.foldl (occStep count fmt) (some r) = some r' := by
  induction tests generalizing r with
  | nil => exact ⟨r, rfl⟩
  | cons x xs ih =>
    rw [List.foldl_cons]
    have : ((occKs (x.2 / count)).map (fmt x.1)).any (·.isNone) = false := by
      rw [List.any_eq_false]
      intro a ha
      obtain ⟨k, hk, hka⟩ := List.mem_map.mp ha
      obtain ⟨t, ht⟩ := h x (by simp) k hk
      rw [← hka, ht]; simp
    simp only [occStep, this, Bool.false_eq_true, ↓reduceIte]
    exact ih _ (fun y hy => h y (by simp [hy]))

theorem tdiv_natCast (n cnt : Nat) : Int.tdiv (n : Int) (cnt : Int) = ((n / cnt : Nat) : Int) := by
  rw [Int.tdiv_eq_ediv_of_nonneg (by omega)]; rfl

theorem occKeys_nat (c : Nat) (i : Int) (h : i = (c : Int) ∨ (1 ≤ i ∧ i ≤ (c : Int))) :
    i = (i.toNat : Int) ∧ i.toNat ∈ occKs c := by
  refine ⟨by omega, ?_⟩
  rw [mem_occKs]; omega

/-- **A.3, general form**: a Go formatter `fmtI` and a model formatter `fmtN` that agree on the
    non-negative ordinals; the Go map is the Int-image of the model's list; `count > 0`.  Whenever
    the model has a result, the Go function returns a duplicate-free slice with the same members. -/
theorem occurrences_tied_gen (fmtI : Text → Int → Option Text) (fmtN : Text → Nat → Option Text)
    (hf : ∀ s (i : Nat), fmtI s (i : Int) = fmtN s i)
    (mine : List (Text × Nat)) (cnt : Nat) (hc : cnt > 0) (r' : List Text)
    (h : GoSnaps.occurrences mine cnt fmtN = some r') :
    ∃ r, Generated.FuncsIO.occurrences (intImage mine) (cnt : Int) fmtI = some r ∧ r.Nodup ∧
      ∀ x, x ∈ r ↔ x ∈ r' := by
  rw [occurrences_eq] at h
  obtain ⟨tail, rfl, hs, hcpl⟩ := occFold_spec mine cnt fmtN [] r' h
  have hmem : ∀ p ∈ intImage mine, ∃ n : Nat, p.2 = (n : Int) ∧ (p.1, n) ∈ mine := by
    intro p hp
    obtain ⟨⟨k, n⟩, hkn, rfl⟩ := List.mem_map.mp hp
    exact ⟨n, rfl, hkn⟩
  obtain ⟨r, hr, hnd, hm⟩ := occurrences_mem (intImage mine) (cnt : Int) fmtI (by omega) (by
    intro p hp i hi
    obtain ⟨n, hn, hpm⟩ := hmem p hp
    rw [hn, tdiv_natCast] at hi
    obtain ⟨hi1, hi2⟩ := occKeys_nat _ _ hi
    obtain ⟨t, ht, _⟩ := hcpl (p.1, n) hpm i.toNat hi2
    exact ⟨t, by rw [hi1, hf]; exact ht⟩)
  refine ⟨r, hr, hnd, ?_⟩
  intro x
  rw [hm]
  constructor
  · rintro ⟨p, hp, i, hi, hx⟩
    obtain ⟨n, hn, hpm⟩ := hmem p hp
    rw [hn, tdiv_natCast] at hi
    obtain ⟨hi1, hi2⟩ := occKeys_nat _ _ hi
    obtain ⟨t, ht, htm⟩ := hcpl (p.1, n) hpm i.toNat hi2
    rw [hi1, hf] at hx
    have : t = x := by simpa [ht] using hx
    exact this ▸ htm
  · intro hx
    obtain ⟨y, hy, k, hk, hfk⟩ := hs x hx
    refine ⟨(y.1, (y.2 : Int)), List.mem_map.mpr ⟨y, hy, rfl⟩, (k : Int), ?_, by rw [hf]; exact hfk⟩
    rw [tdiv_natCast]
    have := (mem_occKs _ _).mp hk
    omega

/-- … and when the model has none (its formatter is undefined on an ordinal), the Go function
    panics (`none` also stands for "format outside the modelled fragment") -/
theorem occurrences_tied_none (fmtI : Text → Int → Option Text) (fmtN : Text → Nat → Option Text)
    (hf : ∀ s (i : Nat), fmtI s (i : Int) = fmtN s i)
    (mine : List (Text × Nat)) (cnt : Nat) (hc : cnt > 0)
    (h : GoSnaps.occurrences mine cnt fmtN = none) :
    Generated.FuncsIO.occurrences (intImage mine) (cnt : Int) fmtI = none := by
  rw [occurrences_none_iff]
  refine Or.inr ⟨by omega, ?_⟩
  apply Classical.byContradiction
  intro hne
  have : ∀ x ∈ mine, ∀ k ∈ occKs (x.2 / cnt), ∃ t, fmtN x.1 k = some t := by
    intro x hx k hk
    cases hfk : fmtN x.1 k with
    | some t => exact ⟨t, rfl⟩
    | none =>
      exfalso; apply hne
      refine ⟨(x.1, (x.2 : Int)), List.mem_map.mpr ⟨x, hx, rfl⟩, (k : Int), ?_, by rw [hf]; exact hfk⟩
      rw [tdiv_natCast]
      have := (mem_occKs _ _).mp hk
      omega
  obtain ⟨r', hr'⟩ := occFold_total mine cnt fmtN [] this
  rw [occurrences_eq, hr'] at h
  cases h

theorem itoa_natCast (n : Nat) : GoSem.itoa (n : Int) = natToText n := by
  unfold GoSem.itoa
  rw [if_neg (by omega)]
  simp

/-- `fmt.Sprintf("%s - %d", s, i)`: the transliteration concatenates what the model's `sprintf`
    computes from the format string read from the source -/
theorem snapshotOccurrenceFMT_tied (s : Text) (i : Nat) :
    some (snapshotOccurrenceFMT s (i : Int)) = snapshotOccFmt s i := by
  rw [snapshotOccFmt_eq]
  simp [snapshotOccurrenceFMT, Id.run, itoa_natCast]
  rfl

/-- `fmt.Sprintf(s, i)` with the run-time format `s` -/
theorem standaloneOccurrenceFMT_tied (s : Text) (i : Nat) :
    standaloneOccurrenceFMT s (i : Int) = standaloneOccFmt s i := by
  simp [standaloneOccurrenceFMT, sprintfInt, standaloneOccFmt]
  intro h; omega

/-- **A.3** for the formatter `examineSnaps` uses: both sides always have a result, with the same
    members -/
theorem occurrences_tied (mine : List (Text × Nat)) (cnt : Nat) (hc : cnt > 0) :
    ∃ r r', Generated.FuncsIO.occurrences (intImage mine) (cnt : Int) (fun a b => some (snapshotOccurrenceFMT a b)) = some r ∧
      GoSnaps.occurrences mine cnt snapshotOccFmt = some r' ∧ r.Nodup ∧ ∀ x, x ∈ r ↔ x ∈ r' := by
  obtain ⟨r', hr'⟩ := occurrences_snapshot_total mine cnt
  obtain ⟨r, hr, hnd, hm⟩ := occurrences_tied_gen (fun a b => some (snapshotOccurrenceFMT a b)) snapshotOccFmt
    (fun s i => snapshotOccurrenceFMT_tied s i) mine cnt hc r' hr'
  exact ⟨r, r', hr, hr', hnd, hm⟩

/-- **A.3** for the standalone formatter (`Clean` calls `occurrences(standaloneTestsRegistry.cleanup, …)`):
    the model has a result iff the Go call does not panic, and then the members agree -/
theorem occurrences_standalone_tied (mine : List (Text × Nat)) (cnt : Nat) (hc : cnt > 0) :
    match GoSnaps.occurrences mine cnt standaloneOccFmt with
    | some r' => ∃ r, Generated.FuncsIO.occurrences (intImage mine) (cnt : Int) standaloneOccurrenceFMT = some r ∧
        r.Nodup ∧ ∀ x, x ∈ r ↔ x ∈ r'
    | none => Generated.FuncsIO.occurrences (intImage mine) (cnt : Int) standaloneOccurrenceFMT = none := by
  cases h : GoSnaps.occurrences mine cnt standaloneOccFmt with
  | some r' => exact occurrences_tied_gen _ _ standaloneOccurrenceFMT_tied mine cnt hc r' h
  | none => exact occurrences_tied_none _ _ standaloneOccurrenceFMT_tied mine cnt hc h

example : Generated.FuncsIO.occurrences (intImage [([84], 4), ([85], 2)]) ((2 : Nat) : Int)
      (fun a b => some (snapshotOccurrenceFMT a b)) =
        some [[84, 32, 45, 32, 49], [84, 32, 45, 32, 50], [85, 32, 45, 32, 49]] ∧
    GoSnaps.occurrences [([84], 4), ([85], 2)] 2 snapshotOccFmt =
        some [[84, 32, 45, 32, 49], [84, 32, 45, 32, 50], [84, 32, 45, 32, 50], [85, 32, 45, 32, 49]] := by
  constructor <;> decide
/-- the Go set has no duplicates, the model's list may: same members, different lists -/
example : Generated.FuncsIO.occurrences (intImage [([84], 1), ([84], 1)]) ((1 : Nat) : Int)
      (fun a b => some (snapshotOccurrenceFMT a b)) = some [[84, 32, 45, 32, 49]] ∧
    GoSnaps.occurrences [([84], 1), ([84], 1)] 1 snapshotOccFmt = some [[84, 32, 45, 32, 49], [84, 32, 45, 32, 49]] := by
  constructor <;> decide
/-- standalone: the pattern `p_%d.snap` -/
example : Generated.FuncsIO.occurrences (intImage [([112, 95, 37, 100], 2)]) ((1 : Nat) : Int) standaloneOccurrenceFMT =
    some [[112, 95, 49], [112, 95, 50]] := by decide

/-! ## B. `examineSnaps` -/

/-- state of the inner `for s.Scan()` loop: `tests`, `data`, `s` -/
abbrev IS := SMap × Text × Scanner
/-- state of the outer `for s.Scan()` loop: `obsoleteTests`, `tests`, `data`, `testIDs`, `hasDiffs`, `s` -/
abbrev SS := List Text × SMap × Text × List Text × Bool × Scanner
/-- what `examineSnaps` returns, with the file system -/
abbrev Ret := FS × List Text × Err
/-- state of the `range used` loop: early return value, `fs`, `obsoleteTests`, `tests`, `data`, `testIDs` -/
abbrev OS := Option Ret × FS × List Text × SMap × Text × List Text

/-- the inner loop as a function of the tokens still to come: collect body lines into `data` up to
    the terminator, then store `tests[id] = data` and reset `data`; at the end of the input the
    lines collected so far stay in `data` and the scanner is exhausted (`ok = false`) -/
def collL (id : Text) : List Line → SMap → Text → IS
  | [], t, d => (t, d, { ok := false, cur := [], rest := [] })
  | l :: ls, t, d =>
    if l = endSeq then (smapSet t id d, [], { ok := true, cur := endSeq, rest := ls })
    else collL id ls t (d ++ l ++ [nl])

theorem collL_ok_false (id : Text) (ls : List Line) (t : SMap) (d : Text)
    (h : (collL id ls t d).2.2.ok = false) :
    (collL id ls t d).1 = t ∧ (collL id ls t d).2.2 = { ok := false, cur := [], rest := [] } := by
  induction ls generalizing d with
  | nil => simp [collL]
  | cons l ls ih =>
    by_cases hl : l = endSeq
    · simp [collL, hl] at h
    · simp only [collL, hl, ↓reduceIte] at h ⊢
      exact ih _ h

theorem collL_ok_true (id : Text) (ls : List Line) (t : SMap) (d : Text)
    (h : (collL id ls t d).2.2.ok = true) : (collL id ls t d).2.1 = [] := by
  induction ls generalizing d with
  | nil => simp [collL] at h
  | cons l ls ih =>
    by_cases hl : l = endSeq
    · simp [collL, hl]
    · simp only [collL, hl, ↓reduceIte] at h ⊢
      exact ih _ h

theorem collL_rest_length (id : Text) (ls : List Line) (t : SMap) (d : Text) :
    (collL id ls t d).2.2.rest.length ≤ ls.length := by
  induction ls generalizing d with
  | nil => simp [collL]
  | cons l ls ih =>
    by_cases hl : l = endSeq
    · simp [collL, hl]
    · simp only [collL, hl, ↓reduceIte, List.length_cons]
      have := ih (d ++ l ++ [nl])
      omega

theorem scan_nil (ok : Bool) (c : Line) :
    ({ ok := ok, cur := c, rest := [] } : Scanner).scan = { ok := false, cur := [], rest := [] } := rfl
theorem scan_cons (ok : Bool) (c l : Line) (ls : List Line) :
    ({ ok := ok, cur := c, rest := l :: ls } : Scanner).scan = { ok := true, cur := l, rest := ls } := rfl

/-- the inner `for s.Scan()` loop of `examineSnaps`, for any body `F` that behaves like the Go
    loop body on the three kinds of scanner state -/
theorem coll_loop (id : Text) (F : Unit → IS → Option (ForInStep IS))
    (hnil : ∀ t d ok c, F () (t, d, ({ ok := ok, cur := c, rest := [] } : Scanner)) =
      some (ForInStep.done (t, d, ({ ok := false, cur := [], rest := [] } : Scanner))))
    (hend : ∀ t d ok c ls, F () (t, d, ({ ok := ok, cur := c, rest := endSeq :: ls } : Scanner)) =
      some (ForInStep.done (smapSet t id d, [], ({ ok := true, cur := endSeq, rest := ls } : Scanner))))
    (hline : ∀ t d ok c l ls, l ≠ endSeq → F () (t, d, ({ ok := ok, cur := c, rest := l :: ls } : Scanner)) =
      some (ForInStep.yield (t, d ++ l ++ [nl], ({ ok := true, cur := l, rest := ls } : Scanner))))
    (rest : List Line) (t : SMap) (d : Text) (c : Line) (ok : Bool) :
    forIn (List.replicate (rest.length + 1) ()) (t, d, ({ ok := ok, cur := c, rest := rest } : Scanner)) F =
      some (collL id rest t d) := by
  induction rest generalizing d c ok with
  | nil => simp [hnil, collL]
  | cons l ls ih =>
    rw [List.length_cons, List.replicate_succ, List.forIn_cons]
    by_cases h : l = endSeq
    · subst h
      simp [hend, collL]
    · rw [hline _ _ _ _ _ _ h]
      simp only [Option.bind_eq_bind, Option.bind_some]
      rw [ih]
      simp [collL, h]

/-- the outer scanning loop of `examineSnaps` over the tokens of one file, as the Go code runs it
    (no oracle): `O id` is the Go condition `!registeredTests.Has(id) && !testSkipped(id, runOnly)`.
    Returns the accumulated variables and what is left in `data` when the input ends. -/
def goScan (O : Text → Bool) (update : Bool) : List Line → ScanMode → ScanState → ScanState × Text
  | [], .collecting _ d, st => (st, d)
  | [], .outer, st => (st, [])
  | [], .skipping, st => (st, [])
  | l :: ls, .skipping, st =>
    if l = endSeq then goScan O update ls .outer st else goScan O update ls .skipping st
  | l :: ls, .collecting id d, st =>
    if l = endSeq then goScan O update ls .outer { st with tests := smapSet st.tests id d }
    else goScan O update ls (.collecting id (d ++ l ++ [nl])) st
  | l :: ls, .outer, st =>
    match GoSnaps.getTestID l with
    | none => goScan O update ls .outer st
    | some id =>
      if O id then
        goScan O update ls (if update then .skipping else .collecting id [])
          { st with testIDs := st.testIDs ++ [id], obsolete := st.obsolete ++ [id], hasDiffs := true }
      else goScan O update ls (.collecting id []) { st with testIDs := st.testIDs ++ [id] }

theorem goScan_skipping (O : Text → Bool) (update : Bool) (ls : List Line) (st : ScanState) :
    goScan O update ls .skipping st = goScan O update (skipL ls).rest .outer st := by
  induction ls with
  | nil => simp [goScan, skipL]
  | cons l ls ih =>
    by_cases h : l = endSeq
    · simp [goScan, skipL, h]
    · simp [goScan, skipL, h, ih]

theorem goScan_collecting (O : Text → Bool) (update : Bool) (id : Text) (ls : List Line) (d : Text) (st : ScanState) :
    goScan O update ls (.collecting id d) st =
      if (collL id ls st.tests d).2.2.ok then
        goScan O update (collL id ls st.tests d).2.2.rest .outer { st with tests := (collL id ls st.tests d).1 }
      else (st, (collL id ls st.tests d).2.1) := by
  induction ls generalizing d with
  | nil => simp [goScan, collL]
  | cons l ls ih =>
    by_cases h : l = endSeq
    · simp [goScan, collL, h]
    · simp [goScan, collL, h, ih]

/-- the loop state assembled from `goScan`'s result; the scanner is always exhausted at the end -/
def packSS (r : ScanState × Text) : SS :=
  (r.1.obsolete, r.1.tests, r.2, r.1.testIDs, r.1.hasDiffs, { ok := false, cur := [], rest := [] })

/-- the outer `for s.Scan()` loop of `examineSnaps`, for any body `F` that behaves like the Go loop
    body on each kind of state (`data` is empty whenever a header line is looked at: it is reset by
    every terminator, and an unterminated entry exhausts the scanner) -/
theorem scan_loop (O : Text → Bool) (update : Bool) (F : Unit → SS → Option (ForInStep SS))
    (hnil : ∀ obs t d ids hd ok c, F () (obs, t, d, ids, hd, ({ ok := ok, cur := c, rest := [] } : Scanner)) =
      some (ForInStep.done (obs, t, d, ids, hd, ({ ok := false, cur := [], rest := [] } : Scanner))))
    (hline : ∀ obs t ids hd ok c l ls, GoSnaps.getTestID l = none →
      F () (obs, t, [], ids, hd, ({ ok := ok, cur := c, rest := l :: ls } : Scanner)) =
      some (ForInStep.yield (obs, t, [], ids, hd, ({ ok := true, cur := l, rest := ls } : Scanner))))
    (hkeep : ∀ obs t ids hd ok c l ls id, GoSnaps.getTestID l = some id → O id = false →
      F () (obs, t, [], ids, hd, ({ ok := ok, cur := c, rest := l :: ls } : Scanner)) =
      some (ForInStep.yield (obs, (collL id ls t []).1, (collL id ls t []).2.1, ids ++ [id], hd, (collL id ls t []).2.2)))
    (hdrop : update = true → ∀ obs t ids hd ok c l ls id, GoSnaps.getTestID l = some id → O id = true →
      F () (obs, t, [], ids, hd, ({ ok := ok, cur := c, rest := l :: ls } : Scanner)) =
      some (ForInStep.yield (obs ++ [id], t, [], ids ++ [id], true, skipL ls)))
    (hobs : update = false → ∀ obs t ids hd ok c l ls id, GoSnaps.getTestID l = some id → O id = true →
      F () (obs, t, [], ids, hd, ({ ok := ok, cur := c, rest := l :: ls } : Scanner)) =
      some (ForInStep.yield (obs ++ [id], (collL id ls t []).1, (collL id ls t []).2.1, ids ++ [id], true, (collL id ls t []).2.2)))
    (n : Nat) : ∀ (rest : List Line) (obs : List Text) (t : SMap) (ids : List Text) (hd ms ok : Bool) (c : Line),
      rest.length < n →
      forIn (List.replicate n ()) (obs, t, [], ids, hd, ({ ok := ok, cur := c, rest := rest } : Scanner)) F =
        some (packSS (goScan O update rest .outer
          { testIDs := ids, tests := t, obsolete := obs, hasDiffs := hd, missing := ms })) := by
  -- what happens after an entry has been collected (`collL`), in both modes
  have after : ∀ (m : Nat) (ls : List Line) (id : Text) (st : ScanState),
      (∀ (rest : List Line) (obs : List Text) (t : SMap) (ids : List Text) (hd ms ok : Bool) (c : Line),
        rest.length < m + 1 →
        forIn (List.replicate (m + 1) ()) (obs, t, [], ids, hd, ({ ok := ok, cur := c, rest := rest } : Scanner)) F =
          some (packSS (goScan O update rest .outer
            { testIDs := ids, tests := t, obsolete := obs, hasDiffs := hd, missing := ms }))) →
      ls.length < m + 1 →
      forIn (List.replicate (m + 1) ()) (st.obsolete, (collL id ls st.tests []).1, (collL id ls st.tests []).2.1,
          st.testIDs, st.hasDiffs, (collL id ls st.tests []).2.2) F =
        some (packSS (goScan O update ls (.collecting id []) st)) := by
    intro m ls id st ih hlen
    rw [goScan_collecting]
    cases hok : (collL id ls st.tests []).2.2.ok with
    | true =>
      rw [collL_ok_true _ _ _ _ hok]
      have hl := collL_rest_length id ls st.tests []
      have := ih (collL id ls st.tests []).2.2.rest st.obsolete (collL id ls st.tests []).1 st.testIDs st.hasDiffs
        st.missing (collL id ls st.tests []).2.2.ok (collL id ls st.tests []).2.2.cur (by omega)
      simpa using this
    | false =>
      obtain ⟨h1, h2⟩ := collL_ok_false _ _ _ _ hok
      rw [h1, h2, List.replicate_succ, List.forIn_cons, hnil]
      simp [packSS]
  induction n with
  | zero => intro rest obs t ids hd ms ok c h; omega
  | succ n ih =>
    intro rest obs t ids hd ms ok c hlen
    cases rest with
    | nil =>
      rw [List.replicate_succ, List.forIn_cons, hnil]
      simp [goScan, packSS]
    | cons l ls =>
      simp only [List.length_cons] at hlen
      cases n with
      | zero => omega
      | succ m =>
        rw [List.replicate_succ (n := m + 1), List.forIn_cons]
        cases hg : GoSnaps.getTestID l with
        | none =>
          rw [hline _ _ _ _ _ _ _ _ hg]
          simp only [Option.bind_eq_bind, Option.bind_some]
          rw [ih ls obs t ids hd ms true l (by omega)]
          simp [goScan, hg]
        | some id =>
          cases hO : O id with
          | false =>
            rw [hkeep _ _ _ _ _ _ _ _ _ hg hO]
            simp only [Option.bind_eq_bind, Option.bind_some]
            have := after m ls id { testIDs := ids ++ [id], tests := t, obsolete := obs, hasDiffs := hd, missing := ms }
              ih (by omega)
            simp only at this
            rw [this]
            simp [goScan, hg, hO]
          | true =>
            cases hu : update with
            | true =>
              subst hu
              rw [hdrop rfl _ _ _ _ _ _ _ _ _ hg hO]
              simp only [Option.bind_eq_bind, Option.bind_some]
              have hl := skipL_rest_length ls
              have := ih (skipL ls).rest (obs ++ [id]) t (ids ++ [id]) true ms (skipL ls).ok (skipL ls).cur (by omega)
              rw [this]
              simp [goScan, hg, hO, goScan_skipping]
            | false =>
              subst hu
              rw [hobs rfl _ _ _ _ _ _ _ _ _ hg hO]
              simp only [Option.bind_eq_bind, Option.bind_some]
              have := after m ls id { testIDs := ids ++ [id], tests := t, obsolete := obs ++ [id], hasDiffs := true, missing := ms }
                ih (by omega)
              simp only at this
              rw [this]
              simp [goScan, hg, hO]

/-! ### the rewrite loop and the loop over the files -/

/-- one iteration of the rewrite loop `for _, id := range testIDs` (the result of `fmt.Fprintf`,
    error included, is discarded by the Go code) -/
def wstep (io : IOFail) (tests : SMap) (s : FS × File) (id : Text) : FS × File :=
  if smapHas tests id then
    ((fileWrite io s.1 s.2 (([10, 91] : List UInt8) ++ id ++ ([93, 10] : List UInt8) ++ smapGet tests id ++
        Generated.go_endSequence ++ ([10] : List UInt8))).1,
     (fileWrite io s.1 s.2 (([10, 91] : List UInt8) ++ id ++ ([93, 10] : List UInt8) ++ smapGet tests id ++
        Generated.go_endSequence ++ ([10] : List UInt8))).2.1)
  else s

theorem write_loop (io : IOFail) (tests : SMap) (W : Text → FS × File → Option (ForInStep (FS × File)))
    (h : ∀ id s, W id s = some (ForInStep.yield (wstep io tests s id))) (ids : List Text) (s : FS × File) :
    forIn ids s W = some (ids.foldl (wstep io tests) s) := by
  induction ids generalizing s with
  | nil => rfl
  | cons id ids ih => rw [List.forIn_cons, h]; exact ih _

theorem slice_zero_zero {α : Type} (l : List α) : GoSem.slice l 0 0 = some [] := by
  simp [GoSem.slice]

/-- the part of the loop body after the scanning loop: decide whether the file is rewritten, and
    rewrite it -/
def fileRest (io : IOFail) (update sort : Bool) (f : File) (fs : FS) (r : ScanState × Text) : ForInStep OS :=
  if (!(update && r.1.hasDiffs) && !(sort && !isSortedNat r.1.testIDs)) = true then
    ForInStep.yield (none, fs, r.1.obsolete, [], [], [])
  else if (overwriteFile io fs f []).2.2.notNil = true then
    ForInStep.done (some ((overwriteFile io fs f []).1, [], (overwriteFile io fs f []).2.2), (overwriteFile io fs f []).1,
      r.1.obsolete, r.1.tests, r.2, if (sort && !isSortedNat r.1.testIDs) = true then sortNat r.1.testIDs else r.1.testIDs)
  else
    ForInStep.yield (none,
      ((if (sort && !isSortedNat r.1.testIDs) = true then sortNat r.1.testIDs else r.1.testIDs).foldl (wstep io r.1.tests)
        ((overwriteFile io fs f []).1, (overwriteFile io fs f []).2.1)).1,
      r.1.obsolete, [], [], [])

/-- the Go condition under which an entry is reported obsolete -/
def goObsolete (re : Text → Text → Bool × Bool) (skipped : List Text) (runOnly : Text) (reg : GoSet) (id : Text) : Bool :=
  !setHas reg id && !Generated.Funcs.testSkipped re skipped id runOnly

/-- the body of the `range used` loop, for every failure oracle: `none` = panic, `done` = early
    return (the first component is the returned value), `yield` = next file -/
def fileStep (io : IOFail) (re : Text → Text → Bool × Bool) (skipped : List Text) (registry : Map2)
    (runOnly : Text) (count : Int) (update sort : Bool) (p : Text) (fs : FS) (obs : List Text) :
    Option (ForInStep OS) :=
  if (openRDWR io fs p).2.notNil = true then
    some (ForInStep.done (some (fs, [], (openRDWR io fs p).2), fs, obs, [], [], []))
  else
    (Generated.FuncsIO.occurrences (map2Inner registry p) count (fun a b => some (snapshotOccurrenceFMT a b))).bind fun reg =>
      some (fileRest io update sort (fileAtEnd fs (openRDWR io fs p).1) fs
        (goScan (goObsolete re skipped runOnly reg) update (scan (fileContent fs (openRDWR io fs p).1)) .outer
          { obsolete := obs }))

/-- the `range used` loop as a recursion over the files -/
def goFiles (step : Text → FS → List Text → Option (ForInStep OS)) : List Text → FS → List Text → Option OS
  | [], fs, obs => some (none, fs, obs, [], [], [])
  | p :: rest, fs, obs =>
    match step p fs obs with
    | none => none
    | some (ForInStep.done r) => some r
    | some (ForInStep.yield r) => goFiles step rest r.2.1 r.2.2.1

theorem files_loop (G : Text → OS → Option (ForInStep OS)) (step : Text → FS → List Text → Option (ForInStep OS))
    (hG : ∀ p fs obs, G p (none, fs, obs, [], [], []) = step p fs obs)
    (hshape : ∀ p fs obs r, step p fs obs = some (ForInStep.yield r) → r = (none, r.2.1, r.2.2.1, [], [], []))
    (used : List Text) (fs : FS) (obs : List Text) :
    forIn used ((none, fs, obs, [], [], []) : OS) G = goFiles step used fs obs := by
  induction used generalizing fs obs with
  | nil => rfl
  | cons p rest ih =>
    rw [List.forIn_cons, hG, goFiles]
    cases hs : step p fs obs with
    | none => rfl
    | some x =>
      cases x with
      | done r => rfl
      | yield r =>
        have := hshape p fs obs r hs
        simp only [Option.bind_eq_bind, Option.bind_some]
        rw [this]
        exact ih _ _

theorem fileStep_shape (io : IOFail) (re : Text → Text → Bool × Bool) (skipped : List Text) (registry : Map2)
    (runOnly : Text) (count : Int) (update sort : Bool) (p : Text) (fs : FS) (obs : List Text) (r : OS)
    (h : fileStep io re skipped registry runOnly count update sort p fs obs = some (ForInStep.yield r)) :
    r = (none, r.2.1, r.2.2.1, [], [], []) := by
  unfold fileStep at h
  split at h
  · cases h
  · cases hocc : Generated.FuncsIO.occurrences (map2Inner registry p) count (fun a b => some (snapshotOccurrenceFMT a b)) with
    | none => rw [hocc] at h; cases h
    | some reg =>
      rw [hocc] at h
      simp only [Option.bind_some, Option.some.injEq] at h
      unfold fileRest at h
      split at h
      · cases h; rfl
      · split at h
        · cases h
        · cases h; rfl

/-- what `examineSnaps` returns once the loop over the files has ended -/
def finish (r : OS) : Ret :=
  match r.1 with
  | some x => x
  | none => (r.2.1, r.2.2.1, Err.nil)

/-- **`examineSnaps`, for every failure oracle**, as a recursion over the files whose step is given
    in closed form (`fileStep`: `openRDWR`, `occurrences`, the scanning state machine `goScan`,
    `overwriteFile` and a fold of `fileWrite`s) -/
theorem examineSnaps_eq (io : IOFail) (fs : FS) (re : Text → Text → Bool × Bool) (skipped : List Text)
    (registry : Map2) (used : List Text) (runOnly : Text) (count : Int) (update sort : Bool) :
    Generated.FuncsIO.examineSnaps io fs re skipped registry used runOnly count update sort =
      (goFiles (fileStep io re skipped registry runOnly count update sort) used fs []).map finish := by
  have e : Generated.endSeq = Generated.go_endSequence := by decide
  unfold Generated.FuncsIO.examineSnaps
  simp only [bind, pure]
  rw [files_loop _ (fileStep io re skipped registry runOnly count update sort) ?hG
    (fileStep_shape io re skipped registry runOnly count update sort)]
  · cases goFiles (fileStep io re skipped registry runOnly count update sort) used fs [] with
    | none => rfl
    | some r =>
      obtain ⟨r1, r2⟩ := r
      cases r1 <;> rfl
  case hG =>
    intro p fs obs
    dsimp only
    unfold fileStep
    by_cases h1 : (openRDWR io fs p).2.notNil = true
    · rw [if_pos h1, if_pos h1]
    · rw [if_neg h1, if_neg h1]
      congr 1; funext reg
      simp only [scanFile, Scanner.new, Scanner.fuel]
      rw [scan_loop (goObsolete re skipped runOnly reg) update _ ?hnil ?hline ?hkeep ?hdrop ?hobs _ _ obs [] [] false false
        false [] (Nat.lt_succ_self _)]
      · generalize goScan (goObsolete re skipped runOnly reg) update (scan (fileContent fs (openRDWR io fs p).fst))
          ScanMode.outer { obsolete := obs } = r
        obtain ⟨st, d⟩ := r
        have hnn : Err.nil.notNil = false := rfl
        simp only [Option.bind_some, packSS, Scanner.err, hnn, slice_zero_zero, Bool.false_eq_true, ↓reduceIte]
        unfold fileRest
        cases hS : (sort && !isSortedNat st.testIDs) <;> cases hU : (update && st.hasDiffs) <;>
          cases hW : (overwriteFile io fs (fileAtEnd fs (openRDWR io fs p).fst) []).2.2.notNil <;>
          simp only [Bool.not_true, Bool.not_false, Bool.and_true, Bool.and_false, Bool.false_eq_true, ↓reduceIte]
        all_goals
          rw [write_loop io st.tests _ ?hw]
          · simp only [Option.bind_some]
          case hw =>
            intro id s
            unfold wstep
            cases smapHas st.tests id <;> simp
      case hnil => intro obs t d ids hd ok c; simp [scan_nil]
      case hline =>
        intro obs t ids hd ok c l ls hg
        simp [scan_cons, Scanner.bytes, getTestID_total, hg]
      case hkeep =>
        intro obs t ids hd ok c l ls id hg hO
        have hO' : (!setHas reg id && !Generated.Funcs.testSkipped re skipped id runOnly) = false := hO
        simp only [scan_cons, Scanner.bytes, getTestID_total, hg, hO', Option.bind_some, Bool.not_true, Bool.false_eq_true,
          ↓reduceIte]
        rw [coll_loop id _ ?h1 ?h2 ?h3]
        · simp
        case h1 => intro t d ok c; simp [scan_nil]
        case h2 => intro t d ok c ls; simp [scan_cons, endSeq, e]
        case h3 =>
          intro t d ok c l ls h
          have h' : ¬ (l = Generated.go_endSequence) := h
          simp [scan_cons, h', nl]
      case hdrop =>
        intro hu obs t ids hd ok c l ls id hg hO
        have hO' : (!setHas reg id && !Generated.Funcs.testSkipped re skipped id runOnly) = true := hO
        simp only [scan_cons, Scanner.bytes, getTestID_total, hg, hO', hu, Option.bind_some, Bool.not_true, Bool.false_eq_true,
          ↓reduceIte, removeSnapshot_eq]
      case hobs =>
        intro hu obs t ids hd ok c l ls id hg hO
        have hO' : (!setHas reg id && !Generated.Funcs.testSkipped re skipped id runOnly) = true := hO
        simp only [scan_cons, Scanner.bytes, getTestID_total, hg, hO', hu, Option.bind_some, Bool.not_true, Bool.false_eq_true,
          ↓reduceIte]
        rw [coll_loop id _ ?h1 ?h2 ?h3]
        · simp
        case h1 => intro t d ok c; simp [scan_nil]
        case h2 => intro t d ok c ls; simp [scan_cons, endSeq, e]
        case h3 =>
          intro t d ok c l ls h
          have h' : ¬ (l = Generated.go_endSequence) := h
          simp [scan_cons, h', nl]

/-! ### B.1 the scanning state machine against the model's `exScan` -/

theorem testsSet_eq_smapSet (m : List (Text × Text)) (k v : Text) : testsSet m k v = smapSet m k v := by
  induction m with
  | nil => rfl
  | cons x m ih =>
    obtain ⟨k', v'⟩ := x
    simp only [testsSet, smapSet, ih]

theorem testsGet_eq (m : List (Text × Text)) (k : Text) :
    testsGet m k = if smapHas m k then some (smapGet m k) else none := by
  induction m with
  | nil => rfl
  | cons x m ih =>
    obtain ⟨k', v'⟩ := x
    by_cases h : k' = k
    · simp [testsGet, smapHas, smapGet, h]
    · have hh : smapHas ((k', v') :: m) k = smapHas m k := by simp [smapHas, h]
      simp only [testsGet, smapGet, h, ↓reduceIte, ih, hh]

/-- `testSkipped` in closed form: on the skip list, or not matched by `-run` -/
theorem funcs_testSkipped_eq (re : Text → Text → Bool × Bool) (skipped : List Text) (testID runOnly : Text) :
    Generated.Funcs.testSkipped re skipped testID runOnly =
      (skipped.any (fun name => beforeSep testID Generated.skipSep = name ||
        hasPrefix (beforeSep testID Generated.skipSep) (name ++ [slash])) || !(re runOnly testID).1) := by
  have hsep : Generated.skipSep = [32, 45, 32] := by decide
  have hsl : slash = 47 := rfl
  have key := forIn_find_loop (fun name => beforeSep testID [32, 45, 32] == name || hasPrefix (beforeSep testID [32, 45, 32]) (name ++ [47])) skipped
  unfold Generated.Funcs.testSkipped
  simp [Id.run, pure, hsep, hsl, splitHead_eq_beforeSep] at key ⊢
  rw [key]
  split
  · rename_i hx
    have : (skipped.any fun name => decide (beforeSep testID [32, 45, 32] = name) ||
        hasPrefix (beforeSep testID [32, 45, 32]) (name ++ [47])) = true := by
      rw [List.any_eq_true]
      obtain ⟨x, hx1, hx2⟩ := hx
      exact ⟨x, hx1, by simpa using hx2⟩
    rw [this]; rfl
  · rename_i hx
    have : (skipped.any fun name => decide (beforeSep testID [32, 45, 32] = name) ||
        hasPrefix (beforeSep testID [32, 45, 32]) (name ++ [47])) = false := by
      rw [List.any_eq_false]
      intro x hx1
      cases h1 : (decide (beforeSep testID [32, 45, 32] = x) || hasPrefix (beforeSep testID [32, 45, 32]) (x ++ [47])) with
      | false => simp
      | true => exact absurd ⟨x, hx1, by simpa using h1⟩ hx
    rw [this]; rfl

/-- the answers the model's oracle table has for the pattern `runOnly` are the ones of the function
    standing for `regexp.MatchString` (for `runOnly = ""` the model answers "matched" without a
    table: the hypothesis then says that the empty pattern matches every string) -/
def OracleSound (o : Oracles) (re : Text → Text → Bool × Bool) (runOnly : Text) : Prop :=
  ∀ s b, o.reMatch runOnly s = some b → (re runOnly s).1 = b

/-- whenever the model's `testSkipped` has an answer, it is Go's -/
theorem testSkipped_sound (o : Oracles) (re : Text → Text → Bool × Bool) (skipped : List Text) (testID runOnly : Text)
    (hs : OracleSound o re runOnly) (b : Bool) (h : GoSnaps.testSkipped o skipped testID runOnly = some b) :
    Generated.Funcs.testSkipped re skipped testID runOnly = b := by
  rw [funcs_testSkipped_eq]
  unfold GoSnaps.testSkipped at h
  simp only at h
  split at h
  · rename_i hl
    cases h
    simp only [Bool.or_eq_true] at hl ⊢
    rw [List.any_eq_true] at hl ⊢
    obtain ⟨x, hx, hx'⟩ := hl
    exact Or.inl ⟨x, hx, by simpa using hx'⟩
  · rename_i hl
    cases hm : o.reMatch runOnly testID with
    | none => rw [hm] at h; cases h
    | some m =>
      rw [hm] at h
      simp only [Option.map_some, Option.some.injEq] at h
      rw [hs _ _ hm, ← h]
      have : (skipped.any fun name => decide (beforeSep testID Generated.skipSep = name) ||
          hasPrefix (beforeSep testID Generated.skipSep) (name ++ [slash])) = false := by
        simpa using hl
      rw [this]; rfl

/-- **B.1, state machine**: if the oracle is sound and the model did not run into a missing oracle
    answer, the Go run (`goScan`, with the Go obsolescence test) computes the model's `exScan`.
    `reg` (the Go set) and `registered` (the model's list) need only have the same members. -/
theorem goScan_exScan (o : Oracles) (re : Text → Text → Bool × Bool) (registered : List Text) (reg : GoSet)
    (skipped : List Text) (runOnly : Text) (update : Bool) (hs : OracleSound o re runOnly)
    (hreg : ∀ x, x ∈ reg ↔ x ∈ registered) (ls : List Line) (mode : ScanMode) (st : ScanState)
    (hm : (exScan o registered skipped runOnly update ls mode st).missing = false) :
    (goScan (goObsolete re skipped runOnly reg) update ls mode st).1 =
      exScan o registered skipped runOnly update ls mode st := by
  induction ls generalizing mode st with
  | nil => cases mode <;> simp [goScan, exScan]
  | cons l ls ih =>
    cases mode with
    | skipping =>
      by_cases h : l = endSeq
      · simp only [goScan, exScan, h, ↓reduceIte] at hm ⊢; exact ih _ _ hm
      · simp only [goScan, exScan, h, ↓reduceIte] at hm ⊢; exact ih _ _ hm
    | collecting id d =>
      by_cases h : l = endSeq
      · simp only [goScan, exScan, h, ↓reduceIte, ← testsSet_eq_smapSet] at hm ⊢; exact ih _ _ hm
      · simp only [goScan, exScan, h, ↓reduceIte] at hm ⊢; exact ih _ _ hm
    | outer =>
      cases hg : GoSnaps.getTestID l with
      | none => simp only [goScan, exScan, hg] at hm ⊢; exact ih _ _ hm
      | some id =>
        have hc : setHas reg id = registered.contains id := by
          unfold setHas
          by_cases hx : id ∈ registered
          · rw [List.contains_iff_mem.mpr hx, List.contains_iff_mem.mpr ((hreg id).mpr hx)]
          · have hx' : id ∉ reg := fun h => hx ((hreg id).mp h)
            have e1 : registered.contains id = false := by simpa using hx
            have e2 : reg.contains id = false := by simpa using hx'
            rw [e1, e2]
        simp only [goScan, exScan, hg] at hm ⊢
        cases hr : registered.contains id with
        | true =>
          have hO : goObsolete re skipped runOnly reg id = false := by simp only [goObsolete, hc, hr, Bool.not_true, Bool.false_and]
          simp only [hr, hO, ↓reduceIte, Bool.false_eq_true] at hm ⊢
          exact ih _ _ hm
        | false =>
          simp only [hr, Bool.false_eq_true, ↓reduceIte] at hm ⊢
          cases hts : GoSnaps.testSkipped o skipped id runOnly with
          | none => rw [hts] at hm; simp at hm
          | some b =>
            have hb := testSkipped_sound o re skipped id runOnly hs b hts
            have hO : goObsolete re skipped runOnly reg id = !b := by simp only [goObsolete, hc, hr, hb, Bool.not_false, Bool.true_and]
            rw [hts] at hm
            cases b with
            | true =>
              simp only [hO, Bool.not_true, Bool.false_eq_true, ↓reduceIte] at hm ⊢
              exact ih _ _ hm
            | false =>
              simp only [hO, Bool.not_false, ↓reduceIte] at hm ⊢
              exact ih _ _ hm

/-- if the oracle answers every query the scan asks (one per header line whose id is neither
    registered nor on the skip list), `missing` stays false -/
theorem exScan_not_missing (o : Oracles) (registered skipped : List Text) (runOnly : Text) (update : Bool)
    (ls : List Line) (hq : ∀ l ∈ ls, ∀ id, GoSnaps.getTestID l = some id → registered.contains id = false →
      ∃ b, GoSnaps.testSkipped o skipped id runOnly = some b)
    (mode : ScanMode) (st : ScanState) (h0 : st.missing = false) :
    (exScan o registered skipped runOnly update ls mode st).missing = false := by
  induction ls generalizing mode st with
  | nil => cases mode <;> simpa [exScan] using h0
  | cons l ls ih =>
    have ih' := fun m s hs => ih (fun l' hl' => hq l' (by simp [hl'])) m s hs
    cases mode with
    | skipping =>
      by_cases h : l = endSeq
      · simp only [exScan, h, ↓reduceIte]; exact ih' _ _ h0
      · simp only [exScan, h, ↓reduceIte]; exact ih' _ _ h0
    | collecting id d =>
      by_cases h : l = endSeq
      · simp only [exScan, h, ↓reduceIte]; exact ih' _ _ h0
      · simp only [exScan, h, ↓reduceIte]; exact ih' _ _ h0
    | outer =>
      cases hg : GoSnaps.getTestID l with
      | none => simp only [exScan, hg]; exact ih' _ _ h0
      | some id =>
        simp only [exScan, hg]
        cases hr : registered.contains id with
        | true => simp only [↓reduceIte]; exact ih' _ _ h0
        | false =>
          obtain ⟨b, hb⟩ := hq l (by simp) id hg hr
          simp only [Bool.false_eq_true, ↓reduceIte, hb]
          cases b
          · exact ih' _ _ h0
          · exact ih' _ _ h0

theorem getTestID_endSeq : GoSnaps.getTestID endSeq = none := by decide

/-- what is left in `data` when the scanner is exhausted: nothing if the last token is a terminator
    (every file written by go-snaps) … -/
theorem goScan_left_terminated (O : Text → Bool) (update : Bool) (ls : List Line) (mode : ScanMode) (st : ScanState)
    (h : ls.getLast? = some endSeq) : (goScan O update ls mode st).2 = [] := by
  induction ls generalizing mode st with
  | nil => simp at h
  | cons l ls ih =>
    cases ls with
    | nil =>
      have hl : l = endSeq := by simpa using h
      subst hl
      cases mode <;> simp [goScan, getTestID_endSeq]
    | cons l' ls' =>
      have h' : (l' :: ls').getLast? = some endSeq := by simpa [List.getLast?_cons_cons] using h
      generalize l' :: ls' = rest at h' ih ⊢
      cases mode with
      | skipping =>
        by_cases hl : l = endSeq
        · simp only [goScan, hl, ↓reduceIte]; exact ih _ _ h'
        · simp only [goScan, hl, ↓reduceIte]; exact ih _ _ h'
      | collecting id d =>
        by_cases hl : l = endSeq
        · simp only [goScan, hl, ↓reduceIte]; exact ih _ _ h'
        · simp only [goScan, hl, ↓reduceIte]; exact ih _ _ h'
      | outer =>
        cases hg : GoSnaps.getTestID l with
        | none => simp only [goScan, hg]; exact ih _ _ h'
        | some id =>
          simp only [goScan, hg]
          cases O id
          · simp only [Bool.false_eq_true, ↓reduceIte]; exact ih _ _ h'
          · simp only [↓reduceIte]; exact ih _ _ h'

/-- … and the lines of the unterminated entry when the file ends inside one that is being
    collected: header `[TestA - 1]`, body line `x`, no `---` -/
example : goScan (fun _ => false) true [[91,84,101,115,116,65,32,45,32,49,93], [120]] .outer {} =
    ({ testIDs := [[84,101,115,116,65,32,45,32,49]] }, [120, 10]) := by decide

/-- **B.1** `scan_file_tied`: the nested scanner loops of `examineSnaps`, run on the tokens `ls` of
    one file from the accumulated state `(obsoleteTests, tests, data = [], testIDs, hasDiffs)`,
    compute exactly the components of the model's `exScan … ls .outer`, provided the oracle is sound
    and answers every query the scan asks; `missing` then stays false.  `F` is any loop body that
    behaves like the Go body on each kind of state (`examineSnaps_eq` proves that the generated body
    does: the five characterisations are discharged there by symbolic evaluation, the inner loop by
    `coll_loop`); the fuel is the `Scanner.fuel` of the transliteration.  The third component is
    what stays in `data` (the lines of an entry without terminator at the end of the file, see
    `goScan_left_terminated`); the caller resets it before the next file (`fileRest`). -/
theorem scan_file_tied (o : Oracles) (re : Text → Text → Bool × Bool) (registered : List Text) (reg : GoSet)
    (skipped : List Text) (runOnly : Text) (update : Bool) (hs : OracleSound o re runOnly)
    (hreg : ∀ x, setHas reg x = registered.contains x)
    (F : Unit → SS → Option (ForInStep SS))
    (hnil : ∀ obs t d ids hd ok c, F () (obs, t, d, ids, hd, ({ ok := ok, cur := c, rest := [] } : Scanner)) =
      some (ForInStep.done (obs, t, d, ids, hd, ({ ok := false, cur := [], rest := [] } : Scanner))))
    (hline : ∀ obs t ids hd ok c l ls, GoSnaps.getTestID l = none →
      F () (obs, t, [], ids, hd, ({ ok := ok, cur := c, rest := l :: ls } : Scanner)) =
      some (ForInStep.yield (obs, t, [], ids, hd, ({ ok := true, cur := l, rest := ls } : Scanner))))
    (hkeep : ∀ obs t ids hd ok c l ls id, GoSnaps.getTestID l = some id → goObsolete re skipped runOnly reg id = false →
      F () (obs, t, [], ids, hd, ({ ok := ok, cur := c, rest := l :: ls } : Scanner)) =
      some (ForInStep.yield (obs, (collL id ls t []).1, (collL id ls t []).2.1, ids ++ [id], hd, (collL id ls t []).2.2)))
    (hdrop : update = true → ∀ obs t ids hd ok c l ls id, GoSnaps.getTestID l = some id →
      goObsolete re skipped runOnly reg id = true →
      F () (obs, t, [], ids, hd, ({ ok := ok, cur := c, rest := l :: ls } : Scanner)) =
      some (ForInStep.yield (obs ++ [id], t, [], ids ++ [id], true, skipL ls)))
    (hobs : update = false → ∀ obs t ids hd ok c l ls id, GoSnaps.getTestID l = some id →
      goObsolete re skipped runOnly reg id = true →
      F () (obs, t, [], ids, hd, ({ ok := ok, cur := c, rest := l :: ls } : Scanner)) =
      some (ForInStep.yield (obs ++ [id], (collL id ls t []).1, (collL id ls t []).2.1, ids ++ [id], true, (collL id ls t []).2.2)))
    (ls : List Line) (obs : List Text) (t : SMap) (ids : List Text) (hd ok : Bool) (c : Line)
    (hq : ∀ l ∈ ls, ∀ id, GoSnaps.getTestID l = some id → registered.contains id = false →
      ∃ b, GoSnaps.testSkipped o skipped id runOnly = some b) :
    (exScan o registered skipped runOnly update ls .outer
        { testIDs := ids, tests := t, obsolete := obs, hasDiffs := hd }).missing = false ∧
    forIn (Scanner.fuel { ok := ok, cur := c, rest := ls }) (obs, t, [], ids, hd, ({ ok := ok, cur := c, rest := ls } : Scanner)) F =
      some ((exScan o registered skipped runOnly update ls .outer
              { testIDs := ids, tests := t, obsolete := obs, hasDiffs := hd }).obsolete,
            (exScan o registered skipped runOnly update ls .outer
              { testIDs := ids, tests := t, obsolete := obs, hasDiffs := hd }).tests,
            (goScan (goObsolete re skipped runOnly reg) update ls .outer
              { testIDs := ids, tests := t, obsolete := obs, hasDiffs := hd }).2,
            (exScan o registered skipped runOnly update ls .outer
              { testIDs := ids, tests := t, obsolete := obs, hasDiffs := hd }).testIDs,
            (exScan o registered skipped runOnly update ls .outer
              { testIDs := ids, tests := t, obsolete := obs, hasDiffs := hd }).hasDiffs,
            { ok := false, cur := [], rest := [] }) := by
  have hm := exScan_not_missing o registered skipped runOnly update ls hq .outer
    { testIDs := ids, tests := t, obsolete := obs, hasDiffs := hd } rfl
  have hmem : ∀ x, x ∈ reg ↔ x ∈ registered := by
    intro x
    have := hreg x
    unfold setHas at this
    rw [← List.contains_iff_mem, ← List.contains_iff_mem, this]
  refine ⟨hm, ?_⟩
  rw [Scanner.fuel, scan_loop (goObsolete re skipped runOnly reg) update F hnil hline hkeep hdrop hobs _ ls obs t ids hd false
    ok c (Nat.lt_succ_self _)]
  rw [← goScan_exScan o re registered reg skipped runOnly update hs hmem ls .outer _ hm]
  rfl

/-! ### B.2 one file, then all files, under `IOFail.never` -/

/-- the model's view of `registry[p]`: the entries of `cleanup` for file `p` -/
def mineOf (cleanup : List (RegKey × Nat)) (p : Text) : List (Text × Nat) :=
  (cleanup.filter (·.1.1 = p)).map (fun (k, n) => (k.2, n))

/-- the correspondence needed between the Go registry `map[string]map[string]int` and the model's
    flat list, for file `p`: the inner map and the model's entries for `p` hold the same
    (test name, counter) pairs — in any order (Go ranges over the map in an unspecified order) -/
def RegCorr (registry : Map2) (cleanup : List (RegKey × Nat)) (p : Text) : Prop :=
  ∀ x, x ∈ map2Inner registry p ↔ x ∈ intImage (mineOf cleanup p)

/-- what `occurrences(registry[p], count, snapshotOccurrenceFMT)` returns has the members of the
    model's `registeredFor` -/
theorem registered_tied (registry : Map2) (cleanup : List (RegKey × Nat)) (p : Text) (cnt : Nat) (hc : cnt > 0)
    (h : RegCorr registry cleanup p) (registered : List Text) (hR : registeredFor cleanup p cnt = some registered) :
    ∃ reg, Generated.FuncsIO.occurrences (map2Inner registry p) (cnt : Int) (fun a b => some (snapshotOccurrenceFMT a b)) = some reg ∧
      ∀ x, x ∈ reg ↔ x ∈ registered := by
  obtain ⟨r2, hr2, _, hm2⟩ := occurrences_tied_gen (fun a b => some (snapshotOccurrenceFMT a b)) snapshotOccFmt
    (fun s i => snapshotOccurrenceFMT_tied s i) (mineOf cleanup p) cnt hc registered hR
  obtain ⟨r1, hr1, _, hm1⟩ := occurrences_mem (map2Inner registry p) (cnt : Int)
    (fun a b => some (snapshotOccurrenceFMT a b)) (by omega) (fun _ _ _ _ => ⟨_, rfl⟩)
  obtain ⟨r2', hr2', _, hm2'⟩ := occurrences_mem (intImage (mineOf cleanup p)) (cnt : Int)
    (fun a b => some (snapshotOccurrenceFMT a b)) (by omega) (fun _ _ _ _ => ⟨_, rfl⟩)
  rw [hr2] at hr2'; cases hr2'
  refine ⟨r1, hr1, fun x => ?_⟩
  rw [← hm2, hm1, hm2']
  constructor
  · rintro ⟨q, hq, rest⟩; exact ⟨q, (h q).mp hq, rest⟩
  · rintro ⟨q, hq, rest⟩; exact ⟨q, (h q).mpr hq, rest⟩

/-- what the rewrite loop prints for `id` -/
def frameOf (tests : SMap) (id : Text) : Text :=
  if smapHas tests id then
    ([10, 91] : List UInt8) ++ id ++ ([93, 10] : List UInt8) ++ smapGet tests id ++ Generated.go_endSequence ++ ([10] : List UInt8)
  else []

theorem writeAt_end (old b : Text) : writeAt old old.length b = old ++ b := by
  simp [writeAt]

/-- the rewrite loop under `IOFail.never`: every `Fprintf` lands at the end of what was written so far -/
theorem wfold (fs : FS) (p : Text) (tests : SMap) (ids : List Text) (acc : Text) :
    (ids.foldl (wstep IOFail.never tests) (fsWrite fs p acc, { path := p, append := false, pos := acc.length })).1 =
      fsWrite fs p (acc ++ (ids.map (frameOf tests)).flatten) := by
  induction ids generalizing acc with
  | nil => simp
  | cons id ids ih =>
    rw [List.foldl_cons]
    cases hh : smapHas tests id with
    | false =>
      have : wstep IOFail.never tests (fsWrite fs p acc, { path := p, append := false, pos := acc.length }) id =
          (fsWrite fs p acc, { path := p, append := false, pos := acc.length }) := by simp [wstep, hh]
      rw [this, ih]
      simp [frameOf, hh]
    | true =>
      have : wstep IOFail.never tests (fsWrite fs p acc, { path := p, append := false, pos := acc.length }) id =
          (fsWrite fs p (acc ++ frameOf tests id), { path := p, append := false, pos := (acc ++ frameOf tests id).length }) := by
        simp only [wstep, hh, ↓reduceIte, fileWrite, IOFail.never, fileContent, fsRead_fsWrite_same, Bool.false_eq_true,
          fsWrite_fsWrite, writeAt_end, frameOf]
        simp
      rw [this, ih]
      simp

theorem cleanFrame_bytes (id body : Text) :
    cleanFrame id body = some (([10, 91] : List UInt8) ++ id ++ ([93, 10] : List UInt8) ++ body ++ Generated.go_endSequence ++ ([10] : List UInt8)) := by
  have hp : parseFmt Generated.cleanFmt =
      some [.lit [nl, 91], .verb 115, .lit [93, nl], .verb 115, .verb 115, .lit [nl]] := by decide
  simp [cleanFrame, sprintf, hp, fmtPieces, fmtVerb, nl]

theorem rewriteFrames_frameOf (tests : List (Text × Text)) (ids : List Text) :
    (rewriteFrames tests ids).any (·.isNone) = false ∧
      ((rewriteFrames tests ids).filterMap (fun x => x)).flatten = (ids.map (frameOf tests)).flatten := by
  have h1 : rewriteFrames tests ids = ids.map (fun id => some (frameOf tests id)) := by
    unfold rewriteFrames
    apply List.map_congr_left
    intro id _
    rw [testsGet_eq]
    cases hh : smapHas tests id <;> simp [frameOf, hh, cleanFrame_bytes]
  rw [h1]
  constructor
  · simp
  · clear h1
    induction ids with
    | nil => rfl
    | cons id ids ih => simpa using ih

theorem goScan_obs (O : Text → Bool) (update : Bool) (obs : List Text) (ls : List Line) (mode : ScanMode) (st : ScanState) :
    goScan O update ls mode { st with obsolete := obs ++ st.obsolete } =
      ({ (goScan O update ls mode st).1 with obsolete := obs ++ (goScan O update ls mode st).1.obsolete },
        (goScan O update ls mode st).2) := by
  induction ls generalizing mode st with
  | nil => cases mode <;> simp [goScan]
  | cons l ls ih =>
    cases mode with
    | skipping =>
      by_cases h : l = endSeq
      · simp only [goScan, h, ↓reduceIte]; exact ih _ _
      · simp only [goScan, h, ↓reduceIte]; exact ih _ _
    | collecting id d =>
      by_cases h : l = endSeq
      · simp only [goScan, h, ↓reduceIte]; exact ih _ { st with tests := smapSet st.tests id d }
      · simp only [goScan, h, ↓reduceIte]; exact ih _ _
    | outer =>
      cases hg : GoSnaps.getTestID l with
      | none => simp only [goScan, hg]; exact ih _ _
      | some id =>
        simp only [goScan, hg]
        cases O id with
        | false =>
          simp only [Bool.false_eq_true, ↓reduceIte]
          exact ih _ { st with testIDs := st.testIDs ++ [id] }
        | true =>
          simp only [↓reduceIte, List.append_assoc]
          exact ih _ { st with testIDs := st.testIDs ++ [id], obsolete := st.obsolete ++ [id], hasDiffs := true }

/-- **B.2, one file** (`IOFail.never`): the loop body of the transliteration on a file that exists,
    with corresponding registries and a sound oracle that answered every query: the file is
    rewritten (or not) exactly as the model's step says, the obsolete ids are appended, and
    `tests`, `data`, `testIDs` are reset -/
theorem fileStep_tied (o : Oracles) (re : Text → Text → Bool × Bool) (skipped : List Text) (registry : Map2)
    (cleanup : List (RegKey × Nat)) (runOnly : Text) (cnt : Nat) (update sort : Bool) (p : Text) (fs : FS)
    (obs : List Text) (hc : cnt > 0) (hs : OracleSound o re runOnly) (hreg : RegCorr registry cleanup p)
    (content : Text) (hr : fsRead fs p = some content)
    (registered : List Text) (hR : registeredFor cleanup p cnt = some registered)
    (hm : (exScan o registered skipped runOnly update (scan content) .outer {}).missing = false) :
    fileStep IOFail.never re skipped registry runOnly (cnt : Int) update sort p fs obs =
      some (ForInStep.yield (none,
        (if (!(update && (exScan o registered skipped runOnly update (scan content) .outer {}).hasDiffs) &&
              !(sort && !isSortedNat (exScan o registered skipped runOnly update (scan content) .outer {}).testIDs)) = true
         then fs
         else fsWrite fs p ((rewriteFrames (exScan o registered skipped runOnly update (scan content) .outer {}).tests
            (if (sort && !isSortedNat (exScan o registered skipped runOnly update (scan content) .outer {}).testIDs) = true
             then sortNat (exScan o registered skipped runOnly update (scan content) .outer {}).testIDs
             else (exScan o registered skipped runOnly update (scan content) .outer {}).testIDs)).filterMap (fun x => x)).flatten),
        obs ++ (exScan o registered skipped runOnly update (scan content) .outer {}).obsolete, [], [], [])) := by
  obtain ⟨reg, hocc, hmem⟩ := registered_tied registry cleanup p cnt hc hreg registered hR
  have hopen : openRDWR IOFail.never fs p = ({ path := p }, Err.nil) := by simp [openRDWR, IOFail.never, hr]
  have hcont : fileContent fs { path := p } = content := by simp [fileContent, hr]
  have hgs := goScan_exScan o re registered reg skipped runOnly update hs hmem (scan content) .outer {} hm
  have hobs := goScan_obs (goObsolete re skipped runOnly reg) update obs (scan content) .outer {}
  have hst : ({ ({} : ScanState) with obsolete := obs ++ ({} : ScanState).obsolete } : ScanState) = { obsolete := obs } := by
    simp
  rw [hst] at hobs
  unfold fileStep
  rw [hopen, hocc]
  simp only [Err.notNil, Bool.false_eq_true, ↓reduceIte, Option.bind_some, hcont, hobs, fileRest, hgs,
    overwriteFile_tied, fileAtEnd]
  generalize exScan o registered skipped runOnly update (scan content) .outer {} = st
  have hw := fun ids => wfold fs p st.tests ids []
  simp only [List.nil_append] at hw
  split
  · rfl
  · simp only [hw, (rewriteFrames_frameOf st.tests _).2]

/-- **B.2, induction over the files**: the step used by `examineSnaps_tied`, for any accumulated
    state of the model's recursion -/
theorem goFiles_tied (o : Oracles) (re : Text → Text → Bool × Bool) (skipped : List Text) (registry : Map2)
    (cleanup : List (RegKey × Nat)) (runOnly : Text) (cnt : Nat) (update sort : Bool)
    (hc : cnt > 0) (hs : OracleSound o re runOnly) :
    ∀ (used : List Text) (fs : FS) (obs written obs' : List Text) (fs' : FS) (written' : List Text),
      (∀ p ∈ used, RegCorr registry cleanup p) →
      examineSnaps.go o cleanup skipped runOnly cnt update sort used fs obs written = .ok obs' fs' written' →
      goFiles (fileStep IOFail.never re skipped registry runOnly (cnt : Int) update sort) used fs obs =
        some (none, fs', obs', [], [], []) := by
  intro used
  induction used with
  | nil =>
    intro fs obs written obs' fs' written' _ h
    rw [examineSnaps_go_nil] at h
    cases h
    rfl
  | cons p rest ih =>
    intro fs obs written obs' fs' written' hreg h
    rw [examineSnaps_go_cons] at h
    cases hr : fsRead fs p with
    | none => rw [hr] at h; cases h
    | some content =>
      cases hR : registeredFor cleanup p cnt with
      | none => rw [hr, hR] at h; cases h
      | some registered =>
        have hp : (scan content).any getTestIDPanics = false := by
          rw [List.any_eq_false]; intro l _; simp [getTestIDPanics_false]
        rw [hr, hR] at h
        simp only [hp, Bool.false_eq_true, ↓reduceIte] at h
        cases hm : (exScan o registered skipped runOnly update (scan content) .outer {}).missing with
        | true => rw [hm] at h; simp at h
        | false =>
          rw [hm] at h
          simp only [Bool.false_eq_true, ↓reduceIte] at h
          rw [goFiles, fileStep_tied o re skipped registry cleanup runOnly cnt update sort p fs obs hc hs
            (hreg p (by simp)) content hr registered hR hm]
          simp only
          have hreg' : ∀ q ∈ rest, RegCorr registry cleanup q := fun q hq => hreg q (by simp [hq])
          generalize exScan o registered skipped runOnly update (scan content) .outer {} = st at h ⊢
          have hfr := fun ids => (rewriteFrames_frameOf st.tests ids).1
          cases hS : (sort && !isSortedNat st.testIDs) <;> cases hU : (update && st.hasDiffs) <;>
            simp only [hS, hU, hfr, Bool.not_true, Bool.not_false, Bool.and_true, Bool.and_false, Bool.false_eq_true,
              Bool.true_and, Bool.false_and, ↓reduceIte] at h ⊢
          · exact ih _ _ _ _ _ _ hreg' h
          · exact ih _ _ _ _ _ _ hreg' h
          · split at h
            · cases h
            · exact ih _ _ _ _ _ _ hreg' h
          · split at h
            · cases h
            · exact ih _ _ _ _ _ _ hreg' h

/-- **B.2** `examineSnaps` under `IOFail.never`: whenever the model accepts the input (outcome
    `.ok`; in particular every used file exists and the oracle answered every query), the oracle is
    sound, `count > 0` and the registries correspond on the used files, the transliterated Go
    function returns the model's obsolete ids with a nil error and leaves the model's file system. -/
theorem examineSnaps_tied (o : Oracles) (re : Text → Text → Bool × Bool) (fs : FS) (skipped : List Text)
    (registry : Map2) (cleanup : List (RegKey × Nat)) (used : List Text) (runOnly : Text) (cnt : Nat)
    (update sort : Bool) (hc : cnt > 0) (hs : OracleSound o re runOnly)
    (hreg : ∀ p ∈ used, RegCorr registry cleanup p)
    (obs : List Text) (fs' : FS) (written : List Text)
    (h : GoSnaps.examineSnaps o fs cleanup skipped used runOnly cnt update sort = .ok obs fs' written) :
    Generated.FuncsIO.examineSnaps IOFail.never fs re skipped registry used runOnly (cnt : Int) update sort =
      some (fs', obs, Err.nil) := by
  rw [examineSnaps_eq, goFiles_tied o re skipped registry cleanup runOnly cnt update sort hc hs used fs [] [] obs fs'
    written hreg h]
  rfl

/-! ### B.3 failure branches, for every oracle -/

/-- if opening the first used file fails (permission, I/O error, or the file vanished since
    `examineFiles` listed it), the error is returned, no obsolete id is reported and the file
    system is unchanged -/
theorem examineSnaps_open_error (io : IOFail) (fs : FS) (re : Text → Text → Bool × Bool) (skipped : List Text)
    (registry : Map2) (p : Text) (rest : List Text) (runOnly : Text) (count : Int) (update sort : Bool)
    (h : (openRDWR io fs p).2.notNil = true) :
    Generated.FuncsIO.examineSnaps io fs re skipped registry (p :: rest) runOnly count update sort =
      some (fs, [], (openRDWR io fs p).2) := by
  rw [examineSnaps_eq, goFiles, fileStep, if_pos h]
  rfl

/-- … in particular a used file that does not exist -/
theorem examineSnaps_missing_file (io : IOFail) (fs : FS) (re : Text → Text → Bool × Bool) (skipped : List Text)
    (registry : Map2) (p : Text) (rest : List Text) (runOnly : Text) (count : Int) (update sort : Bool)
    (h : fsRead fs p = none) :
    ∃ err, err.notNil = true ∧
      Generated.FuncsIO.examineSnaps io fs re skipped registry (p :: rest) runOnly count update sort = some (fs, [], err) := by
  have hn : (openRDWR io fs p).2.notNil = true := by
    unfold openRDWR; cases io .openRDWR p <;> simp [h, Err.notNil]
  exact ⟨_, hn, examineSnaps_open_error io fs re skipped registry p rest runOnly count update sort hn⟩

/-- `count = 0` with a non-empty registry entry for the first used file: the Go code panics
    (integer divide by zero) after having opened the file -/
theorem examineSnaps_count_zero (io : IOFail) (fs : FS) (re : Text → Text → Bool × Bool) (skipped : List Text)
    (registry : Map2) (p : Text) (rest : List Text) (runOnly : Text) (update sort : Bool)
    (h : (openRDWR io fs p).2.notNil = false) (hne : map2Inner registry p ≠ []) :
    Generated.FuncsIO.examineSnaps io fs re skipped registry (p :: rest) runOnly 0 update sort = none := by
  rw [examineSnaps_eq, goFiles, fileStep, h, occurrences_count_zero _ _ hne]
  rfl

theorem openRDWR_path (io : IOFail) (fs : FS) (p : Text) : (openRDWR io fs p).1.path = p := by
  unfold openRDWR
  cases io .openRDWR p <;> cases fsRead fs p <;> rfl

/-- a failing `Write` on the first used file when it has to be rewritten (an obsolete entry under
    `UPDATE_SNAPS=clean`, or entries out of order under `Sort`): `overwriteFile` has already
    truncated the file, so ALL its entries are lost, kept ones included; the error is returned and
    the obsolete ids found so far are not reported -/
theorem examineSnaps_write_error (io : IOFail) (fs : FS) (re : Text → Text → Bool × Bool) (skipped : List Text)
    (registry : Map2) (p : Text) (rest : List Text) (runOnly : Text) (count : Int) (update sort : Bool)
    (hopen : (openRDWR io fs p).2.notNil = false) (reg : GoSet)
    (hocc : Generated.FuncsIO.occurrences (map2Inner registry p) count (fun a b => some (snapshotOccurrenceFMT a b)) = some reg)
    (hneed : (!(update && (goScan (goObsolete re skipped runOnly reg) update
                (scan (fileContent fs (openRDWR io fs p).1)) .outer {}).1.hasDiffs) &&
              !(sort && !isSortedNat (goScan (goObsolete re skipped runOnly reg) update
                (scan (fileContent fs (openRDWR io fs p).1)) .outer {}).1.testIDs)) = false)
    (m : Text) (hw : io .write p = some m) :
    Generated.FuncsIO.examineSnaps io fs re skipped registry (p :: rest) runOnly count update sort =
      some (fsWrite fs p [], [], Err.other m) := by
  have hpath : (fileAtEnd fs (openRDWR io fs p).1).path = p := openRDWR_path io fs p
  rw [examineSnaps_eq, goFiles, fileStep, hopen, hocc]
  simp only [Bool.false_eq_true, ↓reduceIte, Option.bind_some, fileRest, hneed, overwriteFile_eq, hpath, hw, Err.notNil]
  rfl

/-- **B.2 for a single file, without the model's order restriction**: `examineSnaps` on `used = [p]`
    under `IOFail.never` in terms of the model's `exScan`, `rewriteFrames`, `isSortedNat`/`sortNat`
    (the transliteration sorts with `sortNat` whether or not the natural order is total on the ids) -/
theorem examineSnaps_file_tied (o : Oracles) (re : Text → Text → Bool × Bool) (skipped : List Text) (registry : Map2)
    (cleanup : List (RegKey × Nat)) (runOnly : Text) (cnt : Nat) (update sort : Bool) (p : Text) (fs : FS)
    (hc : cnt > 0) (hs : OracleSound o re runOnly) (hreg : RegCorr registry cleanup p)
    (content : Text) (hr : fsRead fs p = some content)
    (registered : List Text) (hR : registeredFor cleanup p cnt = some registered)
    (hm : (exScan o registered skipped runOnly update (scan content) .outer {}).missing = false) :
    Generated.FuncsIO.examineSnaps IOFail.never fs re skipped registry [p] runOnly (cnt : Int) update sort =
      some (
        (if (!(update && (exScan o registered skipped runOnly update (scan content) .outer {}).hasDiffs) &&
              !(sort && !isSortedNat (exScan o registered skipped runOnly update (scan content) .outer {}).testIDs)) = true
         then fs
         else fsWrite fs p ((rewriteFrames (exScan o registered skipped runOnly update (scan content) .outer {}).tests
            (if (sort && !isSortedNat (exScan o registered skipped runOnly update (scan content) .outer {}).testIDs) = true
             then sortNat (exScan o registered skipped runOnly update (scan content) .outer {}).testIDs
             else (exScan o registered skipped runOnly update (scan content) .outer {}).testIDs)).filterMap (fun x => x)).flatten),
        (exScan o registered skipped runOnly update (scan content) .outer {}).obsolete, Err.nil) := by
  rw [examineSnaps_eq, goFiles, fileStep_tied o re skipped registry cleanup runOnly cnt update sort p fs [] hc hs hreg content hr
    registered hR hm]
  simp [goFiles, finish]

/-! ### C. the theorems on a concrete input -/

def cPath : Text := [112]
/-- two entries, ids `TestA - 1`, `TestB - 1`, bodies `x`, `y` -/
def cFile : Text :=
  [10, 91,84,101,115,116,65,32,45,32,49,93, 10, 120, 10, 45,45,45, 10,
   10, 91,84,101,115,116,66,32,45,32,49,93, 10, 121, 10, 45,45,45, 10]
/-- the same entries, `TestB` first -/
def cFileBA : Text :=
  [10, 91,84,101,115,116,66,32,45,32,49,93, 10, 121, 10, 45,45,45, 10,
   10, 91,84,101,115,116,65,32,45,32,49,93, 10, 120, 10, 45,45,45, 10]
def cFileA : Text := [10, 91,84,101,115,116,65,32,45,32,49,93, 10, 120, 10, 45,45,45, 10]
def cFS : FS := [([113], [1]), (cPath, cFile)]
/-- only `TestA` called `MatchSnapshot` (once) in this run: `TestB - 1` is obsolete -/
def cRegistry : Map2 := [(cPath, [([84,101,115,116,65], 1)])]
def cCleanup : List (RegKey × Nat) := [((cPath, [84,101,115,116,65]), 1)]
/-- both tests ran -/
def cRegistry2 : Map2 := [(cPath, [([84,101,115,116,65], 1), ([84,101,115,116,66], 1)])]
def cCleanup2 : List (RegKey × Nat) := [((cPath, [84,101,115,116,66]), 1), ((cPath, [84,101,115,116,65]), 1)]
/-- no `-run` flag: the empty pattern matches everything -/
def cRe : Text → Text → Bool × Bool := fun _ _ => (true, false)

theorem cSound : OracleSound {} cRe [] := by
  intro s b h
  simp only [Oracles.reMatch, ↓reduceIte, Option.some.injEq] at h
  rw [← h]; rfl

theorem cCorr : ∀ p ∈ [cPath], RegCorr cRegistry cCleanup p := by
  intro p hp
  have : p = cPath := by simpa using hp
  subst this
  intro x
  have : map2Inner cRegistry cPath = intImage (mineOf cCleanup cPath) := by decide
  rw [this]

theorem cCorr2 : ∀ p ∈ [cPath], RegCorr cRegistry2 cCleanup2 p := by
  intro p hp
  have : p = cPath := by simpa using hp
  subst this
  intro x
  have e1 : map2Inner cRegistry2 cPath = [([84,101,115,116,65], 1), ([84,101,115,116,66], 1)] := by decide
  have e2 : intImage (mineOf cCleanup2 cPath) = [([84,101,115,116,66], 1), ([84,101,115,116,65], 1)] := by decide
  rw [e1, e2]
  simp only [List.mem_cons, List.not_mem_nil, or_false]
  exact Or.comm

/-- `UPDATE_SNAPS=clean`: the obsolete entry is reported and removed, the other file is untouched -/
example : Generated.FuncsIO.examineSnaps IOFail.never cFS cRe [] cRegistry [cPath] [] ((1 : Nat) : Int) true false =
    some ([([113], [1]), (cPath, cFileA)], [[84,101,115,116,66,32,45,32,49]], Err.nil) :=
  examineSnaps_tied {} cRe cFS [] cRegistry cCleanup [cPath] [] 1 true false (by decide) cSound cCorr _ _ [cPath] rfl
/-- the same by evaluating the transliteration -/
example : Generated.FuncsIO.examineSnaps IOFail.never cFS cRe [] cRegistry [cPath] [] 1 true false =
    some ([([113], [1]), (cPath, cFileA)], [[84,101,115,116,66,32,45,32,49]], Err.nil) := by decide
/-- without `clean` the obsolete entry is reported and the file system stays as it is -/
example : Generated.FuncsIO.examineSnaps IOFail.never cFS cRe [] cRegistry [cPath] [] ((1 : Nat) : Int) false false =
    some (cFS, [[84,101,115,116,66,32,45,32,49]], Err.nil) :=
  examineSnaps_tied {} cRe cFS [] cRegistry cCleanup [cPath] [] 1 false false (by decide) cSound cCorr _ _ [] rfl
example : Generated.FuncsIO.examineSnaps IOFail.never cFS cRe [] cRegistry [cPath] [] 1 false false =
    some (cFS, [[84,101,115,116,66,32,45,32,49]], Err.nil) := by decide
/-- `CleanOpts{Sort: true}` on a file whose entries are out of order (the Go map `registry[p]` and
    the model's list enumerate the two tests in different orders: `RegCorr` only asks for the same
    members): nothing is obsolete, the file is rewritten in natural order -/
example : Generated.FuncsIO.examineSnaps IOFail.never [(cPath, cFileBA)] cRe [] cRegistry2 [cPath] [] ((1 : Nat) : Int) false true =
    some ([(cPath, cFile)], [], Err.nil) :=
  examineSnaps_tied {} cRe [(cPath, cFileBA)] [] cRegistry2 cCleanup2 [cPath] [] 1 false true (by decide) cSound cCorr2 _ _
    [cPath] rfl
example : Generated.FuncsIO.examineSnaps IOFail.never [(cPath, cFileBA)] cRe [] cRegistry2 [cPath] [] 1 false true =
    some ([(cPath, cFile)], [], Err.nil) := by decide
/-- a file that ends inside an entry (`TestA - 1`, registered, body `x`, no terminator): the entry is
    listed in `testIDs` but never stored in `tests`, so the rewrite triggered by the removal of the
    obsolete `TestB - 1` drops it — the Go code loses a registered snapshot of a truncated file -/
example : Generated.FuncsIO.examineSnaps IOFail.never
      [(cPath, [10, 91,84,101,115,116,66,32,45,32,49,93, 10, 121, 10, 45,45,45, 10,
                10, 91,84,101,115,116,65,32,45,32,49,93, 10, 120, 10])]
      cRe [] cRegistry [cPath] [] 1 true false =
    some ([(cPath, [])], [[84,101,115,116,66,32,45,32,49]], Err.nil) := by decide
/-- B.3: the used file does not exist -/
example : ∃ err, err.notNil = true ∧
    Generated.FuncsIO.examineSnaps IOFail.never [([113], [1])] cRe [] cRegistry [cPath] [] 1 true false =
      some ([([113], [1])], [], err) :=
  examineSnaps_missing_file _ _ _ _ _ _ _ _ _ _ _ (by decide)
/-- B.3: opening fails for another reason; a second used file is not looked at -/
example : Generated.FuncsIO.examineSnaps (fun op _ => if op = .openRDWR then some [33] else none) cFS cRe [] cRegistry
      [cPath, [113]] [] 1 true false = some (cFS, [], Err.other [33]) := by
  rw [examineSnaps_open_error _ _ _ _ _ _ _ _ _ _ _ (by decide)]; decide
/-- a failing write: `overwriteFile` has already truncated the file, the error is returned and
    ALL entries of the file are lost (kept ones included) -/
example : Generated.FuncsIO.examineSnaps exIOW cFS cRe [] cRegistry [cPath] [] 1 true false =
    some ([([113], [1]), (cPath, [])], [], Err.other [33]) := by decide
example : Generated.FuncsIO.examineSnaps exIOW cFS cRe [] cRegistry [cPath] [] 1 true false =
    some ([([113], [1]), (cPath, [])], [], Err.other [33]) := by
  rw [examineSnaps_write_error exIOW cFS cRe [] cRegistry cPath [] [] 1 true false (by decide)
    [[84,101,115,116,65,32,45,32,49]] (by decide) (by decide) [33] (by decide)]
  decide
/-- `count = 0` -/
example : Generated.FuncsIO.examineSnaps IOFail.never cFS cRe [] cRegistry [cPath] [] 0 true false = none :=
  examineSnaps_count_zero _ _ _ _ _ _ _ _ _ _ (by decide) (by decide)

end GoSnaps.Tie
