/-
Tie: the hand-written loop-faithful port `GoSnaps.Difflib` (lean/GoSnaps/Difflib.lean, the subject of
Lemmas/Difflib.lean and Props/C13Difflib.lean) against the transliteration of
/repo/internal/difflib/difflib.go that tools/extract regenerates on every run
(`GoSnaps.Generated.DifflibGen`; run-time semantics GoSnaps/GoDiff.lean).

Contents
  1. conversions between the hand port's `Nat` records and the generated `Int` records
  2. FINITE TEST (not a proof for all inputs): kernel evaluation (`decide +kernel`) of
     `DifflibGen.groupedOpCodes a b n = some (hand port)` for ALL pairs of sequences over a
     two-letter alphabet up to the lengths stated there, and on one 200-line input on which the
     popularity purge of `chainB` is active (`b2j` and the grouped opcodes)
  3. proved for ALL inputs: generated `min` / `max` are `Int`'s `min` / `max`
  4. proved for ALL inputs: generated `getOpCodes` is the hand port's `opLoop` applied to whatever the
     generated `getMatchingBlocks` returns, hence `= Difflib.getOpCodes a b` GIVEN that the generated
     `getMatchingBlocks` returns `Difflib.getMatchingBlocks a b`
-/
import GoSnaps.Generated.DifflibGen
import GoSnaps.Difflib
namespace GoSnaps.Tie.DifflibGen
open GoSnaps GoSnaps.Generated GoSnaps.Generated.DifflibGen

/-! ## 1. conversions -/

/-- hand-port opcode (`Nat` fields) as the generated one (`Int` fields) -/
def opI (o : Difflib.OpCode) : GoIO.OpCodeI := ⟨o.tag, o.i1, o.i2, o.j1, o.j2⟩
/-- hand-port matching block as the generated one -/
def mI (x : Difflib.Match) : DifflibGen.Match := ⟨x.i, x.j, x.k⟩

/-! ## 2. finite test -/

/-- all sequences over the letters "x", "y" of length ≤ n -/
def seqsOf : Nat → List (List (List UInt8))
  | 0 => [[]]
  | n + 1 => (seqsOf n) ++ ((seqsOf n).filter (·.length = n)).flatMap (fun s => [[120] :: s, [121] :: s])

/-- the generated `NewMatcher(a, b).GetGroupedOpCodes(n)` returns (no panic, no bound hit) what the
    hand port computes -/
def agreeOn (a b : List (List UInt8)) (n : Nat) : Bool :=
  decide (DifflibGen.groupedOpCodes a b (n : Int) = some ((Difflib.getGroupedOpCodes a b n).map (·.map opI)))

def allAgree (L : Nat) (ns : List Nat) : Bool :=
  (seqsOf L).all fun a => (seqsOf L).all fun b => ns.all fun n => agreeOn a b n

/-- FINITE TEST: all 15 × 15 pairs of sequences of length ≤ 3 over two letters, context sizes 3, 0, 1 -/
theorem finite_agreement_len3 : allAgree 3 [3, 0, 1] = true := by decide +kernel

/-- FINITE TEST: all 31 × 31 pairs of sequences of length ≤ 4 over two letters, context size 3 -/
theorem finite_agreement_len4 : allAgree 4 [3] = true := by decide +kernel

/-- 200 lines: 100 distinct ones, each followed by the line "x", which is therefore POPULAR
    (100 occurrences > 200/100 + 1): `chainB` purges it from `b2j` -/
def bigB : List (List UInt8) := (List.range 100).flatMap (fun i => [[i.toUInt8], [120]])
def smallA : List (List UInt8) := [[120], [5], [120], [120], [7], [120], [8], [121], [120], [120]]

/-- `b2j` of the generated `NewMatcher(_, b)` against the hand port's `Difflib.b2j`, for the keys `ks` -/
def b2jAgree (b ks : List (List UInt8)) : Bool :=
  ks.all fun x => decide (GoDiff.mapGet (NewMatcher [] b).b2j x [] = (Difflib.b2j b x).map (fun (k : Nat) => (k : Int)))

/-- FINITE TEST of the popularity purge: an ordinary line, the popular line, an absent line -/
theorem finite_b2j_purge : b2jAgree bigB [[50], [120], [121]] = true := by decide +kernel
/-- FINITE TEST: the popular line on the `b` side (purged), and on the `a` side (`b` short: no purge) -/
theorem finite_agreement_purge : (agreeOn smallA bigB 3 && agreeOn bigB smallA 3) = true := by decide +kernel

/-! ## 3. min / max -/

theorem min_eq (a b : Int) : DifflibGen.min a b = Min.min a b := by
  unfold DifflibGen.min
  by_cases h : a < b <;> simp [h, Int.min_def] <;> omega

theorem max_eq (a b : Int) : DifflibGen.max a b = Max.max a b := by
  unfold DifflibGen.max
  by_cases h : a > b <;> simp [h, Int.max_def] <;> omega

/-- on natural numbers (truncated subtraction on the hand port's side) -/
theorem max_sub_cast (i1 i2 n : Nat) : DifflibGen.max (i1 : Int) ((i2 : Int) - (n : Int)) = ((Max.max i1 (i2 - n) : Nat) : Int) := by
  rw [max_eq]; omega

theorem min_add_cast (i2 i1 n : Nat) : DifflibGen.min (i2 : Int) ((i1 : Int) + (n : Int)) = ((Min.min i2 (i1 + n) : Nat) : Int) := by
  rw [min_eq]; omega

/-! ## 4. getOpCodes -/

/-- a `for … range` loop in `Option` whose body always continues is a left fold -/
theorem forIn_opt_foldl {α β : Type} (l : List α) (F : α → β → Option (ForInStep β)) (f : β → α → β)
    (hF : ∀ a b, F a b = some (ForInStep.yield (f b a))) (b : β) :
    forIn (m := Option) l b F = some (l.foldl f b) := by
  induction l generalizing b with
  | nil => rfl
  | cons x xs ih => rw [List.forIn_cons, hF]; simp only [Option.bind_eq_bind, Option.bind_some]; rw [ih]; rfl

/-- one iteration of the loop of `getOpCodes` on the state (i, j, opCodes), with Go's `int` -/
def opStep (st : Int × Int × List GoIO.OpCodeI) (x : DifflibGen.Match) : Int × Int × List GoIO.OpCodeI :=
  let tag : Int :=
    if st.1 < x.a ∧ st.2.1 < x.b then 3 else if st.1 < x.a then 2 else if st.2.1 < x.b then 1 else 0
  let out1 := if 0 < tag then st.2.2 ++ [⟨tag, st.1, x.a, st.2.1, x.b⟩] else st.2.2
  let out2 := if 0 < x.size then out1 ++ [⟨0, x.a, x.a + x.size, x.b, x.b + x.size⟩] else out1
  (x.a + x.size, x.b + x.size, out2)

/-- the fold of `opStep` over converted blocks is the hand port's `opLoop` -/
theorem foldl_opStep (ms : List Difflib.Match) (i j : Nat) (out : List Difflib.OpCode) :
    ((ms.map mI).foldl opStep ((i : Int), (j : Int), out.map opI)).2.2 = (Difflib.opLoop ms i j out).map opI := by
  induction ms generalizing i j out with
  | nil => rfl
  | cons x xs ih =>
    rw [List.map_cons, List.foldl_cons, Difflib.opLoop]
    have e : opStep ((i : Int), (j : Int), out.map opI) (mI x) =
        (((x.i + x.k : Nat) : Int), ((x.j + x.k : Nat) : Int),
          (let tag : Nat := if i < x.i ∧ j < x.j then Difflib.opReplace else if i < x.i then Difflib.opDelete
              else if j < x.j then Difflib.opInsert else 0
           let out1 := if 0 < tag then out ++ [⟨tag, i, x.i, j, x.j⟩] else out
           if 0 < x.k then out1 ++ [⟨Difflib.opEqual, x.i, x.i + x.k, x.j, x.j + x.k⟩] else out1).map opI) := by
      simp only [opStep, mI]
      by_cases h1 : i < x.i <;> by_cases h2 : j < x.j <;> by_cases h3 : 0 < x.k <;>
        simp [h1, h2, h3, opI, Difflib.opReplace, Difflib.opDelete, Difflib.opInsert, Difflib.opEqual] <;> omega
    rw [e, ih]

/-- **getOpCodes, relative to getMatchingBlocks** (every fuel, every matcher whose opcode cache is
    empty): if the generated `getMatchingBlocks` returns `(m', mbs)`, the generated `getOpCodes` returns
    the fold of `opStep` over `mbs` (and caches it in `m'`) -/
theorem getOpCodes_of_getMatchingBlocks (fuel : Nat) (m m' : Matcher) (mbs : List DifflibGen.Match)
    (hm : m.opCodes = none) (h : sequenceMatcher_getMatchingBlocks fuel m = some (m', mbs)) :
    sequenceMatcher_getOpCodes fuel m =
      some ({ m' with opCodes := some (mbs.foldl opStep (0, 0, [])).2.2 }, (mbs.foldl opStep (0, 0, [])).2.2) := by
  unfold sequenceMatcher_getOpCodes
  simp only [hm, h, Option.isSome_none, Option.bind_eq_bind, Option.bind_some, Option.pure_def,
    Bool.false_eq_true, if_false]
  rw [forIn_opt_foldl mbs _ opStep]
  · simp
  · intro x st
    obtain ⟨i, j, out⟩ := st
    simp only [opStep]
    by_cases h1 : i < x.a <;> by_cases h2 : j < x.b <;> by_cases h3 : 0 < x.size <;>
      simp [h1, h2, h3]

/-- **getOpCodes agrees with the hand port, GIVEN that getMatchingBlocks does** -/
theorem getOpCodes_agrees (fuel : Nat) (m m' : Matcher) (a b : List (List UInt8))
    (hm : m.opCodes = none)
    (h : sequenceMatcher_getMatchingBlocks fuel m = some (m', (Difflib.getMatchingBlocks a b).map mI)) :
    (sequenceMatcher_getOpCodes fuel m).map (·.2) = some ((Difflib.getOpCodes a b).map opI) := by
  rw [getOpCodes_of_getMatchingBlocks fuel m m' _ hm h]
  have := foldl_opStep (Difflib.getMatchingBlocks a b) 0 0 []
  simp only [List.map_nil, Int.natCast_zero] at this
  simp only [Option.map_some, Difflib.getOpCodes]
  rw [← this]

end GoSnaps.Tie.DifflibGen
