/-
Tie by proof, part 11a: the small functions around `Clean` (snaps/clean.go, snaps/skip.go;
`Generated/FuncsIO.lean`) against the model `GoSnaps/Clean.lean`:

1. `printEvent_tied`   : `printEvent` appends the model's counter line (the colour is irrelevant);
2. `summary_tied`      : `summary` (with its local closure `objectSummaryList`, proved to append the
                         model's `objectList`) is the model's `summary`; `EventsWF` is the invariant of
                         `testEvents.items` under which `len(testEvents.items) ≠ 0` is the model's
                         `anyEvent` (`summary_tied_wf`);
3. `isFileSkipped_eq`  : closed form; `isFileSkipped_tied` (the oracle tables cover the one path and
                         the function names of that file) and `isFileSkipped_sound` (sound tables);
5. `trackSkip_tied`    : `trackSkip` logs `skippedMsg` and appends the test name;
   `dirEntries_eq`     : GoIO's `dirEntries` is the model's `readDir`.
Each main theorem is followed by `example`s on concrete inputs.

Byte legend: 46 '.', 47 '/', 103 'g', 111 'o'.
-/
import GoSnaps.GoIO
import GoSnaps.Clean
import GoSnaps.Lemmas.Clean
import GoSnaps.Lemmas.CleanTop
import GoSnaps.Generated.FuncsIO
import GoSnaps.Props.Tie.CleanIO
import GoSnaps.Props.C20Summary
namespace GoSnaps.Tie
open GoSnaps GoSnaps.GoIO
open GoSnaps.Generated.FuncsIO
open GoSnaps.C20Summary (lit_sp lit_s lit_snapshot lit_snapshot_sp lit_two lit_removed lit_obsolete
  lit_title lit_passed lit_failed lit_added lit_updated lit_skipped lit_file lit_test lit_toRemove lit_them lit_it
  lit_rerun)

/-! ## generic loop lemmas (Id monad) -/

/-- a `for x := range l { … }` loop without `break`/`continue`/`return` that cannot panic -/
theorem forIn_id_fold {α β : Type} (l : List α) (init : β) (F : α → β → Id (ForInStep β)) (f : β → α → β)
    (h : ∀ a s, F a s = ForInStep.yield (f s a)) : forIn l init F = (l.foldl f init : Id β) := by
  induction l generalizing init with
  | nil => rfl
  | cons a l ih => rw [List.forIn_cons, h]; exact ih _

theorem foldl_append_lines (f : Text → Text) (l : List Text) (s : Text) :
    l.foldl (fun acc x => acc ++ f x) s = s ++ (l.map f).flatten := by
  induction l generalizing s with
  | nil => simp
  | cons a l ih => simp [ih]

/-- `for _, x := range l { if q x { return false } }`: the loop state is the pending return value -/
theorem forIn_find_false {α : Type} (q : α → Bool) (l : List α)
    (F : α → Option Bool × Unit → Id (ForInStep (Option Bool × Unit)))
    (hyes : ∀ a s, q a = true → F a s = ForInStep.done (some false, ()))
    (hno : ∀ a s, q a = false → F a s = ForInStep.yield (none, ())) :
    forIn l ((none, ()) : Option Bool × Unit) F = ((if l.any q then some false else none, ()) : Id _) := by
  induction l with
  | nil => rfl
  | cons a l ih =>
    rw [List.forIn_cons]
    cases hq : q a with
    | true => rw [hyes a _ hq]; simp [hq]; rfl
    | false => rw [hno a _ hq]; simp only [List.any_cons, hq, Bool.false_or]; exact ih

/-! ## Go `int` comparisons of lengths as `Nat` comparisons -/

theorem len_natCast {α : Type} (l : List α) : GoSem.len l = (l.length : Int) := rfl

theorem len_eq_zero {α : Type} (l : List α) : (GoSem.len l == 0) = decide (l.length = 0) := by
  unfold GoSem.len; by_cases h : l.length = 0 <;> simp [h]

theorem natCast_beq_zero (n : Nat) : ((n : Int) == 0) = decide (n = 0) := by
  by_cases h : n = 0 <;> simp [h]

theorem len_gt_zero {α : Type} (l : List α) : decide (GoSem.len l > 0) = decide (l.length > 0) := by
  unfold GoSem.len; by_cases h : l.length > 0 <;> simp [h]

theorem len_add_gt_zero {α β : Type} (a : List α) (b : List β) :
    decide (GoSem.len a + GoSem.len b > 0) = decide (a.length + b.length > 0) := by
  unfold GoSem.len
  by_cases h : a.length + b.length > 0
  · have : (a.length : Int) + (b.length : Int) > 0 := by omega
    simp only [h, this]
  · have : ¬ (a.length : Int) + (b.length : Int) > 0 := by omega
    simp only [h, this]

theorem len_add_gt_one {α β : Type} (a : List α) (b : List β) :
    decide (GoSem.len a + GoSem.len b > 1) = decide (a.length + b.length > 1) := by
  unfold GoSem.len
  by_cases h : a.length + b.length > 1
  · have : (a.length : Int) + (b.length : Int) > 1 := by omega
    simp only [h, this]
  · have : ¬ (a.length : Int) + (b.length : Int) > 1 := by omega
    simp only [h, this]

/-! ## 1. `printEvent` -/

/-- **1.** `printEvent(w, color, symbol, verb, n)` writes the model's counter line to `w` (nothing
    for `n = 0`); `color` is not looked at (NO_COLOR rendering) -/
theorem printEvent_tied (w color symbol verb : Text) (n : Nat) :
    Generated.FuncsIO.printEvent w color symbol verb (n : Int) = w ++ GoSnaps.printEvent symbol verb n := by
  unfold Generated.FuncsIO.printEvent GoSnaps.printEvent plural
  simp only [Id.run, pure, itoa_natCast, lit_sp, lit_s, lit_snapshot, nl]
  by_cases h0 : n = 0
  · subst h0; simp
  · have h0' : ((n : Int) == 0) = false := by simp; omega
    rw [h0', if_neg h0]
    by_cases h1 : n > 1
    · have : decide ((n : Int) > 1) = true := by simp; omega
      simp [this, h1]
    · have : decide ((n : Int) > 1) = false := by simp; omega
      simp [this, h1]

/-- a negative counter (impossible for a `len` or a map of `++` counters) prints a singular line
    with a minus sign — the transliteration covers it, the model's `Nat` does not need to -/
example : Generated.FuncsIO.printEvent [] [] Generated.go_successSymbol [112] (-2) =
    [226, 156, 147, 32, 45, 50, 32, 115, 110, 97, 112, 115, 104, 111, 116, 32, 112, 10] := by decide
example : Generated.FuncsIO.printEvent [120] [1] Generated.go_successSymbol [112] ((2 : Nat) : Int) =
    [120] ++ GoSnaps.printEvent Generated.go_successSymbol [112] 2 := printEvent_tied _ _ _ _ _
example : Generated.FuncsIO.printEvent [120] [1] Generated.go_successSymbol [112] 2 =
    [120, 226, 156, 147, 32, 50, 32, 115, 110, 97, 112, 115, 104, 111, 116, 115, 32, 112, 10] := by decide
example : Generated.FuncsIO.printEvent [120] [] Generated.go_successSymbol [112] 0 = [120] := by decide

/-! ## 2. `summary` -/

/-- the keys of `testEvents.items` in the transliteration: the identifiers of the Go constants -/
def evPassed : Text := [112, 97, 115, 115, 101, 100]
def evErred : Text := [101, 114, 114, 101, 100]
def evAdded : Text := [97, 100, 100, 101, 100]
def evUpdated : Text := [117, 112, 100, 97, 116, 101, 100]

theorem evPassed_eq : evPassed = ofString "passed" := lit_passed.symm
theorem evAdded_eq : evAdded = ofString "added" := lit_added.symm
theorem evUpdated_eq : evUpdated = ofString "updated" := lit_updated.symm
theorem evErred_eq : evErred = ofString "erred" := by rw [ofString_eq]; decide

/-- **2.** `summary`: the events map `testEvents.items` read at the four kinds gives the model's
    `Events`, and `anyEvent` is `len(testEvents.items) ≠ 0`.  Inside, the closure
    `objectSummaryList(objects, name)` is proved to append `objectList objects name update`. -/
theorem summary_tied (obsFiles obsTests : List Text) (k : Nat) (events : Map1) (ev : Events) (anyEvent update : Bool)
    (hp : map1Get events evPassed = (ev.passed : Int)) (he : map1Get events evErred = (ev.erred : Int))
    (ha : map1Get events evAdded = (ev.added : Int)) (hu : map1Get events evUpdated = (ev.updated : Int))
    (hany : anyEvent = !events.isEmpty) :
    Generated.FuncsIO.summary obsFiles obsTests (k : Int) events update =
      GoSnaps.summary obsFiles obsTests k ev anyEvent update := by
  unfold evPassed at hp; unfold evErred at he; unfold evAdded at ha; unfold evUpdated at hu
  unfold Generated.FuncsIO.summary
  extract_lets _ aObs aRem osl
  -- the closure `objectSummaryList`
  have hosl : ∀ s objects name, osl s objects name = s ++ objectList objects name update := by
    intro s objects name
    simp only [osl, aObs, aRem, Id.run, pure, bind]
    simp only [forIn_id_fold _ _ _ (fun acc ob => acc ++ (([32, 32] : Text) ++ Generated.go_enterSymbol ++ [32] ++
        Generated.go_bulletSymbol ++ ob ++ [10])) (fun _ _ => rfl),
      foldl_append_lines (fun ob => ([32, 32] : Text) ++ Generated.go_enterSymbol ++ [32] ++ Generated.go_bulletSymbol ++ ob ++ [10])]
    unfold objectList plural
    simp only [len_natCast, itoa_natCast, lit_sp, lit_s, lit_snapshot_sp, lit_two, lit_removed, lit_obsolete, nl]
    by_cases h : objects.length > 1
    · have hI : ((objects.length : Nat) : Int) > 1 := by omega
      cases update <;> simp [h, hI]
    · have hI : ¬ ((objects.length : Nat) : Int) > 1 := by omega
      cases update <;> simp [h, hI]
  clear_value osl
  simp +zetaDelta only [Id.run, pure, hosl, hp, he, ha, hu, printEvent_tied]
  unfold GoSnaps.summary
  subst hany
  simp only [len_eq_zero, len_gt_zero, len_add_gt_zero, len_add_gt_one, natCast_beq_zero]
  rcases obsFiles with _ | ⟨f, fs⟩ <;> rcases obsTests with _ | ⟨t, ts⟩ <;> cases update <;>
    simp [lit_title, lit_passed, lit_failed, lit_added, lit_updated, lit_skipped, lit_file, lit_test, lit_toRemove,
      lit_them, lit_it, lit_rerun, nl]
  all_goals (split <;> (try simp_all))
  split <;> first | rfl | omega

/-- the invariant of `testEvents.items`: its keys are among the four kinds and every stored count is
    positive (a key appears when `register` is first called for it, with count 1) -/
def EventsWF (events : Map1) : Prop :=
  ∀ p ∈ events, (p.1 = evPassed ∨ p.1 = evErred ∨ p.1 = evAdded ∨ p.1 = evUpdated) ∧ 0 < p.2

theorem EventsWF_nil : EventsWF [] := fun _ h => by cases h

theorem map1Set_mem (m : Map1) (k : Text) (v : Int) (p : Text × Int) (h : p ∈ map1Set m k v) :
    p = (k, v) ∨ p ∈ m := by
  induction m with
  | nil => simp only [map1Set, List.mem_singleton] at h; exact Or.inl h
  | cons x m ih =>
    obtain ⟨a, b⟩ := x
    by_cases hk : a = k
    · simp only [map1Set, hk, ↓reduceIte, List.mem_cons] at h
      rcases h with h | h
      · exact Or.inl h
      · exact Or.inr (by simp [h])
    · simp only [map1Set, hk, ↓reduceIte, List.mem_cons] at h
      rcases h with h | h
      · exact Or.inr (by simp [h])
      · rcases ih h with h' | h'
        · exact Or.inl h'
        · exact Or.inr (by simp [h'])

/-- a read of the map is 0 (no such key) or one of the stored counts -/
theorem map1Get_zero_or_mem (m : Map1) (k : Text) : map1Get m k = 0 ∨ (k, map1Get m k) ∈ m := by
  induction m with
  | nil => exact Or.inl rfl
  | cons x m ih =>
    obtain ⟨a, b⟩ := x
    by_cases hk : a = k
    · subst hk; simp [map1Get]
    · simp only [map1Get, hk, ↓reduceIte, List.mem_cons]
      rcases ih with h | h
      · exact Or.inl h
      · exact Or.inr (Or.inr h)

theorem EventsWF.get_nonneg {events : Map1} (h : EventsWF events) (k : Text) : 0 ≤ map1Get events k := by
  rcases map1Get_zero_or_mem events k with h0 | hm
  · omega
  · have := (h _ hm).2
    simp only at this
    omega

/-- `testEvents.register(kind)` preserves the invariant -/
theorem EventsWF.register {st : St} (h : EventsWF st.events) (kind : Text)
    (hk : kind = evPassed ∨ kind = evErred ∨ kind = evAdded ∨ kind = evUpdated) :
    EventsWF (st.register kind).events := by
  intro p hp
  rcases map1Set_mem _ _ _ _ hp with rfl | hm
  · exact ⟨hk, by have := h.get_nonneg kind; simp only; omega⟩
  · exact h p hm

/-- under the invariant, `len(testEvents.items) ≠ 0` is what the model computes from its counters -/
theorem EventsWF.anyEvent {events : Map1} (h : EventsWF events) (ev : Events)
    (hp : map1Get events evPassed = (ev.passed : Int)) (he : map1Get events evErred = (ev.erred : Int))
    (ha : map1Get events evAdded = (ev.added : Int)) (hu : map1Get events evUpdated = (ev.updated : Int)) :
    decide (ev.erred + ev.added + ev.updated + ev.passed > 0) = !events.isEmpty := by
  cases events with
  | nil =>
    simp only [map1Get] at hp he ha hu
    have : ¬ (ev.erred + ev.added + ev.updated + ev.passed > 0) := by omega
    simp [this]
  | cons x m =>
    obtain ⟨a, b⟩ := x
    have hx := h (a, b) (by simp)
    simp only at hx
    have hb : map1Get ((a, b) :: m) a = b := by simp [map1Get]
    have : ev.erred + ev.added + ev.updated + ev.passed > 0 := by
      rcases hx.1 with e | e | e | e <;> subst e <;> omega
    simp [this]

/-- **2, as `Clean` uses it**: with the invariant of the events map, the model's own `anyEvent` -/
theorem summary_tied_wf (obsFiles obsTests : List Text) (k : Nat) (events : Map1) (ev : Events) (update : Bool)
    (hwf : EventsWF events)
    (hp : map1Get events evPassed = (ev.passed : Int)) (he : map1Get events evErred = (ev.erred : Int))
    (ha : map1Get events evAdded = (ev.added : Int)) (hu : map1Get events evUpdated = (ev.updated : Int)) :
    Generated.FuncsIO.summary obsFiles obsTests (k : Int) events update =
      GoSnaps.summary obsFiles obsTests k ev (decide (ev.erred + ev.added + ev.updated + ev.passed > 0)) update :=
  summary_tied obsFiles obsTests k events ev _ update hp he ha hu (hwf.anyEvent ev hp he ha hu)

/-- nothing to report: the empty string (and `Clean` prints nothing) -/
example : Generated.FuncsIO.summary [] [] 0 [] false = [] := by decide
/-- one passed snapshot, one obsolete file, report mode -/
example : Generated.FuncsIO.summary [[47, 97]] [] 0 [(evPassed, 1)] false =
    GoSnaps.summary [[47, 97]] [] 0 { passed := 1 } true false :=
  summary_tied_wf [[47, 97]] [] 0 [(evPassed, 1)] { passed := 1 } false
    (fun p hp => by simp only [List.mem_singleton] at hp; subst hp; exact ⟨Or.inl rfl, by decide⟩)
    (by decide) (by decide) (by decide) (by decide)
/-- a key with count 0 (never produced by `register`) makes Go print the header although the model's
    `anyEvent` is false: the invariant `EventsWF` is needed -/
example : Generated.FuncsIO.summary [] [] 0 [(evPassed, 0)] false ≠ [] ∧
    GoSnaps.summary [] [] 0 {} false false = [] := by
  constructor <;> decide

/-! ## 3. `isFileSkipped` -/

/-- the test file `isFileSkipped` parses for the snapshot file `dir/filename` -/
def skipPath (dir filename : Text) : Text :=
  fpJoin [dir, [46, 46], trimSuffix filename Generated.go_snapsExt ++ [46, 103, 111]]

/-- `funcDecl.Name.String()` of the `*ast.FuncDecl`s among `file.Decls`, in order -/
def funcNames (decls : List GoDecl) : List Text := (decls.filter (·.isFunc)).map (·.name)

theorem funcNames_any (decls : List GoDecl) (q : Text → Bool) :
    (funcNames decls).any q = decls.any (fun d => d.isFunc && q d.name) := by
  induction decls with
  | nil => rfl
  | cons d ds ih =>
    unfold funcNames at ih ⊢
    cases hd : d.isFunc <;> simp [hd, ih]

/-- **3, closed form**: `isFileSkipped` answers "skipped" exactly when a `-run` pattern is given, the
    test file parses, and no function declared in it matches the pattern -/
theorem isFileSkipped_eq (parseFile : Text → List GoDecl × Err) (re : Text → Text → Bool × Bool)
    (dir filename runOnly : Text) :
    Generated.FuncsIO.isFileSkipped parseFile re dir filename runOnly =
      if runOnly = [] then false
      else if (parseFile (skipPath dir filename)).2.notNil then false
      else !((funcNames (parseFile (skipPath dir filename)).1).any (fun n => (re runOnly n).1)) := by
  unfold Generated.FuncsIO.isFileSkipped skipPath
  simp only [Id.run, pure, bind]
  by_cases h0 : runOnly = []
  · simp [h0]
  · have h0' : (runOnly == []) = false := by simpa using h0
    rw [h0', if_neg h0]
    simp only [Bool.false_eq_true, ↓reduceIte]
    split
    · rfl
    · rw [forIn_find_false (fun d => d.isFunc && (re runOnly d.name).1) _ _ ?hyes ?hno, funcNames_any]
      · cases List.any _ _ <;> rfl
      case hyes =>
        intro a s hq
        simp only [Bool.and_eq_true] at hq
        simp [hq.1, hq.2]
      case hno =>
        intro a s hq
        cases hf : a.isFunc with
        | false => simp
        | true =>
          have : (re runOnly a.name).1 = false := by simpa [hf] using hq
          simp [this]

/-- what the oracle tables must say about the one test file `p` that `isFileSkipped` parses: its
    `gofuncs` entry is the parse result (error, or the declared function names in order), and the
    regexp table answers for each of those names like the function standing for
    `regexp.MatchString` (the model queries all of them, Go stops at the first match) -/
structure SkipConsistent (o : Oracles) (parseFile : Text → List GoDecl × Err) (re : Text → Text → Bool × Bool)
    (runOnly p : Text) : Prop where
  table : ∃ key, o.gofuncs.find? (·.1 = p) =
    some (key, if (parseFile p).2.notNil then none else some (funcNames (parseFile p).1))
  names : (parseFile p).2.notNil = false → ∀ n ∈ funcNames (parseFile p).1, o.reMatch runOnly n = some (re runOnly n).1

theorem skipPath_model (dir filename : Text) :
    fpJoin [dir, [dot, dot], trimSuffix filename Generated.snapsExt ++ ofString ".go"] = skipPath dir filename := by
  have e1 : Generated.snapsExt = Generated.go_snapsExt := by decide
  have e2 : ofString ".go" = [46, 103, 111] := by rw [ofString_eq]; decide
  rw [e1, e2]; rfl

theorem map_reMatch_some (o : Oracles) (re : Text → Text → Bool × Bool) (runOnly : Text) (names : List Text)
    (h : ∀ n ∈ names, o.reMatch runOnly n = some (re runOnly n).1) :
    names.map (o.reMatch runOnly) = names.map (fun n => some (re runOnly n).1) :=
  List.map_congr_left h

/-- **3.** with consistent tables for the path the function computes, the model answers like Go
    (never `none`); without a `-run` pattern no table is consulted -/
theorem isFileSkipped_tied (o : Oracles) (parseFile : Text → List GoDecl × Err) (re : Text → Text → Bool × Bool)
    (dir filename runOnly : Text)
    (h : runOnly ≠ [] → SkipConsistent o parseFile re runOnly (skipPath dir filename)) :
    GoSnaps.isFileSkipped o dir filename runOnly =
      some (Generated.FuncsIO.isFileSkipped parseFile re dir filename runOnly) := by
  rw [isFileSkipped_eq]
  unfold GoSnaps.isFileSkipped
  by_cases h0 : runOnly = []
  · simp [h0]
  · obtain ⟨⟨key, htab⟩, hnames⟩ := h h0
    simp only [h0, ↓reduceIte, skipPath_model, htab]
    cases herr : (parseFile (skipPath dir filename)).2.notNil with
    | true => simp
    | false =>
      simp only [Bool.false_eq_true, ↓reduceIte]
      rw [map_reMatch_some o re runOnly _ (hnames herr)]
      simp [List.any_map, Function.comp_def]

/-- sound `gofuncs` table: every entry is what the parser returns for that path -/
def ParseSound (o : Oracles) (parseFile : Text → List GoDecl × Err) : Prop :=
  ∀ p key entry, o.gofuncs.find? (·.1 = p) = some (key, entry) →
    entry = if (parseFile p).2.notNil then none else some (funcNames (parseFile p).1)

/-- **3, soundness form** (the form `examineFiles` needs): with sound tables, whenever the model has
    an answer it is Go's -/
theorem isFileSkipped_sound (o : Oracles) (parseFile : Text → List GoDecl × Err) (re : Text → Text → Bool × Bool)
    (dir filename runOnly : Text) (hp : ParseSound o parseFile) (hs : OracleSound o re runOnly) (b : Bool)
    (h : GoSnaps.isFileSkipped o dir filename runOnly = some b) :
    Generated.FuncsIO.isFileSkipped parseFile re dir filename runOnly = b := by
  by_cases h0 : runOnly = []
  · rw [isFileSkipped_eq]
    unfold GoSnaps.isFileSkipped at h
    simp only [h0, ↓reduceIte, Option.some.injEq] at h ⊢
    exact h
  · have hcons : SkipConsistent o parseFile re runOnly (skipPath dir filename) := by
      unfold GoSnaps.isFileSkipped at h
      simp only [h0, ↓reduceIte, skipPath_model] at h
      cases hf : o.gofuncs.find? (·.1 = skipPath dir filename) with
      | none => rw [hf] at h; cases h
      | some kv =>
        obtain ⟨key, entry⟩ := kv
        have he := hp _ _ _ hf
        refine ⟨⟨key, by rw [← he]; exact hf⟩, ?_⟩
        intro herr n hn
        rw [hf] at h
        rw [he, herr] at h
        simp only [Bool.false_eq_true, ↓reduceIte] at h
        split at h
        · cases h
        · rename_i hany
          cases hm : o.reMatch runOnly n with
          | none =>
            exfalso; apply hany
            rw [List.any_eq_true]
            exact ⟨none, List.mem_map.mpr ⟨n, hn, hm⟩, rfl⟩
          | some m => rw [hs n m hm]
    have := isFileSkipped_tied o parseFile re dir filename runOnly (fun _ => hcons)
    rw [h] at this
    exact (Option.some.inj this).symm

/-- `a.snap` in `/p/__snapshots__`: the test file is `/p/a.go` -/
example : skipPath [47, 112, 47, 115] [97, 46, 115, 110, 97, 112] = [47, 112, 47, 97, 46, 103, 111] := by decide
/-- the test file declares `TestA` (a function) and a `var` declaration; `-run TestB` does not match
    `TestA`: the snapshot file is skipped (not obsolete); with `-run TestA` it is not skipped -/
def exParse : Text → List GoDecl × Err := fun p =>
  if p = [47, 112, 47, 97, 46, 103, 111] then ([⟨false, []⟩, ⟨true, [84, 101, 115, 116, 65]⟩], Err.nil)
  else ([], Err.other [33])
def exRe : Text → Text → Bool × Bool := fun pat s => (pat == s, false)
def exOr : Oracles :=
  { re := [(([84, 101, 115, 116, 66], [84, 101, 115, 116, 65]), false)],
    gofuncs := [([47, 112, 47, 97, 46, 103, 111], some [[84, 101, 115, 116, 65]])] }
example : Generated.FuncsIO.isFileSkipped exParse exRe [47, 112, 47, 115] [97, 46, 115, 110, 97, 112] [84, 101, 115, 116, 66] = true ∧
    Generated.FuncsIO.isFileSkipped exParse exRe [47, 112, 47, 115] [97, 46, 115, 110, 97, 112] [84, 101, 115, 116, 65] = false ∧
    Generated.FuncsIO.isFileSkipped exParse exRe [47, 112, 47, 115] [98, 46, 115, 110, 97, 112] [84, 101, 115, 116, 65] = false := by
  decide
example : GoSnaps.isFileSkipped exOr [47, 112, 47, 115] [97, 46, 115, 110, 97, 112] [84, 101, 115, 116, 66] =
    some (Generated.FuncsIO.isFileSkipped exParse exRe [47, 112, 47, 115] [97, 46, 115, 110, 97, 112] [84, 101, 115, 116, 66]) :=
  isFileSkipped_tied exOr exParse exRe _ _ _ (fun _ => ⟨⟨[47, 112, 47, 97, 46, 103, 111], by decide⟩, fun _ n hn => by
    have : n = [84, 101, 115, 116, 65] := by
      have : funcNames (exParse (skipPath [47, 112, 47, 115] [97, 46, 115, 110, 97, 112])).1 = [[84, 101, 115, 116, 65]] := by decide
      rw [this] at hn; simpa using hn
    subst this; decide⟩)

/-! ## 5. `trackSkip` -/

/-- **5.** `trackSkip(t)` logs `skippedMsg` to `t` and appends `t.Name()` to `skippedTests.values`;
    nothing else changes (the model's `trackSkip` appends the name; the log line is the `.log` event
    `skipCall` emits) -/
theorem trackSkip_tied (io : IOFail) (st : St) (t : T) :
    Generated.FuncsIO.trackSkip io st t =
      { st with skipped := st.skipped ++ [t.name], tev := st.tev ++ [TEvent.log Generated.go_skippedMsg] } := rfl

theorem trackSkip_fields (io : IOFail) (st : St) (t : T) :
    (Generated.FuncsIO.trackSkip io st t).skipped = st.skipped ++ [t.name] ∧
    (Generated.FuncsIO.trackSkip io st t).tev = st.tev ++ [TEvent.log Generated.go_skippedMsg] ∧
    (Generated.FuncsIO.trackSkip io st t).env = st.env ∧ (Generated.FuncsIO.trackSkip io st t).fs = st.fs ∧
    (Generated.FuncsIO.trackSkip io st t).reg = st.reg ∧ (Generated.FuncsIO.trackSkip io st t).sreg = st.sreg ∧
    (Generated.FuncsIO.trackSkip io st t).events = st.events ∧
    (Generated.FuncsIO.trackSkip io st t).cleanups = st.cleanups ∧
    (Generated.FuncsIO.trackSkip io st t).stdout = st.stdout :=
  ⟨rfl, rfl, rfl, rfl, rfl, rfl, rfl, rfl, rfl⟩

/-- against the model: the skip list of the state follows the model's `trackSkip` -/
theorem trackSkip_model (io : IOFail) (st : St) (w : World) (t : T) (h : st.skipped = w.skipped) :
    (Generated.FuncsIO.trackSkip io st t).skipped = (GoSnaps.trackSkip w t.name).skipped := by
  rw [trackSkip_tied]; simp [GoSnaps.trackSkip, h]

example : (Generated.FuncsIO.trackSkip IOFail.never { env := ⟨false, ""⟩, skipped := [[65]] } ⟨[66], 0⟩).skipped = [[65], [66]] ∧
    (Generated.FuncsIO.trackSkip IOFail.never { env := ⟨false, ""⟩, skipped := [[65]] } ⟨[66], 0⟩).tev =
      [TEvent.log Generated.go_skippedMsg] := ⟨rfl, rfl⟩

/-! ## 5b. the exported wrappers `Skip`, `Skipf`, `SkipNow`

Each records the test first (`trackSkip`) and only then hands over to `testing`'s own method — the
order matters, because `t.Skip*` ends the goroutine (`runtime.Goexit`): a wrapper that skipped first
would never record the name and `Clean` would report the test's snapshots obsolete. The events are
exactly what the driver answers for the `skip` op of the correspondence protocol. -/

theorem Skip_tied (io : IOFail) (st : St) (t : T) (args : List Text) :
    Generated.FuncsIO.Skip io st t args =
      { st with skipped := st.skipped ++ [t.name],
                tev := st.tev ++ [TEvent.log Generated.go_skippedMsg, TEvent.skip []] } := by
  simp [Generated.FuncsIO.Skip, trackSkip_tied, St.tSkip, Id.run]; rfl

theorem Skipf_tied (io : IOFail) (st : St) (t : T) (format : Text) (args : List Text) :
    Generated.FuncsIO.Skipf io st t format args =
      { st with skipped := st.skipped ++ [t.name],
                tev := st.tev ++ [TEvent.log Generated.go_skippedMsg, TEvent.skipf []] } := by
  simp [Generated.FuncsIO.Skipf, trackSkip_tied, St.tSkipf, Id.run]; rfl

theorem SkipNow_tied (io : IOFail) (st : St) (t : T) :
    Generated.FuncsIO.SkipNow io st t =
      { st with skipped := st.skipped ++ [t.name],
                tev := st.tev ++ [TEvent.log Generated.go_skippedMsg, TEvent.skipNow] } := by
  simp [Generated.FuncsIO.SkipNow, trackSkip_tied, St.tSkipNow, Id.run]; rfl

/-- whichever wrapper is used, the name is on the skip list when `testing` takes over, and the skip
    list of the state follows the model's `trackSkip` -/
theorem skip_wrappers_model (io : IOFail) (st : St) (w : World) (t : T) (format : Text) (args : List Text)
    (h : st.skipped = w.skipped) :
    (Generated.FuncsIO.Skip io st t args).skipped = (GoSnaps.trackSkip w t.name).skipped ∧
    (Generated.FuncsIO.Skipf io st t format args).skipped = (GoSnaps.trackSkip w t.name).skipped ∧
    (Generated.FuncsIO.SkipNow io st t).skipped = (GoSnaps.trackSkip w t.name).skipped := by
  rw [Skip_tied, Skipf_tied, SkipNow_tied]; simp [GoSnaps.trackSkip, h]

/-- the wrappers touch nothing but the skip list and the test's own event log -/
theorem skip_wrappers_frame (io : IOFail) (st : St) (t : T) (format : Text) (args : List Text) :
    (Generated.FuncsIO.Skip io st t args).fs = st.fs ∧ (Generated.FuncsIO.Skipf io st t format args).fs = st.fs ∧
    (Generated.FuncsIO.SkipNow io st t).fs = st.fs ∧
    (Generated.FuncsIO.Skip io st t args).reg = st.reg ∧ (Generated.FuncsIO.Skipf io st t format args).reg = st.reg ∧
    (Generated.FuncsIO.SkipNow io st t).reg = st.reg ∧
    (Generated.FuncsIO.Skip io st t args).events = st.events ∧
    (Generated.FuncsIO.Skipf io st t format args).events = st.events ∧
    (Generated.FuncsIO.SkipNow io st t).events = st.events := by
  rw [Skip_tied, Skipf_tied, SkipNow_tied]; simp

example : (Generated.FuncsIO.Skip IOFail.never { env := ⟨false, ""⟩, skipped := [[65]] } ⟨[66], 0⟩ []).skipped = [[65], [66]] ∧
    (Generated.FuncsIO.SkipNow IOFail.never { env := ⟨false, ""⟩ } ⟨[66], 0⟩).tev =
      [TEvent.log Generated.go_skippedMsg, TEvent.skipNow] := ⟨rfl, rfl⟩

/-! ## `os.ReadDir`: GoIO's `dirEntries` is the model's `readDir` -/

def entPair (e : DirEntry) : Text × Bool := (e.name, e.isDir)

theorem dirEntries_ins_map (x : DirEntry) (l : List DirEntry) :
    (dirEntries.ins x l).map entPair = readDir.ins (entPair x) (l.map entPair) := by
  induction l with
  | nil => rfl
  | cons y ys ih =>
    simp only [dirEntries.ins, readDir.ins, List.map_cons, entPair]
    split
    · simp only [List.map_cons, entPair]; rw [ih]; rfl
    · rfl

theorem dirEntries_uniq_map (ents acc : List DirEntry) :
    (ents.foldl (fun acc e => if acc.any (·.name = e.name) then acc else acc ++ [e]) acc).map entPair =
      (ents.map entPair).foldl (fun acc e => if acc.any (·.1 = e.1) then acc else acc ++ [e]) (acc.map entPair) := by
  induction ents generalizing acc with
  | nil => rfl
  | cons e es ih =>
    rw [List.foldl_cons, List.map_cons, List.foldl_cons, ih]
    congr 1
    have : (acc.map entPair).any (fun x => decide (x.1 = (entPair e).1)) = acc.any (fun x => decide (x.name = e.name)) := by
      rw [List.any_map]; rfl
    rw [this]
    split <;> simp

theorem dirEntries_sort_map (l : List DirEntry) :
    (l.foldr (fun x acc => dirEntries.ins x acc) []).map entPair =
      (l.map entPair).foldr (fun x acc => readDir.ins x acc) [] := by
  induction l with
  | nil => rfl
  | cons x xs ih => rw [List.foldr_cons, List.map_cons, List.foldr_cons, dirEntries_ins_map, ih]

/-- the directory listing of the run-time semantics and the model's are the same computation -/
theorem dirEntries_eq (fs : FS) (dir : Text) :
    (dirEntries fs dir).map (fun e => (e.name, e.isDir)) = GoSnaps.readDir fs dir := by
  show (dirEntries fs dir).map entPair = GoSnaps.readDir fs dir
  unfold dirEntries GoSnaps.readDir
  simp only
  rw [dirEntries_sort_map, dirEntries_uniq_map, List.map_filterMap]
  have hs : slash = 47 := rfl
  simp only [List.map_nil, hs]
  generalize (if dir = [47] then dir else dir ++ [47]) = pre
  congr 2
  apply filterMap_congr_mem
  intro x _
  cases hpx : hasPrefix x.1 pre with
  | false => simp
  | true =>
    simp only [if_true]
    split <;> simp [entPair]

/-- `os.ReadDir` under any failure oracle returns the model's listing or nothing (an error: the
    loop over `dirContents` then has nothing to iterate, like the model on an empty listing) -/
theorem readDir_entries (io : IOFail) (fs : FS) (dir : Text) :
    ((GoIO.readDir io fs dir).1).map entPair = GoSnaps.readDir fs dir ∨ (GoIO.readDir io fs dir).1 = [] := by
  unfold GoIO.readDir
  cases io .readDir dir with
  | some m => exact Or.inr rfl
  | none =>
    simp only
    split
    · exact Or.inr rfl
    · exact Or.inl (dirEntries_eq fs dir)

theorem readDir_never (fs : FS) (dir : Text) :
    ((GoIO.readDir IOFail.never fs dir).1).map entPair = GoSnaps.readDir fs dir := by
  unfold GoIO.readDir
  simp only [IOFail.never]
  split
  · rename_i h
    rw [← dirEntries_eq, show (fun e : DirEntry => (e.name, e.isDir)) = entPair from rfl, h]
  · exact dirEntries_eq fs dir

example : GoIO.dirEntries [([47, 100, 47, 98], [1]), ([47, 100, 47, 97, 47, 120], [2]), ([47, 101], [])] [47, 100] =
    [⟨[97], true⟩, ⟨[98], false⟩] := by decide
example : GoSnaps.readDir [([47, 100, 47, 98], [1]), ([47, 100, 47, 97, 47, 120], [2]), ([47, 101], [])] [47, 100] =
    [([97], true), ([98], false)] := by decide

end GoSnaps.Tie
