/-
  Tie by proof: the document pipelines in front of the Match* flows

    validateJSON              (snaps/matchJSON.go)  the dynamic type switch: string / []byte / any other value
    validateYAML              (snaps/matchYAML.go)
    (*JSONConfig).getPrettyJSONOptions (snaps/snapshot.go)
    takeJSONSnapshot          (snaps/matchJSON.go)

  are transliterated from the source on every run (`Generated.FuncsIO`).  The flows (Tie/Flows.lean) take
  `validate` and `takeJSON` as parameters; here the functions the source passes for them are proved equal
  to the hand-written model the C14 / C18 theorems are about (`C14.validateJSON`, `C14.takeJSONSnapshot`), and
  `takeJSONSnapshot` instantiated with the Lean model of tidwall/pretty (`Json.pretty`, tied to the library
  by the suite json.model) inherits the theorems of Props/C14Json.

  What stays a parameter: `gjson.Valid` (model: `Json.jsonValid`), `json.Marshal`, `yaml.Unmarshal`,
  `yaml.MarshalWithOptions`, `pretty.PrettyOptions` (model: `Json.pretty`), and the `json` field of a Config
  (`jsonConfigOf`: the model's `Cfg` does not carry it).
-/
import GoSnaps.Generated.FuncsIO
import GoSnaps.Props.C14
import GoSnaps.Props.C14Json
import GoSnaps.Props.Tie.Flows

namespace GoSnaps.Tie.Pipeline
open GoSnaps GoSnaps.GoIO

/-- a Go `([]byte, error)` result read as the model's `Except` -/
def toExcept (r : Text × Err) : Except Text Text :=
  if r.2.isNil then .ok r.1 else .error r.2.text

/-- the dynamic input as the hand-written model sees it -/
def toJInput : Dyn → C14.JInput Nat
  | .str s => .str s
  | .bytes b => .bytes b
  | .other id => .val id

/-! ## 1. `validateJSON` -/

/-- closed form, clause by clause -/
theorem validateJSON_str (gv : Text → Bool) (jm : Dyn → Text × Err) (s : Text) :
    Generated.FuncsIO.validateJSON gv jm (.str s) =
      if gv s then (s, Err.nil) else ([], Err.other Generated.go_errInvalidJSON) := by
  unfold Generated.FuncsIO.validateJSON
  cases h : gv s <;> simp [h, Id.run] <;> rfl

theorem validateJSON_bytes (gv : Text → Bool) (jm : Dyn → Text × Err) (b : Text) :
    Generated.FuncsIO.validateJSON gv jm (.bytes b) =
      if gv b then (b, Err.nil) else ([], Err.other Generated.go_errInvalidJSON) := by
  unfold Generated.FuncsIO.validateJSON
  cases h : gv b <;> simp [h, Id.run] <;> rfl

theorem validateJSON_other (gv : Text → Bool) (jm : Dyn → Text × Err) (id : Nat) :
    Generated.FuncsIO.validateJSON gv jm (.other id) = jm (.other id) := rfl

/-- **the transliterated `validateJSON` is the model's**: for every validity predicate, every marshaller
and every input (`json.Marshal` never returns the sentinel `errSnapNotFound`; a marshalling error is carried
with its text) -/
theorem validateJSON_tied (gv : Text → Bool) (jm : Dyn → Text × Err) (d : Dyn) :
    toExcept (Generated.FuncsIO.validateJSON gv jm d) =
      C14.validateJSON gv (fun id => toExcept (jm (.other id))) (toJInput d) := by
  cases d with
  | str s =>
    rw [validateJSON_str]
    cases h : gv s <;> simp [h, toExcept, toJInput, C14.validateJSON, Err.isNil, Err.notNil, Err.text]
  | bytes b =>
    rw [validateJSON_bytes]
    cases h : gv b <;> simp [h, toExcept, toJInput, C14.validateJSON, Err.isNil, Err.notNil, Err.text]
  | other id => rfl

/-- the three input forms (C14): a string and the same bytes as `[]byte` are validated alike, and nothing
but validity is asked of them — the bytes are handed on as they are -/
theorem validateJSON_forms (gv : Text → Bool) (jm : Dyn → Text × Err) (s : Text) :
    Generated.FuncsIO.validateJSON gv jm (.str s) = Generated.FuncsIO.validateJSON gv jm (.bytes s) ∧
    (gv s = true → Generated.FuncsIO.validateJSON gv jm (.str s) = (s, Err.nil)) ∧
    (gv s = false → (Generated.FuncsIO.validateJSON gv jm (.str s)).2 = Err.other Generated.go_errInvalidJSON) := by
  rw [validateJSON_str, validateJSON_bytes]
  refine ⟨rfl, fun h => by simp [h], fun h => by simp [h]⟩

/-- a value of any other dynamic type is never taken for JSON text: it goes through `json.Marshal`,
whatever it looks like (a named string type, a `json.RawMessage`, …) -/
theorem validateJSON_value_marshalled (gv : Text → Bool) (jm jm' : Dyn → Text × Err) (id : Nat)
    (h : jm (.other id) = jm' (.other id)) (gv' : Text → Bool) :
    Generated.FuncsIO.validateJSON gv jm (.other id) = Generated.FuncsIO.validateJSON gv' jm' (.other id) := by
  rw [validateJSON_other, validateJSON_other, h]

example : Generated.FuncsIO.validateJSON (fun s => s == [49]) (fun _ => ([110], Err.nil)) (.str [49]) = ([49], Err.nil) ∧
    (Generated.FuncsIO.validateJSON (fun s => s == [49]) (fun _ => ([110], Err.nil)) (.bytes [50])).2 =
      Err.other Generated.go_errInvalidJSON ∧
    Generated.FuncsIO.validateJSON (fun s => s == [49]) (fun _ => ([110], Err.nil)) (.other 7) = ([110], Err.nil) := by
  decide

/-! ## 2. `validateYAML` -/

/-- "invalid yaml: " -/
def yamlPrefix : Text := [105, 110, 118, 97, 108, 105, 100, 32, 121, 97, 109, 108, 58, 32]

/-- `fmt.Errorf("invalid yaml: %w", e)` -/
def yamlErr (e : Err) : Err := Err.other (yamlPrefix ++ e.text)

theorem validateYAML_str (yu : Text → Err) (ym : Dyn → Text × Err) (s : Text) :
    Generated.FuncsIO.validateYAML yu ym (.str s) =
      if (yu s).notNil then ([], yamlErr (yu s)) else (s, Err.nil) := by
  unfold Generated.FuncsIO.validateYAML yamlErr yamlPrefix
  cases h : (yu s).notNil <;> simp [h, Id.run] <;> rfl

theorem validateYAML_bytes (yu : Text → Err) (ym : Dyn → Text × Err) (b : Text) :
    Generated.FuncsIO.validateYAML yu ym (.bytes b) =
      if (yu b).notNil then ([], yamlErr (yu b)) else (b, Err.nil) := by
  unfold Generated.FuncsIO.validateYAML yamlErr yamlPrefix
  cases h : (yu b).notNil <;> simp [h, Id.run] <;> rfl

theorem validateYAML_other (yu : Text → Err) (ym : Dyn → Text × Err) (id : Nat) :
    Generated.FuncsIO.validateYAML yu ym (.other id) =
      if (ym (.other id)).2.notNil then ([], yamlErr (ym (.other id)).2) else ((ym (.other id)).1, Err.nil) := by
  unfold Generated.FuncsIO.validateYAML yamlErr yamlPrefix
  cases h : (ym (.other id)).2.notNil <;> simp [h, Id.run] <;> rfl

/-- **C18, validation without re-encoding**: a string or `[]byte` document that decodes is handed on
byte for byte (the decoder's output is thrown away); one that does not decode gives an error whose text
starts with `invalid yaml: ` and no document; a Go value is stored as the encoder wrote it -/
theorem validateYAML_verbatim (yu : Text → Err) (ym : Dyn → Text × Err) (s : Text) :
    ((yu s).isNil = true →
      Generated.FuncsIO.validateYAML yu ym (.str s) = (s, Err.nil) ∧
      Generated.FuncsIO.validateYAML yu ym (.bytes s) = (s, Err.nil)) ∧
    ((yu s).notNil = true →
      Generated.FuncsIO.validateYAML yu ym (.str s) = ([], yamlErr (yu s)) ∧
      Generated.FuncsIO.validateYAML yu ym (.bytes s) = ([], yamlErr (yu s))) := by
  rw [validateYAML_str, validateYAML_bytes]
  constructor
  · intro h
    have : (yu s).notNil = false := by simpa [Err.isNil] using h
    simp [this]
  · intro h; simp [h]

/-- an error of `validateYAML` is never nil and never the `snapshot not found` sentinel: the flow's
`errors.Is(err, errSnapNotFound)` branch cannot be taken for it -/
theorem validateYAML_error_shape (yu : Text → Err) (ym : Dyn → Text × Err) (d : Dyn) :
    (Generated.FuncsIO.validateYAML yu ym d).2 = Err.nil ∨
    ∃ e, (Generated.FuncsIO.validateYAML yu ym d).2 = yamlErr e ∧ (Generated.FuncsIO.validateYAML yu ym d).1 = [] := by
  cases d with
  | str s =>
    rw [validateYAML_str]
    cases h : (yu s).notNil
    · exact Or.inl (by simp)
    · exact Or.inr ⟨yu s, by simp, by simp⟩
  | bytes b =>
    rw [validateYAML_bytes]
    cases h : (yu b).notNil
    · exact Or.inl (by simp)
    · exact Or.inr ⟨yu b, by simp, by simp⟩
  | other id =>
    rw [validateYAML_other]
    cases h : (ym (.other id)).2.notNil
    · exact Or.inl (by simp)
    · exact Or.inr ⟨(ym (.other id)).2, by simp, by simp⟩

/-! ## 3. the JSON options -/

/-- pretty.Options from a JSONConfig -/
def optsOf : Option JSONConfig → PrettyOpts
  | none => { width := (Generated.prettyWidth : Int), indent := Generated.prettyIndent, sortKeys := Generated.prettySortKeys }
  | some c => { width := c.width, indent := c.indent, sortKeys := c.sortKeys }

/-- `getPrettyJSONOptions` never dereferences a nil pointer, builds a FRESH options value from the three
fields of a given JSONConfig (nothing is shared with, or written to, the package defaults), and answers the
defaults read from the source when no JSON option was given -/
theorem getPrettyJSONOptions_tied (j : Option JSONConfig) :
    Generated.FuncsIO.JSONConfig_getPrettyJSONOptions j = some (optsOf j) := by
  cases j <;> rfl

/-- the defaults go-snaps passes when the Config has no JSON options: keys sorted, one space, no width -/
theorem default_opts : optsOf none = { width := 0, indent := [32], sortKeys := true } := by decide

/-! ## 4. `takeJSONSnapshot` -/

theorem isSuffixOf_nl (l : Text) (c : UInt8) : ([10] : Text).isSuffixOf (l ++ [c]) = (c == 10) := by
  cases h : (c == 10)
  · rw [Bool.eq_false_iff, ne_eq, List.isSuffixOf_iff_suffix]
    rintro ⟨t, ht⟩
    have := congrArg List.getLast? ht
    simp at this
    simp [this] at h
  · rw [List.isSuffixOf_iff_suffix]
    have : c = 10 := by simpa using h
    subst this
    exact ⟨l, rfl⟩

theorem trimSuffix_nl (t : Text) : trimSuffix t [10] = trimNL t := by
  unfold trimSuffix trimNL
  rcases List.eq_nil_or_concat t with h | ⟨l, c, h⟩
  · subst h; decide
  · subst h
    simp only [List.concat_eq_append, isSuffixOf_nl, List.getLast?_append, List.getLast?_singleton, Option.some_or]
    by_cases hc : c = 10
    · subst hc; simp [nl]
    · have : (c == 10) = false := by simpa using hc
      simp [this, nl, hc]

/-- **the transliterated `takeJSONSnapshot`**: the pretty-printed document without ONE final newline, printed
with the options of §3; it cannot panic -/
theorem takeJSONSnapshot_tied (jc : Cfg → Option JSONConfig) (po : Text → PrettyOpts → Text) (c : Cfg) (b : Text) :
    Generated.FuncsIO.takeJSONSnapshot jc po c b = some (trimNL (po b (optsOf (jc c)))) := by
  unfold Generated.FuncsIO.takeJSONSnapshot
  rw [getPrettyJSONOptions_tied]
  simp [trimSuffix_nl]

/-- with a Config that carries no JSON options it is the model's `C14.takeJSONSnapshot` at the default
`SortKeys` read from the source -/
theorem takeJSONSnapshot_default (jc : Cfg → Option JSONConfig) (po : Text → PrettyOpts → Text) (c : Cfg) (b : Text)
    (h : jc c = none) :
    Generated.FuncsIO.takeJSONSnapshot jc po c b =
      some (C14.takeJSONSnapshot (fun s d => po d { optsOf none with sortKeys := s }) Generated.prettySortKeys b) := by
  rw [takeJSONSnapshot_tied, h]; rfl

/-! ## 5. with the Lean model of the library -/

/-- the options as the JSON model takes them -/
def toModelOpts (o : PrettyOpts) : Json.Opts := { width := o.width, indent := o.indent, sortKeys := o.sortKeys }

/-- `pretty.PrettyOptions` as modelled by `Json.pretty` -/
def modelPretty (b : Text) (o : PrettyOpts) : Text := Json.pretty (toModelOpts o) b

/-- **what is stored for a valid document** (model of the library in place of the library): the text
`takeJSONSnapshot` returns has no terminator line — so the framing of the snapshot file cannot be broken by
a JSON snapshot — and feeding it back gives the same text (a stored entry replays), for every JSONConfig
whose indent is JSON white space -/
theorem stored_json_sound (jc : Cfg → Option JSONConfig) (c : Cfg) (b : Text) (v : Json.JV)
    (hv : Json.parse b = some v) (hi : Json.IndentWs (toModelOpts (optsOf (jc c)))) :
    ∃ s, Generated.FuncsIO.takeJSONSnapshot jc modelPretty c b = some s ∧
      (∀ l ∈ lines s, l ≠ endSeq) ∧
      Generated.FuncsIO.takeJSONSnapshot jc modelPretty c s = some s := by
  refine ⟨_, takeJSONSnapshot_tied jc modelPretty c b, ?_, ?_⟩
  · exact C14Json.snapshot_no_terminator_line _ hi b v hv
  · rw [takeJSONSnapshot_tied]
    congr 1
    unfold modelPretty
    -- pretty o (trimNL (pretty o b)) = pretty o b: the final newline is insignificant white space
    have hp : Json.pretty (toModelOpts (optsOf (jc c))) b =
        Json.ppV (toModelOpts (optsOf (jc c))) 0 0 v ++ [nl] := by
      simp [Json.pretty, hv, Json.printTree, nl]
    rw [hp, trimNL_append]
    have hws : Json.tokens (Json.ppV (toModelOpts (optsOf (jc c))) 0 0 v) =
        Json.tokens (Json.ppV (toModelOpts (optsOf (jc c))) 0 0 v ++ [nl]) := by
      exact (Json.tokens_ws_suffix _ [nl] (by intro x hx; simp at hx; subst hx; decide)).symm
    rw [C14Json.pretty_ws_invariant _ _ _ hws, ← hp, C14Json.pretty_idempotent _ hi b v hv, hp, trimNL_append]

/-- the default options satisfy the white-space hypothesis -/
theorem default_indent_ws : Json.IndentWs (toModelOpts (optsOf none)) := by
  intro x hx
  have : (toModelOpts (optsOf none)).indent = [32] := by decide
  rw [this] at hx
  simp at hx; subst hx; decide

example : Generated.FuncsIO.takeJSONSnapshot (fun _ => none) modelPretty {} [123, 34, 98, 34, 58, 49, 44, 34, 97, 34, 58, 50, 125] =
    some [123, 10, 32, 34, 97, 34, 58, 32, 50, 44, 10, 32, 34, 98, 34, 58, 32, 49, 10, 125] := by
  decide +kernel

/-! ## 6. the flows with the source's own pipeline functions

The transliterated flows (Tie/Flows.lean) take `validate` and `takeJSON` as parameters and hand their
`input` to `validate` only; `dec` reads that opaque token as the dynamically typed value it stands for. -/

open GoSnaps.Tie in
/-- whatever validation is plugged in, the `pre` of a document flow is decided by its result alone -/
theorem docPre_of_validation (validate : Text → Text × Err) (run : Matcher → Text → Text × List MErr)
    (render : Text → Text) (input : Text) (ms : List Matcher) :
    docPre validate run render input ms =
      match toExcept (validate input) with
      | .error e => .error e
      | .ok j => docPre (fun _ => (j, Err.nil)) run render input ms := by
  unfold docPre toExcept
  cases h : (validate input).2.notNil <;> simp [h, Err.isNil]
  intro h'; exact absurd h' (by decide)

open GoSnaps.Tie in
/-- **MatchJSON / MatchStandaloneJSON with the source's `validateJSON`**: what reaches the snapshot stage is
decided by the model's `C14.validateJSON` on the dynamic type of the input — a string and the same bytes as
`[]byte` are indistinguishable from there on, an invalid one is rejected with `invalid json` before any
matcher runs, any other value goes through `json.Marshal` -/
theorem docPre_source_json (gv : Text → Bool) (jm : Dyn → Text × Err) (dec : Text → Dyn)
    (run : Matcher → Text → Text × List MErr) (render : Text → Text) (input : Text) (ms : List Matcher) :
    docPre (fun i => Generated.FuncsIO.validateJSON gv jm (dec i)) run render input ms =
      match C14.validateJSON gv (fun id => toExcept (jm (.other id))) (toJInput (dec input)) with
      | .error e => .error e
      | .ok j => docPre (fun _ => (j, Err.nil)) run render input ms := by
  rw [docPre_of_validation, validateJSON_tied]

open GoSnaps.Tie in
theorem docPre_source_json_forms (gv : Text → Bool) (jm : Dyn → Text × Err) (dec : Text → Dyn)
    (run : Matcher → Text → Text × List MErr) (render : Text → Text) (i1 i2 : Text) (s : Text) (ms : List Matcher)
    (h1 : dec i1 = .str s) (h2 : dec i2 = .bytes s) :
    docPre (fun i => Generated.FuncsIO.validateJSON gv jm (dec i)) run render i1 ms =
    docPre (fun i => Generated.FuncsIO.validateJSON gv jm (dec i)) run render i2 ms := by
  unfold docPre
  simp only [h1, h2, (validateJSON_forms gv jm s).1]

end GoSnaps.Tie.Pipeline
