/-
Tie by proof, JSON end to end: the TRANSLITERATED `matchJSON` / `matchStandaloneJSON` flows (Generated/FuncsIO.lean)
with the Lean MODELS of the three third-party libraries plugged in for their parameters

    gjson.GetBytes      ↦  `C16Json.gjsonGetM`   (JsonPath.lean `jsonGet`;   suite json.lens)
    sjson.SetBytesOptions ↦ `C16Json.sjsonSetM`  (JsonPath.lean `jsonSet`;   suite json.lens)
    gjson.Valid         ↦  `Json.jsonValid`      (Json.lean;                  suite json.model)
    pretty.PrettyOptions ↦ `Pipeline.modelPretty` (Json.lean `pretty`;        suite json.model)

so that C16 (and the JSON half of C15) is a statement about the code as transliterated from the source, with nothing
assumed of the libraries except that the models describe them.  (`json.Marshal` stays a parameter `jm`: the theorems
are about string / `[]byte` input.)

  §1  `modelLib`, `modelValidate`, `modelTakeJSON` (= the printed tree without the final newline: `modelTakeJSON_parse`)
  §2  `posOf`: the position a path TEXT addresses (fragment of JsonPath.lean, `#`-free, no `|`, found by the stepwise
      lookup — on trees without duplicate names: found by gjson, `posOf_of_getPath`); `setT_step`: bytes and tree, one path
  §3  `steps_run`, `applyJSONMatchers_any`, **`docPre_any`** (closed form: `.ok` of the printed MASKED TREE),
      `matchJSON_any_step` (the call is a history step of Tie/EndToEnd.lean)
  §4  C16, first half: `masked_same_tree`, **`masked_irrelevant_docPre`**, `masked_irrelevant_matchJSON`,
      `masked_irrelevant_matchStandaloneJSON`; `same_of_agree`, `masked_irrelevant_docPre'`
  §5  C16, second half: `printed_eq_iff`, `docPre_eq_iff`, **`unmasked_relevant_docPre`** (no `SortKeys`),
      `unmasked_relevant_docPre_sorted` (any options, "differ" = not equal up to member order), `upToOrder_printed`
  §6  C15 (JSON): `any_only_targets`, **`any_one_target`**, `any_one_target_paths`
  §7  `match.Any` and `match.Type` mixed: `docPre_mixed`, `masked_irrelevant_docPre_mixed`, `masked_irrelevant_flows_mixed`,
      `matchJSON_mixed_step`, `unmasked_relevant_docPre_mixed`, `mixed_only_targets`
  §8  `match.Custom`: `custom_one_target`
  §9  C16, second half, WITH `SortKeys`: `unmasked_relevant_docPre_scalar`, `unmasked_relevant_docPre_mixed_scalar`
  §10 closed evaluations (`decide +kernel`) through the transliterated functions, next to every theorem

HYPOTHESES that remain, and why.
  * the documents PARSE (= `gjson.Valid` accepts them: `C14Json.jsonValid_iff_parse`); input is a string or `[]byte`;
  * every masked path ADDRESSES a position (`posOf … ≠ none`): its text is in the fragment `parsePath` accepts (no
    `:`-prefixed component: D18; no wildcard / modifier / query), it has no `#` (D19: `arr.#.q` "exists" for gjson while
    sjson changes nothing), no component contains `|` (gjson's `parseArrayPath` quirk, JsonPath.lean `eachClean`), and
    the stepwise lookup — sjson's route: the FIRST member of each name — finds it.  NO hypothesis on duplicate member
    names is needed beyond that: on a tree without duplicates (`distinctG`) "gjson finds the path" is enough
    (`posOf_of_getPath`); with duplicates gjson may find, in a later member of the same name, what sjson does not
    (`C16Json.dup_get_set_diverge`, D17) — then `posOf` is `none` and nothing is claimed;
  * no EARLIER target is at or above a LATER one (`Addressed.apart`): the placeholder is a scalar, a path below it no
    longer exists and the matcher fails with "path does not exist" (C17);
  * §4: the paths address the SAME positions in the two documents — redundant when no target lies below another
    (`same_of_agree`);
  * §5/§9: the indent of the JSONConfig is JSON white space (`IndentWs`; otherwise the stored text is not JSON);
    with `SortKeys` a difference in member ORDER is (rightly) not a difference; §9 needs `distinctG`;
  * §7: `match.Type` for a CONCRETE expected type; at a `match.Type` target the two values have the same kind.
NOT PROVED: `match.Custom` inside longer sequences and in the two-document theorems (its callback sees the raw text,
which is not a function of the tree: white space inside a container value); Go-value input (`json.Marshal`).
-/
import GoSnaps.Lemmas.JsonEndToEnd
import GoSnaps.Props.C16Json
import GoSnaps.Props.Tie.Pipeline
import GoSnaps.Props.Tie.Matchers
import GoSnaps.Props.Tie.EndToEnd
namespace GoSnaps.Tie.JsonEndToEnd
open GoSnaps GoSnaps.GoIO GoSnaps.Json GoSnaps.JsonPath GoSnaps.C16Json
open GoSnaps.Tie GoSnaps.Tie.Pipeline
open GoSnaps.Generated.FuncsIO (anyMatcher_JSON typeMatcher_JSON customMatcher_JSON applyJSONMatchers matchJSON
  matchStandaloneJSON)

/-! ## 1. the models plugged in -/

/-- `typePlaceholder(r.Value())` = `fmt.Sprintf("<Type:%T>", value)` (match/type.go) on the raw text of the value; the Go
dynamic type of `r.Value()` is told by the first byte of the raw text (`JsonPath.rawType`: `"` string, `{` map, `[` slice,
`t` / `f` bool, `n` nil, else float64) -/
def rawTypePlaceholder (raw : Text) : Text := C16.typePlaceholder ⟨rawType raw, raw⟩

/-- "expected type " / ", received " -/
def expectedMsg : Text := [101, 120, 112, 101, 99, 116, 101, 100, 32, 116, 121, 112, 101, 32]
def receivedMsg : Text := [44, 32, 114, 101, 99, 101, 105, 118, 101, 100, 32]

/-- `typeCheck[ExpectedType](r.Value())` for a CONCRETE expected type, given by its `%T` name (`string`, `float64`,
`bool`, `[]interface {}`, `map[string]interface {}`): the type assertion succeeds iff the names coincide.  (Interface
type parameters are not modelled.) -/
def rawTypeCheck (expected raw : Text) : Err :=
  if expected = (rawType raw).name then .nil
  else .other (expectedMsg ++ expected ++ receivedMsg ++ (rawType raw).name)

/-- **the JSON document library as the transliterations take it, modelled** -/
def modelLib : JSONLib :=
  { gjsonGet := gjsonGetM, sjsonSet := sjsonSetM, typeCheck := rawTypeCheck, typePlaceholder := rawTypePlaceholder }

theorem modelLib_lens : JSONLens modelLib.gjsonGet modelLib.sjsonSet getT setT := model_JSONLens

/-- **`validateJSON` as transliterated, with the model of `gjson.Valid`**; `dec` reads the flow's opaque input token
as the dynamically typed Go value it stands for, `jm` is `json.Marshal` -/
def modelValidate (dec : Text → Dyn) (jm : Dyn → Text × Err) (i : Text) : Text × Err :=
  Generated.FuncsIO.validateJSON Json.jsonValid jm (dec i)

/-- **`takeJSONSnapshot` as transliterated, with the model of `pretty.PrettyOptions`** (`jc`: the `json` field of a
Config).  The transliteration answers `Option` (a nil dereference would be `none`); it never is:
`takeJSONSnapshot_tied`. -/
def modelTakeJSON (jc : Cfg → Option JSONConfig) (c : Cfg) (b : Text) : Text :=
  (Generated.FuncsIO.takeJSONSnapshot jc modelPretty c b).getD []

/-- the options `takeJSONSnapshot` prints with -/
def optsFor (jc : Cfg → Option JSONConfig) (c : Cfg) : Json.Opts := toModelOpts (optsOf (jc c))

theorem modelTakeJSON_eq (jc : Cfg → Option JSONConfig) (c : Cfg) (b : Text) :
    modelTakeJSON jc c b = trimNL (Json.pretty (optsFor jc c) b) := by
  unfold modelTakeJSON
  rw [takeJSONSnapshot_tied]
  rfl

/-- what is stored for a document that parses to `v`: the printed tree, without the final newline -/
theorem modelTakeJSON_parse (jc : Cfg → Option JSONConfig) (c : Cfg) (b : Text) (v : JV) (h : parse b = some v) :
    modelTakeJSON jc c b = ppV (optsFor jc c) 0 0 v := by
  rw [modelTakeJSON_eq]
  simp only [Json.pretty, h, printTree]
  exact trimNL_append _

/-- string and `[]byte` input are validated alike: a valid document is handed on byte for byte -/
theorem modelValidate_doc (dec : Text → Dyn) (jm : Dyn → Text × Err) (i doc : Text) (d : JV)
    (hi : dec i = .str doc ∨ dec i = .bytes doc) (hd : parse doc = some d) :
    modelValidate dec jm i = (doc, Err.nil) := by
  have hv : jsonValid doc = true := (C14Json.jsonValid_iff_parse doc).mpr ⟨d, hd⟩
  unfold modelValidate
  rcases hi with hi | hi
  · rw [hi, validateJSON_str]; simp [hv]
  · rw [hi, validateJSON_bytes]; simp [hv]

/-! ## 2. one path: text and tree -/

/-- the position a path TEXT addresses in a tree: the path is in the fragment of JsonPath.lean, `#`-free, no
component contains `|`, and the component-by-component lookup (`locS`: at every object the FIRST member of the name)
finds it.  On a tree without duplicate names that is exactly "gjson finds it" (`posOf_of_getPath`). -/
def posOf (d : JV) (path : Text) : Option Pos :=
  match parsePath path with
  | some p => if plain p && nopipe p then locS p d else none
  | none => none

theorem posOf_some {d : JV} {path : Text} {pos : Pos} (h : posOf d path = some pos) :
    ∃ p, parsePath path = some p ∧ plain p = true ∧ nopipe p = true ∧ locS p d = some pos := by
  unfold posOf at h
  cases hp : parsePath path with
  | none => rw [hp] at h; cases h
  | some p =>
    rw [hp] at h
    simp only at h
    cases h1 : plain p <;> cases h2 : nopipe p <;> simp [h1, h2] at h
    exact ⟨p, rfl, h1, h2, h⟩

/-- on a tree without duplicate member names, every `#`-free, `|`-free path of the fragment that gjson finds is
addressed (`loc_eq_locS`); with duplicate names gjson may find what the stepwise lookup — and then sjson — does
not: `C16Json.dup_get_set_diverge` (known finding D17) -/
theorem posOf_of_getPath (d : JV) (path : Text) (p : Path) (hpp : parsePath path = some p) (hp : plain p = true)
    (hn : nopipe p = true) (hd : distinctG d = true) (he : getPath d p ≠ none) : ∃ pos, posOf d path = some pos := by
  rw [getPath_eq_getS d p hd hp] at he
  unfold getS at he
  cases hl : locS p d with
  | none => rw [hl] at he; exact absurd rfl he
  | some pos => exact ⟨pos, by simp [posOf, hpp, hp, hn, hl]⟩

/-- the label written for a placeholder: the JSON string sjson encodes it as (`stringify`) -/
def phLabel (v : Text) : Label := .str (stringify v)

theorem reify_phLabel (v : Text) : reify (phLabel v) = .str (stringify v) := rfl

/-- **one path, bytes and tree**: on a document that parses to `d`, for a path that addresses `pos`: the model of
gjson reports the path as existing, and what the model of sjson returns parses to `d` with the subtree at `pos`
replaced by the placeholder string -/
theorem setT_step (doc path v : Text) (d : JV) (pos : Pos) (hd : parse doc = some d) (hp : posOf d path = some pos) :
    getT doc path ≠ none ∧ parse (setT doc path v) = some (setM d pos (phLabel v)) ∧ getAt d pos ≠ none ∧
    ∃ ab, setT doc path v = splice doc ab (stringify v) := by
  obtain ⟨p, hpp, hpl, hnp, hl⟩ := posOf_some hp
  obtain ⟨ab, hget⟩ := jsonGet_of_locS doc path p d pos hpp hpl hnp hd hl
  obtain ⟨ab', d', hset, hr, hparse⟩ :=
    jsonSet_of_locS doc path (stringify v) p d (.str (stringify v)) pos hpp hpl hnp hd (stringify_parse v) hl
  refine ⟨by simp [getT, hget], ?_, getAt_of_locS p d pos hl, ab', by simp [setT, hset]⟩
  simp only [setT, hset, Option.getD_some, hparse, setM, reify_phLabel, hr]

/-- a path that addresses `pos` still does after a write that is not at or above `pos` -/
theorem posOf_setM (d : JV) (path : Text) (pos pos1 : Pos) (l : Label) (h : posOf d path = some pos)
    (hn : DisjM pos1 pos) : posOf (setM d pos1 l) path = some pos := by
  unfold setM
  cases hr : replaceAt d pos1 (reify l) with
  | none => exact h
  | some d' =>
    obtain ⟨p, hpp, hpl, hnp, hl⟩ := posOf_some h
    simp [posOf, hpp, hpl, hnp, locS_replaceAt_other p d d' _ pos pos1 hl hr hn]


/-! ## 3. a sequence of `match.Any` matchers: the bytes follow the tree -/

/-- one write: (path text, placeholder) -/
abbrev Step := Text × Text

/-- the writes of a list of `match.Any` matchers, in the order the loops of `applyJSONMatchers` and
`anyMatcher.JSON` make them -/
def stepsOf (as : List AnyMatcher) : List Step := as.flatMap fun a => a.paths.map fun p => (p, a.placeholder)

/-- what the writes do to a TREE: (position addressed in `d`, label written) for every addressed path -/
def targets (d : JV) (ss : List Step) : List (Pos × Label) :=
  ss.filterMap fun s => (posOf d s.1).map fun pos => (pos, phLabel s.2)

/-- one write on the BYTES, by the model of sjson -/
def stepT (doc : Text) (s : Step) : Text := setT doc s.1 s.2

theorem filterMap_congr' {α β : Type} {f g : α → Option β} : ∀ {l : List α}, (∀ x ∈ l, f x = g x) →
    l.filterMap f = l.filterMap g
  | [], _ => rfl
  | x :: l, h => by
    simp only [List.filterMap_cons, h x (by simp)]
    rw [filterMap_congr' (fun y hy => h y (by simp [hy]))]

theorem mem_targets_of {d : JV} {ss : List Step} {s : Step} {pos : Pos} (hs : s ∈ ss) (hp : posOf d s.1 = some pos) :
    pos ∈ (targets d ss).map (·.1) := by
  simp only [targets, List.mem_map, List.mem_filterMap]
  exact ⟨(pos, phLabel s.2), ⟨s, hs, by simp [hp]⟩, rfl⟩

/-- **bytes follow the tree** through any number of writes: the document parses to `d`, every path addresses a
position of `d`, no earlier target is at or above a later one.  Then every path exists when it is reached, and
the final bytes parse to `d` with the targets replaced (`C16.maskEach` on the position lens `setM`). -/
theorem steps_run : ∀ (ss : List Step) (doc : Text) (d : JV), parse doc = some d →
    (∀ s ∈ ss, posOf d s.1 ≠ none) → ((targets d ss).map (·.1)).Pairwise DisjM →
    (∀ x ∈ withDocs stepT doc ss, getT x.2 x.1.1 ≠ none) ∧
    parse (ss.foldl stepT doc) = some (C16.maskEach setM (targets d ss) d)
  | [], doc, d, hd, _, _ => ⟨(by intro x hx; cases hx), (by simpa [targets, C16.maskEach] using hd)⟩
  | s :: ss, doc, d, hd, hex, hdj => by
    cases hp : posOf d s.1 with
    | none => exact absurd hp (hex s (by simp))
    | some pos =>
      obtain ⟨hg, hparse, _, _⟩ := setT_step doc s.1 s.2 d pos hd hp
      have ht : targets d (s :: ss) = (pos, phLabel s.2) :: targets d ss := by simp [targets, hp]
      rw [ht, List.map_cons, List.pairwise_cons] at hdj
      have hpers : ∀ s' ∈ ss, posOf (setM d pos (phLabel s.2)) s'.1 = posOf d s'.1 := by
        intro s' hs'
        cases hp' : posOf d s'.1 with
        | none => exact absurd hp' (hex s' (by simp [hs']))
        | some pos' => exact posOf_setM d s'.1 pos' pos _ hp' (hdj.1 pos' (mem_targets_of hs' hp'))
      have ht' : targets (setM d pos (phLabel s.2)) ss = targets d ss := by
        unfold targets
        apply filterMap_congr'
        intro s' hs'
        rw [hpers s' hs']
      obtain ⟨ih1, ih2⟩ := steps_run ss (stepT doc s) _ hparse
        (by intro s' hs'; rw [hpers s' hs']; exact hex s' (by simp [hs'])) (by rw [ht']; exact hdj.2)
      refine ⟨?_, ?_⟩
      · intro x hx
        simp only [withDocs, List.mem_cons] at hx
        rcases hx with rfl | hx
        · exact hg
        · exact ih1 x hx
      · rw [List.foldl_cons, ih2, ht', ht]
        rfl

/-! ### the nested loops of the transliteration are the flat sequence of writes -/

theorem withDocs_append {α D : Type} (next : D → α → D) (d : D) (l1 l2 : List α) :
    withDocs next d (l1 ++ l2) = withDocs next d l1 ++ withDocs next (l1.foldl next d) l2 := by
  induction l1 generalizing d with
  | nil => rfl
  | cons x l1 ih => simp [withDocs, ih]

theorem withDocs_map {α β D : Type} (g : α → β) (next : D → β → D) (d : D) (l : List α) :
    withDocs next d (l.map g) = (withDocs (fun d a => next d (g a)) d l).map fun x => (g x.1, x.2) := by
  induction l generalizing d with
  | nil => rfl
  | cons x l ih => simp [withDocs, ih]

/-- the table of a list of `match.Any` matchers -/
def anyTbl (as : List AnyMatcher) : List AnyM := as.map .any

theorem anyTbl_length (as : List AnyMatcher) : (anyTbl as).length = as.length := by simp [anyTbl]

/-- the composition of the matchers' abstract effects is the flat sequence of writes -/
theorem anyTbl_foldl (lib : JSONLib) (as : List AnyMatcher) (doc : Text) :
    (anyTbl as).foldl (absJSON getT setT lib) doc = (stepsOf as).foldl stepT doc := by
  induction as generalizing doc with
  | nil => rfl
  | cons a as ih =>
    simp only [anyTbl, List.map_cons, List.foldl_cons, stepsOf, List.flatMap_cons, List.foldl_append] at ih ⊢
    rw [ih]
    congr 1
    simp only [absJSON, C16.mask, List.foldl_map]
    rfl

/-- every path exists when its write is reached ⇒ every matcher succeeds on the document that reaches it -/
theorem anyTbl_succeeds (lib : JSONLib) (as : List AnyMatcher) (doc : Text)
    (h : ∀ x ∈ withDocs stepT doc (stepsOf as), getT x.2 x.1.1 ≠ none) :
    ∀ x ∈ withDocs (absJSON getT setT lib) doc (anyTbl as), Succeeds getT setT lib x.1 x.2 := by
  induction as generalizing doc with
  | nil => intro x hx; cases hx
  | cons a as ih =>
    simp only [stepsOf, List.flatMap_cons, withDocs_append] at h
    intro x hx
    simp only [anyTbl, List.map_cons, withDocs, List.mem_cons] at hx
    rcases hx with rfl | hx
    · show ∀ y ∈ withDocs (fun d p => setT d p a.placeholder) doc a.paths, getT y.2 y.1 ≠ none
      intro y hy
      have := h ((y.1, a.placeholder), y.2) (List.mem_append_left _ (by
        rw [withDocs_map]
        exact List.mem_map.mpr ⟨y, hy, rfl⟩))
      exact this
    · apply ih _ _ x hx
      intro y hy
      apply h y
      apply List.mem_append_right
      have e : absJSON getT setT lib doc (.any a) = (a.paths.map fun p => (p, a.placeholder)).foldl stepT doc := by
        simp only [absJSON, C16.mask, List.foldl_map]
        rfl
      rw [← e]
      exact hy

/-- all path texts of the matchers, in the order they are written -/
def allPaths (as : List AnyMatcher) : List Text := as.flatMap (·.paths)

/-- the positions the paths address in `d` -/
def targetPos (d : JV) (as : List AnyMatcher) : List Pos := (allPaths as).filterMap (posOf d)

/-- **the masked tree**: `d` with the subtree at every addressed position replaced by the matcher's placeholder
(a JSON string), in order -/
def masked (d : JV) (as : List AnyMatcher) : JV := C16.maskEach setM (targets d (stepsOf as)) d

theorem stepsOf_paths (as : List AnyMatcher) : (stepsOf as).map (·.1) = allPaths as := by
  induction as with
  | nil => rfl
  | cons a as ih =>
    simp only [stepsOf, allPaths, List.flatMap_cons, List.map_append, List.map_map] at ih ⊢
    rw [ih]
    congr 1
    induction a.paths with
    | nil => rfl
    | cons p ps ih' => simp [ih']

theorem targets_pos (d : JV) (as : List AnyMatcher) : (targets d (stepsOf as)).map (·.1) = targetPos d as := by
  unfold targets targetPos
  rw [← stepsOf_paths, List.filterMap_map, List.map_filterMap]
  apply filterMap_congr'
  intro s _
  simp only [Function.comp]
  cases posOf d s.1 <;> rfl

/-- every path of every matcher addresses a position of `d`, and no earlier target is at or above a later one
(a placeholder is a scalar: a path below an already masked one no longer exists — the matcher would fail with
"path does not exist") -/
structure Addressed (d : JV) (as : List AnyMatcher) : Prop where
  found : ∀ path ∈ allPaths as, posOf d path ≠ none
  apart : (targetPos d as).Pairwise DisjM

instance (d : JV) (as : List AnyMatcher) : Decidable (Addressed d as) :=
  decidable_of_iff ((∀ path ∈ allPaths as, posOf d path ≠ none) ∧ (targetPos d as).Pairwise DisjM)
    ⟨fun h => ⟨h.1, h.2⟩, fun h => ⟨h.found, h.apart⟩⟩

/-- **the matcher loops in closed form, on the models**: the transliterated `applyJSONMatchers` over the
transliterated `anyMatcher.JSON`s, run on the models of gjson and sjson, reports no error and hands on bytes that
parse to the masked tree -/
theorem applyJSONMatchers_any (as : List AnyMatcher) (doc : Text) (d : JV) (hd : parse doc = some d)
    (hA : Addressed d as) :
    applyJSONMatchers (runTable (runJSON modelLib) (anyTbl as)) doc (List.range (anyTbl as).length) =
      ((stepsOf as).foldl stepT doc, []) ∧
    parse ((stepsOf as).foldl stepT doc) = some (masked d as) := by
  have hex : ∀ s ∈ stepsOf as, posOf d s.1 ≠ none := fun s hs =>
    hA.found s.1 (by rw [← stepsOf_paths]; exact List.mem_map_of_mem hs)
  obtain ⟨h1, h2⟩ := steps_run (stepsOf as) doc d hd hex (by rw [targets_pos]; exact hA.apart)
  refine ⟨?_, h2⟩
  rw [applyJSONMatchers_eq, pipeline_masks modelLib modelLib_lens (anyTbl as) doc (anyTbl_succeeds modelLib as doc h1),
    anyTbl_foldl]

/-- **`docPre` in closed form**: for string or `[]byte` input that parses to `d`, with every path addressed, what
`matchJSON` / `matchStandaloneJSON` compute before they look at the file system is `.ok` of the PRINTED MASKED
TREE — a function of the masked tree and the format options, nothing else -/
theorem docPre_any (dec : Text → Dyn) (jm : Dyn → Text × Err) (jc : Cfg → Option JSONConfig) (c : Cfg)
    (as : List AnyMatcher) (i doc : Text) (d : JV) (hi : dec i = .str doc ∨ dec i = .bytes doc)
    (hd : parse doc = some d) (hA : Addressed d as) :
    docPre (modelValidate dec jm) (runTable (runJSON modelLib) (anyTbl as)) (modelTakeJSON jc c) i
        (List.range (anyTbl as).length) =
      .ok (ppV (optsFor jc c) 0 0 (masked d as)) := by
  obtain ⟨h1, h2⟩ := applyJSONMatchers_any as doc d hd hA
  rw [applyJSONMatchers_eq] at h1
  unfold docPre
  rw [modelValidate_doc dec jm i doc d hi hd, h1]
  simp [Err.notNil, modelTakeJSON_parse jc c _ _ h2]


/-- with every path addressed, the transliterated `matchJSON` call IS the history step `.call t s .raw x` of
Tie/EndToEnd.lean (`goStep`) whose snapshot text `s` is the printed masked tree — for every failure oracle and
every state.  So every history theorem about `goRun` (`go_replay_history`: C01, `go_mismatch_history`: C02,
`go_update_history`: C04, and the `Clean` theorems of EndToEndClean) speaks about MatchJSON calls with
`match.Any` matchers on the modelled libraries. -/
theorem matchJSON_any_step (io : IOFail) (st : St) (caller : Text) (dec : Text → Dyn) (jm : Dyn → Text × Err)
    (jc : Cfg → Option JSONConfig) (c : Cfg) (t : Text) (x : Nat) (as : List AnyMatcher) (i doc : Text) (d : JV)
    (hi : dec i = .str doc ∨ dec i = .bytes doc) (hd : parse doc = some d) (hA : Addressed d as) :
    matchJSON io st false caller (runTable (runJSON modelLib) (anyTbl as)) (modelValidate dec jm) (modelTakeJSON jc)
        c ⟨t, x⟩ i (List.range (anyTbl as).length) =
      goStep io c caller st (.call t (ppV (optsFor jc c) 0 0 (masked d as)) .raw x) := by
  simp only [goStep, matchJSON_eq, docPre_any dec jm jc c as i doc d hi hd hA, docPre_plain]

/-! ## 4. C16, first half: masked fields never influence the snapshot -/

theorem mem_targets {d : JV} {ss : List Step} {pv : Pos × Label} (h : pv ∈ targets d ss) :
    ∃ s ∈ ss, posOf d s.1 = some pv.1 := by
  simp only [targets, List.mem_filterMap] at h
  obtain ⟨s, hs, he⟩ := h
  cases hp : posOf d s.1 with
  | none => rw [hp] at he; cases he
  | some pos =>
    rw [hp] at he
    simp only [Option.map_some, Option.some.injEq] at he
    subst he
    exact ⟨s, hs, hp⟩

theorem getM_of_posOf {d : JV} {path : Text} {pos : Pos} (h : posOf d path = some pos) : getM d pos ≠ none := by
  obtain ⟨p, _, _, _, hl⟩ := posOf_some h
  have := getAt_of_locS p d pos hl
  intro e
  apply this
  simpa [getM, labelAt] using e

/-- **the masked trees coincide**: `ta` and `tb` carry the same labels at every position that is not at or below
a target (so they differ only at — or below — the masked values), and every path addresses the same position in
both.  C16's `masked_irrelevant` (one placeholder per path: `C16.masked_irrelevant_each`) on the contract
`C16Json.model_lensSpec`, which the model satisfies for EVERY tree. -/
theorem masked_same_tree (as : List AnyMatcher) (ta tb : JV) (hA : Addressed ta as)
    (hsame : ∀ path ∈ allPaths as, posOf tb path = posOf ta path)
    (hag : ∀ q, (∀ pos ∈ targetPos ta as, ¬ pos <+: q) → labelAt ta q = labelAt tb q) :
    masked ta as = masked tb as := by
  have ht : targets tb (stepsOf as) = targets ta (stepsOf as) := by
    unfold targets
    apply filterMap_congr'
    intro s hs
    rw [hsame s.1 (by rw [← stepsOf_paths]; exact List.mem_map_of_mem hs)]
  unfold masked
  rw [ht]
  apply C16.masked_irrelevant_each model_lensSpec
  · rw [targets_pos]; exact hA.apart
  · intro pv hpv
    obtain ⟨s, _, hp⟩ := mem_targets hpv
    exact getM_of_posOf hp
  · intro pv hpv
    obtain ⟨s, hs, hp⟩ := mem_targets hpv
    rw [← hsame s.1 (by rw [← stepsOf_paths]; exact List.mem_map_of_mem hs)] at hp
    exact getM_of_posOf hp
  · intro q hq
    apply hag q
    intro pos hpos
    rw [← targets_pos] at hpos
    obtain ⟨pv, hpv, rfl⟩ := List.mem_map.mp hpos
    exact hq pv hpv

theorem addressed_of_same {as : List AnyMatcher} {ta tb : JV} (hA : Addressed ta as)
    (hsame : ∀ path ∈ allPaths as, posOf tb path = posOf ta path) : Addressed tb as := by
  have e : targetPos tb as = targetPos ta as := filterMap_congr' hsame
  exact ⟨fun path hp => by rw [hsame path hp]; exact hA.found path hp, by rw [e]; exact hA.apart⟩

/-- **C16, masked irrelevant, on `docPre`**: two JSON documents `a`, `b` (each given as string or as `[]byte`) that
parse, whose trees differ only at or below the positions addressed by the paths of a list of `match.Any` matchers:
the transliterated pipeline — `validateJSON`, `applyJSONMatchers` over `anyMatcher.JSON`, `takeJSONSnapshot`, on the
models of `gjson.Valid`, gjson, sjson and pretty — computes the SAME `docPre` for both: the same snapshot text. -/
theorem masked_irrelevant_docPre (dec : Text → Dyn) (jm : Dyn → Text × Err) (jc : Cfg → Option JSONConfig) (c : Cfg)
    (as : List AnyMatcher) (ia ib a b : Text) (ta tb : JV)
    (hia : dec ia = .str a ∨ dec ia = .bytes a) (hib : dec ib = .str b ∨ dec ib = .bytes b)
    (ha : parse a = some ta) (hb : parse b = some tb) (hA : Addressed ta as)
    (hsame : ∀ path ∈ allPaths as, posOf tb path = posOf ta path)
    (hag : ∀ q, (∀ pos ∈ targetPos ta as, ¬ pos <+: q) → labelAt ta q = labelAt tb q) :
    docPre (modelValidate dec jm) (runTable (runJSON modelLib) (anyTbl as)) (modelTakeJSON jc c) ia
        (List.range (anyTbl as).length) =
    docPre (modelValidate dec jm) (runTable (runJSON modelLib) (anyTbl as)) (modelTakeJSON jc c) ib
        (List.range (anyTbl as).length) := by
  rw [docPre_any dec jm jc c as ia a ta hia ha hA,
    docPre_any dec jm jc c as ib b tb hib hb (addressed_of_same hA hsame), masked_same_tree as ta tb hA hsame hag]

/-- **… on the flow**: from ANY state, under ANY failure oracle, in either build mode, the transliterated
`matchJSON` does exactly the same with `b` as with `a` — the same state afterwards: the same bytes in the snapshot
file, the same events reported to `testing.T`, the same registries.  In particular the entry recorded from `a` is
the entry recorded from `b` (identical snapshot), and a call with `b` against the snapshot recorded from `a`
behaves as the call with `a` itself against it — which passes silently (C01: `go_replay_history` through
`matchJSON_any_step`). -/
theorem masked_irrelevant_matchJSON (io : IOFail) (st : St) (trimpath : Bool) (caller : Text)
    (dec : Text → Dyn) (jm : Dyn → Text × Err) (jc : Cfg → Option JSONConfig) (c : Cfg) (t : T)
    (as : List AnyMatcher) (ia ib a b : Text) (ta tb : JV)
    (hia : dec ia = .str a ∨ dec ia = .bytes a) (hib : dec ib = .str b ∨ dec ib = .bytes b)
    (ha : parse a = some ta) (hb : parse b = some tb) (hA : Addressed ta as)
    (hsame : ∀ path ∈ allPaths as, posOf tb path = posOf ta path)
    (hag : ∀ q, (∀ pos ∈ targetPos ta as, ¬ pos <+: q) → labelAt ta q = labelAt tb q) :
    matchJSON io st trimpath caller (runTable (runJSON modelLib) (anyTbl as)) (modelValidate dec jm) (modelTakeJSON jc)
        c t ia (List.range (anyTbl as).length) =
    matchJSON io st trimpath caller (runTable (runJSON modelLib) (anyTbl as)) (modelValidate dec jm) (modelTakeJSON jc)
        c t ib (List.range (anyTbl as).length) := by
  rw [matchJSON_eq, matchJSON_eq, masked_irrelevant_docPre dec jm jc c as ia ib a b ta tb hia hib ha hb hA hsame hag]

/-- the same for `MatchStandaloneJSON` -/
theorem masked_irrelevant_matchStandaloneJSON (io : IOFail) (st : St) (trimpath : Bool) (caller : Text)
    (dec : Text → Dyn) (jm : Dyn → Text × Err) (jc : Cfg → Option JSONConfig) (c : Cfg) (t : T)
    (as : List AnyMatcher) (ia ib a b : Text) (ta tb : JV)
    (hia : dec ia = .str a ∨ dec ia = .bytes a) (hib : dec ib = .str b ∨ dec ib = .bytes b)
    (ha : parse a = some ta) (hb : parse b = some tb) (hA : Addressed ta as)
    (hsame : ∀ path ∈ allPaths as, posOf tb path = posOf ta path)
    (hag : ∀ q, (∀ pos ∈ targetPos ta as, ¬ pos <+: q) → labelAt ta q = labelAt tb q) :
    matchStandaloneJSON io st trimpath caller (runTable (runJSON modelLib) (anyTbl as)) (modelValidate dec jm)
        (modelTakeJSON jc) c t ia (List.range (anyTbl as).length) =
    matchStandaloneJSON io st trimpath caller (runTable (runJSON modelLib) (anyTbl as)) (modelValidate dec jm)
        (modelTakeJSON jc) c t ib (List.range (anyTbl as).length) := by
  rw [matchStandaloneJSON_eq, matchStandaloneJSON_eq,
    masked_irrelevant_docPre dec jm jc c as ia ib a b ta tb hia hib ha hb hA hsame hag]


/-! ### the paths address the same positions by themselves when no target lies below another -/

theorem prefix_antisymm {q pos : Pos} (h1 : q <+: pos) (h2 : pos <+: q) : q = pos := by
  obtain ⟨t, ht⟩ := h1
  obtain ⟨u, hu⟩ := h2
  have : t = [] := by
    have := congrArg List.length ht
    have := congrArg List.length hu
    simp at *
    apply List.eq_nil_of_length_eq_zero
    omega
  subst this
  simpa using ht

theorem posOf_agree (ta tb : JV) (path : Text) (pos : Pos) (h : posOf ta path = some pos)
    (hag : ∀ q, q <+: pos → q ≠ pos → labelAt ta q = labelAt tb q) : posOf tb path = some pos := by
  obtain ⟨p, hpp, hpl, hnp, hl⟩ := posOf_some h
  simp [posOf, hpp, hpl, hnp, locS_agree p ta tb pos hl hag]

/-- when no target of `ta` lies at or below ANOTHER target (the masked paths are pairwise unrelated), agreement of
the labels off the targets already makes every path address the same position in `tb`: the hypothesis `hsame` of
`masked_irrelevant_docPre` is then redundant.  (It is not in the remaining corner — a path below a LATER path, as
in `match.Any("o.x", "o")`: there the two documents may hold `x` at different places inside `o`.) -/
theorem same_of_agree (as : List AnyMatcher) (ta tb : JV) (hA : Addressed ta as)
    (hinc : ∀ pos ∈ targetPos ta as, ∀ pos' ∈ targetPos ta as, pos <+: pos' → pos = pos')
    (hag : ∀ q, (∀ pos ∈ targetPos ta as, ¬ pos <+: q) → labelAt ta q = labelAt tb q) :
    ∀ path ∈ allPaths as, posOf tb path = posOf ta path := by
  intro path hpath
  cases hp : posOf ta path with
  | none => exact absurd hp (hA.found path hpath)
  | some pos =>
    have hmem : pos ∈ targetPos ta as := List.mem_filterMap.mpr ⟨path, hpath, hp⟩
    apply posOf_agree ta tb path pos hp
    intro q hq hne
    apply hag q
    intro pos' hpos' hpre
    have e : pos' = pos := hinc pos' hpos' pos hmem (List.IsPrefix.trans hpre hq)
    subst e
    exact hne (prefix_antisymm hq hpre)

/-- **C16, masked irrelevant, for pairwise unrelated masked paths**: nothing is asked of `b` but that it parses and
that its tree carries the labels of `a`'s tree at every position that is not at or below a target -/
theorem masked_irrelevant_docPre' (dec : Text → Dyn) (jm : Dyn → Text × Err) (jc : Cfg → Option JSONConfig) (c : Cfg)
    (as : List AnyMatcher) (ia ib a b : Text) (ta tb : JV)
    (hia : dec ia = .str a ∨ dec ia = .bytes a) (hib : dec ib = .str b ∨ dec ib = .bytes b)
    (ha : parse a = some ta) (hb : parse b = some tb) (hA : Addressed ta as)
    (hinc : ∀ pos ∈ targetPos ta as, ∀ pos' ∈ targetPos ta as, pos <+: pos' → pos = pos')
    (hag : ∀ q, (∀ pos ∈ targetPos ta as, ¬ pos <+: q) → labelAt ta q = labelAt tb q) :
    docPre (modelValidate dec jm) (runTable (runJSON modelLib) (anyTbl as)) (modelTakeJSON jc c) ia
        (List.range (anyTbl as).length) =
    docPre (modelValidate dec jm) (runTable (runJSON modelLib) (anyTbl as)) (modelTakeJSON jc c) ib
        (List.range (anyTbl as).length) :=
  masked_irrelevant_docPre dec jm jc c as ia ib a b ta tb hia hib ha hb hA (same_of_agree as ta tb hA hinc hag) hag

/-! ## 5. C16, second half: unmasked fields always influence the snapshot -/

/-- the trees of two documents are equal up to the order of object members (`C14Json.PermV`: members of objects,
at any depth, reordered) -/
def UpToOrder (v w : JV) : Prop := ∃ u, C14Json.PermV v u ∧ C14Json.PermV w u

/-- **the printer is injective up to what `SortKeys` identifies**: two (well-formed) trees print to the same text
iff their sorted forms coincide — the very same tree without `SortKeys` (`parse_pretty`: the printed text parses
back to `srt … v`) -/
theorem printed_eq_iff (o : Json.Opts) (hi : IndentWs o) (v w : JV) (hv : WF v) (hw : WF w) :
    ppV o 0 0 v = ppV o 0 0 w ↔ srt o 0 0 v = srt o 0 0 w := by
  constructor
  · intro h
    have h1 := C14Json.tokens_printTree o hi v hv
    have h2 := C14Json.tokens_printTree o hi w hw
    unfold printTree at h1 h2
    rw [h, h2] at h1
    have e : toks (srt o 0 0 w) = toks (srt o 0 0 v) := Option.some.inj h1
    have := parseToks_toks (srt o 0 0 w)
    rw [e, parseToks_toks] at this
    exact Option.some.inj this
  · intro h
    rw [ppV_srt o 0 0 v, ppV_srt o 0 0 w, h]

theorem printed_eq_upToOrder (o : Json.Opts) (hi : IndentWs o) (v w : JV) (hv : WF v) (hw : WF w)
    (h : ppV o 0 0 v = ppV o 0 0 w) : UpToOrder v w :=
  ⟨srt o 0 0 v, C14Json.permV_srt o 0 0 v, by
    rw [(printed_eq_iff o hi v w hv hw).mp h]; exact C14Json.permV_srt o 0 0 w⟩

/-- the masked tree is the tree of a document: it is well-formed -/
theorem masked_wf (as : List AnyMatcher) (doc : Text) (d : JV) (hd : parse doc = some d) (hA : Addressed d as) :
    WF (masked d as) :=
  C14Json.parse_wf _ _ (applyJSONMatchers_any as doc d hd hA).2

/-- a position that is not at or below a target carries the label it carried before masking -/
theorem labelAt_masked (d : JV) (as : List AnyMatcher) (q : Pos) (hq : ∀ pos ∈ targetPos d as, ¬ pos <+: q) :
    labelAt (masked d as) q = labelAt d q := by
  apply C16.get_maskEach_disj model_lensSpec
  intro pv hpv
  exact hq pv.1 (by rw [← targets_pos]; exact List.mem_map_of_mem hpv)

/-- **when do the two snapshot texts coincide**: exactly when the sorted forms of the two masked trees do -/
theorem docPre_eq_iff (dec : Text → Dyn) (jm : Dyn → Text × Err) (jc : Cfg → Option JSONConfig) (c : Cfg)
    (as : List AnyMatcher) (ia ib a b : Text) (ta tb : JV)
    (hia : dec ia = .str a ∨ dec ia = .bytes a) (hib : dec ib = .str b ∨ dec ib = .bytes b)
    (ha : parse a = some ta) (hb : parse b = some tb) (hA : Addressed ta as) (hB : Addressed tb as)
    (hi : IndentWs (optsFor jc c)) :
    docPre (modelValidate dec jm) (runTable (runJSON modelLib) (anyTbl as)) (modelTakeJSON jc c) ia
        (List.range (anyTbl as).length) =
    docPre (modelValidate dec jm) (runTable (runJSON modelLib) (anyTbl as)) (modelTakeJSON jc c) ib
        (List.range (anyTbl as).length) ↔
    srt (optsFor jc c) 0 0 (masked ta as) = srt (optsFor jc c) 0 0 (masked tb as) := by
  rw [docPre_any dec jm jc c as ia a ta hia ha hA, docPre_any dec jm jc c as ib b tb hib hb hB,
    ← printed_eq_iff _ hi _ _ (masked_wf as a ta ha hA) (masked_wf as b tb hb hB)]
  exact ⟨fun h => by injection h, fun h => by rw [h]⟩

/-- **C16, unmasked relevant, without `SortKeys`** (`JSONConfig.SortKeys = false`): the trees of the two documents
carry different labels at a position `q` that is not at or below a target of either (a different scalar, a
different length of an array, different member names or a different member ORDER of an object): both calls reach
the snapshot stage and their snapshot texts DIFFER.  Hence a call with `b` against the snapshot recorded from `a`
is reported: the report of two different texts is never empty (`C13.report_empty_iff`) and, unless updating,
the test fails with it (`C02.mismatch_reported_text`; on the transliterated flows: `go_mismatch_history` through
`matchJSON_any_step`).  The paths need NOT address the same positions in the two documents. -/
theorem unmasked_relevant_docPre (dec : Text → Dyn) (jm : Dyn → Text × Err) (jc : Cfg → Option JSONConfig) (c : Cfg)
    (as : List AnyMatcher) (ia ib a b : Text) (ta tb : JV)
    (hia : dec ia = .str a ∨ dec ia = .bytes a) (hib : dec ib = .str b ∨ dec ib = .bytes b)
    (ha : parse a = some ta) (hb : parse b = some tb) (hA : Addressed ta as) (hB : Addressed tb as)
    (hi : IndentWs (optsFor jc c)) (hs : (optsFor jc c).sortKeys = false)
    (q : Pos) (hqa : ∀ pos ∈ targetPos ta as, ¬ pos <+: q) (hqb : ∀ pos ∈ targetPos tb as, ¬ pos <+: q)
    (hne : labelAt ta q ≠ labelAt tb q) :
    ∃ sa sb, docPre (modelValidate dec jm) (runTable (runJSON modelLib) (anyTbl as)) (modelTakeJSON jc c) ia
        (List.range (anyTbl as).length) = .ok sa ∧
      docPre (modelValidate dec jm) (runTable (runJSON modelLib) (anyTbl as)) (modelTakeJSON jc c) ib
        (List.range (anyTbl as).length) = .ok sb ∧ sa ≠ sb := by
  refine ⟨_, _, docPre_any dec jm jc c as ia a ta hia ha hA, docPre_any dec jm jc c as ib b tb hib hb hB, ?_⟩
  intro e
  have h := (printed_eq_iff _ hi _ _ (masked_wf as a ta ha hA) (masked_wf as b tb hb hB)).mp e
  rw [C14Json.srt_unsorted _ hs, C14Json.srt_unsorted _ hs] at h
  apply hne
  rw [← labelAt_masked ta as q hqa, ← labelAt_masked tb as q hqb, h]

/-- **C16, unmasked relevant, any options** (`SortKeys` on: go-snaps' default).  With `SortKeys` two trees that
differ only in member order print alike (`C14Json.pretty_order_invariant`), so "differ" has to mean: the masked
trees are not equal up to member order.  Then the snapshot texts differ. -/
theorem unmasked_relevant_docPre_sorted (dec : Text → Dyn) (jm : Dyn → Text × Err) (jc : Cfg → Option JSONConfig)
    (c : Cfg) (as : List AnyMatcher) (ia ib a b : Text) (ta tb : JV)
    (hia : dec ia = .str a ∨ dec ia = .bytes a) (hib : dec ib = .str b ∨ dec ib = .bytes b)
    (ha : parse a = some ta) (hb : parse b = some tb) (hA : Addressed ta as) (hB : Addressed tb as)
    (hi : IndentWs (optsFor jc c)) (hne : ¬ UpToOrder (masked ta as) (masked tb as)) :
    ∃ sa sb, docPre (modelValidate dec jm) (runTable (runJSON modelLib) (anyTbl as)) (modelTakeJSON jc c) ia
        (List.range (anyTbl as).length) = .ok sa ∧
      docPre (modelValidate dec jm) (runTable (runJSON modelLib) (anyTbl as)) (modelTakeJSON jc c) ib
        (List.range (anyTbl as).length) = .ok sb ∧ sa ≠ sb := by
  refine ⟨_, _, docPre_any dec jm jc c as ia a ta hia ha hA, docPre_any dec jm jc c as ib b tb hib hb hB, ?_⟩
  intro e
  exact hne (printed_eq_upToOrder _ hi _ _ (masked_wf as a ta ha hA) (masked_wf as b tb hb hB) e)


/-- with `SortKeys`, on trees whose objects have pairwise different keys (as the printer compares them:
`C14Json.distinctKeys`), the converse: trees equal up to member order print alike — so
`unmasked_relevant_docPre_sorted` asks exactly what is needed -/
theorem upToOrder_printed (o : Json.Opts) (hs : o.sortKeys = true) (v w : JV) (hv : C14Json.distinctKeys v = true)
    (hw : C14Json.distinctKeys w = true) (h : UpToOrder v w) : ppV o 0 0 v = ppV o 0 0 w := by
  obtain ⟨u, h1, h2⟩ := h
  rw [C14Json.ppV_perm o hs v u h1 hv 0 0, C14Json.ppV_perm o hs w u h2 hw 0 0]

/-! ## 6. C15 (JSON): matchers change only what they target -/

/-- **any sequence of `match.Any` matchers**: the document that reaches `takeJSONSnapshot` is valid JSON, parses to
the masked tree, and every position that is not at or below a target carries the label it carried in the input
(above a target: the same member names in the same order / the same length; beside: everything) -/
theorem any_only_targets (as : List AnyMatcher) (doc : Text) (d : JV) (hd : parse doc = some d) (hA : Addressed d as) :
    ∃ out, applyJSONMatchers (runTable (runJSON modelLib) (anyTbl as)) doc (List.range (anyTbl as).length) = (out, []) ∧
      jsonValid out = true ∧ parse out = some (masked d as) ∧
      ∀ q, (∀ pos ∈ targetPos d as, ¬ pos <+: q) → labelAt (masked d as) q = labelAt d q := by
  obtain ⟨h1, h2⟩ := applyJSONMatchers_any as doc d hd hA
  exact ⟨_, h1, (C14Json.jsonValid_iff_parse _).mpr ⟨_, h2⟩, h2, fun q hq => labelAt_masked d as q hq⟩

/-- **one `match.Any(path).Placeholder(v)`** (either value of `ErrOnMissingPath`) on a valid document whose tree `d`
the path addresses at `pos`.  The transliterated matcher loop on the models of gjson / sjson reports no error, and the
document `out` that reaches `takeJSONSnapshot`
  * is the input with the BYTES of the target replaced by the placeholder as sjson encodes it (`splice`: every other
    byte — white space included — stays);
  * is valid JSON and parses to `d'` = `d` with EXACTLY the subtree at `pos` replaced (`replaceAt`, which knows
    nothing of paths: keys, order and every other subtree are kept by construction); putting the old subtree back
    gives `d`;
  * reads the placeholder string at `pos`, the same label as `d` at every position not at or below `pos`, and the
    same subtree at every position neither below nor above `pos`;
and the snapshot text is the printed `d'`.  No hypothesis on duplicate names: what is asked is that the stepwise
lookup finds the path (`posOf`); `posOf_of_getPath` derives it from "gjson finds it" on trees without duplicates. -/
theorem any_one_target (dec : Text → Dyn) (jm : Dyn → Text × Err) (jc : Cfg → Option JSONConfig) (c : Cfg)
    (path v name : Text) (eomp : Bool) (i doc : Text) (d : JV) (pos : Pos)
    (hi : dec i = .str doc ∨ dec i = .bytes doc) (hd : parse doc = some d) (hp : posOf d path = some pos) :
    ∃ out d' old ab,
      applyJSONMatchers (runTable (runJSON modelLib) [.any ⟨[path], v, eomp, name⟩]) doc [0] = (out, []) ∧
      out = splice doc ab (stringify v) ∧ jsonValid out = true ∧ parse out = some d' ∧
      getAt d pos = some old ∧ replaceAt d pos (.str (stringify v)) = some d' ∧ replaceAt d' pos old = some d ∧
      getAt d' pos = some (.str (stringify v)) ∧
      (∀ q, ¬ pos <+: q → labelAt d' q = labelAt d q) ∧
      (∀ q, ¬ pos <+: q → ¬ q <+: pos → getAt d' q = getAt d q) ∧
      docPre (modelValidate dec jm) (runTable (runJSON modelLib) [.any ⟨[path], v, eomp, name⟩]) (modelTakeJSON jc c)
        i [0] = .ok (ppV (optsFor jc c) 0 0 d') := by
  have hA : Addressed d [⟨[path], v, eomp, name⟩] :=
    ⟨by intro q hq; simp [allPaths] at hq; subst hq; rw [hp]; simp, by simp [targetPos, allPaths, hp]⟩
  obtain ⟨h1, h2⟩ := applyJSONMatchers_any [⟨[path], v, eomp, name⟩] doc d hd hA
  have h3 := docPre_any dec jm jc c [⟨[path], v, eomp, name⟩] i doc d hi hd hA
  obtain ⟨_, _, hg, ab, hsp⟩ := setT_step doc path v d pos hd hp
  obtain ⟨d', hr⟩ := replaceAt_some_of_getAt (.str (stringify v)) hg
  obtain ⟨old, hold⟩ := getAt_some_of_replaceAt hr
  have hm : masked d [⟨[path], v, eomp, name⟩] = d' := by
    simp [masked, stepsOf, targets, hp, C16.maskEach, setM, reify_phLabel, hr]
  have hf : (stepsOf [⟨[path], v, eomp, name⟩]).foldl stepT doc = setT doc path v := by
    simp [stepsOf, stepT]
  rw [hm] at h2 h3
  rw [hf] at h1 h2
  refine ⟨setT doc path v, d', old, ab, h1, hsp, (C14Json.jsonValid_iff_parse _).mpr ⟨_, h2⟩, h2, hold, hr, ?_,
    getAt_replaceAt_same pos d d' _ hr, fun q hq => labelAt_replaceAt_other d d' _ pos q hr hq,
    fun q h1 h2 => getAt_replaceAt_other pos q d d' _ hr h1 h2, h3⟩
  rw [replaceAt_replaceAt pos d d' _ old hr]
  exact replaceAt_getAt pos d old hold

/-- … and in terms of PATHS, on a tree without duplicate member names: after the matcher, the path reads the
placeholder, and every `#`-free path `q` that is disjoint from it (`disjP`: somewhere along the common length the
two components can never address the same child) reads what it read before.  With duplicate names gjson and sjson
part (`C16Json.dup_get_set_diverge`, D17); `:`-prefixed components and `#` paths are outside `parsePath` / `plain`
(D18, D19). -/
theorem any_one_target_paths (path v : Text) (p : Path) (d d' : JV) (pos : Pos)
    (hpp : parsePath path = some p) (hp : posOf d path = some pos) (hdd : distinctG d = true)
    (hr : replaceAt d pos (.str (stringify v)) = some d') :
    getPath d' p = some (.str (stringify v)) ∧ distinctG d' = true ∧
    ∀ q : Path, plain q = true → disjP p q = true → getPath d' q = getPath d q := by
  obtain ⟨p', hpp', hpl, _, hl⟩ := posOf_some hp
  rw [hpp] at hpp'
  cases hpp'
  have hset : setPathO true d p (.str (stringify v)) = some d' := by
    rw [setPathO_eq_setS true d p _ hdd hpl]
    simp [setS, hl, hr]
  exact ⟨get_set_same true d d' _ p hdd rfl hpl hset, (setPath_distinct hdd rfl hpl hset).2,
    fun q hq hdj => get_set_other true d d' _ p q hdd rfl hpl hq hdj hset⟩


/-! ## 7. sequences mixing `match.Any` and `match.Type`

`match.Type[T](paths…)` writes `<Type:T'>` where `T'` is the Go dynamic type of the value found, after checking that
`T' = T` (`typeCheck`).  On the models the dynamic type is read off the first byte of the raw text gjson reports
(`rawType`), which is the kind of the subtree found (`JsonPath.slice_kind`) — a function of the LABEL at the target. -/

/-- the placeholder `match.Type` writes for a value of kind `k` -/
def typePh (k : C16.GoType) : Text := C16.typePlaceholder ⟨k, []⟩

theorem rawTypePlaceholder_eq (raw : Text) : rawTypePlaceholder raw = typePh (rawType raw) := rfl

theorem rawTypeCheck_nil (expected raw : Text) :
    rawTypeCheck expected raw = Err.nil ↔ expected = (rawType raw).name := by
  unfold rawTypeCheck
  split <;> simp [*]

/-- one write of a mixed sequence: the path, the placeholder as a function of the kind found, the kinds admitted -/
structure GStep where
  path : Text
  ph : C16.GoType → Text
  ok : C16.GoType → Bool

/-- the writes of one matcher (`match.Custom` is not part of this section: its callback sees the raw text) -/
def gstepsOfM : AnyM → List GStep
  | .any a => a.paths.map fun p => ⟨p, fun _ => a.placeholder, fun _ => true⟩
  | .type t => t.paths.map fun p => ⟨p, typePh, fun k => decide (t.expectedType = k.name)⟩
  | .custom _ => []

def gstepsOf (tbl : List AnyM) : List GStep := tbl.flatMap gstepsOfM

def noCustom : AnyM → Bool
  | .custom _ => false
  | _ => true

/-- what one write does to the tree `d`: (position addressed, label written) -/
def gtarget (d : JV) (s : GStep) : Option (Pos × Label) :=
  (posOf d s.path).bind fun pos => (labelAt d pos).map fun l => (pos, phLabel (s.ph (kindOfLabel l)))

def gtargets (d : JV) (ss : List GStep) : List (Pos × Label) := ss.filterMap (gtarget d)

/-- the write succeeds on `d`: the path addresses a position and the kind found there is admitted -/
def gok (d : JV) (s : GStep) : Bool :=
  match posOf d s.path with
  | some pos =>
    match labelAt d pos with
    | some l => s.ok (kindOfLabel l)
    | none => false
  | none => false

/-- one write on the BYTES: the loop body of `anyMatcher.JSON` / `typeMatcher.JSON` on the models -/
def gstepT (doc : Text) (s : GStep) : Text := mwStep getT setT (fun raw => s.ph (rawType raw)) doc s.path

theorem gok_inv {d : JV} {s : GStep} (h : gok d s = true) :
    ∃ pos l, posOf d s.path = some pos ∧ labelAt d pos = some l ∧ s.ok (kindOfLabel l) = true ∧
      gtarget d s = some (pos, phLabel (s.ph (kindOfLabel l))) := by
  unfold gok at h
  cases hp : posOf d s.path with
  | none => rw [hp] at h; cases h
  | some pos =>
    rw [hp] at h
    simp only at h
    cases hl : labelAt d pos with
    | none => rw [hl] at h; cases h
    | some l =>
      rw [hl] at h
      exact ⟨pos, l, rfl, hl, h, by simp [gtarget, hp, hl]⟩

/-- **one write, bytes and tree** -/
theorem gstep_run (doc : Text) (d : JV) (s : GStep) (pos : Pos) (l : Label) (hd : parse doc = some d)
    (hp : posOf d s.path = some pos) (hl : labelAt d pos = some l) :
    ∃ raw, getT doc s.path = some raw ∧ rawType raw = kindOfLabel l ∧
      gstepT doc s = setT doc s.path (s.ph (kindOfLabel l)) ∧
      parse (gstepT doc s) = some (setM d pos (phLabel (s.ph (kindOfLabel l)))) := by
  obtain ⟨p, hpp, hpl, hnp, hloc⟩ := posOf_some hp
  cases hg : getAt d pos with
  | none => simp [labelAt, hg] at hl
  | some sub =>
    have hl' : l = label sub := by simpa [labelAt, hg] using hl.symm
    obtain ⟨ab, hget, hk⟩ := jsonGet_of_locS_kind doc s.path p d sub pos hpp hpl hnp hd hloc hg
    have hgT : getT doc s.path = some (slice doc ab) := by simp [getT, hget]
    have hk' : rawType (slice doc ab) = kindOfLabel l := by rw [hk, hl', kindOfLabel_label]
    have hst : gstepT doc s = setT doc s.path (s.ph (kindOfLabel l)) := by
      unfold gstepT
      rw [mwStep_some hgT, hk']
    exact ⟨_, hgT, hk', hst, by rw [hst]; exact (setT_step doc s.path _ d pos hd hp).2.1⟩

/-- a write that succeeds still does — with the same target — after a write that is not at or above its target -/
theorem gtarget_setM (d : JV) (s : GStep) (pos pos1 : Pos) (l1 lw : Label) (hok : gok d s = true)
    (ht : gtarget d s = some (pos, lw)) (hn : DisjM pos1 pos) :
    gtarget (setM d pos1 l1) s = gtarget d s ∧ gok (setM d pos1 l1) s = true := by
  obtain ⟨pos', l, hp, hl, hk, ht'⟩ := gok_inv hok
  rw [ht'] at ht
  have e : pos' = pos := by simpa using congrArg (·.map (·.1)) ht
  subst e
  have hp1 := posOf_setM d s.path pos' pos1 l1 hp hn
  have hl1 : labelAt (setM d pos1 l1) pos' = some l := by
    have := getM_setM_other d pos1 pos' l1 hn
    simpa [getM, hl] using this
  exact ⟨by simp [gtarget, hp1, hl1, hp, hl], by simp [gok, hp1, hl1, hk]⟩

theorem mem_gtargets_of {d : JV} {ss : List GStep} {s : GStep} {pv : Pos × Label} (hs : s ∈ ss)
    (ht : gtarget d s = some pv) : pv.1 ∈ (gtargets d ss).map (·.1) :=
  List.mem_map.mpr ⟨pv, List.mem_filterMap.mpr ⟨s, hs, ht⟩, rfl⟩

/-- **bytes follow the tree** through a mixed sequence of writes -/
theorem gsteps_run : ∀ (ss : List GStep) (doc : Text) (d : JV), parse doc = some d →
    (∀ s ∈ ss, gok d s = true) → ((gtargets d ss).map (·.1)).Pairwise DisjM →
    (∀ x ∈ withDocs gstepT doc ss, ∃ raw, getT x.2 x.1.path = some raw ∧ x.1.ok (rawType raw) = true) ∧
    parse (ss.foldl gstepT doc) = some (C16.maskEach setM (gtargets d ss) d)
  | [], doc, d, hd, _, _ => ⟨(by intro x hx; cases hx), (by simpa [gtargets, C16.maskEach] using hd)⟩
  | s :: ss, doc, d, hd, hok, hdj => by
    obtain ⟨pos, l, hp, hl, hk, ht⟩ := gok_inv (hok s (by simp))
    obtain ⟨raw, hg, hrk, _, hparse⟩ := gstep_run doc d s pos l hd hp hl
    have hts : gtargets d (s :: ss) = (pos, phLabel (s.ph (kindOfLabel l))) :: gtargets d ss := by
      simp [gtargets, ht]
    rw [hts, List.map_cons, List.pairwise_cons] at hdj
    have hpers : ∀ s' ∈ ss, gtarget (setM d pos (phLabel (s.ph (kindOfLabel l)))) s' = gtarget d s' ∧
        gok (setM d pos (phLabel (s.ph (kindOfLabel l)))) s' = true := by
      intro s' hs'
      obtain ⟨pos', l', _, _, _, ht'⟩ := gok_inv (hok s' (by simp [hs']))
      exact gtarget_setM d s' pos' pos _ _ (hok s' (by simp [hs'])) ht' (hdj.1 pos' (mem_gtargets_of hs' ht'))
    have hts' : gtargets (setM d pos (phLabel (s.ph (kindOfLabel l)))) ss = gtargets d ss :=
      filterMap_congr' (fun s' hs' => (hpers s' hs').1)
    obtain ⟨ih1, ih2⟩ := gsteps_run ss (gstepT doc s) _ hparse (fun s' hs' => (hpers s' hs').2)
      (by rw [hts']; exact hdj.2)
    refine ⟨?_, ?_⟩
    · intro x hx
      simp only [withDocs, List.mem_cons] at hx
      rcases hx with rfl | hx
      · exact ⟨raw, hg, by rw [hrk]; exact hk⟩
      · exact ih1 x hx
    · rw [List.foldl_cons, ih2, hts', hts]
      rfl

/-- one matcher: if every write finds its path with an admitted kind when it is reached, the matcher succeeds and
its abstract effect is the sequence of its writes -/
theorem absJSON_gsteps (m : AnyM) (hm : noCustom m = true) (doc : Text)
    (h : ∀ x ∈ withDocs gstepT doc (gstepsOfM m), ∃ raw, getT x.2 x.1.path = some raw ∧ x.1.ok (rawType raw) = true) :
    Succeeds getT setT modelLib m doc ∧ absJSON getT setT modelLib doc m = (gstepsOfM m).foldl gstepT doc := by
  cases m with
  | custom c => cases hm
  | any a =>
    simp only [gstepsOfM, withDocs_map] at h
    have hstep : (fun d p => gstepT d ⟨p, fun _ => a.placeholder, fun _ => true⟩) =
        mwStep getT setT (fun _ => a.placeholder) := by
      funext d p; rfl
    rw [hstep] at h
    have hex : ∀ y ∈ withDocs (mwStep getT setT (fun _ => a.placeholder)) doc a.paths, getT y.2 y.1 ≠ none := by
      intro y hy
      obtain ⟨raw, hr, _⟩ := h _ (List.mem_map.mpr ⟨y, hy, rfl⟩)
      simp only at hr
      rw [hr]; simp
    obtain ⟨hw, hf⟩ := withDocs_congr (mwStep getT setT (fun _ => a.placeholder)) (fun d p => setT d p a.placeholder)
      doc a.paths (fun y hy => by
        cases hg : getT y.2 y.1 with
        | none => exact absurd hg (hex y hy)
        | some v => rw [mwStep_some hg])
    refine ⟨?_, ?_⟩
    · show ∀ y ∈ withDocs (fun d p => setT d p a.placeholder) doc a.paths, getT y.2 y.1 ≠ none
      rw [← hw]; exact hex
    · show C16.mask setT a.paths a.placeholder doc = _
      simp only [gstepsOfM, List.foldl_map, hstep]
      exact hf.symm
  | type t =>
    simp only [gstepsOfM, withDocs_map] at h
    have hstep : (fun d p => gstepT d ⟨p, typePh, fun k => decide (t.expectedType = k.name)⟩) =
        mwStep getT setT modelLib.typePlaceholder := by
      funext d p; rfl
    rw [hstep] at h
    refine ⟨?_, ?_⟩
    · show ∀ y ∈ withDocs (mwStep getT setT modelLib.typePlaceholder) doc t.paths,
        PathOK getT (modelLib.typeCheck t.expectedType) t.errOnMissingPath y.2 y.1
      intro y hy
      obtain ⟨raw, hr, hk⟩ := h _ (List.mem_map.mpr ⟨y, hy, rfl⟩)
      simp only at hr hk
      unfold PathOK
      rw [hr]
      exact (rawTypeCheck_nil _ _).mpr (by simpa using hk)
    · show C16.maskWith getT setT modelLib.typePlaceholder t.paths doc = _
      rw [maskWith_eq_foldl]
      simp only [gstepsOfM, List.foldl_map, hstep]

/-- the same for a table -/
theorem tbl_gsteps (tbl : List AnyM) (hm : ∀ m ∈ tbl, noCustom m = true) (doc : Text)
    (h : ∀ x ∈ withDocs gstepT doc (gstepsOf tbl), ∃ raw, getT x.2 x.1.path = some raw ∧ x.1.ok (rawType raw) = true) :
    (∀ x ∈ withDocs (absJSON getT setT modelLib) doc tbl, Succeeds getT setT modelLib x.1 x.2) ∧
    tbl.foldl (absJSON getT setT modelLib) doc = (gstepsOf tbl).foldl gstepT doc := by
  induction tbl generalizing doc with
  | nil => exact ⟨(by intro x hx; cases hx), rfl⟩
  | cons m tbl ih =>
    simp only [gstepsOf, List.flatMap_cons, withDocs_append] at h
    obtain ⟨h1, h2⟩ := absJSON_gsteps m (hm m (by simp)) doc (fun x hx => h x (List.mem_append_left _ hx))
    obtain ⟨i1, i2⟩ := ih (fun m' hm' => hm m' (by simp [hm'])) (absJSON getT setT modelLib doc m)
      (fun x hx => h x (List.mem_append_right _ (by rw [← h2]; exact hx)))
    refine ⟨?_, ?_⟩
    · intro x hx
      simp only [withDocs, List.mem_cons] at hx
      rcases hx with rfl | hx
      · exact h1
      · exact i1 x hx
    · simp only [List.foldl_cons, gstepsOf, List.flatMap_cons, List.foldl_append]
      rw [i2, h2]
      rfl

/-- every write of the table succeeds on `d`, and no earlier target is at or above a later one -/
structure GAddressed (d : JV) (tbl : List AnyM) : Prop where
  noCustom : ∀ m ∈ tbl, noCustom m = true
  found : ∀ s ∈ gstepsOf tbl, gok d s = true
  apart : ((gtargets d (gstepsOf tbl)).map (·.1)).Pairwise DisjM

/-- **the masked tree of a mixed table** -/
def gmasked (d : JV) (tbl : List AnyM) : JV := C16.maskEach setM (gtargets d (gstepsOf tbl)) d

/-- **`docPre` in closed form, `match.Any` and `match.Type` mixed**: `.ok` of the printed masked tree -/
theorem docPre_mixed (dec : Text → Dyn) (jm : Dyn → Text × Err) (jc : Cfg → Option JSONConfig) (c : Cfg)
    (tbl : List AnyM) (i doc : Text) (d : JV) (hi : dec i = .str doc ∨ dec i = .bytes doc)
    (hd : parse doc = some d) (hA : GAddressed d tbl) :
    (∃ out, applyJSONMatchers (runTable (runJSON modelLib) tbl) doc (List.range tbl.length) = (out, []) ∧
      parse out = some (gmasked d tbl)) ∧
    docPre (modelValidate dec jm) (runTable (runJSON modelLib) tbl) (modelTakeJSON jc c) i (List.range tbl.length) =
      .ok (ppV (optsFor jc c) 0 0 (gmasked d tbl)) := by
  obtain ⟨h1, h2⟩ := gsteps_run (gstepsOf tbl) doc d hd hA.found hA.apart
  obtain ⟨t1, t2⟩ := tbl_gsteps tbl hA.noCustom doc h1
  have hrun : applyJSONMatchers (runTable (runJSON modelLib) tbl) doc (List.range tbl.length) =
      ((gstepsOf tbl).foldl gstepT doc, []) := by
    rw [applyJSONMatchers_eq, pipeline_masks modelLib modelLib_lens tbl doc t1, t2]
  refine ⟨⟨_, hrun, h2⟩, ?_⟩
  rw [applyJSONMatchers_eq] at hrun
  unfold docPre
  rw [modelValidate_doc dec jm i doc d hi hd, hrun]
  simp [Err.notNil, modelTakeJSON_parse jc c _ _ h2, gmasked]

/-- **C16, masked irrelevant, mixed table**: the two trees differ only at or below the targets, every path addresses
the same position in both, and at the targets of `match.Type` matchers the two values have the same KIND (the
placeholder is derived from the dynamic type only: `C16.type_placeholder_only_type`) — all of which is
`gtargets tb = gtargets ta`.  Then `docPre` is the same, and so is everything the flows do. -/
theorem masked_irrelevant_docPre_mixed (dec : Text → Dyn) (jm : Dyn → Text × Err) (jc : Cfg → Option JSONConfig)
    (c : Cfg) (tbl : List AnyM) (ia ib a b : Text) (ta tb : JV)
    (hia : dec ia = .str a ∨ dec ia = .bytes a) (hib : dec ib = .str b ∨ dec ib = .bytes b)
    (ha : parse a = some ta) (hb : parse b = some tb) (hA : GAddressed ta tbl)
    (hokb : ∀ s ∈ gstepsOf tbl, gok tb s = true)
    (hsame : gtargets tb (gstepsOf tbl) = gtargets ta (gstepsOf tbl))
    (hag : ∀ q, (∀ pv ∈ gtargets ta (gstepsOf tbl), ¬ pv.1 <+: q) → labelAt ta q = labelAt tb q) :
    docPre (modelValidate dec jm) (runTable (runJSON modelLib) tbl) (modelTakeJSON jc c) ia (List.range tbl.length) =
    docPre (modelValidate dec jm) (runTable (runJSON modelLib) tbl) (modelTakeJSON jc c) ib (List.range tbl.length) := by
  have hB : GAddressed tb tbl := ⟨hA.noCustom, hokb, by rw [hsame]; exact hA.apart⟩
  rw [(docPre_mixed dec jm jc c tbl ia a ta hia ha hA).2, (docPre_mixed dec jm jc c tbl ib b tb hib hb hB).2]
  congr 2
  unfold gmasked
  rw [hsame]
  have hget : ∀ (d : JV), (∀ s ∈ gstepsOf tbl, gok d s = true) →
      ∀ pv ∈ gtargets d (gstepsOf tbl), getM d pv.1 ≠ none := by
    intro d hd pv hpv
    obtain ⟨s, hs, ht⟩ := List.mem_filterMap.mp hpv
    obtain ⟨pos, l, _, hl, _, ht'⟩ := gok_inv (hd s hs)
    rw [ht'] at ht
    cases ht
    simp [getM, hl]
  exact C16.masked_irrelevant_each model_lensSpec _ ta tb hA.apart (hget ta hA.found)
    (by rw [← hsame]; exact hget tb hokb) hag

/-- … on the flows: the transliterated `matchJSON` / `matchStandaloneJSON` do exactly the same with `b` as with `a`,
from any state, under any failure oracle, in either build mode -/
theorem masked_irrelevant_flows_mixed (io : IOFail) (st : St) (trimpath : Bool) (caller : Text)
    (dec : Text → Dyn) (jm : Dyn → Text × Err) (jc : Cfg → Option JSONConfig) (c : Cfg) (t : T)
    (tbl : List AnyM) (ia ib a b : Text) (ta tb : JV)
    (hia : dec ia = .str a ∨ dec ia = .bytes a) (hib : dec ib = .str b ∨ dec ib = .bytes b)
    (ha : parse a = some ta) (hb : parse b = some tb) (hA : GAddressed ta tbl)
    (hokb : ∀ s ∈ gstepsOf tbl, gok tb s = true)
    (hsame : gtargets tb (gstepsOf tbl) = gtargets ta (gstepsOf tbl))
    (hag : ∀ q, (∀ pv ∈ gtargets ta (gstepsOf tbl), ¬ pv.1 <+: q) → labelAt ta q = labelAt tb q) :
    matchJSON io st trimpath caller (runTable (runJSON modelLib) tbl) (modelValidate dec jm) (modelTakeJSON jc) c t ia
        (List.range tbl.length) =
      matchJSON io st trimpath caller (runTable (runJSON modelLib) tbl) (modelValidate dec jm) (modelTakeJSON jc) c t ib
        (List.range tbl.length) ∧
    matchStandaloneJSON io st trimpath caller (runTable (runJSON modelLib) tbl) (modelValidate dec jm) (modelTakeJSON jc)
        c t ia (List.range tbl.length) =
      matchStandaloneJSON io st trimpath caller (runTable (runJSON modelLib) tbl) (modelValidate dec jm)
        (modelTakeJSON jc) c t ib (List.range tbl.length) := by
  have e := masked_irrelevant_docPre_mixed dec jm jc c tbl ia ib a b ta tb hia hib ha hb hA hokb hsame hag
  exact ⟨by rw [matchJSON_eq, matchJSON_eq, e], by rw [matchStandaloneJSON_eq, matchStandaloneJSON_eq, e]⟩

/-- a mixed call is the history step of Tie/EndToEnd.lean whose text is the printed masked tree -/
theorem matchJSON_mixed_step (io : IOFail) (st : St) (caller : Text) (dec : Text → Dyn) (jm : Dyn → Text × Err)
    (jc : Cfg → Option JSONConfig) (c : Cfg) (t : Text) (x : Nat) (tbl : List AnyM) (i doc : Text) (d : JV)
    (hi : dec i = .str doc ∨ dec i = .bytes doc) (hd : parse doc = some d) (hA : GAddressed d tbl) :
    matchJSON io st false caller (runTable (runJSON modelLib) tbl) (modelValidate dec jm) (modelTakeJSON jc)
        c ⟨t, x⟩ i (List.range tbl.length) =
      goStep io c caller st (.call t (ppV (optsFor jc c) 0 0 (gmasked d tbl)) .raw x) := by
  simp only [goStep, matchJSON_eq, (docPre_mixed dec jm jc c tbl i doc d hi hd hA).2, docPre_plain]

/-- **C16, unmasked relevant, mixed table, without `SortKeys`** -/
theorem unmasked_relevant_docPre_mixed (dec : Text → Dyn) (jm : Dyn → Text × Err) (jc : Cfg → Option JSONConfig)
    (c : Cfg) (tbl : List AnyM) (ia ib a b : Text) (ta tb : JV)
    (hia : dec ia = .str a ∨ dec ia = .bytes a) (hib : dec ib = .str b ∨ dec ib = .bytes b)
    (ha : parse a = some ta) (hb : parse b = some tb) (hA : GAddressed ta tbl) (hB : GAddressed tb tbl)
    (hi : IndentWs (optsFor jc c)) (hs : (optsFor jc c).sortKeys = false)
    (q : Pos) (hqa : ∀ pv ∈ gtargets ta (gstepsOf tbl), ¬ pv.1 <+: q)
    (hqb : ∀ pv ∈ gtargets tb (gstepsOf tbl), ¬ pv.1 <+: q) (hne : labelAt ta q ≠ labelAt tb q) :
    ∃ sa sb,
      docPre (modelValidate dec jm) (runTable (runJSON modelLib) tbl) (modelTakeJSON jc c) ia (List.range tbl.length) =
        .ok sa ∧
      docPre (modelValidate dec jm) (runTable (runJSON modelLib) tbl) (modelTakeJSON jc c) ib (List.range tbl.length) =
        .ok sb ∧ sa ≠ sb := by
  obtain ⟨⟨oa, _, pa⟩, da⟩ := docPre_mixed dec jm jc c tbl ia a ta hia ha hA
  obtain ⟨⟨ob, _, pb⟩, db⟩ := docPre_mixed dec jm jc c tbl ib b tb hib hb hB
  refine ⟨_, _, da, db, ?_⟩
  intro e
  have h := (printed_eq_iff _ hi _ _ (C14Json.parse_wf _ _ pa) (C14Json.parse_wf _ _ pb)).mp e
  rw [C14Json.srt_unsorted _ hs, C14Json.srt_unsorted _ hs] at h
  exact C16.unmasked_relevant_each model_lensSpec _ _ ta tb q hqa hqb hne h

/-- **C15 (JSON), mixed table**: what reaches `takeJSONSnapshot` is valid JSON, parses to the masked tree, and every
position not at or below a target carries the label it carried in the input -/
theorem mixed_only_targets (tbl : List AnyM) (doc : Text) (d : JV) (hd : parse doc = some d) (hA : GAddressed d tbl) :
    ∃ out, applyJSONMatchers (runTable (runJSON modelLib) tbl) doc (List.range tbl.length) = (out, []) ∧
      jsonValid out = true ∧ parse out = some (gmasked d tbl) ∧
      ∀ q, (∀ pv ∈ gtargets d (gstepsOf tbl), ¬ pv.1 <+: q) → labelAt (gmasked d tbl) q = labelAt d q := by
  obtain ⟨⟨out, h1, h2⟩, _⟩ := docPre_mixed Dyn.str (fun _ => ([], Err.nil)) (fun _ => none) {} tbl doc doc d
    (Or.inl rfl) hd hA
  exact ⟨out, h1, (C14Json.jsonValid_iff_parse _).mpr ⟨_, h2⟩, h2,
    fun q hq => C16.get_maskEach_disj model_lensSpec _ d q hq⟩

/-! ## 8. `match.Custom` (C15): one path, the callback's value -/

/-- **one `match.Custom(path, callback)`** on a valid document whose tree the path addresses at `pos`, with a callback
that accepts the value found (it is handed the raw text gjson reports; what it returns is written as a Go string):
no error, and the document that reaches `takeJSONSnapshot` is valid JSON and parses to the input tree with EXACTLY
the subtree at `pos` replaced by the callback's value; labels off the target are unchanged; the snapshot text is the
printed result.  (A callback error fails the test instead: `Tie.docPre_fails`, C17.) -/
theorem custom_one_target (dec : Text → Dyn) (jm : Dyn → Text × Err) (jc : Cfg → Option JSONConfig) (c : Cfg)
    (cm : CustomMatcher) (i doc : Text) (d : JV) (pos : Pos)
    (hi : dec i = .str doc ∨ dec i = .bytes doc) (hd : parse doc = some d) (hp : posOf d cm.path = some pos)
    (hcb : ∀ raw, getT doc cm.path = some raw → (cm.callback raw).2 = Err.nil) :
    ∃ raw out d' sub,
      getT doc cm.path = some raw ∧ getAt d pos = some sub ∧ rawType raw = kindOf sub ∧
      applyJSONMatchers (runTable (runJSON modelLib) [.custom cm]) doc [0] = (out, []) ∧
      jsonValid out = true ∧ parse out = some d' ∧
      replaceAt d pos (.str (stringify (cm.callback raw).1)) = some d' ∧
      (∀ q, ¬ pos <+: q → labelAt d' q = labelAt d q) ∧
      (∀ q, ¬ pos <+: q → ¬ q <+: pos → getAt d' q = getAt d q) ∧
      docPre (modelValidate dec jm) (runTable (runJSON modelLib) [.custom cm]) (modelTakeJSON jc c) i [0] =
        .ok (ppV (optsFor jc c) 0 0 d') := by
  obtain ⟨p, hpp, hpl, hnp, hloc⟩ := posOf_some hp
  cases hg : getAt d pos with
  | none => exact absurd hg (getAt_of_locS p d pos hloc)
  | some sub =>
    obtain ⟨ab, hget, hk⟩ := jsonGet_of_locS_kind doc cm.path p d sub pos hpp hpl hnp hd hloc hg
    have hgT : getT doc cm.path = some (slice doc ab) := by simp [getT, hget]
    obtain ⟨_, hparse, _, _⟩ := setT_step doc cm.path (cm.callback (slice doc ab)).1 d pos hd hp
    obtain ⟨d', hr⟩ := replaceAt_some_of_getAt (.str (stringify (cm.callback (slice doc ab)).1)) (by rw [hg]; simp)
    have hsm : setM d pos (phLabel (cm.callback (slice doc ab)).1) = d' := by simp [setM, reify_phLabel, hr]
    rw [hsm] at hparse
    have hsucc : ∀ x ∈ withDocs (absJSON getT setT modelLib) doc [.custom cm], Succeeds getT setT modelLib x.1 x.2 := by
      intro x hx
      simp only [withDocs, List.mem_singleton] at hx
      subst hx
      show PathOK getT (fun v => (cm.callback v).2) cm.errOnMissingPath doc cm.path
      unfold PathOK
      rw [hgT]
      exact hcb _ hgT
    have hout : [AnyM.custom cm].foldl (absJSON getT setT modelLib) doc = setT doc cm.path (cm.callback (slice doc ab)).1 := by
      simp only [List.foldl_cons, List.foldl_nil, absJSON, maskWith_eq_foldl, mwStep_some hgT]
    have hrun : applyJSONMatchers (runTable (runJSON modelLib) [.custom cm]) doc [0] =
        (setT doc cm.path (cm.callback (slice doc ab)).1, []) := by
      rw [applyJSONMatchers_eq]
      exact (pipeline_masks modelLib modelLib_lens [.custom cm] doc hsucc).trans (by rw [hout])
    refine ⟨_, _, d', sub, hgT, rfl, hk, hrun, (C14Json.jsonValid_iff_parse _).mpr ⟨_, hparse⟩, hparse, hr,
      fun q hq => labelAt_replaceAt_other d d' _ pos q hr hq,
      fun q h1 h2 => getAt_replaceAt_other pos q d d' _ hr h1 h2, ?_⟩
    rw [applyJSONMatchers_eq] at hrun
    unfold docPre
    rw [modelValidate_doc dec jm i doc d hi hd, hrun]
    simp [Err.notNil, modelTakeJSON_parse jc c _ _ hparse]

/-! ## 9. C16, second half, WITH `SortKeys`: a different scalar at an unmasked path

Text paths do not observe member order (`JsonPath.getS_permV`), and `SortKeys` changes nothing else
(`C14Json.permV_srt`): so a `#`-free path that reads DIFFERENT SCALARS in the two documents, at positions that are not at or
below a target, separates the two snapshot texts whatever the options.  This needs trees without duplicate member names
(`distinctG`): with duplicates a reordering changes which member a path reads. -/

/-- an invariant of the tree that every single replacement preserves holds of the masked tree -/
theorem maskEach_ind (P : JV → Prop) : ∀ (es : List (Pos × Label)) (d : JV), P d →
    (∀ d' d'' pos l, (pos, l) ∈ es → replaceAt d' pos (reify l) = some d'' → P d' → P d'') →
    P (C16.maskEach setM es d)
  | [], _, h0, _ => h0
  | (pos, l) :: es, d, h0, hstep => by
    show P (C16.maskEach setM es (setM d pos l))
    apply maskEach_ind P es _ _ (fun d' d'' pos' l' hm => hstep d' d'' pos' l' (List.mem_cons_of_mem _ hm))
    unfold setM
    cases hr : replaceAt d pos (reify l) with
    | none => exact h0
    | some d'' => exact hstep d d'' pos l (List.mem_cons_self ..) hr h0

/-- a scalar read by a path at a position that is not at or below a target is still read there after masking, and
the masked tree has no duplicate names when the input has none (the placeholders are strings) -/
theorem maskEach_getS (es : List (Pos × Label)) (d : JV) (q : Path) (posq : Pos) (sc : JV)
    (hstr : ∀ e ∈ es, ∃ v, e.2 = phLabel v) (hd : distinctG d = true) (hl : locS q d = some posq)
    (hg : getAt d posq = some sc) (hs : isScalar sc = true) (hq : ∀ e ∈ es, ¬ e.1 <+: posq) :
    distinctG (C16.maskEach setM es d) = true ∧ getS (C16.maskEach setM es d) q = some sc := by
  have key := maskEach_ind (fun d' => distinctG d' = true ∧ locS q d' = some posq ∧ getAt d' posq = some sc) es d
    ⟨hd, hl, hg⟩ (by
      intro d' d'' pos l hm hr ⟨h1, h2, h3⟩
      obtain ⟨v, hv⟩ := hstr _ hm
      simp only at hv
      subst hv
      have hn : ¬ pos <+: posq := hq _ hm
      refine ⟨distinctG_replaceAt pos d' d'' _ h1 rfl hr, locS_replaceAt_other q d' d'' _ posq pos h2 hr hn, ?_⟩
      rw [getAt_replaceAt_other pos posq d' d'' _ hr hn ?_, h3]
      intro ⟨r, hr'⟩
      subst hr'
      obtain ⟨x, x', e1, e2, _, _⟩ := replaceAt_append_inv posq r d' d'' _ hr
      rw [h3] at e1
      cases e1
      cases r with
      | nil => exact hn (by simp)
      | cons i r => rw [replaceAt_scalar sc hs] at e2; cases e2)
  exact ⟨key.1, by simp [getS, key.2.1, key.2.2]⟩

/-- two masked trees in which a path reads different scalars print differently, with and without `SortKeys` -/
theorem printed_ne_of_scalar (o : Json.Opts) (hi : IndentWs o) (ea eb : List (Pos × Label)) (ta tb : JV)
    (hwa : WF (C16.maskEach setM ea ta)) (hwb : WF (C16.maskEach setM eb tb))
    (hsa : ∀ e ∈ ea, ∃ v, e.2 = phLabel v) (hsb : ∀ e ∈ eb, ∃ v, e.2 = phLabel v)
    (hda : distinctG ta = true) (hdb : distinctG tb = true)
    (q : Path) (posa posb : Pos) (sa sb : JV)
    (hla : locS q ta = some posa) (hga : getAt ta posa = some sa) (hssa : isScalar sa = true)
    (hlb : locS q tb = some posb) (hgb : getAt tb posb = some sb) (hssb : isScalar sb = true)
    (hqa : ∀ e ∈ ea, ¬ e.1 <+: posa) (hqb : ∀ e ∈ eb, ¬ e.1 <+: posb) (hne : sa ≠ sb) :
    ppV o 0 0 (C16.maskEach setM ea ta) ≠ ppV o 0 0 (C16.maskEach setM eb tb) := by
  intro e
  obtain ⟨da, ga⟩ := maskEach_getS ea ta q posa sa hsa hda hla hga hssa hqa
  obtain ⟨db, gb⟩ := maskEach_getS eb tb q posb sb hsb hdb hlb hgb hssb hqb
  have hsrt := (printed_eq_iff o hi _ _ hwa hwb).mp e
  have ua := (getS_permV q _ _ (C14Json.permV_srt o 0 0 _) da sa hssa).mp ga
  have ub := (getS_permV q _ _ (C14Json.permV_srt o 0 0 _) db sb hssb).mp gb
  rw [hsrt, ub] at ua
  exact hne (Option.some.inj ua).symm

theorem targets_str (d : JV) (ss : List Step) : ∀ e ∈ targets d ss, ∃ v, e.2 = phLabel v := by
  intro e he
  obtain ⟨s, _, hs⟩ := List.mem_filterMap.mp he
  cases hp : posOf d s.1 with
  | none => rw [hp] at hs; cases hs
  | some pos => rw [hp] at hs; cases hs; exact ⟨_, rfl⟩

theorem gtargets_str (d : JV) (ss : List GStep) : ∀ e ∈ gtargets d ss, ∃ v, e.2 = phLabel v := by
  intro e he
  obtain ⟨s, _, hs⟩ := List.mem_filterMap.mp he
  unfold gtarget at hs
  cases hp : posOf d s.path with
  | none => rw [hp] at hs; cases hs
  | some pos =>
    rw [hp] at hs
    simp only [Option.bind_some] at hs
    cases hl : labelAt d pos with
    | none => rw [hl] at hs; cases hs
    | some l => rw [hl] at hs; cases hs; exact ⟨_, rfl⟩

/-- **C16, unmasked relevant, ANY options (`SortKeys` on or off), `match.Any` matchers**: the trees have no
duplicate member names, and a `#`-free path `q` reads the scalar `sa` in `a` and a DIFFERENT scalar `sb` in `b`, at
positions that are not at or below a target.  Then both calls reach the snapshot stage and the snapshot texts differ. -/
theorem unmasked_relevant_docPre_scalar (dec : Text → Dyn) (jm : Dyn → Text × Err) (jc : Cfg → Option JSONConfig)
    (c : Cfg) (as : List AnyMatcher) (ia ib a b : Text) (ta tb : JV)
    (hia : dec ia = .str a ∨ dec ia = .bytes a) (hib : dec ib = .str b ∨ dec ib = .bytes b)
    (ha : parse a = some ta) (hb : parse b = some tb) (hA : Addressed ta as) (hB : Addressed tb as)
    (hi : IndentWs (optsFor jc c)) (hda : distinctG ta = true) (hdb : distinctG tb = true)
    (q : Path) (posa posb : Pos) (sa sb : JV)
    (hla : locS q ta = some posa) (hga : getAt ta posa = some sa) (hssa : isScalar sa = true)
    (hlb : locS q tb = some posb) (hgb : getAt tb posb = some sb) (hssb : isScalar sb = true)
    (hqa : ∀ pos ∈ targetPos ta as, ¬ pos <+: posa) (hqb : ∀ pos ∈ targetPos tb as, ¬ pos <+: posb)
    (hne : sa ≠ sb) :
    ∃ ta' tb', docPre (modelValidate dec jm) (runTable (runJSON modelLib) (anyTbl as)) (modelTakeJSON jc c) ia
        (List.range (anyTbl as).length) = .ok ta' ∧
      docPre (modelValidate dec jm) (runTable (runJSON modelLib) (anyTbl as)) (modelTakeJSON jc c) ib
        (List.range (anyTbl as).length) = .ok tb' ∧ ta' ≠ tb' := by
  refine ⟨_, _, docPre_any dec jm jc c as ia a ta hia ha hA, docPre_any dec jm jc c as ib b tb hib hb hB, ?_⟩
  exact printed_ne_of_scalar _ hi _ _ ta tb (masked_wf as a ta ha hA) (masked_wf as b tb hb hB)
    (targets_str ta _) (targets_str tb _) hda hdb q posa posb sa sb hla hga hssa hlb hgb hssb
    (fun e he => hqa e.1 (by rw [← targets_pos]; exact List.mem_map_of_mem he))
    (fun e he => hqb e.1 (by rw [← targets_pos]; exact List.mem_map_of_mem he)) hne

/-- the same for tables mixing `match.Any` and `match.Type` -/
theorem unmasked_relevant_docPre_mixed_scalar (dec : Text → Dyn) (jm : Dyn → Text × Err)
    (jc : Cfg → Option JSONConfig) (c : Cfg) (tbl : List AnyM) (ia ib a b : Text) (ta tb : JV)
    (hia : dec ia = .str a ∨ dec ia = .bytes a) (hib : dec ib = .str b ∨ dec ib = .bytes b)
    (ha : parse a = some ta) (hb : parse b = some tb) (hA : GAddressed ta tbl) (hB : GAddressed tb tbl)
    (hi : IndentWs (optsFor jc c)) (hda : distinctG ta = true) (hdb : distinctG tb = true)
    (q : Path) (posa posb : Pos) (sa sb : JV)
    (hla : locS q ta = some posa) (hga : getAt ta posa = some sa) (hssa : isScalar sa = true)
    (hlb : locS q tb = some posb) (hgb : getAt tb posb = some sb) (hssb : isScalar sb = true)
    (hqa : ∀ pv ∈ gtargets ta (gstepsOf tbl), ¬ pv.1 <+: posa)
    (hqb : ∀ pv ∈ gtargets tb (gstepsOf tbl), ¬ pv.1 <+: posb) (hne : sa ≠ sb) :
    ∃ ta' tb',
      docPre (modelValidate dec jm) (runTable (runJSON modelLib) tbl) (modelTakeJSON jc c) ia (List.range tbl.length) =
        .ok ta' ∧
      docPre (modelValidate dec jm) (runTable (runJSON modelLib) tbl) (modelTakeJSON jc c) ib (List.range tbl.length) =
        .ok tb' ∧ ta' ≠ tb' := by
  obtain ⟨⟨oa, _, pa⟩, da⟩ := docPre_mixed dec jm jc c tbl ia a ta hia ha hA
  obtain ⟨⟨ob, _, pb⟩, db⟩ := docPre_mixed dec jm jc c tbl ib b tb hib hb hB
  refine ⟨_, _, da, db, ?_⟩
  exact printed_ne_of_scalar _ hi _ _ ta tb (C14Json.parse_wf _ _ pa) (C14Json.parse_wf _ _ pb)
    (gtargets_str ta _) (gtargets_str tb _) hda hdb q posa posb sa sb hla hga hssa hlb hgb hssb hqa hqb hne

/-! ## 10. non-vacuity: closed evaluations through the transliterated functions

Byte legend: `exDocA` = `{"id":7,"t":"x","n":1}`; `exDocB` = `{ "id" : [99, {"k":null}] ,"t":"yy",⏎ "n":1}` (other
white space, an ARRAY under `id`, another string under `t`); `exDocC` = `{"id":7,"t":"x","n":2}` (differs from
`exDocA` at the unmasked `n`); `exAny` = `match.Any("id", "t")` with the default placeholder `<Any value>`. -/

def exDocA : Text := [123, 34, 105, 100, 34, 58, 55, 44, 34, 116, 34, 58, 34, 120, 34, 44, 34, 110, 34, 58, 49, 125]
def exDocB : Text := [123, 32, 34, 105, 100, 34, 32, 58, 32, 91, 57, 57, 44, 32, 123, 34, 107, 34, 58, 110, 117, 108,
  108, 125, 93, 32, 44, 34, 116, 34, 58, 34, 121, 121, 34, 44, 10, 32, 34, 110, 34, 58, 49, 125]
def exDocC : Text := [123, 34, 105, 100, 34, 58, 55, 44, 34, 116, 34, 58, 34, 120, 34, 44, 34, 110, 34, 58, 50, 125]
def exTA : JV := .obj [([34, 105, 100, 34], .num [55]), ([34, 116, 34], .str [34, 120, 34]), ([34, 110, 34], .num [49])]
def exTB : JV := .obj [([34, 105, 100, 34], .arr [.num [57, 57], .obj [([34, 107, 34], .nul)]]),
  ([34, 116, 34], .str [34, 121, 121, 34]), ([34, 110, 34], .num [49])]
def exTC : JV := .obj [([34, 105, 100, 34], .num [55]), ([34, 116, 34], .str [34, 120, 34]), ([34, 110, 34], .num [50])]
def exAny : AnyMatcher := ⟨[[105, 100], [116]], [60, 65, 110, 121, 32, 118, 97, 108, 117, 101, 62], true, [65, 110, 121]⟩
/-- `{⏎ "id": "<Any value>",⏎ "n": 1,⏎ "t": "<Any value>"⏎}` (default options: keys sorted) -/
def exStored : Text := [123, 10, 32, 34, 105, 100, 34, 58, 32, 34, 60, 65, 110, 121, 32, 118, 97, 108, 117, 101, 62, 34,
  44, 10, 32, 34, 110, 34, 58, 32, 49, 44, 10, 32, 34, 116, 34, 58, 32, 34, 60, 65, 110, 121, 32, 118, 97, 108, 117, 101,
  62, 34, 10, 125]
def exStoredC : Text := [123, 10, 32, 34, 105, 100, 34, 58, 32, 34, 60, 65, 110, 121, 32, 118, 97, 108, 117, 101, 62, 34,
  44, 10, 32, 34, 110, 34, 58, 32, 50, 44, 10, 32, 34, 116, 34, 58, 32, 34, 60, 65, 110, 121, 32, 118, 97, 108, 117, 101,
  62, 34, 10, 125]
/-- `json.Marshal` is not reached by string input -/
def jm0 : Dyn → Text × Err := fun _ => ([], Err.nil)
/-- a Config with `JSON(JSONConfig{Indent: " ", SortKeys: false})` -/
def jcUnsorted : Cfg → Option JSONConfig := fun _ => some ⟨0, [32], false⟩

local instance : DecidableEq (Except Text Text)
  | .ok a, .ok b => if h : a = b then isTrue (by rw [h]) else isFalse (fun e => h (by injection e))
  | .error a, .error b => if h : a = b then isTrue (by rw [h]) else isFalse (fun e => h (by injection e))
  | .ok _, .error _ => isFalse (fun e => by cases e)
  | .error _, .ok _ => isFalse (fun e => by cases e)

theorem exA_parse : parse exDocA = some exTA := by rfl
theorem exB_parse : parse exDocB = some exTB := by rfl
theorem exC_parse : parse exDocC = some exTC := by rfl
theorem exA_addressed : Addressed exTA [exAny] := by decide +kernel
theorem exB_addressed : Addressed exTB [exAny] := by decide +kernel
theorem exC_addressed : Addressed exTC [exAny] := by decide +kernel

/-- **§4 by evaluation**: the transliterated pipeline on the modelled libraries gives the SAME `docPre` for `exDocA`
(as string) and `exDocB` (as `[]byte`), namely the text `exStored` -/
example :
    docPre (modelValidate Dyn.str jm0) (runTable (runJSON modelLib) (anyTbl [exAny])) (modelTakeJSON (fun _ => none) {})
      exDocA [0] = .ok exStored ∧
    docPre (modelValidate Dyn.bytes jm0) (runTable (runJSON modelLib) (anyTbl [exAny])) (modelTakeJSON (fun _ => none) {})
      exDocB [0] = .ok exStored := by
  refine ⟨by decide +kernel, by decide +kernel⟩

/-- the hypotheses of `masked_irrelevant_docPre` hold of the pair: the two trees carry the same labels off the
targets `[0]`, `[1]` … -/
theorem exAB_agree : ∀ q, (∀ pos ∈ targetPos exTA [exAny], ¬ pos <+: q) → labelAt exTA q = labelAt exTB q := by
  have e : targetPos exTA [exAny] = [[0], [1]] := by decide +kernel
  rw [e]
  intro q hq
  have h0 : ¬ [0] <+: q := hq [0] (by simp)
  have h1 : ¬ [1] <+: q := hq [1] (by simp)
  match q with
  | [] => rfl
  | 0 :: r => exact absurd (by simp) h0
  | 1 :: r => exact absurd (by simp) h1
  | 2 :: [] => rfl
  | 2 :: _ :: _ => rfl
  | (_ + 3) :: _ => rfl

/-- … so the theorem applies (and `masked_irrelevant_matchJSON` with it) -/
example := masked_irrelevant_docPre Dyn.str jm0 (fun _ => none) {} [exAny] exDocA exDocB exDocA exDocB exTA exTB
  (Or.inl rfl) (Or.inl rfl) exA_parse exB_parse exA_addressed (by decide +kernel) exAB_agree

/-- one `MatchJSON(t, doc, match.Any("id", "t"))` call of test "A" from a fresh process over `fs` -/
def exCall (env : Generated.Env) (fs : FS) (doc : Text) : Option St :=
  matchJSON IOFail.never (freshSt env fs) false C01World.exCaller (runTable (runJSON modelLib) (anyTbl [exAny]))
    (modelValidate Dyn.str jm0) (modelTakeJSON (fun _ => none)) {} ⟨[65], 1⟩ doc [0]

/-- **the flow, by evaluation** (`decide +kernel` through `matchJSON`, `validateJSON`, `applyJSONMatchers`,
`anyMatcher.JSON`, `takeJSONSnapshot` as transliterated, on the four models): recording `exDocA` writes the entry
`[A - 1]` with `exStored` and logs "added"; on CI, against that file, `exDocB` (masked fields changed) passes
silently and leaves the file alone; `exDocC` (unmasked `n` changed) is reported with the diff of the two texts -/
example :
    (exCall ⟨false, ""⟩ [] exDocA).map (fun s => (s.fs, s.tev)) =
      some ([(C01World.exPath, render [⟨C03.testID [65] 1, exStored⟩])], [.log Generated.go_addedMsg]) ∧
    (exCall ⟨true, ""⟩ [(C01World.exPath, render [⟨C03.testID [65] 1, exStored⟩])] exDocB).map (fun s => (s.fs, s.tev)) =
      some ([(C01World.exPath, render [⟨C03.testID [65] 1, exStored⟩])], []) ∧
    (exCall ⟨true, ""⟩ [(C01World.exPath, render [⟨C03.testID [65] 1, exStored⟩])] exDocC).map (fun s => (s.fs, s.tev)) =
      some ([(C01World.exPath, render [⟨C03.testID [65] 1, exStored⟩])],
        [.error (prettyDiff exStored exStoredC C01World.exRel 2)]) := by
  refine ⟨by decide +kernel, by decide +kernel, by decide +kernel⟩

/-- `matchJSON_any_step` on the example: the call is the history step with the text `exStored` -/
example : exCall ⟨false, ""⟩ [] exDocA =
    goStep IOFail.never {} C01World.exCaller (freshSt ⟨false, ""⟩ []) (.call [65] exStored .raw 1) := by
  have e : ppV (optsFor (fun _ => none) {}) 0 0 (masked exTA [exAny]) = exStored := by decide +kernel
  rw [← e]
  exact matchJSON_any_step IOFail.never _ C01World.exCaller Dyn.str jm0 (fun _ => none) {} [65] 1 [exAny] exDocA exDocA
    exTA (Or.inl rfl) exA_parse exA_addressed

/-- **§5 by evaluation**, without `SortKeys`: the two texts differ in the line of `n` (member order of the input kept) -/
example :
    docPre (modelValidate Dyn.str jm0) (runTable (runJSON modelLib) (anyTbl [exAny])) (modelTakeJSON jcUnsorted {})
      exDocA [0] = .ok [123, 10, 32, 34, 105, 100, 34, 58, 32, 34, 60, 65, 110, 121, 32, 118, 97, 108, 117, 101, 62, 34, 44, 10, 32, 34, 116, 34, 58, 32, 34, 60, 65, 110, 121, 32, 118, 97, 108, 117, 101, 62, 34, 44, 10, 32, 34, 110, 34, 58, 32, 49, 10, 125] ∧
    docPre (modelValidate Dyn.str jm0) (runTable (runJSON modelLib) (anyTbl [exAny])) (modelTakeJSON jcUnsorted {})
      exDocC [0] = .ok [123, 10, 32, 34, 105, 100, 34, 58, 32, 34, 60, 65, 110, 121, 32, 118, 97, 108, 117, 101, 62, 34, 44, 10, 32, 34, 116, 34, 58, 32, 34, 60, 65, 110, 121, 32, 118, 97, 108, 117, 101, 62, 34, 44, 10, 32, 34, 110, 34, 58, 32, 50, 10, 125] := by
  refine ⟨by decide +kernel, by decide +kernel⟩

/-- `unmasked_relevant_docPre` applies: position `[2]` (the member `n`) is not at or below a target and carries
`1` in one tree, `2` in the other -/
example := unmasked_relevant_docPre Dyn.str jm0 jcUnsorted {} [exAny] exDocA exDocC exDocA exDocC exTA exTC
  (Or.inl rfl) (Or.inl rfl) exA_parse exC_parse exA_addressed exC_addressed
  (by intro x hx; have : x = 32 := by simpa [optsFor, jcUnsorted, toModelOpts, optsOf] using hx
      subst this; decide)
  rfl [2] (by decide +kernel) (by decide +kernel) (by decide +kernel)

/-- `unmasked_relevant_docPre_sorted` applies under the default options (`SortKeys` on): the two masked trees are not
equal up to member order, because — their keys being pairwise different — they would print alike
(`upToOrder_printed`), and they do not -/
example := unmasked_relevant_docPre_sorted Dyn.str jm0 (fun _ => none) {} [exAny] exDocA exDocC exDocA exDocC exTA exTC
  (Or.inl rfl) (Or.inl rfl) exA_parse exC_parse exA_addressed exC_addressed default_indent_ws
  (fun h => absurd (upToOrder_printed (optsFor (fun _ => none) {}) (by decide) _ _ (by decide +kernel) (by decide +kernel) h)
    (by decide +kernel))

/-- **§6 by evaluation**: `{"user":{"name":"x","age":3},"ok":true}` with `match.Any("user.name")`: the bytes of the
target are replaced, every other byte stays; the snapshot text is the printed result -/
example :
    applyJSONMatchers (runTable (runJSON modelLib) [.any ⟨[[117, 115, 101, 114, 46, 110, 97, 109, 101]], [60, 65, 110, 121, 32, 118, 97, 108, 117, 101, 62], true, [65, 110, 121]⟩])
      [123, 34, 117, 115, 101, 114, 34, 58, 123, 34, 110, 97, 109, 101, 34, 58, 34, 120, 34, 44, 34, 97, 103, 101, 34, 58, 51, 125, 44, 34, 111, 107, 34, 58, 116, 114, 117, 101, 125] [0] =
      ([123, 34, 117, 115, 101, 114, 34, 58, 123, 34, 110, 97, 109, 101, 34, 58, 34, 60, 65, 110, 121, 32, 118, 97, 108, 117, 101, 62, 34, 44, 34, 97, 103, 101, 34, 58, 51, 125, 44, 34, 111, 107, 34, 58, 116, 114, 117, 101, 125], []) ∧
    docPre (modelValidate Dyn.str jm0) (runTable (runJSON modelLib) [.any ⟨[[117, 115, 101, 114, 46, 110, 97, 109, 101]], [60, 65, 110, 121, 32, 118, 97, 108, 117, 101, 62], true, [65, 110, 121]⟩])
      (modelTakeJSON (fun _ => none) {}) [123, 34, 117, 115, 101, 114, 34, 58, 123, 34, 110, 97, 109, 101, 34, 58, 34, 120, 34, 44, 34, 97, 103, 101, 34, 58, 51, 125, 44, 34, 111, 107, 34, 58, 116, 114, 117, 101, 125] [0] =
      .ok [123, 10, 32, 34, 111, 107, 34, 58, 32, 116, 114, 117, 101, 44, 10, 32, 34, 117, 115, 101, 114, 34, 58, 32, 123, 10, 32, 32, 34, 97, 103, 101, 34, 58, 32, 51, 44, 10, 32, 32, 34, 110, 97, 109, 101, 34, 58, 32, 34, 60, 65, 110, 121, 32, 118, 97, 108, 117, 101, 62, 34, 10, 32, 125, 10, 125] := by
  refine ⟨by decide +kernel, by decide +kernel⟩

/-- `any_one_target` applies: `user.name` addresses position `[0, 0]` -/
example := any_one_target Dyn.str jm0 (fun _ => none) {} [117, 115, 101, 114, 46, 110, 97, 109, 101] [60, 65, 110, 121, 32, 118, 97, 108, 117, 101, 62] [65, 110, 121] true
  [123, 34, 117, 115, 101, 114, 34, 58, 123, 34, 110, 97, 109, 101, 34, 58, 34, 120, 34, 44, 34, 97, 103, 101, 34, 58, 51, 125, 44, 34, 111, 107, 34, 58, 116, 114, 117, 101, 125] [123, 34, 117, 115, 101, 114, 34, 58, 123, 34, 110, 97, 109, 101, 34, 58, 34, 120, 34, 44, 34, 97, 103, 101, 34, 58, 51, 125, 44, 34, 111, 107, 34, 58, 116, 114, 117, 101, 125]
  (.obj [([34, 117, 115, 101, 114, 34], .obj [([34, 110, 97, 109, 101, 34], .str [34, 120, 34]), ([34, 97, 103, 101, 34], .num [51])]),
         ([34, 111, 107, 34], .tru)]) [0, 0] (Or.inl rfl) (by rfl) (by decide +kernel)

/-- **§7 by evaluation**: `match.Any("t")` then `match.Type[float64]("id")`.  `exDocA` and
`{"id":-0.5e3,"t":{"a":[]},"n":1}` (another number under `id`, an object under `t`) store the same text;
`{"id":"s","t":"x","n":1}` — a STRING under `id` — fails the type check and is reported with the matcher's message -/
def exMixed : List AnyM :=
  [.any ⟨[[116]], [60, 65, 110, 121, 32, 118, 97, 108, 117, 101, 62], true, [65, 110, 121]⟩,
   .type ⟨[[105, 100]], true, [84, 121, 112, 101], [102, 108, 111, 97, 116, 54, 52]⟩]
def exDocA2 : Text := [123, 34, 105, 100, 34, 58, 45, 48, 46, 53, 101, 51, 44, 34, 116, 34, 58, 123, 34, 97, 34, 58, 91, 93, 125, 44, 34, 110, 34, 58, 49, 125]
def exTA2 : JV := .obj [([34, 105, 100, 34], .num [45, 48, 46, 53, 101, 51]),
  ([34, 116, 34], .obj [([34, 97, 34], .arr [])]), ([34, 110, 34], .num [49])]

example :
    docPre (modelValidate Dyn.str jm0) (runTable (runJSON modelLib) exMixed) (modelTakeJSON (fun _ => none) {}) exDocA [0, 1] =
      .ok [123, 10, 32, 34, 105, 100, 34, 58, 32, 34, 60, 84, 121, 112, 101, 58, 102, 108, 111, 97, 116, 54, 52, 62, 34, 44, 10, 32, 34, 110, 34, 58, 32, 49, 44, 10, 32, 34, 116, 34, 58, 32, 34, 60, 65, 110, 121, 32, 118, 97, 108, 117, 101, 62, 34, 10, 125] ∧
    docPre (modelValidate Dyn.str jm0) (runTable (runJSON modelLib) exMixed) (modelTakeJSON (fun _ => none) {}) exDocA2 [0, 1] =
      .ok [123, 10, 32, 34, 105, 100, 34, 58, 32, 34, 60, 84, 121, 112, 101, 58, 102, 108, 111, 97, 116, 54, 52, 62, 34, 44, 10, 32, 34, 110, 34, 58, 32, 49, 44, 10, 32, 34, 116, 34, 58, 32, 34, 60, 65, 110, 121, 32, 118, 97, 108, 117, 101, 62, 34, 10, 125] ∧
    docPre (modelValidate Dyn.str jm0) (runTable (runJSON modelLib) exMixed) (modelTakeJSON (fun _ => none) {})
      [123, 34, 105, 100, 34, 58, 34, 115, 34, 44, 34, 116, 34, 58, 34, 120, 34, 44, 34, 110, 34, 58, 49, 125] [0, 1] =
      .error [10, 226, 156, 149, 32, 109, 97, 116, 99, 104, 46, 84, 121, 112, 101, 40, 34, 105, 100, 34, 41, 32, 45, 32, 101, 120, 112, 101, 99, 116, 101, 100, 32, 116, 121, 112, 101, 32, 102, 108, 111, 97, 116, 54, 52, 44, 32, 114, 101, 99, 101, 105, 118, 101, 100, 32, 115, 116, 114, 105, 110, 103] := by
  refine ⟨by decide +kernel, by decide +kernel, by decide +kernel⟩

theorem exA2_parse : parse exDocA2 = some exTA2 := by rfl
theorem exMixedA : GAddressed exTA exMixed := ⟨by decide, by decide +kernel, by decide +kernel⟩

/-- `masked_irrelevant_docPre_mixed` applies to the pair: same targets `[1]`, `[0]`, the same kind (a number) under `id` -/
example := masked_irrelevant_docPre_mixed Dyn.str jm0 (fun _ => none) {} exMixed exDocA exDocA2 exDocA exDocA2 exTA exTA2
  (Or.inl rfl) (Or.inl rfl) exA_parse exA2_parse exMixedA (by decide +kernel) (by decide +kernel)
  (by
    have e : gtargets exTA (gstepsOf exMixed) = [([1], phLabel [60, 65, 110, 121, 32, 118, 97, 108, 117, 101, 62]), ([0], phLabel (typePh .float64))] := by
      decide +kernel
    rw [e]
    intro q hq
    have h1 : ¬ [1] <+: q := hq ([1], _) (List.mem_cons_self ..)
    have h0 : ¬ [0] <+: q := hq ([0], _) (List.mem_cons_of_mem _ (List.mem_cons_self ..))
    match q with
    | [] => rfl
    | 0 :: r => exact absurd (by simp) h0
    | 1 :: r => exact absurd (by simp) h1
    | 2 :: [] => rfl
    | 2 :: _ :: _ => rfl
    | (_ + 3) :: _ => rfl)

/-- **§8 by evaluation**: `match.Custom("id", cb)` with a callback that appends `!` to the raw text of the value -/
def exCustom : CustomMatcher := ⟨fun raw => (raw ++ [33], Err.nil), true, [67, 117, 115, 116, 111, 109], [105, 100]⟩

example :
    docPre (modelValidate Dyn.str jm0) (runTable (runJSON modelLib) [.custom exCustom]) (modelTakeJSON (fun _ => none) {})
      exDocA [0] = .ok [123, 10, 32, 34, 105, 100, 34, 58, 32, 34, 55, 33, 34, 44, 10, 32, 34, 110, 34, 58, 32, 49, 44, 10, 32, 34, 116, 34, 58, 32, 34, 120, 34, 10, 125] := by decide +kernel

example := custom_one_target Dyn.str jm0 (fun _ => none) {} exCustom exDocA exDocA exTA [0] (Or.inl rfl) exA_parse
  (by decide +kernel) (fun _ _ => rfl)

/-- `unmasked_relevant_docPre_scalar` applies under the DEFAULT options (`SortKeys` on) to `exDocA` / `exDocC`: the path `n`
reads `1` in one and `2` in the other, at position `[2]`, which is not at or below a target -/
example := unmasked_relevant_docPre_scalar Dyn.str jm0 (fun _ => none) {} [exAny] exDocA exDocC exDocA exDocC exTA exTC
  (Or.inl rfl) (Or.inl rfl) exA_parse exC_parse exA_addressed exC_addressed default_indent_ws (by decide) (by decide)
  [.key [110] false] [2] [2] (.num [49]) (.num [50]) (by rfl) (by rfl) rfl (by rfl) (by rfl) rfl
  (by decide +kernel) (by decide +kernel) (by intro h; cases h)

/-- **the hypotheses are necessary**, by evaluation of the same transliterated pipeline.
(1) Duplicate member names (D17): in `{"a":{"x":1},"a":{"y-z":2}}` gjson finds `a.y-z` (`C16Json.dup_get_set_diverge`) but the
    stepwise lookup does not — `posOf` is `none` — and the "masked" `2` STAYS in the snapshot text, without any error.
(2) `Addressed.apart`: `match.Any("o", "o.x")` on `{"o":{"x":1}}` — the second path lies below the first target: the test
    fails with "path does not exist".
(3) A component starting with `:` (D18) and a path with `#` (D19) address nothing: they are outside `parsePath` / `plain`. -/
example :
    posOf (dupDoc [121, 45, 122]) [97, 46, 121, 45, 122] = none ∧
    docPre (modelValidate Dyn.str jm0) (runTable (runJSON modelLib) (anyTbl [⟨[[97, 46, 121, 45, 122]], [63], true, [65, 110, 121]⟩]))
      (modelTakeJSON (fun _ => none) {}) [123, 34, 97, 34, 58, 123, 34, 120, 34, 58, 49, 125, 44, 34, 97, 34, 58, 123, 34, 121, 45, 122, 34, 58, 50, 125, 125] [0] =
      .ok [123, 10, 32, 34, 97, 34, 58, 32, 123, 10, 32, 32, 34, 120, 34, 58, 32, 49, 10, 32, 125, 44, 10, 32, 34, 97, 34, 58, 32, 123, 10, 32, 32, 34, 121, 45, 122, 34, 58, 32, 50, 10, 32, 125, 10, 125] ∧
    docPre (modelValidate Dyn.str jm0) (runTable (runJSON modelLib) (anyTbl [⟨[[111], [111, 46, 120]], [63], true, [65, 110, 121]⟩]))
      (modelTakeJSON (fun _ => none) {}) [123, 34, 111, 34, 58, 123, 34, 120, 34, 58, 49, 125, 125] [0] =
      .error [10, 226, 156, 149, 32, 109, 97, 116, 99, 104, 46, 65, 110, 121, 40, 34, 111, 46, 120, 34, 41, 32, 45, 32, 112, 97, 116, 104, 32, 100, 111, 101, 115, 32, 110, 111, 116, 32, 101, 120, 105, 115, 116] ∧
    posOf exTA [58, 105, 100] = none ∧ posOf exTA [35, 46, 105, 100] = none := by
  refine ⟨by decide +kernel, by decide +kernel, by decide +kernel, by decide +kernel, by decide +kernel⟩

end GoSnaps.Tie.JsonEndToEnd
