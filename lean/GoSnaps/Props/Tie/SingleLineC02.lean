/-
Bridge between the hand-written model of the colour path (`prettyDiffNonEmpty`, whose parameter
`dmp : Text → Text → Bool` says "diffmatchpatch returned a single Equal chunk") and the transliteration of
`singlelineDiff` (Generated/FuncsIO.lean, tied in Tie/SingleLine.lean): the parameter IS the guard of the
translated function, and under the reconstruction contract of diffmatchpatch (the chunks that are not Insert
spell the first text, those that are not Delete spell the second) it can only be true for identical texts —
so the report of the colour path is non-empty iff the texts differ even WITHOUT the structural fall-back the
repair of D3 added.
-/
import GoSnaps.Props.C02
import GoSnaps.Props.Tie.SingleLine
namespace GoSnaps.Tie
open GoSnaps GoSnaps.Generated GoSnaps.GoIO

/-- the verdict the model's parameter stands for, read off the chunk list -/
def dmpVerdict (dmpDiff : Text → Text → List DiffChunk) : Text → Text → Bool :=
  fun x y => singleEqB (dmpDiff x y)

/-- the reconstruction contract of diffmatchpatch, for every pair of texts -/
def DmpContract (dmpDiff : Text → Text → List DiffChunk) : Prop :=
  ∀ x y, chunkSrc (dmpDiff x y) = x ∧ chunkDst (dmpDiff x y) = y

/-- the model's parameter is exactly "the translated `singlelineDiff` returns the empty report" -/
theorem dmpVerdict_is_translated_guard (dmpDiff : Text → Text → List DiffChunk) (e r text : Text) (i d : Int)
    (h : FuncsIO.singlelineDiff dmpDiff e r = some (text, i, d)) :
    dmpVerdict dmpDiff e r = true ↔ text = [] := by
  unfold dmpVerdict
  rw [singleEqB_iff]
  exact ((singlelineDiff_empty_iff dmpDiff e r text i d h).1).symm

/-- under the contract the verdict is false for different texts -/
theorem dmpVerdict_false_of_ne (dmpDiff : Text → Text → List DiffChunk) (hc : DmpContract dmpDiff)
    (x y : Text) (hne : x ≠ y) : dmpVerdict dmpDiff x y = false := by
  cases hv : dmpVerdict dmpDiff x y with
  | false => rfl
  | true =>
    exfalso
    obtain ⟨v, hv'⟩ := singlelineDiff_total dmpDiff x y
    obtain ⟨text, i, d⟩ := v
    have h0 : text = [] := (dmpVerdict_is_translated_guard dmpDiff x y text i d hv').mp hv
    exact hne (singlelineDiff_empty_same dmpDiff x y text i d (hc x y) hv' h0)

/-- **colour path, no fall-back needed**: with the translated `singlelineDiff` and a diffmatchpatch that honours
its contract, the report is non-empty iff the texts differ -/
theorem colour_report_iff_of_contract (dmpDiff : Text → Text → List DiffChunk) (hc : DmpContract dmpDiff)
    (e r : Text) : prettyDiffNonEmpty true false (dmpVerdict dmpDiff) e r = true ↔ e ≠ r :=
  C02.prettyDiffNonEmpty_colour_iff (dmpVerdict dmpDiff) (dmpVerdict_false_of_ne dmpDiff hc) e r

/-- non-vacuity: a chunk function that honours the contract on every input (Delete everything, Insert everything) -/
example : DmpContract (fun x y => [⟨-1, x⟩, ⟨1, y⟩]) := by
  intro x y
  simp [chunkSrc, chunkDst]

end GoSnaps.Tie
