/-
Tie by proof, part 1 of 6 (see GoSnaps/Props/Tie.lean for the conventions).
-/
import GoSnaps.Escape
import GoSnaps.Clean
import GoSnaps.Diff
import GoSnaps.Difflib
import GoSnaps.GoSem
import GoSnaps.Generated.Funcs
import GoSnaps.Lemmas.Clean
import GoSnaps.Lemmas.Diff
import GoSnaps.Props.C10
import GoSnaps.Props.C11
namespace GoSnaps.Tie
open GoSnaps

/-! ## 1. `snapshotPath` (snaps/snapshot.go)

Parameters: `trimpath` = the package variable `isTrimBathBuild`, `caller` = the result of
`baseCaller(3)`.  The Go result is `(snapPath, snapPathRel)`; the model (which assumes a
non-trimpath build) returns `(snapPath, fpRel (dir caller) snapPath)` with `fpRel : Option`. -/

/-- the model's `fpRel` has no answer exactly when one of its operands is relative -/
theorem fpRel_eq_none_iff (base targ : Text) :
    fpRel base targ = none ↔ (fpIsAbs base && fpIsAbs targ) = false := by
  unfold fpRel
  cases fpIsAbs base <;> cases fpIsAbs targ <;> simp

/-- **Tie, non-trimpath build.**  The first component is the model's; the second is the model's
relative path when it has one (`some r` ↦ `r`, Go's `err == nil`), and `""` when the model's
`fpRel` is `none` — there the transliteration takes Go's error shape `("", err)`, and `_` discards
the error (`GoSem.filepathRel`; by `fpRel_eq_none_iff` this happens only when the caller's
directory or the snapshot path is relative, which `baseCaller`'s absolute file names exclude). -/
theorem snapshotPath_tied (caller : Text) (c : Cfg) (tName : Text) (sa : Bool) :
    Generated.Funcs.snapshotPath false caller c tName sa =
      ((GoSnaps.snapshotPath c caller tName sa).1, ((GoSnaps.snapshotPath c caller tName sa).2).getD []) := by
  unfold Generated.Funcs.snapshotPath GoSnaps.snapshotPath Generated.Funcs.escapeFormat GoSnaps.escapeFormat
  simp only [C11.constructFilename_tied]
  cases sa <;> cases h : fpIsAbs c.snapsDir <;> simp [Id.run, pure, GoSem.filepathRel] <;> split <;> simp_all

/-- `-trimpath` build (outside the model's assumption): `Dir` is used as is, even when relative, and
    the "relative" path is the path itself -/
theorem snapshotPath_trimpath (caller : Text) (c : Cfg) (tName : Text) (sa : Bool) :
    Generated.Funcs.snapshotPath true caller c tName sa =
      (fpJoin [if sa then GoSnaps.escapeFormat c.snapsDir else c.snapsDir, GoSnaps.constructFilename c caller tName sa],
       fpJoin [if sa then GoSnaps.escapeFormat c.snapsDir else c.snapsDir, GoSnaps.constructFilename c caller tName sa]) := by
  unfold Generated.Funcs.snapshotPath Generated.Funcs.escapeFormat GoSnaps.escapeFormat
  cases sa <;> simp [C11.constructFilename_tied, Id.run, pure]

/-- when the model has a relative path, Go returns exactly it -/
theorem snapshotPath_rel (caller : Text) (c : Cfg) (tName : Text) (sa : Bool) (r : Text)
    (h : (GoSnaps.snapshotPath c caller tName sa).2 = some r) :
    Generated.Funcs.snapshotPath false caller c tName sa = ((GoSnaps.snapshotPath c caller tName sa).1, r) := by
  rw [snapshotPath_tied, h]; rfl

end GoSnaps.Tie
