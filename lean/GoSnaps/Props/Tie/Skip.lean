/-
Tie by proof, part 4 of 6 (see GoSnaps/Props/Tie.lean for the conventions).
-/
import GoSnaps.Escape
import GoSnaps.Clean
import GoSnaps.Diff
import GoSnaps.Difflib
import GoSnaps.GoSem
import GoSnaps.Generated.Funcs
import GoSnaps.Lemmas.Clean
import GoSnaps.Lemmas.Diff
import GoSnaps.Props.C10
import GoSnaps.Props.C11
namespace GoSnaps.Tie
open GoSnaps

/-! ## 4. `testSkipped` (snaps/skip.go)

Parameters: `regexpMatchString : Text → Text → Bool × Bool` stands for `regexp.MatchString`
(result and `err != nil`; Go discards the error with `_`), `skipped` for `skippedTests.values`.
`strings.Split(testID, " - ")[0]` is `GoSem.splitHead`, which is the model's `beforeSep` for a
non-empty separator. -/

theorem splitHead_eq_beforeSep (s sep : Text) (h : sep ≠ []) : GoSem.splitHead s sep = beforeSep s sep := by
  unfold GoSem.splitHead beforeSep
  cases indexOf s sep <;> simp [h]

/-- `for _, x := range l { if p x { return true } }` -/
theorem forIn_find_loop {α : Type} (p : α → Bool) (l : List α) :
    forIn (m := Id) l ((none, ()) : Option Bool × PUnit) (fun x _ =>
        if p x = true then pure (ForInStep.done (some true, ())) else pure (ForInStep.yield (none, ()))) =
      pure (if l.any p then some true else none, ()) := by
  induction l with
  | nil => simp
  | cons n ns ih =>
    cases hp : p n
    · simp [hp, ih]
    · simp [hp]

/-- **Tie**: whenever the model's regexp oracle answers the one query `(runOnly, testID)` like the
    function standing for `regexp.MatchString`, the model returns Go's result (never `none`) -/
theorem testSkipped_tied (o : Oracles) (re : Text → Text → Bool × Bool) (skipped : List Text)
    (testID runOnly : Text) (h : o.reMatch runOnly testID = some (re runOnly testID).1) :
    GoSnaps.testSkipped o skipped testID runOnly =
      some (Generated.Funcs.testSkipped re skipped testID runOnly) := by
  have hsep : Generated.skipSep = [32, 45, 32] := by decide
  have hsl : slash = 47 := rfl
  have key := forIn_find_loop (fun name => beforeSep testID [32, 45, 32] == name || hasPrefix (beforeSep testID [32, 45, 32]) (name ++ [47])) skipped
  unfold Generated.Funcs.testSkipped GoSnaps.testSkipped
  simp [Id.run, pure, hsep, hsl, splitHead_eq_beforeSep, h] at key ⊢
  rw [key]
  split
  · rfl
  · show some (!(re runOnly testID).fst) = some (!(re runOnly testID).fst); rfl

/-- the same with `regexp.MatchString` abstracted as a plain predicate `Text → Text → Bool`
    (an error counts as "no match", which is what Go's `matched` is when `err != nil`) -/
theorem testSkipped_tied_pred (o : Oracles) (re : Text → Text → Bool) (skipped : List Text)
    (testID runOnly : Text) (h : o.reMatch runOnly testID = some (re runOnly testID)) :
    GoSnaps.testSkipped o skipped testID runOnly =
      some (Generated.Funcs.testSkipped (fun p s => (re p s, false)) skipped testID runOnly) :=
  testSkipped_tied o (fun p s => (re p s, false)) skipped testID runOnly h

/-- a skip-listed parent decides without consulting the regexp (no oracle hypothesis) -/
theorem testSkipped_listed (o : Oracles) (re : Text → Text → Bool × Bool) (skipped : List Text)
    (testID runOnly : Text) (h : Generated.Funcs.testSkipped (fun _ _ => (true, false)) skipped testID runOnly = true) :
    GoSnaps.testSkipped o skipped testID runOnly = some true ∧
      Generated.Funcs.testSkipped re skipped testID runOnly = true := by
  have hsep : Generated.skipSep = [32, 45, 32] := by decide
  have hsl : slash = 47 := rfl
  have key := forIn_find_loop (fun name => beforeSep testID [32, 45, 32] == name || hasPrefix (beforeSep testID [32, 45, 32]) (name ++ [47])) skipped
  unfold Generated.Funcs.testSkipped GoSnaps.testSkipped at *
  simp [Id.run, pure, hsep, hsl, splitHead_eq_beforeSep] at key h ⊢
  rw [key] at h ⊢
  by_cases hx : ∃ x, x ∈ skipped ∧
      (beforeSep testID [32, 45, 32] = x ∨ hasPrefix (beforeSep testID [32, 45, 32]) (x ++ [47]) = true)
  · rw [if_pos hx]
    refine ⟨?_, rfl⟩
    intro hall
    obtain ⟨x, hm, hx⟩ := hx
    have := hall x hm
    rcases hx with hx | hx
    · exact absurd hx this.1
    · rw [this.2] at hx; cases hx
  · rw [if_neg hx] at h
    exact absurd h (by decide)

end GoSnaps.Tie
